/- The read side of the driver never waits for a consumer (C04).

`turn`'s response arm hands an item to a search by `tx.send(..)` on an UNBOUNDED channel and a result to a
single operation by a oneshot `send`: neither can block, so whatever the callers do — never read their
stream, never poll their future, are gone — every frame that has arrived is consumed by the driver, one
`drvResp` step each, until the driver ends.  In the model that is: `drvResp` is enabled whenever the driver
runs and a frame (or the end of the input) is there, whatever `chans` and `ops` hold; and `n` such steps
advance the read position by exactly `n` unless the connection ended on the way (a frame undecodable for a
search).  A driver that blocked in the response arm (a bounded item channel whose consumer is busy with
another operation on the same connection — seeded change C04d) would see neither answers nor the loss of
the connection. -/
import Ldap3V.Lemmas.ConnInert
import Ldap3V.Lemmas.ConnCalm
namespace Ldap3V.Conn

/-- a frame is there and the driver runs: the response step is enabled, observes nothing, leaves the log
alone, and either consumed exactly that frame or ended the connection with an error -/
theorem drvResp_frame (s : St) (f : Frame) (hr : s.drv = .running) (hf : s.srvLog[s.pos]? = some f) :
    ∃ s', step s .drvResp = some (s', .none) ∧ s'.srvLog = s.srvLog ∧ s'.pos = s.pos + 1 ∧
      (s'.drv = .running ∨ s'.drv = .endedErr) := by
  cases h1 : lookup s.searchmap f.id with
  | some c =>
    refine ⟨routeSearch { s with pos := s.pos + 1 } c f, by simp [step, hr, hf, h1], ?_, ?_, ?_⟩
    · exact (routeSearch_log _ c f).1
    · exact (routeSearch_log _ c f).2
    · apply routeSearch_cases (fun r => r.drv = .running ∨ r.drv = .endedErr)
      · right; rfl
      · intro b chans'
        cases b <;> (left; exact hr)
  | none =>
    cases h2 : lookup s.resultmap f.id with
    | some i =>
      exact ⟨({ s with
          pos := s.pos + 1
          resultmap := erase s.resultmap f.id
          ops := modifyOp s.ops i (fun o => if o.mail = .empty then { o with mail := .frame f } else o)
          inUse := eraseId s.inUse f.id } : St), by simp [step, hr, hf, h1, h2], rfl, rfl, Or.inl hr⟩
    | none =>
      exact ⟨({ s with pos := s.pos + 1 } : St), by simp [step, hr, hf, h1, h2], rfl, rfl, Or.inl hr⟩

/-- the end of the input, once everything before it has been consumed, ends the driver -/
theorem drvResp_end (s : St) (hr : s.drv = .running) (hf : s.srvLog[s.pos]? = none) (hl : s.link ≠ .up) :
    ∃ s', step s .drvResp = some (s', .none) ∧ s'.drv ≠ .running := by
  cases hk : s.link with
  | up => exact absurd hk hl
  | eof => exact ⟨endDriver s .endedOk, by simp [step, hr, hf, hk], by simp [endDriver]⟩
  | garbage => exact ⟨endDriver s .endedErr, by simp [step, hr, hf, hk], by simp [endDriver]⟩

/-- a driver that has ended stays where it is under response steps -/
theorem drvResp_dead (s : St) (hr : s.drv ≠ .running) : step s .drvResp = none := by
  simp [step, hr]

theorem run_drvResp_dead (s : St) (n : Nat) (hr : s.drv ≠ .running) : run s (List.replicate n .drvResp) = s := by
  induction n with
  | zero => rfl
  | succ n ih =>
    simp only [List.replicate_succ, run, List.foldl_cons, drvResp_dead s hr]
    exact ih

/-- `n` response steps: the log is untouched, and if the driver still runs afterwards it has consumed exactly
`n` frames (as many as were there) — whatever the channels and mailboxes hold -/
theorem run_drvResp (n : Nat) : ∀ (s : St), s.pos + n ≤ s.srvLog.length →
    (run s (List.replicate n .drvResp)).srvLog = s.srvLog ∧
    ((run s (List.replicate n .drvResp)).drv = .running →
      s.drv = .running ∧ (run s (List.replicate n .drvResp)).pos = s.pos + n) := by
  induction n with
  | zero => intro s _; exact ⟨rfl, fun h => ⟨h, rfl⟩⟩
  | succ n ih =>
    intro s hle
    by_cases hr : s.drv = .running
    · have hlt : s.pos < s.srvLog.length := by omega
      obtain ⟨s', hs, hlog, hpos, _⟩ := drvResp_frame s s.srvLog[s.pos] hr (List.getElem?_eq_getElem hlt)
      have e : run s (List.replicate (n + 1) .drvResp) = run s' (List.replicate n .drvResp) := by
        simp only [List.replicate_succ, run, List.foldl_cons, hs]
      rw [e]
      obtain ⟨h1, h2⟩ := ih s' (by rw [hlog, hpos]; omega)
      refine ⟨h1.trans hlog, fun h => ?_⟩
      obtain ⟨_, hp⟩ := h2 h
      exact ⟨hr, by rw [hp, hpos]; omega⟩
    · rw [run_drvResp_dead s (n + 1) hr]
      exact ⟨rfl, fun h => absurd h hr⟩

end Ldap3V.Conn

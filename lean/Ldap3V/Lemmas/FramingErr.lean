/-
The FramedRead loop on a stream that goes bad: a run of well-formed messages followed by ANY
bytes `z` is, under every segmentation, the frames of the messages followed by what the loop does
with `z` alone; when `z` begins with an element the decoder rejects, that is the error state.
Also: the invariants of the loop between reads (`Drained`, "the buffer is a suffix of the stream").
-/
import Ldap3V.Lemmas.FramingWF
import Ldap3V.Lemmas.EnvelopeShape
namespace Ldap3V
open Spec

/-- the loop takes a run of well-formed messages off the front of the buffer, whatever follows -/
theorem drain_wf_then : ∀ (ms : List (WireMsg × Bytes)) (z : Bytes) (acc : List (Int × Tlv × List Control)) (F : Nat),
    (∀ p ∈ ms, p.1.WF ∧ Enc p.1.tlv p.2) →
    ((ms.map (·.2)).flatten ++ z).length < 18446744073709551616 →
    ((ms.map (·.2)).flatten ++ z).length < F →
    Framing.drain F { buf := (ms.map (·.2)).flatten ++ z, frames := acc, errored := false } =
      Framing.drain (z.length + 1) { buf := z, frames := acc ++ ms.map (·.1.frame), errored := false }
  | [], z, acc, F, _, _, hF => by
    simp only [List.map_nil, List.flatten_nil, List.nil_append, List.append_nil] at hF ⊢
    exact drain_fuel _ _ _ hF (Nat.lt_succ_self _)
  | (m, e) :: rest, z, acc, F, hwf, hsz, hF => by
    obtain ⟨G, rfl⟩ : ∃ G, F = G + 1 := ⟨F - 1, by omega⟩
    have hme := hwf (m, e) (by simp)
    simp only [List.map_cons, List.flatten_cons, List.append_assoc] at hsz hF ⊢
    rw [drain_succ]
    simp only [Bool.false_eq_true, if_false]
    rw [decodeInner_msg m e _ hme.1 hme.2 hsz]
    simp only [List.drop_left']
    have h2 := enc_length_ge m.tlv e hme.2
    have ih := drain_wf_then rest z (acc ++ [m.frame]) G (fun p hp => hwf p (by simp [hp]))
      (by simp only [List.length_append] at hsz ⊢; omega)
      (by simp only [List.length_append] at hF ⊢; omega)
    rw [ih]
    simp

/-- every segmentation of `e₁ ++ … ++ eₙ ++ z`: the frames of the `n` messages, then whatever one
read of `z` alone does -/
theorem feedAll_wf_then (ms : List (WireMsg × Bytes)) (z : Bytes) (cs : List Bytes)
    (hwf : ∀ p ∈ ms, p.1.WF ∧ Enc p.1.tlv p.2)
    (hsz : ((ms.map (·.2)).flatten ++ z).length < 18446744073709551616)
    (hc : cs.flatten = (ms.map (·.2)).flatten ++ z) :
    Framing.feedAll {} cs = Framing.feed { frames := ms.map (·.1.frame) } z := by
  rw [feedAll_flatten {} cs init_drained, hc]
  unfold Framing.feed
  simp only [Bool.false_eq_true, if_false, List.nil_append]
  have := drain_wf_then ms z [] _ hwf hsz (Nat.lt_succ_self _)
  simpa using this

/-- one read that begins with a rejected element: the error state, nothing delivered, buffer gone -/
theorem feed_rejected (fr : List (Int × Tlv × List Control)) (bad y : Bytes) (hb : decodeInner bad = .decodeError) :
    Framing.feed { frames := fr } (bad ++ y) = { buf := [], frames := fr, errored := true } := by
  unfold Framing.feed
  simp only [Bool.false_eq_true, if_false, List.nil_append]
  rw [drain_succ]
  simp only [Bool.false_eq_true, if_false, decodeInner_error_append bad y hb]

/-- a complete outer element that is not an envelope is rejected (the decoder-level statement is
`C11_complete_non_envelope_rejected`; repeated here so that Lemmas/ does not import Props/) -/
theorem decodeInner_complete_non_envelope (bs : Bytes) (ha : OuterArrived bs)
    (hn : ∀ t rest id op cs, parseTag bs = .ok t rest → ¬ IsEnvelope t id op cs) :
    decodeInner bs = .decodeError := by
  cases h : decodeInner bs with
  | needMore => exact absurd ha ((decodeInner_needMore_iff bs).mp h)
  | decodeError => rfl
  | frame id op cs n =>
    obtain ⟨t, rest, hp, hi, _⟩ := (decodeInner_frame_iff bs id op cs n).mp h
    exact absurd hi (hn t rest id op cs hp)

theorem feedAll_wf_then_rejected (ms : List (WireMsg × Bytes)) (bad y : Bytes) (cs : List Bytes)
    (hwf : ∀ p ∈ ms, p.1.WF ∧ Enc p.1.tlv p.2)
    (hsz : ((ms.map (·.2)).flatten ++ bad ++ y).length < 18446744073709551616)
    (hb : decodeInner bad = .decodeError)
    (hc : cs.flatten = (ms.map (·.2)).flatten ++ bad ++ y) :
    Framing.feedAll {} cs = { buf := [], frames := ms.map (·.1.frame), errored := true } := by
  rw [feedAll_wf_then ms (bad ++ y) cs hwf (by rw [← List.append_assoc]; exact hsz) (by rw [hc, List.append_assoc]),
    feed_rejected _ bad y hb]

/-! ### between reads -/

theorem feedAll_drained (s : Framing) (cs : List Bytes) (h : Drained s) : Drained (s.feedAll cs) := by
  induction cs generalizing s with
  | nil => exact h
  | cons c cs ih => exact ih (s.feed c) (feed_drained s c h)

/-- the loop only ever removes bytes from the front of the buffer: while no error has occurred the
buffer is what is left of `buf ++ everything read` -/
theorem drain_suffix : ∀ (f : Nat) (s : Framing), (Framing.drain f s).errored = false →
    ∃ pre, s.buf = pre ++ (Framing.drain f s).buf
  | 0, s, _ => ⟨[], rfl⟩
  | f + 1, s, he => by
    rw [drain_succ] at he ⊢
    split at he
    · next h => rw [if_pos h]; exact ⟨[], rfl⟩
    · next h =>
      rw [if_neg h]
      cases hd : decodeInner s.buf with
      | needMore => exact ⟨[], rfl⟩
      | decodeError => rw [hd] at he; cases he
      | frame id op cs n =>
        rw [hd] at he
        simp only at he ⊢
        obtain ⟨pre, hp⟩ := drain_suffix f _ he
        simp only at hp
        refine ⟨s.buf.take n ++ pre, ?_⟩
        rw [List.append_assoc, ← hp, List.take_append_drop]

theorem feed_suffix (s : Framing) (c : Bytes) (he : (s.feed c).errored = false) :
    ∃ pre, s.buf ++ c = pre ++ (s.feed c).buf := by
  unfold Framing.feed at he ⊢
  split at he
  · next h => rw [h] at he; cases he
  · next h =>
    rw [if_neg h]
    obtain ⟨pre, hp⟩ := drain_suffix _ _ he
    exact ⟨pre, hp⟩

theorem feed_errored_stays (s : Framing) (c : Bytes) (h : s.errored = true) : (s.feed c).errored = true := by
  simp [Framing.feed, h]

theorem feedAll_errored_stays (s : Framing) (cs : List Bytes) (h : s.errored = true) :
    (s.feedAll cs).errored = true := by
  induction cs generalizing s with
  | nil => exact h
  | cons c cs ih => exact ih (s.feed c) (feed_errored_stays s c h)

theorem feedAll_suffix (s : Framing) (cs : List Bytes) (he : (s.feedAll cs).errored = false) :
    ∃ pre, s.buf ++ cs.flatten = pre ++ (s.feedAll cs).buf := by
  induction cs generalizing s with
  | nil => exact ⟨[], by simp [Framing.feedAll]⟩
  | cons c cs ih =>
    have hs : Framing.feedAll s (c :: cs) = Framing.feedAll (s.feed c) cs := rfl
    rw [hs] at he ⊢
    have he1 : (s.feed c).errored = false := by
      cases h : (s.feed c).errored with
      | false => rfl
      | true => rw [feedAll_errored_stays _ cs h] at he; cases he
    obtain ⟨p1, h1⟩ := feed_suffix s c he1
    obtain ⟨p2, h2⟩ := ih (s.feed c) he
    refine ⟨p1 ++ p2, ?_⟩
    rw [List.flatten_cons, ← List.append_assoc, h1, List.append_assoc, h2, List.append_assoc]

end Ldap3V

/- `non_eq`, `extensible` and `item` against the grammar `GItem .lib`. -/
import Ldap3V.Lemmas.FilterEq
namespace Ldap3V.Filter
open Ldap3V.Spec.Filter
open Ldap3V.Spec (Filter)

/-! ## after an attribute description -/

theorem attr_colon_stop (x : Bytes) : AttrStop (0x3A :: x) := by
  simp [AttrStop, isAlnumHyphen, isAlnum, isAlpha, isDigit]

theorem oid_colon_stop (x : Bytes) : OidStop (0x3A :: x) := by
  simp [OidStop, isAlnumHyphen, isAlnum, isAlpha, isDigit]

theorem eq_err_of_attr {i a : Bytes} {c : UInt8} {rest : Bytes}
    (h : attributedescription i = .ok a (c :: rest)) (hc : c ≠ 0x3D) : eq i = .err := by
  rw [eq_def, andThen_eq h]
  apply andThen_err
  rw [tag1_cons]; simp [Ne.symm hc]

theorem eq_err_of_attr_err {i : Bytes} (h : attributedescription i = .err) : eq i = .err := by
  rw [eq_def]; exact andThen_err h

/-! ## `non_eq` -/

def opTag : P Bytes := alt (tag [0x3E, 0x3D]) (alt (tag [0x3C, 0x3D]) (tag [0x7E, 0x3D]))

theorem nonEq_def : nonEq =
    andThen attributedescription fun attr =>
    andThen opTag fun op =>
    andThen unescaped fun value => fun i =>
      match filtertag op with
      | some id => .ok (.sequence 2 id [octets attr, octets value]) i
      | none => .panic := rfl

theorem opTag_ok {i op r : Bytes} (h : opTag i = .ok op r) :
    (op = [0x3E, 0x3D] ∨ op = [0x3C, 0x3D] ∨ op = [0x7E, 0x3D]) ∧ i = op ++ r := by
  rcases alt_ok h with h | ⟨_, h⟩
  · obtain ⟨e, e'⟩ := tag_ok h; exact ⟨Or.inl e, by rw [e]; exact e'⟩
  · rcases alt_ok h with h | ⟨_, h⟩
    · obtain ⟨e, e'⟩ := tag_ok h; exact ⟨Or.inr (Or.inl e), by rw [e]; exact e'⟩
    · obtain ⟨e, e'⟩ := tag_ok h; exact ⟨Or.inr (Or.inr e), by rw [e]; exact e'⟩

theorem np_opTag : NP opTag := np_alt (np_tag _) (np_alt (np_tag _) (np_tag _))

theorem np_nonEq : NP nonEq := by
  rw [nonEq_def]
  refine np_andThen np_attributedescription fun a => np_andThen_of np_opTag fun i op r h => ?_
  obtain ⟨hop, _⟩ := opTag_ok h
  refine np_andThen np_unescaped (fun v => ?_) r
  intro j
  rcases hop with rfl | rfl | rfl <;> simp [filtertag]

theorem nonEq_err_of_attr {i a : Bytes} {c : UInt8} {rest : Bytes}
    (h : attributedescription i = .ok a (c :: rest)) (h1 : c ≠ 0x3E) (h2 : c ≠ 0x3C) (h3 : c ≠ 0x7E) :
    nonEq i = .err := by
  rw [nonEq_def, andThen_eq h]
  apply andThen_err
  unfold opTag
  rw [alt_right (tag_err_of_head rfl (Ne.symm h1)), alt_right (tag_err_of_head rfl (Ne.symm h2))]
  exact tag_err_of_head rfl (Ne.symm h3)

theorem nonEq_err_of_attr_err {i : Bytes} (h : attributedescription i = .err) : nonEq i = .err := by
  rw [nonEq_def]; exact andThen_err h

theorem nonEq_sound {i : Bytes} {t : Tag} {r : Bytes} (h : nonEq i = .ok t r) :
    ∃ f s, i = s ++ r ∧ GItem .lib f s ∧ t.toTlv = toTlv f := by
  rw [nonEq_def] at h
  obtain ⟨a, r1, h1, h⟩ := andThen_ok h
  obtain ⟨op, r2, h2, h⟩ := andThen_ok h
  obtain ⟨v, r3, h3, h⟩ := andThen_ok h
  obtain ⟨e1, ha⟩ := attributedescription_sound h1
  obtain ⟨hop, e2⟩ := opTag_ok h2
  obtain ⟨sv, e3, hv, _⟩ := unescaped_sound h3
  rcases hop with rfl | rfl | rfl
  · simp [filtertag] at h
    obtain ⟨rfl, rfl⟩ := h
    exact ⟨.ge a v, a ++ 0x3E :: 0x3D :: sv, by rw [e1, e2, e3]; simp, .ge ha hv,
      by simp [Tag.toTlv, Tag.toTlvList, octets, toTlv, avaKids]⟩
  · simp [filtertag] at h
    obtain ⟨rfl, rfl⟩ := h
    exact ⟨.le a v, a ++ 0x3C :: 0x3D :: sv, by rw [e1, e2, e3]; simp, .le ha hv,
      by simp [Tag.toTlv, Tag.toTlvList, octets, toTlv, avaKids]⟩
  · simp [filtertag] at h
    obtain ⟨rfl, rfl⟩ := h
    exact ⟨.approx a v, a ++ 0x7E :: 0x3D :: sv, by rw [e1, e2, e3]; simp, .approx ha hv,
      by simp [Tag.toTlv, Tag.toTlvList, octets, toTlv, avaKids]⟩

theorem nonEq_complete {a v sv r : Bytes} {c : UInt8} {id : Nat} (ha : IsAttrDesc .lib a) (hv : RVal v sv)
    (hr : ItemStop r) (hc : isAlnumHyphen c = false ∧ c ≠ 0x2E ∧ c ≠ 0x3B)
    (hop : ∀ rest, opTag (c :: 0x3D :: rest) = .ok [c, 0x3D] rest) (hid : filtertag [c, 0x3D] = some id) :
    nonEq ((a ++ c :: 0x3D :: sv) ++ r) = .ok (.sequence 2 id [octets a, octets v]) r := by
  have h1 : attributedescription (a ++ (c :: 0x3D :: (sv ++ r))) = .ok a _ :=
    attributedescription_complete ha hc
  have h3 : unescaped (sv ++ r) = .ok v r := unescaped_complete hv hr.val
  have e : (a ++ c :: 0x3D :: sv) ++ r = a ++ (c :: 0x3D :: (sv ++ r)) := by simp
  rw [e, nonEq_def, andThen_eq h1, andThen_eq (hop _), andThen_eq h3]
  simp [hid]

/-! ## `extensible` -/

def kwTag : P Bytes := tagNoCase [0x3A, 0x64, 0x6E]
def dnFlag1 : P (Option Bytes) := opt (terminated kwTag (peek (tag [0x3A])))
def dnFlag2 : P (Option Bytes) := opt (terminated kwTag (peek (preceded (tag [0x3A]) attributetype)))
def colonType : P Bytes := preceded (tag [0x3A]) attributetype

theorem attrDnMrule_def : attrDnMrule =
    andThen attributedescription fun attr =>
    andThen dnFlag1 fun dn =>
    andThen (opt colonType) fun mrule =>
    andThen (tag [0x3A, 0x3D]) fun _ =>
    andThen unescaped fun value =>
    ret (extensibleTag mrule (some attr) value dn.isSome) := rfl

theorem dnMrule_def : dnMrule =
    andThen dnFlag2 fun dn =>
    andThen colonType fun mrule =>
    andThen (tag [0x3A, 0x3D]) fun _ =>
    andThen unescaped fun value =>
    ret (extensibleTag (some mrule) none value dn.isSome) := rfl

theorem np_kwTag : NP kwTag := by
  intro i; unfold kwTag tagNoCase; split <;> simp

theorem np_colonType : NP colonType := np_preceded (np_tag _) np_attributetype

theorem np_attrDnMrule : NP attrDnMrule := by
  rw [attrDnMrule_def]
  exact np_andThen np_attributedescription fun _ =>
    np_andThen (np_opt (np_terminated np_kwTag (np_peek (np_tag _)))) fun _ =>
    np_andThen (np_opt np_colonType) fun _ => np_andThen (np_tag _) fun _ =>
    np_andThen np_unescaped fun _ => np_ret _

theorem np_dnMrule : NP dnMrule := by
  rw [dnMrule_def]
  exact np_andThen (np_opt (np_terminated np_kwTag (np_peek np_colonType))) fun _ =>
    np_andThen np_colonType fun _ => np_andThen (np_tag _) fun _ =>
    np_andThen np_unescaped fun _ => np_ret _

theorem colonType_sound {i m r : Bytes} (h : colonType i = .ok m r) : i = 0x3A :: m ++ r ∧ IsOid .lib m := by
  obtain ⟨_, r1, h1, h2⟩ := andThen_ok h
  obtain ⟨_, e1⟩ := tag_ok h1
  obtain ⟨e2, hm⟩ := attributetype_sound h2
  exact ⟨by rw [e1, e2]; simp, hm⟩

theorem colonType_complete {m r : Bytes} (hm : IsOid .lib m) (hr : OidStop r) :
    colonType (0x3A :: m ++ r) = .ok m r := by
  have : tag [0x3A] (0x3A :: m ++ r) = .ok [0x3A] (m ++ r) := tag_append [0x3A] (m ++ r)
  unfold colonType preceded
  rw [andThen_eq this]
  exact attributetype_complete hm hr

/-- `:=…` is not `: type` -/
theorem colonType_err_eq (x : Bytes) : colonType (0x3A :: 0x3D :: x) = .err := by
  have : tag [0x3A] (0x3A :: 0x3D :: x) = .ok [0x3A] (0x3D :: x) := tag_append [0x3A] (0x3D :: x)
  unfold colonType preceded
  rw [andThen_eq this]
  exact attributetype_err_of_head (by decide)

theorem colonType_err_of_head {c : UInt8} {x : Bytes} (h : c ≠ 0x3A) : colonType (c :: x) = .err := by
  unfold colonType preceded
  exact andThen_err (tag_err_of_head rfl (Ne.symm h))

theorem colonType_nil : colonType [] = .err := by
  unfold colonType preceded
  exact andThen_err (tag1_nil _)

/-! ### `tag_no_case(":dn")` -/

def lcChk (n : Nat) : Bool :=
  (lowercaseByte n.toUInt8 == lowercaseByte 0x3A) == (n.toUInt8 == 0x3A) &&
  (lowercaseByte n.toUInt8 == lowercaseByte 0x64) == (n.toUInt8 == 0x64 || n.toUInt8 == 0x44) &&
  (lowercaseByte n.toUInt8 == lowercaseByte 0x6E) == (n.toUInt8 == 0x6E || n.toUInt8 == 0x4E)

set_option maxRecDepth 100000 in
theorem lcChk_all : ∀ n, n < 256 → lcChk n = true := by decide

theorem lc_facts (c : UInt8) :
    ((lowercaseByte c == lowercaseByte 0x3A) = (c == 0x3A)) ∧
    ((lowercaseByte c == lowercaseByte 0x64) = (c == 0x64 || c == 0x44)) ∧
    ((lowercaseByte c == lowercaseByte 0x6E) = (c == 0x6E || c == 0x4E)) := by
  have := lcChk_all c.toNat c.toNat_lt
  have e : c.toNat.toUInt8 = c := by simp
  unfold lcChk at this
  rw [e] at this
  simp only [Bool.and_eq_true, beq_iff_eq] at this
  exact ⟨this.1.1, this.1.2, this.2⟩

theorem isDnKw_lib (k : Bytes) : isDnKw .lib k = true ↔
    k = [0x64, 0x6E] ∨ k = [0x44, 0x4E] ∨ k = [0x44, 0x6E] ∨ k = [0x64, 0x4E] := by
  simp [isDnKw, Dialect.lib, or_assoc]

theorem isDnKw_pair (c1 c2 : UInt8) : isDnKw .lib [c1, c2] =
    ((c1 == 0x64 || c1 == 0x44) && (c2 == 0x6E || c2 == 0x4E)) := by
  rw [Bool.eq_iff_iff]
  simp only [isDnKw_lib, Bool.and_eq_true, Bool.or_eq_true, beq_iff_eq, List.cons.injEq, and_true]
  constructor
  · rintro (⟨rfl, rfl⟩ | ⟨rfl, rfl⟩ | ⟨rfl, rfl⟩ | ⟨rfl, rfl⟩) <;> simp
  · rintro ⟨rfl | rfl, rfl | rfl⟩ <;> simp

theorem eqNoCase_kw (c0 c1 c2 : UInt8) (r : Bytes) :
    eqNoCase [0x3A, 0x64, 0x6E] (c0 :: c1 :: c2 :: r) = (c0 == 0x3A && isDnKw .lib [c1, c2]) := by
  simp only [eqNoCase, (lc_facts c0).1, (lc_facts c1).2.1, (lc_facts c2).2.2, isDnKw_pair, Bool.and_true]

theorem kwTag_ok {i x r : Bytes} (h : kwTag i = .ok x r) :
    ∃ c1 c2, i = 0x3A :: c1 :: c2 :: r ∧ isDnKw .lib [c1, c2] = true := by
  unfold kwTag tagNoCase at h
  split at h
  · rename_i he
    cases h
    match i, he with
    | [], he => simp [eqNoCase] at he
    | [_], he => simp [eqNoCase] at he
    | [_, _], he => simp [eqNoCase] at he
    | c0 :: c1 :: c2 :: r, he =>
      rw [eqNoCase_kw] at he
      simp only [Bool.and_eq_true, beq_iff_eq] at he
      exact ⟨c1, c2, by rw [he.1]; rfl, he.2⟩
  · cases h

theorem kwTag_eq {kw : Bytes} (hk : isDnKw .lib kw = true) (r : Bytes) :
    kwTag (0x3A :: kw ++ r) = .ok (0x3A :: kw) r := by
  rcases (isDnKw_lib kw).mp hk with rfl | rfl | rfl | rfl <;>
    (unfold kwTag tagNoCase; rw [if_pos (by rw [List.cons_append, List.cons_append, List.cons_append, eqNoCase_kw]; decide)]; rfl)

theorem kwTag_err_of {i : Bytes} (h : ∀ c1 c2 r, i = 0x3A :: c1 :: c2 :: r → isDnKw .lib [c1, c2] = false) :
    kwTag i = .err := by
  cases hk : kwTag i with
  | err => rfl
  | panic => exact absurd hk (np_kwTag i)
  | ok x r =>
    obtain ⟨c1, c2, e, hkw⟩ := kwTag_ok hk
    rw [h c1 c2 r e] at hkw; cases hkw

/-- a successful `terminated(tag_no_case(":dn"), peek(q))` -/
theorem dnTerm_ok {α : Type} {q : P α} {i x r : Bytes}
    (h : terminated kwTag (peek q) i = .ok x r) :
    ∃ kw, i = 0x3A :: kw ++ r ∧ isDnKw .lib kw = true ∧ ∃ a r', q r = .ok a r' := by
  obtain ⟨_, r1, h1, h2⟩ := andThen_ok h
  obtain ⟨a, r2, h3, h4⟩ := andThen_ok h2
  obtain ⟨_, e⟩ := ret_ok h4
  obtain ⟨e2, r', hq⟩ := peek_ok h3
  obtain ⟨c1, c2, e1, hk⟩ := kwTag_ok h1
  subst e e2
  exact ⟨[c1, c2], by rw [e1]; rfl, hk, a, r', hq⟩

theorem dnTerm_eq {α : Type} {q : P α} {kw r : Bytes} {a : α} {r' : Bytes} (hk : isDnKw .lib kw = true)
    (hq : q r = .ok a r') : terminated kwTag (peek q) (0x3A :: kw ++ r) = .ok (0x3A :: kw) r := by
  unfold terminated
  rw [andThen_eq (kwTag_eq hk r), andThen_eq (peek_eq hq)]
  rfl

/-- `terminated(tag_no_case(":dn"), peek(q))` fails on `: m : …` when `m` is an oid, `q` fails on
everything not starting with `:`, and on what follows `m` in case `m` is spelled like the keyword -/
theorem dnTerm_err {α : Type} {q : P α} {m y : Bytes} (hm : IsOid .lib m)
    (hq : ∀ c z, c ≠ 0x3A → q (c :: z) = .err) (hq0 : isDnKw .lib m = true → q (0x3A :: y) = .err) :
    terminated kwTag (peek q) (0x3A :: m ++ (0x3A :: y)) = .err := by
  obtain ⟨⟨c0, t0, e0, _⟩, hch⟩ := oid_chars hm
  cases hk : kwTag (0x3A :: m ++ (0x3A :: y)) with
  | panic => exact absurd hk (np_kwTag _)
  | err => unfold terminated; exact andThen_err hk
  | ok x r =>
    obtain ⟨c1, c2, e, hkw⟩ := kwTag_ok hk
    unfold terminated
    rw [andThen_eq hk]
    apply andThen_err
    apply peek_err
    match m, hm, hch, hq0, e with
    | [], _, _, _, _ => cases e0
    | [d1], _, _, _, e =>
      simp at e
      obtain ⟨rfl, rfl, _⟩ := e
      rw [isDnKw_pair] at hkw; simp at hkw
    | [d1, d2], _, _, hq0, e =>
      simp at e
      obtain ⟨rfl, rfl, rfl⟩ := e
      exact hq0 hkw
    | d1 :: d2 :: d3 :: m', _, hch, _, e =>
      simp at e
      obtain ⟨rfl, rfl, rfl⟩ := e
      have h3 : d3 ≠ 0x3A := by
        rcases hch d3 (by simp) with h | h
        · intro e; subst e; simp [isAlnumHyphen, isAlnum, isAlpha, isDigit] at h
        · intro e; rw [e] at h; cases h
      exact hq d3 _ h3

theorem extTag_toTlv (mrule attr : Option Bytes) (v : Bytes) (dn : Bool) :
    (extensibleTag mrule attr v dn).toTlv = toTlv (.ext mrule attr v dn) := by
  cases mrule <;> cases attr <;> cases dn <;>
    simp [extensibleTag, Tag.toTlv, Tag.toTlvList, toTlv, optPrim, boolOctet]

theorem attrDnMrule_sound {i : Bytes} {t : Tag} {r : Bytes} (h : attrDnMrule i = .ok t r) :
    ∃ f s, i = s ++ r ∧ GItem .lib f s ∧ t.toTlv = toTlv f := by
  rw [attrDnMrule_def] at h
  obtain ⟨a, r1, h1, h⟩ := andThen_ok h
  obtain ⟨dn, r2, h2, h⟩ := andThen_ok h
  obtain ⟨mrule, r3, h3, h⟩ := andThen_ok h
  obtain ⟨_, r4, h4, h⟩ := andThen_ok h
  obtain ⟨v, r5, h5, h⟩ := andThen_ok h
  obtain ⟨rfl, rfl⟩ := ret_ok h
  obtain ⟨e1, ha⟩ := attributedescription_sound h1
  obtain ⟨_, e4⟩ := tag_ok h4
  obtain ⟨sv, e5, hv, _⟩ := unescaped_sound h5
  -- the rule part
  have hrule : r2 = optStr [0x3A] mrule ++ r3 ∧ (∀ m, mrule = some m → IsOid .lib m) := by
    rcases opt_ok h3 with ⟨m, rfl, hm⟩ | ⟨rfl, rfl, _⟩
    · obtain ⟨e, ho⟩ := colonType_sound hm
      exact ⟨by rw [e]; simp [optStr], fun m' e' => by cases e'; exact ho⟩
    · exact ⟨by simp [optStr], fun m e => by cases e⟩
  obtain ⟨e3, hoid⟩ := hrule
  rcases opt_ok h2 with ⟨x, rfl, hx⟩ | ⟨rfl, e2, herr⟩
  · obtain ⟨kw, e2, hk, _⟩ := dnTerm_ok hx
    refine ⟨.ext mrule (some a) v true, a ++ ((if true then 0x3A :: kw else []) ++
      (optStr [0x3A] mrule ++ 0x3A :: 0x3D :: sv)), ?_, ?_, extTag_toTlv _ _ _ _⟩
    · rw [e1, e2, e3, e4, e5]; simp
    · exact GItem.extAttr ha (fun _ => hk) hoid (fun h => by cases h) hv
  · subst e2
    refine ⟨.ext mrule (some a) v false, a ++ ((if false then 0x3A :: [] else []) ++
      (optStr [0x3A] mrule ++ 0x3A :: 0x3D :: sv)), ?_, ?_, extTag_toTlv _ _ _ _⟩
    · rw [e1, e3, e4, e5]; simp
    · refine GItem.extAttr ha (fun h => by cases h) hoid ?_ hv
      intro _ m hm
      subst hm
      -- had the rule been spelled like the keyword, the flag parser would have matched
      cases hk : isDnKw .lib m with
      | false => rfl
      | true =>
        have : terminated kwTag (peek (tag [0x3A])) r2 = .ok (0x3A :: m) r3 := by
          rw [e3, e4]
          exact dnTerm_eq (q := tag [0x3A]) hk (tag_append [0x3A] (0x3D :: r4))
        rw [this] at herr
        cases herr

theorem attrDnMrule_complete {a v sv kw r : Bytes} {rule : Option Bytes} {dn : Bool}
    (ha : IsAttrDesc .lib a) (hkw : dn = true → isDnKw .lib kw = true) (hoid : ∀ m, rule = some m → IsOid .lib m)
    (hnd : dn = false → ∀ m, rule = some m → isDnKw .lib m = false) (hv : RVal v sv) (hr : ItemStop r) :
    ∃ t, attrDnMrule ((a ++ ((if dn then 0x3A :: kw else []) ++ (optStr [0x3A] rule ++ 0x3A :: 0x3D :: sv))) ++ r)
      = .ok t r ∧ t.toTlv = toTlv (.ext rule (some a) v dn) := by
  refine ⟨extensibleTag rule (some a) v dn, ?_, extTag_toTlv _ _ _ _⟩
  -- Y: what follows the optional `:dn`
  have hY : ∃ Y, optStr [0x3A] rule ++ 0x3A :: 0x3D :: (sv ++ r) = 0x3A :: Y := by
    cases rule <;> simp [optStr]
  obtain ⟨Y, eY⟩ := hY
  have hrule : opt colonType (0x3A :: Y) = .ok rule (0x3A :: 0x3D :: (sv ++ r)) := by
    rw [← eY]
    cases rule with
    | none => simp only [optStr, List.nil_append]; exact opt_none (colonType_err_eq _)
    | some m =>
      simp only [optStr]
      exact opt_some (by simpa using colonType_complete (hoid m rfl) (oid_colon_stop (0x3D :: (sv ++ r))))
  have htail : ∀ dnv : Option Bytes, dnv.isSome = dn →
      (andThen (opt colonType) fun mrule => andThen (tag [0x3A, 0x3D]) fun _ => andThen unescaped fun value =>
        ret (extensibleTag mrule (some a) value dnv.isSome)) (0x3A :: Y) =
      .ok (extensibleTag rule (some a) v dn) r := by
    intro dnv hd
    have h4 : tag [0x3A, 0x3D] (0x3A :: 0x3D :: (sv ++ r)) = .ok [0x3A, 0x3D] (sv ++ r) :=
      tag_append [0x3A, 0x3D] (sv ++ r)
    rw [andThen_eq hrule, andThen_eq h4, andThen_eq (unescaped_complete hv hr.val), hd]
    rfl
  cases dn with
  | true =>
    have hk := hkw rfl
    have e : (a ++ ((if true = true then 0x3A :: kw else []) ++
        (optStr [0x3A] rule ++ 0x3A :: 0x3D :: sv))) ++ r = a ++ (0x3A :: kw ++ (0x3A :: Y)) := by
      rw [← eY]; simp
    have h1 : attributedescription (a ++ (0x3A :: kw ++ (0x3A :: Y))) = .ok a _ :=
      attributedescription_complete ha (attr_colon_stop _)
    have h2 : dnFlag1 (0x3A :: kw ++ (0x3A :: Y)) = .ok (some (0x3A :: kw)) (0x3A :: Y) :=
      opt_some (dnTerm_eq (q := tag [0x3A]) hk (tag_append [0x3A] Y))
    rw [e, attrDnMrule_def, andThen_eq h1, andThen_eq h2]
    exact htail _ rfl
  | false =>
    have e : (a ++ ((if false = true then 0x3A :: kw else []) ++
        (optStr [0x3A] rule ++ 0x3A :: 0x3D :: sv))) ++ r = a ++ (0x3A :: Y) := by
      rw [← eY]; simp
    have h1 : attributedescription (a ++ (0x3A :: Y)) = .ok a _ :=
      attributedescription_complete ha (attr_colon_stop _)
    have h2 : dnFlag1 (0x3A :: Y) = .ok none (0x3A :: Y) := by
      apply opt_none
      cases rule with
      | none =>
        simp only [optStr, List.nil_append] at eY
        cases eY
        unfold terminated
        refine andThen_err (kwTag_err_of ?_)
        intro c1 c2 r' e
        simp at e
        rw [← e.1, isDnKw_pair]; simp
      | some m =>
        simp only [optStr] at eY
        have eY' : 0x3A :: Y = 0x3A :: m ++ (0x3A :: 0x3D :: (sv ++ r)) := by rw [← eY]; simp
        rw [eY']
        have hne := hnd rfl m rfl
        exact dnTerm_err (q := tag [0x3A]) (hoid m rfl)
          (fun c y hc => tag_err_of_head rfl (Ne.symm hc)) (fun e => by rw [hne] at e; cases e)
    rw [e, attrDnMrule_def, andThen_eq h1, andThen_eq h2]
    exact htail _ rfl

theorem dnMrule_sound {i : Bytes} {t : Tag} {r : Bytes} (h : dnMrule i = .ok t r) :
    ∃ f s, i = s ++ r ∧ GItem .lib f s ∧ t.toTlv = toTlv f := by
  rw [dnMrule_def] at h
  obtain ⟨dn, r1, h1, h⟩ := andThen_ok h
  obtain ⟨m, r2, h2, h⟩ := andThen_ok h
  obtain ⟨_, r3, h3, h⟩ := andThen_ok h
  obtain ⟨v, r4, h4, h⟩ := andThen_ok h
  obtain ⟨rfl, rfl⟩ := ret_ok h
  obtain ⟨e2, hm⟩ := colonType_sound h2
  obtain ⟨_, e3⟩ := tag_ok h3
  obtain ⟨sv, e4, hv, _⟩ := unescaped_sound h4
  rcases opt_ok h1 with ⟨x, rfl, hx⟩ | ⟨rfl, rfl, _⟩
  · obtain ⟨kw, e1, hk, _⟩ := dnTerm_ok hx
    refine ⟨.ext (some m) none v true, (if true then 0x3A :: kw else []) ++
      (0x3A :: m ++ 0x3A :: 0x3D :: sv), ?_, GItem.extRule hm (fun _ => hk) hv, extTag_toTlv _ _ _ _⟩
    rw [e1, e2, e3, e4]; simp
  · refine ⟨.ext (some m) none v false, (if false then 0x3A :: [] else []) ++
      (0x3A :: m ++ 0x3A :: 0x3D :: sv), ?_, GItem.extRule hm (fun h => by cases h) hv, extTag_toTlv _ _ _ _⟩
    rw [e2, e3, e4]; simp

theorem dnMrule_complete {m v sv kw r : Bytes} {dn : Bool}
    (hm : IsOid .lib m) (hkw : dn = true → isDnKw .lib kw = true) (hv : RVal v sv) (hr : ItemStop r) :
    ∃ t, dnMrule (((if dn then 0x3A :: kw else []) ++ (0x3A :: m ++ 0x3A :: 0x3D :: sv)) ++ r) = .ok t r ∧
      t.toTlv = toTlv (.ext (some m) none v dn) := by
  refine ⟨extensibleTag (some m) none v dn, ?_, extTag_toTlv _ _ _ _⟩
  have h2 : colonType (0x3A :: m ++ (0x3A :: 0x3D :: (sv ++ r))) = .ok m (0x3A :: 0x3D :: (sv ++ r)) :=
    colonType_complete hm (oid_colon_stop _)
  have htail : ∀ dnv : Option Bytes, dnv.isSome = dn →
      (andThen colonType fun mrule => andThen (tag [0x3A, 0x3D]) fun _ => andThen unescaped fun value =>
        ret (extensibleTag (some mrule) none value dnv.isSome)) (0x3A :: m ++ (0x3A :: 0x3D :: (sv ++ r))) =
      .ok (extensibleTag (some m) none v dn) r := by
    intro dnv hd
    have h4 : tag [0x3A, 0x3D] (0x3A :: 0x3D :: (sv ++ r)) = .ok [0x3A, 0x3D] (sv ++ r) :=
      tag_append [0x3A, 0x3D] (sv ++ r)
    rw [andThen_eq h2, andThen_eq h4, andThen_eq (unescaped_complete hv hr.val), hd]
    rfl
  cases dn with
  | true =>
    have hk := hkw rfl
    have e : ((if true = true then 0x3A :: kw else []) ++ (0x3A :: m ++ 0x3A :: 0x3D :: sv)) ++ r =
        0x3A :: kw ++ (0x3A :: m ++ (0x3A :: 0x3D :: (sv ++ r))) := by simp
    have h1 : dnFlag2 (0x3A :: kw ++ (0x3A :: m ++ (0x3A :: 0x3D :: (sv ++ r)))) =
        .ok (some (0x3A :: kw)) (0x3A :: m ++ (0x3A :: 0x3D :: (sv ++ r))) :=
      opt_some (dnTerm_eq (q := colonType) hk h2)
    rw [e, dnMrule_def, andThen_eq h1]
    exact htail _ rfl
  | false =>
    have e : ((if false = true then 0x3A :: kw else []) ++ (0x3A :: m ++ 0x3A :: 0x3D :: sv)) ++ r =
        0x3A :: m ++ (0x3A :: 0x3D :: (sv ++ r)) := by simp
    have h1 : dnFlag2 (0x3A :: m ++ (0x3A :: 0x3D :: (sv ++ r))) =
        .ok none (0x3A :: m ++ (0x3A :: 0x3D :: (sv ++ r))) :=
      opt_none (dnTerm_err (q := colonType) hm (fun c y hc => colonType_err_of_head hc)
        (fun _ => colonType_err_eq _))
    rw [e, dnMrule_def, andThen_eq h1]
    exact htail _ rfl

/-! ## `item` -/

theorem np_item : NP item := np_alt np_eq (np_alt np_nonEq (np_alt np_attrDnMrule np_dnMrule))

theorem item_sound {i : Bytes} {t : Tag} {r : Bytes} (h : item i = .ok t r) :
    ∃ f s, i = s ++ r ∧ GItem .lib f s ∧ t.toTlv = toTlv f := by
  rcases alt_ok h with h | ⟨_, h⟩
  · exact eq_item_sound h
  · rcases alt_ok h with h | ⟨_, h⟩
    · exact nonEq_sound h
    · rcases alt_ok h with h | ⟨_, h⟩
      · exact attrDnMrule_sound h
      · exact dnMrule_sound h

theorem item_of_eq {i : Bytes} {t : Tag} {r : Bytes} (h : eq i = .ok t r) : item i = .ok t r := alt_left h

theorem item_of_nonEq {i : Bytes} {t : Tag} {r : Bytes} (he : eq i = .err) (h : nonEq i = .ok t r) :
    item i = .ok t r := by
  unfold item; rw [alt_right he]; exact alt_left h

theorem item_of_ext {i : Bytes} {t : Tag} {r : Bytes} (he : eq i = .err) (hn : nonEq i = .err)
    (h : extensible i = .ok t r) : item i = .ok t r := by
  unfold item; rw [alt_right he, alt_right hn]; exact h

theorem item_complete {f : Filter} {s r : Bytes} (h : GItem .lib f s) (hr : ItemStop r) :
    ∃ t, item (s ++ r) = .ok t r ∧ t.toTlv = toTlv f := by
  cases h with
  | @eq a v sv ha hv =>
    obtain ⟨v0, mids, sv0, b, hp, es, ef⟩ := G_eq_parts ha hv
    obtain ⟨t, ht, htl⟩ := eq_complete hp hr
    exact ⟨t, by rw [es]; exact item_of_eq ht, by rw [ef]; exact htl⟩
  | @present a ha =>
    obtain ⟨v0, mids, sv0, b, hp, es, ef⟩ := G_present_parts ha
    obtain ⟨t, ht, htl⟩ := eq_complete hp hr
    exact ⟨t, by rw [es]; exact item_of_eq ht, by rw [ef]; exact htl⟩
  | @substr a ini fin any si sa sf ha hi hy hf hne =>
    obtain ⟨v0, mids, sv0, b, hp, es, ef⟩ := G_substr_parts ha hi hy hf hne
    obtain ⟨t, ht, htl⟩ := eq_complete hp hr
    exact ⟨t, by rw [es]; exact item_of_eq ht, by rw [ef]; exact htl⟩
  | @ge a v sv ha hv =>
    have hattr : attributedescription (a ++ (0x3E :: 0x3D :: (sv ++ r))) = .ok a _ :=
      attributedescription_complete ha (by simp [AttrStop, isAlnumHyphen, isAlnum, isAlpha, isDigit])
    have e : (a ++ 0x3E :: 0x3D :: sv) ++ r = a ++ (0x3E :: 0x3D :: (sv ++ r)) := by simp
    refine ⟨_, item_of_nonEq (by rw [e]; exact eq_err_of_attr hattr (by decide))
      (nonEq_complete (c := 0x3E) (id := 5) ha hv hr (by simp [isAlnumHyphen, isAlnum, isAlpha, isDigit])
        (fun rest => alt_left (tag_append [0x3E, 0x3D] rest)) (by simp [filtertag])), ?_⟩
    simp [Tag.toTlv, Tag.toTlvList, octets, toTlv, avaKids]
  | @le a v sv ha hv =>
    have hattr : attributedescription (a ++ (0x3C :: 0x3D :: (sv ++ r))) = .ok a _ :=
      attributedescription_complete ha (by simp [AttrStop, isAlnumHyphen, isAlnum, isAlpha, isDigit])
    have e : (a ++ 0x3C :: 0x3D :: sv) ++ r = a ++ (0x3C :: 0x3D :: (sv ++ r)) := by simp
    refine ⟨_, item_of_nonEq (by rw [e]; exact eq_err_of_attr hattr (by decide))
      (nonEq_complete (c := 0x3C) (id := 6) ha hv hr (by simp [isAlnumHyphen, isAlnum, isAlpha, isDigit])
        (fun rest => by
          unfold opTag
          rw [alt_right (tag_err_of_head rfl (by decide))]
          exact alt_left (tag_append [0x3C, 0x3D] rest)) (by simp [filtertag])), ?_⟩
    simp [Tag.toTlv, Tag.toTlvList, octets, toTlv, avaKids]
  | @approx a v sv ha hv =>
    have hattr : attributedescription (a ++ (0x7E :: 0x3D :: (sv ++ r))) = .ok a _ :=
      attributedescription_complete ha (by simp [AttrStop, isAlnumHyphen, isAlnum, isAlpha, isDigit])
    have e : (a ++ 0x7E :: 0x3D :: sv) ++ r = a ++ (0x7E :: 0x3D :: (sv ++ r)) := by simp
    refine ⟨_, item_of_nonEq (by rw [e]; exact eq_err_of_attr hattr (by decide))
      (nonEq_complete (c := 0x7E) (id := 8) ha hv hr (by simp [isAlnumHyphen, isAlnum, isAlpha, isDigit])
        (fun rest => by
          unfold opTag
          rw [alt_right (tag_err_of_head rfl (by decide)), alt_right (tag_err_of_head rfl (by decide))]
          exact tag_append [0x7E, 0x3D] rest) (by simp [filtertag])), ?_⟩
    simp [Tag.toTlv, Tag.toTlvList, octets, toTlv, avaKids]
  | @extAttr a v sv kw rule dn ha hkw hoid hnd hv =>
    obtain ⟨t, ht, htl⟩ := attrDnMrule_complete (r := r) ha hkw hoid hnd hv hr
    have hX : ∃ X, (a ++ ((if dn then 0x3A :: kw else []) ++ (optStr [0x3A] rule ++ 0x3A :: 0x3D :: sv))) ++ r =
        a ++ (0x3A :: X) := by
      cases dn <;> cases rule <;> simp [optStr]
    obtain ⟨X, eX⟩ := hX
    have hattr : attributedescription (a ++ (0x3A :: X)) = .ok a _ :=
      attributedescription_complete ha (attr_colon_stop _)
    refine ⟨t, item_of_ext ?_ ?_ (alt_left ht), htl⟩
    · rw [eX]; exact eq_err_of_attr hattr (by decide)
    · rw [eX]; exact nonEq_err_of_attr hattr (by decide) (by decide) (by decide)
  | @extRule m v sv kw dn hm hkw hv =>
    obtain ⟨t, ht, htl⟩ := dnMrule_complete (r := r) hm hkw hv hr
    have hX : ∃ X, ((if dn then 0x3A :: kw else []) ++ (0x3A :: m ++ 0x3A :: 0x3D :: sv)) ++ r = 0x3A :: X := by
      cases dn <;> simp
    obtain ⟨X, eX⟩ := hX
    have hattr : attributedescription (0x3A :: X) = .err := attributedescription_err_of_head (by decide)
    refine ⟨t, item_of_ext ?_ ?_ ?_, htl⟩
    · rw [eX]; exact eq_err_of_attr_err hattr
    · rw [eX]; exact nonEq_err_of_attr_err hattr
    · unfold extensible
      rw [alt_right (by rw [eX, attrDnMrule_def]; exact andThen_err hattr)]
      exact ht

/-- an item starts with a letter, a digit or a colon -/
theorem item_head {d : Dialect} {f : Filter} {s : Bytes} (h : GItem d f s) :
    ∃ c t, s = c :: t ∧ (isAlpha c = true ∨ isDigit c = true ∨ c = 0x3A) := by
  have key : ∀ {a : Bytes} (x : Bytes), IsAttrDesc d a →
      ∃ c t, a ++ x = c :: t ∧ (isAlpha c = true ∨ isDigit c = true ∨ c = 0x3A) := by
    intro a x ha
    obtain ⟨⟨c, t, rfl, hc⟩, _⟩ := attrDesc_chars ha
    exact ⟨c, t ++ x, rfl, by rcases hc with h | h; exact Or.inl h; exact Or.inr (Or.inl h)⟩
  cases h with
  | eq ha _ => exact key _ ha
  | ge ha _ => exact key _ ha
  | le ha _ => exact key _ ha
  | approx ha _ => exact key _ ha
  | present ha => exact key _ ha
  | substr ha _ _ _ _ => exact key _ ha
  | extAttr ha _ _ _ _ => exact key _ ha
  | @extRule m v sv kw dn _ _ _ =>
    cases dn
    · exact ⟨0x3A, _, rfl, Or.inr (Or.inr rfl)⟩
    · exact ⟨0x3A, _, rfl, Or.inr (Or.inr rfl)⟩

end Ldap3V.Filter

/-
Composition of the byte level (Model/Envelope.lean: `Framing`, the FramedRead loop around the
decoder) with the connection level (Model/Conn.lean: the driver consuming a log of abstract frames).

`connFramesWith` turns the reads of the server's byte stream into what the connection model takes:
the list of frames (`Conn.Frame`) and whether the stream ended in a decoding error; `srvEvents`
turns that into the `srvSend … / srvGarbage` events of the model.  Everything downstream is a
function of `connFramesWith … cs`, which is a function of `cs.flatten` (C06).
-/
import Ldap3V.Model.Conn
import Ldap3V.Model.Result
import Ldap3V.Lemmas.FramingErr
namespace Ldap3V
open Spec

/-- one decoded message `(id, protocolOp, controls)` in the connection model's vocabulary:
* `id`   the message ID as decoded (`i32`);
* `op`   the protocolOp's tag NUMBER (`protoop.id`; the class is not looked at by the driver);
* `good` `LdapResultExt::try_from_tag(protocolOp)` is `Some` — what the driver asks of an op-5 frame
         under a search's ID and `op_call` asks of the response of a single-result operation;
* `tok`  the token `tok` chosen by the caller for "the rest of the content". -/
def connFrameWith (tok : Nat) (m : Int × Tlv × List Control) : Conn.Frame :=
  { id := m.1, op := m.2.1.id, tok := tok, good := (resultExt m.2.1).isSome }

/-- reads of the server's bytes ↦ (frames in the connection model's vocabulary, decoding error?).
`tokOf i m` is the token of the `i`-th delivered message `m`. -/
def connFramesWith (tokOf : Nat → Int × Tlv × List Control → Nat) (cs : List Bytes) : List Conn.Frame × Bool :=
  ((Framing.feedAll {} cs).frames.mapIdx fun i m => connFrameWith (tokOf i m) m, (Framing.feedAll {} cs).errored)

/-- the token of a frame is its position in the stream of delivered frames: distinct frames have
distinct tokens, and the content belonging to a token is `frames[tok]` -/
def connFrames (cs : List Bytes) : List Conn.Frame × Bool := connFramesWith (fun i _ => i) cs

/-- … when the server then closes the transport: `decode_eof` turns leftover bytes into an error -/
def connFramesEofWith (tokOf : Nat → Int × Tlv × List Control → Nat) (cs : List Bytes) : List Conn.Frame × Bool :=
  ((Framing.feedAll {} cs).eof.frames.mapIdx fun i m => connFrameWith (tokOf i m) m, (Framing.feedAll {} cs).eof.errored)

def connFramesEof (cs : List Bytes) : List Conn.Frame × Bool := connFramesEofWith (fun i _ => i) cs

/-- the server's side of a history of the connection model: one `srvSend` per frame, then
`srvGarbage` if the stream ended in a decoding error (the transport is still open otherwise) -/
def srvEvents (fr : List Conn.Frame × Bool) : List Conn.Ev :=
  fr.1.map .srvSend ++ (if fr.2 then [.srvGarbage] else [])

/-- … for a stream that has ended: `srvGarbage` (error, or bytes left over) or `srvClose` -/
def srvEventsEof (fr : List Conn.Frame × Bool) : List Conn.Ev :=
  fr.1.map .srvSend ++ [if fr.2 then .srvGarbage else .srvClose]

/-- server events `srv` with the client/driver events `segs[i]` inserted before the `i`-th of them
(what is left of either list goes at the end): every interleaving that keeps the server's order -/
def weave : List Conn.Ev → List (List Conn.Ev) → List Conn.Ev
  | srv, [] => srv
  | [], segs => segs.flatten
  | e :: srv, seg :: segs => seg ++ e :: weave srv segs

namespace Conn
/-- the run of the model together with everything it lets the outside see: per event the
observation of the step (`none`: the event was not enabled and was skipped, as in `run`) -/
def runObs (s : St) (evs : List Ev) : St × List (Option Obs) :=
  evs.foldl (fun (p : St × List (Option Obs)) e => match step p.1 e with
    | some (s', o) => (s', p.2 ++ [some o])
    | none => (p.1, p.2 ++ [none])) (s, [])
end Conn

/-! ### segmentation independence -/

theorem connFramesWith_flatten (tokOf : Nat → Int × Tlv × List Control → Nat) (cs cs' : List Bytes)
    (h : cs.flatten = cs'.flatten) : connFramesWith tokOf cs = connFramesWith tokOf cs' := by
  unfold connFramesWith
  rw [feedAll_flatten {} cs init_drained, feedAll_flatten {} cs' init_drained, h]

theorem connFramesEofWith_flatten (tokOf : Nat → Int × Tlv × List Control → Nat) (cs cs' : List Bytes)
    (h : cs.flatten = cs'.flatten) : connFramesEofWith tokOf cs = connFramesEofWith tokOf cs' := by
  unfold connFramesEofWith
  rw [feedAll_flatten {} cs init_drained, feedAll_flatten {} cs' init_drained, h]

/-! ### what the frames are -/

/-- positional tokens: the `i`-th frame carries token `i` -/
theorem connFrames_tok (cs : List Bytes) (i : Nat) (f : Conn.Frame) (h : (connFrames cs).1[i]? = some f) :
    f.tok = i := by
  simp only [connFrames, connFramesWith, List.getElem?_mapIdx] at h
  cases hm : (Framing.feedAll {} cs).frames[i]? with
  | none => rw [hm] at h; cases h
  | some m =>
    rw [hm] at h
    simp only [Option.map_some, Option.some.injEq] at h
    rw [← h]; rfl

theorem connFrames_tok_inj (cs : List Bytes) (i j : Nat) (f g : Conn.Frame)
    (hi : (connFrames cs).1[i]? = some f) (hj : (connFrames cs).1[j]? = some g) (ht : f.tok = g.tok) : i = j := by
  rw [connFrames_tok cs i f hi, connFrames_tok cs j g hj] at ht
  exact ht

/-- a stream of well-formed messages, any segmentation: their frames, no error -/
theorem connFramesWith_wf (tokOf : Nat → Int × Tlv × List Control → Nat) (ms : List (WireMsg × Bytes)) (cs : List Bytes)
    (hwf : ∀ p ∈ ms, p.1.WF ∧ Enc p.1.tlv p.2)
    (hsz : (ms.map (·.2)).flatten.length < 18446744073709551616)
    (hc : cs.flatten = (ms.map (·.2)).flatten) :
    connFramesWith tokOf cs =
      ((ms.map (·.1.frame)).mapIdx fun i m => connFrameWith (tokOf i m) m, false) := by
  unfold connFramesWith
  have h := feedAll_wf_then ms [] cs hwf (by simpa using hsz) (by simpa using hc)
  have h2 : Framing.feed { frames := ms.map (·.1.frame) } [] = { frames := ms.map (·.1.frame) } := by
    unfold Framing.feed
    simp only [Bool.false_eq_true, if_false, List.append_nil]
    exact drain_of_drained _ _ (Or.inr (by simp [decodeInner, parseTop, parseTag, pTag]))
  rw [h, h2]

/-- well-formed messages, then an element the decoder rejects, then anything; any segmentation:
the frames of the messages, and the error flag -/
theorem connFramesWith_rejected (tokOf : Nat → Int × Tlv × List Control → Nat) (ms : List (WireMsg × Bytes))
    (bad y : Bytes) (cs : List Bytes)
    (hwf : ∀ p ∈ ms, p.1.WF ∧ Enc p.1.tlv p.2)
    (hsz : ((ms.map (·.2)).flatten ++ bad ++ y).length < 18446744073709551616)
    (hb : decodeInner bad = .decodeError)
    (hc : cs.flatten = (ms.map (·.2)).flatten ++ bad ++ y) :
    connFramesWith tokOf cs =
      ((ms.map (·.1.frame)).mapIdx fun i m => connFrameWith (tokOf i m) m, true) := by
  unfold connFramesWith
  rw [feedAll_wf_then_rejected ms bad y cs hwf hsz hb hc]

/-! ### what the server events do to the connection model -/
namespace Conn

theorem run_nil' (s : St) : run s [] = s := rfl

theorem run_cons' (s : St) (e : Ev) (es : List Ev) :
    run s (e :: es) = run (match step s e with | some (s', _) => s' | none => s) es := rfl

theorem run_append' (a b : List Ev) (s : St) : run s (a ++ b) = run (run s a) b := by
  simp only [run, List.foldl_append]

theorem run_srvSends (fs : List Frame) : ∀ (s : St), s.link = .up →
    run s (fs.map .srvSend) = { s with srvLog := s.srvLog ++ fs } := by
  induction fs with
  | nil => intro s _; simp [run_nil']
  | cons f fs ih =>
    intro s h
    have hs : step s (.srvSend f) = some ({ s with srvLog := s.srvLog ++ [f] }, .none) := by
      simp only [step, h, if_true]
    rw [List.map_cons, run_cons', hs]
    simp only
    rw [ih { s with srvLog := s.srvLog ++ [f] } h]
    simp

/-- the server's events alone, from any state whose link is up: the frames are appended to the
log, the link is `garbage` iff the stream ended in an error; nothing else changes -/
theorem run_srvEvents (fr : List Frame × Bool) (s : St) (h : s.link = .up) :
    run s (srvEvents fr) = { s with srvLog := s.srvLog ++ fr.1, link := if fr.2 then .garbage else .up } := by
  obtain ⟨fs, b⟩ := fr
  unfold srvEvents
  rw [run_append', run_srvSends fs s h]
  cases b with
  | false => simp [run_nil', h]
  | true =>
    have hs : ∀ t : St, t.link = .up → step t .srvGarbage = some ({ t with link := .garbage }, .none) := by
      intro t ht; simp only [step, ht, if_true]
    simp only [if_true, run_cons', run_nil']
    rw [hs { s with srvLog := s.srvLog ++ fs } h]

theorem run_srvEventsEof (fr : List Frame × Bool) (s : St) (h : s.link = .up) :
    run s (srvEventsEof fr) = { s with srvLog := s.srvLog ++ fr.1, link := if fr.2 then .garbage else .eof } := by
  obtain ⟨fs, b⟩ := fr
  unfold srvEventsEof
  rw [run_append', run_srvSends fs s h]
  have hg : ∀ t : St, t.link = .up → step t .srvGarbage = some ({ t with link := .garbage }, .none) := by
    intro t ht; simp only [step, ht, if_true]
  have hc : ∀ t : St, t.link = .up → step t .srvClose = some ({ t with link := .eof }, .none) := by
    intro t ht; simp only [step, ht, if_true]
  cases b with
  | false =>
    simp only [Bool.false_eq_true, if_false, run_cons', run_nil']
    rw [hc { s with srvLog := s.srvLog ++ fs } h]
  | true =>
    simp only [if_true, run_cons', run_nil']
    rw [hg { s with srvLog := s.srvLog ++ fs } h]

theorem runObs_fst_aux (evs : List Ev) : ∀ (s : St) (acc : List (Option Obs)),
    (evs.foldl (fun (p : St × List (Option Obs)) e => match step p.1 e with
      | some (s', o) => (s', p.2 ++ [some o])
      | none => (p.1, p.2 ++ [none])) (s, acc)).1 = run s evs := by
  induction evs with
  | nil => intro s acc; rfl
  | cons e es ih =>
    intro s acc
    rw [List.foldl_cons, run_cons']
    cases step s e with
    | none => exact ih s _
    | some p => exact ih p.1 _

/-- the state component of `runObs` is `run` -/
theorem runObs_fst (s : St) (evs : List Ev) : (runObs s evs).1 = run s evs := runObs_fst_aux evs s []

/-! ### who can change the server's log and the link -/

/-- the environment's events about the server's byte stream -/
def isSrv : Ev → Bool
  | .srvSend _ => true
  | .srvClose => true
  | .srvGarbage => true
  | _ => false

theorem routeSearch_srv (s : St) (c : Nat) (f : Frame) :
    (routeSearch s c f).srvLog = s.srvLog ∧ (routeSearch s c f).link = s.link := by
  unfold routeSearch
  simp only
  repeat' split
  all_goals exact ⟨rfl, rfl⟩

/-- no client or driver event changes the server's log or the link -/
theorem step_nonsrv (s s' : St) (e : Ev) (o : Obs) (he : isSrv e = false) (h : step s e = some (s', o)) :
    s'.srvLog = s.srvLog ∧ s'.link = s.link := by
  cases e with
  | drvResp =>
    simp only [step] at h
    repeat' split at h
    all_goals (first | (cases h; done) | (simp only [Option.some.injEq, Prod.mk.injEq] at h; obtain ⟨rfl, _⟩ := h; first | exact ⟨rfl, rfl⟩ | exact routeSearch_srv _ _ _))
  | srvSend f => cases he
  | srvClose => cases he
  | srvGarbage => cases he
  | _ =>
    simp only [step] at h
    repeat' split at h
    all_goals (first | (cases h; done) | (simp only [Option.some.injEq, Prod.mk.injEq] at h; obtain ⟨rfl, _⟩ := h; exact ⟨rfl, rfl⟩))

/-- once the link is not up, NO event changes the server's log or the link -/
theorem step_srv_frozen (s s' : St) (e : Ev) (o : Obs) (hl : s.link ≠ .up) (h : step s e = some (s', o)) :
    s'.srvLog = s.srvLog ∧ s'.link = s.link := by
  cases hs : isSrv e with
  | false => exact step_nonsrv s s' e o hs h
  | true =>
    cases e with
    | srvSend f => simp only [step] at h; split at h; next hh => exact absurd hh hl
                   cases h
    | srvClose => simp only [step] at h; split at h; next hh => exact absurd hh hl
                  cases h
    | srvGarbage => simp only [step] at h; split at h; next hh => exact absurd hh hl
                    cases h
    | _ => cases hs

theorem run_nonsrv (evs : List Ev) : ∀ (s : St), (∀ e ∈ evs, isSrv e = false) →
    (run s evs).srvLog = s.srvLog ∧ (run s evs).link = s.link := by
  induction evs with
  | nil => intro s _; exact ⟨rfl, rfl⟩
  | cons e es ih =>
    intro s h
    rw [run_cons']
    cases hst : step s e with
    | none => exact ih s (fun x hx => h x (by simp [hx]))
    | some p =>
      obtain ⟨s', o⟩ := p
      obtain ⟨h1, h2⟩ := step_nonsrv s s' e o (h e (by simp)) hst
      obtain ⟨h3, h4⟩ := ih s' (fun x hx => h x (by simp [hx]))
      exact ⟨h3.trans h1, h4.trans h2⟩

theorem run_srv_frozen (evs : List Ev) : ∀ (s : St), s.link ≠ .up →
    (run s evs).srvLog = s.srvLog ∧ (run s evs).link = s.link := by
  induction evs with
  | nil => intro s _; exact ⟨rfl, rfl⟩
  | cons e es ih =>
    intro s h
    rw [run_cons']
    cases hst : step s e with
    | none => exact ih s h
    | some p =>
      obtain ⟨s', o⟩ := p
      obtain ⟨h1, h2⟩ := step_srv_frozen s s' e o h hst
      obtain ⟨h3, h4⟩ := ih s' (by rw [h2]; exact h)
      exact ⟨h3.trans h1, h4.trans h2⟩

theorem weave_nil_left (segs : List (List Ev)) : weave [] segs = segs.flatten := by
  cases segs <;> rfl

theorem srvEvents_cons (f : Frame) (fs : List Frame) (b : Bool) :
    srvEvents (f :: fs, b) = .srvSend f :: srvEvents (fs, b) := rfl

/-- the server's events interleaved in any way with client and driver events: at the end the log
holds the frames (appended, in order) and the link is `garbage` iff the stream ended in an error -/
theorem run_weave_srvEvents (fs : List Frame) (b : Bool) : ∀ (segs : List (List Ev)) (s : St), s.link = .up →
    (∀ seg ∈ segs, ∀ e ∈ seg, isSrv e = false) →
    (run s (weave (srvEvents (fs, b)) segs)).srvLog = s.srvLog ++ fs ∧
    (run s (weave (srvEvents (fs, b)) segs)).link = if b then .garbage else .up := by
  induction fs with
  | nil =>
    intro segs s h hs
    cases segs with
    | nil =>
      have : weave (srvEvents ([], b)) [] = srvEvents ([], b) := by unfold weave; rfl
      rw [this, run_srvEvents _ s h]
      exact ⟨rfl, rfl⟩
    | cons seg segs =>
      cases b with
      | false =>
        have : weave (srvEvents ([], false)) (seg :: segs) = (seg :: segs).flatten := weave_nil_left _
        rw [this]
        have := run_nonsrv (seg :: segs).flatten s (by
          intro e he
          obtain ⟨l, hl, hel⟩ := List.mem_flatten.mp he
          exact hs l hl e hel)
        rw [this.1, this.2, h]
        simp
      | true =>
        have : weave (srvEvents ([], true)) (seg :: segs) = seg ++ .srvGarbage :: segs.flatten := by
          show seg ++ .srvGarbage :: weave [] segs = _
          rw [weave_nil_left]
        rw [this, run_append', run_cons']
        obtain ⟨h1, h2⟩ := run_nonsrv seg s (hs seg (by simp))
        have hg : step (run s seg) .srvGarbage = some ({ run s seg with link := .garbage }, .none) := by
          simp only [step, h2, h, if_true]
        rw [hg]
        obtain ⟨h3, h4⟩ := run_srv_frozen segs.flatten { run s seg with link := .garbage } (by simp)
        simp only at h3 h4 ⊢
        rw [h3, h4, h1]
        simp
  | cons f fs ih =>
    intro segs s h hs
    cases segs with
    | nil =>
      have : weave (srvEvents (f :: fs, b)) [] = srvEvents (f :: fs, b) := rfl
      rw [this, run_srvEvents _ s h]
      exact ⟨rfl, rfl⟩
    | cons seg segs =>
      have : weave (srvEvents (f :: fs, b)) (seg :: segs) = seg ++ .srvSend f :: weave (srvEvents (fs, b)) segs := rfl
      rw [this, run_append', run_cons']
      obtain ⟨h1, h2⟩ := run_nonsrv seg s (hs seg (by simp))
      have hg : step (run s seg) (.srvSend f) = some ({ run s seg with srvLog := (run s seg).srvLog ++ [f] }, .none) := by
        simp only [step, h2, h, if_true]
      rw [hg]
      obtain ⟨h3, h4⟩ := ih segs { run s seg with srvLog := (run s seg).srvLog ++ [f] } (by simp only; rw [h2, h])
        (fun l hl => hs l (by simp [hl]))
      simp only at h3 h4 ⊢
      rw [h3, h4, h1]
      simp

end Conn
end Ldap3V

import Ldap3V.Model.Envelope
import Ldap3V.Spec.Envelope
import Ldap3V.Lemmas.BerInt
namespace Ldap3V
open Spec

@[simp] theorem Tlv.id_cons (c i : Nat) (k : List Tlv) : (Tlv.cons c i k).id = i := rfl
@[simp] theorem Tlv.id_prim (c i : Nat) (v : Bytes) : (Tlv.prim c i v).id = i := rfl
@[simp] theorem Tlv.cls_cons (c i : Nat) (k : List Tlv) : (Tlv.cons c i k).cls = c := rfl
@[simp] theorem Tlv.cls_prim (c i : Nat) (v : Bytes) : (Tlv.prim c i v).cls = c := rfl
@[simp] theorem Tlv.isCons_cons (c i : Nat) (k : List Tlv) : (Tlv.cons c i k).isCons = true := rfl
@[simp] theorem Tlv.isCons_prim (c i : Nat) (v : Bytes) : (Tlv.prim c i v).isCons = false := rfl
@[simp] theorem Tlv.expectCons_cons (c i : Nat) (k : List Tlv) : (Tlv.cons c i k).expectCons = some k := rfl
@[simp] theorem Tlv.expectCons_prim (c i : Nat) (v : Bytes) : (Tlv.prim c i v).expectCons = none := rfl
@[simp] theorem Tlv.expectPrim_prim (c i : Nat) (v : Bytes) : (Tlv.prim c i v).expectPrim = some v := rfl
@[simp] theorem Tlv.expectPrim_cons (c i : Nat) (k : List Tlv) : (Tlv.cons c i k).expectPrim = none := rfl

theorem parseControl_wire (c : WireControl) (h : utf8Valid c.oid = true) :
    parseControl c.tlv = some ⟨knownType c.oid, c.meaning⟩ := by
  obtain ⟨oid, crit, val⟩ := c
  simp only at h
  cases crit <;> cases val <;>
    simp [WireControl.tlv, WireControl.meaning, parseControl, h]

theorem parseControlList_wire (cs : List WireControl) (h : ∀ c ∈ cs, utf8Valid c.oid = true) :
    parseControlList (cs.map WireControl.tlv) = some (cs.map fun c => ⟨knownType c.oid, c.meaning⟩) := by
  induction cs with
  | nil => rfl
  | cons c cs ih =>
    simp only [List.map_cons, parseControlList]
    rw [parseControl_wire c (h c (by simp)), ih (fun c hc => h c (by simp [hc]))]

theorem asI32_small (n : Nat) (h : n < 2147483648) : asI32 n = (n : Int) := by
  unfold asI32
  have : n % 4294967296 = n := Nat.mod_eq_of_lt (by omega)
  simp only [this]
  rw [if_neg (by omega)]

/-- the envelope of an RFC 4511 message is read back exactly -/
theorem envelopeOf_msg (idc : Bytes) (id : Nat) (op : Tlv) (ctrls : Option (List WireControl))
    (hid : beVal idc = id) (hlt : id < 2147483648)
    (hop : op.cls = 1)                                   -- every LDAP protocolOp is [APPLICATION n]
    (hoid : ∀ cs, ctrls = some cs → ∀ c ∈ cs, utf8Valid c.oid = true) :
    envelopeOf (msgTlv idc op ctrls) =
      some ((id : Int), op, ctrlsMeaning ctrls) := by
  have hidv : msgIdOf (Tlv.prim 0 2 idc) = some (id : Int) := by
    simp only [msgIdOf]
    rw [parseUint_eq, hid, Nat.mod_eq_of_lt (by omega), asI32_small id hlt]
  cases ctrls with
  | none =>
    simp [msgTlv, envelopeOf, hop, hidv, ctrlsMeaning]
  | some cs =>
    have hp := parseControlList_wire cs (hoid cs rfl)
    simp [msgTlv, envelopeOf, parseControls, hp, hidv, ctrlsMeaning]

end Ldap3V

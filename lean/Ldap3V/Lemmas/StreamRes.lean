/-
`stream.res` at call boundaries, for EVERY adapter chain: it is `None` in every state but Done.
(After fix F23: `PagedResults::next` drops the previous page's result before it submits the
follow-up search.)
-/
import Ldap3V.Lemmas.StreamC10
namespace Ldap3V.Stream

/-- outcomes after which the caller can go on with the stream not being Done -/
def Keeps (r : NextOut) : Prop := (∃ it, r = .ok (some it)) ∨ (∃ e, r = .err e)

theorem post_res (top : Bool) (r : NextOut) (s : Stream) : (post top r s).res = s.res := by
  unfold post
  split
  · split <;> rfl
  · rfl
  · rfl

theorem pageStart_res (sv : Saved) (cs : List RCtl) (s : Stream) : (pageStart sv cs s).1.res = none := by
  unfold pageStart
  simp only
  split <;> rfl

theorem nextInner_res (s : Stream) (h : s.res = none) (hk : Keeps (nextInner s).2) : (nextInner s).1.res = none := by
  unfold nextInner at hk ⊢
  split <;> simp_all [Keeps]

/-- whatever the chain and the fuel: if `res` is `None` before, it is `None` after every call that
yields an item or fails -/
theorem res_all (f : Nat) :
    (∀ top chain s, s.res = none → Keeps (next f top chain s).2.2 → (next f top chain s).2.1.res = none) ∧
    (∀ refs rest s, s.res = none → Keeps (eoLoop f refs rest s).2.2.2 → (eoLoop f refs rest s).2.2.1.res = none) ∧
    (∀ size saved rest s, s.res = none → Keeps (prLoop f size saved rest s).2.2 →
      (prLoop f size saved rest s).2.1.res = none) := by
  induction f with
  | zero =>
    refine ⟨fun top chain s _ hk => ?_, fun refs rest s _ hk => ?_, fun size saved rest s _ hk => ?_⟩
    · rw [next_zero] at hk; simp [Keeps] at hk
    · rw [eoLoop_zero] at hk; simp [Keeps] at hk
    · rw [prLoop_zero] at hk; simp [Keeps] at hk
  | succ f ih =>
    obtain ⟨ihn, ihe, ihp⟩ := ih
    refine ⟨fun top chain s h0 hk => ?_, fun refs rest s h0 hk => ?_, fun size saved rest s h0 hk => ?_⟩
    · by_cases hs : s.state = .active
      · cases chain with
        | nil =>
          rw [next_nil _ _ _ hs] at hk ⊢
          simp only [post_res]; exact nextInner_res s h0 hk
        | cons a rest =>
          cases a with
          | entriesOnly refs =>
            rw [next_eo _ _ _ _ _ hs] at hk ⊢
            simp only [post_res]; exact ihe _ _ _ h0 hk
          | paged size saved =>
            rw [next_pr _ _ _ _ _ _ hs] at hk ⊢
            simp only [post_res]; exact ihp _ _ _ _ h0 hk
      · rw [next_inactive _ _ _ _ hs] at hk; simp [Keeps] at hk
    · rcases hn : next f false rest s with ⟨rest', s', r⟩
      have h1 : Keeps r → s'.res = none := by
        intro hk'; have := ihn false rest s h0; rw [hn] at this; exact this hk'
      by_cases hr : ∃ it, r = .ok (some it)
      · obtain ⟨it, rfl⟩ := hr
        have hs' := h1 (Or.inl ⟨it, rfl⟩)
        rcases hk' : it.kind with _ | _ | _
        · rw [eoLoop_entry hn hk']; exact hs'
        · cases hu : it.uris with
          | some us => rw [eoLoop_ref hn hk' hu] at hk ⊢; exact ihe _ _ _ hs' hk
          | none => rw [eoLoop_badref hn hk' hu] at hk; simp [Keeps] at hk
        · rw [eoLoop_inter hn hk'] at hk ⊢; exact ihe _ _ _ hs' hk
      · rw [eoLoop_other hn (fun it h => hr ⟨it, h⟩)] at hk ⊢; exact h1 hk
    · rcases hn : next f false rest s with ⟨rest', s', r⟩
      have h1 : Keeps r → s'.res = none := by
        intro hk'; have := ihn false rest s h0; rw [hn] at this; exact this hk'
      by_cases hr : r = .ok none
      · subst hr
        cases hres : s'.res with
        | none => rw [prLoop_nores hn hres] at hk; simp [Keeps] at hk
        | some res =>
          cases hc : firstPaged res.ctrls with
          | none => rw [prLoop_nocontrol hn hres hc] at hk; simp [Keeps] at hk
          | some p =>
            obtain ⟨idx, c⟩ := p
            cases hv : c.cookie with
            | none => rw [prLoop_novalue hn hres hc hv] at hk; simp [Keeps] at hk
            | some ck =>
              by_cases hck : ck = []
              · subst hck; rw [prLoop_last hn hres hc hv] at hk; simp [Keeps] at hk
              · cases saved with
                | none => rw [prLoop_nosaved hn hres hc hv hck] at hk; simp [Keeps] at hk
                | some sv =>
                  cases hs : sv.h.ctrls with
                  | none => rw [prLoop_nosavedctrls hn hres hc hv hck hs] at hk; simp [Keeps] at hk
                  | some cs =>
                    rcases hp : pageStart sv (cs ++ [.paged size ck]) s' with ⟨s'', ro⟩
                    have h2 : s''.res = none := by
                      have := pageStart_res sv (cs ++ [.paged size ck]) s'; rw [hp] at this; exact this
                    cases ro with
                    | err e => rw [prLoop_starterr hn hres hc hv hck hs hp]; exact h2
                    | ok => rw [prLoop_more hn hres hc hv hck hs hp] at hk ⊢; exact ihp _ _ _ _ h2 hk
      · rw [prLoop_pass hn hr] at hk ⊢; exact h1 hk

theorem startInner_res (s : Stream) (q : Query) : (startInner s q).1.res = s.res := by
  unfold startInner
  simp only
  split
  · rfl
  · split <;> rfl

theorem errState_res (s : Stream) (r : StartOut) : (errState s r).res = s.res := by cases r <;> rfl

theorem start_res (chain : List Adapter) (s : Stream) (q : Query) : (start chain s q).2.1.res = s.res := by
  induction chain generalizing s with
  | nil => simp only [start]; split; rfl; simp [errState_res, startInner_res]
  | cons a rest ih =>
    cases a with
    | entriesOnly refs => simp only [start]; split; rfl; simp [errState_res, ih]
    | paged size saved =>
      simp only [start]
      split; rfl
      split; rfl
      simp [errState_res, ih]

/-- `stream.res` is `None` unless the stream is Done -/
def ResInv (m : M) : Prop := m.s.state ≠ .done → m.s.res = none

theorem ResInv.step (m : M) (k : Call) (h : ResInv m) (hns : (step m k).2.stuck = false) : ResInv (step m k).1 := by
  cases k with
  | start q =>
    intro hd
    change (start m.chain m.s q).2.1.state ≠ .done at hd
    show (start m.chain m.s q).2.1.res = none
    rw [start_res]
    by_cases hf : m.s.state = .fresh
    · exact h (by rw [hf]; simp)
    · rw [start_notfresh _ _ _ hf] at hd
      exact h hd
  | state => exact h
  | finish =>
    intro _
    show (finish m.chain m.s).2.1.res = none
    by_cases hc : m.s.state = .closed
    · rw [finish_closed _ _ hc]; exact h (by rw [hc]; simp)
    · rw [(finish_open _ _ hc).1]; rfl
  | next =>
    intro hd
    by_cases ha : m.s.state = .active
    · have h0 : m.s.res = none := h (by rw [ha]; simp)
      rw [step_next_eq, fuelOf_succ] at hns hd ⊢
      rcases hr : (next (2 * remaining m.s + 2 * m.chain.length + 3 + 1) true m.chain m.s).2.2 with o | e | _ | _ | _
      · cases o with
        | none => exact absurd ((next_top_result _ _ _ ha).2 hr) hd
        | some it => exact (res_all _).1 true m.chain m.s h0 (by rw [hr]; exact Or.inl ⟨it, rfl⟩)
      · exact (res_all _).1 true m.chain m.s h0 (by rw [hr]; exact Or.inr ⟨e, rfl⟩)
      all_goals (simp only [hr, Output.stuck] at hns; cases hns)
    · rw [step_next_inactive m ha] at hd ⊢; exact h hd

theorem ResInv.exec : ∀ (calls : List Call) (m : M), ResInv m → (∀ o ∈ run m calls, o.stuck = false) →
    ResInv (exec m calls) := by
  intro calls
  induction calls with
  | nil => intro m h _; exact h
  | cons k ks ih =>
    intro m h hns
    have h1 : (Ldap3V.Stream.step m k).2.stuck = false := hns _ (by rw [run_cons]; exact List.mem_cons_self ..)
    rw [exec_cons, h1]
    simp only [Bool.false_eq_true, if_false]
    refine ih _ (h.step m k h1) (fun o ho => hns o ?_)
    rw [run_cons, h1]; exact List.mem_cons_of_mem _ ho

theorem ResInv.init (chain : List Adapter) (h : Handle) (pages : List Page) : ResInv (init chain h pages) :=
  fun _ => rfl

/-- `finish()` at any state reached by any call sequence on ANY adapter chain, the caller never stuck:
unless the stream is Done (or already Closed) the result is the synthetic rc 88 "user cancelled"
(plus the referrals the EntriesOnly adapters hold) and exactly one scrub, for the search in flight. -/
theorem finish_not_done (chain : List Adapter) (h : Handle) (pages : List Page) (calls : List Call)
    (hns : ∀ o ∈ run (init chain h pages) calls, o.stuck = false) :
    let m := exec (init chain h pages) calls
    m.s.state ≠ .done → m.s.state ≠ .closed →
      (step m .finish).2 = .result { cancelled with refs := chainRefs m.chain } ∧
      (step m .finish).1.s.scrubs = m.s.scrubs ++ [m.s.reqs.length] := by
  intro m hd hc
  have hres : m.s.res = none := (ResInv.init chain h pages).exec calls _ hns hd
  obtain ⟨h1, _, h3⟩ := step_finish_open m hc
  refine ⟨by rw [h1, hres]; simp [cancelled], by rw [h3]; simp [hd]⟩

end Ldap3V.Stream

/-
How a search can be LOST (stop being `Served`, Lemmas/ConnStreamComplete.lean): an exhaustive list of
the steps that can do it (`lossEv`), and the proof that no other step does (`served_step`).  So the
semantic hypothesis `ServedAll` of the end-to-end theorems follows from a causal one: the search was
registered by the driver's step, and afterwards
* the caller did not `finish()` the stream, and its `op_call` did not fail (time-out / dropped reply
  sender) instead of returning the acknowledgement — the receiver was not DROPPED;
* the driver did not process a scrub request naming the search's ID — not SCRUBBED
  (such a request comes from a timed-out `next()` / `op_call`, from `finish()` before the end, or is a
  stale one for an earlier holder of the ID);
* the driver did not handle an Abandon naming the ID — not ABANDONED;
* the driver did not register another search under the same ID — not DISPLACED (needs the ID counter
  to wrap, F13).
-/
import Ldap3V.Lemmas.ConnStreamComplete
namespace Ldap3V.ConnStream
open Ldap3V Ldap3V.Conn

/-- the steps that can take the registration or the receiver away from the search with channel `c`,
operation number `i` and message ID `k`, evaluated in the state `s` in which the step is taken -/
def lossEv (s : St) (c i k : Nat) : Ev → Bool
  | .finish c' _ => c' == c
  | .poll j => j == i && (match s.ops[i]? with
      | some o => o.mail == .dropped || o.mail == .empty
      | none => false)
  | .drvScrub => s.scrubQ.head? == some k
  | .drvOp _ => (match s.opQ.head? with
      | some j => (match s.ops[j]? with
        | some oj => oj.kind == .abandon (k : Int) || (oj.kind == .search && oj.id == k)
        | none => false)
      | none => false)
  | _ => false

/-- after the step the search is (still) not lost -/
def Kept (c k : Nat) (s' : St) : Prop :=
  ∃ ch', s'.chans[c]? = some ch' ∧ (s'.drv ≠ .running ∨ hasDone ch' = true ∨ ((k, c) ∈ s'.searchmap ∧ ch'.rxAlive = true))

theorem mem_erase_of_ne {m : List (Nat × Nat)} {k c : Nat} {x : Int} (h : (k, c) ∈ m) (hne : (k : Int) ≠ x) :
    (k, c) ∈ erase m x := by
  unfold Conn.erase
  rw [List.mem_filter]
  refine ⟨h, ?_⟩
  simpa using hne

theorem mem_insert_of_ne {m : List (Nat × Nat)} {k c k' v : Nat} (h : (k, c) ∈ m) (hne : k ≠ k') :
    (k, c) ∈ Conn.insert m k' v := by
  unfold Conn.insert
  rw [List.mem_append]
  exact Or.inl (mem_erase_of_ne h (by omega))

theorem dropRx_keep (cs : List Chan) (oc : Option Nat) (c : Nat) (h : oc ≠ some c) : (dropRxOf cs oc)[c]? = cs[c]? := by
  cases oc with
  | none => rfl
  | some d =>
    have hne : c ≠ d := fun e => h (by rw [e])
    simp only [dropRxOf, modifyChan_get, if_neg hne]

theorem set_keep {cs : List Chan} {c' c : Nat} {ch0 ch : Chan} (ch1 : Chan) (h0 : cs[c']? = some ch0) (hc : cs[c]? = some ch)
    (hal : ch1.rxAlive = ch0.rxAlive) (hit : ch1.items = ch0.items) :
    ∃ ch', (cs.set c' ch1)[c]? = some ch' ∧ ch'.rxAlive = ch.rxAlive ∧ ch'.items = ch.items := by
  by_cases e : c' = c
  · subst e
    rw [h0] at hc; cases hc
    exact ⟨ch1, set_self_get _ h0, hal, hit⟩
  · exact ⟨ch, by rw [List.getElem?_set_ne e]; exact hc, rfl, rfl⟩

section
variable {c i k : Nat} {s s' : St} {ob : Obs} {ch : Chan}

theorem kept_same (hc : s.chans[c]? = some ch) (hreg : (k, c) ∈ s.searchmap) (hal : ch.rxAlive = true)
    (h1 : s'.chans = s.chans) (h2 : s'.searchmap = s.searchmap) : Kept c k s' :=
  ⟨ch, by rw [h1]; exact hc, Or.inr (Or.inr ⟨by rw [h2]; exact hreg, hal⟩)⟩

theorem kept_poll (hr : RouteInv s) (hc : s.chans[c]? = some ch) (hx : ch.opIdx = i) (hreg : (k, c) ∈ s.searchmap)
    (hal : ch.rxAlive = true) (j : Nat) (hl : lossEv s c i k (.poll j) = false)
    (hs : step s (.poll j) = some (s', ob)) : Kept c k s' := by
  simp only [step] at hs
  cases ho : s.ops[j]? with
  | none => rw [ho] at hs; cases hs
  | some o =>
    rw [ho] at hs
    simp only at hs
    -- a poll of another operation cannot drop this channel's receiver
    have hdrop : o.mail = .dropped ∨ o.mail = .empty → (dropRxOf s.chans o.chan)[c]? = s.chans[c]? := by
      intro hm
      apply dropRx_keep
      intro hoc
      obtain ⟨ch2, hc2, hx2⟩ := hr.chanOf j o c ho hoc
      rw [hc] at hc2; cases hc2
      have hji : j = i := by rw [← hx2, hx]
      subst hji
      rcases hm with hm | hm <;> simp [lossEv, ho, hm] at hl
    have same : ∀ (ops' : List Op), Kept c k ({ s with ops := ops' } : St) :=
      fun _ => ⟨ch, hc, Or.inr (Or.inr ⟨hreg, hal⟩)⟩
    have dropped : ∀ (ops' : List Op) (q : List Nat), (o.mail = .dropped ∨ o.mail = .empty) →
        Kept c k ({ s with ops := ops', scrubQ := q, chans := dropRxOf s.chans o.chan } : St) :=
      fun _ _ hm => ⟨ch, by show (dropRxOf s.chans o.chan)[c]? = _; rw [hdrop hm]; exact hc, Or.inr (Or.inr ⟨hreg, hal⟩)⟩
    split at hs
    · cases hs
    · cases hm : o.mail with
      | ack =>
        simp only [hm, Option.some.injEq, Prod.mk.injEq] at hs
        rw [← hs.1]; exact same _
      | frame f =>
        simp only [hm, Option.some.injEq, Prod.mk.injEq] at hs
        rw [← hs.1]; exact same _
      | dropped =>
        simp only [hm, Option.some.injEq, Prod.mk.injEq] at hs
        rw [← hs.1]; exact dropped _ s.scrubQ (Or.inl hm)
      | empty =>
        simp only [hm] at hs
        split at hs
        · split at hs
          · split at hs
            · simp only [Option.some.injEq, Prod.mk.injEq] at hs
              rw [← hs.1]; exact dropped _ _ (Or.inr hm)
            · simp only [Option.some.injEq, Prod.mk.injEq] at hs
              rw [← hs.1]; exact dropped _ s.scrubQ (Or.inr hm)
          · simp only [Option.some.injEq, Prod.mk.injEq] at hs
            rw [← hs.1]; exact ⟨ch, hc, Or.inr (Or.inr ⟨hreg, hal⟩)⟩
        · simp only [Option.some.injEq, Prod.mk.injEq] at hs
          rw [← hs.1]; exact ⟨ch, hc, Or.inr (Or.inr ⟨hreg, hal⟩)⟩

theorem kept_set (hc : s.chans[c]? = some ch) (hreg : (k, c) ∈ s.searchmap) (hal : ch.rxAlive = true)
    {c' : Nat} {ch0 : Chan} (ch1 : Chan) (h0 : s.chans[c']? = some ch0) (h1 : ch1.rxAlive = ch0.rxAlive)
    (h2 : ch1.items = ch0.items) (q : List Nat) : Kept c k ({ s with scrubQ := q, chans := s.chans.set c' ch1 } : St) := by
  obtain ⟨ch', hc', ha', _⟩ := set_keep ch1 h0 hc h1 h2
  exact ⟨ch', hc', Or.inr (Or.inr ⟨hreg, by rw [ha']; exact hal⟩)⟩

theorem kept_recv (hc : s.chans[c]? = some ch) (hreg : (k, c) ∈ s.searchmap) (hal : ch.rxAlive = true)
    (c' : Nat) (dl : Option Nat) (hs : step s (.recv c' dl) = some (s', ob)) : Kept c k s' := by
  have hsame : Kept c k s := ⟨ch, hc, Or.inr (Or.inr ⟨hreg, hal⟩)⟩
  simp only [step] at hs
  cases h0 : s.chans[c']? with
  | none => rw [h0] at hs; cases hs
  | some ch0 =>
    rw [h0] at hs
    simp only at hs
    split at hs
    · cases hs
    · split at hs
      · cases hs
      · split at hs
        · simp only [Option.some.injEq, Prod.mk.injEq] at hs
          rw [← hs.1]
          exact kept_set hc hreg hal { ch0 with taken := ch0.taken + 1 } h0 rfl rfl s.scrubQ
        · split at hs
          · simp only [Option.some.injEq, Prod.mk.injEq] at hs; rw [← hs.1]; exact hsame
          · split at hs
            · split at hs
              · split at hs
                · split at hs
                  · simp only [Option.some.injEq, Prod.mk.injEq] at hs; rw [← hs.1]
                    exact kept_set hc hreg hal { ch0 with timedOut := true } h0 rfl rfl _
                  · simp only [Option.some.injEq, Prod.mk.injEq] at hs; rw [← hs.1]; exact hsame
                · cases hs
              · simp only [Option.some.injEq, Prod.mk.injEq] at hs; rw [← hs.1]; exact hsame
            · simp only [Option.some.injEq, Prod.mk.injEq] at hs; rw [← hs.1]; exact hsame

theorem kept_finish (hc : s.chans[c]? = some ch) (hreg : (k, c) ∈ s.searchmap) (hal : ch.rxAlive = true)
    (c' : Nat) (b : Bool) (hl : lossEv s c i k (.finish c' b) = false)
    (hs : step s (.finish c' b) = some (s', ob)) : Kept c k s' := by
  have hne : c' ≠ c := by simpa [lossEv] using hl
  simp only [step] at hs
  cases h0 : s.chans[c']? with
  | none => rw [h0] at hs; cases hs
  | some ch0 =>
    rw [h0] at hs
    simp only at hs
    split at hs
    · cases hs
    · split at hs
      · cases hs
      · split at hs
        · cases hs
        · simp only [Option.some.injEq, Prod.mk.injEq] at hs
          rw [← hs.1]
          exact ⟨ch, by show (s.chans.set c' _)[c]? = _; rw [List.getElem?_set_ne hne]; exact hc,
            Or.inr (Or.inr ⟨hreg, hal⟩)⟩

theorem kept_drvScrub (hc : s.chans[c]? = some ch) (hreg : (k, c) ∈ s.searchmap) (hal : ch.rxAlive = true)
    (hl : lossEv s c i k .drvScrub = false) (hs : step s .drvScrub = some (s', ob)) : Kept c k s' := by
  simp only [step] at hs
  split at hs
  · cases hs
  · split at hs
    · cases hs
    · next x rest hq =>
      simp only [Option.some.injEq, Prod.mk.injEq] at hs
      rw [← hs.1]
      have hne : x ≠ k := by
        intro e
        simp [lossEv, hq, e] at hl
      exact ⟨ch, hc, Or.inr (Or.inr ⟨mem_erase_of_ne hreg (by omega), hal⟩)⟩

theorem kept_endDriver (hc : s.chans[c]? = some ch) (how : Drv) (h : how ≠ .running) : Kept c k (endDriver s how) :=
  ⟨ch, hc, Or.inl h⟩

theorem kept_drvOp (hc : s.chans[c]? = some ch) (hreg : (k, c) ∈ s.searchmap) (hal : ch.rxAlive = true)
    (b : Bool) (hl : lossEv s c i k (.drvOp b) = false) (hs : step s (.drvOp b) = some (s', ob)) : Kept c k s' := by
  simp only [step] at hs
  split at hs
  · cases hs
  · split at hs
    · cases hs
    · next j rest hqe =>
      cases ho : s.ops[j]? with
      | none => rw [ho] at hs; cases hs
      | some o =>
        rw [ho] at hs
        simp only at hs
        have hl' : (o.kind == .abandon (k : Int) || (o.kind == .search && o.id == k)) = false := by
          simpa [lossEv, hqe, ho] using hl
        have hl1 : o.kind ≠ .abandon (k : Int) := by
          intro e; simp [e] at hl'
        have hl2 : o.kind = .search → o.id ≠ k := by
          intro e1 e2; simp [e1, e2] at hl'
        have keep : ∀ (s2 : St), s2.chans = s.chans → (k, c) ∈ s2.searchmap → Kept c k s2 :=
          fun s2 h1 h2 => ⟨ch, by rw [h1]; exact hc, Or.inr (Or.inr ⟨h2, hal⟩)⟩
        have hsm1 : (k, c) ∈ (match o.kind, o.chan with
            | .search, some c0 => Conn.insert s.searchmap o.id c0
            | _, _ => s.searchmap) := by
          split
          · next hk _ => exact mem_insert_of_ne hreg (fun e => hl2 hk e.symm)
          · exact hreg
        split at hs
        · simp only [Option.some.injEq, Prod.mk.injEq] at hs
          rw [← hs.1]
          exact keep _ rfl hreg
        · split at hs
          · simp only [Option.some.injEq, Prod.mk.injEq] at hs
            rw [← hs.1]
            exact ⟨ch, hc, Or.inl (by simp [endDriver])⟩
          · split at hs
            · cases hs
            · cases hkd : o.kind with
              | single =>
                simp only [hkd, Option.some.injEq, Prod.mk.injEq] at hs
                rw [← hs.1]
                exact keep _ rfl hreg
              | search =>
                rw [hkd] at hsm1
                simp only [hkd, Option.some.injEq, Prod.mk.injEq] at hs
                rw [← hs.1]
                exact keep _ rfl hsm1
              | abandon t =>
                simp only [hkd, Option.some.injEq, Prod.mk.injEq] at hs
                rw [← hs.1]
                refine keep _ rfl (mem_erase_of_ne hreg ?_)
                intro e
                exact hl1 (by rw [hkd, e])
              | unbind =>
                simp only [hkd, Option.some.injEq, Prod.mk.injEq] at hs
                rw [← hs.1]
                exact keep _ rfl hreg

theorem kept_routeSearch (hk : KeyU s.searchmap) (hc : s.chans[c]? = some ch) (hreg : (k, c) ∈ s.searchmap)
    (hal : ch.rxAlive = true) (c0 : Nat) (f : Frame) (hl : lookup s.searchmap f.id = some c0) :
    Kept c k (routeSearch s c0 f) := by
  unfold Conn.routeSearch
  generalize hcl : (if f.op = 4 ∨ f.op = 25 ∨ f.op = 19 then some (Item.entry f, false)
      else if f.op = 5 then (if f.good then some (Item.done f, true) else none) else none) = cl
  cases cl with
  | none => exact ⟨ch, hc, Or.inl (by simp [endDriver])⟩
  | some pr =>
    obtain ⟨item, isDone⟩ := pr
    have hprop : isDone = true → item = .done f := by
      intro hd
      split at hcl
      · cases hcl; cases hd
      · split at hcl
        · split at hcl
          · cases hcl; rfl
          · cases hcl
        · cases hcl
    by_cases hcc : c0 = c
    · subst hcc
      simp only [hc, hal, if_true, Bool.not_true, Bool.or_false]
      have hget : (modifyChan s.chans c0 fun ch => { ch with items := ch.items ++ [item] })[c0]? =
          some { ch with items := ch.items ++ [item] } := by
        rw [modifyChan_get, if_pos rfl, hc]; rfl
      cases isDone with
      | true =>
        simp only [if_true]
        refine ⟨_, hget, Or.inr (Or.inl ?_)⟩
        rw [hprop rfl]
        simp [hasDone, isEntry]
      | false =>
        simp only [Bool.false_eq_true, if_false]
        exact ⟨_, hget, Or.inr (Or.inr ⟨hreg, hal⟩)⟩
    · have hne : (k : Int) ≠ f.id := by
        intro e
        exact hcc (keyU_only hk hl hreg e.symm).symm
      have hget : ∀ (b : Bool), (if b = true then modifyChan s.chans c0 fun ch => { ch with items := ch.items ++ [item] }
          else s.chans)[c]? = some ch := by
        intro b
        cases b
        · exact hc
        · simp only [if_true]; rw [modifyChan_get, if_neg (fun e => hcc e.symm)]; exact hc
      have fin : ∀ (cs : List Chan) (b : Bool), cs[c]? = some ch → Kept c k
          (if b = true then ({ s with chans := cs, searchmap := erase s.searchmap f.id, inUse := eraseId s.inUse f.id } : St)
           else { s with chans := cs }) := by
        intro cs b hcs
        cases b
        · exact ⟨ch, hcs, Or.inr (Or.inr ⟨hreg, hal⟩)⟩
        · exact ⟨ch, hcs, Or.inr (Or.inr ⟨mem_erase_of_ne hreg hne, hal⟩)⟩
      simp only []
      exact fin _ _ (hget _)

theorem kept_drvResp (hk : KeyU s.searchmap) (hc : s.chans[c]? = some ch) (hreg : (k, c) ∈ s.searchmap)
    (hal : ch.rxAlive = true) (hs : step s .drvResp = some (s', ob)) : Kept c k s' := by
  simp only [step] at hs
  split at hs
  · cases hs
  · cases hf : s.srvLog[s.pos]? with
    | none =>
      rw [hf] at hs
      simp only at hs
      split at hs
      · cases hs
      · simp only [Option.some.injEq, Prod.mk.injEq] at hs; rw [← hs.1]; exact ⟨ch, hc, Or.inl (by simp [endDriver])⟩
      · simp only [Option.some.injEq, Prod.mk.injEq] at hs; rw [← hs.1]; exact ⟨ch, hc, Or.inl (by simp [endDriver])⟩
    | some f =>
      rw [hf] at hs
      simp only at hs
      cases hl : lookup s.searchmap f.id with
      | some c0 =>
        rw [hl] at hs
        simp only [Option.some.injEq, Prod.mk.injEq] at hs
        rw [← hs.1]
        exact kept_routeSearch (s := { s with pos := s.pos + 1 }) hk hc hreg hal c0 f hl
      | none =>
        rw [hl] at hs
        simp only at hs
        split at hs
        · simp only [Option.some.injEq, Prod.mk.injEq] at hs; rw [← hs.1]; exact ⟨ch, hc, Or.inr (Or.inr ⟨hreg, hal⟩)⟩
        · simp only [Option.some.injEq, Prod.mk.injEq] at hs; rw [← hs.1]; exact ⟨ch, hc, Or.inr (Or.inr ⟨hreg, hal⟩)⟩

/-- a registered search with a live receiver, a running driver: every step other than the ones listed by `lossEv`
leaves it registered with a live receiver, or delivers its Done, or ends the driver -/
theorem kept_step (hg : Good s) (hc : s.chans[c]? = some ch) (hx : ch.opIdx = i) (hreg : (k, c) ∈ s.searchmap)
    (hal : ch.rxAlive = true) (e : Ev) (hl : lossEv s c i k e = false) (hs : step s e = some (s', ob)) : Kept c k s' := by
  have hsame : Kept c k s := ⟨ch, hc, Or.inr (Or.inr ⟨hreg, hal⟩)⟩
  cases e with
  | alloc kind =>
    simp only [step] at hs
    cases hn : nextId s.N s.last s.inUse with
    | diverge => rw [hn] at hs; cases hs
    | panic => rw [hn] at hs; simp only [Option.some.injEq, Prod.mk.injEq] at hs; rw [← hs.1]; exact hsame
    | ok id =>
      rw [hn] at hs
      simp only [Option.some.injEq, Prod.mk.injEq] at hs
      rw [← hs.1]
      refine ⟨ch, ?_, Or.inr (Or.inr ⟨hreg, hal⟩)⟩
      have hlt : c < s.chans.length := (List.getElem?_eq_some_iff.mp hc).1
      cases kind <;> simp only [hc]
      rw [List.getElem?_append_left hlt]; exact hc
  | enqueue j t =>
    simp only [step] at hs
    cases ho : s.ops[j]? with
    | none => rw [ho] at hs; cases hs
    | some o =>
      rw [ho] at hs
      simp only at hs
      split at hs
      · cases hs
      · split at hs
        · simp only [Option.some.injEq, Prod.mk.injEq] at hs; rw [← hs.1]; exact ⟨ch, hc, Or.inr (Or.inr ⟨hreg, hal⟩)⟩
        · simp only [Option.some.injEq, Prod.mk.injEq] at hs; rw [← hs.1]; exact ⟨ch, hc, Or.inr (Or.inr ⟨hreg, hal⟩)⟩
  | poll j => exact kept_poll hg.route hc hx hreg hal j hl hs
  | recv c' d => exact kept_recv hc hreg hal c' d hs
  | finish c' b => exact kept_finish hc hreg hal c' b hl hs
  | dropHandles =>
    simp only [step, Option.some.injEq, Prod.mk.injEq] at hs; rw [← hs.1]; exact ⟨ch, hc, Or.inr (Or.inr ⟨hreg, hal⟩)⟩
  | drvScrub => exact kept_drvScrub hc hreg hal hl hs
  | drvOp b => exact kept_drvOp hc hreg hal b hl hs
  | drvOpClosed =>
    simp only [step] at hs
    split at hs
    · simp only [Option.some.injEq, Prod.mk.injEq] at hs; rw [← hs.1]; exact ⟨ch, hc, Or.inl (by simp [endDriver])⟩
    · cases hs
  | drvMiscClosed =>
    simp only [step] at hs
    split at hs
    · simp only [Option.some.injEq, Prod.mk.injEq] at hs; rw [← hs.1]; exact ⟨ch, hc, Or.inl (by simp [endDriver])⟩
    · cases hs
  | drvResp => exact kept_drvResp hg.keyU hc hreg hal hs
  | srvSend f =>
    simp only [step] at hs
    split at hs
    · simp only [Option.some.injEq, Prod.mk.injEq] at hs; rw [← hs.1]; exact ⟨ch, hc, Or.inr (Or.inr ⟨hreg, hal⟩)⟩
    · cases hs
  | srvClose =>
    simp only [step] at hs
    split at hs
    · simp only [Option.some.injEq, Prod.mk.injEq] at hs; rw [← hs.1]; exact ⟨ch, hc, Or.inr (Or.inr ⟨hreg, hal⟩)⟩
    · cases hs
  | srvGarbage =>
    simp only [step] at hs
    split at hs
    · simp only [Option.some.injEq, Prod.mk.injEq] at hs; rw [← hs.1]; exact ⟨ch, hc, Or.inr (Or.inr ⟨hreg, hal⟩)⟩
    · cases hs
  | tick dt =>
    simp only [step, Option.some.injEq, Prod.mk.injEq] at hs; rw [← hs.1]; exact ⟨ch, hc, Or.inr (Or.inr ⟨hreg, hal⟩)⟩

end

/-- `Served` is kept by every step that is not a loss step -/
theorem served_step {c i k : Nat} {s s' : St} {ob : Obs} (hg : Good s) (ht : TakenC c i k s) (hS : Served s c k) (e : Ev)
    (hl : lossEv s c i k e = false) (hs : step s e = some (s', ob)) : Served s' c k := by
  intro ch' hc'
  obtain ⟨ch, o, hc, hx, ho, _, hph⟩ := ht
  by_cases hd : s.drv = .running
  · rcases hS ch hc with h | h | ⟨hreg, hal⟩
    · exact absurd hd h
    · -- the Done stays in the channel
      refine Or.inr (Or.inl ?_)
      have sum := StepSum.step hg.route hg.keyU hg.qInv e hs
      rcases sum.cls c with q | r | a
      · rcases q.chans ch' hc' with ⟨ch2, hc2, hi, _⟩ | ⟨hnone, _⟩
        · rw [hc] at hc2; cases hc2
          simp only [hasDone, hi] at h ⊢; exact h
        · rw [hc] at hnone; cases hnone
      · rw [r.chans, hc] at hc'; cases hc'; exact h
      · obtain ⟨ch2, _, _, item, hc2, _, _, _, _, _, hchans, _⟩ := a
        rw [hc] at hc2; cases hc2
        have hclt : c < s.chans.length := (List.getElem?_eq_some_iff.mp hc).1
        rw [hchans, List.getElem?_set] at hc'
        simp only [hclt, if_true, Option.some.injEq] at hc'
        subst hc'
        simp only [hasDone, List.any_append, Bool.or_eq_true] at h ⊢
        exact Or.inl h
    · obtain ⟨ch2, hc2, hk⟩ := kept_step hg hc hx hreg hal e hl hs
      rw [hc'] at hc2; cases hc2
      exact hk
  · left
    rcases step_ends e hs with ⟨h1, _⟩ | ⟨h1, _⟩
    · rw [h1]; exact hd
    · exact absurd h1 hd

/-! ### along a history -/

/-- no loss step is taken along `evs` from `s` (events that are not enabled do nothing) -/
def noLoss (c i k : Nat) : St → List Ev → Bool
  | _, [] => true
  | s, e :: es =>
    match step s e with
    | some (s', _) => !lossEv s c i k e && noLoss c i k s' es
    | none => noLoss c i k s es

theorem served_run {c i k : Nat} (evs : List Ev) : ∀ s, Good s → TakenC c i k s → Served s c k →
    noLoss c i k s evs = true → ∀ n, n ≤ evs.length → Served (Conn.run s (evs.take n)) c k := by
  induction evs with
  | nil =>
    intro s _ _ hS _ n _
    simpa [Conn.run] using hS
  | cons e es ih =>
    intro s hg ht hS hN n hn
    cases n with
    | zero => simpa [Conn.run] using hS
    | succ n =>
      have hn' : n ≤ es.length := by simp only [List.length_cons] at hn; omega
      rw [List.take_succ_cons]
      cases hstep : step s e with
      | none =>
        rw [run_cons_none hstep]
        simp only [noLoss, hstep] at hN
        exact ih s hg ht hS hN n hn'
      | some r =>
        obtain ⟨s', ob⟩ := r
        rw [run_cons_some hstep]
        simp only [noLoss, hstep, Bool.and_eq_true, Bool.not_eq_true'] at hN
        have sum := StepSum.step hg.route hg.keyU hg.qInv e hstep
        obtain ⟨ch, o, hc, hx0, ho, hk, hph⟩ := ht
        have ht' : TakenC c i k s' := by
          rcases sum.cls c with q | r | a
          · obtain ⟨ch', hc', hx'⟩ := q.keep ch hc
            obtain ⟨o', ho', hid, hp⟩ := q.ops i o ho
            exact ⟨ch', o', hc', hx'.trans hx0, ho', hid.trans hk, hp hph⟩
          · obtain ⟨ch2, o2, hc2, ho2, hq2⟩ := r.was
            rw [hc] at hc2; cases hc2
            rw [hx0, ho] at ho2; cases ho2
            rw [hph] at hq2; cases hq2
          · obtain ⟨ch2, _, _, item, hc2, _, _, _, _, _, hchans, _, hops, _⟩ := a
            rw [hc] at hc2; cases hc2
            have hclt : c < s.chans.length := (List.getElem?_eq_some_iff.mp hc).1
            exact ⟨{ ch with items := ch.items ++ [item] }, o, by rw [hchans, List.getElem?_set]; simp [hclt], hx0,
              by rw [hops]; exact ho, hk, hph⟩
        exact ih s' (hg.step e hstep) ht'
          (served_step hg ⟨ch, o, hc, hx0, ho, hk, hph⟩ hS e hN.1 hstep) hN.2 n hn'

/-- The causal form of the hypothesis of the end-to-end theorems.  The driver took search `o` (operation `i`,
channel `c`) off the queue after `pre`; the search is `Served` right after that step (i.e. the step
registered it and its receiver is alive, or the write failed and the driver ended); and no loss step
(`lossEv`: receiver dropped, scrub / Abandon of its ID, another search registered under its ID) is
taken in `post`.  Then the search is served throughout. -/
theorem servedAll_of_noLoss (N : Nat) (pre post : List Ev) (b : Bool) {i c : Nat} {o : Op}
    (hd : (Conn.run (Conn.init N) pre).drv = .running) (hq : (Conn.run (Conn.init N) pre).opQ.head? = some i)
    (ho : (Conn.run (Conn.init N) pre).ops[i]? = some o) (hc : o.chan = some c)
    (hS0 : Served (Conn.run (Conn.init N) (pre ++ [Ev.drvOp b])) c o.id)
    (hN : noLoss c i o.id (Conn.run (Conn.init N) (pre ++ [Ev.drvOp b])) post = true) :
    ServedAll N pre b post c o.id := by
  have hsk : b = true → (Conn.run (Conn.init N) pre).sinkClosed = false := by
    intro hb
    subst hb
    cases hcl : (Conn.run (Conn.init N) pre).sinkClosed with
    | false => rfl
    | true => exact absurd hS0 (not_served_closed N pre hd hq ho hc hcl _)
  obtain ⟨_, ht⟩ := complete_from N pre [] b hd hq ho hc hsk
  intro n hn
  have hrun : Conn.run (Conn.init N) (pre ++ Ev.drvOp b :: post.take n) =
      Conn.run (Conn.run (Conn.init N) (pre ++ [Ev.drvOp b])) (post.take n) := by
    rw [← run_app]; simp
  rw [hrun]
  exact served_run post _ (Good.run N _) ht hS0 hN n hn

end Ldap3V.ConnStream

/-
Stream behind `PagedResults` alone: the model refines the cursor on the paged view for all call
sequences without `finish()`, and `finish()` at the end returns the view's final result.
-/
import Ldap3V.Lemmas.StreamPaged
namespace Ldap3V.Stream
open Spec

theorem PrOut.post {mk total s l ps s' r} (top : Bool) (h : PrOut mk total s l ps .active false s' r) :
    PrOut mk total s l ps (if top then .done else .active) true (post top r s') r := by
  refine ⟨fun st tl h' => ?_, fun h' g r0 he => ?_, fun h' g e he => ?_, h.pending, h.panic⟩
  · obtain ⟨h1, h2⟩ := h.item st tl h'
    subst h1
    exact ⟨rfl, h2⟩
  · obtain ⟨h1, hg, h2, h3, h4⟩ := h.done h' g r0 he
    subst h1
    cases top
    · exact ⟨rfl, hg, h2, h3, h4⟩
    · exact ⟨rfl, hg, h2, h3, rfl⟩
  · obtain ⟨h1, hg, h2, _⟩ := h.fail h' g e he
    subst h1
    exact ⟨rfl, hg, h2, fun _ => rfl⟩

theorem pages_le_remaining (s : Stream) : s.pages.length ≤ remaining s := by
  unfold remaining
  generalize s.pages = ps
  induction ps with
  | nil => simp
  | cons p ps ih => simp at ih ⊢; omega

section
variable (size : Int) (sv : Saved) (cs : List RCtl) (hsv : sv.h.ctrls = some cs) (hq : sv.q.filterOk = true)

include hsv hq in
/-- the shim over `PagedResults::next` over a direct stream -/
theorem pr_next (total : List Req) (top : Bool) (s : Stream) (l : List Recv) (ps : List Page) (f : Nat)
    (hs : s.state = .active) (hrx : s.rx = some l) (hps : s.pages = ps) (hf : ps.length + 3 ≤ f)
    (hreq : s.reqs ++ futureReqs (mkReq size sv cs) l ps = total) :
    (next (f + 1) top [.paged size (some sv)] s).1 = [.paged size (some sv)] ∧
    PrOut (mkReq size sv cs) total s l ps (if top then .done else .active) true
      (next (f + 1) top [.paged size (some sv)] s).2.1 (next (f + 1) top [.paged size (some sv)] s).2.2 := by
  obtain ⟨h1, h2⟩ := pr_loop size sv cs hsv hq total ps l s f hs hrx hps hf hreq
  rw [next_pr _ _ _ _ _ _ hs]
  exact ⟨by simp only [h1], h2.post top⟩

/-- abstraction relation for `[PagedResults]` -/
structure RelP (total : List Req) (m : M) (c : Cursor) : Prop where
  chain : m.chain = [.paged size (some sv)]
  state : m.s.state = c.state
  notFresh : c.state ≠ .fresh
  acc : c.acc = []
  fin : c.state = .done → m.s.res = c.final
  live : c.state = .active → ∃ l, m.s.rx = some l ∧ (pagedRaw l m.s.pages).steps = c.rest ∧
    (pagedRaw l m.s.pages).ending = c.ending ∧ m.s.reqs ++ futureReqs (mkReq size sv cs) l m.s.pages = total
  reqsDone : c.state = .done → m.s.reqs = total

include hsv hq in
theorem RelP.step (total : List Req) (r : StartOut) (m : M) (c : Cursor) (k : Call) (hk : k ≠ .finish)
    (h : RelP size sv cs total m c) :
    (step m k).2 = (c.step r k).2 ∧
      ((step m k).2.stuck = false → RelP size sv cs total (step m k).1 (c.step r k).1) := by
  obtain ⟨ch, s⟩ := m
  have hch : ch = [.paged size (some sv)] := h.chain
  subst hch
  have hst : s.state = c.state := h.state
  cases k with
  | finish => exact absurd rfl hk
  | start q =>
    simp only [Ldap3V.Stream.step, Cursor.step, Cursor.start]
    rw [start_notfresh _ _ _ (by rw [hst]; exact h.notFresh)]
    simp [h.notFresh, h]
  | state =>
    simp only [Ldap3V.Stream.step, Cursor.step]
    exact ⟨by rw [hst], fun _ => h⟩
  | next =>
    simp only [Ldap3V.Stream.step, Cursor.step, fuelOf_succ]
    by_cases hc : c.state = .active
    · have hs : s.state = .active := by rw [hst]; exact hc
      obtain ⟨l, hrx, hsteps, hend, hreq⟩ := h.live hc
      have hrx' : s.rx = some l := hrx
      have hf : s.pages.length + 3 ≤ 2 * remaining s + 2 * [Adapter.paged size (some sv)].length + 3 := by
        have := pages_le_remaining s
        simp; omega
      obtain ⟨k1, k2⟩ := pr_next size sv cs hsv hq total true s l s.pages _ hs hrx' rfl hf hreq
      simp only [Cursor.next, hc, ne_eq, not_true_eq_false, if_false]
      cases hrest : c.rest with
      | cons st tl =>
        obtain ⟨h1, hg, h2, l', ps', h3, h4, h5, h6, h7, _⟩ := k2.item st tl (by rw [hsteps, hrest])
        simp only
        refine ⟨by rw [h1], fun _ => ⟨k1, h2, by simp, by simp [h.acc, hg], by simp, fun _ => ?_, by simp⟩⟩
        refine ⟨l', h3, ?_, ?_, ?_⟩
        · simp only; rw [h4]; exact h5
        · simp only; rw [h4, h6]; exact hend
        · simp only; rw [h4]; exact h7
      | nil =>
        have hnil : (pagedRaw l s.pages).steps = [] := by rw [hsteps, hrest]
        cases hce : c.ending with
        | done g r0 =>
          obtain ⟨h1, hg, h2, h3, h4⟩ := k2.done hnil g r0 (by rw [hend, hce])
          simp only
          exact ⟨by rw [h1], fun _ => ⟨k1, by simpa using h4, by simp, by simp [h.acc, hg], fun _ => by simpa using h2,
            by simp, fun _ => by simpa using h3⟩⟩
        | fail g e =>
          obtain ⟨h1, hg, h2, h3⟩ := k2.fail hnil g e (by rw [hend, hce])
          simp only
          exact ⟨by rw [h1], fun _ => ⟨k1, by simpa using h3 rfl, by simp, by simp [h.acc, hg], by simp, by simp, by simp⟩⟩
        | pending =>
          have h1 := k2.pending hnil (by rw [hend, hce])
          simp only
          exact ⟨by rw [h1], fun hst => by rw [h1] at hst; simp [Output.stuck] at hst⟩
        | panic =>
          have h1 := k2.panic hnil (by rw [hend, hce])
          simp only
          exact ⟨by rw [h1], fun hst => by rw [h1] at hst; simp [Output.stuck] at hst⟩
    · have hs : s.state ≠ .active := by rw [hst]; exact hc
      rw [next_inactive _ _ _ _ hs]
      simp only [Cursor.next, hc, ne_eq, not_false_eq_true, if_true]
      exact ⟨trivial, fun _ => h⟩
end

theorem view_paged (pages : List Page) : view [.paged] pages = pagedView rawView pages := rfl

/-- the handle `PagedResults::start` saves: the caller's controls (none of them a paging control), time-out, options -/
def savedOf (h : Handle) (q : Query) : Saved :=
  ⟨{ ctrls := some ((h.ctrls.getD []).filter fun c => !c.isPaged), tmo := h.tmo, opts := h.opts }, q⟩

def othersOf (h : Handle) : List RCtl := (h.ctrls.getD []).filter fun c => !c.isPaged

theorem pr_start (size : Int) (h : Handle) (pages : List Page) (q : Query)
    (hh : (h.ctrls.getD []).any RCtl.isPaged = false) (hq : q.filterOk = true) :
    (step (init [pr size] h pages) (.start q)).2 =
        ((Cursor.ofView (view [.paged] pages)).step (startOutcome [.paged] h q pages) (.start q)).2 ∧
      RelP size (savedOf h q) (othersOf h) (pagedRequests (mkReq size (savedOf h q) (othersOf h)) [] pages)
        (step (init [pr size] h pages) (.start q)).1
        ((Cursor.ofView (view [.paged] pages)).step (startOutcome [.paged] h q pages) (.start q)).1 := by
  cases pages with
  | nil =>
    simp [Ldap3V.Stream.step, init, pr, start, startInner, hq, hh, errState, Cursor.step, Cursor.start, Cursor.ofView,
      startOutcome, view_paged, pagedView]
    refine ⟨rfl, rfl, by simp, rfl, by simp, fun _ => ⟨[], rfl, rfl, rfl, ?_⟩, by simp⟩
    simp [futureReqs, nextCookie, rawView, pagedRequests, mkReq, savedOf, othersOf]
  | cons p ps =>
    cases p with
    | script l =>
      simp [Ldap3V.Stream.step, init, pr, start, startInner, hq, hh, errState, Cursor.step, Cursor.start, Cursor.ofView,
        startOutcome, view_paged]
      refine ⟨rfl, rfl, by simp, rfl, by simp, fun _ => ⟨l, rfl, rfl, rfl, ?_⟩, by simp⟩
      simp [pagedRequests_script, mkReq, savedOf, othersOf]
    | fail e =>
      simp [Ldap3V.Stream.step, init, pr, start, startInner, hq, hh, errState, Cursor.step, Cursor.start, Cursor.ofView,
        startOutcome, view_paged]
      exact ⟨rfl, rfl, by simp, rfl, by simp, by simp, by simp⟩

/-- C16 / C10 for `[PagedResults]`: every call sequence without `finish()` produces the outputs of the
cursor on the paged view; if the caller never got stuck the abstraction relation holds at the end -/
theorem refines_paged (size : Int) (h : Handle) (pages : List Page) (q : Query) (calls : List Call)
    (hh : (h.ctrls.getD []).any RCtl.isPaged = false) (hq : q.filterOk = true)
    (hnf : ∀ k ∈ calls, k ≠ .finish) :
    run (init [pr size] h pages) (.start q :: calls) =
      Cursor.run (startOutcome [.paged] h q pages) (Cursor.ofView (view [.paged] pages)) (.start q :: calls) ∧
    ((∀ o ∈ run (init [pr size] h pages) (.start q :: calls), o.stuck = false) →
      RelP size (savedOf h q) (othersOf h) (pagedRequests (mkReq size (savedOf h q) (othersOf h)) [] pages)
        (exec (init [pr size] h pages) (.start q :: calls))
        (Cursor.exec (startOutcome [.paged] h q pages) (Cursor.ofView (view [.paged] pages)) (.start q :: calls))) := by
  obtain ⟨ho, hR⟩ := pr_start size h pages q hh hq
  have hsim := run_eq_of_sim_on (fun k => k ≠ .finish) (startOutcome [.paged] h q pages)
    (RelP size (savedOf h q) (othersOf h) (pagedRequests (mkReq size (savedOf h q) (othersOf h)) [] pages))
    (fun m c k hk hR => RelP.step size (savedOf h q) (othersOf h) rfl hq _ _ m c k hk hR) calls _ _ hnf hR
  have hns := Cursor.start_not_stuck (startOutcome [.paged] h q pages) (Cursor.ofView (view [.paged] pages)) q
  have hns' : (step (init [pr size] h pages) (.start q)).2.stuck = false := by rw [ho]; exact hns
  refine ⟨?_, fun hall => ?_⟩
  · rw [run_cons, hns']
    simp only [Cursor.run, hns, Bool.false_eq_true, if_false]
    rw [ho, hsim.1]
  · rw [exec_cons, hns']
    simp only [Cursor.exec, hns, Bool.false_eq_true, if_false]
    exact hsim.2 (fun o ho' => hall o (by rw [run_cons, hns']; exact List.mem_cons_of_mem _ ho'))

end Ldap3V.Stream

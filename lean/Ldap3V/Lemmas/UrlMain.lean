/-
C20 helper lemmas, part 3: from `path()`/`query()` text to the four fields (`readRaw`), facts
about the formatter's output, the round trip and the error cases.
-/
import Ldap3V.Lemmas.UrlExt
namespace Ldap3V.Url
open Ldap3V Ldap3V.Url.Spec

/-! ## `splitn(4, '?')` of a query with 0..4 fields -/

theorem splitN4_1 (sep : UInt8) (a : Bytes) (ha : sep ∉ a) : splitN 4 sep a = [a] := by
  show splitN (2 + 2) sep a = [a]
  simp [splitN, breakAt_none sep a ha]

theorem splitN4_2 (sep : UInt8) (a b : Bytes) (ha : sep ∉ a) (hb : sep ∉ b) :
    splitN 4 sep (a ++ sep :: b) = [a, b] := by
  show splitN (2 + 2) sep _ = _
  simp [splitN, breakAt_append sep a _ ha, breakAt_none sep b hb]

theorem splitN4_3 (sep : UInt8) (a b c : Bytes) (ha : sep ∉ a) (hb : sep ∉ b) (hc : sep ∉ c) :
    splitN 4 sep (a ++ sep :: (b ++ sep :: c)) = [a, b, c] := by
  show splitN (2 + 2) sep _ = _
  simp [splitN, breakAt_append sep a _ ha, breakAt_append sep b _ hb, breakAt_none sep c hc]

theorem splitN4_4 (sep : UInt8) (a b c d : Bytes) (ha : sep ∉ a) (hb : sep ∉ b) (hc : sep ∉ c) :
    splitN 4 sep (a ++ sep :: (b ++ sep :: (c ++ sep :: d))) = [a, b, c, d] := by
  show splitN (2 + 2) sep _ = _
  simp [splitN, breakAt_append sep a _ ha, breakAt_append sep b _ hb, breakAt_append sep c _ hc]

/-- whatever legal number of fields is written, the i-th piece (or `""` when there is none) is
the i-th field -/
theorem query_fields (f0 f1 f2 f3 : Bytes) (keep : Nat) (h0 : 0x3F ∉ f0) (h1 : 0x3F ∉ f1) (h2 : 0x3F ∉ f2)
    (k3 : keep < 4 → f3 = []) (k2 : keep < 3 → f2 = []) (k1 : keep < 2 → f1 = []) (k0 : keep < 1 → f0 = [])
    (q : List Bytes)
    (hq : q = splitN 4 0x3F ((if keep = 0 then none else some (join 0x3F ([f0, f1, f2, f3].take keep))).getD [])) :
    q[0]?.getD [] = f0 ∧ q[1]?.getD [] = f1 ∧ q[2]?.getD [] = f2 ∧ q[3]?.getD [] = f3 := by
  match keep with
  | 0 =>
    have e3 := k3 (by omega); have e2 := k2 (by omega); have e1 := k1 (by omega); have e0 := k0 (by omega)
    subst e3 e2 e1 e0
    simp [splitN4_1] at hq; subst hq; simp
  | 1 =>
    have e3 := k3 (by omega); have e2 := k2 (by omega); have e1 := k1 (by omega)
    subst e3 e2 e1
    simp [join, splitN4_1 _ _ h0] at hq; subst hq; simp
  | 2 =>
    have e3 := k3 (by omega); have e2 := k2 (by omega)
    subst e3 e2
    simp [join, splitN4_2 _ _ _ h0 h1] at hq; subst hq; simp
  | 3 =>
    have e3 := k3 (by omega)
    subst e3
    simp [join, splitN4_3 _ _ _ _ h0 h1 h2] at hq; subst hq; simp
  | n + 4 =>
    simp [join, splitN4_4 _ _ _ _ _ h0 h1 h2] at hq; subst hq; simp

/-! ## reading the fields -/

/-- What `get_url_params` computes from the dn text and the four field texts. -/
def readRaw (r : RawUrl) : Result :=
  match decodeUtf8 r.dn with
  | none => .err .decodingUtf8
  | some base =>
    match (if r.scope = [] then some Scope.subtree else parseScope r.scope) with
    | none => .err .invalidScope
    | some scope =>
      match decodeUtf8 (if r.filter = [] then litDefaultFilter else r.filter) with
      | none => .err .decodingUtf8
      | some filter =>
        match extLoop r.exts [] with
        | .panic => .panic
        | .err e => .err e
        | .ok exts =>
          .ok { base, attrs := if r.attrs = [] then [litStar] else split 0x2C r.attrs, scope, filter, exts }

/-- the text is unambiguous: no `?` inside the first three fields, no `,` inside an extension -/
def Spec.RawUrl.Unambiguous (r : RawUrl) : Prop :=
  0x3F ∉ r.attrs ∧ 0x3F ∉ r.scope ∧ 0x3F ∉ r.filter ∧ ∀ x ∈ r.exts, 0x2C ∉ x

theorem extLoop_join (l : List Bytes) (h : ∀ x ∈ l, 0x2C ∉ x) :
    (if join 0x2C l = [] then ExtsResult.ok [] else extLoop (split 0x2C (join 0x2C l)) []) = extLoop l [] := by
  by_cases hj : join 0x2C l = []
  · rcases join_eq_nil _ _ hj with e | e <;> subst e <;> decide
  · have hl : l ≠ [] := by intro e; subst e; exact hj rfl
    simp [hj, split_join _ l hl h]

theorem stripSlash_path (r : RawUrl) (o : Omit) (h : o.slash = false → r.dn = []) :
    stripSlash (r.format o).path = r.dn := by
  cases hs : o.slash with
  | true => simp [RawUrl.format, hs, stripSlash]
  | false => simp [RawUrl.format, hs, h hs, stripSlash]

theorem minFields_ge (r : RawUrl) :
    (join 0x2C r.exts ≠ [] → 4 ≤ r.minFields) ∧ (r.filter ≠ [] → 3 ≤ r.minFields) ∧
    (r.scope ≠ [] → 2 ≤ r.minFields) ∧ (r.attrs ≠ [] → 1 ≤ r.minFields) := by
  by_cases a : join 0x2C r.exts = [] <;> by_cases b : r.filter = [] <;> by_cases c : r.scope = [] <;>
    by_cases d : r.attrs = [] <;> simp [RawUrl.minFields, a, b, c, d]

theorem getUrlParams_raw (r : RawUrl) (o : Omit) (hu : r.Unambiguous) (ho : o.Legal r) :
    getUrlParams (r.format o).path (r.format o).query = readRaw r := by
  obtain ⟨h0, h1, h2, hx⟩ := hu
  obtain ⟨hk, hsl⟩ := ho
  obtain ⟨m3, m2, m1, m0⟩ := minFields_ge r
  have k3 : o.keep < 4 → join 0x2C r.exts = [] := fun hlt => Decidable.byContradiction fun hne => by
    have := m3 hne; omega
  have k2 : o.keep < 3 → r.filter = [] := fun hlt => Decidable.byContradiction fun hne => by
    have := m2 hne; omega
  have k1 : o.keep < 2 → r.scope = [] := fun hlt => Decidable.byContradiction fun hne => by
    have := m1 hne; omega
  have k0 : o.keep < 1 → r.attrs = [] := fun hlt => Decidable.byContradiction fun hne => by
    have := m0 hne; omega
  obtain ⟨q0, q1, q2, q3⟩ := query_fields r.attrs r.scope r.filter (join 0x2C r.exts) o.keep h0 h1 h2 k3 k2 k1 k0
    (splitN 4 0x3F ((r.format o).query.getD [])) (by simp [RawUrl.format, RawUrl.fields])
  simp only [getUrlParams, stripSlash_path r o (fun h => (hsl h).1), orDefault_eq, q0, q1, q2, q3, readRaw,
    extLoop_join r.exts hx, id]
  cases decodeUtf8 r.dn with
  | none => rfl
  | some base =>
    simp only []
    cases (if r.scope = [] then some Scope.subtree else parseScope r.scope) with
    | none => rfl
    | some sc =>
      simp only []
      cases decodeUtf8 (if r.filter = [] then litDefaultFilter else r.filter) with
      | none => rfl
      | some f =>
        simp only []
        cases extLoop r.exts [] <;> rfl

/-! ## the formatter's output is unambiguous -/

theorem not_mem_join (sep c : UInt8) (l : List Bytes) (hc : c ≠ sep) (h : ∀ x ∈ l, c ∉ x) : c ∉ join sep l := by
  intro hm
  rcases mem_join sep l c hm with e | ⟨x, hx, hcx⟩
  · exact hc e
  · exact h x hx hcx

theorem not_mem_fmtExt (s : Style) (hs : s.Legal) (e : ExtC) (hn : ∀ b ∈ e.name, oidChar b = true) :
    0x2C ∉ fmtExt s e := by
  rw [fmtExt, fmtExtRaw_eq]
  intro h
  rcases List.mem_append.mp h with h | h
  · exact not_mem_idTxt _ _ _ hn (by decide) (by decide) h
  · cases hv : e.value with
    | none => simp [hv] at h
    | some v =>
      simp only [hv, Option.map_some, List.mem_cons] at h
      rcases h with h | h
      · exact absurd h (by decide)
      · exact not_mem_pctEncode s.valRaw s.upper v 0x2C (fun hr => (hs.2.2 _ hr).2 rfl) (by decide) (by decide) h

theorem encodeComps_unambiguous (s : Style) (hs : s.Legal) (c : UrlComps) (hw : WFCore c) :
    (encodeComps s c).Unambiguous := by
  obtain ⟨_, ha, _, he⟩ := hw
  refine ⟨?_, ?_, ?_, ?_⟩
  · exact not_mem_join _ _ _ (by decide) (fun x hx hm => attrChar_ne _ _ ((ha x hx).2 _ hm) (by decide) rfl)
  · simp only [encodeComps]
    cases c.scope with
    | none => simp [scopeWord]
    | some sc => cases sc <;> decide
  · simp only [encodeComps]
    cases c.filter with
    | none => simp
    | some f => exact not_mem_pctEncode _ _ _ _ (fun hr => (hs.2.1 _ hr).2 rfl) (by decide) (by decide)
  · intro x hx
    simp only [encodeComps, List.mem_map] at hx
    obtain ⟨e, hemem, rfl⟩ := hx
    exact not_mem_fmtExt s hs e (he e hemem).1

/-! ## scope words -/

theorem parseScope_scopeWord (sc : Option Scope) :
    (if scopeWord sc = [] then some Scope.subtree else parseScope (scopeWord sc)) = some (sc.getD .subtree) := by
  cases sc with
  | none => rfl
  | some sc => cases sc <;> decide

/-! ## the round trip, with duplicate kinds allowed -/

theorem readRaw_encodeComps (s : Style) (hs : s.Legal) (c : UrlComps) (h : WFC c) :
    readRaw (encodeComps s c) = .ok ((withDefaults c).setExts (firstOfKind (c.exts.filterMap toExt))) := by
  obtain ⟨⟨hb, ha, hf, he⟩, hc⟩ := h
  have e1 : decodeUtf8 (encodeComps s c).dn = some c.base :=
    decodeUtf8_pctEncode _ _ (fun b hb => hs.1 b hb) _ hb
  have e2 := parseScope_scopeWord c.scope
  have e3 : decodeUtf8 (if (encodeComps s c).filter = [] then litDefaultFilter else (encodeComps s c).filter)
      = some (c.filter.getD litDefaultFilter) := by
    cases hfl : c.filter with
    | none => simp only [encodeComps, hfl]; decide
    | some f =>
      have := hf f (by simp [hfl])
      have hne : pctEncode s.filterRaw s.upper f ≠ [] := fun e => this.1 (pctEncode_eq_nil _ _ _ e)
      simp [encodeComps, hfl, hne, decodeUtf8_pctEncode _ _ (fun b hb => (hs.2.1 b hb).1) _ this.2]
  have e4 : extLoop (encodeComps s c).exts [] = .ok (firstOfKind (c.exts.filterMap toExt)) := by
    simp only [encodeComps]
    rw [extLoop_ok s hs c.exts [] he hc, foldl_insertExt_nil]
  have e5 : (if (encodeComps s c).attrs = [] then [litStar] else split 0x2C (encodeComps s c).attrs)
      = (if c.attrs = [] then [litStar] else c.attrs) := by
    simp only [encodeComps]
    by_cases hat : c.attrs = []
    · simp [hat, join]
    · have hne : join 0x2C c.attrs ≠ [] := join_ne_nil _ _ hat (fun x hx => (ha x hx).1)
      have hsp := split_join 0x2C c.attrs hat
        (fun x hx hm => attrChar_ne _ _ ((ha x hx).2 _ hm) (by decide) rfl)
      simp [hat, hne, hsp]
  have e2' : (if (encodeComps s c).scope = [] then some Scope.subtree else parseScope (encodeComps s c).scope)
      = some (c.scope.getD .subtree) := e2
  simp only [readRaw, e1, e2', e3, e4, e5, withDefaults, Params.setExts]
  rfl

/-- the parts read before the extensions, for well-formed components -/
theorem encodeComps_front (s : Style) (hs : s.Legal) (c : UrlComps) (h : WFCore c) :
    decodeUtf8 (encodeComps s c).dn = some c.base ∧
    (if (encodeComps s c).scope = [] then some Scope.subtree else parseScope (encodeComps s c).scope)
      = some (c.scope.getD .subtree) ∧
    decodeUtf8 (if (encodeComps s c).filter = [] then litDefaultFilter else (encodeComps s c).filter)
      = some (c.filter.getD litDefaultFilter) := by
  obtain ⟨hb, _, hf, _⟩ := h
  refine ⟨decodeUtf8_pctEncode _ _ (fun b hb => hs.1 b hb) _ hb, parseScope_scopeWord c.scope, ?_⟩
  cases hfl : c.filter with
  | none => simp only [encodeComps, hfl]; decide
  | some f =>
    have := hf f (by simp [hfl])
    have hne : pctEncode s.filterRaw s.upper f ≠ [] := fun e => this.1 (pctEncode_eq_nil _ _ _ e)
    simp [encodeComps, hfl, hne, decodeUtf8_pctEncode _ _ (fun b hb => (hs.2.1 b hb).1) _ this.2]

theorem minFields_le (r : RawUrl) : r.minFields ≤ 4 := by
  by_cases a : join 0x2C r.exts = [] <;> by_cases b : r.filter = [] <;> by_cases c : r.scope = [] <;>
    by_cases d : r.attrs = [] <;> simp [RawUrl.minFields, a, b, c, d]

/-! ## styles -/

theorem unreserved_ne (b c : UInt8) (h : unreserved b = true) (hc : unreserved c = false) : b ≠ c := by
  intro e; subst e; rw [h] at hc; exact Bool.noConfusion hc

theorem rfcRaw_ne (b c : UInt8) (h : rfcRaw b = true) (hc : rfcRaw c = false) : b ≠ c := by
  intro e; subst e; rw [h] at hc; exact Bool.noConfusion hc

theorem strict_legal : Style.strict.Legal :=
  ⟨fun b h => unreserved_ne b _ h (by decide),
   fun b h => ⟨unreserved_ne b _ h (by decide), unreserved_ne b _ h (by decide)⟩,
   fun b h => ⟨unreserved_ne b _ h (by decide), unreserved_ne b _ h (by decide)⟩⟩

theorem strict_lc_legal : ({ Style.strict with upper := false } : Style).Legal := strict_legal

theorem minimal_legal (up : Bool) : (Style.minimal up).Legal := by
  refine ⟨fun b h => rfcRaw_ne b _ h (by decide),
    fun b h => ⟨rfcRaw_ne b _ h (by decide), rfcRaw_ne b _ h (by decide)⟩, fun b h => ?_⟩
  simp only [Style.minimal, Bool.and_eq_true, bne_iff_ne, ne_eq] at h
  exact ⟨rfcRaw_ne b _ h.1 (by decide), h.2⟩

/-! ## extension names -/

theorem oidChar_of_lower (b : UInt8) (h : oidChar (toAsciiLower b) = true) : oidChar b = true := by
  by_cases hu : 0x41 ≤ b.toNat ∧ b.toNat ≤ 0x5A
  · simp [oidChar, isAlpha, hu.1, hu.2]
  · simpa [toAsciiLower, hu] using h

theorem oidChar_of_map_lower (name lit : Bytes) (h : name.map toAsciiLower = lit) (hl : ∀ b ∈ lit, oidChar b = true) :
    ∀ b ∈ name, oidChar b = true := by
  intro b hb
  exact oidChar_of_lower b (hl _ (by rw [← h]; exact List.mem_map_of_mem hb))

theorem kindOf_bindname (name : Bytes) (h : name.map toAsciiLower = litBindname) : kindOf name = some .bindname := by
  have hlen : name.length = 8 := by have := congrArg List.length h; simpa [litBindname] using this
  have h1 : name ≠ oidCredentials := by intro e; subst e; simp [oidCredentials] at hlen
  have h2 : name ≠ oidSaslMech := by intro e; subst e; simp [oidSaslMech] at hlen
  have h3 : name ≠ oidStartTls := by intro e; subst e; simp [oidStartTls] at hlen
  simp only [oidCredentials, oidSaslMech, oidStartTls, litBindname] at h1 h2 h3 h
  simp [kindOf, h1, h2, h3, h]

theorem kindOf_xbindpw (name : Bytes) (h : name.map toAsciiLower = litXBindpw) : kindOf name = some .xbindpw := by
  have hlen : name.length = 8 := by have := congrArg List.length h; simpa [litXBindpw] using this
  have h1 : name ≠ oidCredentials := by intro e; subst e; simp [oidCredentials] at hlen
  have h2 : name ≠ oidSaslMech := by intro e; subst e; simp [oidSaslMech] at hlen
  have h3 : name ≠ oidStartTls := by intro e; subst e; simp [oidStartTls] at hlen
  simp only [oidCredentials, oidSaslMech, oidStartTls, litXBindpw] at h1 h2 h3 h
  simp [kindOf, h1, h2, h3, h]

/-! ## errors -/

theorem readRaw_bad_scope (r : RawUrl) (base : Bytes) (hb : decodeUtf8 r.dn = some base)
    (hw : r.scope ≠ [] ∧ parseScope r.scope = none) : readRaw r = .err .invalidScope := by
  simp [readRaw, hb, hw.1, hw.2]

theorem readRaw_bad_base (r : RawUrl) (hb : decodeUtf8 r.dn = none) : readRaw r = .err .decodingUtf8 := by
  simp [readRaw, hb]

theorem readRaw_bad_filter (r : RawUrl) (base : Bytes) (sc : Scope) (hb : decodeUtf8 r.dn = some base)
    (hs : (if r.scope = [] then some Scope.subtree else parseScope r.scope) = some sc)
    (hne : r.filter ≠ []) (hf : decodeUtf8 r.filter = none) : readRaw r = .err .decodingUtf8 := by
  simp [readRaw, hb, hs, hne, hf]

theorem readRaw_exts_err (r : RawUrl) (base filter : Bytes) (sc : Scope) (e : UrlErr) (hb : decodeUtf8 r.dn = some base)
    (hs : (if r.scope = [] then some Scope.subtree else parseScope r.scope) = some sc)
    (hf : decodeUtf8 (if r.filter = [] then litDefaultFilter else r.filter) = some filter)
    (hx : extLoop r.exts [] = .err e) : readRaw r = .err e := by
  simp [readRaw, hb, hs, hf, hx]

end Ldap3V.Url

/- `Spec.Filter.ofTlv` inverts `toTlv`; hence `toTlv` is injective. -/
import Ldap3V.Spec.Filter
namespace Ldap3V.Spec.Filter
open Ldap3V.Spec (Filter)

theorem ofSubAny_spec (any : List Bytes) (fin : Option Bytes) :
    ofSubAny (any.map (Tlv.prim 2 1) ++ optPrim 2 fin) = some (any, fin) := by
  induction any with
  | nil => cases fin <;> simp [optPrim, ofSubAny]
  | cons v vs ih => simp [ofSubAny, ih]

theorem ofSubs_spec (ini : Option Bytes) (any : List Bytes) (fin : Option Bytes) :
    ofSubs (optPrim 0 ini ++ (any.map (Tlv.prim 2 1) ++ optPrim 2 fin)) = some (ini, any, fin) := by
  cases ini with
  | some v =>
    show ofSubs (Tlv.prim 2 0 v :: (any.map (Tlv.prim 2 1) ++ optPrim 2 fin)) = _
    simp [ofSubs, ofSubAny_spec]
  | none =>
    have h := ofSubAny_spec any fin
    cases any with
    | nil =>
      cases fin with
      | none => simp [optPrim, ofSubs, ofSubAny]
      | some w => simp [optPrim, ofSubs, ofSubAny]
    | cons x xs =>
      simp only [optPrim, List.nil_append, List.map_cons, List.cons_append] at h ⊢
      simp [ofSubs, h]

theorem ofExt_spec (rule attr : Option Bytes) (v : Bytes) (dn : Bool) :
    ofExt (optPrim 1 rule ++ (optPrim 2 attr ++ Tlv.prim 2 3 v :: (if dn then [Tlv.prim 2 4 [0xFF]] else []))) =
      some (.ext rule attr v dn) := by
  cases rule <;> cases attr <;> cases dn <;> simp [ofExt, takeOpt, ofExtTail, optPrim]

mutual
theorem ofTlv_toTlv : (f : Filter) → ofTlv (toTlv f) = some f
  | .and fs => by simp [toTlv, ofTlv, ofTlvList_toTlvList fs]
  | .or fs => by simp [toTlv, ofTlv, ofTlvList_toTlvList fs]
  | .not f => by simp [toTlv, ofTlv, ofTlvList, ofTlv_toTlv f]
  | .eq a v => by simp [toTlv, ofTlv, avaKids, ofAva]
  | .ge a v => by simp [toTlv, ofTlv, avaKids, ofAva]
  | .le a v => by simp [toTlv, ofTlv, avaKids, ofAva]
  | .approx a v => by simp [toTlv, ofTlv, avaKids, ofAva]
  | .present a => by simp [toTlv, ofTlv]
  | .substr a ini any fin => by simp [toTlv, ofTlv, ofSubs_spec]
  | .ext rule attr v dn => by simp [toTlv, ofTlv, ofExt_spec]
theorem ofTlvList_toTlvList : (fs : List Filter) → ofTlvList (toTlvList fs) = some fs
  | [] => by simp [toTlvList, ofTlvList]
  | f :: fs => by simp [toTlvList, ofTlvList, ofTlv_toTlv f, ofTlvList_toTlvList fs]
end

theorem toTlv_injective {f g : Filter} (h : toTlv f = toTlv g) : f = g := by
  have := ofTlv_toTlv f
  rw [h, ofTlv_toTlv g] at this
  cases this; rfl

end Ldap3V.Spec.Filter

/-
The two 65 536-case halves of "the regenerated `Unescaper::feed` is the model's `Unescaper.feed`"
(state `Value v` / `WantSecond p` × every input byte), in their own module because each takes the
kernel the better part of a minute; see Lemmas/GenPure.lean.
-/
import Ldap3V.Lemmas.GenPure
namespace Ldap3V
open Gen

set_option maxRecDepth 100000 in
theorem gen_feed_value (v c : UInt8) : (unescaper_feed (.Value v) c).map unescOfRust = some ((Unescaper.value v).feed c) := by
  revert v; apply forall_u8; intro n; revert c; apply forall_u8; revert n; decide +kernel
set_option maxRecDepth 100000 in
theorem gen_feed_wantSecond (p c : UInt8) : (unescaper_feed (.WantSecond p) c).map unescOfRust = some ((Unescaper.wantSecond p).feed c) := by
  revert p; apply forall_u8; intro n; revert c; apply forall_u8; revert n; decide +kernel


/-- `Unescaper::feed`, regenerated from src/filter.rs, is the model's `Unescaper.feed` in every state on every byte;
in particular the checked `u8` arithmetic of the nibble computation never overflows -/
theorem gen_feed (u : Rust.Unescaper) (c : UInt8) :
    (unescaper_feed u c).map unescOfRust = some ((unescOfRust u).feed c) := by
  cases u with
  | WantFirst => exact gen_feed_wantFirst c
  | WantSecond p => exact gen_feed_wantSecond p c
  | Value v => exact gen_feed_value v c
  | Error => exact gen_feed_error c

end Ldap3V

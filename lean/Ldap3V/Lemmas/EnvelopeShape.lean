/- C11: the envelope reader `envelopeOf` accepts exactly the trees of `Spec.IsEnvelope`; the frame
decoder answers need-more exactly when the outer element has not arrived. -/
import Ldap3V.Spec.EnvelopeShape
import Ldap3V.Lemmas.Envelope
import Ldap3V.Lemmas.BerParse
import Ldap3V.Lemmas.BerMono
namespace Ldap3V
open Spec

theorem asI32_spec (u : Nat) (id : Int) :
    asI32 (u % 18446744073709551616) = id ↔
      (-2147483648 ≤ id ∧ id < 2147483648 ∧ ((u : Int) - id) % 4294967296 = 0) := by
  unfold asI32
  simp only
  split <;> omega

theorem msgIdOf_iff (t : Tlv) (id : Int) : msgIdOf t = some id ↔ IsMsgId t id := by
  constructor
  · intro h
    unfold msgIdOf at h
    split at h
    · next v =>
      simp only [Option.some.injEq, parseUint_eq] at h
      exact ⟨v, rfl, (asI32_spec _ _).mp h⟩
    · cases h
  · rintro ⟨v, rfl, h⟩
    simp only [msgIdOf, Option.some.injEq, parseUint_eq]
    exact (asI32_spec _ _).mpr h

theorem envelopeOf_of_isEnvelope (t : Tlv) (id : Int) (op : Tlv) (cs : List Control)
    (h : IsEnvelope t id op cs) : envelopeOf t = some (id, op, cs) := by
  cases h with
  | plain c pre idt op id hid hop =>
    have hm := (msgIdOf_iff idt id).mpr hid
    have h1 : (op.cls == 2 && op.id == 0) = false := by
      rw [Bool.and_eq_false_iff]; simp only [beq_eq_false_iff_ne]; omega
    have h2 : (op.cls == 2 && op.id == 10) = false := by
      rw [Bool.and_eq_false_iff]; simp only [beq_eq_false_iff_ne]; omega
    simp [envelopeOf, h1, h2, hm]
  | withControls c pre idt op ctl id cs hid h1 h2 h3 hc =>
    have hm := (msgIdOf_iff idt id).mpr hid
    simp [envelopeOf, h1, h2, h3, hc, hm]
  | adTrailer c pre idt op x id hid h1 h2 =>
    have hm := (msgIdOf_iff idt id).mpr hid
    simp [envelopeOf, h1, h2, hm]

/-- the tail of `envelopeOf`: message ID in front of the protocolOp -/
theorem envelope_tail (r : List Tlv) (op : Tlv) (cs : List Control) (id : Int) (op' : Tlv) (cs' : List Control)
    (h : (match r with
          | [] => none
          | idt :: _ => match msgIdOf idt with
            | none => none
            | some id => some (id, op, cs)) = some (id, op', cs')) :
    ∃ idt r3, r = idt :: r3 ∧ IsMsgId idt id ∧ op' = op ∧ cs' = cs := by
  match r, h with
  | [], h => cases h
  | idt :: r3, h =>
    simp only at h
    cases hm : msgIdOf idt with
    | none => rw [hm] at h; cases h
    | some id' =>
      rw [hm] at h
      simp only [Option.some.injEq, Prod.mk.injEq] at h
      obtain ⟨rfl, rfl, rfl⟩ := h
      exact ⟨idt, r3, rfl, (msgIdOf_iff idt id').mp hm, rfl, rfl⟩

theorem isEnvelope_of_envelopeOf (t : Tlv) (id : Int) (op : Tlv) (cs : List Control)
    (h : envelopeOf t = some (id, op, cs)) : IsEnvelope t id op cs := by
  cases t with
  | prim c i v => simp [envelopeOf] at h
  | cons c i kids =>
    simp only [envelopeOf, Tlv.id_cons, Tlv.expectCons_cons] at h
    by_cases hi : i = 16
    · subst hi
      simp only [beq_self_eq_true, if_true] at h
      obtain ⟨rk, hk⟩ : ∃ rk, kids.reverse = rk := ⟨_, rfl⟩
      have hkids : kids = rk.reverse := by rw [← hk, List.reverse_reverse]
      rw [hk] at h
      subst hkids
      match rk, h with
      | [], h => cases h
      | last :: r1, h =>
        simp only at h
        by_cases c1 : (last.cls == 2 && last.id == 0) = true
        · simp only [c1, if_true] at h
          by_cases c2 : last.isCons = true
          · simp only [c2, if_true] at h
            match r1, h with
            | [], h => cases h
            | op' :: r2, h =>
              simp only at h
              cases hpc : parseControls last with
              | none => rw [hpc] at h; cases h
              | some cs' =>
                rw [hpc] at h
                simp only at h
                obtain ⟨idt, r3, rfl, hid, rfl, rfl⟩ := envelope_tail r2 op' cs' id op cs h
                simp only [Bool.and_eq_true, beq_iff_eq] at c1
                have e : (last :: op :: idt :: r3).reverse = r3.reverse ++ [idt, op, last] := by simp
                rw [e]
                exact .withControls c _ idt op last id cs hid c1.1 c1.2 c2 hpc
          · simp [c2] at h
        · simp only [c1] at h
          by_cases c3 : (last.cls == 2 && last.id == 10) = true
          · simp only [c3, if_true] at h
            match r1, h with
            | [], h => cases h
            | op' :: r2, h =>
              simp only at h
              obtain ⟨idt, r3, rfl, hid, rfl, rfl⟩ := envelope_tail r2 op' [] id op cs h
              simp only [Bool.and_eq_true, beq_iff_eq] at c3
              have e : (last :: op :: idt :: r3).reverse = r3.reverse ++ [idt, op, last] := by simp
              rw [e]
              exact .adTrailer c _ idt op last id hid c3.1 c3.2
          · simp only [c3] at h
            obtain ⟨idt, r3, rfl, hid, rfl, rfl⟩ := envelope_tail r1 last [] id op cs h
            simp only [Bool.and_eq_true, beq_iff_eq] at c1 c3
            have e : (op :: idt :: r3).reverse = r3.reverse ++ [idt, op] := by simp
            rw [e]
            exact .plain c _ idt op id hid (by omega)
    · have : (i == 16) = false := by simpa using hi
      simp [this] at h

theorem envelopeOf_iff (t : Tlv) (id : Int) (op : Tlv) (cs : List Control) :
    envelopeOf t = some (id, op, cs) ↔ IsEnvelope t id op cs :=
  ⟨isEnvelope_of_envelopeOf t id op cs, envelopeOf_of_isEnvelope t id op cs⟩

/-! ### the outer header -/

theorem parseLen_ok_iff (i : Bytes) (n : Nat) (r : Bytes) :
    parseLen i = .ok n r ↔ ∃ l, i = l ++ r ∧ LenRead n l := by
  constructor
  · intro h
    match i, h with
    | [], h => cases h
    | b :: rest, h =>
      simp only [parseLen] at h
      split at h
      · next hb =>
        simp only [PR.ok.injEq] at h
        obtain ⟨rfl, rfl⟩ := h
        exact ⟨[b], rfl, Or.inl ⟨b, hb, rfl, rfl⟩⟩
      · next hb =>
        split at h
        · cases h
        · next hk =>
          simp only [PR.ok.injEq] at h
          obtain ⟨rfl, rfl⟩ := h
          refine ⟨b :: rest.take (b.toNat - 128), by simp, Or.inr ⟨b, rest.take (b.toNat - 128), by omega, ?_, rfl, parseUint_eq _⟩⟩
          rw [List.length_take]; omega
  · rintro ⟨l, rfl, hl⟩
    rcases hl with ⟨b, hb, rfl, rfl⟩ | ⟨b, ds, hb, hk, rfl, rfl⟩
    · simp [parseLen, hb]
    · have h1 : ¬ b.toNat < 128 := by omega
      have h2 : ¬ (ds ++ r).length < ds.length := by simp only [List.length_append]; omega
      simp only [List.cons_append, parseLen, h1, if_false, ← hk, h2, List.take_left, List.drop_left, parseUint_eq]

theorem parseLen_incomplete_iff (i : Bytes) :
    parseLen i = .incomplete ↔ ¬ ∃ l r n, i = l ++ r ∧ LenRead n l := by
  constructor
  · rintro h ⟨l, r, n, hi, hl⟩
    rw [(parseLen_ok_iff i n r).mpr ⟨l, hi, hl⟩] at h
    cases h
  · intro h
    cases hp : parseLen i with
    | incomplete => rfl
    | error => exact absurd hp (parseLen_ne_error i)
    | ok n r =>
      obtain ⟨l, hi, hl⟩ := (parseLen_ok_iff i n r).mp hp
      exact absurd ⟨l, r, n, hi, hl⟩ h

/-- at the outermost level the parser asks for more bytes exactly when the identifier octet, the
length octets or part of the announced content is missing -/
theorem pTag_top_incomplete_iff (f : Nat) (bs : Bytes) :
    pTag (f + 1) 0 bs = .incomplete ↔ ¬ OuterArrived bs := by
  match bs with
  | [] =>
    simp only [pTag, true_iff]
    rintro ⟨hdr, l, content, extra, h, _⟩
    cases h
  | b :: i1 =>
    simp only [pTag]
    cases hp : parseLen i1 with
    | incomplete =>
      simp only [true_iff]
      rintro ⟨hdr, l, content, extra, h, hl⟩
      simp only [List.cons.injEq] at h
      obtain ⟨rfl, rfl⟩ := h
      exact (parseLen_incomplete_iff _).mp hp ⟨l, content ++ extra, content.length, by simp, hl⟩
    | error => exact absurd hp (parseLen_ne_error i1)
    | ok len i2 =>
      simp only
      obtain ⟨l, rfl, hl⟩ := (parseLen_ok_iff i1 len i2).mp hp
      by_cases hlt : i2.length < len
      · simp only [hlt, if_true, true_iff]
        rintro ⟨hdr, l', content, extra, h, hl'⟩
        simp only [List.cons.injEq] at h
        obtain ⟨rfl, h⟩ := h
        have h' := (parseLen_ok_iff (l ++ i2) content.length (content ++ extra)).mpr
          ⟨l', by rw [h]; simp, hl'⟩
        rw [hp] at h'
        simp only [PR.ok.injEq] at h'
        obtain ⟨rfl, rfl⟩ := h'
        simp only [List.length_append] at hlt
        omega
      · simp only [hlt, if_false]
        constructor
        · intro h
          exfalso
          revert h
          split
          · split
            · simp
            · split <;> simp
          · simp
        · intro h
          exfalso
          apply h
          refine ⟨b, l, i2.take len, i2.drop len, by simp, ?_⟩
          rw [List.length_take, Nat.min_eq_left (by omega)]
          exact hl

theorem decodeInner_needMore_iff (bs : Bytes) : decodeInner bs = .needMore ↔ ¬ OuterArrived bs := by
  rw [← pTag_top_incomplete_iff bs.length bs]
  unfold decodeInner parseTop parseTag
  cases pTag (bs.length + 1) 0 bs with
  | incomplete => simp
  | error => simp
  | ok t r =>
    simp only
    split <;> simp

theorem decodeInner_frame_iff (bs : Bytes) (id : Int) (op : Tlv) (cs : List Control) (n : Nat) :
    decodeInner bs = .frame id op cs n ↔
      ∃ t rest, parseTag bs = .ok t rest ∧ IsEnvelope t id op cs ∧ n = bs.length - rest.length := by
  unfold decodeInner parseTop
  cases hp : parseTag bs with
  | incomplete => simp
  | error => simp
  | ok t r =>
    simp only [PR.ok.injEq]
    cases he : envelopeOf t with
    | none =>
      refine Iff.intro (fun h => DecOut.noConfusion h) ?_
      rintro ⟨t', rest, ⟨rfl, rfl⟩, hi, _⟩
      rw [(envelopeOf_iff _ _ _ _).mpr hi] at he
      cases he
    | some m =>
      obtain ⟨i, o, c⟩ := m
      simp only [DecOut.frame.injEq]
      constructor
      · rintro ⟨rfl, rfl, rfl, rfl⟩
        exact ⟨t, r, ⟨rfl, rfl⟩, (envelopeOf_iff _ _ _ _).mp he, rfl⟩
      · rintro ⟨t', rest, ⟨rfl, rfl⟩, hi, rfl⟩
        rw [(envelopeOf_iff _ _ _ _).mpr hi] at he
        simp only [Option.some.injEq, Prod.mk.injEq] at he
        obtain ⟨rfl, rfl, rfl⟩ := he
        exact ⟨rfl, rfl, rfl, rfl⟩

/-- strict X.690 length octets of a `usize` are read as that length -/
theorem lenRead_of_lenEnc (n : Nat) (l : Bytes) (h : LenEnc n l) (hn : n < 18446744073709551616) :
    LenRead n l := by
  rcases h with ⟨h1, rfl⟩ | ⟨ds, h1, h2, rfl, rfl⟩
  · exact Or.inl ⟨n.toUInt8, by rw [toUInt8_toNat _ (by omega)]; exact h1, rfl, by rw [toUInt8_toNat _ (by omega)]⟩
  · refine Or.inr ⟨(128 + ds.length).toUInt8, ds, ?_, ?_, rfl, (Nat.mod_eq_of_lt hn).symm⟩
    · rw [toUInt8_toNat _ (by omega)]; omega
    · rw [toUInt8_toNat _ (by omega)]; omega

theorem outerArrived_append (bs y : Bytes) (h : OuterArrived bs) : OuterArrived (bs ++ y) := by
  obtain ⟨hdr, l, content, extra, rfl, hl⟩ := h
  exact ⟨hdr, l, content, extra ++ y, by simp, hl⟩

/-- every byte string is a prefix of one whose outer element has arrived -/
theorem outerArrived_extend (bs : Bytes) : ∃ y, OuterArrived (bs ++ y) := by
  match bs with
  | [] => exact ⟨[0, 0], 0, [0], [], [], rfl, Or.inl ⟨0, by decide, rfl, rfl⟩⟩
  | hdr :: i1 =>
    cases hp : parseLen i1 with
    | ok len i2 =>
      obtain ⟨l, rfl, hl⟩ := (parseLen_ok_iff i1 len i2).mp hp
      refine ⟨List.replicate len 0, hdr, l, (i2 ++ List.replicate len 0).take len,
        (i2 ++ List.replicate len 0).drop len, by simp, ?_⟩
      rw [List.length_take, Nat.min_eq_left (by simp)]
      exact hl
    | error => exact absurd hp (parseLen_ne_error i1)
    | incomplete =>
      match i1, hp with
      | [], _ => exact ⟨[0], hdr, [0], [], [], rfl, Or.inl ⟨0, by decide, rfl, rfl⟩⟩
      | b :: rest, hp =>
        simp only [parseLen] at hp
        split at hp
        · cases hp
        · next hb =>
          split at hp
          · next hk =>
            refine ⟨List.replicate (b.toNat - 128 - rest.length) 0 ++
                List.replicate (beVal (rest ++ List.replicate (b.toNat - 128 - rest.length) 0) % 18446744073709551616) 0,
              hdr, b :: (rest ++ List.replicate (b.toNat - 128 - rest.length) 0),
              List.replicate (beVal (rest ++ List.replicate (b.toNat - 128 - rest.length) 0) % 18446744073709551616) 0,
              [], by simp, Or.inr ⟨b, _, by omega, ?_, rfl, by simp⟩⟩
            simp only [List.length_append, List.length_replicate]; omega
          · cases hp

end Ldap3V

/- History-level non-interference of an unmatched frame (C01): a frame whose ID is in neither routing
map, once consumed by the driver, leaves no trace except in the bookkeeping of the server log
(`srvLog`, `pos`): every later event is enabled in exactly the same cases, yields the same
observation, and leads to the same state up to that bookkeeping. -/
import Ldap3V.Lemmas.ConnAcctStep
namespace Ldap3V.Conn

/-- `s` with another server log and read position -/
def withLog (s : St) (L : List Frame) (p : Nat) : St := { s with srvLog := L, pos := p }

theorem chanOpen_withLog (s : St) (L : List Frame) (p : Nat) (c : Nat) :
    chanOpen (withLog s L p) c = chanOpen s c := rfl

theorem withLog_self (s : St) : withLog s s.srvLog s.pos = s := rfl

theorem withLog_withLog (s : St) (L L' : List Frame) (p p' : Nat) : withLog (withLog s L p) L' p' = withLog s L' p' := rfl

/-- events that neither read nor extend the server log behave the same whatever the log is -/
theorem step_withLog_other {s t : St} {ob : Obs} (L : List Frame) (p : Nat) (e : Ev) (h1 : e ≠ .drvResp) (h2 : ∀ f, e ≠ .srvSend f)
    (hs : step s e = some (t, ob)) : step (withLog s L p) e = some (withLog t L p, ob) := by
  cases e with
  | drvResp => exact absurd rfl h1
  | srvSend f => exact absurd rfl (h2 f)
  | _ =>
    simp only [step] at hs
    repeat' (split at hs)
    all_goals first
      | (cases hs; done)
      | (simp only [Option.some.injEq, Prod.mk.injEq] at hs
         obtain ⟨rfl, rfl⟩ := hs
         first
          | (simp_all [step, ↓chanOpen_withLog, withLog, endDriver]; done)
          | (simp_all [step, ↓chanOpen_withLog, withLog, endDriver]
             first | rfl | (intro h; omega) | (rename_i hh; exact if_neg (fun ab => hh ab.1 ab.2))))

/-- … and they leave the log alone -/
theorem step_log_other {s t : St} {ob : Obs} (e : Ev) (h1 : e ≠ .drvResp) (h2 : ∀ f, e ≠ .srvSend f)
    (hs : step s e = some (t, ob)) : t.srvLog = s.srvLog ∧ t.pos = s.pos := by
  cases e with
  | drvResp => exact absurd rfl h1
  | srvSend f => exact absurd rfl (h2 f)
  | _ =>
    simp only [step] at hs
    repeat' (split at hs)
    all_goals first
      | (cases hs; done)
      | (simp only [Option.some.injEq, Prod.mk.injEq] at hs
         obtain ⟨rfl, _⟩ := hs
         exact ⟨rfl, rfl⟩)

theorem routeSearch_withLog (s : St) (L : List Frame) (p : Nat) (c : Nat) (f : Frame) :
    routeSearch (withLog s L p) c f = withLog (routeSearch s c f) L p := by
  have key : ∀ (b : Bool) (chans' : List Chan),
      (if b = true then ({ withLog s L p with chans := chans', searchmap := erase s.searchmap f.id, inUse := eraseId s.inUse f.id } : St)
        else { withLog s L p with chans := chans' }) =
      withLog (if b = true then ({ s with chans := chans', searchmap := erase s.searchmap f.id, inUse := eraseId s.inUse f.id } : St)
        else { s with chans := chans' }) L p := by
    intro b chans'
    cases b <;> rfl
  unfold routeSearch
  by_cases h1 : f.op = 4 ∨ f.op = 25 ∨ f.op = 19
  · simp only [h1, if_true]
    exact key _ _
  · simp only [h1, if_false]
    by_cases h2 : f.op = 5
    · simp only [h2, if_true]
      by_cases h3 : f.good = true
      · simp only [h3, if_true]
        exact key _ _
      · simp only [h3]; rfl
    · simp only [h2, if_false]; rfl

theorem routeSearch_log (s : St) (c : Nat) (f : Frame) :
    (routeSearch s c f).srvLog = s.srvLog ∧ (routeSearch s c f).pos = s.pos := by
  have key : ∀ (b : Bool) (chans' : List Chan),
      let r : St := if b = true then { s with chans := chans', searchmap := erase s.searchmap f.id, inUse := eraseId s.inUse f.id }
        else { s with chans := chans' }
      r.srvLog = s.srvLog ∧ r.pos = s.pos := by
    intro b chans'
    cases b <;> exact ⟨rfl, rfl⟩
  unfold routeSearch
  by_cases h1 : f.op = 4 ∨ f.op = 25 ∨ f.op = 19
  · simp only [h1, if_true]
    exact key _ _
  · simp only [h1, if_false]
    by_cases h2 : f.op = 5
    · simp only [h2, if_true]
      by_cases h3 : f.good = true
      · simp only [h3, if_true]
        exact key _ _
      · simp only [h3]; exact ⟨rfl, rfl⟩
    · simp only [h2, if_false]; exact ⟨rfl, rfl⟩

/-- `drvResp` when a frame is waiting -/
theorem drvResp_some (s : St) (f : Frame) (hd : s.drv = .running) (hf : s.srvLog[s.pos]? = some f) :
    step s .drvResp =
      match lookup s.searchmap f.id with
      | some c => some (routeSearch { s with pos := s.pos + 1 } c f, .none)
      | none =>
        match lookup s.resultmap f.id with
        | some i =>
          some ({ s with pos := s.pos + 1, resultmap := erase s.resultmap f.id,
                          ops := modifyOp s.ops i fun o => if o.mail = .empty then { o with mail := .frame f } else o,
                          inUse := eraseId s.inUse f.id }, .none)
        | none => some ({ s with pos := s.pos + 1 }, .none) := by
  simp only [step]
  rw [if_neg (by simp [hd])]
  simp only [hf]
  first | rfl | (split <;> first | rfl | (split <;> rfl))

theorem drvResp_none (s : St) (hd : s.drv = .running) (hf : s.srvLog[s.pos]? = none) :
    step s .drvResp =
      match s.link with
      | .up => none
      | .eof => some (endDriver s .endedOk, .none)
      | .garbage => some (endDriver s .endedErr, .none) := by
  simp only [step]
  rw [if_neg (by simp [hd])]
  simp only [hf]
  first | rfl | (split <;> first | rfl | (split <;> rfl))

theorem step_withLog_drvResp {s t : St} {ob : Obs} (L : List Frame) (p : Nat) (hL : L[p]? = s.srvLog[s.pos]?)
    (hs : step s .drvResp = some (t, ob)) :
    ∃ d, step (withLog s L p) .drvResp = some (withLog t L (p + d), ob) ∧ t.srvLog = s.srvLog ∧ t.pos = s.pos + d ∧
      (d = 0 ∨ (d = 1 ∧ s.pos < s.srvLog.length ∧ p < L.length)) := by
  have hd : s.drv = .running := by
    simp only [step] at hs
    split at hs
    · cases hs
    · next hd => simpa using hd
  cases hf : s.srvLog[s.pos]? with
  | some f =>
    have hlt : s.pos < s.srvLog.length := (List.getElem?_eq_some_iff.mp hf).1
    have hL' : (withLog s L p).srvLog[(withLog s L p).pos]? = some f := by rw [← hf, ← hL]; rfl
    have hlt' : p < L.length := (List.getElem?_eq_some_iff.mp hL').1
    refine ⟨1, ?_⟩
    rw [drvResp_some s f hd hf] at hs
    rw [drvResp_some (withLog s L p) f hd hL']
    show (match lookup s.searchmap f.id with
      | some c => some (routeSearch (withLog { s with pos := s.pos + 1 } L (p + 1)) c f, Obs.none)
      | none =>
        match lookup s.resultmap f.id with
        | some i => _
        | none => _) = _ ∧ _
    split at hs
    · next c hl =>
      simp only [Option.some.injEq, Prod.mk.injEq] at hs
      obtain ⟨rfl, rfl⟩ := hs
      have hlog := routeSearch_log { s with pos := s.pos + 1 } c f
      refine ⟨?_, hlog.1, hlog.2, Or.inr ⟨rfl, hlt, hlt'⟩⟩
      rw [routeSearch_withLog]
    · split at hs
      all_goals
        simp only [Option.some.injEq, Prod.mk.injEq] at hs
        obtain ⟨rfl, rfl⟩ := hs
        exact ⟨rfl, rfl, rfl, Or.inr ⟨rfl, hlt, hlt'⟩⟩
  | none =>
    have hL' : (withLog s L p).srvLog[(withLog s L p).pos]? = none := by rw [← hf, ← hL]; rfl
    refine ⟨0, ?_⟩
    rw [drvResp_none s hd hf] at hs
    rw [drvResp_none (withLog s L p) hd hL']
    show (match s.link with
      | .up => none
      | .eof => some (endDriver (withLog s L p) .endedOk, Obs.none)
      | .garbage => some (endDriver (withLog s L p) .endedErr, Obs.none)) = _ ∧ _
    split at hs
    · cases hs
    all_goals
      simp only [Option.some.injEq, Prod.mk.injEq] at hs
      obtain ⟨rfl, rfl⟩ := hs
      exact ⟨rfl, rfl, rfl, Or.inl rfl⟩

theorem step_withLog_srvSend {s t : St} {ob : Obs} (L : List Frame) (p : Nat) (f : Frame)
    (hs : step s (.srvSend f) = some (t, ob)) :
    step (withLog s L p) (.srvSend f) = some (withLog t (L ++ [f]) p, ob) ∧ t.srvLog = s.srvLog ++ [f] ∧ t.pos = s.pos := by
  simp only [step] at hs
  split at hs
  · next h =>
    simp only [Option.some.injEq, Prod.mk.injEq] at hs
    obtain ⟨rfl, rfl⟩ := hs
    refine ⟨?_, rfl, rfl⟩
    simp only [step, withLog, h, if_true]
  · cases hs

/-! ### the relation -/

/-- `s'` is `s` up to the bookkeeping of the server log: all other components are equal, and the
frames not yet read by the driver are the same -/
def Shadow (s s' : St) : Prop :=
  ∃ (L : List Frame) (p : Nat), s' = withLog s L p ∧ L.drop p = s.srvLog.drop s.pos ∧ p ≤ L.length ∧ s.pos ≤ s.srvLog.length

theorem Shadow.symm {s s' : St} (h : Shadow s s') : Shadow s' s := by
  obtain ⟨L, p, rfl, h1, h2, h3⟩ := h
  exact ⟨s.srvLog, s.pos, rfl, h1.symm, h3, h2⟩

theorem head_of_drop {L M : List Frame} {p q : Nat} (h : L.drop p = M.drop q) : L[p]? = M[q]? := by
  have h1 : (L.drop p)[0]? = L[p + 0]? := List.getElem?_drop
  have h2 : (M.drop q)[0]? = M[q + 0]? := List.getElem?_drop
  rw [h] at h1
  rw [Nat.add_zero] at h1 h2
  rw [← h1, h2]

theorem drop_succ_of_drop {L M : List Frame} {p q : Nat} (h : L.drop p = M.drop q) : L.drop (p + 1) = M.drop (q + 1) := by
  rw [← List.tail_drop, ← List.tail_drop, h]

theorem Shadow.step {s s' t : St} {ob : Obs} (h : Shadow s s') (e : Ev) (hs : Conn.step s e = some (t, ob)) :
    ∃ t', Conn.step s' e = some (t', ob) ∧ Shadow t t' := by
  obtain ⟨L, p, rfl, h1, h2, h3⟩ := h
  by_cases hr : e = .drvResp
  · subst hr
    obtain ⟨d, e1, e2, e3, e4⟩ := step_withLog_drvResp L p (head_of_drop h1) hs
    refine ⟨_, e1, L, p + d, rfl, ?_, ?_, ?_⟩
    · rw [e2, e3]
      rcases e4 with rfl | ⟨rfl, _, _⟩
      · exact h1
      · exact drop_succ_of_drop h1
    · rcases e4 with rfl | ⟨rfl, _, _⟩ <;> omega
    · rw [e2, e3]
      rcases e4 with rfl | ⟨rfl, _, _⟩ <;> omega
  · by_cases hsend : ∃ f, e = .srvSend f
    · obtain ⟨f, rfl⟩ := hsend
      obtain ⟨e1, e2, e3⟩ := step_withLog_srvSend L p f hs
      refine ⟨_, e1, L ++ [f], p, rfl, ?_, ?_, ?_⟩
      · rw [e2, e3, List.drop_append_of_le_length h2, List.drop_append_of_le_length h3, h1]
      · simp only [List.length_append, List.length_singleton]; omega
      · rw [e2, e3]; simp only [List.length_append, List.length_singleton]; omega
    · have hns : ∀ f, e ≠ .srvSend f := fun f he => hsend ⟨f, he⟩
      obtain ⟨e2, e3⟩ := step_log_other e hr hns hs
      exact ⟨_, step_withLog_other L p e hr hns hs, L, p, rfl, by rw [e2, e3]; exact h1, h2, by rw [e2, e3]; exact h3⟩

theorem Shadow.step_none {s s' : St} (h : Shadow s s') (e : Ev) (hs : Conn.step s e = none) : Conn.step s' e = none := by
  cases hs' : Conn.step s' e with
  | none => rfl
  | some x =>
    obtain ⟨t', ob⟩ := x
    obtain ⟨t, ht, _⟩ := h.symm.step e hs'
    rw [hs] at ht; cases ht

/-- what the outside sees of one event: `none` = not enabled -/
def obsAt (s : St) (e : Ev) : Option Obs := (Conn.step s e).map (·.2)

/-- the observations along a history -/
def observe : St → List Ev → List (Option Obs)
  | _, [] => []
  | s, e :: es => obsAt s e :: observe (next s e) es

theorem Shadow.next {s s' : St} (h : Shadow s s') (e : Ev) : Shadow (next s e) (next s' e) ∧ obsAt s e = obsAt s' e := by
  cases hs : Conn.step s e with
  | none =>
    have hs' := h.step_none e hs
    refine ⟨?_, by simp only [obsAt, hs, hs']⟩
    simp only [Conn.next, hs, hs']
    exact h
  | some x =>
    obtain ⟨t, ob⟩ := x
    obtain ⟨t', hs', ht⟩ := h.step e hs
    refine ⟨?_, by simp only [obsAt, hs, hs', Option.map_some]⟩
    simp only [Conn.next, hs, hs']
    exact ht

theorem Shadow.run {s s' : St} (h : Shadow s s') (evs : List Ev) :
    Shadow (Conn.run s evs) (Conn.run s' evs) ∧ observe s evs = observe s' evs := by
  induction evs generalizing s s' with
  | nil => exact ⟨h, rfl⟩
  | cons e es ih =>
    obtain ⟨h1, h2⟩ := h.next e
    obtain ⟨r1, r2⟩ := ih h1
    rw [run_cons, run_cons]
    exact ⟨r1, by simp only [observe, h2, r2]⟩

/-- everything except the log bookkeeping -/
structure SameBut (s s' : St) : Prop where
  N : s'.N = s.N
  last : s'.last = s.last
  inUse : s'.inUse = s.inUse
  ops : s'.ops = s.ops
  chans : s'.chans = s.chans
  opQ : s'.opQ = s.opQ
  scrubQ : s'.scrubQ = s.scrubQ
  link : s'.link = s.link
  resultmap : s'.resultmap = s.resultmap
  searchmap : s'.searchmap = s.searchmap
  drv : s'.drv = s.drv
  handles : s'.handles = s.handles
  sinkClosed : s'.sinkClosed = s.sinkClosed
  now : s'.now = s.now
  wire : s'.wire = s.wire
  /-- the frames the driver has not read yet are the same -/
  unread : s'.srvLog.drop s'.pos = s.srvLog.drop s.pos

theorem Shadow.sameBut {s s' : St} (h : Shadow s s') : SameBut s s' := by
  obtain ⟨L, p, rfl, h1, _, _⟩ := h
  exact ⟨rfl, rfl, rfl, rfl, rfl, rfl, rfl, rfl, rfl, rfl, rfl, rfl, rfl, rfl, rfl, h1⟩

theorem run_concat (a b : List Ev) (s : St) : Conn.run s (a ++ b) = Conn.run (Conn.run s a) b := by
  simp only [Conn.run, List.foldl_append]

/-- consuming an unmatched frame only moves the log bookkeeping -/
theorem shadow_unmatched (s : St) (f : Frame) (hd : s.drv = .running) (hl : s.link = .up) (hp : s.pos = s.srvLog.length)
    (h1 : lookup s.searchmap f.id = none) (h2 : lookup s.resultmap f.id = none) :
    Shadow s (Conn.run s [.srvSend f, .drvResp]) ∧
    Conn.step s (.srvSend f) = some ({ s with srvLog := s.srvLog ++ [f] }, .none) ∧
    Conn.step { s with srvLog := s.srvLog ++ [f] } .drvResp = some ({ s with srvLog := s.srvLog ++ [f], pos := s.pos + 1 }, .none) := by
  have e1 : Conn.step s (.srvSend f) = some ({ s with srvLog := s.srvLog ++ [f] }, .none) := by
    simp only [Conn.step, hl, if_true]
  have hf : ({ s with srvLog := s.srvLog ++ [f] } : St).srvLog[({ s with srvLog := s.srvLog ++ [f] } : St).pos]? = some f := by
    show (s.srvLog ++ [f])[s.pos]? = some f
    rw [hp]; simp
  have e2 : Conn.step { s with srvLog := s.srvLog ++ [f] } .drvResp =
      some ({ s with srvLog := s.srvLog ++ [f], pos := s.pos + 1 }, .none) := by
    rw [drvResp_some { s with srvLog := s.srvLog ++ [f] } f hd hf]
    show (match lookup s.searchmap f.id with
      | some c => _
      | none =>
        match lookup s.resultmap f.id with
        | some i => _
        | none => _) = _
    rw [h1, h2]
  refine ⟨?_, e1, e2⟩
  have hrun : Conn.run s [.srvSend f, .drvResp] = withLog s (s.srvLog ++ [f]) (s.pos + 1) := by
    simp only [Conn.run, List.foldl_cons, List.foldl_nil, e1, e2]
    rfl
  rw [hrun]
  refine ⟨_, _, rfl, ?_, ?_, ?_⟩
  · rw [hp]; simp
  · simp only [List.length_append, List.length_singleton]; omega
  · omega

/-- **an unmatched frame is invisible**: inserting `srvSend f, drvResp` for a frame `f` whose ID is in
neither routing map (the driver is running, the link is up, and nothing unread is pending, so `f` is
the frame that `drvResp` reads) changes nothing that anybody can see, now or later -/
theorem unmatched_invisible (s : St) (b : List Ev) (f : Frame) (hd : s.drv = .running) (hl : s.link = .up)
    (hp : s.pos = s.srvLog.length) (h1 : lookup s.searchmap f.id = none) (h2 : lookup s.resultmap f.id = none) :
    SameBut (Conn.run s b) (Conn.run s ([.srvSend f, .drvResp] ++ b)) ∧
    observe s b = observe (Conn.run s [.srvSend f, .drvResp]) b := by
  rw [run_concat]
  obtain ⟨r1, r2⟩ := (shadow_unmatched s f hd hl hp h1 h2).1.run b
  exact ⟨r1.sameBut, r2⟩

end Ldap3V.Conn

/-
Chain `[PagedResults, EntriesOnly]`: `PagedResults::next` looping over the EntriesOnly level.
-/
import Ldap3V.Lemmas.StreamPagedEoView
namespace Ldap3V.Stream
open Spec

/-- what one `EntriesOnly::next` over a direct stream delivers, given the entries-only view of the
rest `l` of the script with the URIs `g` in hand; `base ++ g` = the adapter's `refs` -/
structure EoOut (s : Stream) (l : List Recv) (g base : List Bytes) (refs' : List Bytes) (s' : Stream) (r : NextOut) :
    Prop where
  item : ∀ st tl, (eoRaw g l).steps = st :: tl → r = .ok (some st.item) ∧ refs' = base ++ st.gain ∧
    ∃ l', s' = { s with rx := some l' } ∧ (eoRaw [] l').steps = tl ∧ (eoRaw [] l').ending = (eoRaw g l).ending ∧
      l'.length + 1 ≤ l.length ∧ nextCookie l' = nextCookie l
  done : (eoRaw g l).steps = [] → ∀ g' r0, (eoRaw g l).ending = .done g' r0 →
    r = .ok none ∧ refs' = base ++ g' ∧ s' = { s with res := some r0, rx := none } ∧ nextCookie l = resCookie r0
  fail : (eoRaw g l).steps = [] → ∀ g' e, (eoRaw g l).ending = .fail g' e →
    r = .err e ∧ refs' = base ++ g' ∧ s'.state = .error ∧ s'.reqs = s.reqs ∧ nextCookie l = none
  pending : (eoRaw g l).steps = [] → (eoRaw g l).ending = .pending → r = .pending
  panic : (eoRaw g l).steps = [] → (eoRaw g l).ending = .panic → r = .panic

theorem EoOut.of_view {s s0 : Stream} {l l0 : List Recv} {g g0 base refs' s' r}
    (h : EoOut s l g base refs' s' r) (hv : eoRaw g0 l0 = eoRaw g l) (hlen : l.length ≤ l0.length)
    (hnc : nextCookie l = nextCookie l0) (hs : ∀ x : Option (List Recv), ({ s with rx := x } : Stream) = { s0 with rx := x })
    (hs2 : ∀ (x : Option (List Recv)) (y : Option Res), ({ s with res := y, rx := x } : Stream) = { s0 with res := y, rx := x })
    (hreq : s.reqs = s0.reqs) :
    EoOut s0 l0 g0 base refs' s' r := by
  refine ⟨fun st tl h' => ?_, fun h' g' r0 he => ?_, fun h' g' e he => ?_, fun h' he => ?_, fun h' he => ?_⟩
  · rw [hv] at h' ⊢
    obtain ⟨h1, h2, l', h3, h4, h5, h6, h7⟩ := h.item st tl h'
    exact ⟨h1, h2, l', by rw [h3, hs], h4, h5, by omega, by rw [h7, hnc]⟩
  · rw [hv] at h' he
    obtain ⟨h1, h2, h3, h4⟩ := h.done h' g' r0 he
    exact ⟨h1, h2, by rw [h3, hs2], by rw [← hnc, h4]⟩
  · rw [hv] at h' he
    obtain ⟨h1, h2, h3, h4, h5⟩ := h.fail h' g' e he
    exact ⟨h1, h2, h3, by rw [h4, hreq], by rw [← hnc, h5]⟩
  · rw [hv] at h' he; exact h.pending h' he
  · rw [hv] at h' he; exact h.panic h' he

/-- `EntriesOnly::next` over a direct stream, as a function of the script -/
theorem eo_level : ∀ (l : List Recv) (g base : List Bytes) (f : Nat) (s : Stream),
    s.state = .active → s.rx = some l → l.length + 2 ≤ f →
    (eoLoop f (base ++ g) [] s).2.1 = [] ∧
    EoOut s l g base (eoLoop f (base ++ g) [] s).1 (eoLoop f (base ++ g) [] s).2.2.1
      (eoLoop f (base ++ g) [] s).2.2.2 := by
  intro l
  induction l with
  | nil =>
    intro g base f s hs hrx hf
    obtain ⟨f1, rfl⟩ : ∃ f1, f = f1 + 1 + 1 := ⟨f - 2, by simp at hf; omega⟩
    have hn : next (f1 + 1) false [] s = ([], s, .pending) := by
      rw [next_nil _ _ _ hs, nextInner_nil _ hrx]; rfl
    rw [eoLoop_other hn (by simp)]
    refine ⟨rfl, ⟨fun st tl h' => ?_, fun _ g' r0 he => ?_, fun _ g' e he => ?_, fun _ _ => rfl, fun _ he => ?_⟩⟩ <;>
      simp [eoRaw_nil] at *
  | cons x l' ih =>
    intro g base f s hs hrx hf
    obtain ⟨f1, rfl⟩ : ∃ f1, f = f1 + 1 + 1 := ⟨f - 2, by simp at hf; omega⟩
    cases x with
    | item i =>
      have hn : next (f1 + 1) false [] s = ([], { s with rx := some l' }, .ok (some i)) := by
        rw [next_nil _ _ _ hs, nextInner_item _ _ _ hrx]; rfl
      rcases kind_cases i.kind with hk | hk | hk
      · rw [eoLoop_entry hn hk]
        refine ⟨rfl, ⟨fun st tl h' => ?_, fun h' => ?_, fun h' => ?_, fun h' => ?_, fun h' => ?_⟩⟩
        · rw [eoRaw_entry _ _ _ hk] at h' ⊢
          simp only [List.cons.injEq] at h'
          obtain ⟨rfl, rfl⟩ := h'
          exact ⟨rfl, rfl, l', rfl, rfl, rfl, by simp, (nextCookie_item i l').symm⟩
        all_goals (rw [eoRaw_entry _ _ _ hk] at h'; simp at h')
      · rw [eoLoop_inter hn hk]
        obtain ⟨k1, k2⟩ := ih g base (f1 + 1) { s with rx := some l' } hs rfl (by simp at hf ⊢; omega)
        exact ⟨k1, k2.of_view (eoRaw_inter _ _ _ hk) (by simp) (nextCookie_item i l').symm (fun _ => rfl) (fun _ _ => rfl) rfl⟩
      · cases hu : i.uris with
        | some us =>
          rw [eoLoop_ref hn hk hu, List.append_assoc]
          obtain ⟨k1, k2⟩ := ih (g ++ us) base (f1 + 1) { s with rx := some l' } hs rfl (by simp at hf ⊢; omega)
          exact ⟨k1, k2.of_view (eoRaw_ref _ _ _ _ hk hu) (by simp) (nextCookie_item i l').symm (fun _ => rfl) (fun _ _ => rfl) rfl⟩
        | none =>
          rw [eoLoop_badref hn hk hu]
          refine ⟨rfl, ⟨fun st tl h' => ?_, fun _ g' r0 he => ?_, fun _ g' e he => ?_, fun _ he => ?_, fun _ _ => rfl⟩⟩ <;>
            simp [eoRaw_badref _ _ _ hk hu] at *
    | done r =>
      have hn : next (f1 + 1) false [] s = ([], { s with res := some r, rx := none }, .ok none) := by
        rw [next_nil _ _ _ hs, nextInner_done _ _ _ hrx]; rfl
      rw [eoLoop_other hn (by simp)]
      refine ⟨rfl, ⟨fun st tl h' => ?_, fun _ g' r0 he => ?_, fun _ g' e he => ?_, fun _ he => ?_, fun _ he => ?_⟩⟩
      · simp [eoRaw_done] at h'
      · rw [eoRaw_done] at he; simp only [End.done.injEq] at he; obtain ⟨rfl, rfl⟩ := he
        exact ⟨rfl, rfl, rfl, nextCookie_done r l'⟩
      all_goals simp [eoRaw_done] at he
    | closed =>
      have hn : next (f1 + 1) false [] s = ([], { s with rx := none, state := .error }, .err .endOfStream) := by
        rw [next_nil _ _ _ hs, nextInner_closed _ _ hrx]; rfl
      rw [eoLoop_other hn (by simp)]
      refine ⟨rfl, ⟨fun st tl h' => ?_, fun _ g' r0 he => ?_, fun _ g' e he => ?_, fun _ he => ?_, fun _ he => ?_⟩⟩
      · simp [eoRaw_closed] at h'
      · simp [eoRaw_closed] at he
      · rw [eoRaw_closed] at he; simp only [End.fail.injEq] at he; obtain ⟨rfl, rfl⟩ := he
        exact ⟨rfl, rfl, rfl, rfl, by simp [nextCookie, rawView]⟩
      all_goals simp [eoRaw_closed] at he
    | timeout =>
      have hn : next (f1 + 1) false [] s =
          ([], { s with rx := some l', scrubs := s.scrubs ++ [s.reqs.length], state := .error }, .err .timeout) := by
        rw [next_nil _ _ _ hs, nextInner_timeout _ _ hrx]; rfl
      rw [eoLoop_other hn (by simp)]
      refine ⟨rfl, ⟨fun st tl h' => ?_, fun _ g' r0 he => ?_, fun _ g' e he => ?_, fun _ he => ?_, fun _ he => ?_⟩⟩
      · simp [eoRaw_timeout] at h'
      · simp [eoRaw_timeout] at he
      · rw [eoRaw_timeout] at he; simp only [End.fail.injEq] at he; obtain ⟨rfl, rfl⟩ := he
        exact ⟨rfl, rfl, rfl, rfl, by simp [nextCookie, rawView]⟩
      all_goals simp [eoRaw_timeout] at he

/-- what one `PagedResults::next` over the EntriesOnly level delivers, given the view from inside page `l` -/
structure PeOut (mk : Bytes → Bool → Req) (total : List Req) (l : List Recv) (ps : List Page) (g base : List Bytes)
    (refs' : List Bytes) (s' : Stream) (r : NextOut) : Prop where
  item : ∀ st tl, (pePaged g l ps).steps = st :: tl → r = .ok (some st.item) ∧ refs' = base ++ st.gain ∧
    s'.state = .active ∧ ∃ l' ps', s'.rx = some l' ∧ s'.pages = ps' ∧ (pePaged [] l' ps').steps = tl ∧
      (pePaged [] l' ps').ending = (pePaged g l ps).ending ∧ s'.reqs ++ futureReqs mk l' ps' = total
  done : (pePaged g l ps).steps = [] → ∀ g' r0, (pePaged g l ps).ending = .done g' r0 →
    r = .ok none ∧ refs' = base ++ g' ∧ s'.res = some r0 ∧ s'.reqs = total ∧ s'.state = .active
  fail : (pePaged g l ps).steps = [] → ∀ g' e, (pePaged g l ps).ending = .fail g' e →
    r = .err e ∧ refs' = base ++ g' ∧ s'.reqs = total
  pending : (pePaged g l ps).steps = [] → (pePaged g l ps).ending = .pending → r = .pending
  panic : (pePaged g l ps).steps = [] → (pePaged g l ps).ending = .panic → r = .panic

theorem PeOut.of_item {mk total l ps g base refs' s' r} (st : Step) (tl : List Step) (e : End)
    (hv : pePaged g l ps = ⟨st :: tl, e⟩) (hr : r = .ok (some st.item)) (hrefs : refs' = base ++ st.gain)
    (hs : s'.state = .active)
    (h : ∃ l' ps', s'.rx = some l' ∧ s'.pages = ps' ∧ (pePaged [] l' ps').steps = tl ∧
      (pePaged [] l' ps').ending = e ∧ s'.reqs ++ futureReqs mk l' ps' = total) :
    PeOut mk total l ps g base refs' s' r := by
  refine ⟨fun st' tl' h' => ?_, fun h' => ?_, fun h' => ?_, fun h' => ?_, fun h' => ?_⟩
  · rw [hv] at h' ⊢; simp only [List.cons.injEq] at h'; obtain ⟨rfl, rfl⟩ := h'; exact ⟨hr, hrefs, hs, h⟩
  all_goals (rw [hv] at h'; simp at h')

theorem PeOut.of_done {mk total l ps g base refs' s' r} (g' : List Bytes) (r0 : Res)
    (hv : pePaged g l ps = ⟨[], .done g' r0⟩) (hr : r = .ok none) (hrefs : refs' = base ++ g')
    (hres : s'.res = some r0) (hq : s'.reqs = total) (hs : s'.state = .active) :
    PeOut mk total l ps g base refs' s' r := by
  refine ⟨fun st' tl' h' => ?_, fun _ g'' r' h' => ?_, fun _ g'' e' h' => ?_, fun _ h' => ?_, fun _ h' => ?_⟩
  · rw [hv] at h'; simp at h'
  · rw [hv] at h'; simp only [End.done.injEq] at h'; obtain ⟨rfl, rfl⟩ := h'; exact ⟨hr, hrefs, hres, hq, hs⟩
  all_goals (rw [hv] at h'; simp at h')

theorem PeOut.of_fail {mk total l ps g base refs' s' r} (g' : List Bytes) (e : Err)
    (hv : pePaged g l ps = ⟨[], .fail g' e⟩) (hr : r = .err e) (hrefs : refs' = base ++ g') (hq : s'.reqs = total) :
    PeOut mk total l ps g base refs' s' r := by
  refine ⟨fun st' tl' h' => ?_, fun _ g'' r' h' => ?_, fun _ g'' e' h' => ?_, fun _ h' => ?_, fun _ h' => ?_⟩
  · rw [hv] at h'; simp at h'
  · rw [hv] at h'; simp at h'
  · rw [hv] at h'; simp only [End.fail.injEq] at h'; obtain ⟨rfl, rfl⟩ := h'; exact ⟨hr, hrefs, hq⟩
  all_goals (rw [hv] at h'; simp at h')

theorem PeOut.of_pending {mk total l ps g base refs' s' r}
    (hv : pePaged g l ps = ⟨[], .pending⟩) (hr : r = .pending) : PeOut mk total l ps g base refs' s' r := by
  refine ⟨fun st' tl' h' => ?_, fun _ g' r' h' => ?_, fun _ g' e' h' => ?_, fun _ _ => hr, fun _ h' => ?_⟩
  all_goals (rw [hv] at h'; simp at h')

theorem PeOut.of_panic {mk total l ps g base refs' s' r}
    (hv : pePaged g l ps = ⟨[], .panic⟩) (hr : r = .panic) : PeOut mk total l ps g base refs' s' r := by
  refine ⟨fun st' tl' h' => ?_, fun _ g' r' h' => ?_, fun _ g' e' h' => ?_, fun _ h' => ?_, fun _ _ => hr⟩
  all_goals (rw [hv] at h'; simp at h')

/-- the same outcome for a state with the same view -/
theorem PeOut.of_view {mk total l l0 ps ps0 g g0 base refs' s' r} (h : PeOut mk total l ps g base refs' s' r)
    (hv : pePaged g0 l0 ps0 = pePaged g l ps) : PeOut mk total l0 ps0 g0 base refs' s' r := by
  refine ⟨fun st tl h' => ?_, fun h' => ?_, fun h' => ?_, fun h' => ?_, fun h' => ?_⟩
  · rw [hv] at h' ⊢; exact h.item st tl h'
  · rw [hv] at h' ⊢; exact h.done h'
  · rw [hv] at h' ⊢; exact h.fail h'
  · rw [hv] at h' ⊢; exact h.pending h'
  · rw [hv] at h' ⊢; exact h.panic h'

theorem view_ext (v : View) (steps : List Step) (e : End) (h1 : v.steps = steps) (h2 : v.ending = e) : v = ⟨steps, e⟩ := by
  cases v; simp_all

theorem futureReqs_of_nextCookie (mk : Bytes → Bool → Req) (l l' : List Recv) (ps : List Page)
    (h : nextCookie l' = nextCookie l) : futureReqs mk l' ps = futureReqs mk l ps := by
  simp [futureReqs, h]

section
variable (size : Int) (sv : Saved) (cs : List RCtl) (hsv : sv.h.ctrls = some cs) (hq : sv.q.filterOk = true)

include hsv hq in
/-- `PagedResults::next` over the EntriesOnly level -/
theorem pe_loop (total : List Req) : ∀ (ps : List Page) (l : List Recv) (g base : List Bytes) (s : Stream) (f : Nat),
    s.state = .active → s.rx = some l → s.pages = ps → remaining s + 5 ≤ f →
    s.reqs ++ futureReqs (mkReq size sv cs) l ps = total →
    ∃ refs', (prLoop f size (some sv) [.entriesOnly (base ++ g)] s).1 = [.entriesOnly refs'] ∧
      PeOut (mkReq size sv cs) total l ps g base refs' (prLoop f size (some sv) [.entriesOnly (base ++ g)] s).2.1
        (prLoop f size (some sv) [.entriesOnly (base ++ g)] s).2.2 := by
  intro ps
  induction ps with
  | nil =>
    intro l g base s f hs hrx hps hf hreq
    have hlen : l.length ≤ remaining s := remaining_ge s l hrx
    obtain ⟨f1, rfl⟩ : ∃ f1, f = f1 + 1 + 1 := ⟨f - 2, by omega⟩
    obtain ⟨k1, k2⟩ := eo_level l g base f1 s hs hrx (by omega)
    have hne := next_eo f1 false (base ++ g) [] s hs
    rw [k1] at hne
    rcases hv : eoRaw g l with ⟨vs, ve⟩
    cases vs with
    | cons st tl =>
      obtain ⟨h1, h2, l', h3, h4, h5, _, h7⟩ := k2.item st tl (by rw [hv])
      rw [h1, h2, h3] at hne
      rw [prLoop_pass hne (by simp)]
      refine ⟨_, rfl, .of_item st _ _ ?_ rfl rfl hs ⟨l', [], rfl, hps, rfl, rfl, ?_⟩⟩
      · simp only [pePaged, hv, pagedCont_cons]
        rw [view_ext (eoRaw [] l') tl ve h4 (by rw [h5, hv])]
      · rw [futureReqs_of_nextCookie _ _ _ _ h7]; exact hreq
    | nil =>
      cases ve with
      | done g' r0 =>
        obtain ⟨h1, h2, h3, h4⟩ := k2.done (by rw [hv]) g' r0 (by rw [hv])
        rw [h1, h2, h3] at hne
        simp only [post, Bool.false_eq_true, if_false] at hne
        cases hc : firstPaged r0.ctrls with
        | none =>
          rw [prLoop_nocontrol hne rfl hc]
          have hpc := firstPaged_none _ hc
          refine ⟨_, rfl, .of_done g' r0 ?_ rfl rfl rfl ?_ hs⟩
          · simp [pePaged, hv, pagedCont, hpc]
          · rw [futureReqs_stop _ _ _ (by rw [h4]; simp [resCookie, hpc])] at hreq; simpa using hreq
        | some p0 =>
          obtain ⟨idx, c⟩ := p0
          obtain ⟨hpc, hdrop⟩ := firstPaged_some _ _ _ hc
          cases hcv : c.cookie with
          | none =>
            rw [prLoop_novalue hne rfl hc hcv]
            rw [hcv] at hpc
            exact ⟨_, rfl, .of_panic (by simp [pePaged, hv, pagedCont, hpc]) rfl⟩
          | some ck =>
            rw [hcv] at hpc
            by_cases hck : ck = []
            · subst hck
              rw [prLoop_last hne rfl hc hcv]
              refine ⟨_, rfl, .of_done g' { r0 with ctrls := dropPaging r0.ctrls } ?_ rfl rfl (by simp [hdrop]) ?_ hs⟩
              · simp [pePaged, hv, pagedCont, hpc]
              · rw [futureReqs_stop _ _ _ (by rw [h4]; simp [resCookie, hpc])] at hreq; simpa using hreq
            · obtain ⟨s2, hp, hs2, hrx2, _, _, _, _⟩ :=
                pageStart_nil sv (cs ++ [.paged size ck]) { s with res := some r0, rx := none } hq hps
              rw [prLoop_more hne rfl hc hcv hck hsv hp]
              have hl1 : 1 ≤ l.length := by
                cases l with
                | nil => simp [eoRaw_nil] at hv
                | cons _ _ => simp
              obtain ⟨f2, rfl⟩ : ∃ f2, f1 = f2 + 1 + 1 := ⟨f1 - 2, by omega⟩
              obtain ⟨j1, j2⟩ := eo_level [] [] (base ++ g') (f2 + 1) s2 (hs2.trans hs) hrx2 (by simp; omega)
              have hne2 := next_eo (f2 + 1) false (base ++ g' ++ []) [] s2 (hs2.trans hs)
              rw [j1, j2.pending (by simp [eoRaw_nil]) (by simp [eoRaw_nil])] at hne2
              rw [List.append_nil] at hne2
              rw [prLoop_pass hne2 (by simp)]
              refine ⟨_, rfl, .of_pending ?_ rfl⟩
              simp [pePaged, hv, pagedCont, hpc, hck, pagedView, after_nil_eq, End.addGain]
      | fail g' e =>
        obtain ⟨h1, h2, h3, h4, h5⟩ := k2.fail (by rw [hv]) g' e (by rw [hv])
        rw [h1, h2] at hne
        rw [prLoop_pass hne (by simp)]
        refine ⟨_, rfl, .of_fail g' e (by simp [pePaged, hv, pagedCont]) rfl rfl ?_⟩
        rw [futureReqs_stop _ _ _ h5] at hreq
        simp only [post]; rw [h4]; simpa using hreq
      | pending =>
        have h1 := k2.pending (by rw [hv]) (by rw [hv])
        rw [h1] at hne
        rw [prLoop_pass hne (by simp)]
        exact ⟨_, rfl, .of_pending (by simp [pePaged, hv, pagedCont]) rfl⟩
      | panic =>
        have h1 := k2.panic (by rw [hv]) (by rw [hv])
        rw [h1] at hne
        rw [prLoop_pass hne (by simp)]
        exact ⟨_, rfl, .of_panic (by simp [pePaged, hv, pagedCont]) rfl⟩
  | cons p ps' ih =>
    intro l g base s f hs hrx hps hf hreq
    have hlen : l.length ≤ remaining s := remaining_ge s l hrx
    obtain ⟨f1, rfl⟩ : ∃ f1, f = f1 + 1 + 1 := ⟨f - 2, by omega⟩
    obtain ⟨k1, k2⟩ := eo_level l g base f1 s hs hrx (by omega)
    have hne := next_eo f1 false (base ++ g) [] s hs
    rw [k1] at hne
    rcases hv : eoRaw g l with ⟨vs, ve⟩
    cases vs with
    | cons st tl =>
      obtain ⟨h1, h2, l', h3, h4, h5, _, h7⟩ := k2.item st tl (by rw [hv])
      rw [h1, h2, h3] at hne
      rw [prLoop_pass hne (by simp)]
      refine ⟨_, rfl, .of_item st _ _ ?_ rfl rfl hs ⟨l', _, rfl, hps, rfl, rfl, ?_⟩⟩
      · simp only [pePaged, hv, pagedCont_cons]
        rw [view_ext (eoRaw [] l') tl ve h4 (by rw [h5, hv])]
      · rw [futureReqs_of_nextCookie _ _ _ _ h7]; exact hreq
    | nil =>
      cases ve with
      | done g' r0 =>
        obtain ⟨h1, h2, h3, h4⟩ := k2.done (by rw [hv]) g' r0 (by rw [hv])
        rw [h1, h2, h3] at hne
        simp only [post, Bool.false_eq_true, if_false] at hne
        cases hc : firstPaged r0.ctrls with
        | none =>
          rw [prLoop_nocontrol hne rfl hc]
          have hpc := firstPaged_none _ hc
          refine ⟨_, rfl, .of_done g' r0 ?_ rfl rfl rfl ?_ hs⟩
          · simp [pePaged, hv, pagedCont, hpc]
          · rw [futureReqs_stop _ _ _ (by rw [h4]; simp [resCookie, hpc])] at hreq; simpa using hreq
        | some p0 =>
          obtain ⟨idx, c⟩ := p0
          obtain ⟨hpc, hdrop⟩ := firstPaged_some _ _ _ hc
          cases hcv : c.cookie with
          | none =>
            rw [prLoop_novalue hne rfl hc hcv]
            rw [hcv] at hpc
            exact ⟨_, rfl, .of_panic (by simp [pePaged, hv, pagedCont, hpc]) rfl⟩
          | some ck =>
            rw [hcv] at hpc
            by_cases hck : ck = []
            · subst hck
              rw [prLoop_last hne rfl hc hcv]
              refine ⟨_, rfl, .of_done g' { r0 with ctrls := dropPaging r0.ctrls } ?_ rfl rfl (by simp [hdrop]) ?_ hs⟩
              · simp [pePaged, hv, pagedCont, hpc]
              · rw [futureReqs_stop _ _ _ (by rw [h4]; simp [resCookie, hpc])] at hreq; simpa using hreq
            · have hfr : futureReqs (mkReq size sv cs) l (p :: ps') = pagedRequests (mkReq size sv cs) ck (p :: ps') := by
                simp [futureReqs, h4, resCookie, hpc, hck]
              rw [hfr] at hreq
              cases p with
              | script l2 =>
                obtain ⟨s2, hp, hs2, hrx2, hps2, hrq2, _, _⟩ :=
                  pageStart_script sv (cs ++ [.paged size ck]) { s with res := some r0, rx := none } l2 ps' hq hps
                rw [prLoop_more hne rfl hc hcv hck hsv hp]
                rw [pagedRequests_script] at hreq
                have hrem : remaining s2 + 1 ≤ remaining s := by
                  rw [remaining_rx s _ hrx, hps, remaining_rx s2 l2 hrx2, hps2]; simp [scriptLen]; omega
                obtain ⟨refs', i1, i2⟩ := ih l2 g' base s2 (f1 + 1) (hs2.trans hs) hrx2 hps2 (by omega)
                  (by rw [hrq2]; simpa [mkReq, List.append_assoc] using hreq)
                refine ⟨refs', i1, i2.of_view ?_⟩
                have : pePaged g l (Page.script l2 :: ps') = View.after [] g' (pePaged [] l2 ps') := by
                  simp [pePaged, hv, pagedCont, hpc, hck, pagedView_eo_script]
                rw [this, pePaged_carry, List.append_nil]
              | fail e =>
                obtain ⟨s2, hp, _, _, _, hrq2, _, _⟩ :=
                  pageStart_fail sv (cs ++ [.paged size ck]) { s with res := some r0, rx := none } e ps' hq hps
                rw [prLoop_starterr hne rfl hc hcv hck hsv hp]
                refine ⟨_, rfl, .of_fail g' e ?_ rfl rfl ?_⟩
                · simp [pePaged, hv, pagedCont, hpc, hck, pagedView, after_nil_eq, End.addGain]
                · simp only [pagedRequests] at hreq; rw [hrq2]; simpa [mkReq] using hreq
      | fail g' e =>
        obtain ⟨h1, h2, h3, h4, h5⟩ := k2.fail (by rw [hv]) g' e (by rw [hv])
        rw [h1, h2] at hne
        rw [prLoop_pass hne (by simp)]
        refine ⟨_, rfl, .of_fail g' e (by simp [pePaged, hv, pagedCont]) rfl rfl ?_⟩
        rw [futureReqs_stop _ _ _ h5] at hreq
        simp only [post]; rw [h4]; simpa using hreq
      | pending =>
        have h1 := k2.pending (by rw [hv]) (by rw [hv])
        rw [h1] at hne
        rw [prLoop_pass hne (by simp)]
        exact ⟨_, rfl, .of_pending (by simp [pePaged, hv, pagedCont]) rfl⟩
      | panic =>
        have h1 := k2.panic (by rw [hv]) (by rw [hv])
        rw [h1] at hne
        rw [prLoop_pass hne (by simp)]
        exact ⟨_, rfl, .of_panic (by simp [pePaged, hv, pagedCont]) rfl⟩

/-- abstraction relation for `[PagedResults, EntriesOnly]` -/
structure RelPE (total : List Req) (m : M) (c : Cursor) : Prop where
  chain : m.chain = [.paged size (some sv), .entriesOnly c.acc]
  state : m.s.state = c.state
  notFresh : c.state ≠ .fresh
  fin : c.state = .done → m.s.res = c.final
  live : c.state = .active → ∃ l, m.s.rx = some l ∧ (pePaged [] l m.s.pages).steps = c.rest ∧
    (pePaged [] l m.s.pages).ending = c.ending ∧ m.s.reqs ++ futureReqs (mkReq size sv cs) l m.s.pages = total
  reqsDone : c.state = .done → m.s.reqs = total

include hsv hq in
theorem RelPE.step (total : List Req) (r : StartOut) (m : M) (c : Cursor) (k : Call) (hk : k ≠ .finish)
    (h : RelPE size sv cs total m c) :
    (step m k).2 = (c.step r k).2 ∧
      ((step m k).2.stuck = false → RelPE size sv cs total (step m k).1 (c.step r k).1) := by
  obtain ⟨ch, s⟩ := m
  have hch : ch = [.paged size (some sv), .entriesOnly c.acc] := h.chain
  subst hch
  have hst : s.state = c.state := h.state
  cases k with
  | finish => exact absurd rfl hk
  | start q =>
    simp only [Ldap3V.Stream.step, Cursor.step, Cursor.start]
    rw [start_notfresh _ _ _ (by rw [hst]; exact h.notFresh)]
    simp [h.notFresh, h]
  | state =>
    simp only [Ldap3V.Stream.step, Cursor.step]
    exact ⟨by rw [hst], fun _ => h⟩
  | next =>
    simp only [Ldap3V.Stream.step, Cursor.step, fuelOf_succ]
    by_cases hc : c.state = .active
    · have hs : s.state = .active := by rw [hst]; exact hc
      obtain ⟨l, hrx, hsteps, hend, hreq⟩ := h.live hc
      have hrx' : s.rx = some l := hrx
      rw [next_pr _ _ _ _ _ _ hs]
      have hf : remaining s + 5 ≤ 2 * remaining s + 2 * [Adapter.paged size (some sv), Adapter.entriesOnly c.acc].length + 3 := by
        simp; omega
      have key := pe_loop size sv cs hsv hq total s.pages l [] c.acc s _ hs hrx' rfl hf hreq
      rw [List.append_nil] at key
      obtain ⟨refs', k1, k2⟩ := key
      simp only [Cursor.next, hc, ne_eq, not_true_eq_false, if_false]
      cases hrest : c.rest with
      | cons st tl =>
        obtain ⟨h1, h2, h3, l', ps', h4, h5, h6, h7, h8⟩ := k2.item st tl (by rw [hsteps, hrest])
        simp only
        refine ⟨by rw [h1], fun _ => ⟨by show _ :: _ = _; rw [k1, h2], by rw [h1]; exact h3, by simp, by simp, fun _ => ?_, by simp⟩⟩
        rw [h1]
        refine ⟨l', h4, ?_, ?_, ?_⟩
        · simp only [post]; rw [h5]; exact h6
        · simp only [post]; rw [h5, h7]; exact hend
        · simp only [post]; rw [h5]; exact h8
      | nil =>
        have hnil : (pePaged [] l s.pages).steps = [] := by rw [hsteps, hrest]
        cases hce : c.ending with
        | done g r0 =>
          obtain ⟨h1, h2, h3, h4, _⟩ := k2.done hnil g r0 (by rw [hend, hce])
          simp only
          exact ⟨by rw [h1], fun _ => ⟨by show _ :: _ = _; rw [k1, h2], by rw [h1]; rfl, by simp, fun _ => by rw [h1]; simpa [post] using h3,
            by simp, fun _ => by rw [h1]; simpa [post] using h4⟩⟩
        | fail g e =>
          obtain ⟨h1, h2, h3⟩ := k2.fail hnil g e (by rw [hend, hce])
          simp only
          exact ⟨by rw [h1], fun _ => ⟨by show _ :: _ = _; rw [k1, h2], by rw [h1]; rfl, by simp, by simp, by simp, by simp⟩⟩
        | pending =>
          have h1 := k2.pending hnil (by rw [hend, hce])
          simp only
          exact ⟨by rw [h1], fun hst => by rw [h1] at hst; simp [Output.stuck] at hst⟩
        | panic =>
          have h1 := k2.panic hnil (by rw [hend, hce])
          simp only
          exact ⟨by rw [h1], fun hst => by rw [h1] at hst; simp [Output.stuck] at hst⟩
    · have hs : s.state ≠ .active := by rw [hst]; exact hc
      rw [next_inactive _ _ _ _ hs]
      simp only [Cursor.next, hc, ne_eq, not_false_eq_true, if_true]
      exact ⟨trivial, fun _ => h⟩
end

theorem pe_start (size : Int) (h : Handle) (pages : List Page) (q : Query)
    (hh : (h.ctrls.getD []).any RCtl.isPaged = false) (hq : q.filterOk = true) :
    (step (init [pr size, eo] h pages) (.start q)).2 =
        ((Cursor.ofView (view [.paged, .entriesOnly] pages)).step (startOutcome [.paged, .entriesOnly] h q pages) (.start q)).2 ∧
      RelPE size (savedOf h q) (othersOf h) (pagedRequests (mkReq size (savedOf h q) (othersOf h)) [] pages)
        (step (init [pr size, eo] h pages) (.start q)).1
        ((Cursor.ofView (view [.paged, .entriesOnly] pages)).step (startOutcome [.paged, .entriesOnly] h q pages) (.start q)).1 := by
  cases pages with
  | nil =>
    simp [Ldap3V.Stream.step, init, pr, eo, start, startInner, hq, hh, errState, Cursor.step, Cursor.start, Cursor.ofView,
      startOutcome, view_paged_eo, pagedView]
    refine ⟨rfl, rfl, by simp, by simp, fun _ => ⟨[], rfl, rfl, rfl, ?_⟩, by simp⟩
    simp [futureReqs, nextCookie, rawView, pagedRequests, mkReq, savedOf, othersOf]
  | cons p ps =>
    cases p with
    | script l =>
      simp [Ldap3V.Stream.step, init, pr, eo, start, startInner, hq, hh, errState, Cursor.step, Cursor.start, Cursor.ofView,
        startOutcome, view_paged_eo, pagedView_eo_script]
      refine ⟨rfl, rfl, by simp, by simp, fun _ => ⟨l, rfl, rfl, rfl, ?_⟩, by simp⟩
      simp [pagedRequests_script, mkReq, savedOf, othersOf]
    | fail e =>
      simp [Ldap3V.Stream.step, init, pr, eo, start, startInner, hq, hh, errState, Cursor.step, Cursor.start, Cursor.ofView,
        startOutcome, view_paged_eo, pagedView]
      exact ⟨rfl, rfl, by simp, by simp, by simp, by simp⟩

/-- C16 behind EntriesOnly (`[PagedResults, EntriesOnly]`): every call sequence without `finish()` -/
theorem refines_paged_eo (size : Int) (h : Handle) (pages : List Page) (q : Query) (calls : List Call)
    (hh : (h.ctrls.getD []).any RCtl.isPaged = false) (hq : q.filterOk = true)
    (hnf : ∀ k ∈ calls, k ≠ .finish) :
    run (init [pr size, eo] h pages) (.start q :: calls) =
      Cursor.run (startOutcome [.paged, .entriesOnly] h q pages) (Cursor.ofView (view [.paged, .entriesOnly] pages))
        (.start q :: calls) ∧
    ((∀ o ∈ run (init [pr size, eo] h pages) (.start q :: calls), o.stuck = false) →
      RelPE size (savedOf h q) (othersOf h) (pagedRequests (mkReq size (savedOf h q) (othersOf h)) [] pages)
        (exec (init [pr size, eo] h pages) (.start q :: calls))
        (Cursor.exec (startOutcome [.paged, .entriesOnly] h q pages) (Cursor.ofView (view [.paged, .entriesOnly] pages))
          (.start q :: calls))) := by
  obtain ⟨ho, hR⟩ := pe_start size h pages q hh hq
  have hsim := run_eq_of_sim_on (fun k => k ≠ .finish) (startOutcome [.paged, .entriesOnly] h q pages)
    (RelPE size (savedOf h q) (othersOf h) (pagedRequests (mkReq size (savedOf h q) (othersOf h)) [] pages))
    (fun m c k hk hR => RelPE.step size (savedOf h q) (othersOf h) rfl hq _ _ m c k hk hR) calls _ _ hnf hR
  have hns := Cursor.start_not_stuck (startOutcome [.paged, .entriesOnly] h q pages)
    (Cursor.ofView (view [.paged, .entriesOnly] pages)) q
  have hns' : (step (init [pr size, eo] h pages) (.start q)).2.stuck = false := by rw [ho]; exact hns
  refine ⟨?_, fun hall => ?_⟩
  · rw [run_cons, hns']
    simp only [Cursor.run, hns, Bool.false_eq_true, if_false]
    rw [ho, hsim.1]
  · rw [exec_cons, hns']
    simp only [Cursor.exec, hns, Bool.false_eq_true, if_false]
    exact hsim.2 (fun o ho' => hall o (by rw [run_cons, hns']; exact List.mem_cons_of_mem _ ho'))

end Ldap3V.Stream

/- Tie by regeneration for the nesting guard of `filter::parse` (F28): `Gen.filter_nesting_within_limit` is
what translate/loop_fns.py reads out of the CURRENT src/filter.rs (`nesting_within_limit`: a `for` loop over
the octets with a `usize` counter, an early `return false`, `saturating_sub`); `Filter.nestingWithinLimit`
(Model/Filter.lean) is the hand-written model the C08 theorems are about.  They agree on every input.

The step lemma does not depend on how the generated term arranges its cases (`if` chain vs. or-patterns,
`depth > 128` vs. `128 < depth`, `saturating_sub` first or last): everything is split and the leaves are
closed by rewriting with the case hypotheses and linear arithmetic (`grind`, with a hand-written script as fallback;
tried on the source as it is, with the comparison flipped and the arms reordered, and with `if depth > 0 { depth -= 1 }` for
`saturating_sub`: all three regenerate different terms and the lemma closes).  What it does depend on is the meaning:
counting something else (every `(` regardless of depth, seeded change C08e), another limit, or a `)` that
does not close a level makes it fail — and lane `filter` then supplies the failing string. -/
import Ldap3V.Gen.LoopFns
import Ldap3V.Model.Filter
namespace Ldap3V.Filter
open Ldap3V.Rust

/-- one octet of the model's loop, in the vocabulary of the generated code -/
def guardStep (d : Nat) (c : UInt8) : Loop Nat Bool :=
  if c = 0x28 then (if d + 1 > maxNesting then .ret false else .next (d + 1))
  else if c = 0x29 then .next (d - 1)
  else .next d

theorem gen_step_eq (d : Nat) (c : UInt8) : Gen.filter_nesting_within_limit_step d c = some (guardStep d c) := by
  unfold Gen.filter_nesting_within_limit_step guardStep maxNesting
  first
  | grind
  | (by_cases h28 : c = 0x28
     · subst h28
       by_cases hd : d + 1 > 128 <;> simp [hd]
     · by_cases h29 : c = 0x29
       · subst h29
         simp
       · have e28 : (c == 40) = false := by simpa using h28
         have e29 : (c == 41) = false := by simpa using h29
         simp [h28, h29, e28, e29])

theorem forBytes_guard : ∀ (s : Bytes) (d : Nat),
    forBytes Gen.filter_nesting_within_limit_step d s (fun _ => some true) = some (nestingGo d s)
  | [], d => by simp [forBytes, nestingGo]
  | c :: r, d => by
    have ih1 := forBytes_guard r (d + 1)
    have ih2 := forBytes_guard r (d - 1)
    have ih3 := forBytes_guard r d
    unfold forBytes
    rw [gen_step_eq]
    unfold guardStep nestingGo
    by_cases h28 : c = 0x28
    · simp only [h28, if_true]
      by_cases hd : d + 1 > maxNesting
      · simp [hd]
      · simp only [hd, if_false]; exact ih1
    · simp only [h28, if_false]
      by_cases h29 : c = 0x29
      · simp only [h29, if_true]; exact ih2
      · simp only [h29, if_false]; exact ih3

/-- the guard as written in src/filter.rs today is the model's, on every input; it never panics -/
theorem gen_nesting_within_limit (s : Bytes) :
    Gen.filter_nesting_within_limit s = some (nestingWithinLimit s) :=
  forBytes_guard s 0

end Ldap3V.Filter

/- Lemmas about the timed model of `SearchStream::next_inner` (Model/StreamTimed.lean); used by Props/C12.lean. -/
import Ldap3V.Model.StreamTimed
namespace Ldap3V.StreamTimed

/-- a call that returns an item has consumed exactly the head of the channel (justifies the
recursion of `drain` on the tail) -/
theorem nextAt_item_rest (T : Option Nat) (tie : Bool) (t : Nat) (e : Nat × What) (rest : Chan) (k : Nat)
    (h : (nextAt T tie t (e :: rest)).1 = .item k) : (nextAt T tie t (e :: rest)).2.2 = rest := by
  obtain ⟨a, w⟩ := e
  cases T with
  | none => by_cases h1 : a ≤ t <;> simp [nextAt, h1]
  | some d =>
    by_cases h1 : a ≤ t
    · simp [nextAt, h1]
    · by_cases h2 : a < t + d
      · simp [nextAt, h1, h2]
      · by_cases h3 : a = t + d ∧ tie = true
        · obtain ⟨rfl, rfl⟩ := h3
          simp only [nextAt, if_neg h1, if_neg h2, and_self, if_true]
        · simp [nextAt, h1, h2, h3] at h

/-- the law of one timed call: a timeout is returned at exactly start + T and consumes nothing;
anything else is the head of the channel, returned at the later of its arrival and the start -/
theorem nextAt_timed_law (d : Nat) (tie : Bool) (t : Nat) (q : Chan) :
    ((nextAt (some d) tie t q).1 = .timeout ∧ (nextAt (some d) tie t q).2.1 = t + d ∧ (nextAt (some d) tie t q).2.2 = q) ∨
    (∃ a w rest, q = (a, w) :: rest ∧ nextAt (some d) tie t q = (deliver w, max a t, rest) ∧ a ≤ t + d) := by
  cases q with
  | nil => left; simp [nextAt]
  | cons e rest =>
    obtain ⟨a, w⟩ := e
    by_cases h1 : a ≤ t
    · right; exact ⟨a, w, rest, rfl, by simp [nextAt, h1, Nat.max_eq_right h1], by omega⟩
    · by_cases h2 : a < t + d
      · right; exact ⟨a, w, rest, rfl, by simp [nextAt, h1, h2, Nat.max_eq_left (by omega : t ≤ a)], by omega⟩
      · by_cases h3 : a = t + d ∧ tie = true
        · obtain ⟨rfl, rfl⟩ := h3
          right; exact ⟨_, w, rest, rfl, by simp [nextAt, h1, Nat.max_eq_left (by omega : t ≤ t + d)], by omega⟩
        · left; simp [nextAt, h1, h2, h3]

theorem nextAt_in_time (d : Nat) (tie : Bool) (t a : Nat) (w : What) (rest : Chan) (h : a < t + d) :
    nextAt (some d) tie t ((a, w) :: rest) = (deliver w, max a t, rest) := by
  by_cases h1 : a ≤ t
  · simp [nextAt, h1, Nat.max_eq_right h1]
  · simp [nextAt, h1, h, Nat.max_eq_left (by omega : t ≤ a)]

theorem nextAt_late (d : Nat) (tie : Bool) (t a : Nat) (w : What) (rest : Chan)
    (h : t + d < a ∨ (t + d = a ∧ 0 < d ∧ tie = false)) :
    nextAt (some d) tie t ((a, w) :: rest) = (.timeout, t + d, (a, w) :: rest) := by
  have h1 : ¬ a ≤ t := by omega
  have h2 : ¬ a < t + d := by omega
  have h3 : ¬ (a = t + d ∧ tie = true) := by
    rintro ⟨e, ht⟩
    rcases h with h | ⟨_, _, hf⟩
    · omega
    · rw [hf] at ht; cases ht
  simp [nextAt, h1, h2, h3]

theorem nextAt_untimed (tie : Bool) (t a : Nat) (w : What) (rest : Chan) :
    nextAt none tie t ((a, w) :: rest) = (deliver w, max a t, rest) := by
  by_cases h1 : a ≤ t
  · simp [nextAt, h1, Nat.max_eq_right h1]
  · simp [nextAt, h1, Nat.max_eq_left (by omega : t ≤ a)]

/-- the loop after a call that received the head -/
theorem drain_cons_delivered (T : Option Nat) (tie : Bool) (think : List Nat) (t a : Nat) (w : What) (rest : Chan)
    (hn : nextAt T tie t ((a, w) :: rest) = (deliver w, max a t, rest)) :
    drain T tie think t ((a, w) :: rest) =
      (deliver w, max a t) :: (if w.isItem then drain T tie think.tail (max a t + think.headD 0) rest else []) := by
  simp only [drain, hn]
  cases w <;> simp [deliver, What.isItem]

/-- the loop after a call that timed out -/
theorem drain_cons_timeout (T : Option Nat) (tie : Bool) (think : List Nat) (t r : Nat) (e : Nat × What) (rest q' : Chan)
    (hn : nextAt T tie t (e :: rest) = (.timeout, r, q')) :
    drain T tie think t (e :: rest) = [(.timeout, r)] := by
  simp only [drain, hn]

theorem terminalOnlyLast_cons2 (e e' : Nat × What) (rest : Chan) :
    TerminalOnlyLast (e :: e' :: rest) = (e.2.isItem && TerminalOnlyLast (e' :: rest)) := by
  obtain ⟨a, w⟩ := e
  simp [TerminalOnlyLast]

theorem endsOpen_cons2 (e e' : Nat × What) (rest : Chan) : endsOpen (e :: e' :: rest) = endsOpen (e' :: rest) := by
  obtain ⟨a, w⟩ := e
  simp [endsOpen]

/-- all elements in time: the loop delivers every one of them, then — if the channel does not end
with done/closed — times out `d` after the start of the call that follows the last item -/
theorem drain_inTime (d : Nat) (tie : Bool) : ∀ (q : Chan) (think : List Nat) (t : Nat),
    TerminalOnlyLast q = true → InTime d think t q →
    drain (some d) tie think t q =
      delivered think t q ++ (if endsOpen q then [(Outcome.timeout, startAfter think t q + d)] else [])
  | [], think, t, _, _ => by simp [drain, nextAt, delivered, endsOpen, startAfter]
  | [(a, w)], think, t, _, hin => by
    rw [drain_cons_delivered _ _ _ _ _ _ _ (nextAt_in_time d tie t a w [] hin.1)]
    cases w <;> simp [What.isItem, delivered, endsOpen, startAfter, drain, nextAt]
  | (a, w) :: e' :: rest, think, t, hwf, hin => by
    rw [terminalOnlyLast_cons2, Bool.and_eq_true] at hwf
    rw [drain_cons_delivered _ _ _ _ _ _ _ (nextAt_in_time d tie t a w _ hin.1)]
    have ih := drain_inTime d tie (e' :: rest) think.tail (max a t + think.headD 0) hwf.2 hin.2
    have hw : w.isItem = true := hwf.1
    rw [hw, if_pos rfl, ih, endsOpen_cons2]
    simp [delivered, startAfter]

/-- items in time, then one element that is late for its call: everything before it is delivered,
that call times out at exactly its start + `d`, nothing else follows -/
theorem drain_late (d : Nat) (tie : Bool) (a : Nat) (w : What) (post : Chan) : ∀ (pre : Chan) (think : List Nat) (t : Nat),
    pre.all (fun e => e.2.isItem) = true → InTime d think t pre →
    (startAfter think t pre + d < a ∨ (startAfter think t pre + d = a ∧ 0 < d ∧ tie = false)) →
    drain (some d) tie think t (pre ++ (a, w) :: post) =
      delivered think t pre ++ [(Outcome.timeout, startAfter think t pre + d)]
  | [], think, t, _, _, hl => by
    simp only [startAfter] at hl
    simp [drain_cons_timeout _ _ _ _ _ _ _ _ (nextAt_late d tie t a w post hl), delivered, startAfter]
  | (b, v) :: pre, think, t, hit, hin, hl => by
    simp only [List.all_cons, Bool.and_eq_true] at hit
    simp only [startAfter] at hl
    rw [List.cons_append, drain_cons_delivered _ _ _ _ _ _ _ (nextAt_in_time d tie t b v _ hin.1)]
    rw [hit.1, if_pos rfl, drain_late d tie a w post pre think.tail (max b t + think.headD 0) hit.2 hin.2 hl]
    simp [delivered, startAfter]

/-- without a timeout: every element is delivered, then the loop hangs (or has ended with done/closed) -/
theorem drain_untimed (tie : Bool) : ∀ (q : Chan) (think : List Nat) (t : Nat),
    TerminalOnlyLast q = true →
    drain none tie think t q =
      delivered think t q ++ (if endsOpen q then [(Outcome.hang, startAfter think t q)] else [])
  | [], think, t, _ => by simp [drain, nextAt, delivered, endsOpen, startAfter]
  | [(a, w)], think, t, _ => by
    rw [drain_cons_delivered _ _ _ _ _ _ _ (nextAt_untimed tie t a w [])]
    cases w <;> simp [What.isItem, delivered, endsOpen, startAfter, drain, nextAt]
  | (a, w) :: e' :: rest, think, t, hwf => by
    rw [terminalOnlyLast_cons2, Bool.and_eq_true] at hwf
    rw [drain_cons_delivered _ _ _ _ _ _ _ (nextAt_untimed tie t a w _)]
    have ih := drain_untimed tie (e' :: rest) think.tail (max a t + think.headD 0) hwf.2
    have hw : w.isItem = true := hwf.1
    rw [hw, if_pos rfl, ih, endsOpen_cons2]
    simp [delivered, startAfter]

/-- without a timeout no call of the loop returns `timeout`, whatever the channel -/
theorem drain_untimed_no_timeout (tie : Bool) : ∀ (q : Chan) (think : List Nat) (t : Nat),
    ∀ p ∈ drain none tie think t q, p.1 ≠ Outcome.timeout
  | [], think, t => by simp [drain, nextAt]
  | (a, w) :: rest, think, t => by
    rw [drain_cons_delivered _ _ _ _ _ _ _ (nextAt_untimed tie t a w rest)]
    intro p hp
    rcases List.mem_cons.mp hp with rfl | hp
    · cases w <;> simp [deliver]
    · split at hp
      · exact drain_untimed_no_timeout tie rest _ _ p hp
      · cases hp

/-- gaps below `d` (caller calls back at once) ⇒ every element is in time for its call -/
theorem inTime_of_gaps (d : Nat) : ∀ (q : Chan) (prev t : Nat), prev ≤ t → GapsBelow d prev q → InTime d [] t q
  | [], _, _, _, _ => trivial
  | (a, _) :: rest, prev, t, hle, hg => by
    refine ⟨by have := hg.1; omega, ?_⟩
    exact inTime_of_gaps d rest a _ (by simp only [List.headD_nil]; omega) hg.2

/-- evenly spaced items, gap `g < d`: all delivered at `t0 + k*g`, the time-out comes only `d`
after the last one — however large `n * g` is -/
theorem drain_evenly (d g t0 : Nat) (tie : Bool) (hg : g < d) : ∀ (toks : List Nat) (k : Nat),
    drain (some d) tie [] (t0 + k * g) (evenly t0 g (k + 1) toks) =
      evenlyDelivered t0 g (k + 1) toks ++ [(Outcome.timeout, t0 + (k + toks.length) * g + d)]
  | [], k => by simp [evenly, evenlyDelivered, drain, nextAt]
  | tok :: toks, k => by
    have hs : (k + 1) * g = k * g + g := Nat.succ_mul k g
    have hn := nextAt_in_time d tie (t0 + k * g) (t0 + (k + 1) * g) (.item tok) (evenly t0 g (k + 1 + 1) toks) (by omega)
    have hm : max (t0 + (k + 1) * g) (t0 + k * g) = t0 + (k + 1) * g := Nat.max_eq_left (by omega)
    rw [hm] at hn
    have ih := drain_evenly d g t0 tie hg toks (k + 1)
    have hl : k + 1 + toks.length = k + (toks.length + 1) := by omega
    simp only [evenly, evenlyDelivered, drain, hn, deliver, List.tail_nil, List.headD_nil, Nat.add_zero, ih,
      List.length_cons, hl, List.cons_append]

end Ldap3V.StreamTimed

import Ldap3V.Lemmas.BerMono
namespace Ldap3V

mutual
theorem pTag_depth : ∀ (f d : Nat) (i : Bytes) (t : Tlv) (r : Bytes), pTag f d i = .ok t r →
    d + t.depth ≤ maxDepth ∨ t.depth = 0
  | 0, _, _, _, _, h => by simp [pTag] at h
  | f + 1, d, i, t, r, h => by
    cases i with
    | nil => simp [pTag] at h
    | cons b i1 =>
      simp only [pTag] at h
      cases hl : parseLen i1 with
      | incomplete => rw [hl] at h; cases h
      | error => rw [hl] at h; cases h
      | ok len i2 =>
        rw [hl] at h
        simp only at h
        split at h
        · cases h
        · split at h
          · split at h
            · cases h
            · next hd =>
              cases hk : pKids f (d + 1) (List.take len i2) with
              | incomplete => rw [hk] at h; cases h
              | error => rw [hk] at h; cases h
              | ok ks r2 =>
                rw [hk] at h
                simp only [PR.ok.injEq] at h
                obtain ⟨h1, _⟩ := h
                subst h1
                have := pKids_depth f (d + 1) _ ks r2 hk
                left
                simp only [Tlv.depth]
                omega
          · simp only [PR.ok.injEq] at h
            obtain ⟨h1, _⟩ := h
            subst h1
            right; rfl
theorem pKids_depth : ∀ (f d : Nat) (c : Bytes) (ks : List Tlv) (r : Bytes), pKids f d c = .ok ks r →
    d + Tlv.depthList ks ≤ maxDepth + 0 ∨ Tlv.depthList ks = 0
  | 0, _, _, _, _, h => by simp [pKids] at h
  | f + 1, d, c, ks, r, h => by
    cases c with
    | nil =>
      simp only [pKids, PR.ok.injEq] at h
      obtain ⟨h1, _⟩ := h
      subst h1
      right; rfl
    | cons x c1 =>
      simp only [pKids] at h
      cases ht : pTag f d (x :: c1) with
      | incomplete => rw [ht] at h; cases h
      | error => rw [ht] at h; cases h
      | ok t r1 =>
        rw [ht] at h
        simp only at h
        cases hk : pKids f d r1 with
        | incomplete => rw [hk] at h; cases h
        | error => rw [hk] at h; cases h
        | ok ts r2 =>
          rw [hk] at h
          simp only [PR.ok.injEq] at h
          obtain ⟨h1, _⟩ := h
          subst h1
          have a := pTag_depth f d _ t r1 ht
          have b := pKids_depth f d _ ts r2 hk
          simp only [Tlv.depthList]
          omega
end

end Ldap3V

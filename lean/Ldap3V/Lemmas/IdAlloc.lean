import Ldap3V.Model.IdAlloc
namespace Ldap3V

/-- the candidates in the order the loop tries them -/
def candidates (N last : Nat) : List Nat := List.range' (last + 1) (N - last) ++ List.range' 1 last

/-- first candidate not in use; `none` = every candidate is in use -/
def firstFree (inUse : List Nat) (cands : List Nat) : Option Nat := cands.find? fun c => !inUse.contains c

def outOf : Option Nat → AllocOut
  | some id => .ok id
  | none => .panic

theorem aux_step (N last : Nat) (inUse : List Nat) (fuel cur : Nat) :
    nextIdAux N last inUse (fuel + 1) cur =
      (if (if cur = N then 1 else cur + 1) ∈ inUse then
        (if (if cur = N then 1 else cur + 1) = last then .panic
         else nextIdAux N last inUse fuel (if cur = N then 1 else cur + 1))
       else .ok (if cur = N then 1 else cur + 1)) := by
  simp only [nextIdAux, List.contains_eq_mem, decide_eq_true_eq]
  split <;> simp_all

theorem firstFree_cons (inUse : List Nat) (c : Nat) (cs : List Nat) :
    firstFree inUse (c :: cs) = if c ∈ inUse then firstFree inUse cs else some c := by
  simp only [firstFree, List.find?_cons, List.contains_eq_mem]
  split <;> simp_all

/-- phase B (after the wrap): cur < last, candidates cur+1 .. last -/
theorem aux_phaseB (N last : Nat) (inUse : List Nat) : ∀ (k cur fuel : Nat), cur + k = last → k ≤ fuel → last ≤ N → 1 ≤ k →
    nextIdAux N last inUse fuel cur = outOf (firstFree inUse (List.range' (cur + 1) k))
  | 0, _, _, _, _, _, h => by omega
  | k + 1, cur, fuel, hc, hf, hN, _ => by
    obtain ⟨f, rfl⟩ : ∃ f, fuel = f + 1 := ⟨fuel - 1, by omega⟩
    have hne : ¬ cur = N := by omega
    rw [aux_step, List.range'_succ, firstFree_cons]
    simp only [if_neg hne]
    by_cases hin : cur + 1 ∈ inUse
    · simp only [if_pos hin]
      by_cases hk : k = 0
      · subst hk
        have : cur + 1 = last := by omega
        simp [this, List.range'_zero, firstFree, outOf]
      · have hne2 : ¬ cur + 1 = last := by omega
        rw [if_neg hne2]
        exact aux_phaseB N last inUse k (cur + 1) f (by omega) (by omega) hN (by omega)
    · simp [if_neg hin, outOf]

/-- phase A (before the wrap): last ≤ cur ≤ N -/
theorem aux_phaseA (N last : Nat) (inUse : List Nat) (hl : 1 ≤ last) (hN : last ≤ N) :
    ∀ (k cur fuel : Nat), cur + k = N → last ≤ cur → k + last ≤ fuel →
    nextIdAux N last inUse fuel cur = outOf (firstFree inUse (List.range' (cur + 1) k ++ List.range' 1 last))
  | 0, cur, fuel, hc, hlc, hf => by
    have hcN : cur = N := by omega
    obtain ⟨f, rfl⟩ : ∃ f, fuel = f + 1 := ⟨fuel - 1, by omega⟩
    obtain ⟨l, rfl⟩ : ∃ l, last = l + 1 := ⟨last - 1, by omega⟩
    rw [aux_step, List.range'_zero, List.nil_append, List.range'_succ, firstFree_cons]
    simp only [if_pos hcN]
    by_cases hin : 1 ∈ inUse
    · simp only [if_pos hin]
      by_cases hl0 : l = 0
      · subst hl0; simp [List.range'_zero, firstFree, outOf]
      · have hne : ¬ 1 = l + 1 := by omega
        rw [if_neg hne]
        exact aux_phaseB N (l + 1) inUse l 1 f (by omega) (by omega) hN (by omega)
    · simp [if_neg hin, outOf]
  | k + 1, cur, fuel, hc, hlc, hf => by
    obtain ⟨f, rfl⟩ : ∃ f, fuel = f + 1 := ⟨fuel - 1, by omega⟩
    have hne : ¬ cur = N := by omega
    rw [aux_step, List.range'_succ, List.cons_append, firstFree_cons]
    simp only [if_neg hne]
    by_cases hin : cur + 1 ∈ inUse
    · simp only [if_pos hin]
      have hne2 : ¬ cur + 1 = last := by omega
      rw [if_neg hne2]
      exact aux_phaseA N last inUse hl hN k (cur + 1) f (by omega) (by omega) (by omega)
    · simp [if_neg hin, outOf]

/-- `next_msgid` is "first free candidate, panic if none" (for a table in which an ID was handed out) -/
theorem nextId_eq (N last : Nat) (inUse : List Nat) (hl : 1 ≤ last) (hN : last ≤ N) :
    nextId N last inUse = outOf (firstFree inUse (candidates N last)) := by
  unfold nextId candidates
  exact aux_phaseA N last inUse hl hN (N - last) last (N + 1) (by omega) (Nat.le_refl _) (by omega)

/-- a fresh table hands out 1 -/
theorem nextId_fresh (N : Nat) (hN : 1 ≤ N) : nextId N 0 [] = .ok 1 := by
  unfold nextId
  rw [aux_step]
  have : ¬ (0 = N) := by omega
  simp [this]

theorem mem_candidates (N last j : Nat) (hN : last ≤ N) : j ∈ candidates N last ↔ 1 ≤ j ∧ j ≤ N := by
  unfold candidates
  simp only [List.mem_append, List.mem_range'_1]
  omega

end Ldap3V

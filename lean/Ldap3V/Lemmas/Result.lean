/- Helper lemmas for C03 (result conversion). -/
import Ldap3V.Model.Result
import Ldap3V.Spec.Result
import Ldap3V.Lemmas.Envelope
import Ldap3V.Lemmas.BerParse
namespace Ldap3V
open Spec

/-! ### resultCode octets: the client reads them unsigned and keeps the low 32 bits -/

theorem twos_nonneg_beVal (c : Bytes) (h : 0 ≤ twos c) : (beVal c : Int) = twos c := by
  cases c with
  | nil => rfl
  | cons b bs =>
    have hlt := beVal_lt (b :: bs)
    simp only [twos] at h ⊢
    split
    · next hb =>
      rw [if_pos hb] at h
      have h2 : ((beVal (b :: bs) : Nat) : Int) < ((256 ^ (b :: bs).length : Nat) : Int) := Int.ofNat_lt.mpr hlt
      rw [Int.natCast_pow, show ((256 : Nat) : Int) = 256 from rfl] at h2
      omega
    · rfl

theorem twos_neg_beVal (c : Bytes) (h : twos c < 0) : (beVal c : Int) = twos c + (256 : Int) ^ c.length := by
  cases c with
  | nil => simp [twos] at h
  | cons b bs =>
    simp only [twos] at h ⊢
    split
    · omega
    · next hb =>
      rw [if_neg hb] at h
      omega

theorem rcOfOctets_eq (c : Bytes) : rcOfOctets c = beVal c % 4294967296 := by
  unfold rcOfOctets
  rw [parseUint_eq]
  omega

/-- a non-negative resultCode below 2^32 is read back exactly, whatever octets carry it -/
theorem rcOfOctets_twos (c : Bytes) (rc : Nat) (h : twos c = (rc : Int)) (hlt : rc < 4294967296) :
    rcOfOctets c = rc := by
  have := twos_nonneg_beVal c (by omega)
  rw [rcOfOctets_eq]
  omega

/-- exactness of the range: the value read equals the value sent iff `0 ≤ value < 2^32` -/
theorem rcOfOctets_exact_iff (c : Bytes) :
    ((rcOfOctets c : Nat) : Int) = twos c ↔ (0 ≤ twos c ∧ twos c < 4294967296) := by
  constructor
  · intro h
    have : rcOfOctets c < 4294967296 := by rw [rcOfOctets_eq]; omega
    omega
  · intro ⟨h0, h1⟩
    have := twos_nonneg_beVal c h0
    rw [rcOfOctets_eq]
    omega

/-! ### the conversion on RFC-shaped responses -/

@[simp] theorem utf8Prim_prim (c i : Nat) (v : Bytes) (h : utf8Valid v = true) :
    utf8Prim (.prim c i v) = some v := by
  simp [utf8Prim, h]

theorem refUris_map (us : List Bytes) (h : ∀ u ∈ us, utf8Valid u = true) :
    refUris (us.map fun u => Tlv.prim 0 4 u) = some us := by
  induction us with
  | nil => rfl
  | cons u us ih =>
    simp only [List.map_cons, refUris]
    rw [utf8Prim_prim 0 4 u (h u (by simp)), ih (fun x hx => h x (by simp [hx]))]

/-- head of the conversion for any op with a universal primitive ENUMERATED first and two primitive
UTF-8 strings after it -/
theorem resultExt_head (c i : Nat) (v m x : Bytes) (rest : List Tlv) (cm im cx ix : Nat)
    (hm : utf8Valid m = true) (hx : utf8Valid x = true) :
    resultExt (.cons c i (.prim 0 10 v :: .prim cm im m :: .prim cx ix x :: rest)) =
      (resTail rest {}).map fun a => ⟨rcOfOctets v, m, x, a.refs, a.exopName, a.exopVal, a.sasl⟩ := by
  simp only [resultExt, Tlv.expectCons_cons, utf8Prim_prim _ _ _ hm, utf8Prim_prim _ _ _ hx]
  cases resTail rest {} <;> rfl

theorem resultExt_respOp (r : Resp) (h : WFResp r) :
    resultExt (respOp r) =
      some ⟨r.rc, r.matched, r.text, r.refs.getD [], r.exopName, r.exopVal, r.sasl⟩ := by
  obtain ⟨kind, rcc, rc, matched, text, refs, sasl, en, ev⟩ := r
  obtain ⟨_, hrc, hlt, hm, ht, hrefs, hen, hs, hx⟩ := h
  simp only at hrc hlt hm ht hrefs hen hs hx
  simp only [respOp, List.cons_append, List.nil_append]
  rw [resultExt_head _ _ _ _ _ _ _ _ _ _ hm ht, rcOfOctets_twos rcc rc hrc hlt]
  have hru : ∀ us, refs = some us → refUris (us.map fun u => Tlv.prim 0 4 u) = some us :=
    fun us e => refUris_map us (hrefs us e)
  by_cases h1 : kind = 1
  · subst h1
    obtain ⟨rfl, rfl⟩ := hx (by decide)
    cases refs with
    | none => cases sasl <;> simp [resTail]
    | some us => cases sasl <;> simp [resTail, hru us rfl]
  · have hs' := hs h1
    subst hs'
    by_cases h24 : kind = 24
    · subst h24
      cases refs with
      | none =>
        cases en with
        | none => cases ev <;> simp [resTail]
        | some n => cases ev <;> simp [resTail, hen n rfl]
      | some us =>
        cases en with
        | none => cases ev <;> simp [resTail, hru us rfl]
        | some n => cases ev <;> simp [resTail, hru us rfl, hen n rfl]
    · obtain ⟨rfl, rfl⟩ := hx h24
      cases refs with
      | none => simp [resTail, h1, h24]
      | some us => simp [resTail, h1, h24, hru us rfl]

/-! ### exact domain of the conversion (everything else is the `expect("ldap result")` panic) -/

/-- a primitive element (any class, any tag number) whose content is valid UTF-8 -/
def PrimUtf8 : Tlv → Prop
  | .prim _ _ v => utf8Valid v = true
  | .cons .. => False
def IsPrim : Tlv → Prop
  | .prim .. => True
  | .cons .. => False
/-- a constructed element all of whose children are primitive UTF-8 (a Referral) -/
def UriSeq : Tlv → Prop
  | .prim .. => False
  | .cons _ _ ks => ∀ k ∈ ks, PrimUtf8 k

/-- what the component loop accepts: elements NUMBERED 3 (any class) are constructed with primitive
UTF-8 children, 7 and 11 primitive, 10 primitive UTF-8, any other tag number anything at all -/
def TailOk : List Tlv → Prop
  | [] => True
  | t :: ts =>
    (t.id = 3 → UriSeq t) ∧ (t.id = 7 → IsPrim t) ∧ (t.id = 10 → PrimUtf8 t) ∧ (t.id = 11 → IsPrim t) ∧
    TailOk ts

theorem utf8Prim_isSome (t : Tlv) : (utf8Prim t).isSome = true ↔ PrimUtf8 t := by
  cases t with
  | prim c i v =>
    by_cases hv : utf8Valid v = true <;> simp [utf8Prim, hv, PrimUtf8]
  | cons c i ks => simp [utf8Prim, PrimUtf8]

theorem refUris_isSome (ks : List Tlv) : (refUris ks).isSome = true ↔ ∀ k ∈ ks, PrimUtf8 k := by
  induction ks with
  | nil => simp [refUris]
  | cons k ks ih =>
    simp only [List.mem_cons, forall_eq_or_imp, ← ih, ← utf8Prim_isSome k, refUris]
    cases utf8Prim k <;> cases refUris ks <;> simp

theorem resTail_isSome (l : List Tlv) : ∀ a, (resTail l a).isSome = true ↔ TailOk l := by
  induction l with
  | nil => intro a; simp [resTail, TailOk]
  | cons t ts ih =>
    intro a
    cases t with
    | prim c i v =>
      by_cases hv : utf8Valid v = true <;>
      by_cases h3 : i = 3 <;> by_cases h7 : i = 7 <;> by_cases h10 : i = 10 <;> by_cases h11 : i = 11 <;>
        simp_all [resTail, TailOk, IsPrim, PrimUtf8, UriSeq, utf8Prim]
    | cons c i ks =>
      by_cases h3 : i = 3
      · subst h3
        simp only [resTail, Tlv.id_cons, beq_self_eq_true, if_true, Tlv.expectCons_cons, TailOk]
        have hr := refUris_isSome ks
        cases hru : refUris ks with
        | none =>
          rw [hru] at hr
          simp only [Option.isSome_none, Bool.false_eq_true, false_iff] at hr ⊢
          intro h
          exact hr (h.1 trivial)
        | some us =>
          rw [hru] at hr
          simp only [Option.isSome_some, true_iff] at hr
          simp only [ih]
          simp only [UriSeq, IsPrim, PrimUtf8]
          exact ⟨fun h => ⟨fun _ => hr, by simp, by simp, by simp, h⟩, fun h => h.2.2.2.2⟩
      · by_cases h7 : i = 7 <;> by_cases h10 : i = 10 <;> by_cases h11 : i = 11 <;>
          simp_all [resTail, TailOk, IsPrim, PrimUtf8, UriSeq, utf8Prim]

/-- the conversion succeeds exactly on: constructed; first element universal primitive ENUMERATED;
second and third primitive (any class/number) valid UTF-8; remaining components accepted by the
loop.  On every other tree `try_from_tag` is `None` and `From<Tag>` panics. -/
theorem resultExt_isSome_iff (t : Tlv) :
    (resultExt t).isSome = true ↔
      ∃ c i v m x rest, t = .cons c i (.prim 0 10 v :: m :: x :: rest) ∧ PrimUtf8 m ∧ PrimUtf8 x ∧ TailOk rest := by
  constructor
  · intro h
    unfold resultExt at h
    split at h
    · simp at h
    · next tags htags =>
      cases t with
      | prim => simp at htags
      | cons c i ks =>
        simp only [Tlv.expectCons_cons, Option.some.injEq] at htags
        subst htags
        split at h
        · simp at h
        · next v r1 =>
          split at h
          · simp at h
          · next m r2 =>
            split at h
            · simp at h
            · next matched hmm =>
              split at h
              · simp at h
              · next x r3 =>
                split at h
                · simp at h
                · next text hxx =>
                  split at h
                  · simp at h
                  · next a ha =>
                    refine ⟨c, i, v, m, x, r3, rfl, ?_, ?_, ?_⟩
                    · exact (utf8Prim_isSome m).1 (by rw [hmm]; rfl)
                    · exact (utf8Prim_isSome x).1 (by rw [hxx]; rfl)
                    · exact (resTail_isSome r3 {}).1 (by rw [ha]; rfl)
        · simp at h
  · rintro ⟨c, i, v, m, x, rest, rfl, hm, hx, ht⟩
    cases m with
    | cons => exact absurd hm (by simp [PrimUtf8])
    | prim cm im vm =>
    cases x with
    | cons => exact absurd hx (by simp [PrimUtf8])
    | prim cx ix vx =>
    simp only [PrimUtf8] at hm hx
    rw [resultExt_head _ _ _ _ _ _ _ _ _ _ hm hx]
    have := (resTail_isSome rest {}).2 ht
    cases hr : resTail rest {} with
    | none => rw [hr] at this; simp at this
    | some a => rfl

end Ldap3V

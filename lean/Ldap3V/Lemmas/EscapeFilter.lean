/- `ldap_escape` against the filter grammar and the model filter parser of the C08 slice:
helper lemmas for the filter-level theorems of C09; no property statements here. -/
import Ldap3V.Lemmas.Escape
import Ldap3V.Lemmas.EscapeUtf8
import Ldap3V.Lemmas.FilterInv
import Ldap3V.Lemmas.FilterTlv
import Ldap3V.Spec.FilterCtx
namespace Ldap3V
open Ldap3V.Spec (Filter)
open Ldap3V.Spec.Filter (G GL GItem IsAttrDesc IsOid Dialect toTlv Ctx Sibs ROpt RAny ValItem isDnKw)

/-! ### the two statements of "valueencoding" agree -/

theorem hexVal_bridge (c : UInt8) : Spec.hexVal c = Spec.Filter.hexVal c := rfl

set_option maxRecDepth 100000 in
theorem special_bridge : ∀ b : UInt8, Spec.fvSpecial b = false → Spec.Filter.isSpecial b = false := by
  apply forall_u8; decide

theorem byte_of_nibbles (b : UInt8) : (16 * (b.toNat / 16) + b.toNat % 16).toUInt8 = b := by
  rw [Nat.div_add_mod]
  apply UInt8.toNat_inj.mp
  simp [Nat.toUInt8]

/-- a rendering in the sense of Spec/FilterValue.lean is one in the sense of the filter grammar -/
theorem rval_bridge {v s : Bytes} (h : Spec.RVal v s) : Spec.Filter.RVal v s := by
  induction h with
  | nil => exact .nil
  | lit b v r hb _ ih => exact .lit (special_bridge b hb) ih
  | esc b h l v r hh hl _ ih =>
    have := Spec.Filter.RVal.esc (hexVal_bridge h ▸ hh) (hexVal_bridge l ▸ hl) ih
    rwa [byte_of_nibbles] at this

/-- the grammar's value production reads `ldap_escape(v)` as `v` -/
theorem rvalF_ldapEscape (v : Bytes) : Spec.Filter.RVal v (ldapEscape v) := by
  rw [ldapEscape_eq]; exact rval_bridge (rval_escMap v 0)

/-! ### attribute descriptions: the model's own sub-parser as the decidable hypothesis -/

/-- the model's `attributedescription` consumes all of `a` -/
def attrDescOk (a : Bytes) : Bool :=
  match Filter.attributedescription a with
  | .ok _ [] => true
  | _ => false

theorem attrDescOk_iff (a : Bytes) : attrDescOk a = true ↔ IsAttrDesc .lib a := by
  constructor
  · intro h
    unfold attrDescOk at h
    cases hp : Filter.attributedescription a with
    | ok x r =>
      rw [hp] at h
      cases r with
      | nil =>
        obtain ⟨e, hx⟩ := Filter.attributedescription_sound hp
        simp only [List.append_nil] at e
        rw [e]; exact hx
      | cons c r => simp at h
    | err => rw [hp] at h; simp at h
    | panic => rw [hp] at h; simp at h
  · intro h
    have := Filter.attributedescription_complete (r := []) h trivial
    simp only [List.append_nil] at this
    simp [attrDescOk, this]

/-- the model's `attributetype` (used for matching rules) consumes all of `r` -/
def oidOk (r : Bytes) : Bool :=
  match Filter.attributetype r with
  | .ok _ [] => true
  | _ => false

theorem oidOk_iff (r : Bytes) : oidOk r = true ↔ IsOid .lib r := by
  constructor
  · intro h
    unfold oidOk at h
    cases hp : Filter.attributetype r with
    | ok x r' =>
      rw [hp] at h
      cases r' with
      | nil =>
        obtain ⟨e, hx⟩ := Filter.attributetype_sound hp
        simp only [List.append_nil] at e
        rw [e]; exact hx
      | cons c r' => simp at h
    | err => rw [hp] at h; simp at h
    | panic => rw [hp] at h; simp at h
  · intro h
    have := Filter.attributetype_complete (r := []) h trivial
    simp only [List.append_nil] at this
    simp [oidOk, this]

/-! ### from the grammar to the parser -/

theorem parse_of_G {f : Filter} {s : Bytes} (h : G .lib f s) :
    (Filter.parseCore s).map Tag.toTlv = some (toTlv f) := by
  obtain ⟨t, ht, htl⟩ := Filter.parse_complete (Or.inl h)
  rw [(Filter.parse_some_iff s t).mpr ht]; simp [htl]

theorem parse_of_GItem {f : Filter} {s : Bytes} (h : GItem .lib f s) :
    (Filter.parseCore s).map Tag.toTlv = some (toTlv f) := by
  obtain ⟨t, ht, htl⟩ := Filter.parse_complete (Or.inr h)
  rw [(Filter.parse_some_iff s t).mpr ht]; simp [htl]

theorem parse_of_GLib {f : Filter} {s : Bytes} (h : Spec.Filter.GLib f s) :
    (Filter.parseCore s).map Tag.toTlv = some (toTlv f) := by
  obtain ⟨t, ht, htl⟩ := Filter.parse_complete h
  rw [(Filter.parse_some_iff s t).mpr ht]; simp [htl]

/-- the strict decoder applied to the tag that was built -/
theorem decoded_of_map {f : Filter} {o : Option Tag} (h : o.map Tag.toTlv = some (toTlv f)) :
    o.bind (fun t => Spec.Filter.ofTlv t.toTlv) = some f := by
  cases o with
  | none => simp at h
  | some t =>
    simp only [Option.map_some, Option.some.injEq] at h
    simp [h, Spec.Filter.ofTlv_toTlv]

/-! ### the tag itself, for an equality item -/

namespace Filter
open Ldap3V.Spec.Filter (RVal)

theorem eq_exact {a v sv r : Bytes} (ha : IsAttrDesc .lib a) (hv : RVal v sv) (hr : ItemStop r) :
    eq ((a ++ 0x3D :: sv) ++ r) = .ok (.sequence 2 3 [.octetString 0 4 a, .octetString 0 4 v]) r := by
  have h1 : attributedescription (a ++ (0x3D :: (sv ++ r))) = .ok a _ :=
    attributedescription_complete ha (by simp [AttrStop, isAlnumHyphen, isAlnum, isAlpha, isDigit])
  have h2 : tag [0x3D] (0x3D :: (sv ++ r)) = .ok [0x3D] (sv ++ r) := tag_append [0x3D] (sv ++ r)
  have h3 : unescaped (sv ++ r) = .ok v r := unescaped_complete hv hr.val
  have h4 : many0 starPiece r = .ok [] r := by
    simpa using many_star_complete (mids := []) (b := []) .nil hr
  have h5 : mapRes (many0 starPiece) (fun v => if midBad v.length 0 v then none else some v) r = .ok [] r :=
    mapRes_eq h4 (by simp [midBad])
  have e : (a ++ 0x3D :: sv) ++ r = a ++ (0x3D :: (sv ++ r)) := by simp
  rw [e, eq_def, andThen_eq h1, andThen_eq h2, andThen_eq h3, andThen_eq h5]
  simp [eqTag, octets]

/-- a parenthesised item, with the tag the item parser returned -/
theorem filter_of_item {b : Bytes} {t : Tag} {rest : Bytes} {c : UInt8} {x : Bytes} (m : Nat)
    (hi : item (b ++ 0x29 :: rest) = .ok t (0x29 :: rest)) (eb : b = c :: x)
    (hc : c ≠ 0x26 ∧ c ≠ 0x7C ∧ c ≠ 0x21) :
    filter (m + 1) (0x28 :: (b ++ 0x29 :: rest)) = .ok t rest := by
  have hcomp : filtercomp (filter m) (b ++ 0x29 :: rest) = .ok t (0x29 :: rest) := by
    unfold filtercomp
    have eb' : b ++ 0x29 :: rest = c :: (x ++ 0x29 :: rest) := by rw [eb]; simp
    rw [eb', alt_right (andF_err_of_head _ hc.1), alt_right (orF_err_of_head _ hc.2.1),
      alt_right (notF_err_of_head _ hc.2.2), ← eb']
    exact hi
  unfold filter
  exact delimited_eq (tag_cons _ _) hcomp (tag_cons _ _)

end Filter

/-- a parenthesised item at top level, with the tag the item parser returned -/
theorem parse_of_item_exact {b : Bytes} {t : Tag} {c : UInt8} {x : Bytes}
    (hi : Filter.item (b ++ [0x29]) = .ok t [0x29]) (eb : b = c :: x) (hc : c ≠ 0x26 ∧ c ≠ 0x7C ∧ c ≠ 0x21) :
    Filter.parseCore ([0x28] ++ b ++ [0x29]) = some t := by
  have hf := Filter.filter_of_item (rest := []) ([0x28] ++ b ++ [0x29]).length hi eb hc
  rw [(Filter.parse_some_iff _ _)]
  unfold Filter.parseCoreO Filter.filtexpr
  rw [Filter.alt_left (by simpa using hf)]
  rfl

theorem attr_head_ok {a : Bytes} (ha : IsAttrDesc .lib a) :
    ∃ c x, a = c :: x ∧ (c ≠ 0x26 ∧ c ≠ 0x7C ∧ c ≠ 0x21) := by
  obtain ⟨⟨c, x, ea, hc⟩, _⟩ := Filter.attrDesc_chars ha
  refine ⟨c, x, ea, ?_, ?_, ?_⟩ <;> (intro e0; subst e0; revert hc; decide)

theorem parse_eq_exact {a v sv : Bytes} (ha : IsAttrDesc .lib a) (hv : Spec.Filter.RVal v sv) :
    Filter.parseCore ([0x28] ++ a ++ [0x3D] ++ sv ++ [0x29]) =
      some (.sequence 2 3 [.octetString 0 4 a, .octetString 0 4 v]) := by
  obtain ⟨c, x, ea, hne⟩ := attr_head_ok ha
  have hi := Filter.item_of_eq (Filter.eq_exact (r := [0x29]) ha hv rfl)
  have := parse_of_item_exact (c := c) (x := x ++ 0x3D :: sv) hi (by rw [ea]; simp) hne
  simpa using this

/-- `a>=v`, `a<=v`, `a~=v`: operator octet `c`, tag number `id` -/
theorem parse_nonEq_exact {a v sv : Bytes} {c : UInt8} {id : Nat} (ha : IsAttrDesc .lib a)
    (hv : Spec.Filter.RVal v sv) (hc : Filter.isAlnumHyphen c = false ∧ c ≠ 0x2E ∧ c ≠ 0x3B) (hc2 : c ≠ 0x3D)
    (hop : ∀ rest, Filter.opTag (c :: 0x3D :: rest) = .ok [c, 0x3D] rest)
    (hid : Filter.filtertag [c, 0x3D] = some id) :
    Filter.parseCore ([0x28] ++ a ++ [c, 0x3D] ++ sv ++ [0x29]) =
      some (.sequence 2 id [.octetString 0 4 a, .octetString 0 4 v]) := by
  obtain ⟨c0, x, ea, hne⟩ := attr_head_ok ha
  have hattr : Filter.attributedescription (a ++ (c :: 0x3D :: (sv ++ [0x29]))) = .ok a _ :=
    Filter.attributedescription_complete ha hc
  have e : (a ++ c :: 0x3D :: sv) ++ [0x29] = a ++ (c :: 0x3D :: (sv ++ [0x29])) := by simp
  have hi := Filter.item_of_nonEq (by rw [e]; exact Filter.eq_err_of_attr hattr hc2)
    (Filter.nonEq_complete (r := [0x29]) ha hv rfl hc hop hid)
  have := parse_of_item_exact (c := c0) (x := x ++ c :: 0x3D :: sv) hi (by rw [ea]; simp) hne
  simpa [Filter.octets] using this

theorem parse_ge_exact {a v sv : Bytes} (ha : IsAttrDesc .lib a) (hv : Spec.Filter.RVal v sv) :
    Filter.parseCore ([0x28] ++ a ++ [0x3E, 0x3D] ++ sv ++ [0x29]) =
      some (.sequence 2 5 [.octetString 0 4 a, .octetString 0 4 v]) :=
  parse_nonEq_exact ha hv (by simp [Filter.isAlnumHyphen, Filter.isAlnum, Filter.isAlpha, Filter.isDigit]) (by decide)
    (fun rest => Filter.alt_left (Filter.tag_append [0x3E, 0x3D] rest)) (by simp [Filter.filtertag])

theorem parse_le_exact {a v sv : Bytes} (ha : IsAttrDesc .lib a) (hv : Spec.Filter.RVal v sv) :
    Filter.parseCore ([0x28] ++ a ++ [0x3C, 0x3D] ++ sv ++ [0x29]) =
      some (.sequence 2 6 [.octetString 0 4 a, .octetString 0 4 v]) :=
  parse_nonEq_exact ha hv (by simp [Filter.isAlnumHyphen, Filter.isAlnum, Filter.isAlpha, Filter.isDigit]) (by decide)
    (fun rest => by
      unfold Filter.opTag
      rw [Filter.alt_right (Filter.tag_err_of_head rfl (by decide))]
      exact Filter.alt_left (Filter.tag_append [0x3C, 0x3D] rest)) (by simp [Filter.filtertag])

theorem parse_approx_exact {a v sv : Bytes} (ha : IsAttrDesc .lib a) (hv : Spec.Filter.RVal v sv) :
    Filter.parseCore ([0x28] ++ a ++ [0x7E, 0x3D] ++ sv ++ [0x29]) =
      some (.sequence 2 8 [.octetString 0 4 a, .octetString 0 4 v]) :=
  parse_nonEq_exact ha hv (by simp [Filter.isAlnumHyphen, Filter.isAlnum, Filter.isAlpha, Filter.isDigit]) (by decide)
    (fun rest => by
      unfold Filter.opTag
      rw [Filter.alt_right (Filter.tag_err_of_head rfl (by decide)),
        Filter.alt_right (Filter.tag_err_of_head rfl (by decide))]
      exact Filter.tag_append [0x7E, 0x3D] rest) (by simp [Filter.filtertag])

/-! ### substring pieces -/

/-- text of an optional `initial` / `final` piece -/
def ldapEscapeOpt : Option Bytes → Bytes
  | some v => ldapEscape v
  | none => []

/-- text of the `any` pieces: each is followed by its asterisk -/
def ldapEscapeAny (l : List Bytes) : Bytes := (l.map fun m => ldapEscape m ++ [0x2A]).flatten

theorem ropt_escape (o : Option Bytes) (h : o ≠ some []) : ROpt o (ldapEscapeOpt o) := by
  cases o with
  | none => exact .none
  | some v => exact .some (fun e => h (by rw [e])) (rvalF_ldapEscape v)

theorem rany_escape (l : List Bytes) (h : ∀ m ∈ l, m ≠ []) : RAny l (ldapEscapeAny l) := by
  induction l with
  | nil => exact .nil
  | cons m l ih =>
    have := RAny.cons (h m (by simp)) (rvalF_ldapEscape m) (ih fun x hx => h x (by simp [hx]))
    simpa [ldapEscapeAny] using this

theorem noAdjacentStars_starstar (b : Bool) (x y : Bytes) :
    Spec.Filter.noAdjacentStars b (x ++ 0x2A :: 0x2A :: y) = false := by
  induction x generalizing b with
  | nil => simp [Spec.Filter.noAdjacentStars]
  | cons c x ih => simp [Spec.Filter.noAdjacentStars, ih]

theorem star_any_ends_star (l : List Bytes) : ∃ X, [0x2A] ++ ldapEscapeAny l = X ++ [0x2A] := by
  induction l with
  | nil => exact ⟨[], by simp [ldapEscapeAny]⟩
  | cons m l ih =>
    obtain ⟨X, e⟩ := ih
    refine ⟨[0x2A] ++ ldapEscape m ++ X, ?_⟩
    have : ldapEscapeAny (m :: l) = ldapEscape m ++ ([0x2A] ++ ldapEscapeAny l) := by simp [ldapEscapeAny]
    rw [this, e]; simp

theorem ldapEscapeAny_append (l k : List Bytes) : ldapEscapeAny (l ++ k) = ldapEscapeAny l ++ ldapEscapeAny k := by
  simp [ldapEscapeAny]

theorem ldapEscape_nil : ldapEscape [] = [] := by decide

/-! ### one-hole contexts -/

theorem GL_append {d : Dialect} {fs gs : List Filter} {a b : Bytes} (h1 : GL d fs a) (h2 : GL d gs b) :
    GL d (fs ++ gs) (a ++ b) := by
  induction fs generalizing a with
  | nil => simp only [GL] at h1; subst h1; simpa using h2
  | cons f fs ih =>
    simp only [GL] at h1
    obtain ⟨x, y, hx, hy, rfl⟩ := h1
    simp only [List.cons_append, GL]
    exact ⟨x, y ++ b, hx, ih hy, by simp⟩

theorem GL_sibs {d : Dialect} (l : Sibs) (h : l.ok d) : GL d l.trees l.text := by
  induction l with
  | nil => simp [Sibs.trees, Sibs.text, GL]
  | cons p l ih =>
    simp only [Sibs.trees, Sibs.text, List.map_cons, List.flatten_cons, GL]
    exact ⟨p.2, _, h p (by simp), ih fun q hq => h q (by simp [hq]), rfl⟩

theorem GL_one {d : Dialect} {f : Filter} {s : Bytes} (h : G d f s) : GL d [f] s := by
  simp only [GL]; exact ⟨s, [], h, rfl, by simp⟩

theorem GL_around {d : Dialect} {pre post : Sibs} {f : Filter} {s : Bytes} (hp : pre.ok d) (hq : post.ok d)
    (h : G d f s) : GL d (pre.trees ++ f :: post.trees) (pre.text ++ s ++ post.text) := by
  have := GL_append (GL_sibs pre hp) (GL_append (GL_one h) (GL_sibs post hq))
  simpa using this

/-- filling the hole of a context with a filter of the language gives a filter of the language,
with the expected tree -/
theorem ctx_G {d : Dialect} (c : Ctx) (hc : c.ok d) {f : Filter} {s : Bytes} (h : G d f s) :
    G d (c.tree f) (c.fill s) := by
  induction c with
  | hole => exact h
  | and pre c post ih =>
    obtain ⟨hp, hc, hq⟩ := hc
    simp only [Ctx.tree, Ctx.fill, G]
    exact ⟨_, GL_around hp hq (ih hc), by simp⟩
  | or pre c post ih =>
    obtain ⟨hp, hc, hq⟩ := hc
    simp only [Ctx.tree, Ctx.fill, G]
    exact ⟨_, GL_around hp hq (ih hc), by simp⟩
  | not c ih =>
    simp only [Ctx.tree, Ctx.fill, G]
    exact ⟨_, ih hc, by simp⟩

/-! ### items in the grammar -/

/-- a one-value item whose value text is a rendering of `v` denotes the node with value `v` -/
theorem valItem_G {d : Dialect} (it : ValItem) {v s : Bytes} (ha : IsAttrDesc d it.attr)
    (hv : Spec.Filter.RVal v s) : G d (it.tree v) (it.text s) := by
  cases it with
  | eq a => simpa [ValItem.text, ValItem.attr, ValItem.op, ValItem.tree] using Filter.G_of_item (.eq ha hv)
  | ge a => simpa [ValItem.text, ValItem.attr, ValItem.op, ValItem.tree] using Filter.G_of_item (.ge ha hv)
  | le a => simpa [ValItem.text, ValItem.attr, ValItem.op, ValItem.tree] using Filter.G_of_item (.le ha hv)
  | approx a =>
    simpa [ValItem.text, ValItem.attr, ValItem.op, ValItem.tree] using Filter.G_of_item (.approx ha hv)
  | ext a =>
    have := Filter.G_of_item (GItem.extAttr (d := d) (kw := []) (rule := none) (dn := false) ha
      (fun h => by cases h) (fun r h => by cases h) (fun _ r h => by cases h) hv)
    simpa [ValItem.text, ValItem.attr, ValItem.op, ValItem.tree, Spec.Filter.optStr] using this

/-- the text of a substring item with escaped pieces -/
def substrText (a : Bytes) (ini : Option Bytes) (any : List Bytes) (fin : Option Bytes) : Bytes :=
  [0x28] ++ a ++ [0x3D] ++ ldapEscapeOpt ini ++ [0x2A] ++ ldapEscapeAny any ++ ldapEscapeOpt fin ++ [0x29]

theorem substr_G {d : Dialect} {a : Bytes} (ha : IsAttrDesc d a) (ini fin : Option Bytes) (any : List Bytes)
    (hi : ini ≠ some []) (hy : ∀ m ∈ any, m ≠ []) (hf : fin ≠ some [])
    (hne : ini.isSome = true ∨ any ≠ [] ∨ fin.isSome = true) :
    G d (.substr a ini any fin) (substrText a ini any fin) := by
  have := Filter.G_of_item (GItem.substr ha (ropt_escape ini hi) (rany_escape any hy) (ropt_escape fin hf) hne)
  simpa [substrText] using this

/-- an empty `any` piece puts two asterisks side by side: no such string is accepted -/
theorem substr_empty_any_rejected (a : Bytes) (ini fin : Option Bytes) (pre post : List Bytes) :
    Filter.parseCore (substrText a ini (pre ++ [] :: post) fin) = none := by
  obtain ⟨X, e⟩ := star_any_ends_star pre
  have : substrText a ini (pre ++ [] :: post) fin =
      ([0x28] ++ a ++ [0x3D] ++ ldapEscapeOpt ini ++ X) ++
        0x2A :: 0x2A :: (ldapEscapeAny post ++ ldapEscapeOpt fin ++ [0x29]) := by
    have e2 : ldapEscapeAny ([] :: post) = [0x2A] ++ ldapEscapeAny post := by
      simp [ldapEscapeAny, ldapEscape_nil]
    have e3 : [0x28] ++ a ++ [0x3D] ++ ldapEscapeOpt ini ++ [0x2A] ++ ldapEscapeAny pre =
        [0x28] ++ a ++ [0x3D] ++ ldapEscapeOpt ini ++ ([0x2A] ++ ldapEscapeAny pre) := by simp
    unfold substrText
    rw [ldapEscapeAny_append, e2, ← List.append_assoc _ (ldapEscapeAny pre), e3, e]
    simp
  rw [this]
  exact Filter.reject_of_inv (fun _ _ hg => Filter.noAdjacentStars_GLib hg) _ (noAdjacentStars_starstar _ _ _)

/-- the text of an extensible item `attr [":dn"] [":" rule] ":=" value`, keyword spelled `kw` -/
def extText (a : Bytes) (dn : Bool) (kw : Bytes) (rule : Option Bytes) (s : Bytes) : Bytes :=
  [0x28] ++ a ++ (if dn then [0x3A] ++ kw else []) ++
    (match rule with | some r => [0x3A] ++ r | none => []) ++ [0x3A, 0x3D] ++ s ++ [0x29]

theorem ext_G {d : Dialect} {a kw : Bytes} {rule : Option Bytes} {dn : Bool} {v s : Bytes} (ha : IsAttrDesc d a)
    (hk : dn = true → isDnKw d kw = true) (ho : ∀ r, rule = some r → IsOid d r)
    (hn : dn = false → ∀ r, rule = some r → isDnKw d r = false) (hv : Spec.Filter.RVal v s) :
    G d (.ext rule (some a) v dn) (extText a dn kw rule s) := by
  have := Filter.G_of_item (GItem.extAttr ha hk ho hn hv)
  cases dn <;> cases rule <;> simpa [extText, Spec.Filter.optStr] using this

/-! ### the text is UTF-8 and in the RFC 4515 language as written -/

theorem utf8_append_fuel (Y : Bytes) : ∀ (n : Nat) (X : Bytes), X.length ≤ n → utf8Valid X = true →
    utf8Valid (X ++ Y) = utf8Valid Y := by
  intro n
  induction n with
  | zero =>
    intro X hn _
    cases X with
    | nil => rfl
    | cons c X => simp at hn
  | succ n ih =>
    intro X hn hX
    cases X with
    | nil => rfl
    | cons b0 r =>
      simp only [List.length_cons] at hn
      rcases utf8_cases b0 r hX with ⟨h0, hr⟩ | ⟨b1, r1, rfl, hm, hr⟩ | ⟨b1, b2, r2, rfl, hm, hr⟩ |
          ⟨b1, b2, b3, r3, rfl, hm, hr⟩
      · rw [List.cons_append, utf8_cons_ascii _ _ h0]; exact ih r (by omega) hr
      · simp only [List.cons_append, List.length_cons] at hn ⊢
        rw [utf8_mb2 _ _ _ hm]; exact ih r1 (by omega) hr
      · simp only [List.cons_append, List.length_cons] at hn ⊢
        rw [utf8_mb3 _ _ _ _ hm]; exact ih r2 (by omega) hr
      · simp only [List.cons_append, List.length_cons] at hn ⊢
        rw [utf8_mb4 _ _ _ _ _ hm]; exact ih r3 (by omega) hr

theorem utf8_append (X Y : Bytes) (h : utf8Valid X = true) : utf8Valid (X ++ Y) = utf8Valid Y :=
  utf8_append_fuel Y X.length X (Nat.le_refl _) h

set_option maxRecDepth 100000 in
theorem attrOctet_ascii : ∀ y : UInt8, (Filter.isAlnumHyphen y = true ∨ y = 0x2E ∨ y = 0x3B) → y.toNat < 0x80 := by
  apply forall_u8; decide

theorem utf8_ldapEscape (v : Bytes) (h : utf8Valid v = true) : utf8Valid (ldapEscape v) = true := by
  rw [ldapEscape_eq]; exact utf8_escMap ldapNeed ldapNeed_ascii v.length v 0 (Nat.le_refl _) h

theorem valItem_text_utf8 {d : Dialect} (it : ValItem) (ha : IsAttrDesc d it.attr) (v : Bytes)
    (hv : utf8Valid v = true) : utf8Valid (it.text (ldapEscape v)) = true := by
  have hattr : ∀ b ∈ it.attr, b.toNat < 0x80 := fun b hb => attrOctet_ascii b ((Filter.attrDesc_chars ha).2 b hb)
  have hop : ∀ b ∈ it.op, b.toNat < 0x80 := by
    cases it <;> (intro b hb; simp only [ValItem.op, List.mem_cons, List.not_mem_nil, or_false] at hb) <;>
      (rcases hb with rfl | rfl) <;> decide
  have hpre : ∀ b ∈ [0x28] ++ it.attr ++ it.op, b.toNat < 0x80 := by
    intro b hb
    simp only [List.mem_append, List.mem_singleton] at hb
    rcases hb with (rfl | hb) | hb
    · decide
    · exact hattr b hb
    · exact hop b hb
  have e : it.text (ldapEscape v) = ([0x28] ++ it.attr ++ it.op) ++ (ldapEscape v ++ [0x29]) := by
    simp [ValItem.text]
  rw [e, utf8_append_ascii _ _ hpre, utf8_append _ _ (utf8_ldapEscape v hv)]
  decide

end Ldap3V

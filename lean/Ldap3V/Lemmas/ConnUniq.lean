/- Uniqueness of message IDs among the operations the connection still knows about, in every
reachable state.  Used for C05_unique. -/
import Ldap3V.Lemmas.ConnNoWrap
namespace Ldap3V.Conn

/-- operation `i` is outstanding as far as the connection is concerned: its call is between
allocating the ID and queueing the request, the request waits in the driver's queue, or the driver
holds a routing entry for it -/
def Live (s : St) (i : Nat) (o : Op) : Prop :=
  o.phase = .allocated ∨ i ∈ s.opQ ∨ (o.id, i) ∈ s.resultmap ∨ (∃ c, o.chan = some c ∧ (o.id, c) ∈ s.searchmap)

structure Uniq (s : St) : Prop where
  uniq : ∀ (i j : Nat) (oi oj : Op), s.ops[i]? = some oi → s.ops[j]? = some oj → Live s i oi → Live s j oj →
    oi.id = oj.id → i = j
  mapIn : (∀ p ∈ s.resultmap, p.1 ∈ s.inUse) ∧ (∀ p ∈ s.searchmap, p.1 ∈ s.inUse)

theorem Uniq.init (N : Nat) : Uniq (Conn.init N) := by
  refine ⟨?_, ?_, ?_⟩ <;> simp [Conn.init]

/-- existing operations keep ID and channel, and none becomes `allocated` again -/
def Mono (ops ops' : List Op) : Prop :=
  ops'.length = ops.length ∧
  ∀ (j : Nat) (o' : Op), ops'[j]? = some o' → ∃ o : Op, ops[j]? = some o ∧ o'.id = o.id ∧ o'.chan = o.chan ∧
    (o'.phase = .allocated → o.phase = .allocated)

theorem Mono.refl (ops : List Op) : Mono ops ops := ⟨rfl, fun _ o' h => ⟨o', h, rfl, rfl, fun h => h⟩⟩

theorem Mono.trans {a b c : List Op} (h1 : Mono a b) (h2 : Mono b c) : Mono a c := by
  refine ⟨h2.1.trans h1.1, fun j o'' h => ?_⟩
  obtain ⟨o', ho', e1, e2, e3⟩ := h2.2 j o'' h
  obtain ⟨o, ho, f1, f2, f3⟩ := h1.2 j o' ho'
  exact ⟨o, ho, e1.trans f1, e2.trans f2, fun hp => f3 (e3 hp)⟩

theorem mono_modify (ops : List Op) (i : Nat) (g : Op → Op)
    (hg : ∀ o, (g o).id = o.id ∧ (g o).chan = o.chan ∧ ((g o).phase = .allocated → o.phase = .allocated)) :
    Mono ops (modifyOp ops i g) := by
  refine ⟨modifyOp_length ops i g, fun j o' h => ?_⟩
  rw [modifyOp_get] at h
  split at h
  · next hj =>
    subst hj
    cases ho : ops[j]? with
    | none => rw [ho] at h; cases h
    | some o =>
      rw [ho] at h
      simp only [Option.map_some, Option.some.injEq] at h
      subst h
      exact ⟨o, rfl, (hg o).1, (hg o).2.1, (hg o).2.2⟩
  · exact ⟨o', h, rfl, rfl, fun h => h⟩

theorem mono_set (ops : List Op) (i : Nat) (o o' : Op) (ho : ops[i]? = some o)
    (h1 : o'.id = o.id) (h2 : o'.chan = o.chan) (h3 : o'.phase = .allocated → o.phase = .allocated) :
    Mono ops (ops.set i o') := by
  refine ⟨List.length_set, fun j x h => ?_⟩
  rw [get_set _ j ho] at h
  split at h
  · next hj => subst hj; cases h; exact ⟨o, ho, h1, h2, h3⟩
  · exact ⟨x, h, rfl, rfl, fun h => h⟩

theorem mono_dropSender (ops : List Op) (i : Nat) : Mono ops (dropSender ops i) := by
  apply mono_modify
  intro o; split <;> exact ⟨rfl, rfl, fun h => h⟩

theorem mono_dropSenderOpt (ops : List Op) (x : Option Nat) : Mono ops (dropSenderOpt ops x) := by
  cases x with
  | none => exact Mono.refl _
  | some i => exact mono_dropSender ops i

theorem mono_endDriver (s : St) (how : Drv) : Mono s.ops (endDriver s how).ops := by
  refine ⟨by simp [Conn.endDriver], fun j o' h => ?_⟩
  rw [endDriver_get] at h
  cases ho : s.ops[j]? with
  | none => rw [ho] at h; cases h
  | some o =>
    rw [ho] at h
    simp only [Option.map_some, Option.some.injEq] at h
    refine ⟨o, rfl, ?_⟩
    rw [← h]
    split
    · exact ⟨rfl, rfl, fun h => by cases h⟩
    · split <;> exact ⟨rfl, rfl, fun h => h⟩

/-- the generic step: operations only move forward, the queue only gains operations that were
`allocated`, the maps only gain entries for operations that were queued -/
theorem Uniq.of_shrink {s s' : St} (h : Uniq s) (hr : RouteInv s) (hm : Mono s.ops s'.ops)
    (hq : ∀ j ∈ s'.opQ, j ∈ s.opQ ∨ ∃ o, s.ops[j]? = some o ∧ o.phase = .allocated)
    (hrm : ∀ p ∈ s'.resultmap, p ∈ s.resultmap ∨ p.2 ∈ s.opQ)
    (hsm : ∀ p ∈ s'.searchmap, p ∈ s.searchmap ∨ ∃ i ∈ s.opQ, ∃ o, s.ops[i]? = some o ∧ o.chan = some p.2)
    (hin : (∀ p ∈ s'.resultmap, p.1 ∈ s'.inUse) ∧ (∀ p ∈ s'.searchmap, p.1 ∈ s'.inUse)) : Uniq s' := by
  have hlive : ∀ (j : Nat) (o' : Op), s'.ops[j]? = some o' → Live s' j o' →
      ∃ o, s.ops[j]? = some o ∧ o'.id = o.id ∧ Live s j o := by
    intro j o' ho' hl
    obtain ⟨o, ho, e1, e2, e3⟩ := hm.2 j o' ho'
    refine ⟨o, ho, e1, ?_⟩
    rcases hl with l | l | l | ⟨c, l1, l2⟩
    · exact Or.inl (e3 l)
    · rcases hq j l with q | ⟨o2, ho2, q⟩
      · exact Or.inr (Or.inl q)
      · rw [ho] at ho2; cases ho2; exact Or.inl q
    · rcases hrm _ l with q | q
      · exact Or.inr (Or.inr (Or.inl (by rw [← e1]; exact q)))
      · exact Or.inr (Or.inl q)
    · rcases hsm _ l2 with q | ⟨i, hi, oi, hoi, q⟩
      · exact Or.inr (Or.inr (Or.inr ⟨c, by rw [← e2]; exact l1, by rw [← e1]; exact q⟩))
      · -- the operation that owns channel `c` is `j` itself
        obtain ⟨ch1, hc1, hx1⟩ := hr.chanOf i oi c hoi q
        obtain ⟨ch2, hc2, hx2⟩ := hr.chanOf j o c ho (by rw [← e2]; exact l1)
        rw [hc1] at hc2; cases hc2
        rw [← hx2, hx1]
        exact Or.inr (Or.inl hi)
  refine ⟨?_, hin⟩
  intro i j oi' oj' hoi' hoj' li lj hid
  obtain ⟨oi, hoi, ei, li0⟩ := hlive i oi' hoi' li
  obtain ⟨oj, hoj, ej, lj0⟩ := hlive j oj' hoj' lj
  exact h.uniq i j oi oj hoi hoj li0 lj0 (by rw [← ei, ← ej]; exact hid)

end Ldap3V.Conn

/- Uniqueness of message IDs among the operations the connection still knows about, in every
reachable state.  Used for C05_unique. -/
import Ldap3V.Lemmas.ConnNoWrap
namespace Ldap3V.Conn

/-- operation `i` is outstanding as far as the connection is concerned: its call is between
allocating the ID and queueing the request, the request waits in the driver's queue, or the driver
holds a routing entry for it -/
def Live (s : St) (i : Nat) (o : Op) : Prop :=
  o.phase = .allocated ∨ i ∈ s.opQ ∨ (o.id, i) ∈ s.resultmap ∨ (∃ c, o.chan = some c ∧ (o.id, c) ∈ s.searchmap)

structure Uniq (s : St) : Prop where
  uniq : ∀ (i j : Nat) (oi oj : Op), s.ops[i]? = some oi → s.ops[j]? = some oj → Live s i oi → Live s j oj →
    oi.id = oj.id → i = j
  mapIn : (∀ p ∈ s.resultmap, p.1 ∈ s.inUse) ∧ (∀ p ∈ s.searchmap, p.1 ∈ s.inUse)

theorem Uniq.init (N : Nat) : Uniq (Conn.init N) := by
  refine ⟨?_, ?_, ?_⟩ <;> simp [Conn.init]

/-- existing operations keep ID and channel, and none becomes `allocated` again -/
def Mono (ops ops' : List Op) : Prop :=
  ops'.length = ops.length ∧
  ∀ (j : Nat) (o' : Op), ops'[j]? = some o' → ∃ o : Op, ops[j]? = some o ∧ o'.id = o.id ∧ o'.chan = o.chan ∧
    (o'.phase = .allocated → o.phase = .allocated)

theorem Mono.refl (ops : List Op) : Mono ops ops := ⟨rfl, fun _ o' h => ⟨o', h, rfl, rfl, fun h => h⟩⟩

theorem Mono.trans {a b c : List Op} (h1 : Mono a b) (h2 : Mono b c) : Mono a c := by
  refine ⟨h2.1.trans h1.1, fun j o'' h => ?_⟩
  obtain ⟨o', ho', e1, e2, e3⟩ := h2.2 j o'' h
  obtain ⟨o, ho, f1, f2, f3⟩ := h1.2 j o' ho'
  exact ⟨o, ho, e1.trans f1, e2.trans f2, fun hp => f3 (e3 hp)⟩

theorem mono_modify (ops : List Op) (i : Nat) (g : Op → Op)
    (hg : ∀ o, (g o).id = o.id ∧ (g o).chan = o.chan ∧ ((g o).phase = .allocated → o.phase = .allocated)) :
    Mono ops (modifyOp ops i g) := by
  refine ⟨modifyOp_length ops i g, fun j o' h => ?_⟩
  rw [modifyOp_get] at h
  split at h
  · next hj =>
    subst hj
    cases ho : ops[j]? with
    | none => rw [ho] at h; cases h
    | some o =>
      rw [ho] at h
      simp only [Option.map_some, Option.some.injEq] at h
      subst h
      exact ⟨o, rfl, (hg o).1, (hg o).2.1, (hg o).2.2⟩
  · exact ⟨o', h, rfl, rfl, fun h => h⟩

theorem mono_set (ops : List Op) (i : Nat) (o o' : Op) (ho : ops[i]? = some o)
    (h1 : o'.id = o.id) (h2 : o'.chan = o.chan) (h3 : o'.phase = .allocated → o.phase = .allocated) :
    Mono ops (ops.set i o') := by
  refine ⟨List.length_set, fun j x h => ?_⟩
  rw [get_set _ j ho] at h
  split at h
  · next hj => subst hj; cases h; exact ⟨o, ho, h1, h2, h3⟩
  · exact ⟨x, h, rfl, rfl, fun h => h⟩

theorem mono_dropSender (ops : List Op) (i : Nat) : Mono ops (dropSender ops i) := by
  apply mono_modify
  intro o; split <;> exact ⟨rfl, rfl, fun h => h⟩

theorem mono_dropSenderOpt (ops : List Op) (x : Option Nat) : Mono ops (dropSenderOpt ops x) := by
  cases x with
  | none => exact Mono.refl _
  | some i => exact mono_dropSender ops i

theorem mono_endDriver (s : St) (how : Drv) : Mono s.ops (endDriver s how).ops := by
  refine ⟨by simp [Conn.endDriver], fun j o' h => ?_⟩
  rw [endDriver_get] at h
  cases ho : s.ops[j]? with
  | none => rw [ho] at h; cases h
  | some o =>
    rw [ho] at h
    simp only [Option.map_some, Option.some.injEq] at h
    refine ⟨o, rfl, ?_⟩
    rw [← h]
    split
    · exact ⟨rfl, rfl, fun h => by cases h⟩
    · split <;> exact ⟨rfl, rfl, fun h => h⟩

/-- the part of `RouteInv` used here: an operation's channel points back at it -/
def ChanOf (s : St) : Prop := ∀ (i : Nat) (o : Op) (c : Nat), s.ops[i]? = some o → o.chan = some c →
  ∃ ch : Chan, s.chans[c]? = some ch ∧ ch.opIdx = i

/-- the generic step: operations only move forward, the queue only gains operations that were
`allocated`, the maps only gain entries for operations that were queued -/
theorem Uniq.of_shrink {s s' : St} (h : Uniq s) (hr : ChanOf s) (hm : Mono s.ops s'.ops)
    (hq : ∀ j ∈ s'.opQ, j ∈ s.opQ ∨ ∃ o, s.ops[j]? = some o ∧ o.phase = .allocated)
    (hrm : ∀ p ∈ s'.resultmap, p ∈ s.resultmap ∨ p.2 ∈ s.opQ)
    (hsm : ∀ p ∈ s'.searchmap, p ∈ s.searchmap ∨ ∃ i ∈ s.opQ, ∃ o, s.ops[i]? = some o ∧ o.chan = some p.2)
    (hin : (∀ p ∈ s'.resultmap, p.1 ∈ s'.inUse) ∧ (∀ p ∈ s'.searchmap, p.1 ∈ s'.inUse)) : Uniq s' := by
  have hlive : ∀ (j : Nat) (o' : Op), s'.ops[j]? = some o' → Live s' j o' →
      ∃ o, s.ops[j]? = some o ∧ o'.id = o.id ∧ Live s j o := by
    intro j o' ho' hl
    obtain ⟨o, ho, e1, e2, e3⟩ := hm.2 j o' ho'
    refine ⟨o, ho, e1, ?_⟩
    rcases hl with l | l | l | ⟨c, l1, l2⟩
    · exact Or.inl (e3 l)
    · rcases hq j l with q | ⟨o2, ho2, q⟩
      · exact Or.inr (Or.inl q)
      · rw [ho] at ho2; cases ho2; exact Or.inl q
    · rcases hrm _ l with q | q
      · exact Or.inr (Or.inr (Or.inl (by rw [← e1]; exact q)))
      · exact Or.inr (Or.inl q)
    · rcases hsm _ l2 with q | ⟨i, hi, oi, hoi, q⟩
      · exact Or.inr (Or.inr (Or.inr ⟨c, by rw [← e2]; exact l1, by rw [← e1]; exact q⟩))
      · -- the operation that owns channel `c` is `j` itself
        obtain ⟨ch1, hc1, hx1⟩ := hr i oi c hoi q
        obtain ⟨ch2, hc2, hx2⟩ := hr j o c ho (by rw [← e2]; exact l1)
        rw [hc1] at hc2; cases hc2
        rw [← hx2, hx1]
        exact Or.inr (Or.inl hi)
  refine ⟨?_, hin⟩
  intro i j oi' oj' hoi' hoj' li lj hid
  obtain ⟨oi, hoi, ei, li0⟩ := hlive i oi' hoi' li
  obtain ⟨oj, hoj, ej, lj0⟩ := hlive j oj' hoj' lj
  exact h.uniq i j oi oj hoi hoj li0 lj0 (by rw [← ei, ← ej]; exact hid)

theorem Uniq.of_same {s s' : St} (h : Uniq s) (hr : ChanOf s) (hm : Mono s.ops s'.ops) (hq : s'.opQ = s.opQ)
    (hrm : s'.resultmap = s.resultmap) (hsm : s'.searchmap = s.searchmap) (hi : s'.inUse = s.inUse) : Uniq s' := by
  apply h.of_shrink hr hm
  · intro j hj; rw [hq] at hj; exact Or.inl hj
  · intro p hp; rw [hrm] at hp; exact Or.inl hp
  · intro p hp; rw [hsm] at hp; exact Or.inl hp
  · rw [hrm, hsm, hi]; exact h.mapIn

macro "mono_tac" : tactic => `(tactic| first
  | exact Mono.refl _
  | exact mono_set _ _ _ _ (by assumption) (by rfl) (by rfl) (by intro h; first | exact h | cases h))

theorem Uniq.endDriver {s : St} (h : Uniq s) (hr : ChanOf s) (how : Drv) : Uniq (Conn.endDriver s how) := by
  apply h.of_shrink hr (mono_endDriver s how)
  · intro j hj; cases hj
  · intro p hp; cases hp
  · intro p hp; cases hp
  · exact ⟨fun p hp => by simp [Conn.endDriver] at hp, fun p hp => by simp [Conn.endDriver] at hp⟩

theorem Uniq.simple {s s' : St} {ob : Obs} (h : Uniq s) (hr : ChanOf s) (e : Ev)
    (he : (∃ i, e = .poll i) ∨ (∃ c d, e = .recv c d) ∨ (∃ c b, e = .finish c b) ∨ e = .dropHandles ∨ (∃ f, e = .srvSend f) ∨
      e = .srvClose ∨ e = .srvGarbage ∨ (∃ d, e = .tick d) ∨ e = .drvOpClosed ∨ e = .drvMiscClosed)
    (hs : Conn.step s e = some (s', ob)) : Uniq s' := by
  rcases he with ⟨i, rfl⟩ | ⟨c, d, rfl⟩ | ⟨c, b, rfl⟩ | rfl | ⟨f, rfl⟩ | rfl | rfl | ⟨d, rfl⟩ | rfl | rfl
  all_goals
    simp only [Conn.step] at hs
    repeat' (split at hs)
    all_goals first
      | (cases hs; done)
      | (simp only [Option.some.injEq, Prod.mk.injEq] at hs
         obtain ⟨rfl, _⟩ := hs
         first
          | exact h
          | exact h.endDriver hr _
          | exact h.of_same hr (by mono_tac) rfl rfl rfl rfl)

theorem Uniq.enqueue {s s' : St} {ob : Obs} (h : Uniq s) (hr : ChanOf s) (ha : Acct s) (i : Nat) (tmo : Option Nat)
    (hs : Conn.step s (.enqueue i tmo) = some (s', ob)) : Uniq s' := by
  simp only [Conn.step] at hs
  split at hs
  · cases hs
  · next o ho =>
    split at hs
    · cases hs
    · next hph =>
      have hph : o.phase = .allocated := by simpa using hph
      split at hs
      · next hd =>
        simp only [Option.some.injEq, Prod.mk.injEq] at hs
        obtain ⟨rfl, _⟩ := hs
        obtain ⟨d1, d2, d3⟩ := ha.dead hd
        apply h.of_shrink hr (mono_set s.ops i o _ ho (by rfl) (by rfl) (by intro h; cases h))
        · intro j hj; exact Or.inl hj
        · intro p hp; exact Or.inl hp
        · intro p hp; exact Or.inl hp
        · refine ⟨fun p hp => ?_, fun p hp => ?_⟩
          · have : p ∈ s.resultmap := hp
            rw [d1] at this; cases this
          · have : p ∈ s.searchmap := hp
            rw [d2] at this; cases this
      · simp only [Option.some.injEq, Prod.mk.injEq] at hs
        obtain ⟨rfl, _⟩ := hs
        apply h.of_shrink hr (mono_set s.ops i o _ ho (by rfl) (by rfl) (by intro h; cases h))
        · intro j hj
          have : j ∈ s.opQ ++ [i] := hj
          simp only [List.mem_append, List.mem_singleton] at this
          rcases this with q | q
          · exact Or.inl q
          · exact Or.inr ⟨o, by rw [q]; exact ho, hph⟩
        · intro p hp; exact Or.inl hp
        · intro p hp; exact Or.inl hp
        · exact h.mapIn

theorem Uniq.drvScrub {s s' : St} {ob : Obs} (h : Uniq s) (hr : ChanOf s)
    (hs : Conn.step s .drvScrub = some (s', ob)) : Uniq s' := by
  simp only [Conn.step] at hs
  split at hs
  · cases hs
  · split at hs
    · cases hs
    · next k rest hq =>
      simp only [Option.some.injEq, Prod.mk.injEq] at hs
      obtain ⟨rfl, _⟩ := hs
      apply h.of_shrink hr (mono_dropSenderOpt _ _)
      · intro j hj; exact Or.inl hj
      · intro p hp; exact Or.inl (mem_erase hp).1
      · intro p hp; exact Or.inl (mem_erase hp).1
      · refine ⟨fun p hp => ?_, fun p hp => ?_⟩
        · obtain ⟨h1, h2⟩ := mem_erase hp
          exact mem_eraseId.mpr ⟨h.mapIn.1 p h1, h2⟩
        · obtain ⟨h1, h2⟩ := mem_erase hp
          exact mem_eraseId.mpr ⟨h.mapIn.2 p h1, h2⟩

/-- no routing entry carries the ID of a request that still waits in the queue -/
theorem Uniq.head_not_in_maps {s : St} (h : Uniq s) (ha : Acct s) {i : Nat} {rest : List Nat} {o : Op}
    (hq : s.opQ = i :: rest) (ho : s.ops[i]? = some o) :
    (∀ p ∈ s.resultmap, p.1 ≠ o.id) ∧ (∀ p ∈ s.searchmap, p.1 ≠ o.id) := by
  obtain ⟨hoq, _, hni, _, _⟩ := ha.head hq ho
  have hlive : Live s i o := Or.inr (Or.inl (by rw [hq]; simp))
  refine ⟨fun p hp e => ?_, fun p hp e => ?_⟩
  · obtain ⟨o2, ho2, hid2, _⟩ := ha.rmOk p hp
    have : p.2 = i := h.uniq p.2 i o2 o ho2 ho (Or.inr (Or.inr (Or.inl (by rw [hid2]; exact hp)))) hlive (by rw [hid2, e])
    exact hni p hp this
  · obtain ⟨ch, o2, hc, ho2, hid2, hch2, hpt, _⟩ := ha.smOk p hp
    have : ch.opIdx = i := h.uniq ch.opIdx i o2 o ho2 ho
      (Or.inr (Or.inr (Or.inr ⟨p.2, hch2, by rw [hid2]; exact hp⟩))) hlive (by rw [hid2, e])
    rw [this, ho] at ho2; cases ho2
    rw [hoq] at hpt; cases hpt

theorem Uniq.drvOp {s s' : St} {ob : Obs} {sendOk : Bool} (h : Uniq s) (hr : ChanOf s) (ha : Acct s)
    (hs : Conn.step s (.drvOp sendOk) = some (s', ob)) : Uniq s' := by
  simp only [Conn.step] at hs
  split at hs
  · cases hs
  · split at hs
    · cases hs
    · next i rest hq =>
      split at hs
      · cases hs
      · next o ho =>
        obtain ⟨hnr, hns⟩ := h.head_not_in_maps ha hq ho
        have hset : ∀ (k : Kind) (c : Option Nat), c = o.chan →
            Mono s.ops (s.ops.set i { o with phase := .taken, kind := k, chan := c }) :=
          fun k c hc => mono_set s.ops i o _ ho (by rfl) hc (by intro h; cases h)
        have hrest : ∀ j ∈ rest, j ∈ s.opQ ∨ ∃ o, s.ops[j]? = some o ∧ o.phase = .allocated :=
          fun j hj => Or.inl (by rw [hq]; exact List.mem_cons_of_mem _ hj)
        have hi : i ∈ s.opQ := by rw [hq]; simp
        split at hs
        · -- skipped
          simp only [Option.some.injEq, Prod.mk.injEq] at hs
          obtain ⟨rfl, _⟩ := hs
          exact h.of_shrink hr ((hset _ _ rfl).trans (mono_dropSender _ _)) hrest (fun p hp => Or.inl hp) (fun p hp => Or.inl hp) h.mapIn
        · next hnskip =>
          have hidin : o.id ∈ s.inUse := by simpa using hnskip
          split at hs
          · -- send failure
            simp only [Option.some.injEq, Prod.mk.injEq] at hs
            obtain ⟨rfl, _⟩ := hs
            apply h.of_shrink hr (((hset _ _ rfl).trans (mono_dropSender _ _)).trans (mono_endDriver _ _))
            · intro j hj; simp [Conn.endDriver] at hj
            · intro p hp; simp [Conn.endDriver] at hp
            · intro p hp; simp [Conn.endDriver] at hp
            · exact ⟨fun p hp => by simp [Conn.endDriver] at hp, fun p hp => by simp [Conn.endDriver] at hp⟩
          · split at hs
            · cases hs
            · split at hs
              · next hkind =>
                -- single
                simp only [Option.some.injEq, Prod.mk.injEq] at hs
                obtain ⟨rfl, _⟩ := hs
                simp only [hkind]
                apply h.of_shrink hr ((hset _ _ rfl).trans (mono_dropSenderOpt _ _)) hrest
                · intro p hp
                  rcases mem_insert hp with e | ⟨q, _⟩
                  · exact Or.inr (by rw [e]; exact hi)
                  · exact Or.inl q
                · intro p hp; exact Or.inl hp
                · refine ⟨fun p hp => ?_, h.mapIn.2⟩
                  rcases mem_insert hp with e | ⟨q, _⟩
                  · rw [e]; exact hidin
                  · exact h.mapIn.1 p q
              · next hkind =>
                -- search
                simp only [Option.some.injEq, Prod.mk.injEq] at hs
                obtain ⟨rfl, _⟩ := hs
                obtain ⟨c, hchan⟩ : ∃ c, o.chan = some c := by
                  have := (ha.kindChan i o ho).mp hkind
                  cases hc : o.chan with
                  | none => exact absurd hc this
                  | some c => exact ⟨c, rfl⟩
                simp only [hkind, hchan]
                apply h.of_shrink hr ((hset _ _ hchan.symm).trans (mono_modify _ _ (fun o => { o with mail := .ack }) (fun o => ⟨rfl, rfl, fun h => h⟩))) hrest
                · intro p hp; exact Or.inl hp
                · intro p hp
                  rcases mem_insert hp with e | ⟨q, _⟩
                  · exact Or.inr ⟨i, hi, o, ho, by rw [e]; exact hchan⟩
                  · exact Or.inl q
                · refine ⟨h.mapIn.1, fun p hp => ?_⟩
                  rcases mem_insert hp with e | ⟨q, _⟩
                  · rw [e]; exact hidin
                  · exact h.mapIn.2 p q
              · next t hkind =>
                -- abandon
                simp only [Option.some.injEq, Prod.mk.injEq] at hs
                obtain ⟨rfl, _⟩ := hs
                simp only [hkind]
                apply h.of_shrink hr (((hset _ _ rfl).trans (mono_dropSenderOpt _ _)).trans (mono_modify _ _ (fun o => { o with mail := .ack }) (fun o => ⟨rfl, rfl, fun h => h⟩))) hrest
                · intro p hp; exact Or.inl (mem_erase hp).1
                · intro p hp; exact Or.inl (mem_erase hp).1
                · refine ⟨fun p hp => ?_, fun p hp => ?_⟩
                  · obtain ⟨h1, h2⟩ := mem_erase hp
                    exact mem_eraseId.mpr ⟨mem_eraseId.mpr ⟨h.mapIn.1 p h1, fun e => hnr p h1 (by exact_mod_cast e)⟩, h2⟩
                  · obtain ⟨h1, h2⟩ := mem_erase hp
                    exact mem_eraseId.mpr ⟨mem_eraseId.mpr ⟨h.mapIn.2 p h1, fun e => hns p h1 (by exact_mod_cast e)⟩, h2⟩
              · next hkind =>
                -- unbind
                simp only [Option.some.injEq, Prod.mk.injEq] at hs
                obtain ⟨rfl, _⟩ := hs
                simp only [hkind]
                exact h.of_shrink hr ((hset _ _ rfl).trans (mono_modify _ _ (fun o => { o with mail := .ack }) (fun o => ⟨rfl, rfl, fun h => h⟩))) hrest
                  (fun p hp => Or.inl hp) (fun p hp => Or.inl hp) h.mapIn

theorem Uniq.route {s : St} (h : Uniq s) (hr : ChanOf s) (ha : Acct s) (n c : Nat) (f : Frame)
    (hmem : (n, c) ∈ s.searchmap) (hn : (n : Int) = f.id) : Uniq (routeSearch s c f) := by
  -- no single-result entry carries the ID of a registered search
  have hnr : ∀ p ∈ s.resultmap, (p.1 : Int) ≠ f.id := by
    intro p hp e
    obtain ⟨o2, ho2, hid2, _, hm2, _⟩ := ha.rmOk p hp
    obtain ⟨ch, o3, hc, ho3, hid3, hch3, _, hm3, _⟩ := ha.smOk _ hmem
    have hpn : p.1 = n := by rw [← hn] at e; exact_mod_cast e
    have : p.2 = ch.opIdx := h.uniq p.2 ch.opIdx o2 o3 ho2 ho3
      (Or.inr (Or.inr (Or.inl (by rw [hid2]; exact hp))))
      (Or.inr (Or.inr (Or.inr ⟨c, hch3, by rw [hid3]; exact hmem⟩))) (by rw [hid2, hid3]; exact hpn)
    rw [this, ho3] at ho2; cases ho2
    rw [hm3] at hm2; cases hm2
  have key : ∀ (b : Bool) (chans' : List Chan),
      Uniq (if b = true then ({ s with chans := chans', searchmap := erase s.searchmap f.id, inUse := eraseId s.inUse f.id } : St)
        else { s with chans := chans' }) := by
    intro b chans'
    cases b with
    | true =>
      rw [if_pos rfl]
      refine Uniq.of_shrink h hr ?_ ?_ ?_ ?_ ?_
      · exact Mono.refl _
      · intro j hj; exact Or.inl hj
      · intro p hp; exact Or.inl hp
      · intro p hp; exact Or.inl (mem_erase hp).1
      · refine ⟨fun p hp => ?_, fun p hp => ?_⟩
        · exact mem_eraseId.mpr ⟨h.mapIn.1 p hp, hnr p hp⟩
        · obtain ⟨h1, h2⟩ := mem_erase hp
          exact mem_eraseId.mpr ⟨h.mapIn.2 p h1, h2⟩
    | false =>
      rw [if_neg (by simp)]
      refine Uniq.of_shrink h hr ?_ (fun j hj => Or.inl hj) (fun p hp => Or.inl hp) (fun p hp => Or.inl hp) h.mapIn
      exact Mono.refl _
  unfold routeSearch
  by_cases h1 : f.op = 4 ∨ f.op = 25 ∨ f.op = 19
  · simp only [h1, if_true]
    exact key _ _
  · simp only [h1, if_false]
    by_cases h2 : f.op = 5
    · simp only [h2, if_true]
      by_cases h3 : f.good = true
      · simp only [h3, if_true]
        exact key _ _
      · simp only [h3]
        exact h.endDriver hr _
    · simp only [h2, if_false]
      exact h.endDriver hr _

theorem Uniq.drvResp {s s' : St} {ob : Obs} (h : Uniq s) (hr : ChanOf s) (ha : Acct s)
    (hs : Conn.step s .drvResp = some (s', ob)) : Uniq s' := by
  simp only [Conn.step] at hs
  split at hs
  · cases hs
  · split at hs
    · next f hf =>
      have h1 : Uniq ({ s with pos := s.pos + 1 } : St) := h.of_same hr (Mono.refl _) rfl rfl rfl rfl
      split at hs
      · next c hl =>
        simp only [Option.some.injEq, Prod.mk.injEq] at hs
        obtain ⟨n, hmem, hn⟩ := lookup_some hl
        rw [← hs.1]
        have ha1 : Acct ({ s with pos := s.pos + 1 } : St) := ha.congr rfl rfl rfl rfl rfl rfl rfl rfl
        exact h1.route hr ha1 n c f hmem hn
      · next hl =>
        split at hs
        · next i hl2 =>
          simp only [Option.some.injEq, Prod.mk.injEq] at hs
          obtain ⟨rfl, _⟩ := hs
          apply h.of_shrink hr (mono_modify _ _ _ (fun o => by split <;> exact ⟨rfl, rfl, fun h => h⟩))
          · intro j hj; exact Or.inl hj
          · intro p hp; exact Or.inl (mem_erase hp).1
          · intro p hp; exact Or.inl hp
          · refine ⟨fun p hp => ?_, fun p hp => ?_⟩
            · obtain ⟨q1, q2⟩ := mem_erase hp
              exact mem_eraseId.mpr ⟨h.mapIn.1 p q1, q2⟩
            · exact mem_eraseId.mpr ⟨h.mapIn.2 p hp, lookup_none hl p hp⟩
        · simp only [Option.some.injEq, Prod.mk.injEq] at hs
          rw [← hs.1]; exact h1
    · split at hs
      · cases hs
      · simp only [Option.some.injEq, Prod.mk.injEq] at hs
        rw [← hs.1]; exact h.endDriver hr _
      · simp only [Option.some.injEq, Prod.mk.injEq] at hs
        rw [← hs.1]; exact h.endDriver hr _

theorem nextIdAux_notin (N last : Nat) (inUse : List Nat) (k : Nat) : ∀ (fuel cur : Nat),
    nextIdAux N last inUse fuel cur = .ok k → k ∉ inUse := by
  intro fuel
  induction fuel with
  | zero => intro cur h; unfold nextIdAux at h; cases h
  | succ f ih =>
    intro cur h
    unfold nextIdAux at h
    simp only at h
    generalize (if cur = N then 1 else cur + 1) = nxt at h
    by_cases hc : inUse.contains nxt = true
    · rw [if_neg (by simpa using hc)] at h
      split at h
      · cases h
      · exact ih _ h
    · rw [if_pos (by simpa using hc)] at h
      simp only [AllocOut.ok.injEq] at h
      rw [← h]
      simpa using hc

theorem nextId_notin {N last : Nat} {inUse : List Nat} {k : Nat} (h : nextId N last inUse = .ok k) : k ∉ inUse :=
  nextIdAux_notin N last inUse k _ _ h

theorem Uniq.alloc {s s' : St} {ob : Obs} (h : Uniq s) (kind : Kind) (hf : FreshAt2 s (.alloc kind))
    (hs : Conn.step s (.alloc kind) = some (s', ob)) : Uniq s' := by
  simp only [Conn.step] at hs
  cases hn : nextId s.N s.last s.inUse with
  | diverge => rw [hn] at hs; cases hs
  | panic =>
    rw [hn] at hs
    simp only [Option.some.injEq, Prod.mk.injEq] at hs
    rw [← hs.1]; exact h
  | ok k =>
    rw [hn] at hs
    simp only [Option.some.injEq, Prod.mk.injEq] at hs
    obtain ⟨rfl, _⟩ := hs
    have hnotin := nextId_notin hn
    have hfresh := hf kind rfl k hn
    -- an operation of the new state is an old one or the new one
    have hcase : ∀ (nw : Op), nw.id = k → ∀ (j : Nat) (oj : Op), (s.ops ++ [nw])[j]? = some oj →
        s.ops[j]? = some oj ∨ (j = s.ops.length ∧ oj.id = k) := by
      intro nw hnw j oj hj
      by_cases hlt : j < s.ops.length
      · rw [List.getElem?_append_left hlt] at hj; exact Or.inl hj
      · rw [List.getElem?_append_right (by omega)] at hj
        by_cases he : j - s.ops.length = 0
        · rw [he] at hj
          simp only [List.getElem?_cons_zero, Option.some.injEq] at hj
          exact Or.inr ⟨by omega, by rw [← hj]; exact hnw⟩
        · have : (j - s.ops.length) = (j - s.ops.length - 1) + 1 := by omega
          rw [this] at hj; simp at hj
    -- a live old operation does not carry the new ID
    have hold : ∀ (j : Nat) (oj : Op), s.ops[j]? = some oj → Live s j oj → oj.id ≠ k := by
      intro j oj hoj hl e
      rcases hl with l | l | l | ⟨c, _, l⟩
      · exact hfresh j oj hoj (Or.inl l) e
      · exact hfresh j oj hoj (Or.inr l) e
      · exact hnotin (by rw [← e]; exact h.mapIn.1 _ l)
      · exact hnotin (by rw [← e]; exact h.mapIn.2 _ l)
    refine ⟨?_, fun p hp => List.mem_cons_of_mem _ (h.mapIn.1 p hp), fun p hp => List.mem_cons_of_mem _ (h.mapIn.2 p hp)⟩
    intro i j oi oj hoi hoj li lj hid
    rcases hcase _ rfl i oi hoi with hi | ⟨hi, hki⟩ <;> rcases hcase _ rfl j oj hoj with hj | ⟨hj, hkj⟩
    · exact h.uniq i j oi oj hi hj li lj hid
    · exact absurd (by rw [hid, hkj]) (hold i oi hi li)
    · exact absurd (by rw [← hid, hki]) (hold j oj hj lj)
    · rw [hi, hj]

theorem Uniq.step {s s' : St} {ob : Obs} (h : Uniq s) (hr : RouteInv s) (ha : Acct s) (e : Ev) (hf : FreshAt2 s e)
    (hs : Conn.step s e = some (s', ob)) : Uniq s' := by
  cases e with
  | alloc k => exact h.alloc k hf hs
  | enqueue i t => exact h.enqueue hr.chanOf ha i t hs
  | poll i => exact h.simple hr.chanOf _ (Or.inl ⟨i, rfl⟩) hs
  | recv c d => exact h.simple hr.chanOf _ (Or.inr (Or.inl ⟨c, d, rfl⟩)) hs
  | finish c b => exact h.simple hr.chanOf _ (Or.inr (Or.inr (Or.inl ⟨c, b, rfl⟩))) hs
  | dropHandles => exact h.simple hr.chanOf _ (Or.inr (Or.inr (Or.inr (Or.inl rfl)))) hs
  | srvSend f => exact h.simple hr.chanOf _ (Or.inr (Or.inr (Or.inr (Or.inr (Or.inl ⟨f, rfl⟩))))) hs
  | srvClose => exact h.simple hr.chanOf _ (Or.inr (Or.inr (Or.inr (Or.inr (Or.inr (Or.inl rfl)))))) hs
  | srvGarbage => exact h.simple hr.chanOf _ (Or.inr (Or.inr (Or.inr (Or.inr (Or.inr (Or.inr (Or.inl rfl))))))) hs
  | tick d => exact h.simple hr.chanOf _ (Or.inr (Or.inr (Or.inr (Or.inr (Or.inr (Or.inr (Or.inr (Or.inl ⟨d, rfl⟩)))))))) hs
  | drvOpClosed => exact h.simple hr.chanOf _ (Or.inr (Or.inr (Or.inr (Or.inr (Or.inr (Or.inr (Or.inr (Or.inr (Or.inl rfl))))))))) hs
  | drvMiscClosed => exact h.simple hr.chanOf _ (Or.inr (Or.inr (Or.inr (Or.inr (Or.inr (Or.inr (Or.inr (Or.inr (Or.inr rfl))))))))) hs
  | drvScrub => exact h.drvScrub hr.chanOf hs
  | drvOp ok => exact h.drvOp hr.chanOf ha hs
  | drvResp => exact h.drvResp hr.chanOf ha hs

theorem Uniq.run' (evs : List Ev) : ∀ s, Uniq s → Acct s → RouteInv s → FreshRun2 s evs →
    Uniq (Conn.run s evs) ∧ Acct (Conn.run s evs) ∧ RouteInv (Conn.run s evs) := by
  induction evs with
  | nil => intro s h ha hr _; exact ⟨h, ha, hr⟩
  | cons e es ih =>
    intro s h ha hr hf
    have hf : FreshAt2 s e ∧ FreshRun2 (next s e) es := hf
    rw [run_cons]
    cases hst : Conn.step s e with
    | none =>
      have : next s e = s := by simp only [next, hst]
      rw [this] at hf ⊢
      exact ih s h ha hr hf.2
    | some p =>
      obtain ⟨s', ob⟩ := p
      have : next s e = s' := by simp only [next, hst]
      rw [this] at hf ⊢
      exact ih s' (h.step hr ha e hf.1 hst) (ha.step hr e hf.1.weaken hst) (hr.step e hst) hf.2

theorem Uniq.run (N : Nat) (evs : List Ev) (hf : FreshRun2 (Conn.init N) evs) : Uniq (Conn.run (Conn.init N) evs) :=
  (Uniq.run' evs _ (Uniq.init N) (Acct.init N) (RouteInv.init N) hf).1

end Ldap3V.Conn

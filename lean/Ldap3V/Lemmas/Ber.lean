/- Helper lemmas about Model.Ber / Spec.Ber (no property statements here). -/
import Ldap3V.Model.Ber
import Ldap3V.Spec.Ber
namespace Ldap3V
open Spec

theorem toUInt8_toNat (n : Nat) (h : n < 256) : n.toUInt8.toNat = n := by
  simp [Nat.toUInt8, Nat.mod_eq_of_lt h]

/-! ### big-endian digits -/

theorem beVal_foldl (a0 : Nat) (b : Bytes) :
    List.foldl (fun r (x : UInt8) => r * 256 + x.toNat) a0 b = a0 * 256 ^ b.length + beVal b := by
  unfold beVal
  induction b generalizing a0 with
  | nil => simp
  | cons x xs ih =>
    simp only [List.foldl_cons, List.length_cons]
    rw [ih (a0 * 256 + x.toNat), ih (0 * 256 + x.toNat), Nat.pow_succ]
    simp only [Nat.zero_mul, Nat.zero_add]
    rw [Nat.add_mul, Nat.mul_assoc, Nat.mul_comm 256 (256 ^ xs.length)]
    omega

theorem beVal_append (a b : Bytes) : beVal (a ++ b) = beVal a * 256 ^ b.length + beVal b := by
  show List.foldl _ 0 (a ++ b) = _
  rw [List.foldl_append, beVal_foldl]
  rfl

theorem beVal_be256 (n : Nat) : beVal (be256 n) = n := by
  induction n using Nat.strongRecOn with
  | _ n ih =>
    unfold be256
    split
    · next h => simp [beVal, toUInt8_toNat n h]
    · next h =>
      rw [beVal_append, ih (n / 256) (by omega)]
      simp [beVal, toUInt8_toNat (n % 256) (by omega)]
      omega

theorem be256_length_pos (n : Nat) : 1 ≤ (be256 n).length := by
  unfold be256; split <;> simp

theorem be256_length_le (k n : Nat) (h : n < 256 ^ (k + 1)) : (be256 n).length ≤ k + 1 := by
  induction k generalizing n with
  | zero => unfold be256; simp at h; simp [h]
  | succ k ih =>
    unfold be256
    split
    · simp
    · have : n / 256 < 256 ^ (k + 1) := by
        rw [Nat.div_lt_iff_lt_mul (by decide)]; rw [Nat.pow_succ] at h; exact h
      have := ih (n / 256) this
      simp; omega

theorem be256_head_ne_zero (n : Nat) (h : 0 < n) : ∃ d ds, be256 n = d :: ds ∧ d ≠ 0 := by
  induction n using Nat.strongRecOn with
  | _ n ih =>
    unfold be256
    split
    · next hl =>
      refine ⟨n.toUInt8, [], rfl, ?_⟩
      intro h0
      have := congrArg UInt8.toNat h0
      rw [toUInt8_toNat n hl] at this
      simp at this; omega
    · next hl =>
      obtain ⟨d, ds, e, hd⟩ := ih (n / 256) (by omega) (by omega)
      exact ⟨d, ds ++ [(n % 256).toUInt8], by rw [e]; rfl, hd⟩

theorem foldl_mod (M : Nat) (ds : Bytes) (a : Nat) :
    List.foldl (fun r (b : UInt8) => (r * 256 + b.toNat) % M) (a % M) ds
      = List.foldl (fun r (b : UInt8) => r * 256 + b.toNat) a ds % M := by
  induction ds generalizing a with
  | nil => simp
  | cons d ds ih =>
    simp only [List.foldl_cons]
    have e : (a % M * 256 + d.toNat) % M = (a * 256 + d.toNat) % M := by
      rw [Nat.add_mod, Nat.mul_mod, Nat.mod_mod, ← Nat.mul_mod, ← Nat.add_mod]
    rw [e, ih]

theorem parseUint_eq (ds : Bytes) : parseUint ds = beVal ds % 18446744073709551616 := by
  unfold parseUint beVal
  have := foldl_mod 18446744073709551616 ds 0
  simpa using this

theorem parseLen_lenEnc (n : Nat) (l r : Bytes) (h : LenEnc n l) (hn : n < 18446744073709551616) :
    parseLen (l ++ r) = .ok n r := by
  rcases h with ⟨hs, rfl⟩ | ⟨ds, h1, h2, hv, rfl⟩
  · simp [parseLen, toUInt8_toNat n (by omega), hs]
  · have hb : (128 + ds.length).toUInt8.toNat = 128 + ds.length := toUInt8_toNat _ (by omega)
    simp only [parseLen, List.cons_append, hb]
    rw [if_neg (by omega)]
    have hk : 128 + ds.length - 128 = ds.length := by omega
    simp only [hk]
    rw [if_neg (by simp)]
    simp [parseUint_eq, hv, Nat.mod_eq_of_lt hn]

theorem lenEnc_encLen (n : Nat) (hn : n < 18446744073709551616) : LenEnc n (encLen n) := by
  unfold encLen LenEnc
  split
  · next h => exact Or.inl ⟨h, rfl⟩
  · next h =>
    refine Or.inr ⟨be256 n, be256_length_pos n, ?_, beVal_be256 n, ?_⟩
    · have := be256_length_le 7 n (by simpa using hn)
      omega
    · rfl

end Ldap3V

/-
Direct stream (no adapters): the model refines the cursor on the raw view of the first script.
-/
import Ldap3V.Lemmas.StreamSim
namespace Ldap3V.Stream
open Spec

/-- abstraction relation for a direct stream -/
structure RelD (m : M) (c : Cursor) : Prop where
  chain : m.chain = []
  state : m.s.state = c.state
  notFresh : c.state ≠ .fresh
  res : m.s.res = c.final
  acc : c.acc = []
  live : c.state = .active → ∃ l, m.s.rx = some l ∧ (rawView l).steps = c.rest ∧ (rawView l).ending = c.ending

theorem rawView_item (i : Item) (l : List Recv) :
    rawView (.item i :: l) = ⟨⟨[], i⟩ :: (rawView l).steps, (rawView l).ending⟩ := rfl

theorem res_refs_nil (r : Res) : ({ r with refs := r.refs ++ [] } : Res) = r := by
  cases r; simp

theorem RelD.step (r : StartOut) (m : M) (c : Cursor) (k : Call) (h : RelD m c) :
    (step m k).2 = (c.step r k).2 ∧ ((step m k).2.stuck = false → RelD (step m k).1 (c.step r k).1) := by
  obtain ⟨ch, s⟩ := m
  have hch : ch = [] := h.chain
  subst hch
  have hst : s.state = c.state := h.state
  cases k with
  | start q =>
    simp only [Ldap3V.Stream.step, Cursor.step, Cursor.start]
    rw [start_notfresh _ _ _ (by rw [hst]; exact h.notFresh)]
    simp [h.notFresh, h]
  | state =>
    simp only [Ldap3V.Stream.step, Cursor.step]
    exact ⟨by rw [hst], fun _ => h⟩
  | finish =>
    simp only [Ldap3V.Stream.step, Cursor.step, Cursor.finish]
    by_cases hc : c.state = .closed
    · rw [finish_closed _ _ (by rw [hst]; exact hc)]
      simp [hc, h]
    · have hs : s.state ≠ .closed := by rw [hst]; exact hc
      have hres : s.res = c.final := h.res
      simp only [finish, hs, hc, if_false, finishInner, h.acc, hres, res_refs_nil]
      refine ⟨trivial, fun _ => ⟨rfl, rfl, by simp, rfl, rfl, by simp⟩⟩
  | next =>
    simp only [Ldap3V.Stream.step, Cursor.step, Cursor.next, fuelOf_succ]
    by_cases hc : c.state = .active
    · have hs : s.state = .active := by rw [hst]; exact hc
      obtain ⟨l, hrx, hsteps, hend⟩ := h.live hc
      have hrx' : s.rx = some l := hrx
      rw [next_nil _ _ _ hs]
      simp only [hc, ne_eq, not_true_eq_false, if_false]
      cases l with
      | nil =>
        rw [nextInner_nil _ hrx']
        simp only [rawView] at hsteps hend
        simp [← hsteps, ← hend, post, Output.stuck]
      | cons x l' =>
        cases x with
        | item i =>
          rw [nextInner_item _ _ _ hrx']
          rw [rawView_item] at hsteps hend
          simp only at hsteps hend
          simp only [← hsteps, post]
          refine ⟨trivial, fun _ => ⟨rfl, hs, by simp, h.res, by simp [h.acc], fun _ => ⟨l', rfl, rfl, hend⟩⟩⟩
        | done r' =>
          rw [nextInner_done _ _ _ hrx']
          simp only [rawView] at hsteps hend
          simp only [← hsteps, ← hend, post, if_true]
          refine ⟨trivial, fun _ => ⟨rfl, rfl, by simp, rfl, by simp [h.acc], by simp⟩⟩
        | closed =>
          rw [nextInner_closed _ _ hrx']
          simp only [rawView] at hsteps hend
          simp only [← hsteps, ← hend, post]
          refine ⟨trivial, fun _ => ⟨rfl, rfl, by simp, h.res, by simp [h.acc], by simp⟩⟩
        | timeout =>
          rw [nextInner_timeout _ _ hrx']
          simp only [rawView] at hsteps hend
          simp only [← hsteps, ← hend, post]
          refine ⟨trivial, fun _ => ⟨rfl, rfl, by simp, h.res, by simp [h.acc], by simp⟩⟩
    · have hs : s.state ≠ .active := by rw [hst]; exact hc
      rw [next_inactive _ _ _ _ hs]
      simp only [hc, ne_eq, not_false_eq_true, if_true]
      exact ⟨trivial, fun _ => h⟩

theorem direct_start (h : Handle) (pages : List Page) (q : Query) :
    (step (init [] h pages) (.start q)).2 =
        ((Cursor.ofView (view [] pages)).step (startOutcome [] h q pages) (.start q)).2 ∧
      RelD (step (init [] h pages) (.start q)).1
        ((Cursor.ofView (view [] pages)).step (startOutcome [] h q pages) (.start q)).1 := by
  cases hq : q.filterOk with
  | false =>
    simp [Ldap3V.Stream.step, init, start, startInner, hq, errState, Cursor.step, Cursor.start, Cursor.ofView,
      startOutcome]
    exact ⟨rfl, rfl, by simp, rfl, rfl, by simp⟩
  | true =>
    cases pages with
    | nil =>
      simp [Ldap3V.Stream.step, init, start, startInner, hq, errState, Cursor.step, Cursor.start, Cursor.ofView,
        startOutcome, view]
      exact ⟨rfl, rfl, by simp, rfl, rfl, fun _ => ⟨[], rfl, rfl, rfl⟩⟩
    | cons p ps =>
      cases p with
      | script l =>
        simp [Ldap3V.Stream.step, init, start, startInner, hq, errState, Cursor.step, Cursor.start, Cursor.ofView,
          startOutcome, view]
        exact ⟨rfl, rfl, by simp, rfl, rfl, fun _ => ⟨l, rfl, rfl, rfl⟩⟩
      | fail e =>
        simp [Ldap3V.Stream.step, init, start, startInner, hq, errState, Cursor.step, Cursor.start, Cursor.ofView,
          startOutcome, view]
        exact ⟨rfl, rfl, by simp, rfl, rfl, by simp⟩

/-- C10, direct stream: outputs of the model = outputs of the cursor on the view -/
theorem refines_direct (h : Handle) (pages : List Page) (q : Query) (calls : List Call) :
    run (init [] h pages) (.start q :: calls) =
      Cursor.run (startOutcome [] h q pages) (Cursor.ofView (view [] pages)) (.start q :: calls) := by
  obtain ⟨ho, hR⟩ := direct_start h pages q
  exact run_start_of_sim _ RelD (fun m c k hR => RelD.step _ m c k hR) _ _ q calls ho hR

end Ldap3V.Stream

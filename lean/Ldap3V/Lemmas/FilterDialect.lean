/- The grammar is monotone in the dialect: allowing a bare number as oid only adds strings. -/
import Ldap3V.Spec.Filter
namespace Ldap3V.Spec.Filter
open Ldap3V.Spec (Filter)

/-- `d'` accepts at least what `d` accepts: same reading of the `dn` keyword, bare numbers allowed
in `d'` whenever they are in `d` -/
def Dialect.le (d d' : Dialect) : Prop := (d.bareNumber = true → d'.bareNumber = true) ∧ d.dnAnyCase = d'.dnAnyCase

/-- oids and attribute descriptions depend on the `bareNumber` component only -/
theorem isOid_bare {d d' : Dialect} (h : d.bareNumber = true → d'.bareNumber = true) {s : Bytes}
    (hs : IsOid d s) : IsOid d' s := by
  rcases hs with hs | ⟨n0, ns, h0, hall, hb, e⟩
  · exact Or.inl hs
  · exact Or.inr ⟨n0, ns, h0, hall, hb.imp h id, e⟩

theorem isAttrDesc_bare {d d' : Dialect} (h : d.bareNumber = true → d'.bareNumber = true) {s : Bytes}
    (hs : IsAttrDesc d s) : IsAttrDesc d' s := by
  obtain ⟨t, opts, ht, ho, e⟩ := hs
  exact ⟨t, opts, isOid_bare h ht, ho, e⟩

theorem isOid_mono {d d' : Dialect} (h : d.le d') {s : Bytes} (hs : IsOid d s) : IsOid d' s := isOid_bare h.1 hs

theorem isAttrDesc_mono {d d' : Dialect} (h : d.le d') {s : Bytes} (hs : IsAttrDesc d s) : IsAttrDesc d' s :=
  isAttrDesc_bare h.1 hs

theorem isDnKw_mono {d d' : Dialect} (h : d.le d') (k : Bytes) : isDnKw d k = isDnKw d' k := by
  simp [isDnKw, h.2]

theorem gitem_mono {d d' : Dialect} (h : d.le d') {f : Filter} {s : Bytes} (hs : GItem d f s) : GItem d' f s := by
  cases hs with
  | eq ha hv => exact .eq (isAttrDesc_mono h ha) hv
  | ge ha hv => exact .ge (isAttrDesc_mono h ha) hv
  | le ha hv => exact .le (isAttrDesc_mono h ha) hv
  | approx ha hv => exact .approx (isAttrDesc_mono h ha) hv
  | present ha => exact .present (isAttrDesc_mono h ha)
  | substr ha hi hy hf hne => exact .substr (isAttrDesc_mono h ha) hi hy hf hne
  | extAttr ha hk ho hn hv =>
    exact .extAttr (isAttrDesc_mono h ha) (fun e => by rw [← isDnKw_mono h]; exact hk e)
      (fun r e => isOid_mono h (ho r e)) (fun e r er => by rw [← isDnKw_mono h]; exact hn e r er) hv
  | extRule hm hk hv =>
    exact .extRule (isOid_mono h hm) (fun e => by rw [← isDnKw_mono h]; exact hk e) hv

mutual
theorem g_mono {d d' : Dialect} (h : d.le d') : (f : Filter) → ∀ (s : Bytes), G d f s → G d' f s
  | .and fs, s, hs => by
    simp only [G] at hs ⊢
    obtain ⟨b, hb, e⟩ := hs
    exact ⟨b, gl_mono h fs b hb, e⟩
  | .or fs, s, hs => by
    simp only [G] at hs ⊢
    obtain ⟨b, hb, e⟩ := hs
    exact ⟨b, gl_mono h fs b hb, e⟩
  | .not f, s, hs => by
    simp only [G] at hs ⊢
    obtain ⟨b, hb, e⟩ := hs
    exact ⟨b, g_mono h f b hb, e⟩
  | .eq a v, s, hs => by
    simp only [G] at hs ⊢
    obtain ⟨b, hb, e⟩ := hs
    exact ⟨b, gitem_mono h hb, e⟩
  | .ge a v, s, hs => by
    simp only [G] at hs ⊢
    obtain ⟨b, hb, e⟩ := hs
    exact ⟨b, gitem_mono h hb, e⟩
  | .le a v, s, hs => by
    simp only [G] at hs ⊢
    obtain ⟨b, hb, e⟩ := hs
    exact ⟨b, gitem_mono h hb, e⟩
  | .approx a v, s, hs => by
    simp only [G] at hs ⊢
    obtain ⟨b, hb, e⟩ := hs
    exact ⟨b, gitem_mono h hb, e⟩
  | .present a, s, hs => by
    simp only [G] at hs ⊢
    obtain ⟨b, hb, e⟩ := hs
    exact ⟨b, gitem_mono h hb, e⟩
  | .substr a i y z, s, hs => by
    simp only [G] at hs ⊢
    obtain ⟨b, hb, e⟩ := hs
    exact ⟨b, gitem_mono h hb, e⟩
  | .ext r a v n, s, hs => by
    simp only [G] at hs ⊢
    obtain ⟨b, hb, e⟩ := hs
    exact ⟨b, gitem_mono h hb, e⟩
theorem gl_mono {d d' : Dialect} (h : d.le d') : (fs : List Filter) → ∀ (s : Bytes), GL d fs s → GL d' fs s
  | [], s, hs => by simp only [GL] at hs ⊢; exact hs
  | f :: fs, s, hs => by
    simp only [GL] at hs ⊢
    obtain ⟨a, b, ha, hb, e⟩ := hs
    exact ⟨a, b, g_mono h f a ha, gl_mono h fs b hb, e⟩
end

theorem gtop_mono {d d' : Dialect} (h : d.le d') {f : Filter} {s : Bytes} (hs : Gtop d f s) : Gtop d' f s :=
  hs.imp (g_mono h f s) (gitem_mono h)

theorem rfc_le_lib : Dialect.rfc.le Dialect.lib := ⟨fun _ => rfl, rfl⟩

theorem rfc_in_lib {f : Filter} {s : Bytes} (h : GRfc f s) : GLib f s :=
  gtop_mono rfc_le_lib h.1

end Ldap3V.Spec.Filter

/- Freshness of allocated IDs ACROSS any number of wraps of the ID counter (C05; discharge of the
schedule hypotheses `FreshRun` / `FreshRun2` of finding F13 without bounding the number of allocations).

The allocator never hands out a member of `inUse`.  So an ID handed out can coincide with the ID of a
call that is still on its way to the driver (allocated, or queued) only if that call's ID was RELEASED
EARLY, i.e. removed from `inUse` before the driver took the request.  Going through `Conn.step`, an ID
leaves `inUse` in exactly these places:
  * `drvResp` (a response routed through a map entry) and `routeSearch`: the ID of a REGISTERED, hence
    taken, operation — never early (by `Uniq`);
  * `drvOp` of an Abandon: its own ID (it is being taken: not early) and the TARGET's ID — early if the
    target is still allocated/queued, or if the target ID has meanwhile been re-issued to a new call;
  * `drvScrub`: the ID at the head of the scrub queue — early if the operation timed out while it was
    still QUEUED (the scenario of F13), or if the ID has meanwhile been re-issued to a new call;
  * `enqueue` on a dead driver: the call's own ID (the call is over: not early);
  * `endDriver`: the whole table is cleared (fix F22) — early for every call that sits between
    `next_msgid` and `tx.send` at that moment.
`safeAt` is the decidable per-event check that excludes the early cases, `noEarlyRelease` runs it along
a history.  `PendingReserved` is the invariant it maintains: while the driver runs, every call on its
way to the driver has its ID in `inUse`. -/
import Ldap3V.Lemmas.ConnUniq
namespace Ldap3V.Conn

/-- the call of operation `i` is on its way to the driver: between `next_msgid` and `tx.send`, or its
request waits in the op queue (the premise of `FreshAt2`) -/
def Pending (s : St) (i : Nat) (o : Op) : Prop := o.phase = .allocated ∨ i ∈ s.opQ

/-- while the driver runs, the ID of every call on its way to the driver is reserved -/
def PendingReserved (s : St) : Prop :=
  s.drv = .running → ∀ (i : Nat) (o : Op), s.ops[i]? = some o → Pending s i o → o.id ∈ s.inUse

/-- no operation that the driver has not taken yet carries the ID `k` -/
def idFree (s : St) (k : Int) : Bool := s.ops.all fun o => o.phase == .taken || (o.id : Int) != k

/-- the per-event check: this event does not release the ID of a call on its way to the driver, and
no ID is allocated from a table that was cleared under such a call -/
def safeAt (s : St) : Ev → Bool
  | .alloc _ => s.drv == .running || s.ops.all (fun o => o.phase != .allocated)
  | .drvScrub =>
    match s.scrubQ with
    | k :: _ => idFree s k
    | [] => true
  | .drvOp _ =>
    match s.opQ with
    | i :: _ =>
      match s.ops[i]? with
      | some o =>
        match o.kind with
        | .abandon t => idFree s t
        | _ => true
      | none => true
    | [] => true
  | _ => true

/-- `safeAt` holds at every event of the history (decidable: evaluate the model) -/
def noEarlyRelease : St → List Ev → Bool
  | _, [] => true
  | s, e :: es => safeAt s e && noEarlyRelease (next s e) es

theorem idFree_spec {s : St} {k : Int} (h : idFree s k = true) (i : Nat) (o : Op) (ho : s.ops[i]? = some o)
    (hp : o.phase ≠ .taken) : (o.id : Int) ≠ k := by
  unfold idFree at h
  rw [List.all_eq_true] at h
  have := h o (List.mem_of_getElem? ho)
  simp only [Bool.or_eq_true, beq_iff_eq, bne_iff_ne, ne_eq] at this
  rcases this with h1 | h1
  · exact absurd h1 hp
  · exact h1

theorem Pending.not_taken {s : St} (ha : Acct s) {i : Nat} {o : Op} (ho : s.ops[i]? = some o) (hp : Pending s i o) :
    o.phase ≠ .taken := by
  rcases hp with h | h
  · rw [h]; simp
  · obtain ⟨o2, ho2, hq⟩ := ha.qPhase i h
    rw [ho] at ho2; cases ho2
    rw [hq]; simp

theorem Pending.live {s : St} {i : Nat} {o : Op} (hp : Pending s i o) : Live s i o := by
  rcases hp with h | h
  · exact Or.inl h
  · exact Or.inr (Or.inl h)

/-- a call on its way to the driver has no routing entry under its ID -/
theorem Uniq.pending_not_mapped {s : St} (h : Uniq s) (ha : Acct s) {j : Nat} {o : Op} (ho : s.ops[j]? = some o)
    (hp : Pending s j o) : (∀ p ∈ s.resultmap, p.1 ≠ o.id) ∧ (∀ p ∈ s.searchmap, p.1 ≠ o.id) := by
  have hnt := hp.not_taken ha ho
  refine ⟨fun p hm e => ?_, fun p hm e => ?_⟩
  · obtain ⟨o2, ho2, hid2, hpt, _⟩ := ha.rmOk p hm
    have : p.2 = j := h.uniq p.2 j o2 o ho2 ho (Or.inr (Or.inr (Or.inl (by rw [hid2]; exact hm)))) hp.live (by rw [hid2, e])
    rw [this, ho] at ho2; cases ho2
    exact hnt hpt
  · obtain ⟨ch, o2, hc, ho2, hid2, hch2, hpt, _⟩ := ha.smOk p hm
    have : ch.opIdx = j := h.uniq ch.opIdx j o2 o ho2 ho
      (Or.inr (Or.inr (Or.inr ⟨p.2, hch2, by rw [hid2]; exact hm⟩))) hp.live (by rw [hid2, e])
    rw [this, ho] at ho2; cases ho2
    exact hnt hpt

/-- the generic step: operations only move forward, the queue only gains operations that were
`allocated`, and the IDs of the calls that stay on their way stay reserved -/
theorem PendingReserved.of_shrink {s s' : St} (h : PendingReserved s)
    (hm : Mono s.ops s'.ops)
    (hq : ∀ j ∈ s'.opQ, j ∈ s.opQ ∨ ∃ o, s.ops[j]? = some o ∧ o.phase = .allocated)
    (hin : ∀ (j : Nat) (o o' : Op), s.ops[j]? = some o → s'.ops[j]? = some o' → Pending s j o → Pending s' j o' →
      o.id ∈ s.inUse → o.id ∈ s'.inUse) (hd : s'.drv = s.drv) : PendingReserved s' := by
  intro hr j o' ho' hp
  obtain ⟨o, ho, e1, _, e3⟩ := hm.2 j o' ho'
  have hps : Pending s j o := by
    rcases hp with l | l
    · exact Or.inl (e3 l)
    · rcases hq j l with q | ⟨o2, ho2, q⟩
      · exact Or.inr q
      · rw [ho] at ho2; cases ho2; exact Or.inl q
  rw [e1]
  exact hin j o o' ho ho' hps hp (h (by rw [← hd]; exact hr) j o ho hps)

theorem PendingReserved.of_same {s s' : St} (h : PendingReserved s) (hm : Mono s.ops s'.ops) (hq : s'.opQ = s.opQ)
    (hi : s'.inUse = s.inUse) (hd : s'.drv = s.drv) : PendingReserved s' := by
  apply h.of_shrink hm (hd := hd)
  · intro j hj; rw [hq] at hj; exact Or.inl hj
  · intro j o o' _ _ _ _ hmem; rw [hi]; exact hmem

theorem PendingReserved.endDriver (s : St) (how : Drv) (hh : how ≠ .running) : PendingReserved (Conn.endDriver s how) :=
  fun hr => absurd hr hh

theorem PendingReserved.simple {s s' : St} {ob : Obs} (h : PendingReserved s) (e : Ev)
    (he : (∃ i, e = .poll i) ∨ (∃ c d, e = .recv c d) ∨ (∃ c b, e = .finish c b) ∨ e = .dropHandles ∨ (∃ f, e = .srvSend f) ∨
      e = .srvClose ∨ e = .srvGarbage ∨ (∃ d, e = .tick d) ∨ e = .drvOpClosed ∨ e = .drvMiscClosed)
    (hs : Conn.step s e = some (s', ob)) : PendingReserved s' := by
  rcases he with ⟨i, rfl⟩ | ⟨c, d, rfl⟩ | ⟨c, b, rfl⟩ | rfl | ⟨f, rfl⟩ | rfl | rfl | ⟨d, rfl⟩ | rfl | rfl
  all_goals
    simp only [Conn.step] at hs
    repeat' (split at hs)
    all_goals first
      | (cases hs; done)
      | (simp only [Option.some.injEq, Prod.mk.injEq] at hs
         obtain ⟨rfl, _⟩ := hs
         first
          | exact h
          | exact PendingReserved.endDriver _ _ (by decide)
          | exact h.of_same (by mono_tac) rfl rfl rfl)

theorem PendingReserved.enqueue {s s' : St} {ob : Obs} (h : PendingReserved s) (i : Nat) (tmo : Option Nat)
    (hs : Conn.step s (.enqueue i tmo) = some (s', ob)) : PendingReserved s' := by
  simp only [Conn.step] at hs
  split at hs
  · cases hs
  · next o ho =>
    split at hs
    · cases hs
    · next hph =>
      have hph : o.phase = .allocated := by simpa using hph
      split at hs
      · next hd =>
        simp only [Option.some.injEq, Prod.mk.injEq] at hs
        obtain ⟨rfl, _⟩ := hs
        exact fun hr => absurd hr hd
      · simp only [Option.some.injEq, Prod.mk.injEq] at hs
        obtain ⟨rfl, _⟩ := hs
        apply h.of_shrink (mono_set s.ops i o _ ho (by rfl) (by rfl) (by intro h; cases h))
        · intro j hj
          have : j ∈ s.opQ ++ [i] := hj
          simp only [List.mem_append, List.mem_singleton] at this
          rcases this with q | q
          · exact Or.inl q
          · exact Or.inr ⟨o, by rw [q]; exact ho, hph⟩
        · intro j o o' _ _ _ _ hmem; exact hmem
        · rfl

theorem PendingReserved.drvScrub {s s' : St} {ob : Obs} (h : PendingReserved s) (ha : Acct s)
    (hsafe : safeAt s .drvScrub = true) (hs : Conn.step s .drvScrub = some (s', ob)) : PendingReserved s' := by
  simp only [Conn.step] at hs
  split at hs
  · cases hs
  · split at hs
    · cases hs
    · next k rest hq =>
      simp only [Option.some.injEq, Prod.mk.injEq] at hs
      obtain ⟨rfl, _⟩ := hs
      have hfree : idFree s k = true := by simpa [safeAt, hq] using hsafe
      apply h.of_shrink (mono_dropSenderOpt _ _)
      · intro j hj; exact Or.inl hj
      · intro j o o' ho _ hp _ hmem
        exact mem_eraseId.mpr ⟨hmem, idFree_spec hfree j o ho (hp.not_taken ha ho)⟩
      · rfl

/-- after the driver has taken the head `i` of the queue, `i` is not on its way any more -/
theorem pending_after_take {s : St} (ha : Acct s) {i : Nat} {rest : List Nat} {o : Op} (hq : s.opQ = i :: rest)
    (ho : s.ops[i]? = some o) {final : List Op} (hm2 : Mono (s.ops.set i { o with phase := .taken }) final)
    {j : Nat} {o' : Op} (ho' : final[j]? = some o') (hp : o'.phase = .allocated ∨ j ∈ rest) : j ≠ i := by
  intro e
  subst e
  rcases hp with l | l
  · obtain ⟨o1, ho1, _, _, e3⟩ := hm2.2 j o' ho'
    rw [(ha.head hq ho).2.2.2.1] at ho1
    cases ho1
    have := e3 l
    cases this
  · have := ha.qNodup
    rw [hq] at this
    exact (List.nodup_cons.mp this).1 l

theorem PendingReserved.drvOp {s s' : St} {ob : Obs} {sendOk : Bool} (h : PendingReserved s) (hu : Uniq s) (ha : Acct s)
    (hsafe : safeAt s (.drvOp sendOk) = true) (hs : Conn.step s (.drvOp sendOk) = some (s', ob)) : PendingReserved s' := by
  simp only [Conn.step] at hs
  split at hs
  · cases hs
  · split at hs
    · cases hs
    · next i rest hq =>
      split at hs
      · cases hs
      · next o ho =>
        have hset : ∀ (k : Kind) (c : Option Nat), c = o.chan →
            Mono s.ops (s.ops.set i { o with phase := .taken, kind := k, chan := c }) :=
          fun k c hc => mono_set s.ops i o _ ho (by rfl) hc (by intro h; cases h)
        have hrest : ∀ j ∈ rest, j ∈ s.opQ ∨ ∃ o, s.ops[j]? = some o ∧ o.phase = .allocated :=
          fun j hj => Or.inl (by rw [hq]; exact List.mem_cons_of_mem _ hj)
        have hi : i ∈ s.opQ := by rw [hq]; simp
        split at hs
        · -- skipped
          simp only [Option.some.injEq, Prod.mk.injEq] at hs
          obtain ⟨rfl, _⟩ := hs
          exact h.of_shrink ((hset _ _ rfl).trans (mono_dropSender _ _)) hrest (fun _ _ _ _ _ _ _ hmem => hmem) rfl
        · split at hs
          · -- send failure
            simp only [Option.some.injEq, Prod.mk.injEq] at hs
            obtain ⟨rfl, _⟩ := hs
            exact PendingReserved.endDriver _ _ (by decide)
          · split at hs
            · cases hs
            · split at hs
              · next hkind =>
                simp only [Option.some.injEq, Prod.mk.injEq] at hs
                obtain ⟨rfl, _⟩ := hs
                simp only [hkind]
                exact h.of_shrink ((hset _ _ rfl).trans (mono_dropSenderOpt _ _)) hrest (fun _ _ _ _ _ _ _ hmem => hmem) rfl
              · next hkind =>
                simp only [Option.some.injEq, Prod.mk.injEq] at hs
                obtain ⟨rfl, _⟩ := hs
                simp only [hkind]
                exact h.of_shrink ((hset _ _ rfl).trans (mono_modify _ _ (fun o => { o with mail := .ack }) (fun o => ⟨rfl, rfl, fun h => h⟩))) hrest
                  (fun _ _ _ _ _ _ _ hmem => hmem) rfl
              · next t hkind =>
                -- abandon
                simp only [Option.some.injEq, Prod.mk.injEq] at hs
                obtain ⟨rfl, _⟩ := hs
                have hfree : idFree s t = true := by simpa [safeAt, hq, ho, hkind] using hsafe
                have hm2 : Mono (s.ops.set i { o with phase := .taken })
                    (modifyOp (dropSenderOpt (s.ops.set i { o with phase := .taken }) (lookup s.resultmap t)) i fun o => { o with mail := .ack }) :=
                  (mono_dropSenderOpt _ _).trans (mono_modify _ _ (fun o => { o with mail := .ack }) (fun o => ⟨rfl, rfl, fun h => h⟩))
                refine h.of_shrink ((hset _ _ rfl).trans hm2) hrest ?_ rfl
                intro j oj oj' hoj hoj' hp hp' hmem
                have hji : j ≠ i := pending_after_take ha hq ho hm2 hoj' hp'
                have hne : oj.id ≠ o.id := fun e => hji (hu.uniq j i oj o hoj ho hp.live (Or.inr (Or.inl hi)) e)
                exact mem_eraseId.mpr ⟨mem_eraseId.mpr ⟨hmem, by exact_mod_cast hne⟩, idFree_spec hfree j oj hoj (hp.not_taken ha hoj)⟩
              · next hkind =>
                simp only [Option.some.injEq, Prod.mk.injEq] at hs
                obtain ⟨rfl, _⟩ := hs
                simp only [hkind]
                exact h.of_shrink ((hset _ _ rfl).trans (mono_modify _ _ (fun o => { o with mail := .ack }) (fun o => ⟨rfl, rfl, fun h => h⟩))) hrest
                  (fun _ _ _ _ _ _ _ hmem => hmem) rfl

theorem PendingReserved.route {s : St} (h : PendingReserved s) (hu : Uniq s) (ha : Acct s) (n c : Nat) (f : Frame)
    (hmem : (n, c) ∈ s.searchmap) (hn : (n : Int) = f.id) : PendingReserved (routeSearch s c f) := by
  have key : ∀ (b : Bool) (chans' : List Chan),
      PendingReserved (if b = true then ({ s with chans := chans', searchmap := erase s.searchmap f.id, inUse := eraseId s.inUse f.id } : St)
        else { s with chans := chans' }) := by
    intro b chans'
    cases b with
    | true =>
      rw [if_pos rfl]
      refine h.of_shrink (Mono.refl _) (fun j hj => Or.inl hj) ?_ rfl
      intro j o o' ho _ hp _ hm
      refine mem_eraseId.mpr ⟨hm, fun e => ?_⟩
      have := (hu.pending_not_mapped ha ho hp).2 _ hmem
      rw [← hn] at e
      exact this (by exact_mod_cast e.symm)
    | false =>
      rw [if_neg (by simp)]
      exact h.of_shrink (Mono.refl _) (fun j hj => Or.inl hj) (fun _ _ _ _ _ _ _ hm => hm) rfl
  unfold routeSearch
  by_cases h1 : f.op = 4 ∨ f.op = 25 ∨ f.op = 19
  · simp only [h1, if_true]
    exact key _ _
  · simp only [h1, if_false]
    by_cases h2 : f.op = 5
    · simp only [h2, if_true]
      by_cases h3 : f.good = true
      · simp only [h3, if_true]
        exact key _ _
      · simp only [h3]
        exact PendingReserved.endDriver _ _ (by decide)
    · simp only [h2, if_false]
      exact PendingReserved.endDriver _ _ (by decide)

theorem PendingReserved.drvResp {s s' : St} {ob : Obs} (h : PendingReserved s) (hu : Uniq s) (hr : ChanOf s) (ha : Acct s)
    (hs : Conn.step s .drvResp = some (s', ob)) : PendingReserved s' := by
  simp only [Conn.step] at hs
  split at hs
  · cases hs
  · split at hs
    · next f hf =>
      have h1 : PendingReserved ({ s with pos := s.pos + 1 } : St) := h.of_same (Mono.refl _) rfl rfl rfl
      split at hs
      · next c hl =>
        simp only [Option.some.injEq, Prod.mk.injEq] at hs
        obtain ⟨n, hmem, hn⟩ := lookup_some hl
        rw [← hs.1]
        have ha1 : Acct ({ s with pos := s.pos + 1 } : St) := ha.congr rfl rfl rfl rfl rfl rfl rfl rfl
        have hu1 : Uniq ({ s with pos := s.pos + 1 } : St) := hu.of_same hr (Mono.refl _) rfl rfl rfl rfl
        exact h1.route hu1 ha1 n c f hmem hn
      · next hl =>
        split at hs
        · next i hl2 =>
          simp only [Option.some.injEq, Prod.mk.injEq] at hs
          obtain ⟨rfl, _⟩ := hs
          obtain ⟨n, hmem, hn⟩ := lookup_some hl2
          apply h.of_shrink (mono_modify _ _ _ (fun o => by split <;> exact ⟨rfl, rfl, fun h => h⟩))
          · intro j hj; exact Or.inl hj
          · intro j o o' ho _ hp _ hm
            refine mem_eraseId.mpr ⟨hm, fun e => ?_⟩
            have := (hu.pending_not_mapped ha ho hp).1 _ hmem
            rw [← hn] at e
            exact this (by exact_mod_cast e.symm)
          · rfl
        · simp only [Option.some.injEq, Prod.mk.injEq] at hs
          rw [← hs.1]; exact h1
    · split at hs
      · cases hs
      · simp only [Option.some.injEq, Prod.mk.injEq] at hs
        rw [← hs.1]; exact PendingReserved.endDriver _ _ (by decide)
      · simp only [Option.some.injEq, Prod.mk.injEq] at hs
        rw [← hs.1]; exact PendingReserved.endDriver _ _ (by decide)

theorem PendingReserved.alloc {s s' : St} {ob : Obs} (h : PendingReserved s) (kind : Kind)
    (hs : Conn.step s (.alloc kind) = some (s', ob)) : PendingReserved s' := by
  simp only [Conn.step] at hs
  cases hn : nextId s.N s.last s.inUse with
  | diverge => rw [hn] at hs; cases hs
  | panic =>
    rw [hn] at hs
    simp only [Option.some.injEq, Prod.mk.injEq] at hs
    rw [← hs.1]; exact h
  | ok k =>
    rw [hn] at hs
    simp only [Option.some.injEq, Prod.mk.injEq] at hs
    obtain ⟨rfl, _⟩ := hs
    intro hr j oj hoj hp
    have hoj : (s.ops ++ [newOp k kind s.chans.length])[j]? = some oj := hoj
    rw [get_append_one] at hoj
    split at hoj
    · exact List.mem_cons_of_mem _ (h hr j oj hoj hp)
    · split at hoj
      · simp only [Option.some.injEq] at hoj
        rw [← hoj]
        exact List.mem_cons_self
      · cases hoj

theorem PendingReserved.step {s s' : St} {ob : Obs} (h : PendingReserved s) (hu : Uniq s) (hr : RouteInv s) (ha : Acct s) (e : Ev)
    (hsafe : safeAt s e = true) (hs : Conn.step s e = some (s', ob)) : PendingReserved s' := by
  cases e with
  | alloc k => exact h.alloc k hs
  | enqueue i t => exact h.enqueue i t hs
  | poll i => exact h.simple _ (Or.inl ⟨i, rfl⟩) hs
  | recv c d => exact h.simple _ (Or.inr (Or.inl ⟨c, d, rfl⟩)) hs
  | finish c b => exact h.simple _ (Or.inr (Or.inr (Or.inl ⟨c, b, rfl⟩))) hs
  | dropHandles => exact h.simple _ (Or.inr (Or.inr (Or.inr (Or.inl rfl)))) hs
  | srvSend f => exact h.simple _ (Or.inr (Or.inr (Or.inr (Or.inr (Or.inl ⟨f, rfl⟩))))) hs
  | srvClose => exact h.simple _ (Or.inr (Or.inr (Or.inr (Or.inr (Or.inr (Or.inl rfl)))))) hs
  | srvGarbage => exact h.simple _ (Or.inr (Or.inr (Or.inr (Or.inr (Or.inr (Or.inr (Or.inl rfl))))))) hs
  | tick d => exact h.simple _ (Or.inr (Or.inr (Or.inr (Or.inr (Or.inr (Or.inr (Or.inr (Or.inl ⟨d, rfl⟩)))))))) hs
  | drvOpClosed => exact h.simple _ (Or.inr (Or.inr (Or.inr (Or.inr (Or.inr (Or.inr (Or.inr (Or.inr (Or.inl rfl))))))))) hs
  | drvMiscClosed => exact h.simple _ (Or.inr (Or.inr (Or.inr (Or.inr (Or.inr (Or.inr (Or.inr (Or.inr (Or.inr rfl))))))))) hs
  | drvScrub => exact h.drvScrub ha hsafe hs
  | drvOp ok => exact h.drvOp hu ha hsafe hs
  | drvResp => exact h.drvResp hu hr.chanOf ha hs

/-- (ii) the allocator never hands out a reserved ID, so under `PendingReserved` the ID handed out is
not the ID of a call on its way to the driver -/
theorem PendingReserved.freshAt2 {s : St} (h : PendingReserved s) (ha : Acct s) (e : Ev) (hsafe : safeAt s e = true) :
    FreshAt2 s e := by
  intro kind he k hk i o ho hp hid
  subst he
  by_cases hr : s.drv = .running
  · exact nextId_notin hk (by rw [← hid]; exact h hr i o ho hp)
  · simp only [safeAt, Bool.or_eq_true, beq_iff_eq, List.all_eq_true, bne_iff_ne, ne_eq] at hsafe
    rcases hsafe with h1 | h1
    · exact hr h1
    · rcases hp with l | l
      · exact h1 o (List.mem_of_getElem? ho) l
      · rw [(ha.dead hr).2.2] at l; cases l

theorem PendingReserved.init (N : Nat) : PendingReserved (Conn.init N) := by
  intro _ i o ho
  simp [Conn.init] at ho

/-- (i)+(ii) along a history -/
theorem freshRun2_of_noEarlyRelease (evs : List Ev) : ∀ s, Uniq s → Acct s → RouteInv s → PendingReserved s →
    noEarlyRelease s evs = true → FreshRun2 s evs ∧ PendingReserved (Conn.run s evs) := by
  induction evs with
  | nil => intro s _ _ _ hp _; exact ⟨trivial, hp⟩
  | cons e es ih =>
    intro s hu ha hr hp hn
    simp only [noEarlyRelease, Bool.and_eq_true] at hn
    have hf : FreshAt2 s e := hp.freshAt2 ha e hn.1
    rw [run_cons]
    show (FreshAt2 s e ∧ FreshRun2 (next s e) es) ∧ _
    cases hst : Conn.step s e with
    | none =>
      have : next s e = s := by simp only [next, hst]
      rw [this] at hn ⊢
      obtain ⟨r1, r2⟩ := ih s hu ha hr hp hn.2
      exact ⟨⟨hf, r1⟩, r2⟩
    | some p =>
      obtain ⟨s', ob⟩ := p
      have : next s e = s' := by simp only [next, hst]
      rw [this] at hn ⊢
      obtain ⟨r1, r2⟩ := ih s' (hu.step hr ha e hf hst) (ha.step hr e hf.weaken hst) (hr.step e hst)
        (hp.step hu hr ha e hn.1 hst) hn.2
      exact ⟨⟨hf, r1⟩, r2⟩

/-- every history without an early release satisfies both freshness hypotheses — however often the
ID counter wraps -/
theorem freshRun2_wraps (N : Nat) (evs : List Ev) (h : noEarlyRelease (Conn.init N) evs = true) : FreshRun2 (Conn.init N) evs :=
  (freshRun2_of_noEarlyRelease evs _ (Uniq.init N) (Acct.init N) (RouteInv.init N) (PendingReserved.init N) h).1

theorem freshRun_wraps (N : Nat) (evs : List Ev) (h : noEarlyRelease (Conn.init N) evs = true) : FreshRun (Conn.init N) evs :=
  FreshRun2.weaken evs _ (freshRun2_wraps N evs h)

theorem pendingReserved_run (N : Nat) (evs : List Ev) (h : noEarlyRelease (Conn.init N) evs = true) :
    PendingReserved (Conn.run (Conn.init N) evs) :=
  (freshRun2_of_noEarlyRelease evs _ (Uniq.init N) (Acct.init N) (RouteInv.init N) (PendingReserved.init N) h).2

end Ldap3V.Conn

/- A purely syntactic class of histories without early releases (C05 across wraps): no `op_call`
time-out, no Abandon, no stream time-out, no early `finish` — so the scrub queue stays empty — and the
driver is still running at the end.  Any number of allocations, any number of wraps. -/
import Ldap3V.Lemmas.ConnWrap
namespace Ldap3V.Conn

/-- the syntactic condition on one event -/
def calmEv : Ev → Bool
  | .enqueue _ (some _) => false       -- `op_call` with a time-out
  | .alloc (.abandon _) => false       -- an Abandon request
  | .recv _ (some _) => false          -- `next()` with a time-out
  | .finish _ true => false            -- `finish()` of a stream that is not Done (sends a scrub)
  | _ => true

def calm (evs : List Ev) : Bool := evs.all calmEv

/-! ### the driver never comes back -/

/-- case analysis of `routeSearch`: the connection ends, or the channel list changes and the entry is
possibly removed -/
theorem routeSearch_cases (P : St → Prop) (s : St) (c : Nat) (f : Frame) (hend : P (endDriver s .endedErr))
    (hkey : ∀ (b : Bool) (chans' : List Chan),
      P (if b = true then ({ s with chans := chans', searchmap := erase s.searchmap f.id, inUse := eraseId s.inUse f.id } : St)
        else { s with chans := chans' })) : P (routeSearch s c f) := by
  unfold routeSearch
  by_cases h1 : f.op = 4 ∨ f.op = 25 ∨ f.op = 19
  · simp only [h1, if_true]
    exact hkey _ _
  · simp only [h1, if_false]
    by_cases h2 : f.op = 5
    · simp only [h2, if_true]
      by_cases h3 : f.good = true
      · simp only [h3, if_true]
        exact hkey _ _
      · simp only [h3]
        exact hend
    · simp only [h2, if_false]
      exact hend

theorem routeSearch_drv (s : St) (c : Nat) (f : Frame) (h : (routeSearch s c f).drv = .running) : s.drv = .running := by
  revert h
  apply routeSearch_cases (fun r => r.drv = .running → s.drv = .running)
  · intro h; cases h
  · intro b chans' h
    cases b <;> exact h

theorem routeSearch_scrubQ (s : St) (c : Nat) (f : Frame) : (routeSearch s c f).scrubQ = s.scrubQ := by
  apply routeSearch_cases (fun r => r.scrubQ = s.scrubQ)
  · rfl
  · intro b chans'
    cases b <;> rfl

theorem step_drv {s s' : St} {ob : Obs} (e : Ev) (hs : Conn.step s e = some (s', ob)) (h : s'.drv = .running) :
    s.drv = .running := by
  cases e
  all_goals
    simp only [Conn.step] at hs
    repeat' (split at hs)
    all_goals first
      | (cases hs; done)
      | (simp only [Option.some.injEq, Prod.mk.injEq] at hs
         obtain ⟨rfl, _⟩ := hs
         first
          | exact h
          | (have h2 := routeSearch_drv _ _ _ h; exact h2)
          | (cases h; done))

theorem next_drv (s : St) (e : Ev) (h : (next s e).drv = .running) : s.drv = .running := by
  unfold next at h
  cases hst : Conn.step s e with
  | none => rw [hst] at h; exact h
  | some p =>
    obtain ⟨s', ob⟩ := p
    rw [hst] at h
    exact step_drv e hst h

theorem run_drv (evs : List Ev) : ∀ s, (Conn.run s evs).drv = .running → s.drv = .running := by
  induction evs with
  | nil => intro s h; exact h
  | cons e es ih => intro s h; rw [run_cons] at h; exact next_drv s e (ih _ h)

/-! ### kinds and deadlines -/

def kd (ops : List Op) : List (Kind × Option Nat) := ops.map fun o => (o.kind, o.deadline)

theorem kd_set {ops : List Op} {i : Nat} {o o' : Op} (h : ops[i]? = some o) (e1 : o'.kind = o.kind) (e2 : o'.deadline = o.deadline) :
    kd (ops.set i o') = kd ops := by
  unfold kd
  apply List.ext_getElem?
  intro j
  simp only [List.getElem?_map, List.getElem?_set]
  split
  · next hj =>
    subst hj
    have hlt : i < ops.length := (List.getElem?_eq_some_iff.mp h).1
    have hg : ops[i] = o := (List.getElem?_eq_some_iff.mp h).2
    simp [hlt, e1, e2, hg]
  · rfl

theorem kd_modifyOp {ops : List Op} {i : Nat} {f : Op → Op} (hf : ∀ o, (f o).kind = o.kind ∧ (f o).deadline = o.deadline) :
    kd (modifyOp ops i f) = kd ops := by
  unfold modifyOp
  split
  · next o ho => exact kd_set ho (hf o).1 (hf o).2
  · rfl

theorem kd_dropSender (ops : List Op) (i : Nat) : kd (dropSender ops i) = kd ops := by
  unfold dropSender
  apply kd_modifyOp
  intro o; split <;> exact ⟨rfl, rfl⟩

theorem kd_dropSenderOpt (ops : List Op) (x : Option Nat) : kd (dropSenderOpt ops x) = kd ops := by
  cases x with
  | none => rfl
  | some i => exact kd_dropSender ops i

theorem kd_endDriver (s : St) (how : Drv) : kd (endDriver s how).ops = kd s.ops := by
  unfold kd
  apply List.ext_getElem?
  intro j
  simp only [List.getElem?_map, endDriver_get]
  cases s.ops[j]? with
  | none => rfl
  | some o =>
    simp only [Option.map_some]
    split
    · rfl
    · split <;> rfl

theorem kd_deliver (ops : List Op) (i : Nat) (f : Frame) :
    kd (modifyOp ops i fun o => if o.mail = .empty then { o with mail := .frame f } else o) = kd ops :=
  kd_modifyOp (by intro o; split <;> exact ⟨rfl, rfl⟩)

theorem routeSearch_kd (s : St) (c : Nat) (f : Frame) : kd (routeSearch s c f).ops = kd s.ops := by
  apply routeSearch_cases (fun r => kd r.ops = kd s.ops)
  · exact kd_endDriver _ _
  · intro b chans'
    cases b <;> rfl

theorem endDriver_scrubQ (s : St) (how : Drv) : (endDriver s how).scrubQ = s.scrubQ := rfl

/-- the invariant of calm histories: nothing waits to be scrubbed, no operation has a deadline, none is an Abandon -/
def CalmSt (s : St) : Prop :=
  s.scrubQ = [] ∧ ∀ p ∈ kd s.ops, p.2 = none ∧ ∀ t, p.1 ≠ .abandon t

theorem CalmSt.op {s : St} (h : CalmSt s) {i : Nat} {o : Op} (ho : s.ops[i]? = some o) : o.deadline = none ∧ ∀ t, o.kind ≠ .abandon t :=
  h.2 (o.kind, o.deadline) (List.mem_map.mpr ⟨o, List.mem_of_getElem? ho, rfl⟩)

theorem CalmSt.init (N : Nat) : CalmSt (Conn.init N) := ⟨rfl, fun p hp => by simp [Conn.init, kd] at hp⟩

/-- events that change neither kinds nor deadlines, and add no scrub -/
theorem step_calm_other {s s' : St} {ob : Obs} (e : Ev) (hs : Conn.step s e = some (s', ob))
    (he : e = .dropHandles ∨ e = .drvScrub ∨ (∃ b, e = .drvOp b) ∨ e = .drvOpClosed ∨ e = .drvMiscClosed ∨ e = .drvResp ∨
      (∃ f, e = .srvSend f) ∨ e = .srvClose ∨ e = .srvGarbage ∨ (∃ d, e = .tick d) ∨ (∃ c, e = .recv c none) ∨ (∃ c, e = .finish c false))
    (hq : s.scrubQ = []) : kd s'.ops = kd s.ops ∧ s'.scrubQ = [] := by
  rcases he with rfl | rfl | ⟨b, rfl⟩ | rfl | rfl | rfl | ⟨f, rfl⟩ | rfl | rfl | ⟨d, rfl⟩ | ⟨c, rfl⟩ | ⟨c, rfl⟩
  all_goals
    simp only [Conn.step] at hs
    repeat' (split at hs)
    all_goals first
      | (cases hs; done)
      | (simp only [Option.some.injEq, Prod.mk.injEq] at hs
         obtain ⟨rfl, _⟩ := hs
         exact ⟨routeSearch_kd _ _ _, by rw [routeSearch_scrubQ]; exact hq⟩)
      | (simp only [Option.some.injEq, Prod.mk.injEq] at hs
         obtain ⟨rfl, _⟩ := hs
         simp_all [kd_set, kd_modifyOp, kd_deliver, kd_dropSender, kd_dropSenderOpt, kd_endDriver, endDriver_scrubQ])

theorem CalmSt.step {s s' : St} {ob : Obs} (h : CalmSt s) (e : Ev) (hc : calmEv e = true) (hs : Conn.step s e = some (s', ob)) :
    CalmSt s' := by
  have other : (kd s'.ops = kd s.ops ∧ s'.scrubQ = []) → CalmSt s' := fun ⟨h1, h2⟩ => ⟨h2, by rw [h1]; exact h.2⟩
  cases e with
  | alloc kind =>
    simp only [Conn.step] at hs
    cases hn : nextId s.N s.last s.inUse with
    | diverge => rw [hn] at hs; cases hs
    | panic =>
      rw [hn] at hs
      simp only [Option.some.injEq, Prod.mk.injEq] at hs
      rw [← hs.1]; exact h
    | ok k =>
      rw [hn] at hs
      simp only [Option.some.injEq, Prod.mk.injEq] at hs
      obtain ⟨rfl, _⟩ := hs
      refine ⟨h.1, fun p hp => ?_⟩
      simp only [kd, List.map_append, List.map_cons, List.map_nil, List.mem_append, List.mem_singleton] at hp
      rcases hp with hp | rfl
      · exact h.2 p hp
      · refine ⟨rfl, fun t e => ?_⟩
        simp only at e
        subst e
        simp [calmEv] at hc
  | enqueue i tmo =>
    cases tmo with
    | some d => simp [calmEv] at hc
    | none =>
      simp only [Conn.step] at hs
      split at hs
      · cases hs
      · next o ho =>
        have hd := (h.op ho).1
        split at hs
        · cases hs
        · split at hs
          all_goals
            simp only [Option.some.injEq, Prod.mk.injEq] at hs
            obtain ⟨rfl, _⟩ := hs
            refine other ⟨kd_set ho rfl ?_, h.1⟩
            simp [hd]
  | poll i =>
    simp only [Conn.step] at hs
    split at hs
    · cases hs
    · next o ho =>
      have hd := (h.op ho).1
      repeat' (split at hs)
      all_goals first
        | (cases hs; done)
        | (simp only [Option.some.injEq, Prod.mk.injEq] at hs
           obtain ⟨rfl, _⟩ := hs
           first
            | exact h
            | exact other ⟨kd_set ho rfl rfl, h.1⟩
            | (simp_all; done))
  | recv c d =>
    cases d with
    | some d => simp [calmEv] at hc
    | none => exact other (step_calm_other _ hs (by simp) h.1)
  | finish c b =>
    cases b with
    | true => simp [calmEv] at hc
    | false => exact other (step_calm_other _ hs (by simp) h.1)
  | dropHandles => exact other (step_calm_other _ hs (by simp) h.1)
  | drvScrub => exact other (step_calm_other _ hs (by simp) h.1)
  | drvOp b => exact other (step_calm_other _ hs (by simp) h.1)
  | drvOpClosed => exact other (step_calm_other _ hs (by simp) h.1)
  | drvMiscClosed => exact other (step_calm_other _ hs (by simp) h.1)
  | drvResp => exact other (step_calm_other _ hs (by simp) h.1)
  | srvSend f => exact other (step_calm_other _ hs (by simp) h.1)
  | srvClose => exact other (step_calm_other _ hs (by simp) h.1)
  | srvGarbage => exact other (step_calm_other _ hs (by simp) h.1)
  | tick d => exact other (step_calm_other _ hs (by simp) h.1)

theorem CalmSt.safeAt {s : St} (h : CalmSt s) (e : Ev) (hr : s.drv = .running) : safeAt s e = true := by
  cases e with
  | alloc k => simp [Conn.safeAt, hr]
  | drvScrub => simp [Conn.safeAt, h.1]
  | drvOp b =>
    simp only [Conn.safeAt]
    split
    · split
      · next o ho =>
        have := (h.op ho).2
        split
        · next t hk => exact absurd hk (this t)
        · rfl
      · rfl
    · rfl
  | _ => rfl

theorem noEarlyRelease_of_calm (evs : List Ev) : ∀ s, CalmSt s → calm evs = true → (Conn.run s evs).drv = .running →
    noEarlyRelease s evs = true := by
  induction evs with
  | nil => intro s _ _ _; rfl
  | cons e es ih =>
    intro s h hc hr
    simp only [calm, List.all_cons, Bool.and_eq_true] at hc
    rw [run_cons] at hr
    have hr0 : s.drv = .running := next_drv s e (run_drv es _ hr)
    simp only [noEarlyRelease, Bool.and_eq_true]
    refine ⟨h.safeAt e hr0, ?_⟩
    cases hst : Conn.step s e with
    | none =>
      have : next s e = s := by simp only [next, hst]
      rw [this] at hr ⊢
      exact ih s h hc.2 hr
    | some p =>
      obtain ⟨s', ob⟩ := p
      have : next s e = s' := by simp only [next, hst]
      rw [this] at hr ⊢
      exact ih s' (h.step e hc.1 hst) hc.2 hr

/-- every calm history after which the driver still runs is free of early releases -/
theorem noEarlyRelease_calm (N : Nat) (evs : List Ev) (hc : calm evs = true) (hr : (Conn.run (Conn.init N) evs).drv = .running) :
    noEarlyRelease (Conn.init N) evs = true :=
  noEarlyRelease_of_calm evs _ (CalmSt.init N) hc hr

end Ldap3V.Conn

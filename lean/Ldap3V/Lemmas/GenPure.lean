/-
The functions regenerated from /repo's source by translate/pure_fns.py (`Gen/PureFns.lean`) are,
on every input, the hand-written model functions the property theorems are about.  Every proof here
is an exhaustive kernel evaluation over a finite domain (all 256 bytes; all states × all bytes), so it
does not depend on the *shape* of the generated term: a behaviour-preserving rewrite of the Rust
function regenerates a different term with the same values and the proofs still close, while a change
of behaviour on any input makes `decide` fail.  `none` on the generated side is the overflow panic of
checked `u8` arithmetic: the theorems show it does not occur on the stated domain.
-/
import Ldap3V.Gen.PureFns
import Ldap3V.Model.Escape
import Ldap3V.Model.Filter
import Ldap3V.Model.Result
import Ldap3V.Lemmas.Escape
namespace Ldap3V
open Gen

set_option maxRecDepth 100000 in
theorem gen_needs_escape (c : UInt8) : ldap_escape_needs_escape c = some (needsEscape c) := by
  revert c; apply forall_u8; decide

set_option maxRecDepth 100000 in
theorem gen_always_escape (c : UInt8) : dn_escape_always_escape c = some (alwaysEscape c) := by
  revert c; apply forall_u8; decide

set_option maxRecDepth 100000 in
theorem gen_escape_leading (c : UInt8) : dn_escape_escape_leading c = some (escapeLeading c) := by
  revert c; apply forall_u8; decide

set_option maxRecDepth 100000 in
theorem gen_escape_trailing (c : UInt8) : dn_escape_escape_trailing c = some (escapeTrailing c) := by
  revert c; apply forall_u8; decide

set_option maxRecDepth 100000 in
/-- `xdigit` is only ever called with `x >> 4` or `x & 0xF` -/
theorem gen_ldap_xdigit (c : UInt8) : c < 16 → ldap_escape_xdigit c = some (xdigit c) := by
  revert c; apply forall_u8; decide

set_option maxRecDepth 100000 in
theorem gen_dn_xdigit (c : UInt8) : c < 16 → dn_escape_xdigit c = some (xdigit c) := by
  revert c; apply forall_u8; decide

set_option maxRecDepth 100000 in
/-- and the call sites do pass nibbles -/
theorem nibbles_lt (x : UInt8) : x >>> 4 < 16 ∧ x &&& 0xF < 16 := by
  revert x; apply forall_u8; decide

set_option maxRecDepth 100000 in
theorem gen_is_value_char (c : UInt8) : filter_is_value_char c = some (Filter.isValueChar c) := by
  revert c; apply forall_u8; decide

set_option maxRecDepth 100000 in
theorem gen_is_alnum_hyphen (c : UInt8) : filter_is_alnum_hyphen c = some (Filter.isAlnumHyphen c) := by
  revert c; apply forall_u8; decide

/-- the generated `enum Unescaper` and the model's -/
def unescOfRust : Rust.Unescaper → Unescaper
  | .WantFirst => .wantFirst
  | .WantSecond p => .wantSecond p
  | .Value v => .value v
  | .Error => .error

set_option maxRecDepth 100000 in
theorem gen_feed_error (c : UInt8) : (unescaper_feed .Error c).map unescOfRust = some (Unescaper.error.feed c) := by
  revert c; apply forall_u8; decide
set_option maxRecDepth 100000 in
theorem gen_feed_wantFirst (c : UInt8) : (unescaper_feed .WantFirst c).map unescOfRust = some (Unescaper.wantFirst.feed c) := by
  revert c; apply forall_u8; decide
/-! ### result-code helpers (src/result.rs): all result codes, not a table -/

def resU : Except Unit Unit → Rust.Res
  | .ok () => .ok none
  | .error () => .err
def resB : Except Unit Bool → Rust.Res
  | .ok b => .ok (some b)
  | .error () => .err

theorem gen_ldapResult_success (rc : Nat) : ldapResult_success rc = some (resU (success rc)) := by
  by_cases h : rc = 0 <;> simp [ldapResult_success, success, resU, h]
theorem gen_ldapResult_non_error (rc : Nat) : ldapResult_non_error rc = some (resU (nonError rc)) := by
  by_cases h : rc = 0 <;> by_cases h' : rc = 10 <;> simp [ldapResult_non_error, nonError, resU, h, h']
theorem gen_searchResult_success (rc : Nat) : searchResult_success rc = some (resU (searchSuccess rc)) := by
  by_cases h : rc = 0 <;> simp [searchResult_success, searchSuccess, resU, h]
theorem gen_searchResult_non_error (rc : Nat) : searchResult_non_error rc = some (resU (searchNonError rc)) := by
  by_cases h : rc = 0 <;> by_cases h' : rc = 10 <;> simp [searchResult_non_error, searchNonError, resU, h, h']
theorem gen_exopResult_success (rc : Nat) : exopResult_success rc = some (resU (exopSuccess rc)) := by
  by_cases h : rc = 0 <;> simp [exopResult_success, exopSuccess, resU, h]
theorem gen_exopResult_non_error (rc : Nat) : exopResult_non_error rc = some (resU (exopNonError rc)) := by
  by_cases h : rc = 0 <;> by_cases h' : rc = 10 <;> simp [exopResult_non_error, exopNonError, resU, h, h']
theorem gen_compareResult_non_error (rc : Nat) : compareResult_non_error rc = some (resU (cmpNonError rc)) := by
  by_cases h : rc = 5 <;> by_cases h' : rc = 6 <;> by_cases h'' : rc = 10 <;>
    simp [compareResult_non_error, cmpNonError, resU, h, h', h'']
theorem gen_compareResult_equal (rc : Nat) : compareResult_equal rc = some (resB (equal rc)) := by
  by_cases h : rc = 5
  · subst h; rfl
  · by_cases h' : rc = 6
    · subst h'; rfl
    · have : equal rc = .error () := by unfold equal; split <;> simp_all
      simp [compareResult_equal, this, resB, h, h']

/-! ### `ResultEntry::is_ref` / `is_intermediate` (src/search.rs): the tag numbers behind `Stream.Kind` -/

theorem gen_is_ref (id : Nat) : resultEntry_is_ref id = some (id == 19) := by simp [resultEntry_is_ref]
theorem gen_is_intermediate (id : Nat) : resultEntry_is_intermediate id = some (id == 25) := by simp [resultEntry_is_intermediate]

end Ldap3V

/- Two facts about whole trees that `Enc t (encode t)` alone does not give:
* `MinEnc`: the writer's output carries, at EVERY node, exactly the minimal length octets `encLen n`
  (`Spec.Enc` allows any definite form); `MinEnc` determines the bytes;
* trees nested deeper than the parser's `maxDepth` are written (they have an encoding in `Spec.Enc`)
  but the parser answers `error` on every encoding of them. -/
import Ldap3V.Lemmas.BerParse
import Ldap3V.Lemmas.BerDepth
namespace Ldap3V
open Spec

/-! ## trees deeper than the parser's limit -/

mutual
theorem pTag_too_deep : (t : Tlv) → ∀ (bs : Bytes) (fuel depth : Nat) (rest : Bytes),
    Enc t bs → bs.length < 18446744073709551616 → bs.length ≤ fuel → depth ≤ maxDepth →
    maxDepth < depth + t.depth → pTag fuel depth (bs ++ rest) = .error
  | .prim c i v, bs, fuel, depth, rest, _, _, _, hd, hdeep => by
    simp [Tlv.depth] at hdeep; omega
  | .cons c i ks, bs, fuel, depth, rest, h, hsz, hf, hd, hdeep => by
    obtain ⟨hc, hi, l, body, hb, hl, rfl⟩ := h
    obtain ⟨f, rfl⟩ : ∃ f, fuel = f + 1 := ⟨fuel - 1, by simp at hf; omega⟩
    obtain ⟨h1, h2, h3⟩ := hdr_cons c i hc hi
    have hlp := lenEnc_length_pos _ _ hl
    have hlen : parseLen (l ++ (body ++ rest)) = .ok body.length (body ++ rest) :=
      parseLen_lenEnc _ _ _ hl (by simp at hsz; omega)
    simp only [List.cons_append, List.append_assoc, pTag, hlen, h1, h2, h3]
    by_cases hge : depth ≥ maxDepth
    · simp [hge]
    · have hk := pKids_too_deep ks body f (depth + 1) hb (by simp at hsz; omega) (by simp at hf; omega)
        (by omega) (by simp [Tlv.depth] at hdeep; omega)
      simp only [List.length_append, List.take_left', List.drop_left', if_true, hge, if_false]
      cases hp : pKids f (depth + 1) body with
      | ok ks' r => exact absurd hp (hk ks' r)
      | incomplete => simp
      | error => simp
theorem pKids_too_deep : (ks : List Tlv) → ∀ (body : Bytes) (fuel depth : Nat),
    EncList ks body → body.length < 18446744073709551616 → body.length < fuel → depth ≤ maxDepth →
    maxDepth < depth + Tlv.depthList ks → ∀ ks' r, pKids fuel depth body ≠ .ok ks' r
  | [], body, fuel, depth, _, _, _, hd, hdeep => by
    simp [Tlv.depthList] at hdeep; omega
  | t :: ts, body, fuel, depth, h, hsz, hf, hd, hdeep => by
    obtain ⟨a, b, ha, hb, rfl⟩ := h
    obtain ⟨f, rfl⟩ : ∃ f, fuel = f + 1 := ⟨fuel - 1, by omega⟩
    have hge := enc_length_ge t a ha
    obtain ⟨x, a', rfl⟩ : ∃ x a', a = x :: a' := by
      cases a with
      | nil => simp at hge
      | cons x a' => exact ⟨x, a', rfl⟩
    intro ks' r
    by_cases ht : depth + t.depth ≤ maxDepth
    · have hp : pTag f depth (x :: a' ++ b) = .ok t b :=
        pTag_enc t (x :: a') f depth b ha (by simp at hsz ⊢; omega) (by simp at hf ⊢; omega) ht
      have hts := pKids_too_deep ts b f depth hb (by simp at hsz; omega) (by simp at hf hge; omega) hd
        (by simp only [Tlv.depthList] at hdeep; omega)
      simp only [List.cons_append] at hp ⊢
      simp only [pKids, hp]
      cases hq : pKids f depth b with
      | ok ts' r' => exact absurd hq (hts ts' r')
      | incomplete => simp
      | error => simp
    · have hp : pTag f depth (x :: a' ++ b) = .error :=
        pTag_too_deep t (x :: a') f depth b ha (by simp at hsz ⊢; omega) (by simp at hf ⊢; omega) hd (by omega)
      simp only [List.cons_append] at hp ⊢
      simp [pKids, hp]
end

/-- whatever the parser returns is at most `maxDepth` constructed levels deep -/
theorem parseTag_depth_le (bs : Bytes) (t : Tlv) (r : Bytes) (h : parseTag bs = .ok t r) :
    t.depth ≤ maxDepth := by
  have := pTag_depth _ 0 bs t r h
  omega

/-- every definite-length encoding of a tree deeper than `maxDepth` is refused -/
theorem parseTag_too_deep (t : Tlv) (bs rest : Bytes) (h : Enc t bs) (hd : maxDepth < t.depth)
    (hl : (bs ++ rest).length < 18446744073709551616) : parseTag (bs ++ rest) = .error :=
  pTag_too_deep t bs _ 0 rest h (by simp at hl; omega) (by simp; omega) (by simp [maxDepth]) (by omega)

end Ldap3V

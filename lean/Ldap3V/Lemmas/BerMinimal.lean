/- Two facts about whole trees that `Enc t (encode t)` alone does not give:
* `MinEnc`: the writer's output carries, at EVERY node, exactly the minimal length octets `encLen n`
  (`Spec.Enc` allows any definite form); `MinEnc` determines the bytes;
* trees nested deeper than the parser's `maxDepth` are written (they have an encoding in `Spec.Enc`)
  but the parser answers `error` on every encoding of them. -/
import Ldap3V.Lemmas.BerParse
import Ldap3V.Lemmas.BerDepth
namespace Ldap3V
open Spec

/-! ## trees deeper than the parser's limit -/

mutual
theorem pTag_too_deep : (t : Tlv) → ∀ (bs : Bytes) (fuel depth : Nat) (rest : Bytes),
    Enc t bs → bs.length < 18446744073709551616 → bs.length ≤ fuel → depth ≤ maxDepth →
    maxDepth < depth + t.depth → pTag fuel depth (bs ++ rest) = .error
  | .prim c i v, bs, fuel, depth, rest, _, _, _, hd, hdeep => by
    simp [Tlv.depth] at hdeep; omega
  | .cons c i ks, bs, fuel, depth, rest, h, hsz, hf, hd, hdeep => by
    obtain ⟨hc, hi, l, body, hb, hl, rfl⟩ := h
    obtain ⟨f, rfl⟩ : ∃ f, fuel = f + 1 := ⟨fuel - 1, by simp at hf; omega⟩
    obtain ⟨h1, h2, h3⟩ := hdr_cons c i hc hi
    have hlp := lenEnc_length_pos _ _ hl
    have hlen : parseLen (l ++ (body ++ rest)) = .ok body.length (body ++ rest) :=
      parseLen_lenEnc _ _ _ hl (by simp at hsz; omega)
    simp only [List.cons_append, List.append_assoc, pTag, hlen, h1, h2, h3]
    by_cases hge : depth ≥ maxDepth
    · simp [hge]
    · have hk := pKids_too_deep ks body f (depth + 1) hb (by simp at hsz; omega) (by simp at hf; omega)
        (by omega) (by simp [Tlv.depth] at hdeep; omega)
      simp only [List.length_append, List.take_left', List.drop_left', if_true, hge, if_false]
      cases hp : pKids f (depth + 1) body with
      | ok ks' r => exact absurd hp (hk ks' r)
      | incomplete => simp
      | error => simp
theorem pKids_too_deep : (ks : List Tlv) → ∀ (body : Bytes) (fuel depth : Nat),
    EncList ks body → body.length < 18446744073709551616 → body.length < fuel → depth ≤ maxDepth →
    maxDepth < depth + Tlv.depthList ks → ∀ ks' r, pKids fuel depth body ≠ .ok ks' r
  | [], body, fuel, depth, _, _, _, hd, hdeep => by
    simp [Tlv.depthList] at hdeep; omega
  | t :: ts, body, fuel, depth, h, hsz, hf, hd, hdeep => by
    obtain ⟨a, b, ha, hb, rfl⟩ := h
    obtain ⟨f, rfl⟩ : ∃ f, fuel = f + 1 := ⟨fuel - 1, by omega⟩
    have hge := enc_length_ge t a ha
    obtain ⟨x, a', rfl⟩ : ∃ x a', a = x :: a' := by
      cases a with
      | nil => simp at hge
      | cons x a' => exact ⟨x, a', rfl⟩
    intro ks' r
    by_cases ht : depth + t.depth ≤ maxDepth
    · have hp : pTag f depth (x :: a' ++ b) = .ok t b :=
        pTag_enc t (x :: a') f depth b ha (by simp at hsz ⊢; omega) (by simp at hf ⊢; omega) ht
      have hts := pKids_too_deep ts b f depth hb (by simp at hsz; omega) (by simp at hf hge; omega) hd
        (by simp only [Tlv.depthList] at hdeep; omega)
      simp only [List.cons_append] at hp ⊢
      simp only [pKids, hp]
      cases hq : pKids f depth b with
      | ok ts' r' => exact absurd hq (hts ts' r')
      | incomplete => simp
      | error => simp
    · have hp : pTag f depth (x :: a' ++ b) = .error :=
        pTag_too_deep t (x :: a') f depth b ha (by simp at hsz ⊢; omega) (by simp at hf ⊢; omega) hd (by omega)
      simp only [List.cons_append] at hp ⊢
      simp [pKids, hp]
end

/-- whatever the parser returns is at most `maxDepth` constructed levels deep -/
theorem parseTag_depth_le (bs : Bytes) (t : Tlv) (r : Bytes) (h : parseTag bs = .ok t r) :
    t.depth ≤ maxDepth := by
  have := pTag_depth _ 0 bs t r h
  omega

/-- every definite-length encoding of a tree deeper than `maxDepth` is refused -/
theorem parseTag_too_deep (t : Tlv) (bs rest : Bytes) (h : Enc t bs) (hd : maxDepth < t.depth)
    (hl : (bs ++ rest).length < 18446744073709551616) : parseTag (bs ++ rest) = .error :=
  pTag_too_deep t bs _ 0 rest h (by simp at hl; omega) (by simp; omega) (by simp [maxDepth]) (by omega)

/-! ## the writer's length octets are minimal at every node -/

mutual
/-- `MinEnc t bs`: like `Spec.Enc t bs`, with the length octets of EVERY node fixed to the minimal
definite form `encLen n` of its content length `n` (short form below 128, else `0x80 + k` and the `k`
base-256 digits of `n` without a leading zero: `C07_len_definite_minimal`). -/
def MinEnc : Tlv → Bytes → Prop
  | .prim c i v, bs => c < 4 ∧ i ≤ 30 ∧ bs = (c * 64 + i).toUInt8 :: (encLen v.length ++ v)
  | .cons c i ks, bs => c < 4 ∧ i ≤ 30 ∧ ∃ body, MinEncList ks body ∧
      bs = (c * 64 + 32 + i).toUInt8 :: (encLen body.length ++ body)
def MinEncList : List Tlv → Bytes → Prop
  | [], bs => bs = []
  | t :: ts, bs => ∃ a b, MinEnc t a ∧ MinEncList ts b ∧ bs = a ++ b
end

mutual
theorem minEnc_encode : (t : Tlv) → WF t → MinEnc t (encode t)
  | .prim c i v, h => by
    obtain ⟨hc, hi, _⟩ := h
    refine ⟨hc, hi, ?_⟩
    simp [encode, encType_low c false i hi]
  | .cons c i ks, h => by
    obtain ⟨hc, hi, _, hk⟩ := h
    refine ⟨hc, hi, encodeList ks, minEncList_encode ks hk, ?_⟩
    simp [encode, encType_low c true i hi]
theorem minEncList_encode : (ks : List Tlv) → WFList ks → MinEncList ks (encodeList ks)
  | [], _ => by simp [MinEncList, encodeList]
  | t :: ts, h => ⟨encode t, encodeList ts, minEnc_encode t h.1, minEncList_encode ts h.2, by simp [encodeList]⟩
end

mutual
/-- `MinEnc` determines the bytes: they are the writer's -/
theorem minEnc_eq : (t : Tlv) → ∀ bs, MinEnc t bs → bs = encode t
  | .prim c i v, bs, h => by
    obtain ⟨_, hi, rfl⟩ := h
    simp [encode, encType_low c false i hi]
  | .cons c i ks, bs, h => by
    obtain ⟨_, hi, body, hb, rfl⟩ := h
    have := minEncList_eq ks body hb
    subst this
    simp [encode, encType_low c true i hi]
theorem minEncList_eq : (ks : List Tlv) → ∀ body, MinEncList ks body → body = encodeList ks
  | [], body, h => by simpa [MinEncList, encodeList] using h
  | t :: ts, body, h => by
    obtain ⟨a, b, ha, hb, rfl⟩ := h
    rw [minEnc_eq t a ha, minEncList_eq ts b hb]; simp [encodeList]
end

theorem minEnc_unique (t : Tlv) (bs bs' : Bytes) (h : MinEnc t bs) (h' : MinEnc t bs') : bs = bs' := by
  rw [minEnc_eq t bs h, minEnc_eq t bs' h']

mutual
/-- a `MinEnc` encoding shorter than 2^64 octets is one of the definite-length encodings of `Spec.Enc` -/
theorem enc_of_minEnc : (t : Tlv) → ∀ bs, MinEnc t bs → bs.length < 18446744073709551616 → Enc t bs
  | .prim c i v, bs, h, hl => by
    obtain ⟨hc, hi, rfl⟩ := h
    exact ⟨hc, hi, encLen v.length, lenEnc_encLen _ (by simp at hl; omega), rfl⟩
  | .cons c i ks, bs, h, hl => by
    obtain ⟨hc, hi, body, hb, rfl⟩ := h
    have hbl : body.length < 18446744073709551616 := by simp at hl; omega
    exact ⟨hc, hi, encLen body.length, body, encList_of_minEncList ks body hb hbl, lenEnc_encLen _ hbl, rfl⟩
theorem encList_of_minEncList : (ks : List Tlv) → ∀ body, MinEncList ks body →
    body.length < 18446744073709551616 → EncList ks body
  | [], body, h, _ => by simpa [MinEncList, EncList] using h
  | t :: ts, body, h, hl => by
    obtain ⟨a, b, ha, hb, rfl⟩ := h
    exact ⟨a, b, enc_of_minEnc t a ha (by simp at hl; omega),
      encList_of_minEncList ts b hb (by simp at hl; omega), rfl⟩
end

/-! ### … and the writer's output is the shortest of all definite-length encodings of the tree -/

theorem be256_small (k : Nat) (h : k < 256) : be256 k = [k.toUInt8] := by
  rw [be256]; simp [h]

theorem be256_big (k : Nat) (h : ¬ k < 256) : be256 k = be256 (k / 256) ++ [(k % 256).toUInt8] := by
  rw [be256]; simp [h]

theorem be256_length_mono (m : Nat) : ∀ n, n ≤ m → (be256 n).length ≤ (be256 m).length := by
  induction m using Nat.strongRecOn with
  | _ m ih =>
    intro n hn
    by_cases hn' : n < 256
    · have := be256_length_pos m
      rw [be256_small n hn']; simpa using this
    · have := ih (m / 256) (by omega) (n / 256) (by omega)
      rw [be256_big n hn', be256_big m (by omega)]; simp; omega

theorem encLen_length_mono (n m : Nat) (h : n ≤ m) : (encLen n).length ≤ (encLen m).length := by
  unfold encLen
  by_cases hn : n < 128
  · by_cases hm : m < 128 <;> simp [hn, hm]
  · have := be256_length_mono m n h
    simp [hn, show ¬ m < 128 by omega]; omega

mutual
theorem encode_length_min : (t : Tlv) → ∀ bs, Enc t bs → (encode t).length ≤ bs.length
  | .prim c i v, bs, h => by
    obtain ⟨_, hi, l, hl, rfl⟩ := h
    have := encLen_minimal _ _ hl
    simp [encode, encType_low c false i hi]; omega
  | .cons c i ks, bs, h => by
    obtain ⟨_, hi, l, body, hb, hl, rfl⟩ := h
    have h1 := encodeList_length_min ks body hb
    have h2 := encLen_length_mono _ _ h1
    have h3 := encLen_minimal _ _ hl
    simp [encode, encType_low c true i hi]; omega
theorem encodeList_length_min : (ks : List Tlv) → ∀ body, EncList ks body →
    (encodeList ks).length ≤ body.length
  | [], body, _ => by simp [encodeList]
  | t :: ts, body, h => by
    obtain ⟨a, b, ha, hb, rfl⟩ := h
    have := encode_length_min t a ha
    have := encodeList_length_min ts b hb
    simp [encodeList]; omega
end

end Ldap3V

/-
`Ldap::search` (model `search`): entries in order, reference URIs merged behind the result's own
referrals, intermediate messages dropped.
-/
import Ldap3V.Lemmas.StreamCursor
namespace Ldap3V.Stream
open Spec

theorem step_next_eq (m : M) :
    step m .next = (⟨(next (fuelOf m) true m.chain m.s).1, (next (fuelOf m) true m.chain m.s).2.1⟩,
      .item (next (fuelOf m) true m.chain m.s).2.2) := rfl

theorem step_finish_eq (m : M) :
    step m .finish = (⟨(finish m.chain m.s).1, (finish m.chain m.s).2.1⟩, .result (finish m.chain m.s).2.2) := rfl

/-- draining a stream behind EntriesOnly whose view ends in the server's result -/
theorem collect_sim (r : StartOut) : ∀ (rest : List Step) (m : M) (c : Cursor) (n : Nat) (acc : List Item)
    (g : List Bytes) (r0 : Res),
    RelE m c → c.state = .active → c.rest = rest → c.ending = .done g r0 → rest.length + 1 ≤ n →
    collect n m acc =
      .ok (acc ++ rest.map (·.item)) { r0 with refs := r0.refs ++ (c.acc ++ rest.flatMap (·.gain) ++ g) } := by
  intro rest
  induction rest with
  | nil =>
    intro m c n acc g r0 hR hs hrest hend hn
    obtain ⟨n', rfl⟩ : ∃ n', n = n' + 1 := ⟨n - 1, by simp at hn; omega⟩
    obtain ⟨ho, hR'⟩ := hR.step r m c .next
    rw [step_next_eq] at ho hR'
    have hc : c.step r .next = ({ c with state := .done, acc := c.acc ++ g, final := some r0 }, .item (.ok none)) := by
      simp [Cursor.step, Cursor.next, hs, hrest, hend]
    rw [hc] at ho hR'
    simp only [Output.item.injEq] at ho
    have hR2 := hR' (by rw [ho]; rfl)
    simp only [collect]
    rcases hnx : next (fuelOf m) true m.chain m.s with ⟨c1, s1, r1⟩
    rw [hnx] at ho hR2
    simp only at ho hR2
    subst ho
    simp only
    obtain ⟨hof, _⟩ := hR2.step r ⟨c1, s1⟩ _ .finish
    rw [step_finish_eq] at hof
    simp only [Cursor.step, Cursor.finish] at hof
    simp only [reduceCtorEq, if_false, Option.getD_some, Output.result.injEq] at hof
    rw [hof]
    simp
  | cons st tl ih =>
    intro m c n acc g r0 hR hs hrest hend hn
    obtain ⟨n', rfl⟩ : ∃ n', n = n' + 1 := ⟨n - 1, by simp at hn; omega⟩
    obtain ⟨ho, hR'⟩ := hR.step r m c .next
    rw [step_next_eq] at ho hR'
    have hc : c.step r .next = ({ c with rest := tl, pos := c.pos + 1, acc := c.acc ++ st.gain }, .item (.ok (some st.item))) := by
      simp [Cursor.step, Cursor.next, hs, hrest]
    rw [hc] at ho hR'
    simp only [Output.item.injEq] at ho
    have hR2 := hR' (by rw [ho]; rfl)
    simp only [collect]
    rcases hnx : next (fuelOf m) true m.chain m.s with ⟨c1, s1, r1⟩
    rw [hnx] at ho hR2
    simp only at ho hR2
    subst ho
    simp only
    rw [ih ⟨c1, s1⟩ _ n' (acc ++ [st.item]) g r0 hR2 hs rfl hend (by simp at hn ⊢; omega)]
    simp [List.append_assoc]

/-- URIs of the reference messages among `items`, in order -/
def refUris (items : List Item) : List Bytes :=
  (items.filter fun i => i.kind == .ref).flatMap fun i => i.uris.getD []

theorem eoRaw_items (r : Res) (tl : List Recv) : ∀ (items : List Item) (g : List Bytes),
    (∀ i ∈ items, i.kind = .ref → i.uris ≠ none) →
    ∃ g', (eoRaw g (items.map .item ++ .done r :: tl)).ending = .done g' r ∧
      (eoRaw g (items.map .item ++ .done r :: tl)).steps.map (·.item) = items.filter (fun i => i.kind == .entry) ∧
      (eoRaw g (items.map .item ++ .done r :: tl)).steps.flatMap (·.gain) ++ g' = g ++ refUris items := by
  intro items
  induction items with
  | nil => intro g _; exact ⟨g, by simp [eoRaw_done, refUris]⟩
  | cons i is ih =>
    intro g hwf
    have hwf' : ∀ j ∈ is, j.kind = .ref → j.uris ≠ none := fun j hj => hwf j (List.mem_cons_of_mem _ hj)
    simp only [List.map_cons, List.cons_append]
    rcases kind_cases i.kind with hk | hk | hk
    · rw [eoRaw_entry _ _ _ hk]
      obtain ⟨g', h1, h2, h3⟩ := ih [] hwf'
      refine ⟨g', h1, by simp [hk, h2], ?_⟩
      simp only [List.flatMap_cons, List.append_assoc, h3]
      simp [refUris, hk]
    · rw [eoRaw_inter _ _ _ hk]
      obtain ⟨g', h1, h2, h3⟩ := ih g hwf'
      exact ⟨g', h1, by simp [hk, h2], by rw [h3]; simp [refUris, hk]⟩
    · cases hu : i.uris with
      | none => exact absurd hu (hwf i (List.mem_cons_self ..) hk)
      | some us =>
        rw [eoRaw_ref _ _ _ _ hk hu]
        obtain ⟨g', h1, h2, h3⟩ := ih (g ++ us) hwf'
        exact ⟨g', h1, by simp [hk, h2], by rw [h3]; simp [refUris, hk, hu]⟩

theorem eoRaw_steps_le : ∀ (l : List Recv) (g : List Bytes), (eoRaw g l).steps.length ≤ l.length := by
  intro l
  induction l with
  | nil => intro g; simp [eoRaw_nil]
  | cons x l ih =>
    intro g
    cases x with
    | item i =>
      rcases kind_cases i.kind with hk | hk | hk
      · rw [eoRaw_entry _ _ _ hk]; have := ih []; simp; omega
      · rw [eoRaw_inter _ _ _ hk]; have := ih g; simp; omega
      · cases hu : i.uris with
        | none => rw [eoRaw_badref _ _ _ hk hu]; simp
        | some us => rw [eoRaw_ref _ _ _ _ hk hu]; have := ih (g ++ us); simp; omega
    | done r => simp [eoRaw_done]
    | closed => simp [eoRaw_closed]
    | timeout => simp [eoRaw_timeout]

/-- `Ldap::search` on a script `items…, Done(r), …`: exactly the entries in order; the result is the
server's with `r.refs ++ URIs of the reference messages in order`; intermediate messages are dropped -/
theorem search_spec (h : Handle) (q : Query) (hq : q.filterOk = true) (items : List Item) (r : Res)
    (tl : List Recv) (ps : List Page) (hwf : ∀ i ∈ items, i.kind = .ref → i.uris ≠ none) :
    search h (.script (items.map .item ++ .done r :: tl) :: ps) q =
      .ok (items.filter fun i => i.kind == .entry) { r with refs := r.refs ++ refUris items } := by
  obtain ⟨ho, hR⟩ := eo_start h (.script (items.map .item ++ .done r :: tl) :: ps) q
  obtain ⟨g', h1, h2, h3⟩ := eoRaw_items r tl items [] hwf
  have hso : startOutcome [.entriesOnly] h q (.script (items.map .item ++ .done r :: tl) :: ps) = .ok := by
    simp [startOutcome, hq]
  rw [hso] at ho hR
  have hc : (Cursor.ofView (view [.entriesOnly] (.script (items.map .item ++ .done r :: tl) :: ps))).step .ok (.start q) =
      ({ Cursor.ofView (view [.entriesOnly] (.script (items.map .item ++ .done r :: tl) :: ps)) with state := .active }, .started .ok) := by
    simp [Cursor.step, Cursor.start, Cursor.ofView]
  rw [hc] at ho hR
  simp only [Ldap3V.Stream.step, init, eo] at ho hR
  unfold search
  rcases hst : start [eo] { h := h, pages := .script (items.map .item ++ .done r :: tl) :: ps } q with ⟨c1, s1, r1⟩
  simp only [eo] at hst
  rw [hst] at ho hR
  simp only [Output.started.injEq] at ho
  subst ho
  simp only
  have hview : view [.entriesOnly] (.script (items.map .item ++ .done r :: tl) :: ps) =
      eoRaw [] (items.map .item ++ .done r :: tl) := rfl
  have hlen : (eoRaw [] (items.map .item ++ .done r :: tl)).steps.length + 1 ≤ remaining s1 + 1 := by
    have hl := hR.live rfl
    obtain ⟨l, hrx, hsteps, _⟩ := hl
    have h4 := remaining_ge s1 l hrx
    have h5 := eoRaw_steps_le l []
    simp only [Cursor.ofView, hview] at hsteps
    rw [hsteps] at h5
    omega
  rw [collect_sim .ok _ ⟨c1, s1⟩ _ _ [] g' r hR rfl rfl (by simp [Cursor.ofView, hview, h1]) hlen]
  simp only [Cursor.ofView, hview, List.nil_append, h2, SearchOut.ok.injEq, true_and]
  rw [h3]
  simp

end Ldap3V.Stream

/- Step-level facts about Model.Conn used by C04, C05, C12, C13. -/
import Ldap3V.Lemmas.ConnRouteStep
namespace Ldap3V.Conn

theorem not_mem_eraseId (s : List Nat) (k : Nat) : k ∉ eraseId s (k : Int) := by
  simp [eraseId]

theorem mem_eraseId {s : List Nat} {k : Int} {j : Nat} : j ∈ eraseId s k ↔ j ∈ s ∧ (j : Int) ≠ k := by
  simp [eraseId]

theorem lookup_erase_self (m : List (Nat × Nat)) (k : Int) : lookup (erase m k) k = none := by
  unfold lookup erase
  simp only [Option.map_eq_none_iff, List.find?_eq_none, List.mem_filter, beq_iff_eq, and_imp]
  intro p _ hne
  simpa using hne

theorem keys_erase (m : List (Nat × Nat)) (k : Nat) : ∀ p ∈ erase m (k : Int), p.1 ≠ k := by
  intro p hp
  have := (mem_erase hp).2
  intro e; exact this (by rw [e])

/-- the mailbox of op `i` after its sender has been dropped is never empty -/
theorem dropSender_mail (ops : List Op) (i : Nat) (o : Op) (h : (dropSender ops i)[i]? = some o) : o.mail ≠ .empty := by
  unfold dropSender at h
  rw [modifyOp_get] at h
  simp only [if_true] at h
  cases ho : ops[i]? with
  | none => rw [ho] at h; cases h
  | some o0 =>
    rw [ho] at h
    simp only [Option.map_some, Option.some.injEq] at h
    subst h
    split
    · simp
    · assumption

theorem dropSender_other (ops : List Op) (i j : Nat) (hne : j ≠ i) : (dropSender ops i)[j]? = ops[j]? := by
  unfold dropSender
  rw [modifyOp_get, if_neg hne]

/-- dropping a sender never turns a non-empty mailbox back into an empty one -/
theorem dropSender_mono (ops : List Op) (i j : Nat) (o : Op) (h : (dropSender ops i)[j]? = some o) :
    ∃ o0 : Op, ops[j]? = some o0 ∧ (o0.mail ≠ .empty → o.mail = o0.mail) ∧ (j = i → o.mail ≠ .empty) := by
  by_cases hji : j = i
  · subst hji
    unfold dropSender at h
    rw [modifyOp_get] at h
    simp only [if_true] at h
    cases ho : ops[j]? with
    | none => rw [ho] at h; cases h
    | some o0 =>
      rw [ho] at h
      simp only [Option.map_some, Option.some.injEq] at h
      subst h
      refine ⟨o0, rfl, ?_, fun _ => ?_⟩
      · intro hne; rw [if_neg hne]
      · split
        · simp
        · assumption
  · rw [dropSender_other ops i j hji] at h
    exact ⟨o, h, fun _ => rfl, fun e => absurd e hji⟩

theorem foldl_dropSender_spec (l : List Nat) : ∀ (ops : List Op) (j : Nat) (o : Op),
    (l.foldl dropSender ops)[j]? = some o →
    ∃ o0 : Op, ops[j]? = some o0 ∧ (o0.mail ≠ .empty → o.mail = o0.mail) ∧ (j ∈ l → o.mail ≠ .empty) := by
  induction l with
  | nil => intro ops j o h; exact ⟨o, h, fun _ => rfl, fun hm => by cases hm⟩
  | cons x xs ih =>
    intro ops j o h
    simp only [List.foldl_cons] at h
    obtain ⟨o1, h1, hk1, hm1⟩ := ih (dropSender ops x) j o h
    obtain ⟨o0, h0, hk0, hm0⟩ := dropSender_mono ops x j o1 h1
    refine ⟨o0, h0, ?_, ?_⟩
    · intro hne
      have e1 := hk0 hne
      have : o1.mail ≠ .empty := by rw [e1]; exact hne
      rw [hk1 this, e1]
    · intro hmem
      simp only [List.mem_cons] at hmem
      rcases hmem with rfl | hmem
      · have := hm0 rfl
        rw [hk1 this]; exact this
      · exact hm1 hmem

theorem foldl_dropSender2_spec (l : List (Nat × Nat)) : ∀ (ops : List Op) (j : Nat) (o : Op),
    (l.foldl (fun o p => dropSender o p.2) ops)[j]? = some o →
    ∃ o0 : Op, ops[j]? = some o0 ∧ (o0.mail ≠ .empty → o.mail = o0.mail) ∧ (j ∈ l.map (·.2) → o.mail ≠ .empty) := by
  induction l with
  | nil => intro ops j o h; exact ⟨o, h, fun _ => rfl, fun hm => by cases hm⟩
  | cons x xs ih =>
    intro ops j o h
    simp only [List.foldl_cons] at h
    obtain ⟨o1, h1, hk1, hm1⟩ := ih (dropSender ops x.2) j o h
    obtain ⟨o0, h0, hk0, hm0⟩ := dropSender_mono ops x.2 j o1 h1
    refine ⟨o0, h0, ?_, ?_⟩
    · intro hne
      have e1 := hk0 hne
      have : o1.mail ≠ .empty := by rw [e1]; exact hne
      rw [hk1 this, e1]
    · intro hmem
      simp only [List.map_cons, List.mem_cons] at hmem
      rcases hmem with rfl | hmem
      · have := hm0 rfl
        rw [hk1 this]; exact this
      · exact hm1 hmem

/-- When the driver ends, for whatever reason: every operation it held a reply sender for (queued,
or registered in the result map) finds its mailbox non-empty — a value delivered earlier, or the
"sender dropped" mark — so its future resolves; both maps and the queue are gone; no search
channel has a sender left. -/
theorem endDriver_spec (s : St) (how : Drv) :
    (endDriver s how).drv = how ∧ (endDriver s how).opQ = [] ∧ (endDriver s how).resultmap = [] ∧
    (endDriver s how).searchmap = [] ∧
    (∀ (j : Nat) (o : Op), (endDriver s how).ops[j]? = some o →
      (j ∈ s.opQ ∨ j ∈ s.resultmap.map (·.2)) → o.mail ≠ .empty) ∧
    (∀ (j : Nat) (o : Op), (endDriver s how).ops[j]? = some o →
      ∃ o0 : Op, s.ops[j]? = some o0 ∧ (o0.mail ≠ .empty → o.mail = o0.mail)) ∧
    (∀ c, chanOpen (endDriver s how) c = false) := by
  refine ⟨rfl, rfl, rfl, rfl, ?_, ?_, ?_⟩
  · intro j o h hmem
    obtain ⟨o1, h1, hk1, hm1⟩ := foldl_dropSender2_spec s.resultmap _ j o h
    obtain ⟨o0, h0, hk0, hm0⟩ := foldl_dropSender_spec s.opQ s.ops j o1 h1
    rcases hmem with hq | hr
    · have := hm0 hq
      rw [hk1 this]; exact this
    · exact hm1 hr
  · intro j o h
    obtain ⟨o1, h1, hk1, _⟩ := foldl_dropSender2_spec s.resultmap _ j o h
    obtain ⟨o0, h0, hk0, _⟩ := foldl_dropSender_spec s.opQ s.ops j o1 h1
    refine ⟨o0, h0, fun hne => ?_⟩
    have e1 := hk0 hne
    have : o1.mail ≠ .empty := by rw [e1]; exact hne
    rw [hk1 this, e1]
  · intro c
    simp [chanOpen, Conn.endDriver]

end Ldap3V.Conn

/- Step-level facts about Model.Conn used by C04, C05, C12, C13. -/
import Ldap3V.Lemmas.ConnRouteStep
namespace Ldap3V.Conn

theorem not_mem_eraseId (s : List Nat) (k : Nat) : k ∉ eraseId s (k : Int) := by
  simp [eraseId]

theorem mem_eraseId {s : List Nat} {k : Int} {j : Nat} : j ∈ eraseId s k ↔ j ∈ s ∧ (j : Int) ≠ k := by
  simp [eraseId]

theorem lookup_erase_self (m : List (Nat × Nat)) (k : Int) : lookup (erase m k) k = none := by
  unfold lookup erase
  simp only [Option.map_eq_none_iff, List.find?_eq_none, List.mem_filter, beq_iff_eq, and_imp]
  intro p _ hne
  simpa using hne

theorem keys_erase (m : List (Nat × Nat)) (k : Nat) : ∀ p ∈ erase m (k : Int), p.1 ≠ k := by
  intro p hp
  have := (mem_erase hp).2
  intro e; exact this (by rw [e])

/-- the mailbox of op `i` after its sender has been dropped is never empty -/
theorem dropSender_mail (ops : List Op) (i : Nat) (o : Op) (h : (dropSender ops i)[i]? = some o) : o.mail ≠ .empty := by
  unfold dropSender at h
  rw [modifyOp_get] at h
  simp only [if_true] at h
  cases ho : ops[i]? with
  | none => rw [ho] at h; cases h
  | some o0 =>
    rw [ho] at h
    simp only [Option.map_some, Option.some.injEq] at h
    subst h
    split
    · simp
    · assumption

theorem dropSender_other (ops : List Op) (i j : Nat) (hne : j ≠ i) : (dropSender ops i)[j]? = ops[j]? := by
  unfold dropSender
  rw [modifyOp_get, if_neg hne]

/-- dropping a sender never turns a non-empty mailbox back into an empty one -/
theorem dropSender_mono (ops : List Op) (i j : Nat) (o : Op) (h : (dropSender ops i)[j]? = some o) :
    ∃ o0 : Op, ops[j]? = some o0 ∧ (o0.mail ≠ .empty → o.mail = o0.mail) ∧ (j = i → o.mail ≠ .empty) := by
  by_cases hji : j = i
  · subst hji
    unfold dropSender at h
    rw [modifyOp_get] at h
    simp only [if_true] at h
    cases ho : ops[j]? with
    | none => rw [ho] at h; cases h
    | some o0 =>
      rw [ho] at h
      simp only [Option.map_some, Option.some.injEq] at h
      subst h
      refine ⟨o0, rfl, ?_, fun _ => ?_⟩
      · intro hne; rw [if_neg hne]
      · split
        · simp
        · assumption
  · rw [dropSender_other ops i j hji] at h
    exact ⟨o, h, fun _ => rfl, fun e => absurd e hji⟩

/-- When the driver ends, for whatever reason: every operation it held a reply sender for (queued,
or registered in the result map) finds its mailbox non-empty — a value delivered earlier, or the
"sender dropped" mark — so its future resolves; both maps and the queue are gone; no search
channel has a sender left. -/
theorem endDriver_spec (s : St) (how : Drv) :
    (endDriver s how).drv = how ∧ (endDriver s how).opQ = [] ∧ (endDriver s how).resultmap = [] ∧
    (endDriver s how).searchmap = [] ∧
    (∀ (j : Nat) (o : Op), (endDriver s how).ops[j]? = some o →
      (j ∈ s.opQ ∨ j ∈ s.resultmap.map (·.2)) → o.mail ≠ .empty) ∧
    (∀ (j : Nat) (o : Op), (endDriver s how).ops[j]? = some o →
      ∃ o0 : Op, s.ops[j]? = some o0 ∧ (o0.mail ≠ .empty → o.mail = o0.mail)) ∧
    (∀ c, chanOpen (endDriver s how) c = false) := by
  refine ⟨rfl, rfl, rfl, rfl, ?_, ?_, ?_⟩
  · intro j o h hmem
    rw [endDriver_get] at h
    cases ho : s.ops[j]? with
    | none => rw [ho] at h; cases h
    | some o0 =>
      rw [ho] at h
      simp only [Option.map_some, Option.some.injEq] at h
      have hd : ∀ m : Mail, dropIf m ≠ .empty := by
        intro m; unfold dropIf; split <;> simp_all
      rcases hmem with hq | hr
      · have : s.opQ.contains j = true := by simpa using hq
        rw [this] at h; simp only [if_true] at h
        rw [← h]; exact hd _
      · split at h
        · rw [← h]; exact hd _
        · have : (s.resultmap.any fun p => p.2 == j) = true := by
            simp only [List.mem_map] at hr
            obtain ⟨p, hp, e⟩ := hr
            simp only [List.any_eq_true, beq_iff_eq]
            exact ⟨p, hp, e⟩
          rw [this] at h; simp only [if_true] at h
          rw [← h]; exact hd _
  · intro j o h
    rw [endDriver_get] at h
    cases ho : s.ops[j]? with
    | none => rw [ho] at h; cases h
    | some o0 =>
      rw [ho] at h
      simp only [Option.map_some, Option.some.injEq] at h
      refine ⟨o0, rfl, fun hne => ?_⟩
      have hk : dropIf o0.mail = o0.mail := by unfold dropIf; rw [if_neg hne]
      rw [← h]
      split
      · exact hk
      · split
        · exact hk
        · rfl
  · intro c
    simp [chanOpen, Conn.endDriver]

end Ldap3V.Conn

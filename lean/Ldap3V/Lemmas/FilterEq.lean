/- The `eq` parser (equality / presence / substring items) against the grammar. -/
import Ldap3V.Lemmas.FilterVal
namespace Ldap3V.Filter
open Ldap3V.Spec.Filter
open Ldap3V.Spec (Filter)

/-! ## generic facts -/

theorem many_append {α : Type} {R : α → Bytes → Prop} {xs ys : List α} {b : Bytes}
    (h : Many R (xs ++ ys) b) : ∃ b1 b2, b = b1 ++ b2 ∧ Many R xs b1 ∧ Many R ys b2 := by
  induction xs generalizing b with
  | nil => exact ⟨[], b, rfl, .nil, h⟩
  | cons x xs ih =>
    cases h with
    | cons hr hm =>
      obtain ⟨b1, b2, e, h1, h2⟩ := ih hm
      exact ⟨_ ++ b1, b2, by rw [e]; simp, .cons hr h1, h2⟩

theorem many_of_append {α : Type} {R : α → Bytes → Prop} {xs ys : List α} {b1 b2 : Bytes}
    (h1 : Many R xs b1) (h2 : Many R ys b2) : Many R (xs ++ ys) (b1 ++ b2) := by
  induction h1 with
  | nil => simpa using h2
  | cons hr _ ih => rw [List.append_assoc]; exact .cons hr ih

theorem rval_nil {s : Bytes} (h : RVal [] s) : s = [] := by cases h; rfl

/-- the string is empty or starts with `)` -/
def ItemStop : Bytes → Prop
  | [] => True
  | x :: _ => x = 0x29

theorem ItemStop.val {r : Bytes} (h : ItemStop r) : ValStop r := by
  cases r with
  | nil => trivial
  | cons x r => simp only [ItemStop] at h; subst h; simp [Stop, isValueChar]

theorem ItemStop.noStar {r : Bytes} (h : ItemStop r) : tag [0x2A] r = .err := by
  cases r with
  | nil => exact tag1_nil _
  | cons x r => simp only [ItemStop] at h; subst h; rw [tag1_cons]; simp

/-! ## `* value` pieces -/

def starPiece : P Bytes := preceded (tag [0x2A]) unescaped

/-- element relation of `many0(preceded(tag("*"), unescaped))` -/
def StarR (o s : Bytes) : Prop := ∃ sv, RVal o sv ∧ s = 0x2A :: sv

theorem starPiece_sound {i o r : Bytes} (h : starPiece i = .ok o r) : ∃ s, i = s ++ r ∧ StarR o s := by
  obtain ⟨_, r1, h1, h2⟩ := andThen_ok h
  obtain ⟨_, e1⟩ := tag_ok h1
  obtain ⟨sv, e2, hr, _⟩ := unescaped_sound h2
  exact ⟨0x2A :: sv, by rw [e1, e2]; simp, sv, hr, rfl⟩

theorem starPiece_complete {o s rest : Bytes} (h : StarR o s) (hr : ValStop rest) :
    starPiece (s ++ rest) = .ok o rest := by
  obtain ⟨sv, hv, rfl⟩ := h
  have : tag [0x2A] (0x2A :: sv ++ rest) = .ok [0x2A] (sv ++ rest) := tag_append [0x2A] (sv ++ rest)
  unfold starPiece preceded
  rw [andThen_eq this]
  exact unescaped_complete hv hr

theorem np_starPiece : NP starPiece := np_preceded (np_tag _) np_unescaped

theorem many_star_complete {mids : List Bytes} {b r : Bytes} (hm : Many StarR mids b) (hr : ItemStop r) :
    many0 starPiece (b ++ r) = .ok mids r := by
  unfold many0
  exact many0Go_complete (R := StarR) (stop := ValStop)
    (fun o s rest h hs => starPiece_complete h hs)
    (fun o s h => by obtain ⟨sv, _, e⟩ := h; rw [e]; simp)
    (fun o s rest h => by obtain ⟨sv, _, e⟩ := h; rw [e]; simp [Stop, isValueChar])
    hm _ r hr.val (andThen_err hr.noStar) (by omega)

/-! ## the checks and the tag built by `eq`, for `mids = any ++ [last]` -/

theorem midBad_spec (any : List Bytes) (last : Bytes) :
    ∀ k, midBad (k + any.length + 1) k (any ++ [last]) = any.any (fun e => e.isEmpty) := by
  induction any with
  | nil => intro k; simp [midBad]
  | cons e any ih =>
    intro k
    have := ih (k + 1)
    have e1 : k + 1 + any.length + 1 = k + (any.length + 1) + 1 := by omega
    rw [e1] at this
    simp only [List.cons_append, midBad, List.length_cons, this, List.any_cons]
    have : (k + 1 != k + (any.length + 1) + 1) = true := by simp <;> omega
    simp [this]

theorem subLoop_spec (any : List Bytes) (last : Bytes) (hne : ∀ e ∈ any, e ≠ []) :
    ∀ k, subLoop (k + any.length + 1) k (any ++ [last]) =
      any.map (Tag.octetString 2 1) ++ (if last.isEmpty then [] else [Tag.octetString 2 2 last]) := by
  induction any with
  | nil =>
    intro k
    by_cases h : last.isEmpty = true
    · simp [subLoop, h]
    · simp [subLoop, h]
  | cons e any ih =>
    intro k
    have := ih (fun x hx => hne x (by simp [hx])) (k + 1)
    have e1 : k + 1 + any.length + 1 = k + (any.length + 1) + 1 := by omega
    rw [e1] at this
    have he : e.isEmpty = false := by
      have := hne e (by simp)
      cases e <;> simp_all
    have hk : (k + 1 != k + (any.length + 1) + 1) = true := by simp <;> omega
    simp only [List.cons_append, subLoop, List.length_cons, he, this, List.map_cons]
    simp [hk]

/-- non-empty as an option -/
def optNE (v : Bytes) : Option Bytes := if v.isEmpty then none else some v

/-- the tree denoted by `attr = v0 *m1 *m2 … *mk` -/
def eqFilter (a v0 : Bytes) (mids : List Bytes) : Filter :=
  if mids.isEmpty then .eq a v0
  else if v0.isEmpty && mids.length == 1 && mids.getLast!.isEmpty then .present a
  else .substr a (optNE v0) mids.dropLast (optNE mids.getLast!)

theorem optPrim_optNE (id : Nat) (v : Bytes) :
    (optPrim id (optNE v)) = if v.isEmpty then [] else [Tlv.prim 2 id v] := by
  unfold optNE; split <;> simp [optPrim]

theorem toTlvList_append (xs ys : List Tag) :
    Tag.toTlvList (xs ++ ys) = Tag.toTlvList xs ++ Tag.toTlvList ys := by
  induction xs with
  | nil => simp [Tag.toTlvList]
  | cons x xs ih => simp [Tag.toTlvList, ih]

theorem toTlvList_map_octet (c i : Nat) (vs : List Bytes) :
    Tag.toTlvList (vs.map (Tag.octetString c i)) = vs.map (Tlv.prim c i) := by
  induction vs with
  | nil => simp [Tag.toTlvList]
  | cons v vs ih => simp [Tag.toTlvList, Tag.toTlv, ih]

/-- `eq` builds the BER form of the denoted tree (and does not panic) -/
theorem eqTag_spec (a v0 : Bytes) (mids : List Bytes) (hb : midBad mids.length 0 mids = false) :
    ∃ t, eqTag a v0 mids = some t ∧ t.toTlv = toTlv (eqFilter a v0 mids) := by
  rcases List.eq_nil_or_concat mids with rfl | ⟨any, last, hc⟩
  · exact ⟨.sequence 2 3 [octets a, octets v0], by simp [eqTag],
      by simp [eqFilter, Tag.toTlv, Tag.toTlvList, octets, toTlv, avaKids]⟩
  · rw [List.concat_eq_append] at hc
    subst hc
    have hlen : (any ++ [last]).length = 0 + any.length + 1 := by simp
    rw [hlen, midBad_spec] at hb
    have hne : ∀ e ∈ any, e ≠ [] := by
      intro e he e0
      have := List.any_eq_false.mp hb e he
      subst e0; simp at this
    have hsub := subLoop_spec any last hne 0
    rw [← hlen] at hsub
    have hemp : (any ++ [last]).isEmpty = false := by simp
    by_cases hp : v0.isEmpty = true ∧ any = [] ∧ last.isEmpty = true
    · obtain ⟨h1, rfl, h3⟩ := hp
      refine ⟨.octetString 2 7 a, ?_, ?_⟩
      · simp [eqTag, h1, h3]
      · simp [eqFilter, h1, h3, Tag.toTlv, toTlv]
    · have hpres : (v0.isEmpty && (any ++ [last]).length == 1 && (any ++ [last]).getLast!.isEmpty) = false := by
        cases h1 : v0.isEmpty with
        | false => simp
        | true =>
          cases any with
          | nil =>
            cases h3 : last.isEmpty with
            | false => simp [h3]
            | true => exact absurd ⟨h1, rfl, h3⟩ hp
          | cons x xs => simp
      refine ⟨.sequence 2 4 [octets a, .sequence 0 16
                ((if (!v0.isEmpty) = true then [.octetString 2 0 v0] else []) ++
                  subLoop (any ++ [last]).length 0 (any ++ [last]))], ?_, ?_⟩
      · cases h1 : v0.isEmpty <;> cases any <;> cases h3 : last.isEmpty <;> simp_all [eqTag] <;> (cases last <;> simp_all)
      · rw [hsub]
        simp only [eqFilter, hemp, hpres, Bool.false_eq_true, if_false, toTlv, optPrim_optNE,
          List.dropLast_concat, Tag.toTlv, Tag.toTlvList, octets, toTlvList_append, toTlvList_map_octet]
        have hl : (any ++ [last]).getLast! = last := by simp
        rw [hl]
        cases h1 : v0.isEmpty <;> cases h3 : last.isEmpty <;> simp [Tag.toTlvList, Tag.toTlv]

/-! ## `eq` and its parts -/

/-- what `eq` sees: attribute description, initial value, `*`-pieces; only the last may be empty -/
def EqParts (a v0 : Bytes) (mids : List Bytes) (sv0 b : Bytes) : Prop :=
  IsAttrDesc .lib a ∧ RVal v0 sv0 ∧ Many StarR mids b ∧ midBad mids.length 0 mids = false

theorem eqTag_ne_none (a v0 : Bytes) (mf : List Bytes) : eqTag a v0 mf ≠ none := by
  cases mf with
  | nil => simp [eqTag]
  | cons e es =>
    unfold eqTag
    simp only [List.isEmpty_cons, Bool.false_eq_true, if_false]
    split
    · rename_i h; split at h <;> simp at h
    · simp
    · simp

theorem eq_def : eq =
    andThen attributedescription fun attr =>
    andThen (tag [0x3D]) fun _ =>
    andThen unescaped fun initial =>
    andThen (mapRes (many0 starPiece) fun v => if midBad v.length 0 v then none else some v) fun midFinal => fun i =>
      match eqTag attr initial midFinal with
      | some t => .ok t i
      | none => .panic := rfl

theorem np_eq : NP eq := by
  rw [eq_def]
  refine np_andThen np_attributedescription fun a => np_andThen (np_tag _) fun _ =>
    np_andThen np_unescaped fun v0 => np_andThen (np_mapRes _ (np_many0 np_starPiece)) fun mf => ?_
  intro i
  cases h : eqTag a v0 mf with
  | some t => simp
  | none => exact absurd h (eqTag_ne_none a v0 mf)

theorem eq_sound {i : Bytes} {t : Tag} {r : Bytes} (h : eq i = .ok t r) :
    ∃ a v0 mids sv0 b, i = (a ++ 0x3D :: (sv0 ++ b)) ++ r ∧ EqParts a v0 mids sv0 b ∧
      eqTag a v0 mids = some t := by
  rw [eq_def] at h
  obtain ⟨a, r1, h1, h⟩ := andThen_ok h
  obtain ⟨_, r2, h2, h⟩ := andThen_ok h
  obtain ⟨v0, r3, h3, h⟩ := andThen_ok h
  obtain ⟨mids, r4, h4, h⟩ := andThen_ok h
  obtain ⟨ms, r4', h5, h6⟩ := andThen_ok h4
  obtain ⟨e1, ha⟩ := attributedescription_sound h1
  obtain ⟨_, e2⟩ := tag_ok h2
  obtain ⟨sv0, e3, hv0, _⟩ := unescaped_sound h3
  obtain ⟨b, e4, hm, _⟩ := many0Go_sound (R := StarR) (fun i o r h => starPiece_sound h) _ _ _ _ h5
  by_cases hb : midBad ms.length 0 ms = true
  · simp [hb, failP] at h6
  · simp only [hb, Bool.false_eq_true, if_false] at h6
    obtain ⟨e5, e6⟩ := ret_ok h6
    subst e5 e6
    simp at hb
    cases ht : eqTag a v0 mids with
    | none => exact absurd ht (eqTag_ne_none _ _ _)
    | some t' =>
      rw [ht] at h
      cases h
      refine ⟨a, v0, mids, sv0, b, ?_, ⟨ha, hv0, hm, hb⟩, ht⟩
      rw [e1, e2, e3, e4]; simp

theorem eq_complete {a v0 : Bytes} {mids : List Bytes} {sv0 b r : Bytes}
    (hp : EqParts a v0 mids sv0 b) (hr : ItemStop r) :
    ∃ t, eq ((a ++ 0x3D :: (sv0 ++ b)) ++ r) = .ok t r ∧ t.toTlv = toTlv (eqFilter a v0 mids) := by
  obtain ⟨ha, hv0, hm, hb⟩ := hp
  obtain ⟨t, ht, htl⟩ := eqTag_spec a v0 mids hb
  refine ⟨t, ?_, htl⟩
  have hstop1 : ValStop (b ++ r) := by
    cases hm with
    | nil => simpa using hr.val
    | cons hs _ => obtain ⟨sv, _, e⟩ := hs; rw [e]; simp [Stop, isValueChar]
  have h1 : attributedescription (a ++ (0x3D :: (sv0 ++ (b ++ r)))) = .ok a _ :=
    attributedescription_complete ha (by simp [AttrStop, isAlnumHyphen, isAlnum, isAlpha, isDigit])
  have h2 : tag [0x3D] (0x3D :: (sv0 ++ (b ++ r))) = .ok [0x3D] (sv0 ++ (b ++ r)) :=
    tag_append [0x3D] (sv0 ++ (b ++ r))
  have h3 : unescaped (sv0 ++ (b ++ r)) = .ok v0 (b ++ r) := unescaped_complete hv0 hstop1
  have h4 : many0 starPiece (b ++ r) = .ok mids r := many_star_complete hm hr
  have e : (a ++ 0x3D :: (sv0 ++ b)) ++ r = a ++ (0x3D :: (sv0 ++ (b ++ r))) := by simp
  have h5 : mapRes (many0 starPiece) (fun v => if midBad v.length 0 v then none else some v) (b ++ r) =
      .ok mids r := mapRes_eq h4 (by simp [hb])
  rw [e, eq_def, andThen_eq h1, andThen_eq h2, andThen_eq h3, andThen_eq h5]
  simp [ht]

/-! ## parts ⇒ grammar -/

theorem star_to_any {any : List Bytes} {b1 : Bytes} (hm : Many StarR any b1) (hne : ∀ e ∈ any, e ≠ []) :
    ∃ sa, RAny any sa ∧ b1 ++ [0x2A] = 0x2A :: sa := by
  induction hm with
  | nil => exact ⟨[], .nil, rfl⟩
  | @cons o s os b hs _ ih =>
    obtain ⟨sv, hv, rfl⟩ := hs
    obtain ⟨sa, hra, e⟩ := ih (fun x hx => hne x (by simp [hx]))
    refine ⟨sv ++ 0x2A :: sa, .cons (hne o (by simp)) hv hra, ?_⟩
    rw [List.append_assoc, e]; simp

theorem any_to_star {any : List Bytes} {sa : Bytes} (h : RAny any sa) :
    ∃ b1, Many StarR any b1 ∧ b1 ++ [0x2A] = 0x2A :: sa ∧ ∀ e ∈ any, e ≠ [] := by
  induction h with
  | nil => exact ⟨[], .nil, rfl, by simp⟩
  | @cons v s vs ss hne hv _ ih =>
    obtain ⟨b1, hm, e, hall⟩ := ih
    refine ⟨(0x2A :: s) ++ b1, .cons ⟨s, hv, rfl⟩ hm, ?_, ?_⟩
    · rw [List.append_assoc, e]; simp
    · intro x hx
      cases hx with
      | head => exact hne
      | tail _ hx => exact hall x hx

theorem ropt_optNE {v sv : Bytes} (h : RVal v sv) : ROpt (optNE v) sv := by
  unfold optNE
  cases v with
  | nil => rw [rval_nil h]; exact .none
  | cons x v => exact .some (by simp) h

theorem parts_to_G {a v0 : Bytes} {mids : List Bytes} {sv0 b : Bytes} (hp : EqParts a v0 mids sv0 b) :
    GItem .lib (eqFilter a v0 mids) (a ++ 0x3D :: (sv0 ++ b)) := by
  obtain ⟨ha, hv0, hm, hb⟩ := hp
  rcases List.eq_nil_or_concat mids with rfl | ⟨any, last, hc⟩
  · cases hm
    simpa [eqFilter] using GItem.eq ha hv0
  · rw [List.concat_eq_append] at hc
    subst hc
    have hlen : (any ++ [last]).length = 0 + any.length + 1 := by simp
    rw [hlen, midBad_spec] at hb
    have hne : ∀ e ∈ any, e ≠ [] := by
      intro e he e0
      have := List.any_eq_false.mp hb e he
      subst e0; simp at this
    obtain ⟨b1, b2, rfl, hm1, hm2⟩ := many_append hm
    obtain ⟨sa, hra, esa⟩ := star_to_any hm1 hne
    cases hm2 with
    | cons hs hnil =>
      cases hnil
      obtain ⟨sl, hvl, rfl⟩ := hs
      have estr : a ++ 0x3D :: (sv0 ++ (b1 ++ (0x2A :: sl ++ []))) = a ++ 0x3D :: (sv0 ++ 0x2A :: (sa ++ sl)) := by
        have : b1 ++ (0x2A :: sl ++ []) = (b1 ++ [0x2A]) ++ sl := by simp
        rw [this, esa]; simp
      rw [estr]
      have hl : (any ++ [last]).getLast! = last := by simp
      by_cases hp : v0.isEmpty = true ∧ any = [] ∧ last.isEmpty = true
      · obtain ⟨h1, rfl, h3⟩ := hp
        have e0 : v0 = [] := by simpa using h1
        have el : last = [] := by simpa using h3
        subst e0 el
        cases hra
        rw [rval_nil hv0, rval_nil hvl]
        simpa [eqFilter] using GItem.present ha
      · have hpres : (v0.isEmpty && (any ++ [last]).length == 1 && last.isEmpty) = false := by
          cases h1 : v0.isEmpty with
          | false => simp
          | true =>
            cases any with
            | nil =>
              cases h3 : last.isEmpty with
              | false => simp
              | true => exact absurd ⟨h1, rfl, h3⟩ hp
            | cons x xs => simp
        have hemp : (any ++ [last]).isEmpty = false := by simp
        simp only [eqFilter, hl, hemp, hpres, Bool.false_eq_true, if_false, List.dropLast_concat]
        refine GItem.substr ha (ropt_optNE hv0) hra (ropt_optNE hvl) ?_
        by_cases h1 : v0.isEmpty = true
        · by_cases h2 : any = []
          · right; right
            have : last.isEmpty = false := by
              cases h3 : last.isEmpty with
              | false => rfl
              | true => exact absurd ⟨h1, h2, h3⟩ hp
            simp [optNE, this]
          · right; left; exact h2
        · left; simp at h1; simp [optNE, h1]

/-! ## grammar ⇒ parts -/

theorem G_eq_parts {a v sv : Bytes} (ha : IsAttrDesc .lib a) (hv : RVal v sv) :
    ∃ v0 mids sv0 b, EqParts a v0 mids sv0 b ∧ a ++ 0x3D :: sv = a ++ 0x3D :: (sv0 ++ b) ∧
      Spec.Filter.eq a v = eqFilter a v0 mids :=
  ⟨v, [], sv, [], ⟨ha, hv, .nil, by simp [midBad]⟩, by simp, by simp [eqFilter]⟩

theorem G_present_parts {a : Bytes} (ha : IsAttrDesc .lib a) :
    ∃ v0 mids sv0 b, EqParts a v0 mids sv0 b ∧ a ++ [0x3D, 0x2A] = a ++ 0x3D :: (sv0 ++ b) ∧
      Spec.Filter.present a = eqFilter a v0 mids := by
  refine ⟨[], [[]], [], [0x2A], ⟨ha, .nil, ?_, by simp [midBad]⟩, by simp, by simp [eqFilter]⟩
  have : Many StarR [[]] ([0x2A] ++ []) := .cons ⟨[], .nil, rfl⟩ .nil
  simpa using this

theorem ropt_rval {o : Option Bytes} {s : Bytes} (h : ROpt o s) : RVal (o.getD []) s ∧ optNE (o.getD []) = o := by
  cases h with
  | none => exact ⟨.nil, by simp [optNE]⟩
  | @some v s hne hv =>
    refine ⟨hv, ?_⟩
    cases v with
    | nil => exact absurd rfl hne
    | cons x v => simp [optNE]

theorem G_substr_parts {a : Bytes} {ini fin : Option Bytes} {any : List Bytes} {si sa sf : Bytes}
    (ha : IsAttrDesc .lib a) (hi : ROpt ini si) (hy : RAny any sa) (hf : ROpt fin sf)
    (hne : ini.isSome = true ∨ any ≠ [] ∨ fin.isSome = true) :
    ∃ v0 mids sv0 b, EqParts a v0 mids sv0 b ∧
      a ++ 0x3D :: (si ++ 0x2A :: (sa ++ sf)) = a ++ 0x3D :: (sv0 ++ b) ∧
      Spec.Filter.substr a ini any fin = eqFilter a v0 mids := by
  obtain ⟨hvi, ei⟩ := ropt_rval hi
  obtain ⟨hvf, ef⟩ := ropt_rval hf
  obtain ⟨b1, hm1, eb, hall⟩ := any_to_star hy
  have hm2 : Many StarR [fin.getD []] ((0x2A :: sf) ++ []) := .cons ⟨sf, hvf, rfl⟩ .nil
  have hm := many_of_append hm1 hm2
  have hlen : (any ++ [fin.getD []]).length = 0 + any.length + 1 := by simp
  have hb : midBad (any ++ [fin.getD []]).length 0 (any ++ [fin.getD []]) = false := by
    rw [hlen, midBad_spec]
    apply List.any_eq_false.mpr
    intro e he
    have := hall e he
    cases e <;> simp_all
  refine ⟨ini.getD [], any ++ [fin.getD []], si, _, ⟨ha, hvi, hm, hb⟩, ?_, ?_⟩
  · have : b1 ++ (0x2A :: sf ++ []) = (b1 ++ [0x2A]) ++ sf := by simp
    rw [this, eb]; simp
  · have hl : (any ++ [fin.getD []]).getLast! = fin.getD [] := by simp
    have hemp : (any ++ [fin.getD []]).isEmpty = false := by simp
    have hpres : ((ini.getD []).isEmpty && (any ++ [fin.getD []]).length == 1 &&
        (fin.getD []).isEmpty) = false := by
      rcases hne with h | h | h
      · cases hi with
        | none => simp at h
        | @some v s hne' _ =>
          cases v with
          | nil => exact absurd rfl hne'
          | cons x v => simp
      · cases any with
        | nil => exact absurd rfl h
        | cons x xs => simp
      · cases hf with
        | none => simp at h
        | @some v s hne' _ =>
          cases v with
          | nil => exact absurd rfl hne'
          | cons x v => simp
    simp only [eqFilter, hl, hemp, hpres, Bool.false_eq_true, if_false, List.dropLast_concat, ei, ef]

/-! ## `eq` against the grammar -/

theorem eq_item_sound {i : Bytes} {t : Tag} {r : Bytes} (h : eq i = .ok t r) :
    ∃ f s, i = s ++ r ∧ GItem .lib f s ∧ t.toTlv = toTlv f := by
  obtain ⟨a, v0, mids, sv0, b, e, hp, ht⟩ := eq_sound h
  obtain ⟨t', ht', htl⟩ := eqTag_spec a v0 mids hp.2.2.2
  rw [ht] at ht'
  cases ht'
  exact ⟨_, _, e, parts_to_G hp, htl⟩

end Ldap3V.Filter

/-
Supporting lemmas of Props/C10.lean: the refinement theorem for both chains, the state reached by a
call sequence, `finish()` at reachable states, panic freedom, absorbing errors.
-/
import Ldap3V.Lemmas.StreamSearch
import Ldap3V.Lemmas.StreamStates
namespace Ldap3V.Stream
open Spec

/-- legal moves of the stream state under one call -/
def Trans (a b : SState) : Prop :=
  b = a ∨ (a = .fresh ∧ (b = .active ∨ b = .error)) ∨ (a = .active ∧ (b = .done ∨ b = .error)) ∨
    (a ≠ .closed ∧ b = .closed)

theorem step_trans (m : M) (k : Call) : Trans m.s.state (step m k).1.s.state := by
  cases k with
  | start q =>
    show Trans m.s.state (start m.chain m.s q).2.1.state
    by_cases hf : m.s.state = .fresh
    · have := start_state m.chain m.s q hf
      cases hr : (start m.chain m.s q).2.2 with
      | ok => exact Or.inr (Or.inl ⟨hf, Or.inl (this.1 hr)⟩)
      | err e => exact Or.inr (Or.inl ⟨hf, Or.inr (this.2 e hr)⟩)
    · rw [start_notfresh _ _ _ hf]; exact Or.inl rfl
  | next =>
    show Trans m.s.state (next (fuelOf m) true m.chain m.s).2.1.state
    rcases (next_trans_all (fuelOf m)).1 true m.chain m.s with h | ⟨ha, h⟩
    · exact Or.inl h
    · exact Or.inr (Or.inr (Or.inl ⟨ha, h⟩))
  | finish =>
    show Trans m.s.state (finish m.chain m.s).2.1.state
    by_cases hc : m.s.state = .closed
    · rw [finish_closed _ _ hc]; exact Or.inl rfl
    · rw [(finish_open _ _ hc).1]; exact Or.inr (Or.inr (Or.inr ⟨hc, rfl⟩))
  | state => exact Or.inl rfl

/-- `next()` outside Active: `Ok(None)`, nothing changes -/
theorem step_next_inactive (m : M) (h : m.s.state ≠ .active) : step m .next = (m, .item (.ok none)) := by
  rw [step_next_eq, fuelOf_succ, next_inactive _ _ _ _ h]

/-- a second `finish()`: rc 80, nothing changes -/
theorem step_finish_closed (m : M) (h : m.s.state = .closed) : step m .finish = (m, .result alreadyFinalized) := by
  rw [step_finish_eq, finish_closed _ _ h]

/-- `finish()` on a stream not yet closed, whatever the chain -/
theorem step_finish_open (m : M) (h : m.s.state ≠ .closed) :
    (step m .finish).2 = .result { (m.s.res.getD cancelled) with
        refs := (m.s.res.getD cancelled).refs ++ chainRefs m.chain } ∧
    (step m .finish).1.s.state = .closed ∧
    (step m .finish).1.s.scrubs = (if m.s.state = .done then m.s.scrubs else m.s.scrubs ++ [m.s.reqs.length]) := by
  rw [step_finish_eq]
  obtain ⟨h1, h2⟩ := finish_open m.chain m.s h
  refine ⟨by rw [h2]; rfl, by rw [h1]; rfl, by rw [h1]; exact finishInner_scrubs _⟩

/-- an `Err` from `next()` leaves the stream in state Error -/
theorem step_next_err (m : M) (e : Err) (h : (step m .next).2 = .item (.err e)) : (step m .next).1.s.state = .error := by
  rw [step_next_eq, fuelOf_succ] at h ⊢
  by_cases ha : m.s.state = .active
  · simp only [Output.item.injEq] at h
    exact (next_top_result _ _ _ ha).1 e h
  · rw [next_inactive _ _ _ _ ha] at h; simp at h

/-- `Ok(None)` from `next()` on an Active stream: Done -/
theorem step_next_none (m : M) (ha : m.s.state = .active) (h : (step m .next).2 = .item (.ok none)) :
    (step m .next).1.s.state = .done := by
  rw [step_next_eq, fuelOf_succ] at h ⊢
  simp only [Output.item.injEq] at h
  exact (next_top_result _ _ _ ha).2 h

/-! ### states reached by a call sequence (direct, EntriesOnly) -/

theorem exec_start (m0 : M) (q : Query) (calls : List Call) (h : (step m0 (.start q)).2.stuck = false) :
    exec m0 (.start q :: calls) = exec (step m0 (.start q)).1 calls := by
  rw [exec_cons, h]; rfl

theorem run_start_mem (m0 : M) (q : Query) (calls : List Call) (h : (step m0 (.start q)).2.stuck = false)
    (o : Output) (ho : o ∈ run (step m0 (.start q)).1 calls) : o ∈ run m0 (.start q :: calls) := by
  rw [run_cons, h]; exact List.mem_cons_of_mem _ ho

theorem reach_direct (h : Handle) (pages : List Page) (q : Query) (calls : List Call)
    (hns : ∀ o ∈ run (init [] h pages) (.start q :: calls), o.stuck = false) :
    ∃ c, RelD (exec (init [] h pages) (.start q :: calls)) c ∧ CInv c ∧ c.ending = (view [] pages).ending := by
  obtain ⟨ho, hR⟩ := direct_start h pages q
  have hs : (step (init [] h pages) (.start q)).2.stuck = false := by rw [ho]; exact Cursor.start_not_stuck _ _ _
  rw [exec_start _ _ _ hs]
  refine ⟨_, exec_sim (startOutcome [] h q pages) RelD (fun m c k hR => RelD.step _ m c k hR) calls _ _ hR
    (fun o ho' => hns o (run_start_mem _ _ _ hs o ho')), ?_, ?_⟩
  · exact CInv.exec _ _ _ ((CInv.ofView _).step _ _)
  · rw [Cursor.exec_ending, Cursor.step_ending]; rfl

theorem reach_eo (h : Handle) (pages : List Page) (q : Query) (calls : List Call)
    (hns : ∀ o ∈ run (init [eo] h pages) (.start q :: calls), o.stuck = false) :
    ∃ c, RelE (exec (init [eo] h pages) (.start q :: calls)) c ∧ CInv c ∧
      c.ending = (view [.entriesOnly] pages).ending := by
  obtain ⟨ho, hR⟩ := eo_start h pages q
  have hs : (step (init [eo] h pages) (.start q)).2.stuck = false := by rw [ho]; exact Cursor.start_not_stuck _ _ _
  rw [exec_start _ _ _ hs]
  refine ⟨_, exec_sim (startOutcome [.entriesOnly] h q pages) RelE (fun m c k hR => RelE.step _ m c k hR) calls _ _ hR
    (fun o ho' => hns o (run_start_mem _ _ _ hs o ho')), ?_, ?_⟩
  · exact CInv.exec _ _ _ ((CInv.ofView _).step _ _)
  · rw [Cursor.exec_ending, Cursor.step_ending]; rfl

/-- the result at the end of a view is a `Done` of the first script -/
theorem rawView_done_mem (l : List Recv) (g : List Bytes) (r : Res) (h : (rawView l).ending = .done g r) :
    Recv.done r ∈ l ∧ g = [] := by
  induction l with
  | nil => simp [rawView] at h
  | cons x l ih =>
    cases x with
    | item i => rw [rawView_item] at h; exact ⟨List.mem_cons_of_mem _ (ih h).1, (ih h).2⟩
    | done r' => simp [rawView] at h; exact ⟨by rw [h.2]; exact List.mem_cons_self .., h.1⟩
    | closed => simp [rawView] at h
    | timeout => simp [rawView] at h

theorem eoRaw_done_mem : ∀ (l : List Recv) (g0 g : List Bytes) (r : Res), (eoRaw g0 l).ending = .done g r →
    Recv.done r ∈ l := by
  intro l
  induction l with
  | nil => intro g0 g r h; simp [eoRaw_nil] at h
  | cons x l ih =>
    intro g0 g r h
    cases x with
    | item i =>
      rcases kind_cases i.kind with hk | hk | hk
      · rw [eoRaw_entry _ _ _ hk] at h; exact List.mem_cons_of_mem _ (ih _ _ _ h)
      · rw [eoRaw_inter _ _ _ hk] at h; exact List.mem_cons_of_mem _ (ih _ _ _ h)
      · cases hu : i.uris with
        | none => rw [eoRaw_badref _ _ _ hk hu] at h; simp at h
        | some us => rw [eoRaw_ref _ _ _ _ hk hu] at h; exact List.mem_cons_of_mem _ (ih _ _ _ h)
    | done r' => rw [eoRaw_done] at h; simp at h; rw [h.2]; exact List.mem_cons_self ..
    | closed => rw [eoRaw_closed] at h; simp at h
    | timeout => rw [eoRaw_timeout] at h; simp at h

theorem view_done_mem (eoFlag : Bool) (pages : List Page) (g : List Bytes) (r : Res)
    (h : (view (if eoFlag then [.entriesOnly] else []) pages).ending = .done g r) :
    ∃ l ps, pages = .script l :: ps ∧ Recv.done r ∈ l := by
  cases pages with
  | nil => cases eoFlag <;> simp [view, eoView, eoSteps, End.addGain] at h
  | cons p ps =>
    cases p with
    | fail e => cases eoFlag <;> simp [view, eoView, eoSteps, End.addGain] at h
    | script l =>
      refine ⟨l, ps, rfl, ?_⟩
      cases eoFlag with
      | false => exact (rawView_done_mem l g r h).1
      | true => exact eoRaw_done_mem l [] g r h

end Ldap3V.Stream

/- Association-list maps of Model/Entry.lean: what `lookup` sees after each operation. -/
import Ldap3V.Model.Entry
namespace Ldap3V
namespace AMap

theorem lookup_insert {β : Type} (m : AMap β) (k : Bytes) (v : β) (a : Bytes) :
    lookup (insert m k v) a = if k = a then some v else lookup m a := by
  induction m with
  | nil => simp [insert, lookup]
  | cons p r ih =>
    obtain ⟨k', v'⟩ := p
    by_cases h : k' = k
    · subst h; by_cases h2 : k' = a <;> simp [insert, lookup, h2]
    · by_cases h2 : k = a
      · subst h2; simp [insert, lookup, h, ih]
      · simp [insert, lookup, h, ih, h2]

/-- append `vs` to the vector at `k`, creating it when absent (specification-level helper) -/
def appendAt : AMap (List Bytes) → Bytes → List Bytes → AMap (List Bytes)
  | [], k, vs => [(k, vs)]
  | (k', l) :: r, k, vs => if k' = k then (k', l ++ vs) :: r else (k', l) :: appendAt r k vs

theorem lookup_appendAt (m : AMap (List Bytes)) (k : Bytes) (vs : List Bytes) (a : Bytes) :
    lookup (appendAt m k vs) a = if k = a then some ((lookup m k).getD [] ++ vs) else lookup m a := by
  induction m with
  | nil => simp [appendAt, lookup]
  | cons p r ih =>
    obtain ⟨k', l⟩ := p
    by_cases h : k' = k
    · subst h; by_cases h2 : k' = a <;> simp [appendAt, lookup, h2]
    · by_cases h2 : k = a
      · subst h2; simp [appendAt, lookup, h, ih]
      · simp [appendAt, lookup, h, ih, h2]

theorem pushAt_eq (m : AMap (List Bytes)) (k v : Bytes) : pushAt m k v = appendAt m k [v] := by
  induction m with
  | nil => rfl
  | cons p r ih => obtain ⟨k', l⟩ := p; simp [pushAt, appendAt, ih]

theorem appendAt_appendAt (m : AMap (List Bytes)) (k : Bytes) (xs ys : List Bytes) :
    appendAt (appendAt m k xs) k ys = appendAt m k (xs ++ ys) := by
  induction m with
  | nil => simp [appendAt]
  | cons p r ih =>
    obtain ⟨k', l⟩ := p
    by_cases h : k' = k <;> simp [appendAt, h, ih]

/-- after something was appended at `k`, `get_mut(&k)` finds the vector -/
theorem extendAt_appendAt (m : AMap (List Bytes)) (k : Bytes) (xs ys : List Bytes) :
    extendAt (appendAt m k xs) k ys = some (appendAt m k (xs ++ ys)) := by
  induction m with
  | nil => simp [appendAt, extendAt]
  | cons p r ih =>
    obtain ⟨k', l⟩ := p
    by_cases h : k' = k <;> simp [appendAt, extendAt, h, ih]

/-- `pushAt` folded over a list of values -/
def pushAll (m : AMap (List Bytes)) (k : Bytes) : List Bytes → AMap (List Bytes)
  | [] => m
  | v :: vs => pushAll (pushAt m k v) k vs

theorem pushAll_eq (m : AMap (List Bytes)) (k : Bytes) (vs : List Bytes) (h : vs ≠ []) :
    pushAll m k vs = appendAt m k vs := by
  induction vs generalizing m with
  | nil => exact absurd rfl h
  | cons v vs ih =>
    cases vs with
    | nil => simp [pushAll, pushAt_eq]
    | cons w ws => rw [pushAll, ih _ (by simp), pushAt_eq, appendAt_appendAt]; rfl

theorem mem_keys_iff {β : Type} (m : AMap β) (a : Bytes) : a ∈ keys m ↔ (lookup m a).isSome = true := by
  induction m with
  | nil => simp [keys, lookup]
  | cons p r ih =>
    obtain ⟨k', v⟩ := p
    by_cases h : k' = a
    · simp [keys, lookup, h]
    · have : ¬ a = k' := fun e => h e.symm
      simp only [keys] at ih
      simp [keys, lookup, h, this, ih]

end AMap
end Ldap3V

/-
After Unbind: `self.stream.close()` closes the sink (`sinkClosed`), no later write can succeed.
Step lemmas and run invariants used by Props/C04 (nothing is written after Unbind) and by Props/C01
(a search still queued when the sink closes never receives anything).
-/
import Ldap3V.Lemmas.ConnBasic
namespace Ldap3V.Conn

theorem routeSearch_sink (s : St) (c : Nat) (f : Frame) :
    (routeSearch s c f).sinkClosed = s.sinkClosed ∧ (routeSearch s c f).wire = s.wire := by
  unfold routeSearch
  simp only []
  split
  · exact ⟨rfl, rfl⟩
  · split <;> split <;> exact ⟨rfl, rfl⟩

/-- once the sink is closed it stays closed and nothing more is written, whatever the event -/
theorem step_closed {s s' : St} {ob : Obs} (e : Ev) (h : s.sinkClosed = true) (hs : step s e = some (s', ob)) :
    s'.sinkClosed = true ∧ s'.wire = s.wire := by
  cases e <;> simp only [step] at hs
  all_goals repeat' split at hs
  all_goals first | cases hs; done | skip
  all_goals simp only [Option.some.injEq, Prod.mk.injEq] at hs
  all_goals obtain ⟨rfl, _⟩ := hs
  all_goals first | exact ⟨h, rfl⟩ | skip
  rw [(routeSearch_sink _ _ _).1, (routeSearch_sink _ _ _).2]
  exact ⟨h, rfl⟩

theorem run_closed (evs : List Ev) : ∀ s, s.sinkClosed = true →
    (Conn.run s evs).sinkClosed = true ∧ (Conn.run s evs).wire = s.wire := by
  induction evs with
  | nil => intro s h; exact ⟨h, rfl⟩
  | cons e es ih =>
    intro s h
    simp only [Conn.run, List.foldl_cons]
    cases hstep : Conn.step s e with
    | none => exact ih s h
    | some r =>
      obtain ⟨s', ob⟩ := r
      obtain ⟨h1, h2⟩ := step_closed e h hstep
      obtain ⟨h3, h4⟩ := ih s' h1
      exact ⟨h3, h4.trans h2⟩

/-- what the driver can do with a request it takes from the queue once the sink is closed: discard it because its
ID is no longer reserved, or fail the write and end; nothing is written -/
theorem drvOp_closed {s s' : St} {ob : Obs} {b : Bool} (h : s.sinkClosed = true)
    (hs : step s (.drvOp b) = some (s', ob)) :
    (ob = .skipped ∨ (b = false ∧ s'.drv = .endedErr)) ∧ s'.wire = s.wire := by
  refine ⟨?_, (step_closed _ h hs).2⟩
  simp only [step] at hs
  split at hs
  · cases hs
  · split at hs
    · cases hs
    · split at hs
      · cases hs
      · split at hs
        · simp only [Option.some.injEq, Prod.mk.injEq] at hs
          exact Or.inl hs.2.symm
        · split at hs
          · next hb =>
            simp only [Option.some.injEq, Prod.mk.injEq] at hs
            obtain ⟨rfl, _⟩ := hs
            exact Or.inr ⟨by simpa using hb, rfl⟩
          · cases hs

/-- the only step that closes the sink is the successful write of an Unbind -/
theorem step_closes {s s' : St} {ob : Obs} (e : Ev) (h : s.sinkClosed = false) (hs : step s e = some (s', ob))
    (h' : s'.sinkClosed = true) : ∃ id, s'.wire = s.wire ++ [(id, .unbind)] := by
  have no : ∀ t : St, t.sinkClosed = s.sinkClosed → t.sinkClosed = true → False := by
    intro t h1 h2; rw [h1, h] at h2; cases h2
  cases e
  case drvOp b =>
    simp only [step] at hs
    split at hs
    · cases hs
    · split at hs
      · cases hs
      · split at hs
        · cases hs
        · next o ho =>
          split at hs
          · simp only [Option.some.injEq, Prod.mk.injEq] at hs
            obtain ⟨rfl, _⟩ := hs
            exact (no _ rfl h').elim
          · split at hs
            · simp only [Option.some.injEq, Prod.mk.injEq] at hs
              obtain ⟨rfl, _⟩ := hs
              exact (no _ rfl h').elim
            · split at hs
              · cases hs
              · cases hk : o.kind with
                | unbind =>
                  simp only [hk, Option.some.injEq, Prod.mk.injEq] at hs
                  obtain ⟨rfl, _⟩ := hs
                  exact ⟨o.id, rfl⟩
                | single =>
                  simp only [hk, Option.some.injEq, Prod.mk.injEq] at hs
                  obtain ⟨rfl, _⟩ := hs
                  exact (no _ rfl h').elim
                | search =>
                  simp only [hk, Option.some.injEq, Prod.mk.injEq] at hs
                  obtain ⟨rfl, _⟩ := hs
                  exact (no _ rfl h').elim
                | abandon t =>
                  simp only [hk, Option.some.injEq, Prod.mk.injEq] at hs
                  obtain ⟨rfl, _⟩ := hs
                  exact (no _ rfl h').elim
  all_goals simp only [step] at hs
  all_goals repeat' split at hs
  all_goals first | cases hs; done | skip
  all_goals simp only [Option.some.injEq, Prod.mk.injEq] at hs
  all_goals obtain ⟨rfl, _⟩ := hs
  all_goals first
    | exact (no _ rfl h').elim
    | (refine (no _ ?_ h').elim; exact (routeSearch_sink _ _ _).1)

/-- in every reachable state with a closed sink the last request written is an Unbind -/
theorem closed_by_unbind (evs : List Ev) : ∀ s, (s.sinkClosed = true → ∃ w id, s.wire = w ++ [(id, Kind.unbind)]) →
    (Conn.run s evs).sinkClosed = true → ∃ w id, (Conn.run s evs).wire = w ++ [(id, Kind.unbind)] := by
  induction evs with
  | nil => intro s h; exact h
  | cons e es ih =>
    intro s h
    simp only [Conn.run, List.foldl_cons]
    cases hstep : Conn.step s e with
    | none => exact ih s h
    | some r =>
      obtain ⟨s', ob⟩ := r
      apply ih s'
      intro h'
      cases hc : s.sinkClosed with
      | true =>
        obtain ⟨w, id, hw⟩ := h hc
        exact ⟨w, id, by rw [(step_closed e hc hstep).2, hw]⟩
      | false =>
        obtain ⟨id, hw⟩ := step_closes e hc hstep h'
        exact ⟨s.wire, id, hw⟩

/-! ### a search whose request is still in the queue when the sink closes never receives anything -/

/-- the sink is closed, channel `c` is not registered and has received nothing -/
structure Shut (c : Nat) (s : St) : Prop where
  closed : s.sinkClosed = true
  unreg : ∀ k, (k, c) ∉ s.searchmap
  empty : ∀ ch, s.chans[c]? = some ch → ch.items = []

/-- channel `c` of `cs'` holds what it held in `cs` (or is new and empty) -/
def ItemsSame (c : Nat) (cs cs' : List Chan) : Prop :=
  ∀ ch', cs'[c]? = some ch' → ch'.items = [] ∨ ∃ ch, cs[c]? = some ch ∧ ch'.items = ch.items

theorem ItemsSame.refl (c : Nat) (cs : List Chan) : ItemsSame c cs cs := fun ch' h => Or.inr ⟨ch', h, rfl⟩

theorem itemsSame_set (c : Nat) (cs : List Chan) (j : Nat) (ch0 ch1 : Chan) (h0 : cs[j]? = some ch0)
    (h1 : ch1.items = ch0.items) : ItemsSame c cs (cs.set j ch1) := by
  intro ch' h
  rw [List.getElem?_set] at h
  split at h
  · next e =>
    subst e
    split at h
    · cases h; exact Or.inr ⟨ch0, h0, h1⟩
    · cases h
  · exact Or.inr ⟨ch', h, rfl⟩

theorem itemsSame_modify (c : Nat) (cs : List Chan) (j : Nat) (g : Chan → Chan) (hg : ∀ ch, (g ch).items = ch.items) :
    ItemsSame c cs (modifyChan cs j g) := by
  unfold modifyChan
  cases h : cs[j]? with
  | none => exact ItemsSame.refl _ _
  | some ch0 => exact itemsSame_set c cs j ch0 _ h (hg ch0)

theorem itemsSame_dropRxOf (c : Nat) (cs : List Chan) (x : Option Nat) : ItemsSame c cs (dropRxOf cs x) := by
  cases x with
  | none => exact ItemsSame.refl _ _
  | some j => exact itemsSame_modify c cs j _ (fun _ => rfl)

/-- a modification of ANOTHER channel -/
theorem itemsSame_modify_ne (c : Nat) (cs : List Chan) (j : Nat) (g : Chan → Chan) (hne : j ≠ c) :
    ItemsSame c cs (modifyChan cs j g) := by
  intro ch' h
  rw [modifyChan_get, if_neg (fun e => hne e.symm)] at h
  exact Or.inr ⟨ch', h, rfl⟩

theorem Shut.of {c : Nat} {s s' : St} (h : Shut c s) (hc : s'.sinkClosed = true)
    (hsm : ∀ p ∈ s'.searchmap, p ∈ s.searchmap) (hch : ItemsSame c s.chans s'.chans) : Shut c s' := by
  refine ⟨hc, fun k hk => h.unreg k (hsm _ hk), fun ch' hch' => ?_⟩
  rcases hch ch' hch' with e | ⟨ch, h1, h2⟩
  · exact e
  · rw [h2]; exact h.empty ch h1

theorem Shut.routeSearch {c : Nat} {s : St} (h : Shut c s) (c' : Nat) (f : Frame) (hne : c' ≠ c) :
    Shut c (routeSearch s c' f) := by
  have key : ∀ (b : Bool) (chans' : List Chan), ItemsSame c s.chans chans' →
      Shut c (if b = true then ({ s with chans := chans', searchmap := erase s.searchmap f.id, inUse := eraseId s.inUse f.id } : St)
        else { s with chans := chans' }) := by
    intro b chans' hi
    cases b with
    | true => exact h.of h.closed (fun p hp => (mem_erase hp).1) hi
    | false => exact h.of h.closed (fun p hp => hp) hi
  have kend : Shut c (endDriver s .endedErr) := h.of h.closed (fun p hp => by cases hp) (ItemsSame.refl _ _)
  unfold Conn.routeSearch
  simp only []
  split
  · exact kend
  · apply key
    repeat' split
    all_goals first
      | exact itemsSame_modify_ne c _ c' _ hne
      | exact ItemsSame.refl _ _

theorem Shut.step {c : Nat} {s s' : St} {ob : Obs} (h : Shut c s) (e : Ev) (hs : Conn.step s e = some (s', ob)) :
    Shut c s' := by
  have hc : s'.sinkClosed = true := (step_closed e h.closed hs).1
  cases e with
  | alloc kind =>
    simp only [Conn.step] at hs
    split at hs
    · simp only [Option.some.injEq, Prod.mk.injEq] at hs
      obtain ⟨rfl, _⟩ := hs
      refine h.of hc (fun p hp => hp) ?_
      intro ch' hch'
      simp only at hch'
      split at hch'
      · rw [List.getElem?_append] at hch'
        split at hch'
        · exact Or.inr ⟨ch', hch', rfl⟩
        · rw [List.getElem?_singleton] at hch'
          split at hch'
          · cases hch'; exact Or.inl rfl
          · cases hch'
      · exact Or.inr ⟨ch', hch', rfl⟩
    · simp only [Option.some.injEq, Prod.mk.injEq] at hs
      obtain ⟨rfl, _⟩ := hs
      exact h
    · cases hs
  | enqueue i tmo =>
    simp only [Conn.step] at hs
    repeat' split at hs
    all_goals first | cases hs; done | skip
    all_goals simp only [Option.some.injEq, Prod.mk.injEq] at hs
    all_goals obtain ⟨rfl, _⟩ := hs
    all_goals exact h.of hc (fun p hp => hp) (ItemsSame.refl _ _)
  | poll i =>
    simp only [Conn.step] at hs
    repeat' split at hs
    all_goals first | cases hs; done | skip
    all_goals simp only [Option.some.injEq, Prod.mk.injEq] at hs
    all_goals obtain ⟨rfl, _⟩ := hs
    all_goals first
      | exact h.of hc (fun p hp => hp) (ItemsSame.refl _ _)
      | exact h.of hc (fun p hp => hp) (itemsSame_dropRxOf _ _ _)
  | recv c' dl =>
    simp only [Conn.step] at hs
    repeat' split at hs
    all_goals first | cases hs; done | skip
    all_goals simp only [Option.some.injEq, Prod.mk.injEq] at hs
    all_goals obtain ⟨rfl, _⟩ := hs
    all_goals first
      | exact h.of hc (fun p hp => hp) (ItemsSame.refl _ _)
      | exact h.of hc (fun p hp => hp) (itemsSame_set _ _ _ _ _ (by assumption) (by rfl))
  | finish c' scrub =>
    simp only [Conn.step] at hs
    repeat' split at hs
    all_goals first | cases hs; done | skip
    all_goals simp only [Option.some.injEq, Prod.mk.injEq] at hs
    all_goals obtain ⟨rfl, _⟩ := hs
    all_goals exact h.of hc (fun p hp => hp) (itemsSame_set _ _ _ _ _ (by assumption) (by rfl))
  | dropHandles =>
    simp only [Conn.step, Option.some.injEq, Prod.mk.injEq] at hs
    obtain ⟨rfl, _⟩ := hs
    exact h.of hc (fun p hp => hp) (ItemsSame.refl _ _)
  | drvScrub =>
    simp only [Conn.step] at hs
    repeat' split at hs
    all_goals first | cases hs; done | skip
    all_goals simp only [Option.some.injEq, Prod.mk.injEq] at hs
    all_goals obtain ⟨rfl, _⟩ := hs
    all_goals exact h.of hc (fun p hp => (mem_erase hp).1) (ItemsSame.refl _ _)
  | drvOp sendOk =>
    simp only [Conn.step] at hs
    split at hs
    · cases hs
    · split at hs
      · cases hs
      · split at hs
        · cases hs
        · split at hs
          · simp only [Option.some.injEq, Prod.mk.injEq] at hs
            obtain ⟨rfl, _⟩ := hs
            exact h.of hc (fun p hp => hp) (ItemsSame.refl _ _)
          · split at hs
            · simp only [Option.some.injEq, Prod.mk.injEq] at hs
              obtain ⟨rfl, _⟩ := hs
              exact h.of hc (fun p hp => by simp [Conn.endDriver] at hp) (ItemsSame.refl _ _)
            · split at hs
              · cases hs
              · next hno => exact absurd h.closed hno
  | drvOpClosed =>
    simp only [Conn.step] at hs
    split at hs
    · simp only [Option.some.injEq, Prod.mk.injEq] at hs
      obtain ⟨rfl, _⟩ := hs
      exact h.of hc (fun p hp => by simp [Conn.endDriver] at hp) (ItemsSame.refl _ _)
    · cases hs
  | drvMiscClosed =>
    simp only [Conn.step] at hs
    split at hs
    · simp only [Option.some.injEq, Prod.mk.injEq] at hs
      obtain ⟨rfl, _⟩ := hs
      exact h.of hc (fun p hp => by simp [Conn.endDriver] at hp) (ItemsSame.refl _ _)
    · cases hs
  | drvResp =>
    simp only [Conn.step] at hs
    split at hs
    · cases hs
    · cases hf : s.srvLog[s.pos]? with
      | none =>
        rw [hf] at hs
        simp only at hs
        split at hs
        · cases hs
        all_goals
          simp only [Option.some.injEq, Prod.mk.injEq] at hs
          obtain ⟨rfl, _⟩ := hs
          exact h.of hc (fun p hp => by simp [Conn.endDriver] at hp) (ItemsSame.refl _ _)
      | some f =>
        rw [hf] at hs
        simp only at hs
        cases hl : lookup s.searchmap f.id with
        | some c' =>
          rw [hl] at hs
          simp only [Option.some.injEq, Prod.mk.injEq] at hs
          obtain ⟨rfl, _⟩ := hs
          obtain ⟨n, hmem, _⟩ := lookup_some hl
          have hne : c' ≠ c := fun e => h.unreg n (e ▸ hmem)
          exact Shut.routeSearch (s := { s with pos := s.pos + 1 }) ⟨h.closed, h.unreg, h.empty⟩ c' f hne
        | none =>
          rw [hl] at hs
          simp only at hs
          split at hs
          all_goals
            simp only [Option.some.injEq, Prod.mk.injEq] at hs
            obtain ⟨rfl, _⟩ := hs
            exact h.of hc (fun p hp => hp) (ItemsSame.refl _ _)
  | srvSend f =>
    simp only [Conn.step] at hs
    split at hs
    · simp only [Option.some.injEq, Prod.mk.injEq] at hs
      obtain ⟨rfl, _⟩ := hs
      exact h.of hc (fun p hp => hp) (ItemsSame.refl _ _)
    · cases hs
  | srvClose =>
    simp only [Conn.step] at hs
    split at hs
    · simp only [Option.some.injEq, Prod.mk.injEq] at hs
      obtain ⟨rfl, _⟩ := hs
      exact h.of hc (fun p hp => hp) (ItemsSame.refl _ _)
    · cases hs
  | srvGarbage =>
    simp only [Conn.step] at hs
    split at hs
    · simp only [Option.some.injEq, Prod.mk.injEq] at hs
      obtain ⟨rfl, _⟩ := hs
      exact h.of hc (fun p hp => hp) (ItemsSame.refl _ _)
    · cases hs
  | tick dt =>
    simp only [Conn.step, Option.some.injEq, Prod.mk.injEq] at hs
    obtain ⟨rfl, _⟩ := hs
    exact h.of hc (fun p hp => hp) (ItemsSame.refl _ _)

theorem Shut.run {c : Nat} (evs : List Ev) : ∀ s, Shut c s → Shut c (Conn.run s evs) := by
  induction evs with
  | nil => intro s h; exact h
  | cons e es ih =>
    intro s h
    simp only [Conn.run, List.foldl_cons]
    cases hstep : Conn.step s e with
    | none => exact ih s h
    | some r => obtain ⟨s', ob⟩ := r; exact ih s' (h.step e hstep)

end Ldap3V.Conn

/-
C20 helper lemmas, part 1: percent-decoding inverts percent-encoding; the encoded text contains
only raw bytes, `%` and hex digits; `split`/`splitN`/`breakAt` against `join`.
-/
import Ldap3V.Spec.Url
namespace Ldap3V.Url
open Ldap3V Ldap3V.Url.Spec

/-! ## hex digits -/

theorem hexVal_hexDigit : ∀ up : Bool, ∀ n, n < 16 → hexVal (hexDigit up n) = some n.toUInt8 := by decide

/-- bytes that are hex digits -/
def isHex (c : UInt8) : Bool :=
  (0x30 ≤ c.toNat && c.toNat ≤ 0x39) || (0x41 ≤ c.toNat && c.toNat ≤ 0x46) || (0x61 ≤ c.toNat && c.toNat ≤ 0x66)

theorem isHex_hexDigit : ∀ up : Bool, ∀ n, n < 16 → isHex (hexDigit up n) = true := by decide

theorem nibbles (b : UInt8) : (b.toNat / 16).toUInt8 * 0x10 + (b.toNat % 16).toUInt8 = b := by
  apply UInt8.toNat_inj.mp
  have := b.toNat_lt
  simp [UInt8.toNat_add, UInt8.toNat_mul]
  omega

/-! ## decode ∘ encode -/

theorem percentDecode_cons_ne (b : UInt8) (r : Bytes) (h : b ≠ 0x25) :
    percentDecode (b :: r) = b :: percentDecode r := by
  rw [percentDecode.eq_def]
  simp [h]

theorem percentDecode_pct (up : Bool) (b : UInt8) (r : Bytes) :
    percentDecode (0x25 :: hexDigit up (b.toNat / 16) :: hexDigit up (b.toNat % 16) :: r) = b :: percentDecode r := by
  have h1 := hexVal_hexDigit up (b.toNat / 16) (by have := b.toNat_lt; omega)
  have h2 := hexVal_hexDigit up (b.toNat % 16) (by omega)
  rw [percentDecode.eq_def]
  simp [h1, h2, nibbles]

theorem pctEncode_cons (raw : UInt8 → Bool) (up : Bool) (b : UInt8) (bs : Bytes) :
    pctEncode raw up (b :: bs) =
      (if raw b then [b] else [0x25, hexDigit up (b.toNat / 16), hexDigit up (b.toNat % 16)]) ++ pctEncode raw up bs := by
  simp [pctEncode]

/-- key lemma: for every byte string, decoding the encoded text gives the bytes back (whatever
follows is decoded independently) -/
theorem percentDecode_pctEncode_append (raw : UInt8 → Bool) (up : Bool) (hraw : ∀ b, raw b = true → b ≠ 0x25)
    (bs rest : Bytes) : percentDecode (pctEncode raw up bs ++ rest) = bs ++ percentDecode rest := by
  induction bs with
  | nil => simp [pctEncode]
  | cons b bs ih =>
    rw [pctEncode_cons]
    by_cases hb : raw b = true
    · simp only [hb, if_true, List.cons_append, List.nil_append]
      rw [percentDecode_cons_ne _ _ (hraw b hb), ih]
    · simp only [hb, Bool.false_eq_true, if_false, List.cons_append, List.nil_append]
      rw [percentDecode_pct, ih]

theorem percentDecode_pctEncode (raw : UInt8 → Bool) (up : Bool) (hraw : ∀ b, raw b = true → b ≠ 0x25)
    (bs : Bytes) : percentDecode (pctEncode raw up bs) = bs := by
  have h := percentDecode_pctEncode_append raw up hraw bs []
  simpa [percentDecode] using h

theorem decodeUtf8_pctEncode (raw : UInt8 → Bool) (up : Bool) (hraw : ∀ b, raw b = true → b ≠ 0x25)
    (bs : Bytes) (hv : utf8Valid bs = true) : decodeUtf8 (pctEncode raw up bs) = some bs := by
  simp [decodeUtf8, percentDecode_pctEncode raw up hraw, hv]

theorem decodeUtf8_nil : decodeUtf8 [] = some [] := by decide

/-- the encoded text consists of raw bytes, `%` and hex digits -/
theorem mem_pctEncode (raw : UInt8 → Bool) (up : Bool) (bs : Bytes) (c : UInt8)
    (h : c ∈ pctEncode raw up bs) : raw c = true ∨ c = 0x25 ∨ isHex c = true := by
  induction bs with
  | nil => simp [pctEncode] at h
  | cons b bs ih =>
    rw [pctEncode_cons] at h
    rcases List.mem_append.mp h with h | h
    · by_cases hb : raw b = true
      · simp only [hb, if_true, List.mem_singleton] at h
        subst h; exact Or.inl hb
      · simp only [hb, Bool.false_eq_true, if_false, List.mem_cons, List.not_mem_nil, or_false] at h
        rcases h with h | h | h
        · exact Or.inr (Or.inl h)
        · subst h; exact Or.inr (Or.inr (isHex_hexDigit up _ (by have := b.toNat_lt; omega)))
        · subst h; exact Or.inr (Or.inr (isHex_hexDigit up _ (by omega)))
    · exact ih h

/-- a separator that the producer never leaves raw does not occur in the encoded text -/
theorem not_mem_pctEncode (raw : UInt8 → Bool) (up : Bool) (bs : Bytes) (sep : UInt8)
    (h1 : raw sep = true → False) (h2 : sep ≠ 0x25) (h3 : isHex sep = false) : sep ∉ pctEncode raw up bs := by
  intro h
  rcases mem_pctEncode raw up bs sep h with h | h | h
  · exact h1 h
  · exact h2 h
  · rw [h3] at h; exact Bool.noConfusion h

theorem pctEncode_eq_nil (raw : UInt8 → Bool) (up : Bool) (bs : Bytes) (h : pctEncode raw up bs = []) : bs = [] := by
  cases bs with
  | nil => rfl
  | cons b bs =>
    rw [pctEncode_cons] at h
    by_cases hb : raw b = true <;> simp [hb] at h

/-! ## `breakAt`, `splitN`, `split` -/

theorem breakAt_append (sep : UInt8) (a r : Bytes) (h : sep ∉ a) : breakAt sep (a ++ sep :: r) = some (a, r) := by
  induction a with
  | nil => simp [breakAt]
  | cons b a ih =>
    have hb : b ≠ sep := fun e => h (by simp [e])
    have ha : sep ∉ a := fun e => h (by simp [e])
    simp [breakAt, hb, ih ha]

theorem breakAt_none (sep : UInt8) (a : Bytes) (h : sep ∉ a) : breakAt sep a = none := by
  induction a with
  | nil => simp [breakAt]
  | cons b a ih =>
    have hb : b ≠ sep := fun e => h (by simp [e])
    have ha : sep ∉ a := fun e => h (by simp [e])
    simp [breakAt, hb, ih ha]

theorem split_nosep (sep : UInt8) (a : Bytes) (h : sep ∉ a) : split sep a = [a] := by
  induction a with
  | nil => simp [split]
  | cons b a ih =>
    have hb : b ≠ sep := fun e => h (by simp [e])
    have ha : sep ∉ a := fun e => h (by simp [e])
    simp [split, hb, ih ha]

theorem split_append (sep : UInt8) (a r : Bytes) (h : sep ∉ a) : split sep (a ++ sep :: r) = a :: split sep r := by
  induction a with
  | nil => simp [split]
  | cons b a ih =>
    have hb : b ≠ sep := fun e => h (by simp [e])
    have ha : sep ∉ a := fun e => h (by simp [e])
    simp [split, hb, ih ha]

theorem split_join (sep : UInt8) (l : List Bytes) (hl : l ≠ []) (h : ∀ x ∈ l, sep ∉ x) : split sep (join sep l) = l := by
  induction l with
  | nil => exact absurd rfl hl
  | cons a l ih =>
    cases l with
    | nil => simpa [join] using split_nosep sep a (h a (by simp))
    | cons b l =>
      rw [join, split_append sep a _ (h a (by simp)), ih (by simp) (fun x hx => h x (by simp [hx]))]

theorem mem_join (sep : UInt8) (l : List Bytes) (c : UInt8) (h : c ∈ join sep l) : c = sep ∨ ∃ x ∈ l, c ∈ x := by
  induction l with
  | nil => simp [join] at h
  | cons a l ih =>
    cases l with
    | nil => exact Or.inr ⟨a, by simp, by simpa [join] using h⟩
    | cons b l =>
      rw [join] at h
      rcases List.mem_append.mp h with h | h
      · exact Or.inr ⟨a, by simp, h⟩
      · rcases List.mem_cons.mp h with h | h
        · exact Or.inl h
        · rcases ih h with h | ⟨x, hx, hc⟩
          · exact Or.inl h
          · exact Or.inr ⟨x, by simp [List.mem_cons] at hx ⊢; rcases hx with hx | hx <;> simp [hx], hc⟩

theorem join_eq_nil (sep : UInt8) (l : List Bytes) (h : join sep l = []) : l = [] ∨ l = [[]] := by
  cases l with
  | nil => exact Or.inl rfl
  | cons a l =>
    cases l with
    | nil => right; simpa [join] using h
    | cons b l => simp [join] at h

theorem join_ne_nil (sep : UInt8) (l : List Bytes) (hl : l ≠ []) (h : ∀ x ∈ l, x ≠ []) : join sep l ≠ [] := by
  intro e
  rcases join_eq_nil sep l e with e | e
  · exact hl e
  · subst e; exact h [] (by simp) rfl

/-! ## `orDefault` -/

theorem orDefault_eq {α : Type} (o : Option Bytes) (d : α) (f : Bytes → α) :
    orDefault o d f = if o.getD [] = [] then d else f (o.getD []) := by
  cases o with
  | none => simp [orDefault]
  | some x => cases x <;> simp [orDefault]

end Ldap3V.Url

/- "Means what it says": for a string of the library's language, the canonical print of the tree it
denotes is the escaping normal form of the string. -/
import Ldap3V.Lemmas.FilterInv
namespace Ldap3V.Filter
open Ldap3V.Spec.Filter
open Ldap3V.Spec (Filter)

theorem normEsc_cons_ne {c : UInt8} (h : c ≠ 0x5C) (r : Bytes) : normEsc (c :: r) = c :: normEsc r := by
  rw [normEsc.eq_def]; simp [h]

theorem normEsc_noBs {x : Bytes} (h : ∀ c ∈ x, c ≠ 0x5C) (y : Bytes) : normEsc (x ++ y) = x ++ normEsc y := by
  induction x with
  | nil => rfl
  | cons c x ih =>
    rw [List.cons_append, normEsc_cons_ne (h c (by simp)), ih (fun d hd => h d (by simp [hd]))]
    rfl

theorem normEsc_rval {v sv : Bytes} (h : RVal v sv) (y : Bytes) : normEsc (sv ++ y) = escCanon v ++ normEsc y := by
  induction h with
  | nil => rfl
  | @lit b v s hb _ ih =>
    have hne : b ≠ 0x5C := ((special_iff b).mp hb).2
    rw [List.cons_append, normEsc_cons_ne hne, ih]
    simp [escCanon, escByte, hb]
  | @esc h1 h2 x z v s hx hz _ ih =>
    simp only [List.cons_append, normEsc, hx, hz, if_true, ih, escCanon]
    simp

theorem normEsc_ropt {o : Option Bytes} {s : Bytes} (h : ROpt o s) (y : Bytes) :
    normEsc (s ++ y) = escOpt o ++ normEsc y := by
  cases h with
  | none => rfl
  | some _ hv => simpa [escOpt] using normEsc_rval hv y

theorem normEsc_rany {vs : List Bytes} {s : Bytes} (h : RAny vs s) (y : Bytes) :
    normEsc (s ++ y) = escAny vs ++ normEsc y := by
  induction h with
  | nil => rfl
  | @cons v s vs ss _ hv _ ih =>
    rw [List.append_assoc, normEsc_rval hv, List.cons_append, normEsc_cons_ne (by decide), ih]
    simp [escAny]

theorem attr_noBs {d : Dialect} {a : Bytes} (h : IsAttrDesc d a) : ∀ c ∈ a, c ≠ 0x5C := by
  intro c hc e
  subst e
  rcases (attrDesc_chars h).2 _ hc with h | h | h
  · simp [isAlnumHyphen, isAlnum, isAlpha, isDigit] at h
  · cases h
  · cases h

theorem oid_noBs {d : Dialect} {a : Bytes} (h : IsOid d a) : ∀ c ∈ a, c ≠ 0x5C := by
  intro c hc e
  subst e
  rcases (oid_chars h).2 _ hc with h | h
  · simp [isAlnumHyphen, isAlnum, isAlpha, isDigit] at h
  · cases h

/-- attribute description, then an operator without backslash, then a value -/
theorem normEsc_attr_op_val {a op v sv : Bytes} (ha : IsAttrDesc .lib a) (hop : ∀ c ∈ op, c ≠ 0x5C)
    (hv : RVal v sv) (y : Bytes) :
    normEsc (a ++ (op ++ sv) ++ y) = a ++ (op ++ escCanon v) ++ normEsc y := by
  have e : a ++ (op ++ sv) ++ y = (a ++ op) ++ (sv ++ y) := by simp
  rw [e, normEsc_noBs (by
    intro c hc
    rcases List.mem_append.mp hc with h | h
    · exact attr_noBs ha c h
    · exact hop c h), normEsc_rval hv]
  simp

theorem normEsc_item {f : Filter} {b : Bytes} (h : GItem .lib f b) (y : Bytes) :
    normEsc (b ++ y) = printItem f ++ normEsc y := by
  cases h with
  | eq ha hv => simpa [printItem] using normEsc_attr_op_val (op := [0x3D]) ha (by decide) hv y
  | ge ha hv => simpa [printItem] using normEsc_attr_op_val (op := [0x3E, 0x3D]) ha (by decide) hv y
  | le ha hv => simpa [printItem] using normEsc_attr_op_val (op := [0x3C, 0x3D]) ha (by decide) hv y
  | approx ha hv => simpa [printItem] using normEsc_attr_op_val (op := [0x7E, 0x3D]) ha (by decide) hv y
  | present ha =>
    simpa [printItem, escCanon] using
      normEsc_attr_op_val (op := [0x3D, 0x2A]) (v := []) (sv := []) ha (by decide) .nil y
  | @substr a ini fin any si sa sf ha hi hy hf _ =>
    have e : a ++ 0x3D :: (si ++ 0x2A :: (sa ++ sf)) ++ y = (a ++ [0x3D]) ++ (si ++ (0x2A :: (sa ++ (sf ++ y)))) := by
      simp
    rw [e, normEsc_noBs (by
      intro c hc
      rcases List.mem_append.mp hc with h | h
      · exact attr_noBs ha c h
      · simp at h; subst h; decide), normEsc_ropt hi, normEsc_cons_ne (by decide), normEsc_rany hy,
      normEsc_ropt hf]
    simp [printItem]
  | @extAttr a v sv kw rule dn ha hk ho _ hv =>
    have hkw : dn = true → kw = [0x64, 0x6E] := fun e => (isDnKw_lib kw).mp (hk e)
    have hop : ∀ c ∈ (if dn then 0x3A :: kw else []) ++ (optStr [0x3A] rule ++ [0x3A, 0x3D]), c ≠ 0x5C := by
      intro c hc
      rcases List.mem_append.mp hc with h | h
      · cases dn with
        | false => simp at h
        | true => rw [hkw rfl] at h; simp at h; rcases h with rfl | rfl | rfl <;> decide
      · rcases List.mem_append.mp h with h | h
        · cases rule with
          | none => simp [optStr] at h
          | some r =>
            simp [optStr] at h
            rcases h with rfl | h
            · decide
            · exact oid_noBs (ho r rfl) c h
        · simp at h; rcases h with rfl | rfl <;> decide
    have := normEsc_attr_op_val ha hop hv y
    cases dn with
    | false => simpa [printItem, optStr] using this
    | true => have ek := hkw rfl; subst ek; simpa [printItem, optStr] using this
  | @extRule m v sv kw dn hm hk hv =>
    have hkw : dn = true → kw = [0x64, 0x6E] := fun e => (isDnKw_lib kw).mp (hk e)
    have e : (if dn then 0x3A :: kw else []) ++ (0x3A :: m ++ 0x3A :: 0x3D :: sv) ++ y =
        ((if dn then 0x3A :: kw else []) ++ (0x3A :: m ++ [0x3A, 0x3D])) ++ (sv ++ y) := by simp
    rw [e, normEsc_noBs (by
      intro c hc
      rcases List.mem_append.mp hc with h | h
      · cases dn with
        | false => simp at h
        | true => rw [hkw rfl] at h; simp at h; rcases h with rfl | rfl | rfl <;> decide
      · simp at h
        rcases h with rfl | h | rfl | rfl
        · decide
        · exact oid_noBs hm c h
        · decide
        · decide), normEsc_rval hv]
    cases dn with
    | false => simp [printItem, optStr]
    | true => have ek := hkw rfl; subst ek; simp [printItem, optStr]

theorem print_of_item {d : Dialect} {f : Filter} {b : Bytes} (h : GItem d f b) :
    print f = 0x28 :: (printItem f ++ [0x29]) := by
  cases h <;> simp [print]

theorem normEsc_paren_item {f : Filter} {b : Bytes} (hb : GItem .lib f b) (y : Bytes) :
    normEsc (0x28 :: (b ++ [0x29]) ++ y) = print f ++ normEsc y := by
  have e : 0x28 :: (b ++ [0x29]) ++ y = 0x28 :: (b ++ (0x29 :: y)) := by simp
  rw [e, normEsc_cons_ne (by decide), normEsc_item hb, normEsc_cons_ne (by decide), print_of_item hb]
  simp

mutual
theorem normEsc_G : (f : Filter) → ∀ (s : Bytes), G .lib f s → ∀ y, normEsc (s ++ y) = print f ++ normEsc y
  | .and fs, s, h, y => by
    simp only [G] at h
    obtain ⟨b, hb, rfl⟩ := h
    have e : 0x28 :: 0x26 :: (b ++ [0x29]) ++ y = 0x28 :: 0x26 :: (b ++ (0x29 :: y)) := by simp
    rw [e, normEsc_cons_ne (by decide), normEsc_cons_ne (by decide), normEsc_GL fs b hb,
      normEsc_cons_ne (by decide)]
    simp [print]
  | .or fs, s, h, y => by
    simp only [G] at h
    obtain ⟨b, hb, rfl⟩ := h
    have e : 0x28 :: 0x7C :: (b ++ [0x29]) ++ y = 0x28 :: 0x7C :: (b ++ (0x29 :: y)) := by simp
    rw [e, normEsc_cons_ne (by decide), normEsc_cons_ne (by decide), normEsc_GL fs b hb,
      normEsc_cons_ne (by decide)]
    simp [print]
  | .not f, s, h, y => by
    simp only [G] at h
    obtain ⟨b, hb, rfl⟩ := h
    have e : 0x28 :: 0x21 :: (b ++ [0x29]) ++ y = 0x28 :: 0x21 :: (b ++ (0x29 :: y)) := by simp
    rw [e, normEsc_cons_ne (by decide), normEsc_cons_ne (by decide), normEsc_G f b hb,
      normEsc_cons_ne (by decide)]
    simp [print]
  | .eq a v, s, h, y => by
    simp only [G] at h
    obtain ⟨b, hb, rfl⟩ := h
    exact normEsc_paren_item hb y
  | .ge a v, s, h, y => by
    simp only [G] at h
    obtain ⟨b, hb, rfl⟩ := h
    exact normEsc_paren_item hb y
  | .le a v, s, h, y => by
    simp only [G] at h
    obtain ⟨b, hb, rfl⟩ := h
    exact normEsc_paren_item hb y
  | .approx a v, s, h, y => by
    simp only [G] at h
    obtain ⟨b, hb, rfl⟩ := h
    exact normEsc_paren_item hb y
  | .present a, s, h, y => by
    simp only [G] at h
    obtain ⟨b, hb, rfl⟩ := h
    exact normEsc_paren_item hb y
  | .substr a i z w, s, h, y => by
    simp only [G] at h
    obtain ⟨b, hb, rfl⟩ := h
    exact normEsc_paren_item hb y
  | .ext r a v n, s, h, y => by
    simp only [G] at h
    obtain ⟨b, hb, rfl⟩ := h
    exact normEsc_paren_item hb y
theorem normEsc_GL : (fs : List Filter) → ∀ (s : Bytes), GL .lib fs s → ∀ y,
    normEsc (s ++ y) = printList fs ++ normEsc y
  | [], s, h, y => by simp only [GL] at h; subst h; rfl
  | f :: fs, s, h, y => by
    simp only [GL] at h
    obtain ⟨a, b, ha, hb, rfl⟩ := h
    rw [List.append_assoc, normEsc_G f a ha, normEsc_GL fs b hb]
    simp [printList]
end
/-- the canonical print of the denoted tree is the escaping normal form of the string -/
theorem print_eq_normTop {f : Filter} {s : Bytes} (h : GLib f s) : print f = normTop s := by
  rcases h with h | h
  · obtain ⟨x, rfl⟩ := G_head h
    have := normEsc_G f _ h []
    simp only [List.append_nil] at this
    simp [normTop, this, normEsc]
  · obtain ⟨c, x, rfl, hc⟩ := item_head h
    have hne : c ≠ 0x28 := by intro e0; subst e0; revert hc; decide
    have := normEsc_item h []
    simp only [List.append_nil] at this
    rw [print_of_item h]
    unfold normTop
    split
    · rename_i heq; cases heq; exact absurd rfl hne
    · rw [this]; simp [normEsc]

/-! ## the trees denoted by strings are well-formed (`Spec.Filter.wf`, checked by the print oracle) -/

theorem rany_nonempty {vs : List Bytes} {s : Bytes} (h : RAny vs s) : vs.all (fun v => !v.isEmpty) = true := by
  induction h with
  | nil => rfl
  | @cons v s vs ss hne _ _ ih =>
    have : v.isEmpty = false := by cases v <;> simp_all
    simp [this, ih]

theorem ropt_wf {o : Option Bytes} {s : Bytes} (h : ROpt o s) : ∀ v, o = some v → v.isEmpty = false := by
  intro v e
  cases h with
  | none => cases e
  | @some w s hv _ =>
    cases e
    cases v with
    | nil => exact absurd rfl hv
    | cons x v => rfl

theorem wfItem_of_GItem {f : Filter} {b : Bytes} (h : GItem .lib f b) : wfItem f = true := by
  cases h with
  | eq _ _ => rfl
  | ge _ _ => rfl
  | le _ _ => rfl
  | approx _ _ => rfl
  | present _ => rfl
  | @substr a ini fin any si sa sf _ hi hy hf hne =>
    have h1 := ropt_wf hi
    have h2 := ropt_wf hf
    have h3 : (ini.isSome || !any.isEmpty || fin.isSome) = true := by
      rcases hne with h | h | h
      · simp [h]
      · cases any with
        | nil => exact absurd rfl h
        | cons x xs => simp
      · simp [h]
    have h4 := rany_nonempty hy
    cases ini <;> cases fin <;> simp_all [wfItem]
  | @extAttr a v sv kw rule dn _ _ _ hn _ =>
    cases dn with
    | true => simp [wfItem]
    | false =>
      cases rule with
      | none => simp [wfItem]
      | some r =>
        have := hn rfl r rfl
        have hne : r ≠ [0x64, 0x6E] := by
          intro e; rw [e] at this; simp [isDnKw] at this
        simp [wfItem, hne]
  | extRule _ _ _ => simp [wfItem]

theorem wf_of_item {f : Filter} {b : Bytes} (h : GItem .lib f b) : wf f = true := by
  have := wfItem_of_GItem h
  cases h <;> simp_all [wf, wfItem]

theorem wf_of_GLib {f : Filter} {s : Bytes} (h : GLib f s) : wf f = true := by
  rcases h with h | h
  · exact (G_rec (d := .lib) (P := fun f _ => wf f = true) (PL := fun fs _ => wfList fs = true)
      (fun fs b h => by simpa [wf] using h) (fun fs b h => by simpa [wf] using h)
      (fun f b h => by simpa [wf] using h) (fun f b h => wf_of_item h) rfl
      (fun f fs a b h1 h2 => by simp [wfList, h1, h2])).1 f s h
  · exact wf_of_item h

end Ldap3V.Filter

/- "Means what it says": for a string of the library's language, the canonical print of the tree it
denotes is the escaping normal form of the string. -/
import Ldap3V.Lemmas.FilterInv
import Ldap3V.Lemmas.FilterDialect
namespace Ldap3V.Filter
open Ldap3V.Spec.Filter
open Ldap3V.Spec (Filter)

theorem normEsc_cons_ne {c : UInt8} (h : c ≠ 0x5C) (r : Bytes) : normEsc (c :: r) = c :: normEsc r := by
  rw [normEsc.eq_def]; simp [h]

theorem normEsc_noBs {x : Bytes} (h : ∀ c ∈ x, c ≠ 0x5C) (y : Bytes) : normEsc (x ++ y) = x ++ normEsc y := by
  induction x with
  | nil => rfl
  | cons c x ih =>
    rw [List.cons_append, normEsc_cons_ne (h c (by simp)), ih (fun d hd => h d (by simp [hd]))]
    rfl

theorem normEsc_rval {v sv : Bytes} (h : RVal v sv) (y : Bytes) : normEsc (sv ++ y) = escCanon v ++ normEsc y := by
  induction h with
  | nil => rfl
  | @lit b v s hb _ ih =>
    have hne : b ≠ 0x5C := ((special_iff b).mp hb).2
    rw [List.cons_append, normEsc_cons_ne hne, ih]
    simp [escCanon, escByte, hb]
  | @esc h1 h2 x z v s hx hz _ ih =>
    simp only [List.cons_append, normEsc, hx, hz, if_true, ih, escCanon]
    simp

theorem normEsc_ropt {o : Option Bytes} {s : Bytes} (h : ROpt o s) (y : Bytes) :
    normEsc (s ++ y) = escOpt o ++ normEsc y := by
  cases h with
  | none => rfl
  | some _ hv => simpa [escOpt] using normEsc_rval hv y

theorem normEsc_rany {vs : List Bytes} {s : Bytes} (h : RAny vs s) (y : Bytes) :
    normEsc (s ++ y) = escAny vs ++ normEsc y := by
  induction h with
  | nil => rfl
  | @cons v s vs ss _ hv _ ih =>
    rw [List.append_assoc, normEsc_rval hv, List.cons_append, normEsc_cons_ne (by decide), ih]
    simp [escAny]

theorem attr_noBs {d : Dialect} {a : Bytes} (h : IsAttrDesc d a) : ∀ c ∈ a, c ≠ 0x5C := by
  intro c hc e
  subst e
  rcases (attrDesc_chars h).2 _ hc with h | h | h
  · simp [isAlnumHyphen, isAlnum, isAlpha, isDigit] at h
  · cases h
  · cases h

theorem oid_noBs {d : Dialect} {a : Bytes} (h : IsOid d a) : ∀ c ∈ a, c ≠ 0x5C := by
  intro c hc e
  subst e
  rcases (oid_chars h).2 _ hc with h | h
  · simp [isAlnumHyphen, isAlnum, isAlpha, isDigit] at h
  · cases h

/-- attribute description, then an operator without backslash, then a value -/
theorem normEsc_attr_op_val {a op v sv : Bytes} (ha : IsAttrDesc .libLowerDn a) (hop : ∀ c ∈ op, c ≠ 0x5C)
    (hv : RVal v sv) (y : Bytes) :
    normEsc (a ++ (op ++ sv) ++ y) = a ++ (op ++ escCanon v) ++ normEsc y := by
  have e : a ++ (op ++ sv) ++ y = (a ++ op) ++ (sv ++ y) := by simp
  rw [e, normEsc_noBs (by
    intro c hc
    rcases List.mem_append.mp hc with h | h
    · exact attr_noBs ha c h
    · exact hop c h), normEsc_rval hv]
  simp

theorem isDnKw_lower (k : Bytes) : isDnKw .libLowerDn k = true ↔ k = [0x64, 0x6E] := by
  simp [isDnKw, Dialect.libLowerDn]

theorem normEsc_item {f : Filter} {b : Bytes} (h : GItem .libLowerDn f b) (y : Bytes) :
    normEsc (b ++ y) = printItem f ++ normEsc y := by
  cases h with
  | eq ha hv => simpa [printItem] using normEsc_attr_op_val (op := [0x3D]) ha (by decide) hv y
  | ge ha hv => simpa [printItem] using normEsc_attr_op_val (op := [0x3E, 0x3D]) ha (by decide) hv y
  | le ha hv => simpa [printItem] using normEsc_attr_op_val (op := [0x3C, 0x3D]) ha (by decide) hv y
  | approx ha hv => simpa [printItem] using normEsc_attr_op_val (op := [0x7E, 0x3D]) ha (by decide) hv y
  | present ha =>
    simpa [printItem, escCanon] using
      normEsc_attr_op_val (op := [0x3D, 0x2A]) (v := []) (sv := []) ha (by decide) .nil y
  | @substr a ini fin any si sa sf ha hi hy hf _ =>
    have e : a ++ 0x3D :: (si ++ 0x2A :: (sa ++ sf)) ++ y = (a ++ [0x3D]) ++ (si ++ (0x2A :: (sa ++ (sf ++ y)))) := by
      simp
    rw [e, normEsc_noBs (by
      intro c hc
      rcases List.mem_append.mp hc with h | h
      · exact attr_noBs ha c h
      · simp at h; subst h; decide), normEsc_ropt hi, normEsc_cons_ne (by decide), normEsc_rany hy,
      normEsc_ropt hf]
    simp [printItem]
  | @extAttr a v sv kw rule dn ha hk ho _ hv =>
    have hkw : dn = true → kw = [0x64, 0x6E] := fun e => (isDnKw_lower kw).mp (hk e)
    have hop : ∀ c ∈ (if dn then 0x3A :: kw else []) ++ (optStr [0x3A] rule ++ [0x3A, 0x3D]), c ≠ 0x5C := by
      intro c hc
      rcases List.mem_append.mp hc with h | h
      · cases dn with
        | false => simp at h
        | true => rw [hkw rfl] at h; simp at h; rcases h with rfl | rfl | rfl <;> decide
      · rcases List.mem_append.mp h with h | h
        · cases rule with
          | none => simp [optStr] at h
          | some r =>
            simp [optStr] at h
            rcases h with rfl | h
            · decide
            · exact oid_noBs (ho r rfl) c h
        · simp at h; rcases h with rfl | rfl <;> decide
    have := normEsc_attr_op_val ha hop hv y
    cases dn with
    | false => simpa [printItem, optStr] using this
    | true => have ek := hkw rfl; subst ek; simpa [printItem, optStr] using this
  | @extRule m v sv kw dn hm hk hv =>
    have hkw : dn = true → kw = [0x64, 0x6E] := fun e => (isDnKw_lower kw).mp (hk e)
    have e : (if dn then 0x3A :: kw else []) ++ (0x3A :: m ++ 0x3A :: 0x3D :: sv) ++ y =
        ((if dn then 0x3A :: kw else []) ++ (0x3A :: m ++ [0x3A, 0x3D])) ++ (sv ++ y) := by simp
    rw [e, normEsc_noBs (by
      intro c hc
      rcases List.mem_append.mp hc with h | h
      · cases dn with
        | false => simp at h
        | true => rw [hkw rfl] at h; simp at h; rcases h with rfl | rfl | rfl <;> decide
      · simp at h
        rcases h with rfl | h | rfl | rfl
        · decide
        · exact oid_noBs hm c h
        · decide
        · decide), normEsc_rval hv]
    cases dn with
    | false => simp [printItem, optStr]
    | true => have ek := hkw rfl; subst ek; simp [printItem, optStr]

theorem print_of_item {d : Dialect} {f : Filter} {b : Bytes} (h : GItem d f b) :
    print f = 0x28 :: (printItem f ++ [0x29]) := by
  cases h <;> simp [print]

theorem normEsc_paren_item {f : Filter} {b : Bytes} (hb : GItem .libLowerDn f b) (y : Bytes) :
    normEsc (0x28 :: (b ++ [0x29]) ++ y) = print f ++ normEsc y := by
  have e : 0x28 :: (b ++ [0x29]) ++ y = 0x28 :: (b ++ (0x29 :: y)) := by simp
  rw [e, normEsc_cons_ne (by decide), normEsc_item hb, normEsc_cons_ne (by decide), print_of_item hb]
  simp

mutual
theorem normEsc_G : (f : Filter) → ∀ (s : Bytes), G .libLowerDn f s → ∀ y, normEsc (s ++ y) = print f ++ normEsc y
  | .and fs, s, h, y => by
    simp only [G] at h
    obtain ⟨b, hb, rfl⟩ := h
    have e : 0x28 :: 0x26 :: (b ++ [0x29]) ++ y = 0x28 :: 0x26 :: (b ++ (0x29 :: y)) := by simp
    rw [e, normEsc_cons_ne (by decide), normEsc_cons_ne (by decide), normEsc_GL fs b hb,
      normEsc_cons_ne (by decide)]
    simp [print]
  | .or fs, s, h, y => by
    simp only [G] at h
    obtain ⟨b, hb, rfl⟩ := h
    have e : 0x28 :: 0x7C :: (b ++ [0x29]) ++ y = 0x28 :: 0x7C :: (b ++ (0x29 :: y)) := by simp
    rw [e, normEsc_cons_ne (by decide), normEsc_cons_ne (by decide), normEsc_GL fs b hb,
      normEsc_cons_ne (by decide)]
    simp [print]
  | .not f, s, h, y => by
    simp only [G] at h
    obtain ⟨b, hb, rfl⟩ := h
    have e : 0x28 :: 0x21 :: (b ++ [0x29]) ++ y = 0x28 :: 0x21 :: (b ++ (0x29 :: y)) := by simp
    rw [e, normEsc_cons_ne (by decide), normEsc_cons_ne (by decide), normEsc_G f b hb,
      normEsc_cons_ne (by decide)]
    simp [print]
  | .eq a v, s, h, y => by
    simp only [G] at h
    obtain ⟨b, hb, rfl⟩ := h
    exact normEsc_paren_item hb y
  | .ge a v, s, h, y => by
    simp only [G] at h
    obtain ⟨b, hb, rfl⟩ := h
    exact normEsc_paren_item hb y
  | .le a v, s, h, y => by
    simp only [G] at h
    obtain ⟨b, hb, rfl⟩ := h
    exact normEsc_paren_item hb y
  | .approx a v, s, h, y => by
    simp only [G] at h
    obtain ⟨b, hb, rfl⟩ := h
    exact normEsc_paren_item hb y
  | .present a, s, h, y => by
    simp only [G] at h
    obtain ⟨b, hb, rfl⟩ := h
    exact normEsc_paren_item hb y
  | .substr a i z w, s, h, y => by
    simp only [G] at h
    obtain ⟨b, hb, rfl⟩ := h
    exact normEsc_paren_item hb y
  | .ext r a v n, s, h, y => by
    simp only [G] at h
    obtain ⟨b, hb, rfl⟩ := h
    exact normEsc_paren_item hb y
theorem normEsc_GL : (fs : List Filter) → ∀ (s : Bytes), GL .libLowerDn fs s → ∀ y,
    normEsc (s ++ y) = printList fs ++ normEsc y
  | [], s, h, y => by simp only [GL] at h; subst h; rfl
  | f :: fs, s, h, y => by
    simp only [GL] at h
    obtain ⟨a, b, ha, hb, rfl⟩ := h
    rw [List.append_assoc, normEsc_G f a ha, normEsc_GL fs b hb]
    simp [printList]
end

/-! ## the spelling of the `dn` keyword -/

theorem attrOctet_of {c : UInt8} (h : isAlnumHyphen c = true ∨ c = 0x2E ∨ c = 0x3B) : attrOctet c = true := by
  rcases h with h | rfl | rfl
  · simp [attrOctet, keychar_eq, h]
  · decide
  · decide

theorem attrOctet_not {c : UInt8} (h : attrOctet c = true) : c ≠ 0x28 ∧ c ≠ 0x3A := by
  constructor <;> (intro e; subst e; revert h; decide)

/-- through an attribute description: copied, the scan ends in state `inAttr` -/
theorem lowerKw_attr {a : Bytes} (ha : ∀ c ∈ a, attrOctet c = true) (hne : a ≠ []) (st : KwState)
    (hst : st = .start ∨ st = .inAttr) (z : Bytes) : lowerKw st (a ++ z) = a ++ lowerKw .inAttr z := by
  induction a generalizing st with
  | nil => exact absurd rfl hne
  | cons c t ih =>
    have hc := ha c (by simp)
    have hn := attrOctet_not hc
    have hstep : lowerKw st (c :: (t ++ z)) = c :: lowerKw .inAttr (t ++ z) := by
      rw [lowerKw]
      rcases hst with rfl | rfl <;> simp [hn.1, hn.2, hc]
    rw [List.cons_append, hstep]
    cases t with
    | nil => rfl
    | cons d t' => rw [ih (fun x hx => ha x (by simp [hx])) (by simp) .inAttr (Or.inr rfl)]; rfl

/-- in state `other` everything without a `(` is copied -/
theorem lowerKw_other {x : Bytes} (hx : ∀ c ∈ x, c ≠ 0x28) (z : Bytes) :
    lowerKw .other (x ++ z) = x ++ lowerKw .other z := by
  induction x with
  | nil => rfl
  | cons c t ih =>
    have hc := hx c (by simp)
    rw [List.cons_append, lowerKw]
    simp [hc, ih (fun d hd => hx d (by simp [hd]))]

theorem noParen_of_plain {x : Bytes} (h : x.all plain = true) : ∀ c ∈ x, c ≠ 0x28 := by
  intro c hc e
  have := List.all_eq_true.mp h c hc
  subst e; simp [plain] at this

/-- attribute description, an octet that ends it (not `:`), anything without `(`: all copied -/
theorem lowerKw_attr_op {d : Dialect} {a x : Bytes} {c : UInt8} (ha : IsAttrDesc d a)
    (hc : attrOctet c = false ∧ c ≠ 0x3A ∧ c ≠ 0x28) (hx : ∀ y ∈ x, y ≠ 0x28) (z : Bytes) :
    lowerKw .start (a ++ c :: x ++ z) = a ++ c :: x ++ lowerKw .other z := by
  obtain ⟨⟨c0, t0, e0, _⟩, hch⟩ := attrDesc_chars ha
  have hne : a ≠ [] := by rw [e0]; simp
  have e : a ++ c :: x ++ z = a ++ (c :: (x ++ z)) := by simp
  rw [e, lowerKw_attr (fun y hy => attrOctet_of (hch y hy)) hne .start (Or.inl rfl), lowerKw]
  simp [hc.1, hc.2.1, hc.2.2, lowerKw_other hx]

theorem kwAt_kw {kw : Bytes} (hk : isDnKw .lib kw = true) (st : KwState) (W : Bytes)
    (h : st = .inAttr ∨ W.head? ≠ some 0x3D) : kwAt st (kw ++ 0x3A :: W) = true := by
  rcases (isDnKw_lib kw).mp hk with rfl | rfl | rfl | rfl <;>
    (rcases h with h | h <;> simp [kwAt, isD, isN, h])

theorem lowerKw_kwD (c1 c2 : UInt8) (r : Bytes) :
    lowerKw .kwD (c1 :: c2 :: r) = 0x64 :: 0x6E :: lowerKw .other r := by
  simp [lowerKw]

theorem kwAt_head_notD {c : UInt8} (hc : isD c = false) (st : KwState) (q : Bytes) : kwAt st (c :: q) = false := by
  cases q with
  | nil => rfl
  | cons a q' => cases q' <;> simp [kwAt, hc]

/-- the keyword, then `:`: rewritten to lower case -/
theorem lowerKw_kw {kw : Bytes} (hk : isDnKw .lib kw = true) (st : KwState) (hst : st = .start ∨ st = .inAttr)
    (W : Bytes) (h : st = .inAttr ∨ W.head? ≠ some 0x3D) :
    lowerKw st (0x3A :: kw ++ 0x3A :: W) = 0x3A :: 0x64 :: 0x6E :: lowerKw .other (0x3A :: W) := by
  have hk' := kwAt_kw hk st W h
  have hso : st ≠ .other := by rcases hst with rfl | rfl <;> decide
  have hsd : st ≠ .kwD ∧ st ≠ .kwN := by rcases hst with rfl | rfl <;> decide
  rcases (isDnKw_lib kw).mp hk with rfl | rfl | rfl | rfl <;>
    (simp only [List.cons_append, List.nil_append] at hk' ⊢
     rw [lowerKw]
     simp only [hsd.1, hsd.2, if_false, hso, hk', if_true, ne_eq, not_false_eq_true, and_self]
     simp [lowerKw_kwD])

/-- an oid that is not the keyword here, then `:`: no rewriting -/
theorem kwAt_oid {m : Bytes} (hm : IsOid .lib m) (st : KwState) (W : Bytes)
    (h : isDnKw .lib m = true → st ≠ .inAttr ∧ W.head? = some 0x3D) : kwAt st (m ++ 0x3A :: W) = false := by
  obtain ⟨⟨c0, t0, e0, _⟩, hch⟩ := oid_chars hm
  match m, hch, h with
  | [], _, _ => cases e0
  | [d1], _, _ => cases W <;> simp [kwAt, isN]
  | [d1, d2], _, h =>
    cases hk : isDnKw .lib [d1, d2] with
    | false =>
      rw [isDnKw_pair] at hk
      simp only [List.cons_append, List.nil_append, kwAt, isD, isN]
      cases h1 : (d1 == 0x64 || d1 == 0x44) <;> cases h2 : (d2 == 0x6E || d2 == 0x4E) <;> simp_all
    | true =>
      obtain ⟨h1, h2⟩ := h hk
      simp only [List.cons_append, List.nil_append, kwAt, h2]
      cases st <;> simp_all
  | d1 :: d2 :: d3 :: m', hch, _ =>
    have h3 : (d3 == 0x3A) = false := by
      rcases hch d3 (by simp) with h | h
      · cases h3 : d3 == 0x3A with
        | false => rfl
        | true => rw [beq_iff_eq] at h3; subst h3; simp [isAlnumHyphen, isAlnum, isAlpha, isDigit] at h
      · subst h; decide
    simp [kwAt, h3]

theorem lowerKw_colon_noKw {st : KwState} (hst : st = .start ∨ st = .inAttr) {r : Bytes}
    (hk : kwAt st r = false) : lowerKw st (0x3A :: r) = 0x3A :: lowerKw .other r := by
  rw [lowerKw]
  rcases hst with rfl | rfl <;> simp [hk]

theorem oid_noParen {d : Dialect} {m : Bytes} (h : IsOid d m) : ∀ c ∈ m, c ≠ 0x28 :=
  noParen_of_plain (oid_plain h)

theorem rval_noParen {v s : Bytes} (h : RVal v s) : ∀ c ∈ s, c ≠ 0x28 := noParen_of_plain (rval_plain h)

theorem lowerDn_bare : Dialect.lib.bareNumber = true → Dialect.libLowerDn.bareNumber = true := fun _ => rfl

theorem isDnKw_lower_of_lib {m : Bytes} (h : isDnKw .lib m = false) : isDnKw .libLowerDn m = false := by
  cases hk : isDnKw .libLowerDn m with
  | false => rfl
  | true =>
    rw [isDnKw_lower] at hk
    subst hk
    revert h; decide

/-- an item: the keyword (if any) in lower case, the rest copied; the scan ends in state `other` -/
theorem lowerKw_item {f : Filter} {b : Bytes} (h : GItem .lib f b) :
    ∃ b', GItem .libLowerDn f b' ∧ ∀ z, lowerKw .start (b ++ z) = b' ++ lowerKw .other z := by
  have ops : ∀ c : UInt8, (c = 0x3D ∨ c = 0x3E ∨ c = 0x3C ∨ c = 0x7E) → attrOctet c = false ∧ c ≠ 0x3A ∧ c ≠ 0x28 := by
    intro c hc; rcases hc with rfl | rfl | rfl | rfl <;> decide
  have tailNP : ∀ {a x : Bytes} {c : UInt8}, (a ++ c :: x).all plain = true → ∀ y ∈ x, y ≠ 0x28 := by
    intro a x c hp y hy
    exact noParen_of_plain hp y (by simp [hy])
  have hp := item_plain h
  cases h with
  | eq ha hv =>
    exact ⟨_, .eq (isAttrDesc_bare lowerDn_bare ha) hv, fun z => lowerKw_attr_op ha (ops _ (Or.inl rfl)) (tailNP hp) z⟩
  | ge ha hv =>
    exact ⟨_, .ge (isAttrDesc_bare lowerDn_bare ha) hv,
      fun z => lowerKw_attr_op ha (ops _ (Or.inr (Or.inl rfl))) (tailNP hp) z⟩
  | le ha hv =>
    exact ⟨_, .le (isAttrDesc_bare lowerDn_bare ha) hv,
      fun z => lowerKw_attr_op ha (ops _ (Or.inr (Or.inr (Or.inl rfl)))) (tailNP hp) z⟩
  | approx ha hv =>
    exact ⟨_, .approx (isAttrDesc_bare lowerDn_bare ha) hv,
      fun z => lowerKw_attr_op ha (ops _ (Or.inr (Or.inr (Or.inr rfl)))) (tailNP hp) z⟩
  | present ha =>
    exact ⟨_, .present (isAttrDesc_bare lowerDn_bare ha),
      fun z => lowerKw_attr_op ha (ops _ (Or.inl rfl)) (tailNP hp) z⟩
  | substr ha hi hy hf hne =>
    exact ⟨_, .substr (isAttrDesc_bare lowerDn_bare ha) hi hy hf hne,
      fun z => lowerKw_attr_op ha (ops _ (Or.inl rfl)) (tailNP hp) z⟩
  | @extAttr a v sv kw rule dn ha hk ho hn hv =>
    obtain ⟨⟨c0, t0, e0, _⟩, hch⟩ := attrDesc_chars ha
    have hne : a ≠ [] := by rw [e0]; simp
    have hattr : ∀ z, lowerKw .start (a ++ z) = a ++ lowerKw .inAttr z :=
      lowerKw_attr (fun y hy => attrOctet_of (hch y hy)) hne .start (Or.inl rfl)
    have ha' := isAttrDesc_bare lowerDn_bare ha
    have ho' : ∀ r, rule = some r → IsOid .libLowerDn r := fun r e => isOid_bare lowerDn_bare (ho r e)
    -- T = `:` W : what follows the optional keyword
    have hW : ∃ W, optStr [0x3A] rule ++ 0x3A :: 0x3D :: sv = 0x3A :: W ∧ (∀ y ∈ W, y ≠ 0x28) := by
      cases rule with
      | none =>
        refine ⟨0x3D :: sv, by simp [optStr], ?_⟩
        intro y hy
        simp at hy
        rcases hy with rfl | hy
        · decide
        · exact rval_noParen hv y hy
      | some m =>
        refine ⟨m ++ 0x3A :: 0x3D :: sv, by simp [optStr], ?_⟩
        intro y hy
        simp at hy
        rcases hy with hy | rfl | rfl | hy
        · exact oid_noParen (ho m rfl) y hy
        · decide
        · decide
        · exact rval_noParen hv y hy
    obtain ⟨W, eW, hWnp⟩ := hW
    have hcW : ∀ y ∈ (0x3A : UInt8) :: W, y ≠ 0x28 := by
      intro y hy
      simp at hy
      rcases hy with rfl | hy
      · decide
      · exact hWnp y hy
    cases dn with
    | true =>
      refine ⟨a ++ ((if true then 0x3A :: [0x64, 0x6E] else []) ++ (optStr [0x3A] rule ++ 0x3A :: 0x3D :: sv)),
        GItem.extAttr ha' (fun _ => by decide) ho' (fun h => by cases h) hv, ?_⟩
      intro z
      have e : a ++ ((if true = true then 0x3A :: kw else []) ++ (optStr [0x3A] rule ++ 0x3A :: 0x3D :: sv)) ++ z =
          a ++ (0x3A :: kw ++ 0x3A :: (W ++ z)) := by rw [eW]; simp
      rw [e, hattr, lowerKw_kw (hk rfl) .inAttr (Or.inr rfl) (W ++ z) (Or.inl rfl)]
      have e2 : (0x3A : UInt8) :: (W ++ z) = (0x3A :: W) ++ z := rfl
      rw [e2, lowerKw_other hcW, eW]
      simp
    | false =>
      refine ⟨a ++ ((if false then 0x3A :: kw else []) ++ (optStr [0x3A] rule ++ 0x3A :: 0x3D :: sv)),
        GItem.extAttr ha' (fun h => by cases h) ho'
          (fun _ r e => isDnKw_lower_of_lib (hn rfl r e)) hv, ?_⟩
      intro z
      have e : a ++ ((if false = true then 0x3A :: kw else []) ++ (optStr [0x3A] rule ++ 0x3A :: 0x3D :: sv)) ++ z =
          a ++ (0x3A :: (W ++ z)) := by rw [eW]; simp
      have hkw : kwAt .inAttr (W ++ z) = false := by
        cases rule with
        | none =>
          simp only [optStr, List.nil_append, List.cons.injEq, true_and] at eW
          rw [← eW]; exact kwAt_head_notD (by decide) _ _
        | some m =>
          simp only [optStr, List.cons_append, List.nil_append, List.cons.injEq, true_and] at eW
          rw [← eW, List.append_assoc]
          exact kwAt_oid (ho m rfl) .inAttr _ (fun hkm => by rw [hn rfl m rfl] at hkm; cases hkm)
      rw [e, hattr, lowerKw_colon_noKw (Or.inr rfl) hkw, lowerKw_other hWnp, eW]
      simp
  | @extRule m v sv kw dn hm hk hv =>
    obtain ⟨⟨c0, t0, e0, hc0⟩, _⟩ := oid_chars hm
    have hm' := isOid_bare lowerDn_bare hm
    have hnp : ∀ y ∈ (0x3A : UInt8) :: (m ++ 0x3A :: 0x3D :: sv), y ≠ 0x28 := by
      intro y hy
      simp at hy
      rcases hy with rfl | hy | rfl | rfl | hy
      · decide
      · exact oid_noParen hm y hy
      · decide
      · decide
      · exact rval_noParen hv y hy
    cases dn with
    | true =>
      refine ⟨(if true then 0x3A :: [0x64, 0x6E] else []) ++ (0x3A :: m ++ 0x3A :: 0x3D :: sv),
        GItem.extRule hm' (fun _ => by decide) hv, ?_⟩
      intro z
      have e : (if true = true then 0x3A :: kw else []) ++ (0x3A :: m ++ 0x3A :: 0x3D :: sv) ++ z =
          0x3A :: kw ++ 0x3A :: ((m ++ 0x3A :: 0x3D :: sv) ++ z) := by simp
      have hhead : ((m ++ 0x3A :: 0x3D :: sv) ++ z).head? ≠ some 0x3D := by
        rw [e0]
        simp only [List.cons_append, List.head?_cons, ne_eq, Option.some.injEq]
        intro e1; subst e1; revert hc0; decide
      rw [e, lowerKw_kw (hk rfl) .start (Or.inl rfl) _ (Or.inr hhead)]
      have e2 : (0x3A : UInt8) :: ((m ++ 0x3A :: 0x3D :: sv) ++ z) = (0x3A :: (m ++ 0x3A :: 0x3D :: sv)) ++ z := rfl
      rw [e2, lowerKw_other hnp]
      simp
    | false =>
      refine ⟨(if false then 0x3A :: kw else []) ++ (0x3A :: m ++ 0x3A :: 0x3D :: sv),
        GItem.extRule hm' (fun h => by cases h) hv, ?_⟩
      intro z
      have e : (if false = true then 0x3A :: kw else []) ++ (0x3A :: m ++ 0x3A :: 0x3D :: sv) ++ z =
          0x3A :: (m ++ 0x3A :: (0x3D :: sv ++ z)) := by simp
      have hkw : kwAt .start (m ++ 0x3A :: (0x3D :: sv ++ z)) = false :=
        kwAt_oid hm .start _ (fun _ => ⟨by decide, rfl⟩)
      have hnp' : ∀ y ∈ m ++ 0x3A :: 0x3D :: sv, y ≠ 0x28 := fun y hy => hnp y (by simp [hy])
      have e3 : m ++ 0x3A :: (0x3D :: sv ++ z) = (m ++ 0x3A :: 0x3D :: sv) ++ z := by simp
      rw [e, lowerKw_colon_noKw (Or.inl rfl) hkw, e3, lowerKw_other hnp']
      simp

theorem lowerKw_paren (st : KwState) (hst : st ≠ .kwD ∧ st ≠ .kwN) (r : Bytes) :
    lowerKw st (0x28 :: r) = 0x28 :: lowerKw .start r := by
  rw [lowerKw]; simp [hst.1, hst.2]

theorem lowerKw_struct {c : UInt8} (hc : c = 0x26 ∨ c = 0x7C ∨ c = 0x21 ∨ c = 0x29) (st : KwState)
    (hst : st ≠ .kwD ∧ st ≠ .kwN) (r : Bytes) : lowerKw st (c :: r) = c :: lowerKw .other r := by
  rw [lowerKw]
  rcases hc with rfl | rfl | rfl | rfl <;> simp [hst.1, hst.2, attrOctet, keychar, ALPHA, DIGIT]

/-- a parenthesised filter: keywords in lower case, the scan ends in state `other` -/
theorem lowerKw_G {f : Filter} {s : Bytes} (h : G .lib f s) :
    ∃ s', G .libLowerDn f s' ∧ ∀ st z, (st ≠ .kwD ∧ st ≠ .kwN) → lowerKw st (s ++ z) = s' ++ lowerKw .other z := by
  refine (G_rec (d := .lib)
    (P := fun f s => ∃ s', G .libLowerDn f s' ∧
      ∀ st z, (st ≠ .kwD ∧ st ≠ .kwN) → lowerKw st (s ++ z) = s' ++ lowerKw .other z)
    (PL := fun fs s => ∃ s', GL .libLowerDn fs s' ∧ ∀ z, lowerKw .other (s ++ z) = s' ++ lowerKw .other z)
    ?_ ?_ ?_ ?_ ?_ ?_).1 f s h
  · rintro fs b ⟨b', hb', hl⟩
    refine ⟨0x28 :: 0x26 :: (b' ++ [0x29]), by simp only [G]; exact ⟨b', hb', rfl⟩, ?_⟩
    intro st z hst
    have e : 0x28 :: 0x26 :: (b ++ [0x29]) ++ z = 0x28 :: 0x26 :: (b ++ (0x29 :: z)) := by simp
    rw [e, lowerKw_paren st hst, lowerKw_struct (Or.inl rfl) .start (by decide), hl,
      lowerKw_struct (Or.inr (Or.inr (Or.inr rfl))) .other (by decide)]
    simp
  · rintro fs b ⟨b', hb', hl⟩
    refine ⟨0x28 :: 0x7C :: (b' ++ [0x29]), by simp only [G]; exact ⟨b', hb', rfl⟩, ?_⟩
    intro st z hst
    have e : 0x28 :: 0x7C :: (b ++ [0x29]) ++ z = 0x28 :: 0x7C :: (b ++ (0x29 :: z)) := by simp
    rw [e, lowerKw_paren st hst, lowerKw_struct (Or.inr (Or.inl rfl)) .start (by decide), hl,
      lowerKw_struct (Or.inr (Or.inr (Or.inr rfl))) .other (by decide)]
    simp
  · rintro f b ⟨b', hb', hl⟩
    refine ⟨0x28 :: 0x21 :: (b' ++ [0x29]), by simp only [G]; exact ⟨b', hb', rfl⟩, ?_⟩
    intro st z hst
    have e : 0x28 :: 0x21 :: (b ++ [0x29]) ++ z = 0x28 :: 0x21 :: (b ++ (0x29 :: z)) := by simp
    rw [e, lowerKw_paren st hst, lowerKw_struct (Or.inr (Or.inr (Or.inl rfl))) .start (by decide),
      hl .other _ (by decide), lowerKw_struct (Or.inr (Or.inr (Or.inr rfl))) .other (by decide)]
    simp
  · intro f b hb
    obtain ⟨b', hb', hl⟩ := lowerKw_item hb
    refine ⟨0x28 :: (b' ++ [0x29]), G_of_item hb', ?_⟩
    intro st z hst
    have e : 0x28 :: (b ++ [0x29]) ++ z = 0x28 :: (b ++ (0x29 :: z)) := by simp
    rw [e, lowerKw_paren st hst, hl, lowerKw_struct (Or.inr (Or.inr (Or.inr rfl))) .other (by decide)]
    simp
  · exact ⟨[], by simp [GL], fun z => rfl⟩
  · rintro f fs a b ⟨a', ha', hla⟩ ⟨b', hb', hlb⟩
    refine ⟨a' ++ b', by simp only [GL]; exact ⟨a', b', ha', hb', rfl⟩, ?_⟩
    intro z
    rw [List.append_assoc, hla .other _ (by decide), hlb]
    simp

/-- the canonical print of the denoted tree is the normal form of the string -/
theorem print_eq_normTop {f : Filter} {s : Bytes} (h : GLib f s) : print f = normTop s := by
  rcases h with h | h
  · obtain ⟨x, rfl⟩ := G_head h
    obtain ⟨s', hs', hl⟩ := lowerKw_G h
    have h1 := hl .start [] (by decide)
    have h2 := normEsc_G f s' hs' []
    simp only [List.append_nil] at h1 h2
    have e0 : lowerKw .other [] = [] := rfl
    rw [e0, List.append_nil] at h1
    simp [normTop, h1, h2, normEsc]
  · obtain ⟨c, x, rfl, hc⟩ := item_head h
    have hne : c ≠ 0x28 := by intro e0; subst e0; revert hc; decide
    obtain ⟨b', hb', hl⟩ := lowerKw_item h
    have h1 := hl []
    have h2 := normEsc_item hb' []
    have e0 : lowerKw .other [] = [] := rfl
    simp only [List.append_nil] at h1 h2
    rw [e0, List.append_nil] at h1
    rw [print_of_item hb']
    unfold normTop
    split
    · rename_i heq; cases heq; exact absurd rfl hne
    · rw [h1, h2]; simp [normEsc]

/-! ## the trees denoted by strings are well-formed (`Spec.Filter.wf`, checked by the print oracle) -/

theorem rany_nonempty {vs : List Bytes} {s : Bytes} (h : RAny vs s) : vs.all (fun v => !v.isEmpty) = true := by
  induction h with
  | nil => rfl
  | @cons v s vs ss hne _ _ ih =>
    have : v.isEmpty = false := by cases v <;> simp_all
    simp [this, ih]

theorem ropt_wf {o : Option Bytes} {s : Bytes} (h : ROpt o s) : ∀ v, o = some v → v.isEmpty = false := by
  intro v e
  cases h with
  | none => cases e
  | @some w s hv _ =>
    cases e
    cases v with
    | nil => exact absurd rfl hv
    | cons x v => rfl

theorem wfItem_of_GItem {f : Filter} {b : Bytes} (h : GItem .lib f b) : wfItem f = true := by
  cases h with
  | eq _ _ => rfl
  | ge _ _ => rfl
  | le _ _ => rfl
  | approx _ _ => rfl
  | present _ => rfl
  | @substr a ini fin any si sa sf _ hi hy hf hne =>
    have h1 := ropt_wf hi
    have h2 := ropt_wf hf
    have h3 : (ini.isSome || !any.isEmpty || fin.isSome) = true := by
      rcases hne with h | h | h
      · simp [h]
      · cases any with
        | nil => exact absurd rfl h
        | cons x xs => simp
      · simp [h]
    have h4 := rany_nonempty hy
    cases ini <;> cases fin <;> simp_all [wfItem]
  | @extAttr a v sv kw rule dn _ _ _ hn _ =>
    cases dn with
    | true => simp [wfItem]
    | false =>
      cases rule with
      | none => simp [wfItem]
      | some r =>
        have := hn rfl r rfl
        have h2 : isDnKw .rfc r = false := by
          rw [← this]; simp [isDnKw, Dialect.rfc, Dialect.lib]
        simp [wfItem, h2]
  | extRule _ _ _ => simp [wfItem]

theorem wf_of_item {f : Filter} {b : Bytes} (h : GItem .lib f b) : wf f = true := by
  have := wfItem_of_GItem h
  cases h <;> simp_all [wf, wfItem]

theorem wf_of_GLib {f : Filter} {s : Bytes} (h : GLib f s) : wf f = true := by
  rcases h with h | h
  · exact (G_rec (d := .lib) (P := fun f _ => wf f = true) (PL := fun fs _ => wfList fs = true)
      (fun fs b h => by simpa [wf] using h) (fun fs b h => by simpa [wf] using h)
      (fun f b h => by simpa [wf] using h) (fun f b h => wf_of_item h) rfl
      (fun f fs a b h1 h2 => by simp [wfList, h1, h2])).1 f s h
  · exact wf_of_item h

end Ldap3V.Filter

/- Read-back of every request builder by the independent reader (tree level). -/
import Ldap3V.Spec.Requests
import Ldap3V.Lemmas.BerInt
namespace Ldap3V
open Spec

/-! ### typed tags to trees -/

@[simp] theorem toTlvList_nil : Tag.toTlvList [] = [] := by simp [Tag.toTlvList]
@[simp] theorem toTlvList_cons (t : Tag) (ts : List Tag) :
    Tag.toTlvList (t :: ts) = t.toTlv :: Tag.toTlvList ts := by simp [Tag.toTlvList]

theorem toTlvList_map {α : Type} (f : α → Tag) (l : List α) :
    Tag.toTlvList (l.map f) = l.map fun x => (f x).toTlv := by
  induction l with
  | nil => simp
  | cons a l ih => simp [ih]

theorem toTlvList_append (a b : List Tag) : Tag.toTlvList (a ++ b) = Tag.toTlvList a ++ Tag.toTlvList b := by
  induction a with
  | nil => simp
  | cons x a ih => simp [ih]

@[simp] theorem toTlv_octets (v : Bytes) : (Tag.octets v).toTlv = .prim 0 4 v := by simp [Tag.octets, Tag.toTlv]
@[simp] theorem toTlv_int (v : Int) : (Tag.int v).toTlv = .prim 0 2 (intOctets v) := by simp [Tag.int, Tag.toTlv]
@[simp] theorem toTlv_enum (v : Int) : (Tag.enum v).toTlv = .prim 0 10 (intOctets v) := by simp [Tag.enum, Tag.toTlv]
@[simp] theorem toTlv_bool (b : Bool) : (Tag.bool b).toTlv = .prim 0 1 (boolOctet b) := by simp [Tag.bool, Tag.toTlv]
@[simp] theorem toTlv_seq (ts : List Tag) : (Tag.seq ts).toTlv = .cons 0 16 (Tag.toTlvList ts) := by
  simp [Tag.seq, Tag.toTlv]
@[simp] theorem toTlv_setOf (ts : List Tag) : (Tag.setOf ts).toTlv = .cons 0 17 (Tag.toTlvList ts) := by
  simp [Tag.setOf, Tag.toTlv]
@[simp] theorem toTlv_sequence (c i : Nat) (ts : List Tag) :
    (Tag.sequence c i ts).toTlv = .cons c i (Tag.toTlvList ts) := by simp [Tag.toTlv]
@[simp] theorem toTlv_octetString (c i : Nat) (v : Bytes) : (Tag.octetString c i v).toTlv = .prim c i v := by
  simp [Tag.toTlv]
@[simp] theorem toTlv_integer (c i : Nat) (v : Int) : (Tag.integer c i v).toTlv = .prim c i (intOctets v) := by
  simp [Tag.toTlv]
@[simp] theorem toTlv_null (c i : Nat) : (Tag.null c i).toTlv = .prim c i [] := by simp [Tag.toTlv]
@[simp] theorem toTlv_structure (t : Tlv) : (Tag.structure t).toTlv = t := by simp [Tag.toTlv]

/-! ### element readers on what the writer produces -/

def I64 (v : Int) : Prop := -9223372036854775808 ≤ v ∧ v < 9223372036854775808

theorem I32.i64 {v : Int} (h : I32 v) : I64 v := by
  unfold I32 at h; unfold I64; omega

theorem readInt_intOctets (v : Int) (h : I64 v) : readInt (intOctets v) = some v := by
  obtain ⟨a, _, c⟩ := int_main v h.1 h.2
  unfold readInt
  cases e : intOctets v with
  | nil => exact absurd e c
  | cons b bs => rw [e] at a; simp [a]

theorem rdBool_boolOctet (b : Bool) : rdBool (.prim 0 1 (boolOctet b)) = some b := by
  cases b <;> simp [boolOctet, rdBool]

theorem rdAll_map {α β : Type} (f : Tlv → Option α) (g : β → Tlv) (p : β → α) (l : List β)
    (h : ∀ x ∈ l, f (g x) = some (p x)) : rdAll f (l.map g) = some (l.map p) := by
  induction l with
  | nil => simp [rdAll]
  | cons a l ih =>
    simp only [List.map_cons, rdAll]
    rw [h a (by simp), ih (fun x hx => h x (by simp [hx]))]

theorem rdAll_octets (l : List Bytes) : rdAll rdOctets (l.map fun v => Tlv.prim 0 4 v) = some l := by
  have := rdAll_map rdOctets (fun v => Tlv.prim 0 4 v) id l (by intro x _; simp [rdOctets])
  simpa using this

theorem rdAttribute_partialAttr (name : Bytes) (vals : List Bytes) :
    rdAttribute (partialAttr name vals).toTlv = some (name, vals) := by
  simp [partialAttr, toTlvList_map, rdAttribute, rdOctets, rdAll_octets]

theorem scopeOf_toInt (s : Scope) : scopeOf s.toInt = some s := by cases s <;> simp [Scope.toInt, scopeOf]
theorem derefOf_toInt (d : Deref) : derefOf d.toInt = some d := by cases d <;> simp [Deref.toInt, derefOf]
theorem modKindOf_toInt (k : ModKind) : modKindOf k.toInt = some k := by cases k <;> simp [ModKind.toInt, modKindOf]

theorem Scope.i64 (s : Scope) : I64 s.toInt := by cases s <;> simp [Scope.toInt, I64]
theorem Deref.i64 (d : Deref) : I64 d.toInt := by cases d <;> simp [Deref.toInt, I64]
theorem ModKind.i64 (k : ModKind) : I64 k.toInt := by cases k <;> simp [ModKind.toInt, I64]

theorem rdChange_modItem (m : ModKind × Bytes × List Bytes) : rdChange (modItem m).toTlv = some m := by
  obtain ⟨k, a, vs⟩ := m
  have h := rdAttribute_partialAttr a vs
  simp [modItem, rdChange, rdEnum, readInt_intOctets _ k.i64, modKindOf_toInt, h]

theorem rdControl_buildControl (c : RawControl) : rdControl (buildControl c) = some c := by
  obtain ⟨o, crit, val⟩ := c
  cases crit <;> cases val <;> simp [buildControl, rdControl, rdOctets, rdBool]

theorem rdAll_controls (cs : List RawControl) : rdAll rdControl (cs.map buildControl) = some cs := by
  have := rdAll_map rdControl buildControl id cs (by intro x _; simp [rdControl_buildControl])
  simpa using this

theorem rdMsgId_int (id : Nat) (h : id < 2147483648) : rdMsgId (.prim 0 2 (intOctets (id : Int))) = some id := by
  have : I64 (id : Int) := by unfold I64; omega
  simp [rdMsgId, rdInteger, readInt_intOctets _ this]
  omega

/-! ### protocolOp -/

theorem anyEmpty_allNonEmpty (attrs : List (Bytes × List Bytes)) (h : (attrs.any fun a => a.2.isEmpty) = false) :
    allNonEmpty attrs = true := by
  unfold allNonEmpty
  induction attrs with
  | nil => simp
  | cons a l ih =>
    simp only [List.any_cons, Bool.or_eq_false_iff] at h
    simp [h.1, ih h.2]

theorem rdOp_build (r : Request) (h : WFReq r) : rdOp (build r).toTlv = some r := by
  obtain ⟨hrej, hrange⟩ := h
  cases r with
  | simpleBind dn pw =>
    simp [build, rdOp, rdBind, rdInteger, rdOctets, readInt_intOctets 3 (by simp [I64])]
  | saslExternal =>
    simp [build, saslBindReq, rdOp, rdBind, rdInteger, rdOctets, readInt_intOctets 3 (by simp [I64])]
  | search base scope deref sl tl to f attrs =>
    obtain ⟨h1, h2⟩ := hrange
    simp [build, rdOp, rdSearch, rdInteger, rdEnum, rdOctets, toTlvList_map, rdAll_octets,
      readInt_intOctets _ scope.i64, readInt_intOctets _ deref.i64, readInt_intOctets _ (I32.i64 h1),
      readInt_intOctets _ (I32.i64 h2), scopeOf_toInt, derefOf_toInt, rdBool_boolOctet]
  | add dn attrs =>
    have hm : rdAll rdAttribute (attrs.map fun a => (partialAttr a.1 a.2).toTlv) = some attrs := by
      have := rdAll_map rdAttribute (fun a : Bytes × List Bytes => (partialAttr a.1 a.2).toTlv) id attrs
        (by intro x _; simp [rdAttribute_partialAttr])
      simpa using this
    simp only [mustReject] at hrej
    simp [build, rdOp, rdAdd, rdOctets, toTlvList_map, hm, anyEmpty_allNonEmpty attrs hrej]
  | compare dn attr val => simp [build, rdOp, rdCompare, rdOctets]
  | delete dn => simp [build, rdOp]
  | modify dn mods =>
    have hm : rdAll rdChange (mods.map fun m => (modItem m).toTlv) = some mods := by
      have := rdAll_map rdChange (fun m => (modItem m).toTlv) id mods (by intro x _; simp [rdChange_modItem])
      simpa using this
    simp [build, rdOp, rdModify, rdOctets, toTlvList_map, hm]
  | modifyDn dn rdn d sup =>
    cases sup <;> simp [build, rdOp, rdModDn, rdOctets, rdBool_boolOctet]
  | extended name val =>
    cases name with
    | none => simp [mustReject] at hrej
    | some n => cases val <;> simp [build, exopItems, rdOp, rdExtended]
  | unbind => simp [build, rdOp]
  | abandon id =>
    simp [build, rdOp, readInt_intOctets _ (I32.i64 hrange)]

/-- the LDAPMessage tree the encoder builds -/
def msgTree (id : Nat) (r : Request) (cs : Option (List RawControl)) : Tlv :=
  (Tag.seq ([Tag.int (id : Int), build r] ++ (match cs with
    | none => []
    | some cs => [Tag.structure (.cons 2 0 (cs.map buildControl))]))).toTlv

theorem encodeMsg_eq (id : Nat) (r : Request) (cs : Option (List RawControl)) :
    encodeMsg (id : Int) (build r) cs = encode (msgTree id r cs) := by
  cases cs <;> simp [encodeMsg, msgTree]

theorem decodeRequest_msgTree (id : Nat) (r : Request) (cs : Option (List RawControl))
    (hid : id < 2147483648) (h : WFReq r) : decodeRequest (msgTree id r cs) = some (id, r, cs) := by
  cases cs with
  | none => simp [msgTree, decodeRequest, rdMsgId_int id hid, rdOp_build r h]
  | some cs => simp [msgTree, decodeRequest, rdMsgId_int id hid, rdOp_build r h, rdAll_controls]

end Ldap3V

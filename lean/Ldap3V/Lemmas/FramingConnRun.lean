/-
The byte level composed with whole histories of the connection model: the server's events derived
from the reads allocate no IDs (so the no-wrap-around hypothesis `allocCount … ≤ N` of the
whole-history theorems is about the client's events only), and what "nobody is left waiting" says.
-/
import Ldap3V.Lemmas.FramingConn
import Ldap3V.Lemmas.ConnGaps
namespace Ldap3V.Conn

theorem srvEvents_nonalloc (fr : List Frame × Bool) : ∀ e ∈ srvEvents fr, isAlloc e = false := by
  intro e he
  unfold srvEvents at he
  rcases List.mem_append.mp he with h | h
  · obtain ⟨f, _, rfl⟩ := List.mem_map.mp h; rfl
  · split at h
    · simp only [List.mem_singleton] at h; subst h; rfl
    · cases h

theorem allocCount_append (a b : List Ev) : allocCount (a ++ b) = allocCount a + allocCount b := by
  unfold allocCount; rw [List.countP_append]

theorem allocCount_nonalloc (a : List Ev) (h : ∀ e ∈ a, isAlloc e = false) : allocCount a = 0 := by
  unfold allocCount
  rw [List.countP_eq_zero]
  intro e he
  simp [h e he]

theorem allocCount_srvEvents_append (fr : List Frame × Bool) (evs : List Ev) :
    allocCount (srvEvents fr ++ evs) = allocCount evs := by
  rw [allocCount_append, allocCount_nonalloc _ (srvEvents_nonalloc fr)]; omega

theorem allocCount_weave : ∀ (srv : List Ev) (segs : List (List Ev)), (∀ e ∈ srv, isAlloc e = false) →
    allocCount (weave srv segs) = allocCount segs.flatten
  | srv, [], h => by
    have : weave srv [] = srv := by cases srv <;> rfl
    rw [this, allocCount_nonalloc srv h]; rfl
  | [], seg :: segs, _ => by rw [weave_nil_left]
  | e :: srv, seg :: segs, h => by
    have : weave (e :: srv) (seg :: segs) = seg ++ e :: weave srv segs := rfl
    rw [this, List.flatten_cons, allocCount_append, allocCount_append,
      show e :: weave srv segs = [e] ++ weave srv segs from rfl, allocCount_append,
      allocCount_nonalloc [e] (by intro x hx; simp only [List.mem_singleton] at hx; subst hx; exact h _ (by simp)),
      allocCount_weave srv segs (fun x hx => h x (by simp [hx]))]
    omega

/-- nobody is left waiting in state `s` (the conclusion of `C04_dead_connection_nobody_waits`):
(1) every call that queued its request and has not returned resolves at its next poll — with the
response if one had been delivered, with an error if not; (2) `next()` on every started search
stream returns an item queued earlier, or `EndOfStream`. -/
def NobodyWaits (s : St) : Prop :=
  (∀ (i : Nat) (o : Op), s.ops[i]? = some o → o.phase ≠ .allocated → o.res = none →
    ∃ r s', step s (.poll i) = some (s', .res (some r)) ∧
      (∀ f, o.mail = .frame f → r = if f.good then .frame f else .decodeErr) ∧ (o.mail = .ack → r = .ack) ∧
      (o.mail = .dropped → r = .recvErr)) ∧
  (∀ (c : Nat) (ch : Chan) (dl : Option Nat), s.chans[c]? = some ch →
    (s.ops[ch.opIdx]?.bind (·.res)) = some .ack → ch.rxAlive = true →
    (∃ it, ch.items[ch.taken]? = some it ∧ ∃ s', step s (.recv c dl) = some (s', .item (some it))) ∨
    (ch.items[ch.taken]? = none ∧ step s (.recv c dl) = some (s, .closed)))

/-- the driver's response step when the log is exhausted and the stream ended in an error -/
theorem drvResp_garbage (s : St) (hr : s.drv = .running) (hp : s.srvLog[s.pos]? = none) (hl : s.link = .garbage) :
    step s .drvResp = some (endDriver s .endedErr, .none) := by
  simp [step, hr, hp, hl]

theorem run_drvResp_garbage (s0 : St) (H : List Ev) (hr : (run s0 H).drv = .running)
    (hp : (run s0 H).srvLog[(run s0 H).pos]? = none) (hl : (run s0 H).link = .garbage) :
    run s0 (H ++ [.drvResp]) = endDriver (run s0 H) .endedErr := by
  rw [run_snoc, next, drvResp_garbage _ hr hp hl]

end Ldap3V.Conn

/-
From the channel of a search in a reachable connection state to what the stream model presents:
the stream (direct or behind EntriesOnly) run on `fullScript D s c` behaves as the specification
cursor on `sentView`, the view computed from the frames the server sent under the search's ID.

The link "channel items = the server's frames under this ID" has two halves.  Soundness (every item
was sent by the server under this ID, order kept) is `RouteInv` (C01_routing / C01_order).
Completeness (no such frame is missing) is the explicit hypothesis `ChanComplete`; it is being
proved separately as `C01_complete`.  Everything else used here (`ChanWF`) holds in every reachable
state.
-/
import Ldap3V.Lemmas.ConnStreamInv
namespace Ldap3V.ConnStream
open Ldap3V Ldap3V.Stream Ldap3V.Stream.Spec

/-- what the driver makes of the frames `l` arriving under a search's ID (conn.rs, search routing in
`turn`): entries / references / intermediate messages are handed on one by one; the first
well-formed SearchResultDone is handed on and ends the search; any other frame ends the
connection (fix F4) and nothing after it is looked at -/
def deliverItems : List Conn.Frame → List Conn.Item
  | [] => []
  | f :: l => if isItemOp f.op then .entry f :: deliverItems l
              else if f.op = 5 ∧ f.good = true then [.done f] else []

def deliverable (l : List Conn.Frame) : List Conn.Frame := (deliverItems l).map Conn.itemFrame

/-- the frames the server sent under message ID `k`, from its `p0`-th frame on, as far as the driver
has read them, in order -/
def sentFrom (s : Conn.St) (p0 k : Nat) : List Conn.Frame :=
  ((s.srvLog.take s.pos).drop p0).filter fun f => f.id == (k : Int)

/-- all of them -/
def sentFor (s : Conn.St) (k : Nat) : List Conn.Frame := sentFrom s 0 k

theorem sentFor_eq (s : Conn.St) (k : Nat) :
    sentFor s k = (s.srvLog.take s.pos).filter fun f => f.id == (k : Int) := by
  simp [sentFor, sentFrom]

/-- HYPOTHESIS of the end-to-end theorems (completeness of routing, to be discharged by
`C01_complete`): the channel `ch` of the search `o` has been given every frame the server sent under
the search's ID that the driver read, up to the frame that ends the search.  `p0` = how many frames
the server had sent when the search was registered (frames under this ID read before that belong to
nobody and are dropped, `C01_unmatched_inert`; 0 if there are none).
It is a statement about ONE state, decidable, and true e.g. in `C10_conn_stream`'s examples. -/
def ChanComplete (s : Conn.St) (ch : Conn.Chan) (o : Conn.Op) (p0 : Nat) : Prop :=
  ch.items.map Conn.itemFrame = deliverable (sentFrom s p0 o.id)

instance (s : Conn.St) (ch : Conn.Chan) (o : Conn.Op) (p0 : Nat) : Decidable (ChanComplete s ch o p0) := by
  unfold ChanComplete; exact inferInstance

/-- the view the PROPERTY prescribes for the frames `l` sent under the search's ID: the items in
order, then the server's final result; if the frames stop before a final result: EndOfStream when
the channel has no sender left (`opn = false`), an endless wait otherwise -/
def sentView (D : Content) (opn : Bool) : List Conn.Frame → View
  | [] => ⟨[], if opn then .pending else .fail [] .endOfStream⟩
  | f :: l =>
    if isItemOp f.op then ⟨⟨[], itemOf D f⟩ :: (sentView D opn l).steps, (sentView D opn l).ending⟩
    else if f.op = 5 ∧ f.good = true then ⟨[], .done [] (resOf D f)⟩
    else ⟨[], if opn then .pending else .fail [] .endOfStream⟩

theorem clsOk_deliverItems : ∀ (l : List Conn.Frame), ∀ it ∈ deliverItems l, clsOk it
  | [], it, h => by simp [deliverItems] at h
  | f :: l, it, h => by
    simp only [deliverItems] at h
    split at h
    · next hi =>
      simp only [List.mem_cons] at h
      rcases h with rfl | h
      · exact hi
      · exact clsOk_deliverItems l it h
    · split at h
      · next hd => simp only [List.mem_singleton] at h; subst h; exact hd
      · cases h

theorem item_eq_of_frame {a b : Conn.Item} (ha : clsOk a) (hb : clsOk b) (h : Conn.itemFrame a = Conn.itemFrame b) :
    a = b := by
  cases a with
  | entry f =>
    cases b with
    | entry g => simp only [Conn.itemFrame] at h; rw [h]
    | done g =>
      simp only [Conn.itemFrame] at h; subst h
      have h1 : isItemOp f.op = true := ha
      have h2 : f.op = 5 := hb.1
      rw [h2] at h1; simp [isItemOp] at h1
  | done f =>
    cases b with
    | done g => simp only [Conn.itemFrame] at h; rw [h]
    | entry g =>
      simp only [Conn.itemFrame] at h; subst h
      have h1 : isItemOp f.op = true := hb
      have h2 : f.op = 5 := ha.1
      rw [h2] at h1; simp [isItemOp] at h1

theorem items_eq_of_frames : ∀ (a b : List Conn.Item), (∀ x ∈ a, clsOk x) → (∀ x ∈ b, clsOk x) →
    a.map Conn.itemFrame = b.map Conn.itemFrame → a = b
  | [], [], _, _, _ => rfl
  | [], _ :: _, _, _, h => by simp at h
  | _ :: _, [], _, _, h => by simp at h
  | x :: a, y :: b, ha, hb, h => by
    simp only [List.map_cons, List.cons.injEq] at h
    rw [item_eq_of_frame (ha x (by simp)) (hb y (by simp)) h.1,
      items_eq_of_frames a b (fun z hz => ha z (by simp [hz])) (fun z hz => hb z (by simp [hz])) h.2]

/-- with the classification invariant, completeness at the level of frames is completeness at the level of items -/
theorem items_of_complete {s : Conn.St} {ch : Conn.Chan} {o : Conn.Op} {p0 : Nat} (hok : ChanOk ch) (hcomp : ChanComplete s ch o p0) :
    ch.items = deliverItems (sentFrom s p0 o.id) :=
  items_eq_of_frames _ _ hok.2 (clsOk_deliverItems _) hcomp

theorem rawView_deliver (D : Content) (opn : Bool) : ∀ (l : List Conn.Frame),
    rawView ((deliverItems l).map (recvOf D) ++ (if opn then [] else [.closed])) = sentView D opn l
  | [] => by cases opn <;> simp [deliverItems, sentView, rawView]
  | f :: l => by
    simp only [deliverItems, sentView]
    split
    · simp only [List.map_cons, List.cons_append, recvOf, rawView_item, rawView_deliver D opn l]
    · split
      · simp [recvOf, rawView]
      · cases opn <;> simp [rawView]

theorem rawView_fullScript (D : Content) {s : Conn.St} {c : Nat} {ch : Conn.Chan} {o : Conn.Op} {p0 : Nat}
    (hc : s.chans[c]? = some ch) (hok : ChanOk ch) (hcomp : ChanComplete s ch o p0) :
    rawView (fullScript D s c) = sentView D (Conn.chanOpen s c) (sentFrom s p0 o.id) := by
  rw [fullScript_eq hc, items_of_complete hok hcomp]
  exact rawView_deliver D (Conn.chanOpen s c) _

/-- when the frames contain the final result the view does not depend on the senders -/
theorem sentView_of_done (D : Content) (opn : Bool) : ∀ (l : List Conn.Frame) (f : Conn.Frame),
    Conn.Item.done f ∈ deliverItems l → sentView D opn l = sentView D false l
  | [], f, h => by simp [deliverItems] at h
  | g :: l, f, h => by
    simp only [deliverItems] at h
    simp only [sentView]
    split at h
    · next hi =>
      simp only [List.mem_cons, reduceCtorEq, false_or] at h
      simp only [hi, if_true, sentView_of_done D opn l f h]
    · next hi =>
      split at h
      · next hd => simp [hd, isItemOp]
      · cases h

theorem startOutcome_script (eoFlag : Bool) (h : Handle) (q : Query) (l : List Recv) :
    startOutcome (if eoFlag then [.entriesOnly] else []) h q [.script l] =
      if q.filterOk then .ok else .err .filterParsing := by
  cases eoFlag <;> cases hq : q.filterOk <;> simp [startOutcome, hq]

/-- the bridge, most general form: any reachable-state channel that is complete for its search; no
assumption on whether the search or the driver has ended (`chanOpen` decides between waiting and
EndOfStream when the frames stop short of a result) -/
theorem conn_stream_refines (D : Content) {s : Conn.St} {c : Nat} {ch : Conn.Chan} {o : Conn.Op} {p0 : Nat}
    (hc : s.chans[c]? = some ch) (hok : ChanOk ch) (hcomp : ChanComplete s ch o p0)
    (eoFlag : Bool) (h : Handle) (q : Query) (calls : List Call) :
    run (init (if eoFlag then [eo] else []) h [.script (fullScript D s c)]) (.start q :: calls) =
      Cursor.run (if q.filterOk then .ok else .err .filterParsing)
        (Cursor.ofView (if eoFlag then eoView (sentView D (Conn.chanOpen s c) (sentFrom s p0 o.id))
          else sentView D (Conn.chanOpen s c) (sentFrom s p0 o.id)))
        (.start q :: calls) := by
  have hv := rawView_fullScript D hc hok hcomp
  cases eoFlag with
  | false =>
    simp only [Bool.false_eq_true, if_false]
    rw [refines_direct, ← hv]
    have := startOutcome_script false h q (fullScript D s c)
    simp only [Bool.false_eq_true, if_false] at this
    rw [this]
    rfl
  | true =>
    simp only [if_true]
    rw [refines_eo, ← hv]
    have := startOutcome_script true h q (fullScript D s c)
    simp only [if_true] at this
    rw [this]
    rfl

/-- the driver has ended, or the search is complete: the ending is the server's result or EndOfStream -/
theorem sentView_ended (D : Content) {s : Conn.St} {c : Nat} {ch : Conn.Chan} {o : Conn.Op} {p0 : Nat}
    (hwf : ChanWF s) (hc : s.chans[c]? = some ch) (hcomp : ChanComplete s ch o p0)
    (hend : s.drv ≠ .running ∨ ∃ f, Conn.Item.done f ∈ ch.items) :
    sentView D (Conn.chanOpen s c) (sentFrom s p0 o.id) = sentView D false (sentFrom s p0 o.id) := by
  rcases hend with hd | ⟨f, hf⟩
  · rw [hwf.closed_of_dead hd c]
  · rw [items_of_complete (hwf.get hc) hcomp] at hf
    exact sentView_of_done D _ _ f hf

/-! ### explicit shape: items, then the result -/

theorem deliverItems_shape : ∀ (its : List Conn.Frame) (fd : Conn.Frame) (rest : List Conn.Frame),
    (∀ f ∈ its, isItemOp f.op = true) → fd.op = 5 → fd.good = true →
    deliverItems (its ++ fd :: rest) = its.map .entry ++ [.done fd]
  | [], fd, rest, _, h5, hg => by
    simp [deliverItems, isItemOp, h5, hg]
  | f :: its, fd, rest, hi, h5, hg => by
    have hf : isItemOp f.op = true := hi f (by simp)
    simp only [List.cons_append, deliverItems, hf, if_true, List.map_cons,
      deliverItems_shape its fd rest (fun g hg' => hi g (by simp [hg'])) h5 hg]

/-- the script of a complete search whose frames are `its` (items) followed by the result `fd` -/
theorem fullScript_shape (D : Content) {s : Conn.St} {c : Nat} {ch : Conn.Chan} {o : Conn.Op} {p0 : Nat}
    (hc : s.chans[c]? = some ch) (hok : ChanOk ch) (hcomp : ChanComplete s ch o p0)
    {its : List Conn.Frame} {fd : Conn.Frame} {rest : List Conn.Frame}
    (hsent : sentFrom s p0 o.id = its ++ fd :: rest) (hi : ∀ f ∈ its, isItemOp f.op = true)
    (h5 : fd.op = 5) (hg : fd.good = true) :
    fullScript D s c = (its.map (itemOf D)).map Recv.item ++ .done (resOf D fd) :: closedTail s c := by
  rw [fullScript_eq hc, items_of_complete hok hcomp, hsent, deliverItems_shape its fd rest hi h5 hg]
  simp [recvOf, Function.comp_def]

/-- `n + 1` calls of `next()` then `finish()` on an active cursor without gains whose ending is a result -/
theorem Cursor.run_nexts_done (ro : StartOut) : ∀ (rest : List Step) (c : Cursor) (r : Res),
    c.state = .active → c.rest = rest → c.ending = .done [] r → c.acc = [] → (∀ st ∈ rest, st.gain = []) →
    Cursor.run ro c (List.replicate (rest.length + 1) .next ++ [.finish]) =
      rest.map (fun st => .item (.ok (some st.item))) ++ [.item (.ok none), .result r] := by
  intro rest
  induction rest with
  | nil =>
    intro c r hs hr he ha _
    have h1 : c.step ro .next = ({ c with state := .done, acc := c.acc ++ [], final := some r }, .item (.ok none)) := by
      simp [Cursor.step, Cursor.next, hs, hr, he]
    simp only [List.length_nil, Nat.zero_add, List.replicate_one, List.singleton_append, Cursor.run, h1,
      Output.stuck, Bool.false_eq_true, if_false, List.map_nil, List.nil_append, List.cons.injEq, true_and]
    simp [Cursor.step, Cursor.finish, ha]
  | cons st tl ih =>
    intro c r hs hr he ha hg
    have h1 : c.step ro .next = ({ c with rest := tl, pos := c.pos + 1, acc := c.acc ++ st.gain }, .item (.ok (some st.item))) := by
      simp [Cursor.step, Cursor.next, hs, hr]
    rw [show (st :: tl).length + 1 = (tl.length + 1) + 1 by simp, List.replicate_succ, List.cons_append, Cursor.run, h1]
    simp only [Output.stuck, Bool.false_eq_true, if_false, List.map_cons, List.cons_append, List.cons.injEq, true_and]
    exact ih _ r hs rfl he (by simp [ha, hg st (by simp)]) (fun x hx => hg x (by simp [hx]))

/-- a direct stream on a script `items…, Done(r), …`: the items one by one, `Ok(None)`, and `finish()` returns `r` -/
theorem run_direct_items_done (h : Handle) (q : Query) (hq : q.filterOk = true) (items : List Item) (r : Res)
    (tl : List Recv) (ps : List Page) :
    run (init [] h (.script (items.map .item ++ .done r :: tl) :: ps))
        (.start q :: (List.replicate (items.length + 1) .next ++ [.finish])) =
      .started .ok :: (items.map (fun i => Output.item (.ok (some i))) ++ [.item (.ok none), .result r]) := by
  rw [refines_direct]
  have hso : startOutcome [] h q (.script (items.map .item ++ .done r :: tl) :: ps) = .ok := by simp [startOutcome, hq]
  rw [hso, Cursor.run]
  have hc : (Cursor.ofView (view [] (.script (items.map .item ++ .done r :: tl) :: ps))).step .ok (.start q) =
      ({ Cursor.ofView (view [] (.script (items.map .item ++ .done r :: tl) :: ps)) with state := .active }, .started .ok) := by
    simp [Cursor.step, Cursor.start, Cursor.ofView]
  rw [hc]
  simp only [Output.stuck, Bool.false_eq_true, if_false, List.cons.injEq, true_and]
  obtain ⟨h1, h2⟩ := rawView_items items (.done r :: tl)
  have := Cursor.run_nexts_done .ok (items.map fun i => (⟨[], i⟩ : Step))
    { Cursor.ofView (view [] (.script (items.map .item ++ .done r :: tl) :: ps)) with state := .active } r rfl
    (by simp [Cursor.ofView, view, h1, rawView]) (by simp [Cursor.ofView, view, h2, rawView]) rfl
    (by intro st hst; simp only [List.mem_map] at hst; obtain ⟨i, _, rfl⟩ := hst; rfl)
  simp only [List.length_map, List.map_map] at this
  rw [this]
  simp [Function.comp_def]

/-! ### the half that needs no hypothesis: whatever is in the channel was sent by the server under
the search's ID, in that order, and is classified by its protocolOp number -/

/-- what the receiver gets for a frame the driver hands on, by the protocolOp number alone -/
def recvOfFrame (D : Content) (f : Conn.Frame) : Recv :=
  if isItemOp f.op then .item (itemOf D f) else .done (resOf D f)

theorem recvOf_frame (D : Content) {it : Conn.Item} (h : clsOk it) : recvOf D it = recvOfFrame D (Conn.itemFrame it) := by
  cases it with
  | entry f =>
    have h1 : isItemOp f.op = true := h
    simp [recvOf, recvOfFrame, Conn.itemFrame, h1]
  | done f =>
    have h2 : f.op = 5 := h.1
    simp [recvOf, recvOfFrame, Conn.itemFrame, h2, isItemOp]

theorem fullScript_sound (D : Content) {s : Conn.St} (hr : Conn.RouteInv s) (hwf : ChanWF s) {c : Nat} {ch : Conn.Chan}
    {o : Conn.Op} (hc : s.chans[c]? = some ch) (ho : s.ops[ch.opIdx]? = some o) :
    (ch.items.map Conn.itemFrame).Sublist (sentFor s o.id) ∧
    (∀ f ∈ ch.items.map Conn.itemFrame, isItemOp f.op = true ∨ (f.op = 5 ∧ f.good = true)) ∧
    fullScript D s c = (ch.items.map Conn.itemFrame).map (recvOfFrame D) ++ closedTail s c := by
  have hok := hwf.get hc
  refine ⟨?_, ?_, ?_⟩
  · have hsub := hr.itemsLog c ch hc
    have hall : ∀ f ∈ ch.items.map Conn.itemFrame, (f.id == (o.id : Int)) = true := by
      intro f hf
      obtain ⟨it, hit, rfl⟩ := List.mem_map.mp hf
      obtain ⟨o2, ho2, hid⟩ := hr.items c ch it hc hit
      rw [ho] at ho2; cases ho2
      simp [hid]
    have := hsub.filter (fun f => f.id == (o.id : Int))
    rw [sentFor_eq]
    rwa [List.filter_eq_self.mpr hall] at this
  · intro f hf
    obtain ⟨it, hit, rfl⟩ := List.mem_map.mp hf
    have := hok.2 it hit
    cases it with
    | entry g => exact Or.inl this
    | done g => exact Or.inr this
  · rw [fullScript_eq hc, List.map_map]
    congr 1
    apply List.map_congr_left
    intro it hit
    exact recvOf_frame D (hok.2 it hit)

end Ldap3V.ConnStream

/-
The bridge between the two models of a streaming search.

* Model/Conn.lean says which frames reach the channel of a search (`Chan.items`), which of them the
  caller has already received (`Chan.taken`) and whether the channel still has a sender (`chanOpen`);
* Model/Stream.lean says what the caller of `SearchStream` sees, given a SCRIPT of what the inner
  receive (`next_inner`) yields.

`scriptOf D s c` is the script channel `c` of the connection state `s` produces if it is polled to
exhaustion with no further driver activity and no deadline: one `.item` per queued entry / referral
/ intermediate frame, `.done` for a queued SearchResultDone, then `.closed` if no sender is left.
The content of a frame is opaque in Model/Conn.lean (`tok`); `Content` decodes the token, and every
statement quantifies over ALL decodings.

`recv_sim` / `nextInner_sim`: one `.recv c dl` step of the connection model is one `next_inner` of
the stream model on `scriptOf`, and the state after the step has the tail as its script.
-/
import Ldap3V.Lemmas.ConnRouteStep
import Ldap3V.Lemmas.StreamC10
namespace Ldap3V.ConnStream
open Ldap3V

/-- decoding of the opaque frame token: what `parse_refs` makes of the payload, the controls of the
message, and for a SearchResultDone the result code and the referral list -/
structure Content where
  uris : Nat → Option (List Bytes)
  ctrls : Nat → List Stream.Ctl
  rc : Nat → Nat
  refs : Nat → List Bytes

/-- `ResultEntry::is_ref` ⇔ 19, `is_intermediate` ⇔ 25 (Props/C10 `C10_item_kinds_source`); everything
else the driver hands on as an item is a SearchResultEntry (4) -/
def kindOfOp (n : Nat) : Stream.Kind := if n = 19 then .ref else if n = 25 then .inter else .entry

def itemOf (D : Content) (f : Conn.Frame) : Stream.Item := ⟨kindOfOp f.op, f.tok, D.uris f.tok, D.ctrls f.tok⟩

def resOf (D : Content) (f : Conn.Frame) : Stream.Res := ⟨D.rc f.tok, D.refs f.tok, D.ctrls f.tok, .server f.tok⟩

/-- what `rx.recv()` hands to `next_inner` for one queued channel item -/
def recvOf (D : Content) : Conn.Item → Stream.Recv
  | .entry f => .item (itemOf D f)
  | .done f => .done (resOf D f)

/-- a drained channel without a sender reports `None` (EndOfStream); with a sender the receiver waits -/
def closedTail (s : Conn.St) (c : Nat) : List Stream.Recv := if Conn.chanOpen s c then [] else [.closed]

/-- the script of channel `c` from queue position `k` on -/
def scriptFrom (D : Content) (s : Conn.St) (c k : Nat) : List Stream.Recv :=
  match s.chans[c]? with
  | none => []
  | some ch => (ch.items.drop k).map (recvOf D) ++ closedTail s c

/-- what the receiver of channel `c` will still observe: the items not yet taken, then the closure -/
def scriptOf (D : Content) (s : Conn.St) (c : Nat) : List Stream.Recv :=
  match s.chans[c]? with
  | none => []
  | some ch => scriptFrom D s c ch.taken

/-- everything channel `c` has held or holds, from the first item on -/
def fullScript (D : Content) (s : Conn.St) (c : Nat) : List Stream.Recv := scriptFrom D s c 0

theorem scriptOf_eq {D : Content} {s : Conn.St} {c : Nat} {ch : Conn.Chan} (hc : s.chans[c]? = some ch) :
    scriptOf D s c = (ch.items.drop ch.taken).map (recvOf D) ++ closedTail s c := by
  simp [scriptOf, scriptFrom, hc]

theorem fullScript_eq {D : Content} {s : Conn.St} {c : Nat} {ch : Conn.Chan} (hc : s.chans[c]? = some ch) :
    fullScript D s c = ch.items.map (recvOf D) ++ closedTail s c := by
  simp [fullScript, scriptFrom, hc]

/-- the remaining script is the full script without the items already received -/
theorem scriptOf_drop {D : Content} {s : Conn.St} {c : Nat} {ch : Conn.Chan} (hc : s.chans[c]? = some ch)
    (ht : ch.taken ≤ ch.items.length) : scriptOf D s c = (fullScript D s c).drop ch.taken := by
  rw [scriptOf_eq hc, fullScript_eq hc, List.drop_append_of_le_length (by simpa using ht), List.map_drop]

theorem scriptOf_fresh {D : Content} {s : Conn.St} {c : Nat} {ch : Conn.Chan} (hc : s.chans[c]? = some ch)
    (ht : ch.taken = 0) : scriptOf D s c = fullScript D s c := by
  rw [scriptOf_eq hc, fullScript_eq hc, ht]; rfl

/-! ### one receive = consuming the head of the script -/

theorem set_self_get {cs : List Conn.Chan} {c : Nat} {ch : Conn.Chan} (ch' : Conn.Chan) (hc : cs[c]? = some ch) :
    (cs.set c ch')[c]? = some ch' := by
  have hlt : c < cs.length := (List.getElem?_eq_some_iff.mp hc).1
  simp [hlt]

/-- Simulation, connection side.  Whatever a `.recv c dl` step observes is the head of `scriptOf`:
an item ⇒ the script was that item followed by the script of the state after the step; `closed` ⇒
the script is `[.closed]`; `pending` (and a fired deadline) ⇒ the script is empty.  No hypothesis on
the state is needed. -/
theorem recv_sim (D : Content) {s s' : Conn.St} {c : Nat} {dl : Option Nat} {ob : Conn.Obs}
    (hs : Conn.step s (.recv c dl) = some (s', ob)) :
    (∃ it, ob = .item (some it) ∧ scriptOf D s c = recvOf D it :: scriptOf D s' c) ∨
    (ob = .closed ∧ s' = s ∧ scriptOf D s c = [.closed]) ∨
    (ob = .pending ∧ s' = s ∧ scriptOf D s c = []) ∨
    ((ob = .timeout ∨ ob = .sendErr) ∧ dl ≠ none ∧ scriptOf D s c = [] ∧ scriptOf D s' c = []) := by
  simp only [Conn.step] at hs
  cases hc : s.chans[c]? with
  | none => rw [hc] at hs; cases hs
  | some ch =>
    rw [hc] at hs
    simp only at hs
    split at hs
    · cases hs
    · split at hs
      · cases hs
      · split at hs
        · next it hit =>
          simp only [Option.some.injEq, Prod.mk.injEq] at hs
          obtain ⟨rfl, rfl⟩ := hs
          refine Or.inl ⟨it, rfl, ?_⟩
          have hc' : (s.chans.set c { ch with taken := ch.taken + 1 })[c]? = some { ch with taken := ch.taken + 1 } :=
            set_self_get _ hc
          rw [scriptOf_eq hc, scriptOf_eq hc']
          have hd : ch.items.drop ch.taken = it :: ch.items.drop (ch.taken + 1) := by
            have hlt : ch.taken < ch.items.length := (List.getElem?_eq_some_iff.mp hit).1
            rw [List.drop_eq_getElem_cons hlt]
            congr 1
            have := List.getElem?_eq_getElem hlt
            rw [hit] at this
            exact (Option.some.inj this).symm
          rw [hd]
          rfl
        · next hnone =>
          have hdrop : ch.items.drop ch.taken = [] := by
            apply List.drop_eq_nil_of_le
            exact List.getElem?_eq_none_iff.mp hnone
          split at hs
          · next hopen =>
            simp only [Option.some.injEq, Prod.mk.injEq] at hs
            obtain ⟨rfl, rfl⟩ := hs
            refine Or.inr (Or.inl ⟨rfl, rfl, ?_⟩)
            rw [scriptOf_eq hc, hdrop]
            simp only [Bool.not_eq_true'] at hopen
            simp [closedTail, hopen]
          · next hopen =>
            have hopen' : Conn.chanOpen s c = true := by simpa using hopen
            have hscr : scriptOf D s c = [] := by
              rw [scriptOf_eq hc, hdrop]; simp [closedTail, hopen']
            split at hs
            · next d =>
              split at hs
              · split at hs
                · split at hs
                  · simp only [Option.some.injEq, Prod.mk.injEq] at hs
                    obtain ⟨rfl, rfl⟩ := hs
                    refine Or.inr (Or.inr (Or.inr ⟨Or.inl rfl, by simp, hscr, ?_⟩))
                    have hc' : (s.chans.set c { ch with timedOut := true })[c]? = some { ch with timedOut := true } :=
                      set_self_get _ hc
                    rw [scriptOf_eq hc']
                    show (ch.items.drop ch.taken).map (recvOf D) ++ closedTail s c = []
                    rw [hdrop]; simp [closedTail, hopen']
                  · simp only [Option.some.injEq, Prod.mk.injEq] at hs
                    obtain ⟨rfl, rfl⟩ := hs
                    exact Or.inr (Or.inr (Or.inr ⟨Or.inr rfl, by simp, hscr, hscr⟩))
                · cases hs
              · simp only [Option.some.injEq, Prod.mk.injEq] at hs
                obtain ⟨rfl, rfl⟩ := hs
                exact Or.inr (Or.inr (Or.inl ⟨rfl, rfl, hscr⟩))
            · simp only [Option.some.injEq, Prod.mk.injEq] at hs
              obtain ⟨rfl, rfl⟩ := hs
              exact Or.inr (Or.inr (Or.inl ⟨rfl, rfl, hscr⟩))

/-- Simulation, stream side.  A stream whose receiver holds `scriptOf D s c` and the connection in
state `s`: what `next_inner` returns and does to the stream is what the `.recv c dl` step observes,
and afterwards the receiver holds the script of the new connection state (or is gone, after Done /
EndOfStream, as in the code: `self.rx = None`). -/
theorem nextInner_sim (D : Content) {s s' : Conn.St} {c : Nat} {dl : Option Nat} {ob : Conn.Obs}
    (hs : Conn.step s (.recv c dl) = some (s', ob)) (m : Stream.Stream) (hrx : m.rx = some (scriptOf D s c)) :
    (∀ f, ob = .item (some (.entry f)) →
      Stream.nextInner m = ({ m with rx := some (scriptOf D s' c) }, .ok (some (itemOf D f)))) ∧
    (∀ f, ob = .item (some (.done f)) →
      Stream.nextInner m = ({ m with res := some (resOf D f), rx := none }, .ok none)) ∧
    (ob = .closed → Stream.nextInner m = ({ m with rx := none }, .err .endOfStream)) ∧
    (ob = .pending → Stream.nextInner m = (m, .pending)) := by
  rcases recv_sim D hs with ⟨it, rfl, hscr⟩ | ⟨rfl, _, hscr⟩ | ⟨rfl, _, hscr⟩ | ⟨hob, _, _, _⟩
  · rw [hscr] at hrx
    refine ⟨?_, ?_, nofun, nofun⟩
    · intro f hf
      simp only [Conn.Obs.item.injEq, Option.some.injEq] at hf
      subst hf
      simp [Stream.nextInner, hrx, recvOf]
    · intro f hf
      simp only [Conn.Obs.item.injEq, Option.some.injEq] at hf
      subst hf
      simp [Stream.nextInner, hrx, recvOf]
  · rw [hscr] at hrx
    refine ⟨nofun, nofun, fun _ => ?_, nofun⟩
    simp [Stream.nextInner, hrx]
  · rw [hscr] at hrx
    refine ⟨nofun, nofun, nofun, fun _ => ?_⟩
    simp [Stream.nextInner, hrx]
  · refine ⟨fun f h => ?_, fun f h => ?_, fun h => ?_, fun h => ?_⟩ <;>
      rcases hob with rfl | rfl <;> cases h

end Ldap3V.ConnStream

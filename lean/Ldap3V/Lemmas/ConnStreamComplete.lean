/-
Discharging `ConnStream.ChanComplete` (the hypothesis of the bridge `C10_conn_stream`) from the
completeness of routing (`CAt`, Lemmas/ConnComplete*.lean, `C01_complete`).

`ChanComplete s ch o p0`: the channel holds `deliverable (sentFrom s p0 o.id)` — of the frames with the
search's ID read from position `p0` on: the leading entries / references / intermediate messages,
then the first well-formed SearchResultDone, and nothing after a frame that is neither.

When is that true of a search the driver took off the queue at read position `p0`?
* (`compl_of_done`) ALWAYS once its SearchResultDone is in the channel — whatever happened to the
  search afterwards (finish, scrub, ID reuse);
* (`J.compl`) in every state up to which the search has been `Served`: at every earlier moment at
  which the driver was running and the Done had not come, the search was still registered with a
  live receiver.  This covers the search still in progress, the search read to its end, and the
  search cut off because the driver ended — by EOF, garbage on the wire, a failed write, the last
  handle dropped, or a frame under a registered search's ID (this or another search) that
  `routeSearch` cannot hand on (fix F4): that frame IS consumed, and `deliverable` stops in front
  of it.
* It is FALSE in general for a search that lost its registration while the driver went on —
  scrubbed (its `next()` or `op_call` timed out, `finish()` before the end, a stale scrub for a reused
  ID), abandoned (`Abandon` naming its ID), displaced by a later search with the same ID (wrap,
  F13), or whose receiver was dropped before a further frame came (the driver then removes the
  entry): frames under its ID that the driver reads afterwards are dropped as unmatched
  (`C01_unmatched_inert`) but are counted by `sentFrom`.  `Served` is exactly the hypothesis that
  excludes these; `C10_lost_search_incomplete` (Props/C10.lean) is a witness.
-/
import Ldap3V.Lemmas.ConnCompleteEnd
import Ldap3V.Lemmas.ConnCompleteCaller
import Ldap3V.Lemmas.ConnStreamView
namespace Ldap3V.ConnStream
open Ldap3V Ldap3V.Conn

/-! ### `deliverItems` / `deliverable` on lists -/

theorem isItemOp_of_ops {f : Frame} (h : f.op = 4 ∨ f.op = 25 ∨ f.op = 19) : isItemOp f.op = true := by
  rcases h with h | h | h <;> simp [isItemOp, h]

/-- the single-frame `Conn.deliverable` is the head test of `deliverItems` -/
theorem bad_frame {f : Frame} (h : Conn.deliverable f = false) : isItemOp f.op = false ∧ ¬ (f.op = 5 ∧ f.good = true) := by
  have h' : (isItemOp f.op || (f.op == 5 && f.good)) = false := h
  simp only [Bool.or_eq_false_iff, Bool.and_eq_false_iff, beq_eq_false_iff_ne] at h'
  refine ⟨h'.1, fun hh => ?_⟩
  rcases h'.2 with h5 | hg
  · exact h5 hh.1
  · rw [hh.2] at hg; cases hg

theorem deliverItems_items_append : ∀ (its tl : List Frame), (∀ f ∈ its, isItemOp f.op = true) →
    deliverItems (its ++ tl) = its.map .entry ++ deliverItems tl
  | [], _, _ => rfl
  | f :: its, tl, h => by
    have hf := h f (by simp)
    simp only [List.cons_append, deliverItems, hf, if_true, List.map_cons]
    rw [deliverItems_items_append its tl (fun g hg => h g (by simp [hg]))]

theorem map_entry_frame (its : List Frame) : (its.map Item.entry).map itemFrame = its := by
  induction its with
  | nil => rfl
  | cons f l ih => simp only [List.map_cons, itemFrame, ih]

/-- a run of item frames is delivered as it is -/
theorem deliverable_items (its : List Frame) (h : ∀ f ∈ its, isItemOp f.op = true) : deliverable its = its := by
  have := deliverItems_items_append its [] h
  rw [List.append_nil] at this
  simp only [deliverable, this, deliverItems, List.append_nil, map_entry_frame]

/-- item frames, then a well-formed Done: delivered up to and including the Done -/
theorem deliverable_items_done (its : List Frame) (fd : Frame) (rest : List Frame)
    (h : ∀ f ∈ its, isItemOp f.op = true) (h5 : fd.op = 5) (hg : fd.good = true) :
    deliverable (its ++ fd :: rest) = its ++ [fd] := by
  simp only [deliverable, deliverItems_shape its fd rest h h5 hg, List.map_append, map_entry_frame, List.map_cons,
    List.map_nil, itemFrame]

/-- a frame that `routeSearch` does not hand on, at the end: nothing changes -/
theorem deliverItems_snoc_bad (f : Frame) (hf : Conn.deliverable f = false) : ∀ (l : List Frame),
    deliverItems (l ++ [f]) = deliverItems l
  | [] => by
    obtain ⟨h1, h2⟩ := bad_frame hf
    simp [deliverItems, h1, h2]
  | g :: l => by
    simp only [List.cons_append, deliverItems, deliverItems_snoc_bad f hf l]

theorem deliverable_snoc_bad (f : Frame) (hf : Conn.deliverable f = false) (l : List Frame) :
    deliverable (l ++ [f]) = deliverable l := by
  simp only [deliverable, deliverItems_snoc_bad f hf l]

/-! ### `sentFrom` and `consumed` -/

theorem sentFrom_consumed (s : St) (p0 k : Nat) :
    sentFrom s p0 k = ((consumed s).drop p0).filter fun f => f.id == (k : Int) := rfl

theorem sentFrom_same {s s' : St} (h : consumed s' = consumed s) (p0 k : Nat) : sentFrom s' p0 k = sentFrom s p0 k := by
  rw [sentFrom_consumed, sentFrom_consumed, h]

theorem sentFrom_snoc {s s' : St} {f : Frame} (h : consumed s' = consumed s ++ [f]) {p0 : Nat}
    (hp : p0 ≤ (consumed s).length) (k : Nat) :
    sentFrom s' p0 k = sentFrom s p0 k ++ (if f.id == (k : Int) then [f] else []) := by
  rw [sentFrom_consumed, sentFrom_consumed, h, List.drop_append_of_le_length hp, List.filter_append]
  congr 1
  simp only [List.filter_cons, List.filter_nil]

/-- one more frame read, and it is one `routeSearch` does not hand on: `deliverable ∘ sentFrom` is unchanged -/
theorem deliverable_sentFrom_bad {s s' : St} {f : Frame} (h : consumed s' = consumed s ++ [f]) {p0 : Nat}
    (hp : p0 ≤ (consumed s).length) (hf : Conn.deliverable f = false) (k : Nat) :
    deliverable (sentFrom s' p0 k) = deliverable (sentFrom s p0 k) := by
  rw [sentFrom_snoc h hp k]
  split
  · exact deliverable_snoc_bad f hf _
  · rw [List.append_nil]

/-! ### the two sources of completeness -/

/-- the channel of the search with ID `k` registered at read position `p0` is complete in state `s` -/
def Compl (s : St) (c p0 k : Nat) : Prop :=
  ∀ ch, s.chans[c]? = some ch → ch.items.map itemFrame = deliverable (sentFrom s p0 k)

/-- while the search is registered and its receiver alive -/
theorem compl_of_open {c p0 : Nat} {s : St} (h : CAt c p0 s) {ch : Chan} {k : Nat} (hc : s.chans[c]? = some ch)
    (hreg : (k, c) ∈ s.searchmap) (hal : ch.rxAlive = true) :
    ch.items.map itemFrame = deliverable (sentFrom s p0 k) := by
  obtain ⟨hent, heq⟩ := h.explicit_open hc hreg
  have heq : ch.items.map itemFrame = sentFrom s p0 k := heq hal
  rw [← heq, deliverable_items]
  intro f hf
  obtain ⟨it, hit, rfl⟩ := List.mem_map.mp hf
  obtain ⟨g, rfl, hg⟩ := hent it hit
  exact isItemOp_of_ops hg

/-- once the SearchResultDone is in the channel — whatever has been read since -/
theorem compl_of_done {c p0 : Nat} {s : St} (h : CAt c p0 s) (hr : RouteInv s) {ch : Chan} {o : Op} {f : Frame}
    (hc : s.chans[c]? = some ch) (ho : s.ops[ch.opIdx]? = some o) (hf : Item.done f ∈ ch.items) :
    ch.items.map itemFrame = deliverable (sentFrom s p0 o.id) := by
  obtain ⟨p1, es, hp0, hp1, _, h5, hg, hes, hent, hseg⟩ := h.explicit_closed hr hc ho hf
  have hpl := hr.posLe
  have hsplit : s.srvLog.take s.pos = s.srvLog.take p1 ++ (s.srvLog.take s.pos).drop p1 := by
    conv => lhs; rw [← List.take_append_drop p1 (s.srvLog.take s.pos), List.take_take, Nat.min_eq_left hp1]
  have hlen : (s.srvLog.take p1).length = p1 := by rw [List.length_take]; omega
  have hsent : sentFrom s p0 o.id = ch.items.map itemFrame ++
      ((s.srvLog.take s.pos).drop p1).filter (fun g => g.id == (o.id : Int)) := by
    rw [hseg]
    show ((s.srvLog.take s.pos).drop p0).filter _ = _
    rw [hsplit, List.drop_append_of_le_length (by rw [hlen]; omega), List.filter_append]
    congr 2
    rw [← hsplit]
  have hitems : ch.items.map itemFrame = es.map itemFrame ++ [f] := by
    rw [hes, List.map_append]; rfl
  rw [hsent, hitems, List.append_assoc, List.singleton_append, deliverable_items_done _ _ _ ?_ h5 hg]
  intro g hgm
  obtain ⟨it, hit, rfl⟩ := List.mem_map.mp hgm
  obtain ⟨g', rfl, hg'⟩ := hent it hit
  exact isItemOp_of_ops hg'

/-! ### `Served`: the search has not lost its registration while the driver was running -/

/-- the channel holds a SearchResultDone -/
def hasDone (ch : Chan) : Bool := ch.items.any fun it => !isEntry it

theorem hasDone_iff {ch : Chan} : hasDone ch = true ↔ ∃ f, Item.done f ∈ ch.items := by
  simp only [hasDone, List.any_eq_true, Bool.not_eq_true']
  constructor
  · rintro ⟨it, hit, hne⟩
    cases it with
    | entry f => cases hne
    | done f => exact ⟨f, hit⟩
  · rintro ⟨f, hf⟩
    exact ⟨_, hf, rfl⟩

/-- In state `s` the search with ID `k` and channel `c` is not "lost": the driver has ended, or the
SearchResultDone is in the channel, or the search is still registered and its receiver alive.
(What it excludes: a running driver that no longer knows the search although its result has not
come — after a scrub, an Abandon, a dropped receiver followed by a frame, a later search that took
over the ID.) -/
def Served (s : St) (c k : Nat) : Prop :=
  ∀ ch, s.chans[c]? = some ch → s.drv ≠ .running ∨ hasDone ch = true ∨ ((k, c) ∈ s.searchmap ∧ ch.rxAlive = true)

instance (s : St) (c k : Nat) : Decidable (Served s c k) :=
  match h : s.chans[c]? with
  | none => isTrue (fun ch hc => by rw [h] at hc; cases hc)
  | some ch0 =>
    decidable_of_iff (s.drv ≠ .running ∨ hasDone ch0 = true ∨ ((k, c) ∈ s.searchmap ∧ ch0.rxAlive = true))
      ⟨fun hh ch hc => by rw [h] at hc; cases hc; exact hh, fun hh => hh ch0 h⟩

/-- what is carried along a run from the moment the driver has taken the search off the queue -/
structure J (c p0 i k : Nat) (s : St) : Prop where
  cat : CAt c p0 s
  taken : TakenC c i k s
  good : Good s
  wf : ChanWF s
  dead : s.drv ≠ .running → Compl s c p0 k

/-- in a served state the channel is complete -/
theorem J.compl {c p0 i k : Nat} {s : St} (hJ : J c p0 i k s) (hs : Served s c k) : Compl s c p0 k := by
  intro ch hc
  rcases hs ch hc with hd | hdone | ⟨hreg, hal⟩
  · exact hJ.dead hd ch hc
  · obtain ⟨f, hf⟩ := hasDone_iff.mp hdone
    obtain ⟨ch2, o, hc2, hx, ho, hk, _⟩ := hJ.taken
    rw [hc] at hc2; cases hc2
    have := compl_of_done hJ.cat hJ.good.route hc (by rw [hx]; exact ho) hf
    rw [hk] at this
    exact this
  · exact compl_of_open hJ.cat hc hreg hal

theorem J.step {c p0 i k : Nat} {s s' : St} {ob : Obs} (hJ : J c p0 i k s) (hserved : Served s c k) (e : Ev)
    (hstep : Conn.step s e = some (s', ob)) : J c p0 i k s' := by
  have sum := StepSum.step hJ.good.route hJ.good.keyU hJ.good.qInv e hstep
  obtain ⟨hcat', ht'⟩ := hJ.cat.step hJ.taken hJ.good.route (sum.cls c)
  have hg' := hJ.good.step e hstep
  refine ⟨hcat', ht', hg', hJ.wf.step e hstep, fun hd' => ?_⟩
  rcases step_ends e hstep with ⟨hdrv, hpos⟩ | ⟨_, _, hch, hlog, _, hp⟩
  · -- the driver had ended before: nothing is read, nothing is delivered
    have hd : s.drv ≠ .running := by rw [← hdrv]; exact hd'
    have hcons : consumed s' = consumed s := by
      obtain ⟨ex, hex⟩ := sum.consumed_mono
      have l1 := consumed_length hJ.good.route.posLe
      have l2 := consumed_length hg'.route.posLe
      have hl := congrArg List.length hex
      rw [List.length_append, l1, l2, hpos hd] at hl
      have : ex = [] := List.eq_nil_of_length_eq_zero (by omega)
      rw [hex, this, List.append_nil]
    intro ch' hc'
    obtain ⟨ch0, o0, hc0, hx0, ho0, _, hph0⟩ := hJ.taken
    have hitems : ∃ ch, s.chans[c]? = some ch ∧ ch'.items = ch.items := by
      rcases sum.cls c with q | r | a
      · rcases q.chans ch' hc' with ⟨ch, hc, hi, _⟩ | ⟨hnone, _⟩
        · exact ⟨ch, hc, hi⟩
        · rw [hc0] at hnone; cases hnone
      · obtain ⟨ch2, o2, hc2, ho2, hq2⟩ := r.was
        rw [hc0] at hc2; cases hc2
        rw [hx0, ho0] at ho2; cases ho2
        rw [hph0] at hq2; cases hq2
      · obtain ⟨_, k', _, _, _, _, hreg, _⟩ := a
        rw [(hJ.wf.dead hd).1] at hreg; cases hreg
    obtain ⟨ch, hc, hi⟩ := hitems
    rw [hi, sentFrom_same hcons]
    exact hJ.dead hd ch hc
  · -- the step that ends the driver
    have hC := hJ.compl hserved
    intro ch' hc'
    rw [hch] at hc'
    rw [hC ch' hc']
    rcases hp with hp | ⟨f, hf, hp, hbad⟩
    · have hcons : consumed s' = consumed s := by simp only [consumed, hlog, hp]
      rw [sentFrom_same hcons]
    · have hcons : consumed s' = consumed s ++ [f] := by
        simp only [consumed, hlog, hp]
        exact take_succ_of_get hf
      rw [deliverable_sentFrom_bad hcons hJ.cat.le hbad]

theorem run_cons_some {s s' : St} {ob : Obs} {e : Ev} (h : Conn.step s e = some (s', ob)) (es : List Ev) :
    Conn.run s (e :: es) = Conn.run s' es := by
  simp only [Conn.run, List.foldl_cons, h]

theorem run_cons_none {s : St} {e : Ev} (h : Conn.step s e = none) (es : List Ev) :
    Conn.run s (e :: es) = Conn.run s es := by
  simp only [Conn.run, List.foldl_cons, h]

theorem J.run {c p0 i k : Nat} (evs : List Ev) : ∀ s, J c p0 i k s →
    (∀ n, n ≤ evs.length → Served (Conn.run s (evs.take n)) c k) → J c p0 i k (Conn.run s evs) := by
  induction evs with
  | nil => intro s hJ _; exact hJ
  | cons e es ih =>
    intro s hJ hS
    have h0 : Served s c k := hS 0 (Nat.zero_le _)
    cases hstep : Conn.step s e with
    | none =>
      rw [run_cons_none hstep]
      refine ih s hJ (fun n hn => ?_)
      have := hS (n + 1) (by simp only [List.length_cons]; omega)
      rwa [List.take_succ_cons, run_cons_none hstep] at this
    | some r =>
      obtain ⟨s', ob⟩ := r
      rw [run_cons_some hstep]
      refine ih s' (hJ.step h0 e hstep) (fun n hn => ?_)
      have := hS (n + 1) (by simp only [List.length_cons]; omega)
      rwa [List.take_succ_cons, run_cons_some hstep] at this

/-! ### over whole histories, start position pinned (the situation of `C01_complete`) -/

/-- `Served` at every moment of the history after the driver took the request: the search was not
scrubbed, abandoned, displaced or dropped while the driver was running and its result outstanding -/
def ServedAll (N : Nat) (pre : List Ev) (b : Bool) (post : List Ev) (c k : Nat) : Prop :=
  ∀ n, n ≤ post.length → Served (Conn.run (Conn.init N) (pre ++ Ev.drvOp b :: post.take n)) c k

instance (N : Nat) (pre : List Ev) (b : Bool) (post : List Ev) (c k : Nat) : Decidable (ServedAll N pre b post c k) := by
  unfold ServedAll; exact inferInstance

/-- the driver takes the request of search `o` off the queue at read position `p0`: `J` holds right after that step -/
theorem J.start (N : Nat) (pre : List Ev) (b : Bool) {i c : Nat} {o : Op}
    (hd : (Conn.run (Conn.init N) pre).drv = .running) (hq : (Conn.run (Conn.init N) pre).opQ.head? = some i)
    (ho : (Conn.run (Conn.init N) pre).ops[i]? = some o) (hc : o.chan = some c)
    (hsk : b = true → (Conn.run (Conn.init N) pre).sinkClosed = false) :
    J c (Conn.run (Conn.init N) pre).pos i o.id (Conn.run (Conn.init N) (pre ++ [Ev.drvOp b])) := by
  obtain ⟨hcat, ht⟩ := complete_from N pre [] b hd hq ho hc hsk
  refine ⟨hcat, ht, Good.run N _, ChanWF.run N _, fun _ ch hch => ?_⟩
  -- the channel is still empty and nothing has been read since `p0`
  have hg0 := Good.run N pre
  rw [run_app] at hch ⊢
  generalize Conn.run (Conn.init N) pre = s0 at hd hq ho hg0 hsk hch ⊢
  obtain ⟨rest, hqe⟩ : ∃ rest, s0.opQ = i :: rest := by
    cases hl : s0.opQ with
    | nil => rw [hl] at hq; cases hq
    | cons a rest => rw [hl] at hq; simp only [List.head?_cons, Option.some.injEq] at hq; exact ⟨rest, by rw [hq]⟩
  obtain ⟨s1, ob, hs1⟩ := drvOp_enabled b hd hqe ho hsk
  obtain ⟨hchs, hlog, hpos, _⟩ := drvOp_taken hs1 hqe ho
  rw [run_cons_some hs1] at hch ⊢
  simp only [Conn.run, List.foldl_nil] at hch ⊢
  obtain ⟨ch0, hchan, hidx⟩ := hg0.route.chanOf i o c ho hc
  have hiq : o.phase = .queued := by
    obtain ⟨o2, h1, h2⟩ := hg0.qInv.qPhase i (by rw [hqe]; simp)
    rw [ho] at h1; cases h1; exact h2
  have hemp : ch.items = [] := by
    have e0 : ch0 = ch := by rw [hchs, hchan] at hch; exact Option.some.inj hch
    subst e0
    obtain ⟨o3, ho3, hcase⟩ := hg0.p c ch0 hchan
    rw [hidx, ho] at ho3; cases ho3
    rcases hcase with ⟨ht, _⟩ | ⟨_, he, _⟩
    · rw [hiq] at ht; cases ht
    · exact he
  have hsent : sentFrom s1 s0.pos o.id = [] := by
    have hl : (s1.srvLog.take s1.pos).length = s0.pos := by
      have := hg0.route.posLe
      rw [hlog, hpos, List.length_take]; omega
    show ((s1.srvLog.take s1.pos).drop s0.pos).filter _ = []
    rw [List.drop_eq_nil_of_le (by omega)]
    rfl
  rw [hemp, hsent]
  rfl

/-- after an Unbind (closed sink) a queued search is not served: `drvOp true` is not enabled or skips the request -/
theorem not_served_closed (N : Nat) (pre : List Ev) {i c : Nat} {o : Op}
    (hd : (Conn.run (Conn.init N) pre).drv = .running) (hq : (Conn.run (Conn.init N) pre).opQ.head? = some i)
    (ho : (Conn.run (Conn.init N) pre).ops[i]? = some o) (hc : o.chan = some c)
    (hsk : (Conn.run (Conn.init N) pre).sinkClosed = true) (k : Nat) :
    ¬ Served (Conn.run (Conn.init N) (pre ++ [Ev.drvOp true])) c k := by
  intro hS
  have hshut := shut_from N pre [Ev.drvOp true] hq ho hc hsk
  obtain ⟨ch0, hchan, _⟩ := (Good.run N pre).route.chanOf i o c ho hc
  rw [run_app] at hS hshut
  generalize Conn.run (Conn.init N) pre = s0 at hd hq ho hsk hS hshut hchan
  obtain ⟨rest, hqe⟩ : ∃ rest, s0.opQ = i :: rest := by
    cases hl : s0.opQ with
    | nil => rw [hl] at hq; cases hq
    | cons a rest => rw [hl] at hq; simp only [List.head?_cons, Option.some.injEq] at hq; exact ⟨rest, by rw [hq]⟩
  have key : ∃ ch, (Conn.run s0 [Ev.drvOp true]).chans[c]? = some ch ∧ (Conn.run s0 [Ev.drvOp true]).drv = .running := by
    cases hstep : Conn.step s0 (.drvOp true) with
    | none => rw [run_cons_none hstep]; exact ⟨ch0, hchan, hd⟩
    | some r =>
      obtain ⟨s1, ob⟩ := r
      rw [run_cons_some hstep]
      obtain ⟨hchs, _⟩ := drvOp_taken hstep hqe ho
      refine ⟨ch0, by simp only [Conn.run, List.foldl_nil, hchs]; exact hchan, ?_⟩
      simp only [Conn.run, List.foldl_nil]
      rcases step_ends _ hstep with ⟨h1, _⟩ | ⟨_, _, _, _, hb, _⟩
      · rw [h1]; exact hd
      · cases hb true rfl
  obtain ⟨ch, hch, hrun⟩ := key
  rcases hS ch hch with h | h | ⟨h, _⟩
  · exact h hrun
  · obtain ⟨f, hf⟩ := hasDone_iff.mp h
    rw [hshut.empty ch hch] at hf; cases hf
  · exact hshut.unreg _ h

/-- Completeness from `Served`.  ANY history `pre`, after which the driver is running and the request
at the head of its queue is search `o` (operation `i`, channel `c`); the driver handles it
(`drvOp b`) at read position `p0`; then ANYTHING happens (`post`), as long as the search is `Served`
throughout.  Then the channel holds exactly `deliverable` of the frames under `o`'s ID read from `p0` on. -/
theorem compl_of_served (N : Nat) (pre post : List Ev) (b : Bool) {i c : Nat} {o : Op}
    (hd : (Conn.run (Conn.init N) pre).drv = .running) (hq : (Conn.run (Conn.init N) pre).opQ.head? = some i)
    (ho : (Conn.run (Conn.init N) pre).ops[i]? = some o) (hc : o.chan = some c)
    (hS : ServedAll N pre b post c o.id) :
    Compl (Conn.run (Conn.init N) (pre ++ Ev.drvOp b :: post)) c (Conn.run (Conn.init N) pre).pos o.id := by
  have hS0 : Served (Conn.run (Conn.init N) (pre ++ [Ev.drvOp b])) c o.id := by
    have := hS 0 (Nat.zero_le _)
    rwa [List.take_zero] at this
  have hsk : b = true → (Conn.run (Conn.init N) pre).sinkClosed = false := by
    intro hb
    subst hb
    cases hcl : (Conn.run (Conn.init N) pre).sinkClosed with
    | false => rfl
    | true => exact absurd hS0 (not_served_closed N pre hd hq ho hc hcl _)
  have hJ0 := J.start N pre b hd hq ho hc hsk
  have e : pre ++ Ev.drvOp b :: post = (pre ++ [Ev.drvOp b]) ++ post := by simp
  have hrun : ∀ l, Conn.run (Conn.init N) (pre ++ Ev.drvOp b :: l) = Conn.run (Conn.run (Conn.init N) (pre ++ [Ev.drvOp b])) l := by
    intro l
    rw [← run_app]; simp
  have hJ := J.run post _ hJ0 (fun n hn => by rw [← hrun]; exact hS n hn)
  rw [hrun]
  refine hJ.compl ?_
  have := hS post.length (Nat.le_refl _)
  rwa [List.take_length, hrun] at this

/-- Completeness from the Done: the same history, no hypothesis on what happened to the search —
if its SearchResultDone is in the channel, the channel is complete. -/
theorem compl_of_done_run (N : Nat) (pre post : List Ev) (b : Bool) {i c : Nat} {o : Op}
    (hd : (Conn.run (Conn.init N) pre).drv = .running) (hq : (Conn.run (Conn.init N) pre).opQ.head? = some i)
    (ho : (Conn.run (Conn.init N) pre).ops[i]? = some o) (hc : o.chan = some c)
    {ch : Chan} (hch : (Conn.run (Conn.init N) (pre ++ Ev.drvOp b :: post)).chans[c]? = some ch)
    (hdone : ∃ f, Item.done f ∈ ch.items) :
    ch.items.map itemFrame =
      deliverable (sentFrom (Conn.run (Conn.init N) (pre ++ Ev.drvOp b :: post)) (Conn.run (Conn.init N) pre).pos o.id) := by
  obtain ⟨f, hf⟩ := hdone
  by_cases hsk : b = true → (Conn.run (Conn.init N) pre).sinkClosed = false
  · obtain ⟨hcat, ch2, o2, hc2, hx, ho2, hid, _⟩ := complete_from N pre post b hd hq ho hc hsk
    rw [hch] at hc2; cases hc2
    have := compl_of_done hcat (RouteInv.run N _) hch (by rw [hx]; exact ho2) hf
    rwa [hid] at this
  · have hcl : (Conn.run (Conn.init N) pre).sinkClosed = true := by
      cases hb : (Conn.run (Conn.init N) pre).sinkClosed with
      | true => rfl
      | false => exact absurd (fun _ => hb) hsk
    have hshut := shut_from N pre (Ev.drvOp b :: post) hq ho hc hcl
    rw [hshut.empty ch hch] at hf; cases hf

/-- Both, as the hypothesis `ChanComplete` of the bridge: for the channel `ch` and ANY operation record
`o'` with the search's ID (in particular the one `ch.opIdx` points to in the final state). -/
theorem chanComplete_of (N : Nat) (pre post : List Ev) (b : Bool) {i c : Nat} {o : Op}
    (hd : (Conn.run (Conn.init N) pre).drv = .running) (hq : (Conn.run (Conn.init N) pre).opQ.head? = some i)
    (ho : (Conn.run (Conn.init N) pre).ops[i]? = some o) (hc : o.chan = some c)
    {ch : Chan} (hch : (Conn.run (Conn.init N) (pre ++ Ev.drvOp b :: post)).chans[c]? = some ch)
    (h : (∃ f, Item.done f ∈ ch.items) ∨ ServedAll N pre b post c o.id)
    (o' : Op) (hid : o'.id = o.id) :
    ChanComplete (Conn.run (Conn.init N) (pre ++ Ev.drvOp b :: post)) ch o' (Conn.run (Conn.init N) pre).pos := by
  unfold ChanComplete
  rw [hid]
  rcases h with h | h
  · exact compl_of_done_run N pre post b hd hq ho hc hch h
  · exact compl_of_served N pre post b hd hq ho hc h ch hch

/-! ### as an invariant of every reachable state (start position existentially quantified) -/

/-- `Served`, for whichever search owns channel `c`, once the driver has taken its request -/
def ServedT (s : St) (c : Nat) : Prop :=
  ∀ ch o, s.chans[c]? = some ch → s.ops[ch.opIdx]? = some o → o.phase = .taken → Served s c o.id

instance (s : St) (c : Nat) : Decidable (ServedT s c) :=
  match h : s.chans[c]? with
  | none => isTrue (fun ch o hc => by rw [h] at hc; cases hc)
  | some ch0 =>
    match h2 : s.ops[ch0.opIdx]? with
    | none => isTrue (fun ch o hc ho => by rw [h] at hc; cases hc; rw [h2] at ho; cases ho)
    | some o0 =>
      decidable_of_iff (o0.phase = .taken → Served s c o0.id)
        ⟨fun hh ch o hc ho => by rw [h] at hc; cases hc; rw [h2] at ho; cases ho; exact hh, fun hh => hh ch0 o0 h h2⟩

/-- at every moment of the history -/
def ServedHist (N : Nat) (evs : List Ev) (c : Nat) : Prop :=
  ∀ n, n ≤ evs.length → ServedT (Conn.run (Conn.init N) (evs.take n)) c

instance (N : Nat) (evs : List Ev) (c : Nat) : Decidable (ServedHist N evs c) := by
  unfold ServedHist; exact inferInstance

/-- a channel that has been given nothing, whose request has just been taken: `J` from the current read position -/
theorem J.fresh {c : Nat} {s : St} {ch : Chan} {o : Op} (hg : Good s) (hwf : ChanWF s) (hc : s.chans[c]? = some ch)
    (hemp : ch.items = []) (ho : s.ops[ch.opIdx]? = some o) (hph : o.phase = .taken) :
    J c (consumed s).length ch.opIdx o.id s := by
  refine ⟨CAt.fresh (fun ch2 h2 => by rw [hc] at h2; cases h2; exact hemp), ⟨ch, o, hc, rfl, ho, rfl, hph⟩, hg, hwf, ?_⟩
  intro _ ch2 h2
  rw [hc] at h2; cases h2
  rw [hemp, sentFrom_consumed, List.drop_eq_nil_of_le (Nat.le_refl _)]
  rfl

/-- the invariant: once the request has been taken there is a start position from which `J` holds -/
def K (c : Nat) (s : St) : Prop :=
  ∀ ch o, s.chans[c]? = some ch → s.ops[ch.opIdx]? = some o → o.phase = .taken → ∃ p0, J c p0 ch.opIdx o.id s

theorem K.step {c : Nat} {s s' : St} {ob : Obs} (hK : K c s) (hg : Good s) (hwf : ChanWF s) (hS : ServedT s c) (e : Ev)
    (hstep : Conn.step s e = some (s', ob)) : K c s' := by
  intro ch' o' hc' ho' hph'
  have sum := StepSum.step hg.route hg.keyU hg.qInv e hstep
  have hg' := hg.step e hstep
  have hwf' := hwf.step e hstep
  cases hcs : s.chans[c]? with
  | none =>
    -- the channel is new: its request cannot have been taken yet
    rcases sum.cls c with q | r | a
    · rcases q.chans ch' hc' with ⟨ch, hc, _⟩ | ⟨_, _, _, o2, ho2, hal⟩
      · rw [hcs] at hc; cases hc
      · rw [ho'] at ho2; cases ho2
        rw [hph'] at hal; cases hal
    · obtain ⟨ch, _, hc, _⟩ := r.was
      rw [hcs] at hc; cases hc
    · obtain ⟨ch, _, _, _, hc, _⟩ := a
      rw [hcs] at hc; cases hc
  | some ch =>
    obtain ⟨o, ho, hcase⟩ := hg.p c ch hcs
    rcases hcase with ⟨hph, _⟩ | ⟨hnt, hemp, hno⟩
    · -- taken before: carry `J` over the step
      obtain ⟨p0, hJ⟩ := hK ch o hcs ho hph
      have hJ' := hJ.step (hS ch o hcs ho hph) e hstep
      obtain ⟨ch2, o2, hc2, hx2, ho2, hk2, _⟩ := hJ'.taken
      rw [hc'] at hc2; cases hc2
      rw [← hx2] at ho2
      rw [ho'] at ho2; cases ho2
      rw [hx2, hk2]
      exact ⟨p0, hJ'⟩
    · -- taken by this step: the channel is still empty
      have hemp' : ch'.items = [] := by
        rcases sum.cls c with q | r | a
        · rcases q.chans ch' hc' with ⟨ch2, hc2, hi, _⟩ | ⟨hnone, _⟩
          · rw [hcs] at hc2; cases hc2
            rw [hi]; exact hemp
          · rw [hcs] at hnone; cases hnone
        · rw [r.chans, hcs] at hc'; cases hc'
          exact hemp
        · obtain ⟨_, k, _, _, _, _, hreg, _⟩ := a
          exact absurd hreg (hno k)
      exact ⟨_, J.fresh hg' hwf' hc' hemp' ho' hph'⟩

theorem K.run {c : Nat} (evs : List Ev) : ∀ s, K c s → Good s → ChanWF s →
    (∀ n, n ≤ evs.length → ServedT (Conn.run s (evs.take n)) c) → K c (Conn.run s evs) := by
  induction evs with
  | nil => intro s hK _ _ _; exact hK
  | cons e es ih =>
    intro s hK hg hwf hS
    have h0 : ServedT s c := hS 0 (Nat.zero_le _)
    cases hstep : Conn.step s e with
    | none =>
      rw [run_cons_none hstep]
      refine ih s hK hg hwf (fun n hn => ?_)
      have := hS (n + 1) (by simp only [List.length_cons]; omega)
      rwa [List.take_succ_cons, run_cons_none hstep] at this
    | some r =>
      obtain ⟨s', ob⟩ := r
      rw [run_cons_some hstep]
      refine ih s' (hK.step hg hwf h0 e hstep) (hg.step e hstep) (hwf.step e hstep) (fun n hn => ?_)
      have := hS (n + 1) (by simp only [List.length_cons]; omega)
      rwa [List.take_succ_cons, run_cons_some hstep] at this

/-- Every history, every search channel `c` with its operation record `o`: if the SearchResultDone is in the
channel, or the search has been served throughout the history, then there is a read position `p0` from
which the channel is complete.  (A search whose request the driver has not taken has an empty channel
and is complete from the current read position: nothing has been read for it.) -/
theorem chanComplete_inv (N : Nat) (evs : List Ev) (c : Nat) (ch : Chan) (o : Op)
    (hc : (Conn.run (Conn.init N) evs).chans[c]? = some ch) (ho : (Conn.run (Conn.init N) evs).ops[ch.opIdx]? = some o)
    (h : (∃ f, Item.done f ∈ ch.items) ∨ ServedHist N evs c) :
    ∃ p0, p0 ≤ (Conn.run (Conn.init N) evs).pos ∧ ChanComplete (Conn.run (Conn.init N) evs) ch o p0 := by
  have hg := Good.run N evs
  have hpos := consumed_length hg.route.posLe
  obtain ⟨o2, ho2, hcase⟩ := hg.p c ch hc
  rw [ho] at ho2; cases ho2
  rcases hcase with ⟨hph, p0, hcat⟩ | ⟨_, hemp, _⟩
  · rcases h with ⟨f, hf⟩ | hS
    · exact ⟨p0, by rw [← hpos]; exact hcat.le, compl_of_done hcat hg.route hc ho hf⟩
    · have hK0 : K c (Conn.init N) := by intro ch o hc; simp [Conn.init] at hc
      have hK := K.run evs _ hK0 (Good.init N) (ChanWF.init N) hS
      obtain ⟨p1, hJ⟩ := hK ch o hc ho hph
      have hSf : ServedT (Conn.run (Conn.init N) evs) c := by
        have := hS evs.length (Nat.le_refl _)
        rwa [List.take_length] at this
      exact ⟨p1, by rw [← hpos]; exact hJ.cat.le, hJ.compl (hSf ch o hc ho hph) ch hc⟩
  · refine ⟨(Conn.run (Conn.init N) evs).pos, Nat.le_refl _, ?_⟩
    unfold ChanComplete
    rw [hemp, sentFrom_consumed, List.drop_eq_nil_of_le (by rw [hpos]; exact Nat.le_refl _)]
    rfl

end Ldap3V.ConnStream

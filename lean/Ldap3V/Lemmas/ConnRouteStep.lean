import Ldap3V.Lemmas.ConnRoute
namespace Ldap3V.Conn

theorem RouteInv.endDriver {s : St} (h : RouteInv s) (how : Drv) : RouteInv (endDriver s how) := by
  apply h.of_tame
  · exact tame_endDriver _ _
  · rfl
  · intro p hp; simp [Conn.endDriver] at hp
  · intro p hp; simp [Conn.endDriver] at hp
  · rfl
  · rfl

/-- only `ops` changes, tamely; everything the invariant looks at is otherwise the same -/
theorem RouteInv.ops_only {s s' : St} (h : RouteInv s) (hops : Tame s.ops s'.ops) (hc : s'.chans = s.chans)
    (hr : s'.resultmap = s.resultmap) (hsm : s'.searchmap = s.searchmap)
    (hl : s'.srvLog = s.srvLog) (hp : s'.pos = s.pos) : RouteInv s' :=
  h.of_tame hops hc (by rw [hr]; exact fun _ hp => hp) (by rw [hsm]; exact fun _ hp => hp) hl hp

theorem RouteInv.alloc {s s' : St} {ob : Obs} (h : RouteInv s) (kind : Kind)
    (hs : step s (.alloc kind) = some (s', ob)) : RouteInv s' := by
  simp only [step] at hs
  cases hn : nextId s.N s.last s.inUse with
  | diverge => rw [hn] at hs; cases hs
  | panic => rw [hn] at hs; simp only [Option.some.injEq, Prod.mk.injEq] at hs; rw [← hs.1]; exact h
  | ok id =>
    rw [hn] at hs
    simp only [Option.some.injEq, Prod.mk.injEq] at hs
    obtain ⟨hs, _⟩ := hs
    subst hs
    have hlenlt : ∀ (j : Nat) (o : Op), s.ops[j]? = some o → j < s.ops.length :=
      fun j o ho => (List.getElem?_eq_some_iff.mp ho).1
    have hclt : ∀ (c : Nat) (ch : Chan), s.chans[c]? = some ch → c < s.chans.length :=
      fun c ch hc => (List.getElem?_eq_some_iff.mp hc).1
    apply h.transfer
    · intro j o ho
      exact ⟨o, by simp [List.getElem?_append_left (hlenlt j o ho), ho], rfl⟩
    · intro j o' ho'
      simp only at ho'
      by_cases hj : j < s.ops.length
      · rw [List.getElem?_append_left hj] at ho'
        exact Or.inl ⟨o', ho', rfl⟩
      · right
        have hnone : s.ops[j]? = none := List.getElem?_eq_none (by omega)
        rw [List.getElem?_append_right (by omega)] at ho'
        have hj0 : j - s.ops.length = 0 := by
          cases hjj : j - s.ops.length with
          | zero => rfl
          | succ n => rw [hjj] at ho'; simp at ho'
        rw [hj0] at ho'
        simp only [List.getElem?_cons_zero, Option.some.injEq] at ho'
        subst ho'
        refine ⟨hnone, by simp, ?_⟩
        intro c hc
        cases kind <;> simp only [Option.some.injEq, reduceCtorEq] at hc
        subst hc
        refine ⟨{ opIdx := s.ops.length }, by simp, ?_⟩
        simp only; omega
    · intro j o' f ho' hm
      simp only at ho'
      by_cases hj : j < s.ops.length
      · rw [List.getElem?_append_left hj] at ho'
        exact Or.inl ⟨o', ho', hm⟩
      · rw [List.getElem?_append_right (by omega)] at ho'
        cases hjj : j - s.ops.length with
        | zero => rw [hjj] at ho'; simp at ho'; subst ho'; simp at hm
        | succ n => rw [hjj] at ho'; simp at ho'
    · intro c ch hc
      refine ⟨ch, ?_, rfl⟩
      cases kind <;> simp only [hc]
      simp [List.getElem?_append_left (hclt c ch hc), hc]
    · intro c ch' hc'
      have hcase : (s.chans[c]? = some ch') ∨ (s.chans[c]? = none ∧ ch'.items = []) := by
        cases kind <;> simp only at hc' <;> try exact Or.inl hc'
        by_cases hcl : c < s.chans.length
        · rw [List.getElem?_append_left hcl] at hc'; exact Or.inl hc'
        · right
          rw [List.getElem?_append_right (by omega)] at hc'
          cases hcc : c - s.chans.length with
          | zero => rw [hcc] at hc'; simp at hc'; subst hc'; exact ⟨List.getElem?_eq_none (by omega), rfl⟩
          | succ n => rw [hcc] at hc'; simp at hc'
      rcases hcase with hc | hn
      · exact Or.inl ⟨ch', hc, rfl, Or.inl rfl⟩
      · exact Or.inr hn
    · intro p hp; exact Or.inl hp
    · intro p hp; exact Or.inl hp
    · exact List.prefix_refl _
    · exact h.posLe

theorem RouteInv.same {s s' : St} (h : RouteInv s) (ho : s'.ops = s.ops) (hc : s'.chans = s.chans)
    (hr : s'.resultmap = s.resultmap) (hsm : s'.searchmap = s.searchmap)
    (hl : s'.srvLog = s.srvLog) (hp : s'.pos = s.pos) : RouteInv s' := by
  apply h.ops_only _ hc hr hsm hl hp
  rw [ho]; exact Tame.refl _

theorem RouteInv.enqueue {s s' : St} {ob : Obs} (h : RouteInv s) (i : Nat) (tmo : Option Nat)
    (hs : step s (.enqueue i tmo) = some (s', ob)) : RouteInv s' := by
  simp only [step] at hs
  cases ho : s.ops[i]? with
  | none => rw [ho] at hs; cases hs
  | some o =>
    rw [ho] at hs
    simp only at hs
    split at hs
    · cases hs
    · split at hs
      · simp only [Option.some.injEq, Prod.mk.injEq] at hs
        rw [← hs.1]
        exact h.ops_only (tame_set s.ops i o _ ho rfl (by intro f hf; cases hf)) rfl rfl rfl rfl rfl
      · simp only [Option.some.injEq, Prod.mk.injEq] at hs
        rw [← hs.1]
        exact h.ops_only (tame_set s.ops i o _ ho rfl (fun f hf => hf)) rfl rfl rfl rfl rfl

/-- `ops` changes tamely and the receiver flag of at most one channel is cleared -/
theorem RouteInv.ops_dropRx {s s' : St} (h : RouteInv s) (hops : Tame s.ops s'.ops) (oc : Option Nat)
    (hc : s'.chans = dropRxOf s.chans oc)
    (hr : s'.resultmap = s.resultmap) (hsm : s'.searchmap = s.searchmap)
    (hl : s'.srvLog = s.srvLog) (hp : s'.pos = s.pos) : RouteInv s' := by
  have hget : ∀ (d : Nat), (∃ chd, s.chans[d]? = some chd) → ∃ chd chd', s.chans[d]? = some chd ∧ s'.chans[d]? = some chd' ∧
      chd'.opIdx = chd.opIdx ∧ chd'.items = chd.items := by
    intro d ⟨chd, hd⟩
    rw [hc]
    cases oc with
    | none => exact ⟨chd, chd, hd, hd, rfl, rfl⟩
    | some c =>
      simp only [dropRxOf, modifyChan_get]
      split
      · next hdc => subst hdc; rw [hd]; exact ⟨chd, _, rfl, rfl, rfl, rfl⟩
      · exact ⟨chd, chd, hd, hd, rfl, rfl⟩
  have hback : ∀ (d : Nat) (chd' : Chan), s'.chans[d]? = some chd' → ∃ chd, s.chans[d]? = some chd ∧
      chd'.opIdx = chd.opIdx ∧ chd'.items = chd.items := by
    intro d chd' hd'
    rw [hc] at hd'
    cases oc with
    | none => exact ⟨chd', hd', rfl, rfl⟩
    | some c =>
      simp only [dropRxOf, modifyChan_get] at hd'
      split at hd'
      · next hdc =>
        subst hdc
        cases hcd : s.chans[d]? with
        | none => rw [hcd] at hd'; cases hd'
        | some chd =>
          rw [hcd] at hd'
          simp only [Option.map_some, Option.some.injEq] at hd'
          subst hd'
          exact ⟨chd, rfl, rfl, rfl⟩
      · exact ⟨chd', hd', rfl, rfl⟩
  apply h.transfer hops.sameSig
  · intro j o' ho'
    obtain ⟨o, ho, hs, _⟩ := hops.2 j o' ho'
    exact Or.inl ⟨o, ho, hs⟩
  · intro j o' f ho' hm
    obtain ⟨o, ho, _, hmm⟩ := hops.2 j o' ho'
    exact Or.inl ⟨o, ho, hmm f hm⟩
  · intro d chd hd
    obtain ⟨chd0, chd', h0, h1, h2, _⟩ := hget d ⟨chd, hd⟩
    rw [hd] at h0; cases h0
    exact ⟨chd', h1, h2⟩
  · intro d chd' hd'
    obtain ⟨chd, h0, h1, h2⟩ := hback d chd' hd'
    exact Or.inl ⟨chd, h0, h1, Or.inl h2⟩
  · intro p hp'; rw [hr] at hp'; exact Or.inl hp'
  · intro p hp'; rw [hsm] at hp'; exact Or.inl hp'
  · rw [hl, hp]; exact List.prefix_refl _
  · rw [hl, hp]; exact h.posLe

theorem RouteInv.poll {s s' : St} {ob : Obs} (h : RouteInv s) (i : Nat)
    (hs : step s (.poll i) = some (s', ob)) : RouteInv s' := by
  simp only [step] at hs
  cases ho : s.ops[i]? with
  | none => rw [ho] at hs; cases hs
  | some o =>
    rw [ho] at hs
    simp only at hs
    split at hs
    · cases hs
    · have hset : ∀ r : Option Res, RouteInv { s with ops := s.ops.set i { o with res := r } } := fun r =>
        h.ops_only (tame_set s.ops i o _ ho rfl (fun f hf => hf)) rfl rfl rfl rfl rfl
      have hset2 : ∀ (r : Option Res) (q : List Nat),
          RouteInv { s with ops := s.ops.set i { o with res := r }, scrubQ := q, chans := dropRxOf s.chans o.chan } := fun r q =>
        h.ops_dropRx (tame_set s.ops i o _ ho rfl (fun f hf => hf)) o.chan rfl rfl rfl rfl rfl
      have hset3 : ∀ (r : Option Res),
          RouteInv { s with ops := s.ops.set i { o with res := r }, chans := dropRxOf s.chans o.chan } := fun r =>
        h.ops_dropRx (tame_set s.ops i o _ ho rfl (fun f hf => hf)) o.chan rfl rfl rfl rfl rfl
      split at hs
      all_goals (try (simp only [Option.some.injEq, Prod.mk.injEq] at hs; rw [← hs.1]; first | exact hset _ | exact hset3 _ | exact h))
      split at hs
      · split at hs
        · split at hs
          · simp only [Option.some.injEq, Prod.mk.injEq] at hs; rw [← hs.1]; exact hset2 _ _
          · simp only [Option.some.injEq, Prod.mk.injEq] at hs; rw [← hs.1]; exact hset3 _
        · simp only [Option.some.injEq, Prod.mk.injEq] at hs; rw [← hs.1]; exact h
      · simp only [Option.some.injEq, Prod.mk.injEq] at hs; rw [← hs.1]; exact h

/-- a channel's cursor / receiver flag changes, or an item valid for its operation is appended -/
theorem RouteInv.chan_update {s s' : St} (h : RouteInv s) (c : Nat) (ch ch' : Chan) (hc : s.chans[c]? = some ch)
    (hidx : ch'.opIdx = ch.opIdx)
    (hitems : ch'.items = ch.items ∨ ∃ it : Item, ch'.items = ch.items ++ [it] ∧
          (∃ o : Op, s.ops[ch.opIdx]? = some o ∧ (itemFrame it).id = (o.id : Int)) ∧
          s'.srvLog.take s'.pos = s.srvLog.take s.pos ++ [itemFrame it])
    (hops : Tame s.ops s'.ops) (hcs : s'.chans = s.chans.set c ch')
    (hrm : ∀ p ∈ s'.resultmap, p ∈ s.resultmap) (hsm : ∀ p ∈ s'.searchmap, p ∈ s.searchmap)
    (hlog : (s.srvLog.take s.pos) <+: (s'.srvLog.take s'.pos)) (hpos : s'.pos ≤ s'.srvLog.length) : RouteInv s' := by
  have hclt : c < s.chans.length := (List.getElem?_eq_some_iff.mp hc).1
  apply h.transfer hops.sameSig
  · intro j o' ho'
    obtain ⟨o, ho, hs, _⟩ := hops.2 j o' ho'
    exact Or.inl ⟨o, ho, hs⟩
  · intro j o' f ho' hm
    obtain ⟨o, ho, _, hmm⟩ := hops.2 j o' ho'
    exact Or.inl ⟨o, ho, hmm f hm⟩
  · intro d chd hd
    rw [hcs, List.getElem?_set]
    split
    · next hcd =>
      subst hcd
      rw [hc] at hd; cases hd
      simp [hidx]
    · exact ⟨chd, hd, rfl⟩
  · intro d chd' hd'
    rw [hcs, List.getElem?_set] at hd'
    split at hd'
    · next hcd =>
      subst hcd
      simp only [hclt, Option.some.injEq] at hd'
      subst hd'
      exact Or.inl ⟨ch, hc, hidx, hitems⟩
    · exact Or.inl ⟨chd', hd', rfl, Or.inl rfl⟩
  · intro p hp; exact Or.inl (hrm p hp)
  · intro p hp; exact Or.inl (hsm p hp)
  · exact hlog
  · exact hpos

theorem RouteInv.recv {s s' : St} {ob : Obs} (h : RouteInv s) (c : Nat) (dl : Option Nat)
    (hs : step s (.recv c dl) = some (s', ob)) : RouteInv s' := by
  simp only [step] at hs
  cases hc : s.chans[c]? with
  | none => rw [hc] at hs; cases hs
  | some ch =>
    rw [hc] at hs
    simp only at hs
    split at hs
    · cases hs
    · split at hs
      · cases hs
      · split at hs
        · simp only [Option.some.injEq, Prod.mk.injEq] at hs
          rw [← hs.1]
          exact h.chan_update c ch { ch with taken := ch.taken + 1 } hc rfl (Or.inl rfl) (Tame.refl _) rfl
            (fun _ hp => hp) (fun _ hp => hp) (List.prefix_refl _) h.posLe
        · split at hs
          · simp only [Option.some.injEq, Prod.mk.injEq] at hs; rw [← hs.1]; exact h
          · split at hs
            · split at hs
              · split at hs
                · split at hs
                  · simp only [Option.some.injEq, Prod.mk.injEq] at hs; rw [← hs.1]
                    exact h.chan_update c ch { ch with timedOut := true } hc rfl (Or.inl rfl) (Tame.refl _) rfl
                      (fun _ hp => hp) (fun _ hp => hp) (List.prefix_refl _) h.posLe
                  · simp only [Option.some.injEq, Prod.mk.injEq] at hs; rw [← hs.1]; exact h
                · cases hs
              · simp only [Option.some.injEq, Prod.mk.injEq] at hs; rw [← hs.1]; exact h
            · simp only [Option.some.injEq, Prod.mk.injEq] at hs; rw [← hs.1]; exact h

theorem RouteInv.finish {s s' : St} {ob : Obs} (h : RouteInv s) (c : Nat) (b : Bool)
    (hs : step s (.finish c b) = some (s', ob)) : RouteInv s' := by
  simp only [step] at hs
  cases hc : s.chans[c]? with
  | none => rw [hc] at hs; cases hs
  | some ch =>
    rw [hc] at hs
    simp only at hs
    split at hs
    · cases hs
    · split at hs
      · cases hs
      · split at hs
        · cases hs
        · simp only [Option.some.injEq, Prod.mk.injEq] at hs
          rw [← hs.1]
          exact h.chan_update c ch { ch with rxAlive := false, finScrub := b } hc rfl (Or.inl rfl) (Tame.refl _) rfl
            (fun _ hp => hp) (fun _ hp => hp) (List.prefix_refl _) h.posLe

theorem RouteInv.drvScrub {s s' : St} {ob : Obs} (h : RouteInv s)
    (hs : step s .drvScrub = some (s', ob)) : RouteInv s' := by
  simp only [step] at hs
  split at hs
  · cases hs
  · split at hs
    · cases hs
    · simp only [Option.some.injEq, Prod.mk.injEq] at hs
      rw [← hs.1]
      exact h.of_tame (tame_dropSenderOpt _ _) rfl (fun p hp => (mem_erase hp).1) (fun p hp => (mem_erase hp).1) rfl rfl

/-- tame change of `ops`, channels untouched, maps changed by erasing and by inserting valid entries -/
theorem RouteInv.of_tame' {s s' : St} (h : RouteInv s) (hops : Tame s.ops s'.ops) (hc : s'.chans = s.chans)
    (hrm : ∀ p ∈ s'.resultmap, p ∈ s.resultmap ∨ ∃ o : Op, s.ops[p.2]? = some o ∧ o.id = p.1)
    (hsm : ∀ p ∈ s'.searchmap, p ∈ s.searchmap ∨
      ∃ (ch : Chan) (o : Op), s.chans[p.2]? = some ch ∧ s.ops[ch.opIdx]? = some o ∧ o.id = p.1)
    (hl : s'.srvLog = s.srvLog) (hp : s'.pos = s.pos) : RouteInv s' := by
  apply h.transfer hops.sameSig
  · intro j o' ho'
    obtain ⟨o, ho, hs, _⟩ := hops.2 j o' ho'
    exact Or.inl ⟨o, ho, hs⟩
  · intro j o' f ho' hm
    obtain ⟨o, ho, _, hmm⟩ := hops.2 j o' ho'
    exact Or.inl ⟨o, ho, hmm f hm⟩
  · intro c ch hch; rw [hc]; exact ⟨ch, hch, rfl⟩
  · intro c ch' hch'
    rw [hc] at hch'
    exact Or.inl ⟨ch', hch', rfl, Or.inl rfl⟩
  · exact hrm
  · exact hsm
  · rw [hl, hp]; exact List.prefix_refl _
  · rw [hl, hp]; exact h.posLe

theorem RouteInv.drvOp {s s' : St} {ob : Obs} (h : RouteInv s) (sendOk : Bool)
    (hs : step s (.drvOp sendOk) = some (s', ob)) : RouteInv s' := by
  simp only [step] at hs
  split at hs
  · cases hs
  · split at hs
    · cases hs
    · next i rest hq =>
      cases ho : s.ops[i]? with
      | none => rw [ho] at hs; cases hs
      | some o =>
        rw [ho] at hs
        simp only at hs
        have t0 : ∀ o1 : Op, o1.sig = o.sig → (∀ f, o1.mail = Mail.frame f → o.mail = Mail.frame f) →
            Tame s.ops (s.ops.set i o1) := fun o1 h1 h2 => tame_set s.ops i o o1 ho h1 h2
        have tack : ∀ ops : List Op, Tame ops (modifyOp ops i fun o => { o with mail := .ack }) := fun ops =>
          tame_modify ops i _ (fun x => ⟨rfl, fun f hf => by cases hf⟩)
        -- validity of the entry a search registers
        have hsm1 : ∀ p ∈ (match o.kind, o.chan with
              | .search, some c => insert s.searchmap o.id c
              | _, _ => s.searchmap), p ∈ s.searchmap ∨
            ∃ (ch : Chan) (o2 : Op), s.chans[p.2]? = some ch ∧ s.ops[ch.opIdx]? = some o2 ∧ o2.id = p.1 := by
          intro p hp
          split at hp
          · next c hk hc =>
            rcases mem_insert hp with rfl | ⟨hin, _⟩
            · obtain ⟨ch, hch, hidx⟩ := h.chanOf i o c ho hc
              exact Or.inr ⟨ch, o, hch, by rw [hidx]; exact ho, rfl⟩
            · exact Or.inl hin
          · exact Or.inl hp
        split at hs
        · -- skipped
          simp only [Option.some.injEq, Prod.mk.injEq] at hs
          rw [← hs.1]
          refine h.of_tame (Tame.trans (t0 _ ?_ ?_) (tame_dropSender _ _)) rfl (fun _ hp => hp) (fun _ hp => hp) rfl rfl
          · rfl
          · exact fun f hf => hf
        · split at hs
          · -- write failed
            simp only [Option.some.injEq, Prod.mk.injEq] at hs
            rw [← hs.1]
            apply h.of_tame
            · refine Tame.trans (Tame.trans (t0 _ ?_ ?_) (tame_dropSender _ _)) (tame_endDriver _ _)
              · rfl
              · exact fun f hf => hf
            · rfl
            · intro p hp; simp [Conn.endDriver] at hp
            · intro p hp; simp [Conn.endDriver] at hp
            · rfl
            · rfl
          · split at hs
            · cases hs
            · cases hk : o.kind with
              | single =>
                simp only [hk, Option.some.injEq, Prod.mk.injEq] at hs
                rw [← hs.1]
                apply h.of_tame'
                · refine Tame.trans (t0 _ ?_ ?_) (tame_dropSenderOpt _ _)
                  · simp [Op.sig, hk]
                  · exact fun f hf => hf
                · rfl
                · intro p hp
                  rcases mem_insert hp with rfl | ⟨hin, _⟩
                  · exact Or.inr ⟨o, ho, rfl⟩
                  · exact Or.inl hin
                · intro p hp; exact Or.inl hp
                · rfl
                · rfl
              | search =>
                simp only [hk, Option.some.injEq, Prod.mk.injEq] at hs hsm1
                rw [← hs.1]
                apply h.of_tame'
                · refine Tame.trans (t0 _ ?_ ?_) (tack _)
                  · simp [Op.sig, hk]
                  · exact fun f hf => hf
                · rfl
                · intro p hp; exact Or.inl hp
                · intro p hp; exact hsm1 p hp
                · rfl
                · rfl
              | abandon t =>
                simp only [hk, Option.some.injEq, Prod.mk.injEq] at hs
                rw [← hs.1]
                apply h.of_tame
                · refine Tame.trans (Tame.trans (t0 _ ?_ ?_) (tame_dropSenderOpt _ _)) (tack _)
                  · simp [Op.sig, hk]
                  · exact fun f hf => hf
                · rfl
                · intro p hp; exact (mem_erase hp).1
                · intro p hp; exact (mem_erase hp).1
                · rfl
                · rfl
              | unbind =>
                simp only [hk, Option.some.injEq, Prod.mk.injEq] at hs
                rw [← hs.1]
                apply h.of_tame
                · refine Tame.trans (t0 _ ?_ ?_) (tack _)
                  · simp [Op.sig, hk]
                  · exact fun f hf => hf
                · rfl
                · intro p hp; exact hp
                · intro p hp; exact hp
                · rfl
                · rfl

theorem take_succ_of_get {l : List Frame} {n : Nat} {f : Frame} (h : l[n]? = some f) :
    l.take (n + 1) = l.take n ++ [f] := by
  rw [List.take_succ, h]; rfl

theorem RouteInv.endDriverP {s : St} (h : RouteInv s) (how : Drv) (f : Frame) (hf : s.srvLog[s.pos]? = some f) :
    RouteInv (Conn.endDriver ({ s with pos := s.pos + 1 } : St) how) := by
  have hlt : s.pos < s.srvLog.length := (List.getElem?_eq_some_iff.mp hf).1
  apply h.of_tameP
  · exact tame_endDriver ({ s with pos := s.pos + 1 } : St) how
  · rfl
  · intro p hp; simp [Conn.endDriver] at hp
  · intro p hp; simp [Conn.endDriver] at hp
  · show List.take s.pos s.srvLog <+: List.take (s.pos + 1) s.srvLog
    rw [take_succ_of_get hf]; exact List.prefix_append _ _
  · show s.pos + 1 ≤ s.srvLog.length
    omega

theorem RouteInv.routeSearch {s : St} (h : RouteInv s) (c : Nat) (f : Frame) (hf : s.srvLog[s.pos]? = some f)
    (hl : lookup s.searchmap f.id = some c) : RouteInv (Conn.routeSearch ({ s with pos := s.pos + 1 } : St) c f) := by
  have hlt : s.pos < s.srvLog.length := (List.getElem?_eq_some_iff.mp hf).1
  have hpre : List.take s.pos s.srvLog <+: List.take (s.pos + 1) s.srvLog := by
    rw [take_succ_of_get hf]; exact List.prefix_append _ _
  obtain ⟨n, hmem, hn⟩ := lookup_some hl
  obtain ⟨ch, o, hch, ho, hid⟩ := h.sm (n, c) hmem
  simp only at hch ho hid
  have hfid : f.id = (o.id : Int) := by rw [hid]; exact hn.symm
  unfold Conn.routeSearch
  -- the classification
  generalize hcl : (if f.op = 4 ∨ f.op = 25 ∨ f.op = 19 then some (Item.entry f, false)
      else if f.op = 5 then (if f.good then some (Item.done f, true) else none) else none) = cl
  cases cl with
  | none => exact h.endDriverP _ f hf
  | some pr =>
    obtain ⟨item, isDone⟩ := pr
    have hif : itemFrame item = f := by
      split at hcl
      · cases hcl; rfl
      · split at hcl
        · split at hcl
          · cases hcl; rfl
          · cases hcl
        · cases hcl
    simp only [hch]
    have upd : ∀ (s' : St), Tame s.ops s'.ops →
        s'.chans = (if ch.rxAlive then modifyChan s.chans c fun ch => { ch with items := ch.items ++ [item] } else s.chans) →
        (∀ p ∈ s'.resultmap, p ∈ s.resultmap) → (∀ p ∈ s'.searchmap, p ∈ s.searchmap) →
        s'.srvLog = s.srvLog → s'.pos = s.pos + 1 → RouteInv s' := by
      intro s' hops hcs hrm hsm hlg hps
      have hlog : List.take s.pos s.srvLog <+: List.take s'.pos s'.srvLog := by rw [hlg, hps]; exact hpre
      have hpos : s'.pos ≤ s'.srvLog.length := by rw [hlg, hps]; omega
      cases hal : ch.rxAlive with
      | false =>
        rw [hal] at hcs
        exact h.of_tameP hops (by simpa using hcs) hrm hsm hlog hpos
      | true =>
        rw [hal] at hcs
        simp only [if_true] at hcs
        have hset : modifyChan s.chans c (fun ch => { ch with items := ch.items ++ [item] }) =
            s.chans.set c { ch with items := ch.items ++ [item] } := by simp [modifyChan, hch]
        rw [hset] at hcs
        refine h.chan_update c ch { ch with items := ch.items ++ [item] } hch rfl ?_ hops hcs hrm hsm hlog hpos
        refine Or.inr ⟨item, rfl, ⟨o, ho, by rw [hif]; exact hfid⟩, ?_⟩
        rw [hlg, hps, hif]; exact take_succ_of_get hf
    split
    · exact upd _ (Tame.refl _) rfl (fun _ hp => hp) (fun p hp => (mem_erase hp).1) rfl rfl
    · exact upd _ (Tame.refl _) rfl (fun _ hp => hp) (fun _ hp => hp) rfl rfl

theorem RouteInv.drvResp {s s' : St} {ob : Obs} (h : RouteInv s)
    (hs : step s .drvResp = some (s', ob)) : RouteInv s' := by
  simp only [step] at hs
  split at hs
  · cases hs
  · cases hf : s.srvLog[s.pos]? with
    | none =>
      rw [hf] at hs
      simp only at hs
      split at hs
      · cases hs
      · simp only [Option.some.injEq, Prod.mk.injEq] at hs; rw [← hs.1]; exact h.endDriver _
      · simp only [Option.some.injEq, Prod.mk.injEq] at hs; rw [← hs.1]; exact h.endDriver _
    | some f =>
      rw [hf] at hs
      simp only at hs
      have hlt : s.pos < s.srvLog.length := (List.getElem?_eq_some_iff.mp hf).1
      have hpre : List.take s.pos s.srvLog <+: List.take (s.pos + 1) s.srvLog := by
        rw [take_succ_of_get hf]; exact List.prefix_append _ _
      cases hl : lookup s.searchmap f.id with
      | some c =>
        rw [hl] at hs
        simp only [Option.some.injEq, Prod.mk.injEq] at hs
        rw [← hs.1]
        exact h.routeSearch c f hf hl
      | none =>
        rw [hl] at hs
        simp only at hs
        cases hr : lookup s.resultmap f.id with
        | none =>
          rw [hr] at hs
          simp only [Option.some.injEq, Prod.mk.injEq] at hs
          rw [← hs.1]
          exact h.of_tameP (s' := { s with pos := s.pos + 1 }) (Tame.refl _) rfl (fun _ hp => hp) (fun _ hp => hp) hpre
            (by show s.pos + 1 ≤ s.srvLog.length; omega)
        | some i =>
          rw [hr] at hs
          simp only [Option.some.injEq, Prod.mk.injEq] at hs
          rw [← hs.1]
          obtain ⟨n, hmem, hn⟩ := lookup_some hr
          obtain ⟨o, ho, hid⟩ := h.rm (n, i) hmem
          simp only at ho hid
          -- delivery: the mailbox of op i may now hold f, whose ID is that of op i
          apply h.transfer
          · intro j oj hoj
            simp only [modifyOp_get]
            split
            · next hji => subst hji; rw [hoj]; exact ⟨_, rfl, by simp only [Option.map_some]; split <;> rfl⟩
            · exact ⟨oj, hoj, rfl⟩
          · intro j o' ho'
            simp only [modifyOp_get] at ho'
            split at ho'
            · next hji =>
              subst hji
              rw [ho] at ho'
              simp only [Option.map_some, Option.some.injEq] at ho'
              subst ho'
              exact Or.inl ⟨o, ho, by split <;> rfl⟩
            · exact Or.inl ⟨o', ho', rfl⟩
          · intro j o' g ho' hm
            simp only [modifyOp_get] at ho'
            split at ho'
            · next hji =>
              subst hji
              rw [ho] at ho'
              simp only [Option.map_some, Option.some.injEq] at ho'
              subst ho'
              split at hm
              · simp only [Mail.frame.injEq] at hm
                subst hm
                right
                have e : (if o.mail = Mail.empty then { o with mail := Mail.frame f } else o).id = o.id := by
                  split <;> rfl
                refine ⟨by rw [e, hid]; exact hn.symm, ?_⟩
                show f ∈ List.take (s.pos + 1) s.srvLog
                rw [take_succ_of_get hf]; simp
              · exact Or.inl ⟨o, ho, hm⟩
            · exact Or.inl ⟨o', ho', hm⟩
          · intro c ch hch; exact ⟨ch, hch, rfl⟩
          · intro c ch' hch'; exact Or.inl ⟨ch', hch', rfl, Or.inl rfl⟩
          · intro p hp; exact Or.inl (mem_erase hp).1
          · intro p hp; exact Or.inl hp
          · exact hpre
          · show s.pos + 1 ≤ s.srvLog.length; omega

theorem RouteInv.srvSend {s : St} (h : RouteInv s) (f : Frame) : RouteInv ({ s with srvLog := s.srvLog ++ [f] } : St) := by
  have e : List.take s.pos (s.srvLog ++ [f]) = List.take s.pos s.srvLog := List.take_append_of_le_length h.posLe
  apply h.of_tameP (s' := { s with srvLog := s.srvLog ++ [f] }) (Tame.refl _) rfl (fun _ hp => hp) (fun _ hp => hp)
  · show List.take s.pos s.srvLog <+: List.take s.pos (s.srvLog ++ [f])
    rw [e]; exact List.prefix_refl _
  · show s.pos ≤ (s.srvLog ++ [f]).length
    have := h.posLe
    simp; omega

/-- every step preserves the routing invariant -/
theorem RouteInv.step {s s' : St} {ob : Obs} (h : RouteInv s) (e : Ev) (hs : Conn.step s e = some (s', ob)) :
    RouteInv s' := by
  cases e with
  | alloc k => exact h.alloc k hs
  | enqueue i t => exact h.enqueue i t hs
  | poll i => exact h.poll i hs
  | recv c d => exact h.recv c d hs
  | finish c b => exact h.finish c b hs
  | dropHandles =>
    simp only [Conn.step, Option.some.injEq, Prod.mk.injEq] at hs; rw [← hs.1]; exact h.same rfl rfl rfl rfl rfl rfl
  | drvScrub => exact h.drvScrub hs
  | drvOp b => exact h.drvOp b hs
  | drvOpClosed =>
    simp only [Conn.step] at hs
    split at hs
    · simp only [Option.some.injEq, Prod.mk.injEq] at hs; rw [← hs.1]; exact h.endDriver _
    · cases hs
  | drvMiscClosed =>
    simp only [Conn.step] at hs
    split at hs
    · simp only [Option.some.injEq, Prod.mk.injEq] at hs; rw [← hs.1]; exact h.endDriver _
    · cases hs
  | drvResp => exact h.drvResp hs
  | srvSend f =>
    simp only [Conn.step] at hs
    split at hs
    · simp only [Option.some.injEq, Prod.mk.injEq] at hs; rw [← hs.1]; exact h.srvSend f
    · cases hs
  | srvClose =>
    simp only [Conn.step] at hs
    split at hs
    · simp only [Option.some.injEq, Prod.mk.injEq] at hs; rw [← hs.1]; exact h.same rfl rfl rfl rfl rfl rfl
    · cases hs
  | srvGarbage =>
    simp only [Conn.step] at hs
    split at hs
    · simp only [Option.some.injEq, Prod.mk.injEq] at hs; rw [← hs.1]; exact h.same rfl rfl rfl rfl rfl rfl
    · cases hs
  | tick dt =>
    simp only [Conn.step, Option.some.injEq, Prod.mk.injEq] at hs; rw [← hs.1]; exact h.same rfl rfl rfl rfl rfl rfl

/-- the invariant holds in every state reachable by any event list -/
theorem RouteInv.run (N : Nat) (evs : List Ev) : RouteInv (Conn.run (Conn.init N) evs) := by
  suffices h : ∀ s, RouteInv s → RouteInv (Conn.run s evs) from h _ (RouteInv.init N)
  induction evs with
  | nil => intro s hs; exact hs
  | cons e es ih =>
    intro s hs
    simp only [Conn.run, List.foldl_cons]
    cases hstep : Conn.step s e with
    | none => exact ih s hs
    | some r => obtain ⟨s', ob⟩ := r; exact ih s' (hs.step e hstep)

end Ldap3V.Conn

/- String-level invariants of the library's language, for the rejection corollaries:
balanced parentheses, no NUL, well-formed escapes, no adjacent asterisks, what surrounds a `(`. -/
import Ldap3V.Lemmas.FilterBool
namespace Ldap3V.Filter
open Ldap3V.Spec.Filter
open Ldap3V.Spec (Filter)

/-! ## induction over the grammar -/

theorem G_rec {d : Dialect} {P : Filter → Bytes → Prop} {PL : List Filter → Bytes → Prop}
    (hand : ∀ fs b, PL fs b → P (.and fs) (0x28 :: 0x26 :: (b ++ [0x29])))
    (hor : ∀ fs b, PL fs b → P (.or fs) (0x28 :: 0x7C :: (b ++ [0x29])))
    (hnot : ∀ f b, P f b → P (.not f) (0x28 :: 0x21 :: (b ++ [0x29])))
    (hitem : ∀ f b, GItem d f b → P f (0x28 :: (b ++ [0x29])))
    (hnil : PL [] [])
    (hcons : ∀ f fs a b, P f a → PL fs b → PL (f :: fs) (a ++ b)) :
    (∀ f s, G d f s → P f s) ∧ (∀ fs s, GL d fs s → PL fs s) := by
  have key : ∀ n : Nat, (∀ f s, sizeOf f ≤ n → G d f s → P f s) ∧ (∀ fs s, sizeOf fs ≤ n → GL d fs s → PL fs s) := by
    intro n
    induction n with
    | zero =>
      constructor
      · intro f s hs; cases f <;> simp at hs
      · intro fs s hs h
        cases fs with
        | nil => simp only [GL] at h; subst h; exact hnil
        | cons f fs => simp at hs
    | succ n ih =>
      constructor
      · intro f s hs h
        cases f with
        | and fs =>
          simp only [G] at h; obtain ⟨b, hb, rfl⟩ := h
          exact hand fs b (ih.2 fs b (by simp at hs; omega) hb)
        | or fs =>
          simp only [G] at h; obtain ⟨b, hb, rfl⟩ := h
          exact hor fs b (ih.2 fs b (by simp at hs; omega) hb)
        | not f =>
          simp only [G] at h; obtain ⟨b, hb, rfl⟩ := h
          exact hnot f b (ih.1 f b (by simp at hs; omega) hb)
        | eq a v => simp only [G] at h; obtain ⟨b, hb, rfl⟩ := h; exact hitem _ b hb
        | ge a v => simp only [G] at h; obtain ⟨b, hb, rfl⟩ := h; exact hitem _ b hb
        | le a v => simp only [G] at h; obtain ⟨b, hb, rfl⟩ := h; exact hitem _ b hb
        | approx a v => simp only [G] at h; obtain ⟨b, hb, rfl⟩ := h; exact hitem _ b hb
        | present a => simp only [G] at h; obtain ⟨b, hb, rfl⟩ := h; exact hitem _ b hb
        | substr a i y z => simp only [G] at h; obtain ⟨b, hb, rfl⟩ := h; exact hitem _ b hb
        | ext r a v x => simp only [G] at h; obtain ⟨b, hb, rfl⟩ := h; exact hitem _ b hb
      · intro fs s hs h
        cases fs with
        | nil => simp only [GL] at h; subst h; exact hnil
        | cons f fs =>
          simp only [GL] at h
          obtain ⟨a, b, ha, hb, rfl⟩ := h
          exact hcons f fs a b (ih.1 f a (by simp at hs; omega) ha) (ih.2 fs b (by simp at hs; omega) hb)
  exact ⟨fun f s h => (key (sizeOf f)).1 f s (Nat.le_refl _) h, fun fs s h => (key (sizeOf fs)).2 fs s (Nat.le_refl _) h⟩

/-- the same with a motive that ignores the tree -/
theorem G_ind {d : Dialect} {P : Bytes → Prop} {PL : Bytes → Prop}
    (hlist : ∀ c b, (c = 0x26 ∨ c = 0x7C) → PL b → P (0x28 :: c :: (b ++ [0x29])))
    (hnot : ∀ b, P b → P (0x28 :: 0x21 :: (b ++ [0x29])))
    (hitem : ∀ f b, GItem d f b → P (0x28 :: (b ++ [0x29])))
    (hnil : PL [])
    (hcons : ∀ a b, P a → PL b → PL (a ++ b)) {f : Filter} {s : Bytes} (h : G d f s) : P s :=
  (G_rec (P := fun _ s => P s) (PL := fun _ s => PL s)
    (fun _ b hb => hlist _ b (Or.inl rfl) hb) (fun _ b hb => hlist _ b (Or.inr rfl) hb)
    (fun _ b hb => hnot b hb) hitem hnil (fun _ _ a b ha hb => hcons a b ha hb)).1 f s h

/-! ## items consist of plain octets: no NUL, no parentheses -/

def plain (c : UInt8) : Bool := c != 0 && c != 0x28 && c != 0x29

theorem plain_of_valueChar {c : UInt8} (h : isValueChar c = true) : plain c = true := by
  simp [isValueChar, plain] at *; exact ⟨⟨h.1.1.1, h.1.1.2⟩, h.1.2⟩

theorem plain_of_attrChar {c : UInt8} (h : isAlnumHyphen c = true ∨ c = 0x2E ∨ c = 0x3B) : plain c = true := by
  rcases h with h | rfl | rfl
  · simp only [plain, Bool.and_eq_true, bne_iff_ne]
    refine ⟨⟨?_, ?_⟩, ?_⟩ <;> (intro e; subst e; revert h; decide)
  · decide
  · decide

theorem attr_plain {d : Dialect} {a : Bytes} (h : IsAttrDesc d a) : a.all plain = true :=
  List.all_eq_true.mpr fun c hc => plain_of_attrChar ((attrDesc_chars h).2 c hc)

theorem oid_plain {d : Dialect} {a : Bytes} (h : IsOid d a) : a.all plain = true :=
  List.all_eq_true.mpr fun c hc => plain_of_attrChar (by
    rcases (oid_chars h).2 c hc with h | h
    · exact Or.inl h
    · exact Or.inr (Or.inl h))

theorem rval_plain {v s : Bytes} (h : RVal v s) : s.all plain = true :=
  List.all_eq_true.mpr fun c hc => plain_of_valueChar (rval_valueChars h c hc)

theorem ropt_plain {o : Option Bytes} {s : Bytes} (h : ROpt o s) : s.all plain = true := by
  cases h with
  | none => rfl
  | some _ hv => exact rval_plain hv

theorem rany_plain {vs : List Bytes} {s : Bytes} (h : RAny vs s) : s.all plain = true := by
  induction h with
  | nil => rfl
  | cons _ hv _ ih => simp [List.all_append, rval_plain hv, ih, plain]

theorem optStr_plain {d : Dialect} {rule : Option Bytes} (h : ∀ r, rule = some r → IsOid d r) :
    (optStr [0x3A] rule).all plain = true := by
  cases rule with
  | none => rfl
  | some r => simp [optStr, oid_plain (h r rfl), plain]

theorem kw_plain {kw : Bytes} {dn : Bool} (h : dn = true → isDnKw .lib kw = true) :
    (if dn then 0x3A :: kw else []).all plain = true := by
  cases dn with
  | false => rfl
  | true => rcases (isDnKw_lib kw).mp (h rfl) with rfl | rfl | rfl | rfl <;> decide

theorem item_plain {f : Filter} {b : Bytes} (h : GItem .lib f b) : b.all plain = true := by
  cases h with
  | eq ha hv => simp [List.all_append, attr_plain ha, rval_plain hv, plain]
  | ge ha hv => simp [List.all_append, attr_plain ha, rval_plain hv, plain]
  | le ha hv => simp [List.all_append, attr_plain ha, rval_plain hv, plain]
  | approx ha hv => simp [List.all_append, attr_plain ha, rval_plain hv, plain]
  | present ha => simp [List.all_append, attr_plain ha, plain]
  | substr ha hi hy hf _ =>
    simp [List.all_append, attr_plain ha, ropt_plain hi, rany_plain hy, ropt_plain hf, plain]
  | extAttr ha hk ho _ hv =>
    simp only [List.all_append, List.all_cons, attr_plain ha, kw_plain hk, optStr_plain ho, rval_plain hv]
    decide
  | extRule hm hk hv =>
    simp only [List.all_append, List.all_cons, kw_plain hk, oid_plain hm, rval_plain hv]
    decide

/-! ## balanced parentheses -/

theorem balanced_plain {b : Bytes} (hb : b.all plain = true) (d : Nat) (r : Bytes) :
    balanced d (b ++ r) = balanced d r := by
  induction b with
  | nil => rfl
  | cons c b ih =>
    simp only [List.all_cons, Bool.and_eq_true] at hb
    have hc : c ≠ 0x28 ∧ c ≠ 0x29 := by
      have := hb.1; simp [plain] at this; exact ⟨this.1.2, this.2⟩
    rw [List.cons_append]
    simp [balanced, hc.1, hc.2, ih hb.2]

theorem balanced_G {f : Filter} {s : Bytes} (h : G .lib f s) : ∀ d r, balanced d (s ++ r) = balanced d r := by
  refine G_ind (P := fun s => ∀ d r, balanced d (s ++ r) = balanced d r)
    (PL := fun s => ∀ d r, balanced d (s ++ r) = balanced d r) ?_ ?_ ?_ ?_ ?_ h
  · intro c b hc hb d r
    have hc' : c ≠ 0x28 ∧ c ≠ 0x29 := by rcases hc with rfl | rfl <;> decide
    have e : 0x28 :: c :: (b ++ [0x29]) ++ r = 0x28 :: c :: (b ++ (0x29 :: r)) := by simp
    rw [e]
    simp [balanced, hc'.1, hc'.2, hb]
  · intro b hb d r
    have e : 0x28 :: 0x21 :: (b ++ [0x29]) ++ r = 0x28 :: 0x21 :: (b ++ (0x29 :: r)) := by simp
    rw [e]
    simp [balanced, hb]
  · intro f b hb d r
    have e : 0x28 :: (b ++ [0x29]) ++ r = 0x28 :: (b ++ (0x29 :: r)) := by simp
    rw [e]
    simp [balanced, balanced_plain (item_plain hb)]
  · intro d r; rfl
  · intro a b ha hb d r
    rw [List.append_assoc, ha, hb]

theorem balanced_GLib {f : Filter} {s : Bytes} (h : GLib f s) : balanced 0 s = true := by
  rcases h with h | h
  · have := balanced_G h 0 []; simpa [balanced] using this
  · have := balanced_plain (item_plain h) 0 []; simpa [balanced] using this

/-! ## no NUL -/

theorem noNul_G {f : Filter} {s : Bytes} (h : G .lib f s) : (0 : UInt8) ∉ s := by
  refine G_ind (P := fun s => (0 : UInt8) ∉ s) (PL := fun s => (0 : UInt8) ∉ s) ?_ ?_ ?_ ?_ ?_ h
  · intro c b hc hb
    rcases hc with rfl | rfl <;> simp [hb]
  · intro b hb; simp [hb]
  · intro f b hb
    have := List.all_eq_true.mp (item_plain hb)
    have h0 : (0 : UInt8) ∉ b := fun h0 => by have := this 0 h0; simp [plain] at this
    simp [h0]
  · simp
  · intro a b ha hb; simp [ha, hb]

theorem noNul_GLib {f : Filter} {s : Bytes} (h : GLib f s) : (0 : UInt8) ∉ s := by
  rcases h with h | h
  · exact noNul_G h
  · have := List.all_eq_true.mp (item_plain h)
    exact fun h0 => by have := this 0 h0; simp [plain] at this

/-! ## what follows and what precedes a `(` -/

theorem follow_plain {b : Bytes} (hb : b.all plain = true) (r : Bytes) :
    parenFollowOk false (b ++ r) = parenFollowOk false r := by
  induction b with
  | nil => rfl
  | cons c b ih =>
    simp only [List.all_cons, Bool.and_eq_true] at hb
    have hc : (c == 0x28) = false := by
      have := hb.1; simp [plain] at this; simp [this.1.2]
    rw [List.cons_append, parenFollowOk, hc]
    simp [ih hb.2]

theorem follow_G {f : Filter} {s : Bytes} (h : G .lib f s) :
    ∀ r, parenFollowOk false (s ++ r) = parenFollowOk false r := by
  refine G_ind (P := fun s => ∀ r, parenFollowOk false (s ++ r) = parenFollowOk false r)
    (PL := fun s => ∀ r, parenFollowOk false (s ++ r) = parenFollowOk false r) ?_ ?_ ?_ ?_ ?_ h
  · intro c b hc hb r
    have e : 0x28 :: c :: (b ++ [0x29]) ++ r = 0x28 :: c :: (b ++ (0x29 :: r)) := by simp
    rw [e]
    rcases hc with rfl | rfl <;> simp [parenFollowOk, okAfterParen, hb]
  · intro b hb r
    have e : 0x28 :: 0x21 :: (b ++ [0x29]) ++ r = 0x28 :: 0x21 :: (b ++ (0x29 :: r)) := by simp
    rw [e]
    simp [parenFollowOk, okAfterParen, hb]
  · intro f b hb r
    obtain ⟨c, x, rfl, hc⟩ := item_head hb
    have hp := item_plain hb
    simp only [List.all_cons, Bool.and_eq_true] at hp
    have hc8 : (c == 0x28) = false := by
      have := hp.1; simp [plain] at this; simp [this.1.2]
    have hok : okAfterParen c = true := by
      simp only [okAfterParen, ALPHA_eq, DIGIT_eq]
      rcases hc with h | h | h <;> simp [h]
    have e : 0x28 :: (c :: x ++ [0x29]) ++ r = 0x28 :: c :: (x ++ (0x29 :: r)) := by simp
    rw [e]
    simp [parenFollowOk, hok, hc8, follow_plain hp.2]
  · intro r; rfl
  · intro a b ha hb r
    rw [List.append_assoc, ha, hb]

theorem follow_GLib {f : Filter} {s : Bytes} (h : GLib f s) : parenFollowOk false s = true := by
  rcases h with h | h
  · have := follow_G h []; simpa [parenFollowOk] using this
  · have := follow_plain (item_plain h) []; simpa [parenFollowOk] using this

theorem prev_plain {b : Bytes} (hb : b.all plain = true) (po : Bool) (r : Bytes) :
    parenPrevOk po (b ++ 0x29 :: r) = parenPrevOk true r := by
  induction b generalizing po with
  | nil => simp [parenPrevOk]
  | cons c b ih =>
    simp only [List.all_cons, Bool.and_eq_true] at hb
    have hc : (c != 0x28) = true := by
      have := hb.1; simp [plain] at this; simp [this.1.2]
    rw [List.cons_append, parenPrevOk, hc, ih hb.2]
    simp

theorem prev_G {f : Filter} {s : Bytes} (h : G .lib f s) :
    ∀ r, parenPrevOk true (s ++ r) = parenPrevOk true r := by
  refine G_ind (P := fun s => ∀ r, parenPrevOk true (s ++ r) = parenPrevOk true r)
    (PL := fun s => ∀ r, parenPrevOk true (s ++ r) = parenPrevOk true r) ?_ ?_ ?_ ?_ ?_ h
  · intro c b hc hb r
    have e : 0x28 :: c :: (b ++ [0x29]) ++ r = 0x28 :: c :: (b ++ (0x29 :: r)) := by simp
    rw [e]
    rcases hc with rfl | rfl <;> simp [parenPrevOk, hb]
  · intro b hb r
    have e : 0x28 :: 0x21 :: (b ++ [0x29]) ++ r = 0x28 :: 0x21 :: (b ++ (0x29 :: r)) := by simp
    rw [e]
    simp [parenPrevOk, hb]
  · intro f b hb r
    have e : 0x28 :: (b ++ [0x29]) ++ r = 0x28 :: (b ++ (0x29 :: r)) := by simp
    rw [e]
    simp [parenPrevOk, prev_plain (item_plain hb)]
  · intro r; rfl
  · intro a b ha hb r
    rw [List.append_assoc, ha, hb]

theorem prev_plain_end {b : Bytes} (hb : b.all plain = true) (po : Bool) : parenPrevOk po b = true := by
  induction b generalizing po with
  | nil => rfl
  | cons c b ih =>
    simp only [List.all_cons, Bool.and_eq_true] at hb
    have hc : (c != 0x28) = true := by
      have := hb.1; simp [plain] at this; simp [this.1.2]
    rw [parenPrevOk, hc, ih hb.2]
    simp

theorem prev_GLib {f : Filter} {s : Bytes} (h : GLib f s) : parenPrevOk true s = true := by
  rcases h with h | h
  · have := prev_G h []; simpa [parenPrevOk] using this
  · exact prev_plain_end (item_plain h) true

/-! ## escapes -/

/-- the string is a sequence of tokens: an octet other than `\`, or `\` HEX HEX -/
inductive Toks : Bytes → Prop where
  | nil : Toks []
  | lit {c : UInt8} {r : Bytes} : c ≠ 0x5C → Toks r → Toks (c :: r)
  | esc {h1 h2 : UInt8} {r : Bytes} : (hexVal h1).isSome = true → (hexVal h2).isSome = true → Toks r →
      Toks (0x5C :: h1 :: h2 :: r)

theorem Toks.append {a b : Bytes} (ha : Toks a) (hb : Toks b) : Toks (a ++ b) := by
  induction ha with
  | nil => exact hb
  | lit hc _ ih => exact .lit hc ih
  | esc h1 h2 _ ih => exact .esc h1 h2 ih

theorem Toks.escapesOk {s : Bytes} (h : Toks s) : escapesOk s = true := by
  induction h with
  | nil => rfl
  | lit hc _ ih => rw [Spec.Filter.escapesOk.eq_def]; simp [hc, ih]
  | esc h1 h2 _ ih => rw [Spec.Filter.escapesOk.eq_def]; simp [h1, h2, ih]

theorem toks_noBs {x : Bytes} (h : ∀ c ∈ x, c ≠ 0x5C) : Toks x := by
  induction x with
  | nil => exact .nil
  | cons c x ih => exact .lit (h c (by simp)) (ih fun d hd => h d (by simp [hd]))

theorem toks_rval {v s : Bytes} (h : RVal v s) : Toks s := by
  induction h with
  | nil => exact .nil
  | lit hb _ ih => exact .lit ((special_iff _).mp hb).2 ih
  | esc hx hy _ ih => exact .esc (by simp [hx]) (by simp [hy]) ih

theorem toks_ropt {o : Option Bytes} {s : Bytes} (h : ROpt o s) : Toks s := by
  cases h with
  | none => exact .nil
  | some _ hv => exact toks_rval hv

theorem toks_rany {vs : List Bytes} {s : Bytes} (h : RAny vs s) : Toks s := by
  induction h with
  | nil => exact .nil
  | cons _ hv _ ih => exact (toks_rval hv).append (.lit (by decide) ih)

theorem toks_plainNoBs {x : Bytes} (h : x.all (fun c => c != 0x5C) = true) : Toks x :=
  toks_noBs fun c hc => by simpa using List.all_eq_true.mp h c hc

theorem attr_noBs' {d : Dialect} {a : Bytes} (h : IsAttrDesc d a) : ∀ c ∈ a, c ≠ 0x5C := by
  intro c hc e
  subst e
  rcases (attrDesc_chars h).2 _ hc with h | h | h
  · simp [isAlnumHyphen, isAlnum, isAlpha, isDigit] at h
  · cases h
  · cases h

theorem oid_noBs' {d : Dialect} {a : Bytes} (h : IsOid d a) : ∀ c ∈ a, c ≠ 0x5C := by
  intro c hc e
  subst e
  rcases (oid_chars h).2 _ hc with h | h
  · simp [isAlnumHyphen, isAlnum, isAlpha, isDigit] at h
  · cases h

theorem toks_item {f : Filter} {b : Bytes} (h : GItem .lib f b) : Toks b := by
  cases h with
  | eq ha hv => exact (toks_noBs (attr_noBs' ha)).append (.lit (by decide) (toks_rval hv))
  | ge ha hv => exact (toks_noBs (attr_noBs' ha)).append (.lit (by decide) (.lit (by decide) (toks_rval hv)))
  | le ha hv => exact (toks_noBs (attr_noBs' ha)).append (.lit (by decide) (.lit (by decide) (toks_rval hv)))
  | approx ha hv => exact (toks_noBs (attr_noBs' ha)).append (.lit (by decide) (.lit (by decide) (toks_rval hv)))
  | present ha => exact (toks_noBs (attr_noBs' ha)).append (.lit (by decide) (.lit (by decide) .nil))
  | substr ha hi hy hf _ =>
    exact (toks_noBs (attr_noBs' ha)).append (.lit (by decide)
      ((toks_ropt hi).append (.lit (by decide) ((toks_rany hy).append (toks_ropt hf)))))
  | @extAttr a v sv kw rule dn ha hk ho _ hv =>
    refine (toks_noBs (attr_noBs' ha)).append (Toks.append ?_ (Toks.append ?_
      (.lit (by decide) (.lit (by decide) (toks_rval hv)))))
    · cases dn with
      | false => exact .nil
      | true => rcases (isDnKw_lib kw).mp (hk rfl) with rfl | rfl | rfl | rfl <;> exact toks_noBs (by decide)
    · cases rule with
      | none => exact .nil
      | some r => exact .lit (by decide) (toks_noBs (oid_noBs' (ho r rfl)))
  | @extRule m v sv kw dn hm hk hv =>
    refine Toks.append ?_ (.lit (by decide) ((toks_noBs (oid_noBs' hm)).append
      (.lit (by decide) (.lit (by decide) (toks_rval hv)))))
    cases dn with
    | false => exact .nil
    | true => rcases (isDnKw_lib kw).mp (hk rfl) with rfl | rfl | rfl | rfl <;> exact toks_noBs (by decide)

theorem toks_G {f : Filter} {s : Bytes} (h : G .lib f s) : Toks s := by
  refine G_ind (P := Toks) (PL := Toks) ?_ ?_ ?_ .nil (fun a b ha hb => ha.append hb) h
  · intro c b hc hb
    have : c ≠ 0x5C := by rcases hc with rfl | rfl <;> decide
    exact .lit (by decide) (.lit this (hb.append (.lit (by decide) .nil)))
  · intro b hb
    exact .lit (by decide) (.lit (by decide) (hb.append (.lit (by decide) .nil)))
  · intro f b hb
    exact .lit (by decide) ((toks_item hb).append (.lit (by decide) .nil))

theorem escapesOk_GLib {f : Filter} {s : Bytes} (h : GLib f s) : escapesOk s = true := by
  rcases h with h | h
  · exact (toks_G h).escapesOk
  · exact (toks_item h).escapesOk

/-! ## adjacent asterisks -/

def starFree (x : Bytes) : Bool := x.all (fun c => c != 0x2A)

/-- the string is empty or does not start with an asterisk -/
def NoStarHead : Bytes → Prop
  | [] => True
  | c :: _ => c ≠ 0x2A

theorem ss_free_false {x : Bytes} (h : starFree x = true) (r : Bytes) :
    noAdjacentStars false (x ++ r) = noAdjacentStars false r := by
  induction x with
  | nil => rfl
  | cons c x ih =>
    simp only [starFree, List.all_cons, Bool.and_eq_true] at h
    have hc : (c == 0x2A) = false := by simpa using h.1
    rw [List.cons_append, noAdjacentStars, hc]
    simpa using ih h.2

theorem ss_free_true {x : Bytes} (h : starFree x = true) (hne : x ≠ []) (r : Bytes) :
    noAdjacentStars true (x ++ r) = noAdjacentStars false r := by
  cases x with
  | nil => exact absurd rfl hne
  | cons c x =>
    simp only [starFree, List.all_cons, Bool.and_eq_true] at h
    have hc : (c == 0x2A) = false := by simpa using h.1
    rw [List.cons_append, noAdjacentStars, hc]
    simpa using ss_free_false h.2 r

theorem ss_true_noStar {r : Bytes} (h : NoStarHead r) : noAdjacentStars true r = noAdjacentStars false r := by
  cases r with
  | nil => rfl
  | cons c r =>
    simp only [NoStarHead] at h
    have hc : (c == 0x2A) = false := by simpa using h
    simp [noAdjacentStars, hc]

theorem starFree_of_plainChars {x : Bytes} (h : ∀ c ∈ x, c ≠ 0x2A) : starFree x = true :=
  List.all_eq_true.mpr fun c hc => by simpa using h c hc

theorem attr_starFree {d : Dialect} {a : Bytes} (h : IsAttrDesc d a) : starFree a = true :=
  starFree_of_plainChars fun c hc e => by
    subst e
    rcases (attrDesc_chars h).2 _ hc with h | h | h
    · simp [isAlnumHyphen, isAlnum, isAlpha, isDigit] at h
    · cases h
    · cases h

theorem oid_starFree {d : Dialect} {a : Bytes} (h : IsOid d a) : starFree a = true :=
  starFree_of_plainChars fun c hc e => by
    subst e
    rcases (oid_chars h).2 _ hc with h | h
    · simp [isAlnumHyphen, isAlnum, isAlpha, isDigit] at h
    · cases h

theorem rval_starFree {v s : Bytes} (h : RVal v s) : starFree s = true :=
  starFree_of_plainChars fun c hc e => by
    subst e
    have := rval_valueChars h _ hc
    simp [isValueChar] at this

theorem rval_ne_nil {v s : Bytes} (h : RVal v s) (hv : v ≠ []) : s ≠ [] := by
  cases h with
  | nil => exact absurd rfl hv
  | lit _ _ => simp
  | esc _ _ _ => simp

theorem starFree_append {x y : Bytes} (hx : starFree x = true) (hy : starFree y = true) :
    starFree (x ++ y) = true := by
  simp only [starFree, List.all_append, Bool.and_eq_true] at *
  exact ⟨hx, hy⟩

theorem ss_rany {vs : List Bytes} {s : Bytes} (h : RAny vs s) (z : Bytes) :
    noAdjacentStars true (s ++ z) = noAdjacentStars true z := by
  induction h with
  | nil => rfl
  | @cons v s vs ss hne hv _ ih =>
    rw [List.append_assoc, ss_free_true (rval_starFree hv) (rval_ne_nil hv hne), List.cons_append,
      noAdjacentStars]
    simpa using ih

theorem ss_ropt_after_star {o : Option Bytes} {s : Bytes} (h : ROpt o s) {r : Bytes} (hr : NoStarHead r) :
    noAdjacentStars true (s ++ r) = noAdjacentStars false r := by
  cases h with
  | none => exact ss_true_noStar hr
  | some hne hv => exact ss_free_true (rval_starFree hv) (rval_ne_nil hv hne) r

theorem ropt_starFree {o : Option Bytes} {s : Bytes} (h : ROpt o s) : starFree s = true := by
  cases h with
  | none => rfl
  | some _ hv => exact rval_starFree hv

theorem ss_item {f : Filter} {b : Bytes} (h : GItem .lib f b) {r : Bytes} (hr : NoStarHead r) :
    noAdjacentStars false (b ++ r) = noAdjacentStars false r := by
  have cons_sf : ∀ (c : UInt8) (x : Bytes), c ≠ 0x2A → starFree x = true → starFree (c :: x) = true := by
    intro c x hc hx
    simp only [starFree, List.all_cons, Bool.and_eq_true] at *
    exact ⟨by simpa using hc, hx⟩
  cases h with
  | eq ha hv =>
    exact ss_free_false (starFree_append (attr_starFree ha) (cons_sf _ _ (by decide) (rval_starFree hv))) r
  | ge ha hv =>
    exact ss_free_false (starFree_append (attr_starFree ha)
      (cons_sf _ _ (by decide) (cons_sf _ _ (by decide) (rval_starFree hv)))) r
  | le ha hv =>
    exact ss_free_false (starFree_append (attr_starFree ha)
      (cons_sf _ _ (by decide) (cons_sf _ _ (by decide) (rval_starFree hv)))) r
  | approx ha hv =>
    exact ss_free_false (starFree_append (attr_starFree ha)
      (cons_sf _ _ (by decide) (cons_sf _ _ (by decide) (rval_starFree hv)))) r
  | @present a ha =>
    have e : a ++ [0x3D, 0x2A] ++ r = (a ++ [0x3D]) ++ (0x2A :: r) := by simp
    rw [e, ss_free_false (starFree_append (attr_starFree ha) (by decide)), noAdjacentStars]
    simpa using ss_true_noStar hr
  | @substr a ini fin any si sa sf ha hi hy hf _ =>
    have e : a ++ 0x3D :: (si ++ 0x2A :: (sa ++ sf)) ++ r = (a ++ 0x3D :: si) ++ (0x2A :: (sa ++ (sf ++ r))) := by
      simp
    rw [e, ss_free_false (starFree_append (attr_starFree ha) (cons_sf _ _ (by decide) (ropt_starFree hi))),
      noAdjacentStars]
    simp only [Bool.false_and, Bool.not_false, Bool.true_and, beq_self_eq_true]
    rw [ss_rany hy, ss_ropt_after_star hf hr]
  | @extAttr a v sv kw rule dn ha hk ho _ hv =>
    refine ss_free_false (starFree_append (attr_starFree ha) (starFree_append ?_ (starFree_append ?_
      (cons_sf _ _ (by decide) (cons_sf _ _ (by decide) (rval_starFree hv)))))) r
    · cases dn with
      | false => rfl
      | true => rcases (isDnKw_lib kw).mp (hk rfl) with rfl | rfl | rfl | rfl <;> decide
    · cases rule with
      | none => rfl
      | some m => exact cons_sf _ _ (by decide) (oid_starFree (ho m rfl))
  | @extRule m v sv kw dn hm hk hv =>
    refine ss_free_false (starFree_append ?_ (cons_sf _ _ (by decide) (starFree_append (oid_starFree hm)
      (cons_sf _ _ (by decide) (cons_sf _ _ (by decide) (rval_starFree hv)))))) r
    cases dn with
    | false => rfl
    | true => rcases (isDnKw_lib kw).mp (hk rfl) with rfl | rfl | rfl | rfl <;> decide

theorem ss_G {f : Filter} {s : Bytes} (h : G .lib f s) :
    ∀ ls r, noAdjacentStars ls (s ++ r) = noAdjacentStars false r := by
  refine G_ind (P := fun s => ∀ ls r, noAdjacentStars ls (s ++ r) = noAdjacentStars false r)
    (PL := fun s => ∀ r, noAdjacentStars false (s ++ r) = noAdjacentStars false r) ?_ ?_ ?_ ?_ ?_ h
  · intro c b hc hb ls r
    have e : 0x28 :: c :: (b ++ [0x29]) ++ r = 0x28 :: c :: (b ++ (0x29 :: r)) := by simp
    rw [e]
    rcases hc with rfl | rfl <;> simp [noAdjacentStars, hb]
  · intro b hb ls r
    have e : 0x28 :: 0x21 :: (b ++ [0x29]) ++ r = 0x28 :: 0x21 :: (b ++ (0x29 :: r)) := by simp
    rw [e]
    simp [noAdjacentStars, hb]
  · intro f b hb ls r
    have e : 0x28 :: (b ++ [0x29]) ++ r = 0x28 :: (b ++ (0x29 :: r)) := by simp
    have hr : NoStarHead (0x29 :: r) := by simp [NoStarHead]
    rw [e]
    simp [noAdjacentStars, ss_item hb hr]
  · intro r; rfl
  · intro a b ha hb r
    rw [List.append_assoc, ha, hb]

theorem noAdjacentStars_GLib {f : Filter} {s : Bytes} (h : GLib f s) : noAdjacentStars false s = true := by
  rcases h with h | h
  · have := ss_G h false []; simpa [noAdjacentStars] using this
  · have := ss_item h (r := []) trivial; simpa [noAdjacentStars] using this

/-! ## an asterisk in the value of `>=` `<=` `~=` `:=` -/

/-- the end of a run of attribute-description octets is determined by the string -/
theorem split_unique {K : UInt8 → Bool} :
    ∀ {a a' : Bytes} {c c' : UInt8} {x x' : Bytes}, (∀ y ∈ a, K y = true) → (∀ y ∈ a', K y = true) →
      K c = false → K c' = false → a ++ c :: x = a' ++ c' :: x' → a = a' ∧ c = c' ∧ x = x'
  | [], [], _, _, _, _, _, _, _, _, e => by simp at e; exact ⟨rfl, e.1, e.2⟩
  | [], b :: a', c, _, _, _, _, h', hc, _, e => by
    simp at e
    have := h' b (by simp)
    rw [← e.1, hc] at this; cases this
  | b :: a, [], _, c', _, _, h, _, _, hc', e => by
    simp at e
    have := h b (by simp)
    rw [e.1, hc'] at this; cases this
  | b :: a, b' :: a', c, c', x, x', h, h', hc, hc', e => by
    simp at e
    obtain ⟨h1, h2, h3⟩ := split_unique (fun y hy => h y (by simp [hy])) (fun y hy => h' y (by simp [hy])) hc hc' e.2
    exact ⟨by rw [e.1, h1], h2, h3⟩

def attrChar (c : UInt8) : Bool := isAlnumHyphen c || c == 0x2E || c == 0x3B

theorem attr_attrChars {d : Dialect} {a : Bytes} (h : IsAttrDesc d a) : ∀ y ∈ a, attrChar y = true := by
  intro y hy
  rcases (attrDesc_chars h).2 y hy with h | h | h <;> simp [attrChar, h]

/-- an item whose attribute description is followed by `>` `<` `~` or `:` has no unescaped
asterisk after it -/
theorem item_op_starFree {f : Filter} {a x : Bytes} {c : UInt8} (ha : IsAttrDesc .lib a)
    (hc : c = 0x3E ∨ c = 0x3C ∨ c = 0x7E ∨ c = 0x3A) (h : GItem .lib f (a ++ c :: x)) : starFree x = true := by
  have hcK : attrChar c = false := by rcases hc with rfl | rfl | rfl | rfl <;> decide
  have hcne : c ≠ 0x3D := by rcases hc with rfl | rfl | rfl | rfl <;> decide
  have cons_sf : ∀ (c : UInt8) (x : Bytes), c ≠ 0x2A → starFree x = true → starFree (c :: x) = true := by
    intro c x hc hx
    simp only [starFree, List.all_cons, Bool.and_eq_true] at *
    exact ⟨by simpa using hc, hx⟩
  have tail_sf : ∀ (c : UInt8) (x : Bytes), starFree (c :: x) = true → starFree x = true := by
    intro c x h
    simp only [starFree, List.all_cons, Bool.and_eq_true] at h
    exact h.2
  generalize hb : a ++ c :: x = b at h
  cases h with
  | @eq a' v sv ha' hv =>
    obtain ⟨_, e, _⟩ := split_unique (attr_attrChars ha) (attr_attrChars ha') hcK (by decide) hb
    exact absurd e hcne
  | @ge a' v sv ha' hv =>
    obtain ⟨_, _, e⟩ := split_unique (attr_attrChars ha) (attr_attrChars ha') hcK (by decide) hb
    rw [e]; exact cons_sf _ _ (by decide) (rval_starFree hv)
  | @le a' v sv ha' hv =>
    obtain ⟨_, _, e⟩ := split_unique (attr_attrChars ha) (attr_attrChars ha') hcK (by decide) hb
    rw [e]; exact cons_sf _ _ (by decide) (rval_starFree hv)
  | @approx a' v sv ha' hv =>
    obtain ⟨_, _, e⟩ := split_unique (attr_attrChars ha) (attr_attrChars ha') hcK (by decide) hb
    rw [e]; exact cons_sf _ _ (by decide) (rval_starFree hv)
  | @present a' ha' =>
    obtain ⟨_, e, _⟩ := split_unique (attr_attrChars ha) (attr_attrChars ha') hcK (by decide) hb
    exact absurd e hcne
  | @substr a' ini fin any si sa sf ha' _ _ _ _ =>
    obtain ⟨_, e, _⟩ := split_unique (attr_attrChars ha) (attr_attrChars ha') hcK (by decide) hb
    exact absurd e hcne
  | @extAttr a' v sv kw rule dn ha' hk ho _ hv =>
    have hY : ∃ Y, (if dn then 0x3A :: kw else []) ++ (optStr [0x3A] rule ++ 0x3A :: 0x3D :: sv) = 0x3A :: Y ∧
        starFree (0x3A :: Y) = true := by
      have h1 : starFree (if dn then 0x3A :: kw else []) = true := by
        cases dn with
        | false => rfl
        | true => rcases (isDnKw_lib kw).mp (hk rfl) with rfl | rfl | rfl | rfl <;> decide
      have h2 : starFree (optStr [0x3A] rule) = true := by
        cases rule with
        | none => rfl
        | some m => exact cons_sf _ _ (by decide) (oid_starFree (ho m rfl))
      have h3 := starFree_append h1 (starFree_append h2
        (cons_sf 0x3A _ (by decide) (cons_sf 0x3D _ (by decide) (rval_starFree hv))))
      cases dn <;> cases rule <;> simp [optStr] at h3 ⊢ <;> exact h3
    obtain ⟨Y, eY, hsf⟩ := hY
    rw [eY] at hb
    obtain ⟨_, _, e⟩ := split_unique (attr_attrChars ha) (attr_attrChars ha') hcK (by decide) hb
    rw [e]; exact tail_sf _ _ hsf
  | @extRule m v sv kw dn hm hk hv =>
    -- the item starts with a colon, an attribute description does not
    obtain ⟨⟨c0, t0, e0, hc0⟩, _⟩ := attrDesc_chars ha
    subst e0
    cases dn with
    | false =>
      simp at hb
      rw [hb.1] at hc0; exact absurd hc0 (by decide)
    | true =>
      simp at hb
      rw [hb.1] at hc0; exact absurd hc0 (by decide)

theorem G_item_inv {f : Filter} {b : Bytes} {c : UInt8} (hc : c ≠ 0x26 ∧ c ≠ 0x7C ∧ c ≠ 0x21) {x : Bytes}
    (hb : b = c :: x) (h : G .lib f (0x28 :: (b ++ [0x29]))) : GItem .lib f b := by
  subst hb
  cases f with
  | and fs => simp only [G] at h; obtain ⟨b', _, e⟩ := h; simp at e; exact absurd e.1 hc.1
  | or fs => simp only [G] at h; obtain ⟨b', _, e⟩ := h; simp at e; exact absurd e.1 hc.2.1
  | not f => simp only [G] at h; obtain ⟨b', _, e⟩ := h; simp at e; exact absurd e.1 hc.2.2
  | eq a v =>
    simp only [G] at h; obtain ⟨b', hb', e⟩ := h; simp only [List.cons.injEq, true_and] at e
    rw [← List.append_cancel_right (show (c :: x) ++ [0x29] = b' ++ [0x29] from e)] at hb'; exact hb'
  | ge a v =>
    simp only [G] at h; obtain ⟨b', hb', e⟩ := h; simp only [List.cons.injEq, true_and] at e
    rw [← List.append_cancel_right (show (c :: x) ++ [0x29] = b' ++ [0x29] from e)] at hb'; exact hb'
  | le a v =>
    simp only [G] at h; obtain ⟨b', hb', e⟩ := h; simp only [List.cons.injEq, true_and] at e
    rw [← List.append_cancel_right (show (c :: x) ++ [0x29] = b' ++ [0x29] from e)] at hb'; exact hb'
  | approx a v =>
    simp only [G] at h; obtain ⟨b', hb', e⟩ := h; simp only [List.cons.injEq, true_and] at e
    rw [← List.append_cancel_right (show (c :: x) ++ [0x29] = b' ++ [0x29] from e)] at hb'; exact hb'
  | present a =>
    simp only [G] at h; obtain ⟨b', hb', e⟩ := h; simp only [List.cons.injEq, true_and] at e
    rw [← List.append_cancel_right (show (c :: x) ++ [0x29] = b' ++ [0x29] from e)] at hb'; exact hb'
  | substr a i y z =>
    simp only [G] at h; obtain ⟨b', hb', e⟩ := h; simp only [List.cons.injEq, true_and] at e
    rw [← List.append_cancel_right (show (c :: x) ++ [0x29] = b' ++ [0x29] from e)] at hb'; exact hb'
  | ext r a v n =>
    simp only [G] at h; obtain ⟨b', hb', e⟩ := h; simp only [List.cons.injEq, true_and] at e
    rw [← List.append_cancel_right (show (c :: x) ++ [0x29] = b' ++ [0x29] from e)] at hb'; exact hb'

/-- `(attr OP value)` and `attr OP value` with `OP` one of `>=` `<=` `~=` `:`…: an asterisk after the
operator's first octet is a reason for rejection -/
theorem reject_star_in_op_value {a x : Bytes} {c : UInt8} (ha : IsAttrDesc .lib a)
    (hc : c = 0x3E ∨ c = 0x3C ∨ c = 0x7E ∨ c = 0x3A) (hx : starFree x = false) :
    parseCore (a ++ c :: x) = none ∧ parseCore (0x28 :: ((a ++ c :: x) ++ [0x29])) = none := by
  obtain ⟨⟨c0, t0, e0, hc0⟩, _⟩ := attrDesc_chars ha
  have hc0' : c0 ≠ 0x28 ∧ c0 ≠ 0x26 ∧ c0 ≠ 0x7C ∧ c0 ≠ 0x21 := by
    refine ⟨?_, ?_, ?_, ?_⟩ <;> (intro e; subst e; revert hc0; decide)
  constructor
  · cases hp : parseCore (a ++ c :: x) with
    | none => rfl
    | some t =>
      obtain ⟨f, hg, _⟩ := parse_sound ((parse_some_iff _ t).mp hp)
      rcases hg with hg | hg
      · obtain ⟨y, e⟩ := G_head hg
        rw [e0] at e; simp at e; exact absurd e.1 hc0'.1
      · rw [item_op_starFree ha hc hg] at hx; cases hx
  · cases hp : parseCore (0x28 :: ((a ++ c :: x) ++ [0x29])) with
    | none => rfl
    | some t =>
      obtain ⟨f, hg, _⟩ := parse_sound ((parse_some_iff _ t).mp hp)
      rcases hg with hg | hg
      · have := G_item_inv (c := c0) (x := t0 ++ c :: x) ⟨hc0'.2.1, hc0'.2.2.1, hc0'.2.2.2⟩ (by rw [e0]; simp) hg
        rw [item_op_starFree ha hc this] at hx; cases hx
      · obtain ⟨c', y, e, hc'⟩ := item_head hg
        simp at e
        rw [← e.1] at hc'; exact absurd hc' (by decide)

end Ldap3V.Filter

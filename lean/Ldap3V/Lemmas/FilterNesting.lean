/- The nesting guard of `filter::parse` (`nesting_within_limit`, `MAX_NESTING` = 128, added by the repair of
F28: a filter string nested a few ten thousand levels deep exhausted the native stack of the recursive
descent parser).  `Filter.parse` = guard, then the grammar (`Filter.parseCore`, about which every lemma of
FilterBool / FilterInv / FilterShape speaks).  This file connects the two:

* the loop `nestingGo` computes `nest d s ≤ maxNesting` (`nest` = greatest parenthesis depth reached);
* `parse s = some t ↔ nest 0 s ≤ 128 ∧ parseCore s = some t`;
* in terms of the syntax tree: a string of the language is accepted iff its tree nests at most 128
  levels (`fdepth`), whatever escaping / spelling was chosen. -/
import Ldap3V.Lemmas.FilterShape
namespace Ldap3V.Filter
open Ldap3V.Spec.Filter
open Ldap3V.Spec (Filter)

theorem nestingGo_iff : ∀ (s : Bytes) (d : Nat), d ≤ maxNesting →
    (nestingGo d s = true ↔ nest d s ≤ maxNesting)
  | [], d, hd => by simp [nestingGo, nest, hd]
  | c :: r, d, hd => by
    have l1 := le_nest (d + 1) r
    have ih1 := nestingGo_iff r (d + 1)
    have ih2 := nestingGo_iff r (d - 1) (by omega)
    have ih3 := nestingGo_iff r d hd
    unfold nestingGo
    simp only [nest, nestStep]
    by_cases h28 : c = 0x28
    · simp only [h28, if_true]
      by_cases hgt : d + 1 > maxNesting
      · simp only [hgt, if_true]
        constructor
        · intro h; cases h
        · intro h; omega
      · simp only [hgt, if_false]
        rw [ih1 (by omega)]
        omega
    · simp only [h28, if_false]
      by_cases h29 : c = 0x29
      · simp only [h29, if_true]
        rw [ih2]; omega
      · simp only [h29, if_false]
        rw [ih3]; omega

theorem nestingWithinLimit_iff (s : Bytes) : nestingWithinLimit s = true ↔ nest 0 s ≤ maxNesting :=
  nestingGo_iff s 0 (by decide)

/-- the public entry point is the grammar restricted to strings nested at most 128 deep -/
theorem parseO_eq (s : Bytes) : parseO s = if nest 0 s ≤ maxNesting then parseCoreO s else .reject := by
  unfold parseO
  by_cases h : nest 0 s ≤ maxNesting
  · rw [(nestingWithinLimit_iff s).mpr h]; simp [h]
  · have : nestingWithinLimit s = false := by
      cases e : nestingWithinLimit s with
      | false => rfl
      | true => exact absurd ((nestingWithinLimit_iff s).mp e) h
    rw [this]; simp [h]

theorem parse_some (s : Bytes) (t : Tag) :
    parse s = some t ↔ nest 0 s ≤ maxNesting ∧ parseCore s = some t := by
  unfold parse parseCore
  rw [parseO_eq]
  by_cases h : nest 0 s ≤ maxNesting <;> simp [h, Outcome.toOption]

theorem parse_core {s : Bytes} {t : Tag} (h : parse s = some t) : parseCore s = some t :=
  ((parse_some s t).mp h).2

theorem parse_nest {s : Bytes} {t : Tag} (h : parse s = some t) : nest 0 s ≤ maxNesting :=
  ((parse_some s t).mp h).1

theorem parse_of_core {s : Bytes} {t : Tag} (h : parseCore s = some t) (hn : nest 0 s ≤ maxNesting) :
    parse s = some t := (parse_some s t).mpr ⟨hn, h⟩

/-- what the grammar rejects the entry point rejects -/
theorem parse_none_of_core {s : Bytes} (h : parseCore s = none) : parse s = none := by
  cases hp : parse s with
  | none => rfl
  | some t => rw [parse_core hp] at h; cases h

/-- what is nested too deep is rejected, whatever it is -/
theorem parse_none_of_deep {s : Bytes} (h : maxNesting < nest 0 s) : parse s = none := by
  cases hp : parse s with
  | none => rfl
  | some t => have := parse_nest hp; omega

theorem parse_eq_core {s : Bytes} (hn : nest 0 s ≤ maxNesting) : parse s = parseCore s := by
  cases hc : parseCore s with
  | none => exact parse_none_of_core hc
  | some t => exact parse_of_core hc hn

theorem parse_some_iff_O (s : Bytes) (t : Tag) : parse s = some t ↔ parseO s = .ok t := by
  unfold parse
  cases h : parseO s <;> simp [Outcome.toOption]

theorem parseO_total (s : Bytes) : parseO s ≠ .panic := by
  rw [parseO_eq]
  split
  · exact parseCoreO_total s
  · intro h; cases h

/-- the nesting of a string of the language is the nesting of its tree; a bare item has none -/
theorem nest_le_of_GLib {f : Filter} {s : Bytes} (h : GLib f s) : nest 0 s ≤ fdepth f := by
  rcases nest_GLib h with ⟨_, e⟩ | ⟨_, e⟩ <;> omega

/-- completeness of the entry point: every string of the library's language whose tree nests at most
128 levels is accepted, with the tag of that tree -/
theorem parse_complete_guarded {f : Filter} {s : Bytes} (h : GLib f s) (hd : fdepth f ≤ maxNesting) :
    ∃ t, parse s = some t ∧ t.toTlv = toTlv f := by
  obtain ⟨t, hp, ht⟩ := parse_complete h
  have hn := nest_le_of_GLib h
  exact ⟨t, parse_of_core ((parse_some_iff _ t).mpr hp) (by omega), ht⟩

/-- … and a parenthesised string of the language whose tree nests deeper is rejected -/
theorem parse_rejects_deep {f : Filter} {s : Bytes} (h : G .lib f s) (hd : maxNesting < fdepth f) :
    parse s = none := by
  have := nest_G h 0 []
  simp [nest] at this
  exact parse_none_of_deep (by omega)

/-- `(a=b)` under `n` negations: accepted exactly up to 127 negations (128 levels of parentheses) -/
theorem parse_notStr (n : Nat) :
    (n + 1 ≤ maxNesting → ∃ t, parse (notStr n [0x28, 0x61, 0x3D, 0x62, 0x29]) = some t ∧ t.toTlv.depth = n + 1) ∧
    (maxNesting < n + 1 → parse (notStr n [0x28, 0x61, 0x3D, 0x62, 0x29]) = none) := by
  have hn := nest_notStr n
  constructor
  · intro h
    obtain ⟨t, hp, _, hd⟩ := parse_notN n
    exact ⟨t, parse_of_core hp (by omega), hd⟩
  · intro h
    exact parse_none_of_deep (by omega)

end Ldap3V.Filter

/- Generic helper lemmas for the C19 codec theorems (no property statements here). -/
import Ldap3V.Lemmas.BerParse
import Ldap3V.Lemmas.BerInt
import Ldap3V.Model.Codecs
import Ldap3V.Spec.Codecs
namespace Ldap3V.Codecs
open Ldap3V Ldap3V.Spec

/-! ### whole-value parsing -/

theorem parseTag_enc (t : Tlv) (bs : Bytes) (h : Enc t bs) (hd : t.depth ≤ maxDepth)
    (hl : bs.length < 18446744073709551616) : parseTag bs = .ok t [] := by
  have := pTag_enc t bs (bs.length + 1) 0 [] h hl (by omega) (by omega)
  simpa [parseTag] using this

theorem parseTag_encode (t : Tlv) (h : WF t) (hd : t.depth ≤ maxDepth)
    (hl : (encode t).length < 18446744073709551616) : parseTag (encode t) = .ok t [] :=
  parseTag_enc t _ (enc_encode t h) hd hl

theorem ber_enc (t : Tlv) (bs : Bytes) (h : Enc t bs) (hd : t.depth ≤ maxDepth)
    (hl : bs.length < 18446744073709551616) : Spec.ber bs = some t := by
  simp [Spec.ber, parseTag_enc t bs h hd hl]

/-! ### well-formedness from tag shape and total length -/

mutual
/-- classes 0..3 and low tag numbers throughout -/
def Low : Tlv → Prop
  | .prim c i _ => c < 4 ∧ i ≤ 30
  | .cons c i ks => c < 4 ∧ i ≤ 30 ∧ LowList ks
def LowList : List Tlv → Prop
  | [] => True
  | t :: ts => Low t ∧ LowList ts
end

mutual
theorem wf_of_low : (t : Tlv) → Low t → (encode t).length < 18446744073709551616 → WF t
  | .prim c i v, h, hl => by
    obtain ⟨hc, hi⟩ := h
    simp only [encode, List.length_append] at hl
    exact ⟨hc, hi, by omega⟩
  | .cons c i ks, h, hl => by
    obtain ⟨hc, hi, hk⟩ := h
    simp only [encode, List.length_append] at hl
    exact ⟨hc, hi, by omega, wfList_of_low ks hk (by omega)⟩
theorem wfList_of_low : (ks : List Tlv) → LowList ks →
    (encodeList ks).length < 18446744073709551616 → WFList ks
  | [], _, _ => trivial
  | t :: ts, h, hl => by
    simp only [encodeList, List.length_append] at hl
    exact ⟨wf_of_low t h.1 (by omega), wfList_of_low ts h.2 (by omega)⟩
end

/-- the emitted value of a low-tag tree of bounded depth reads back as that tree, and is one of
its definite-length encodings -/
theorem ber_encode (t : Tlv) (h : Low t) (hd : t.depth ≤ maxDepth)
    (hl : (encode t).length < 18446744073709551616) :
    Spec.ber (encode t) = some t ∧ Enc t (encode t) :=
  ⟨ber_enc t _ (enc_encode t (wf_of_low t h hl)) hd hl, enc_encode t (wf_of_low t h hl)⟩

/-! ### typed tags -/

theorem toTlvList_append (a b : List Tag) :
    Tag.toTlvList (a ++ b) = Tag.toTlvList a ++ Tag.toTlvList b := by
  induction a with
  | nil => simp [Tag.toTlvList]
  | cons x xs ih => simp [Tag.toTlvList, ih]

theorem toTlvList_octets (l : List Bytes) :
    Tag.toTlvList (l.map Tag.octets) = l.map fun a => Tlv.prim 0 4 a := by
  induction l with
  | nil => simp [Tag.toTlvList]
  | cons x xs ih => simp [Tag.toTlvList, Tag.toTlv, Tag.octets, ih]

theorem depthList_prims (l : List Bytes) (c i : Nat) :
    Tlv.depthList (l.map fun a => Tlv.prim c i a) = 0 := by
  induction l with
  | nil => simp [Tlv.depthList]
  | cons x xs ih => simp [Tlv.depthList, Tlv.depth, ih]

theorem lowList_prims (l : List Bytes) (c i : Nat) (hc : c < 4) (hi : i ≤ 30) :
    LowList (l.map fun a => Tlv.prim c i a) := by
  induction l with
  | nil => simp [LowList]
  | cons x xs ih => simp [LowList, Low, ih, hc, hi]

/-! ### integers -/

theorem minimalB_iff (bs : Bytes) : Spec.minimalB bs = true ↔ Minimal bs := by
  match bs with
  | [] => simp [Spec.minimalB, Minimal]
  | [_] => simp [Spec.minimalB, Minimal]
  | a :: b :: _ => simp [Spec.minimalB, Minimal]; omega

/-- the RFC reader of INTEGER contents inverts lber's integer writer on every `i64` -/
theorem intOf_intOctets (v : Int) (h1 : -9223372036854775808 ≤ v) (h2 : v < 9223372036854775808) :
    Spec.intOf (intOctets v) = some v := by
  obtain ⟨ht, hm, hne⟩ := int_main v h1 h2
  have hb : Spec.minimalB (intOctets v) = true := (minimalB_iff _).2 hm
  have he : (intOctets v).isEmpty = false := by
    cases h : intOctets v with
    | nil => exact absurd h hne
    | cons => rfl
  simp [Spec.intOf, hb, he, ht]

/-- non-negative two's complement octets are read back exactly by the unsigned `parse_uint` -/
theorem intEnc_parseUint (n : Int) (bs : Bytes) (h : Spec.IntEnc n bs) (h0 : 0 ≤ n)
    (h1 : n < 18446744073709551616) : ((parseUint bs : Nat) : Int) = n := by
  obtain ⟨hne, ht⟩ := h
  cases bs with
  | nil => exact absurd rfl hne
  | cons b r =>
    have hlt := beVal_lt (b :: r)
    have hlt' : ((beVal (b :: r) : Nat) : Int) < (256 : Int) ^ (b :: r).length := by
      have := Int.ofNat_lt.mpr hlt
      rw [Int.natCast_pow] at this
      exact this
    have ht' : (if b.toNat ≥ 128 then ((beVal (b :: r) : Nat) : Int) - (256 : Int) ^ (b :: r).length
        else ((beVal (b :: r) : Nat) : Int)) = n := ht
    clear ht
    split at ht'
    · omega
    · rw [parseUint_eq]
      generalize beVal (b :: r) = m at *
      have e1 : m % 18446744073709551616 = m := Nat.mod_eq_of_lt (by omega)
      rw [e1]; exact ht'

/-- a non-negative value below 2^31 is read back exactly by `parse_uint(..) as i32`, whatever
(two's complement) octets carry it -/
theorem intEnc_parse (n : Int) (bs : Bytes) (h : Spec.IntEnc n bs) (h0 : 0 ≤ n)
    (h1 : n < 2147483648) : asI32 (parseUint bs) = n := by
  have := intEnc_parseUint n bs h h0 (by omega)
  generalize parseUint bs = m at *
  have hm : m < 2147483648 := by omega
  have e2 : m % 4294967296 = m := Nat.mod_eq_of_lt (by omega)
  simp only [asI32, e2, hm, if_true]
  omega

theorem intEnc_intOctets (v : Int) (h1 : -9223372036854775808 ≤ v) (h2 : v < 9223372036854775808) :
    Spec.IntEnc v (intOctets v) := by
  obtain ⟨ht, _, hne⟩ := int_main v h1 h2
  exact ⟨hne, ht⟩

end Ldap3V.Codecs

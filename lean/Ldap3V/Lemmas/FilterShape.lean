/- Shape of what the filter parsers (`Filter.parseCore`, `Filter.parseMatchedValues`) put out, for EVERY
accepted string: tag classes / numbers (`lowTags`, the root is a context tag 0..9, the matched-values
items are SimpleFilterItems), total encoded size against the length of the string (hence `WF`), and
the depth of the tree against the parenthesis nesting of the string.

Everything goes through soundness (`parse_sound`: an accepted string is in the grammar `GLib` and the
tag built is `toTlv` of the tree it denotes), so the work is a set of facts about `Spec.Filter.toTlv`
and inductions over the grammar. -/
import Ldap3V.Lemmas.FilterInv
import Ldap3V.Lemmas.RequestsBytes
import Ldap3V.Lemmas.BerMinimal
import Ldap3V.Spec.Codecs
namespace Ldap3V.Filter
open Ldap3V.Spec.Filter
open Ldap3V.Spec (Filter lowTags lowTagsList WF WFList)

/-! ## tag classes and numbers -/

theorem lowTagsList_append (a b : List Tlv) : lowTagsList (a ++ b) = (lowTagsList a && lowTagsList b) := by
  induction a with
  | nil => simp [lowTagsList]
  | cons x a ih => simp [lowTagsList, ih, Bool.and_assoc]

theorem low_optPrim (id : Nat) (o : Option Bytes) (h : id ≤ 30) : lowTagsList (optPrim id o) = true := by
  cases o <;> simp [optPrim, lowTagsList, lowTags, h]

mutual
theorem low_toTlv : (f : Filter) → lowTags (toTlv f) = true
  | .and fs => by simp [toTlv, lowTags, low_toTlvList fs]
  | .or fs => by simp [toTlv, lowTags, low_toTlvList fs]
  | .not f => by simp [toTlv, lowTags, lowTagsList, low_toTlv f]
  | .eq a v => by simp [toTlv, avaKids, lowTags, lowTagsList]
  | .ge a v => by simp [toTlv, avaKids, lowTags, lowTagsList]
  | .le a v => by simp [toTlv, avaKids, lowTags, lowTagsList]
  | .approx a v => by simp [toTlv, avaKids, lowTags, lowTagsList]
  | .present a => by simp [toTlv, lowTags]
  | .substr a ini any fin => by
    simp [toTlv, lowTags, lowTagsList, lowTagsList_append, low_optPrim,
      lowTagsList_map (Tlv.prim 2 1) any (fun x => by simp [lowTags])]
  | .ext rule attr v dn => by
    cases dn <;> simp [toTlv, lowTags, lowTagsList, lowTagsList_append, low_optPrim]
theorem low_toTlvList : (fs : List Filter) → lowTagsList (toTlvList fs) = true
  | [] => by simp [toTlvList, lowTagsList]
  | f :: fs => by simp [toTlvList, lowTagsList, low_toTlv f, low_toTlvList fs]
end

/-- the root is one of the alternatives of the RFC 4511 `Filter` CHOICE: context class, tag 0..9 -/
theorem root_toTlv (f : Filter) : (toTlv f).cls = 2 ∧ (toTlv f).id ≤ 9 := by
  cases f <;> simp [toTlv, Tlv.cls, Tlv.id]

/-- not `and` / `or` / `not` -/
def isItem : Filter → Bool
  | .and _ => false
  | .or _ => false
  | .not _ => false
  | _ => true

theorem isItem_of_GItem {d : Dialect} {f : Filter} {b : Bytes} (h : GItem d f b) : isItem f = true := by
  cases h <;> rfl

/-- an item is one of the alternatives of RFC 3876 `SimpleFilterItem`: context class, tag 3..9 -/
theorem simple_of_item (f : Filter) (h : isItem f = true) : Codecs.Spec.isSimpleItem (toTlv f) = true := by
  cases f <;> simp [isItem] at h <;> simp [toTlv, Codecs.Spec.isSimpleItem, Tlv.cls, Tlv.id]

/-! ## encoded size

`sz t`: ten octets of header for every node (one identifier octet, at most nine length octets while
lengths are below 2^64) plus the content octets of the primitives. -/

mutual
def sz : Tlv → Nat
  | .prim _ _ v => 10 + v.length
  | .cons _ _ ks => 10 + szList ks
def szList : List Tlv → Nat
  | [] => 0
  | t :: ts => sz t + szList ts
end

theorem szList_append (a b : List Tlv) : szList (a ++ b) = szList a + szList b := by
  induction a with
  | nil => simp [szList]
  | cons x a ih => simp [szList, ih]; omega

theorem encLen_length_le (n : Nat) (h : n < 18446744073709551616) : (encLen n).length ≤ 9 := by
  unfold encLen
  split
  · simp
  · have := be256_length_le 7 n (by simpa using h)
    simp; omega

mutual
theorem encode_length_le : (t : Tlv) → lowTags t = true → sz t < 18446744073709551616 →
    (encode t).length ≤ sz t
  | .prim c i v, h, hs => by
    simp [lowTags] at h
    simp only [sz] at hs
    have := encLen_length_le v.length (by omega)
    simp [encode, encType_low c false i h.2, sz]; omega
  | .cons c i ks, h, hs => by
    simp [lowTags] at h
    simp only [sz] at hs
    have hk := encodeList_length_le ks h.2 (by omega)
    have := encLen_length_le (encodeList ks).length (by omega)
    simp [encode, encType_low c true i h.1.2, sz]; omega
theorem encodeList_length_le : (ks : List Tlv) → lowTagsList ks = true → szList ks < 18446744073709551616 →
    (encodeList ks).length ≤ szList ks
  | [], _, _ => by simp [encodeList, szList]
  | t :: ts, h, hs => by
    simp [lowTagsList] at h
    simp only [szList] at hs
    have h1 := encode_length_le t h.1 (by omega)
    have h2 := encodeList_length_le ts h.2 (by omega)
    simp [encodeList, szList]; omega
end

/-- low tags and a size below 2^64: the writer can represent the tree and the parser reads it back -/
theorem wf_of_sz (t : Tlv) (h : lowTags t = true) (hs : sz t < 18446744073709551616) : WF t :=
  wf_of_low t h (by have := encode_length_le t h hs; omega)

/-! ### size of `toTlv f` against the length of a string denoting `f` -/

theorem rval_length {v s : Bytes} (h : RVal v s) : v.length ≤ s.length := by
  induction h with
  | nil => simp
  | lit _ _ ih => simp; omega
  | esc _ _ _ ih => simp; omega

theorem sz_optPrim_ropt (id : Nat) {o : Option Bytes} {s : Bytes} (h : ROpt o s) :
    szList (optPrim id o) ≤ 11 * s.length := by
  cases h with
  | none => simp [optPrim, szList]
  | @some v s hne hv =>
    have := rval_length hv
    have : 1 ≤ v.length := List.length_pos_iff.mpr hne
    simp [optPrim, szList, sz]; omega

theorem sz_any {vs : List Bytes} {s : Bytes} (h : RAny vs s) :
    szList (vs.map (Tlv.prim 2 1)) ≤ 11 * s.length := by
  induction h with
  | nil => simp [szList]
  | @cons v s vs ss hne hv _ ih =>
    have := rval_length hv
    have : 1 ≤ v.length := List.length_pos_iff.mpr hne
    simp [szList, sz] at ih ⊢; omega

theorem sz_item {d : Dialect} {f : Filter} {b : Bytes} (h : GItem d f b) :
    sz (toTlv f) ≤ 11 * b.length + 51 := by
  cases h with
  | eq ha hv => have := rval_length hv; simp [toTlv, avaKids, sz, szList]; omega
  | ge ha hv => have := rval_length hv; simp [toTlv, avaKids, sz, szList]; omega
  | le ha hv => have := rval_length hv; simp [toTlv, avaKids, sz, szList]; omega
  | approx ha hv => have := rval_length hv; simp [toTlv, avaKids, sz, szList]; omega
  | present ha => simp [toTlv, sz]; omega
  | @substr a ini fin any si sa sf ha hi hy hf _ =>
    have h1 := sz_optPrim_ropt 0 hi
    have h2 := sz_any hy
    have h3 := sz_optPrim_ropt 2 hf
    simp [toTlv, sz, szList, szList_append]; omega
  | @extAttr a v sv kw rule dn ha hk ho _ hv =>
    have := rval_length hv
    cases rule <;> cases dn <;> simp [toTlv, sz, szList, optPrim, optStr] <;> omega
  | @extRule r v sv kw dn hm hk hv =>
    have := rval_length hv
    cases dn <;> simp [toTlv, sz, szList, optPrim] <;> omega

theorem sz_G {f : Filter} {s : Bytes} (h : G .lib f s) : sz (toTlv f) ≤ 32 * s.length :=
  (G_rec (d := .lib) (P := fun f s => sz (toTlv f) ≤ 32 * s.length)
    (PL := fun fs s => szList (toTlvList fs) ≤ 32 * s.length)
    (fun fs b hb => by simp [toTlv, sz] at hb ⊢; omega)
    (fun fs b hb => by simp [toTlv, sz] at hb ⊢; omega)
    (fun f b hb => by simp [toTlv, sz, szList] at hb ⊢; omega)
    (fun f b hb => by have := sz_item hb; simp; omega)
    (by simp [toTlvList, szList])
    (fun f fs a b ha hb => by simp [toTlvList, szList] at ha hb ⊢; omega)).1 f s h

theorem sz_GLib {f : Filter} {s : Bytes} (h : GLib f s) : sz (toTlv f) ≤ 32 * s.length + 51 := by
  rcases h with h | h
  · have := sz_G h; omega
  · have := sz_item h; omega

/-! ## depth of the tree against the parenthesis nesting of the string -/

/-- parenthesis depth after reading `c` at depth `d` -/
def nestStep (d : Nat) (c : UInt8) : Nat := if c = 0x28 then d + 1 else if c = 0x29 then d - 1 else d

/-- `nest d s`: the greatest parenthesis depth reached while reading `s` from depth `d`
(`nest 0 s` is the nesting depth of the filter string `s`: `(a=b)` has 1, `(&(a=b)(!(c=d)))` has 3, the
bare item `a=b` has 0; every `(` `)` octet of a string of the language is structure) -/
def nest : Nat → Bytes → Nat
  | d, [] => d
  | d, c :: r => max d (nest (nestStep d c) r)

theorem le_nest (d : Nat) (s : Bytes) : d ≤ nest d s := by
  cases s with
  | nil => simp [nest]
  | cons c r => simp only [nest]; omega

theorem nest_plain {b : Bytes} (hb : b.all plain = true) (d : Nat) (r : Bytes) : nest d (b ++ r) = nest d r := by
  induction b with
  | nil => rfl
  | cons c b ih =>
    simp only [List.all_cons, Bool.and_eq_true] at hb
    have hc : c ≠ 0x28 ∧ c ≠ 0x29 := by
      have := hb.1; simp [plain] at this; exact ⟨this.1.2, this.2⟩
    have := le_nest d r
    rw [List.cons_append]
    simp only [nest, nestStep, hc.1, hc.2, if_false, ih hb.2]
    omega

/-! nesting depth of the tree: a parenthesised item has 1 -/
mutual
def fdepth : Filter → Nat
  | .and fs => 1 + fdepthList fs
  | .or fs => 1 + fdepthList fs
  | .not f => 1 + fdepth f
  | _ => 1
def fdepthList : List Filter → Nat
  | [] => 0
  | f :: fs => max (fdepth f) (fdepthList fs)
end

theorem fdepth_item {f : Filter} (h : isItem f = true) : fdepth f = 1 := by
  cases f <;> simp [isItem] at h <;> simp [fdepth]

theorem nest_G {f : Filter} {s : Bytes} (h : G .lib f s) :
    ∀ d r, nest d (s ++ r) = max (d + fdepth f) (nest d r) :=
  (G_rec (d := .lib) (P := fun f s => ∀ d r, nest d (s ++ r) = max (d + fdepth f) (nest d r))
    (PL := fun fs s => ∀ d r, nest d (s ++ r) = max (d + fdepthList fs) (nest d r))
    (fun fs b hb d r => by
      have e : 0x28 :: 0x26 :: (b ++ [0x29]) ++ r = 0x28 :: 0x26 :: (b ++ (0x29 :: r)) := by simp
      have := le_nest d r
      rw [e]
      simp only [nest, nestStep, hb, fdepth]
      simp; omega)
    (fun fs b hb d r => by
      have e : 0x28 :: 0x7C :: (b ++ [0x29]) ++ r = 0x28 :: 0x7C :: (b ++ (0x29 :: r)) := by simp
      have := le_nest d r
      rw [e]
      simp only [nest, nestStep, hb, fdepth]
      simp; omega)
    (fun f b hb d r => by
      have e : 0x28 :: 0x21 :: (b ++ [0x29]) ++ r = 0x28 :: 0x21 :: (b ++ (0x29 :: r)) := by simp
      have := le_nest d r
      rw [e]
      simp only [nest, nestStep, hb, fdepth]
      simp; omega)
    (fun f b hb d r => by
      have e : 0x28 :: (b ++ [0x29]) ++ r = 0x28 :: (b ++ (0x29 :: r)) := by simp
      have := le_nest d r
      rw [e, fdepth_item (isItem_of_GItem hb)]
      simp only [nest, nestStep, nest_plain (item_plain hb)]
      simp; omega)
    (fun d r => by have := le_nest d r; simp [fdepthList]; omega)
    (fun f fs a b ha hb d r => by
      rw [List.append_assoc, ha, hb]
      simp only [fdepthList]; omega)).1 f s h

theorem nest_GLib {f : Filter} {s : Bytes} (h : GLib f s) :
    (G .lib f s ∧ nest 0 s = fdepth f) ∨ (isItem f = true ∧ nest 0 s = 0) := by
  rcases h with h | h
  · left
    have := nest_G h 0 []
    simp [nest] at this
    exact ⟨h, this⟩
  · right
    have := nest_plain (item_plain h) 0 []
    simp [nest] at this
    exact ⟨isItem_of_GItem h, this⟩

theorem depthList_optPrim (id : Nat) (o : Option Bytes) : Tlv.depthList (optPrim id o) = 0 := by
  cases o <;> simp [optPrim, Tlv.depthList, Tlv.depth]

theorem depthList_append (a b : List Tlv) : Tlv.depthList (a ++ b) = max (Tlv.depthList a) (Tlv.depthList b) := by
  induction a with
  | nil => simp [Tlv.depthList]
  | cons x a ih => simp only [List.cons_append, Tlv.depthList, ih]; omega

theorem depthList_any (vs : List Bytes) : Tlv.depthList (vs.map (Tlv.prim 2 1)) = 0 := by
  have := depthList_map_le (Tlv.prim 2 1) vs 0 (by intro x; simp [Tlv.depth])
  omega

/-- an item is at most two constructed levels deep (the substring filter) -/
theorem depth_item (f : Filter) (h : isItem f = true) : (toTlv f).depth ≤ 2 := by
  cases f with
  | and fs => simp [isItem] at h
  | or fs => simp [isItem] at h
  | not f => simp [isItem] at h
  | eq a v => simp [toTlv, avaKids, Tlv.depth, Tlv.depthList]
  | ge a v => simp [toTlv, avaKids, Tlv.depth, Tlv.depthList]
  | le a v => simp [toTlv, avaKids, Tlv.depth, Tlv.depthList]
  | approx a v => simp [toTlv, avaKids, Tlv.depth, Tlv.depthList]
  | present a => simp [toTlv, Tlv.depth]
  | substr a ini any fin =>
    simp [toTlv, Tlv.depth, Tlv.depthList, depthList_append, depthList_optPrim, depthList_any]
  | ext rule attr v dn =>
    cases dn <;> simp [toTlv, Tlv.depth, Tlv.depthList, depthList_append, depthList_optPrim]

mutual
theorem depth_toTlv : (f : Filter) → (toTlv f).depth ≤ fdepth f + 1 ∧ fdepth f ≤ (toTlv f).depth + 1
  | .and fs => by have := depthList_toTlvList fs; simp only [toTlv, Tlv.depth, fdepth]; omega
  | .or fs => by have := depthList_toTlvList fs; simp only [toTlv, Tlv.depth, fdepth]; omega
  | .not f => by have := depth_toTlv f; simp only [toTlv, Tlv.depth, Tlv.depthList, fdepth]; omega
  | .eq a v => by have := depth_item (.eq a v) rfl; simp only [fdepth]; omega
  | .ge a v => by have := depth_item (.ge a v) rfl; simp only [fdepth]; omega
  | .le a v => by have := depth_item (.le a v) rfl; simp only [fdepth]; omega
  | .approx a v => by have := depth_item (.approx a v) rfl; simp only [fdepth]; omega
  | .present a => by have := depth_item (.present a) rfl; simp only [fdepth]; omega
  | .substr a i y z => by have := depth_item (.substr a i y z) rfl; simp only [fdepth]; omega
  | .ext r a v n => by have := depth_item (.ext r a v n) rfl; simp only [fdepth]; omega
theorem depthList_toTlvList : (fs : List Filter) →
    Tlv.depthList (toTlvList fs) ≤ fdepthList fs + 1 ∧ fdepthList fs ≤ Tlv.depthList (toTlvList fs) + 1
  | [] => by simp [toTlvList, Tlv.depthList, fdepthList]
  | f :: fs => by
    have := depth_toTlv f
    have := depthList_toTlvList fs
    simp only [toTlvList, Tlv.depthList, fdepthList]; omega
end

/-- the depth of the tree is the nesting depth of the string, within -1 (`(a=*)`: a primitive) and
+2 (the bare `a=*b*`: two constructed levels without a parenthesis) -/
theorem depth_GLib {f : Filter} {s : Bytes} (h : GLib f s) :
    (toTlv f).depth ≤ nest 0 s + 2 ∧ nest 0 s ≤ (toTlv f).depth + 1 ∧
    (s.head? = some 0x28 → (toTlv f).depth ≤ nest 0 s + 1) := by
  have hd := depth_toTlv f
  rcases h with h | h
  · have hn := nest_G h 0 []
    simp [nest] at hn
    refine ⟨by omega, by omega, fun _ => by omega⟩
  · have hn := nest_plain (item_plain h) 0 []
    simp [nest] at hn
    have := depth_item f (isItem_of_GItem h)
    refine ⟨by omega, by omega, ?_⟩
    intro hh
    obtain ⟨c, x, rfl, hc⟩ := item_head h
    simp at hh; subst hh
    exact absurd hc (by decide)

/-! ## the entry point `parse` -/

/-- everything about the shape of an accepted filter, from soundness -/
theorem parse_shape {s : Bytes} {t : Tag} (h : parseCore s = some t) :
    lowTags t.toTlv = true ∧ (t.toTlv.cls = 2 ∧ t.toTlv.id ≤ 9) ∧
    t.toTlv.depth ≤ nest 0 s + 2 ∧ nest 0 s ≤ t.toTlv.depth + 1 ∧
    (s.head? = some 0x28 → t.toTlv.depth ≤ nest 0 s + 1) ∧
    sz t.toTlv ≤ 32 * s.length + 51 := by
  obtain ⟨f, hg, ht⟩ := parse_sound ((parse_some_iff s t).mp h)
  rw [ht]
  have hd := depth_GLib hg
  exact ⟨low_toTlv f, root_toTlv f, hd.1, hd.2.1, hd.2.2, sz_GLib hg⟩

/-- under the size bound the tree is one the writer can represent (`WF`) -/
theorem parse_wf {s : Bytes} {t : Tag} (h : parseCore s = some t) (hl : s.length < 288230376151711744) :
    WF t.toTlv ∧ (encode t.toTlv).length ≤ 32 * s.length + 51 := by
  obtain ⟨hlow, _, _, _, _, hsz⟩ := parse_shape h
  have hs : sz t.toTlv < 18446744073709551616 := by omega
  exact ⟨wf_of_sz _ hlow hs, by have := encode_length_le _ hlow hs; omega⟩

/-! ## the entry point `parseMatchedValues` -/

theorem parseMvO_ok {i : Bytes} {t : Tag} (h : parseMvO i = .ok t) : mvFiltexpr i = .ok t [] := by
  unfold parseMvO finish at h
  cases hf : mvFiltexpr i with
  | ok t' rest =>
    rw [hf] at h
    cases rest with
    | nil => simp at h; rw [h]
    | cons c x => simp at h
  | err => rw [hf] at h; cases h
  | panic => rw [hf] at h; cases h

theorem parseMv_some_iff (s : Bytes) (t : Tag) : parseMatchedValues s = some t ↔ parseMvO s = .ok t := by
  unfold parseMatchedValues
  cases h : parseMvO s <;> simp [Outcome.toOption]

theorem many1_ok {α : Type} {p : P α} {i : Bytes} {os : List α} {r : Bytes} (h : many1 p i = .ok os r) :
    ∃ o i1 os', os = o :: os' ∧ p i = .ok o i1 ∧ many0Go p (i1.length + 1) i1 = .ok os' r := by
  unfold many1 at h
  cases h1 : p i with
  | err => rw [h1] at h; cases h
  | panic => rw [h1] at h; cases h
  | ok o i1 =>
    rw [h1] at h
    simp only [] at h
    cases h2 : many0Go p (i1.length + 1) i1 with
    | ok os' r' => rw [h2] at h; cases h; exact ⟨o, i1, os', rfl, rfl, h2⟩
    | err => rw [h2] at h; cases h
    | panic => rw [h2] at h; cases h

/-- element relation of the matched-values list: a parenthesised item -/
def MvR (t : Tag) (s : Bytes) : Prop :=
  ∃ f b, s = 0x28 :: (b ++ [0x29]) ∧ GItem .lib f b ∧ t.toTlv = toTlv f

theorem mvItem_sound (i : Bytes) (o : Tag) (r : Bytes)
    (h : delimited (tag [0x28]) item (tag [0x29]) i = .ok o r) : ∃ s, i = s ++ r ∧ MvR o s := by
  obtain ⟨_, i1, i2, _, h1, h2, h3⟩ := delimited_ok h
  obtain ⟨_, e1⟩ := tag_ok h1
  obtain ⟨_, e3⟩ := tag_ok h3
  obtain ⟨f, b, e2, hg, ht⟩ := item_sound h2
  exact ⟨0x28 :: (b ++ [0x29]), by rw [e1, e2, e3]; simp, f, b, rfl, hg, ht⟩

/-- what a list of parenthesised items looks like -/
theorem many_mv {ts : List Tag} {b : Bytes} (h : Many MvR ts b) :
    (Tag.toTlvList ts).all Codecs.Spec.isSimpleItem = true ∧ lowTagsList (Tag.toTlvList ts) = true ∧
    Tlv.depthList (Tag.toTlvList ts) ≤ 2 ∧ szList (Tag.toTlvList ts) ≤ 32 * b.length := by
  induction h with
  | nil => simp [Tag.toTlvList, lowTagsList, Tlv.depthList, szList]
  | @cons t s ts b hr _ ih =>
    obtain ⟨f, x, rfl, hg, ht⟩ := hr
    have hi := isItem_of_GItem hg
    have h1 := simple_of_item f hi
    have h2 := low_toTlv f
    have h3 := depth_item f hi
    have h4 := sz_item hg
    obtain ⟨i1, i2, i3, i4⟩ := ih
    refine ⟨?_, ?_, ?_, ?_⟩
    · simp [Tag.toTlvList, ht, h1, i1]
    · simp [Tag.toTlvList, lowTagsList, ht, h2, i2]
    · simp only [Tag.toTlvList, Tlv.depthList, ht]; omega
    · simp [Tag.toTlvList, szList, ht] at i4 ⊢; omega

/-- the matched-values parser builds a universal SEQUENCE of at least one SimpleFilterItem -/
theorem parseMv_shape {s : Bytes} {t : Tag} (h : parseMatchedValues s = some t) :
    ∃ ks, t.toTlv = .cons 0 16 ks ∧ ks ≠ [] ∧ ks.all Codecs.Spec.isSimpleItem = true ∧
      lowTags t.toTlv = true ∧ t.toTlv.depth ≤ 3 ∧ sz t.toTlv ≤ 32 * s.length := by
  have h := parseMvO_ok ((parseMv_some_iff s t).mp h)
  unfold mvFiltexpr at h
  obtain ⟨_, i1, i2, _, h1, h2, h3⟩ := delimited_ok h
  obtain ⟨_, e1⟩ := tag_ok h1
  obtain ⟨_, e3⟩ := tag_ok h3
  unfold mvFilterlist at h2
  obtain ⟨ts, hp, rfl⟩ := mapP_ok h2
  unfold mvFilteritems at hp
  obtain ⟨o, j, os, rfl, hp1, hp2⟩ := many1_ok hp
  obtain ⟨s1, es1, hr1⟩ := mvItem_sound _ _ _ hp1
  obtain ⟨b, eb, hm, _⟩ := many0Go_sound mvItem_sound _ _ _ _ hp2
  have hall := many_mv (Many.cons hr1 hm)
  obtain ⟨a1, a2, a3, a4⟩ := hall
  have es : s = 0x28 :: ((s1 ++ b) ++ [0x29]) := by rw [e1, es1, eb, e3]; simp
  have hne : Tag.toTlvList (o :: os) ≠ [] := by simp [Tag.toTlvList]
  rw [toTlv_seq]
  generalize Tag.toTlvList (o :: os) = ks at *
  refine ⟨ks, rfl, hne, a1, ?_, ?_, ?_⟩
  · simp [lowTags, a2]
  · simp only [Tlv.depth]; omega
  · rw [es]; simp [sz] at a4 ⊢; omega

theorem parseMv_wf {s : Bytes} {t : Tag} (h : parseMatchedValues s = some t)
    (hl : s.length < 288230376151711744) :
    WF t.toTlv ∧ (encode t.toTlv).length ≤ 32 * s.length := by
  obtain ⟨_, _, _, _, hlow, _, hsz⟩ := parseMv_shape h
  have hs : sz t.toTlv < 18446744073709551616 := by omega
  exact ⟨wf_of_sz _ hlow hs, by have := encode_length_le _ hlow hs; omega⟩

/-! ## filters of any depth are accepted; beyond the parser's limit they are written but not read back -/

def notN : Nat → Filter → Filter
  | 0, f => f
  | n + 1, f => .not (notN n f)

/-- `(!(!…s…))`, `n` negations -/
def notStr : Nat → Bytes → Bytes
  | 0, s => s
  | n + 1, s => 0x28 :: 0x21 :: (notStr n s ++ [0x29])

theorem G_notN (n : Nat) {f : Filter} {s : Bytes} (h : G .lib f s) : G .lib (notN n f) (notStr n s) := by
  induction n with
  | zero => exact h
  | succ n ih => simp only [notN, notStr, G]; exact ⟨_, ih, rfl⟩

theorem depth_notN (n : Nat) (f : Filter) : (toTlv (notN n f)).depth = n + (toTlv f).depth := by
  induction n with
  | zero => simp [notN]
  | succ n ih => simp only [notN, toTlv, Tlv.depth, Tlv.depthList, ih]; omega

theorem G_aEqB : G .lib (.eq [0x61] [0x62]) [0x28, 0x61, 0x3D, 0x62, 0x29] := by
  simp only [G]
  exact ⟨_, GItem.eq ⟨[0x61], [], Or.inl (by decide), by simp, rfl⟩ (.lit (by decide) .nil), rfl⟩

theorem fdepth_notN (n : Nat) (f : Filter) : fdepth (notN n f) = n + fdepth f := by
  induction n with
  | zero => simp [notN]
  | succ n ih => simp only [notN, fdepth, ih]; omega

theorem nest_notStr (n : Nat) : nest 0 (notStr n [0x28, 0x61, 0x3D, 0x62, 0x29]) = n + 1 := by
  have := nest_G (G_notN n G_aEqB) 0 []
  simp [nest, fdepth_notN, fdepth] at this
  exact this

theorem length_notStr (n : Nat) (s : Bytes) : (notStr n s).length = 3 * n + s.length := by
  induction n with
  | zero => simp [notStr]
  | succ n ih => simp [notStr, ih]; omega

/-- `(a=b)` under `n` negations is accepted, for every `n`, and the tree is `n + 1` levels deep -/
theorem parse_notN (n : Nat) : ∃ t, parseCore (notStr n [0x28, 0x61, 0x3D, 0x62, 0x29]) = some t ∧
    t.toTlv = toTlv (notN n (.eq [0x61] [0x62])) ∧ t.toTlv.depth = n + 1 := by
  obtain ⟨t, hp, ht⟩ := parse_complete (Or.inl (G_notN n G_aEqB))
  refine ⟨t, (parse_some_iff _ t).mpr hp, ht, ?_⟩
  rw [ht, depth_notN]
  simp [toTlv, avaKids, Tlv.depth, Tlv.depthList]

/-- an accepted filter whose string nests deeper than `maxDepth + 1` has a BER encoding, which the
writer produces, and lber's parser refuses it -/
theorem deep_not_read_back {s : Bytes} {t : Tag} (h : parseCore s = some t) (hn : maxDepth + 1 < nest 0 s)
    (hl : s.length < 288230376151711744) (rest : Bytes)
    (hr : (encode t.toTlv ++ rest).length < 18446744073709551616) :
    Ldap3V.Spec.Enc t.toTlv (encode t.toTlv) ∧ parseTag (encode t.toTlv ++ rest) = .error := by
  have hs := parse_shape h
  have hw := (parse_wf h hl).1
  have he := enc_encode _ hw
  exact ⟨he, parseTag_too_deep _ _ rest he (by omega) hr⟩

end Ldap3V.Filter

/-! ## a search request around a filter that is too deep -/

namespace Ldap3V
open Spec

theorem low_search_msgTree (id : Nat) (base : Bytes) (scope : Scope) (deref : Deref) (sl tl : Int) (to : Bool)
    (f : Tlv) (attrs : List Bytes) (cs : Option (List RawControl)) (hf : lowTags f = true) :
    lowTags (msgTree id (.search base scope deref sl tl to f attrs) cs) = true := by
  have h : lowTags (build (.search base scope deref sl tl to f attrs)).toTlv = true := by
    simp [build, lowTags, lowTagsList, toTlvList_map, hf,
      lowTagsList_map (fun v => Tlv.prim 0 4 v) attrs (fun x => by simp [lowTags])]
  cases cs with
  | none => simp [msgTree, lowTags, lowTagsList, h]
  | some cs => simp [msgTree, lowTags, lowTagsList, h, lowTagsList_map buildControl cs low_buildControl]

theorem depth_search_msgTree (id : Nat) (base : Bytes) (scope : Scope) (deref : Deref) (sl tl : Int) (to : Bool)
    (f : Tlv) (attrs : List Bytes) (cs : Option (List RawControl)) :
    f.depth + 2 ≤ (msgTree id (.search base scope deref sl tl to f attrs) cs).depth := by
  have hb : f.depth + 1 ≤ (build (.search base scope deref sl tl to f attrs)).toTlv.depth := by
    simp only [build, toTlv_sequence, toTlvList_cons, toTlvList_nil, toTlv_octets, toTlv_enum, toTlv_int, toTlv_bool,
      toTlv_structure, toTlv_seq, toTlvList_map, Tlv.depth, Tlv.depthList]
    omega
  cases cs with
  | none =>
    simp only [msgTree, List.append_nil, toTlv_seq, toTlvList_cons, toTlvList_nil, toTlv_int, Tlv.depth, Tlv.depthList]
    omega
  | some cs =>
    simp only [msgTree, List.cons_append, List.nil_append, toTlv_seq, toTlvList_cons, toTlvList_nil, toTlv_int,
      toTlv_structure, Tlv.depth, Tlv.depthList]
    omega

/-- a SearchRequest whose filter element is more than 62 levels deep is written, and lber's parser
refuses the message -/
theorem search_deep_not_read_back (id : Nat) (base : Bytes) (scope : Scope) (deref : Deref) (sl tl : Int)
    (to : Bool) (f : Tlv) (attrs : List Bytes) (cs : Option (List RawControl)) (hf : lowTags f = true)
    (hd : 62 < f.depth)
    (hl : (encodeMsg (id : Int) (build (.search base scope deref sl tl to f attrs)) cs).length < 18446744073709551616) :
    parseTag (encodeMsg (id : Int) (build (.search base scope deref sl tl to f attrs)) cs) = .error := by
  rw [encodeMsg_eq] at hl ⊢
  have hw := wf_of_low _ (low_search_msgTree id base scope deref sl tl to f attrs cs hf) hl
  have hdep := depth_search_msgTree id base scope deref sl tl to f attrs cs
  have := parseTag_too_deep _ _ [] (enc_encode _ hw) (by simp only [maxDepth]; omega) (by simpa using hl)
  simpa using this

end Ldap3V

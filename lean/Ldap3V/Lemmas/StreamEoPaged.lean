/-
Chain `[EntriesOnly, PagedResults]`: `EntriesOnly::next` looping over the paging level.
-/
import Ldap3V.Lemmas.StreamPagedSim
namespace Ldap3V.Stream
open Spec

theorem eoSteps_nil (g : List Bytes) (e : End) : eoSteps g [] e = ⟨[], e.addGain g⟩ := rfl

theorem eoSteps_entry (g : List Bytes) (st : Step) (tl : List Step) (e : End) (hk : st.item.kind = .entry) :
    eoSteps g (st :: tl) e = ⟨⟨g ++ st.gain, st.item⟩ :: (eoSteps [] tl e).steps, (eoSteps [] tl e).ending⟩ := by
  simp [eoSteps, hk]

theorem eoSteps_inter (g : List Bytes) (st : Step) (tl : List Step) (e : End) (hk : st.item.kind = .inter) :
    eoSteps g (st :: tl) e = eoSteps (g ++ st.gain) tl e := by
  simp [eoSteps, hk]

theorem eoSteps_ref (g : List Bytes) (st : Step) (tl : List Step) (e : End) (us : List Bytes)
    (hk : st.item.kind = .ref) (hu : st.item.uris = some us) :
    eoSteps g (st :: tl) e = eoSteps (g ++ st.gain ++ us) tl e := by
  simp [eoSteps, hk, hu]

theorem eoSteps_badref (g : List Bytes) (st : Step) (tl : List Step) (e : End)
    (hk : st.item.kind = .ref) (hu : st.item.uris = none) :
    eoSteps g (st :: tl) e = ⟨[], .panic⟩ := by
  simp [eoSteps, hk, hu]

section
variable (size : Int) (sv : Saved) (cs : List RCtl) (hsv : sv.h.ctrls = some cs) (hq : sv.q.filterOk = true)

/-- abstraction relation for `[EntriesOnly, PagedResults]` -/
structure RelEP (total : List Req) (m : M) (c : Cursor) : Prop where
  chain : m.chain = [.entriesOnly c.acc, .paged size (some sv)]
  state : m.s.state = c.state
  notFresh : c.state ≠ .fresh
  fin : c.state = .done → m.s.res = c.final
  live : c.state = .active → ∃ l, m.s.rx = some l ∧
    (eoSteps [] (pagedRaw l m.s.pages).steps (pagedRaw l m.s.pages).ending).steps = c.rest ∧
    (eoSteps [] (pagedRaw l m.s.pages).steps (pagedRaw l m.s.pages).ending).ending = c.ending ∧
    m.s.reqs ++ futureReqs (mkReq size sv cs) l m.s.pages = total
  reqsDone : c.state = .done → m.s.reqs = total

include hsv hq in
/-- one `EntriesOnly::next` over the paging level against one `next` of the cursor -/
theorem ep_loop_sim (total : List Req) : ∀ (steps : List Step) (l : List Recv) (ps : List Page) (g base : List Bytes)
    (f : Nat) (s : Stream) (c : Cursor),
    s.state = .active → s.rx = some l → s.pages = ps → (pagedRaw l ps).steps = steps → remaining s + 6 ≤ f →
    s.reqs ++ futureReqs (mkReq size sv cs) l ps = total →
    c.state = .active → c.acc = base →
    c.rest = (eoSteps g steps (pagedRaw l ps).ending).steps →
    c.ending = (eoSteps g steps (pagedRaw l ps).ending).ending →
    Output.item (eoLoop f (base ++ g) [.paged size (some sv)] s).2.2.2 = c.next.2 ∧
    ((eoLoop f (base ++ g) [.paged size (some sv)] s).2.2.2 ≠ .pending →
      (eoLoop f (base ++ g) [.paged size (some sv)] s).2.2.2 ≠ .panic →
      RelEP size sv cs total ⟨.entriesOnly (eoLoop f (base ++ g) [.paged size (some sv)] s).1 ::
          (eoLoop f (base ++ g) [.paged size (some sv)] s).2.1,
        post true (eoLoop f (base ++ g) [.paged size (some sv)] s).2.2.2
          (eoLoop f (base ++ g) [.paged size (some sv)] s).2.2.1⟩ c.next.1) := by
  intro steps
  induction steps with
  | nil =>
    intro l ps g base f s c hs hrx hps hsteps hf hreq hc hacc hrest hend
    obtain ⟨f1, rfl⟩ : ∃ f1, f = f1 + 1 + 1 := ⟨f - 2, by omega⟩
    have hpl : ps.length + 3 ≤ f1 := by have := pages_le_remaining s; rw [hps] at this; omega
    obtain ⟨k1, k2⟩ := pr_next size sv cs hsv hq total false s l ps f1 hs hrx hps hpl hreq
    rcases hn : next (f1 + 1) false [.paged size (some sv)] s with ⟨rest', s', r'⟩
    rw [hn] at k1 k2
    simp only at k1 k2
    subst k1
    rw [eoSteps_nil] at hrest hend
    simp only at hrest hend
    cases he : (pagedRaw l ps).ending with
    | done g0 r0 =>
      obtain ⟨h1, hg, h2, h3, h4⟩ := k2.done hsteps g0 r0 he
      subst h1
      rw [eoLoop_other hn (by simp)]
      rw [he] at hend
      simp only [Cursor.next, hc, hrest, hend, End.addGain, post, ne_eq, not_true_eq_false, if_false, if_true]
      refine ⟨trivial, fun _ _ => ⟨by simp [hacc, hg], rfl, by simp, fun _ => by simpa using h2, by simp, fun _ => by simpa using h3⟩⟩
    | fail g0 e0 =>
      obtain ⟨h1, hg, h2, h3⟩ := k2.fail hsteps g0 e0 he
      subst h1
      rw [eoLoop_other hn (by simp)]
      rw [he] at hend
      simp only [Cursor.next, hc, hrest, hend, End.addGain, post, ne_eq, not_true_eq_false, if_false]
      refine ⟨trivial, fun _ _ => ⟨by simp [hacc, hg], rfl, by simp, by simp, by simp, by simp⟩⟩
    | pending =>
      have h1 := k2.pending hsteps he
      subst h1
      rw [eoLoop_other hn (by simp)]
      rw [he] at hend
      simp [Cursor.next, hc, hrest, hend, End.addGain]
    | panic =>
      have h1 := k2.panic hsteps he
      subst h1
      rw [eoLoop_other hn (by simp)]
      rw [he] at hend
      simp [Cursor.next, hc, hrest, hend, End.addGain]
  | cons st tl ih =>
    intro l ps g base f s c hs hrx hps hsteps hf hreq hc hacc hrest hend
    obtain ⟨f1, rfl⟩ : ∃ f1, f = f1 + 1 + 1 := ⟨f - 2, by omega⟩
    have hpl : ps.length + 3 ≤ f1 := by have := pages_le_remaining s; rw [hps] at this; omega
    obtain ⟨k1, k2⟩ := pr_next size sv cs hsv hq total false s l ps f1 hs hrx hps hpl hreq
    rcases hn : next (f1 + 1) false [.paged size (some sv)] s with ⟨rest', s', r'⟩
    rw [hn] at k1 k2
    simp only at k1 k2
    subst k1
    obtain ⟨h1, hg, h2, l', ps', h3, h4, h5, h6, h7, h8⟩ := k2.item st tl hsteps
    subst h1
    rw [← h6] at hrest hend
    rcases kind_cases st.item.kind with hk | hk | hk
    · rw [eoLoop_entry hn hk]
      rw [eoSteps_entry _ _ _ _ hk] at hrest hend
      simp only [Cursor.next, hc, hrest, post, ne_eq, not_true_eq_false, if_false]
      refine ⟨trivial, fun _ _ => ⟨by simp [hacc, hg], h2, by simp, by simp, fun _ => ⟨l', h3, ?_, ?_, ?_⟩, by simp⟩⟩
      · simp only; rw [h4, h5]
      · simp only; rw [h4, h5]; exact hend.symm
      · simp only; rw [h4]; exact h7
    · rw [eoLoop_inter hn hk]
      rw [eoSteps_inter _ _ _ _ hk, hg, List.append_nil] at hrest hend
      exact ih l' ps' g base (f1 + 1) s' c h2 h3 h4 h5 (by omega) h7 hc hacc hrest hend
    · cases hu : st.item.uris with
      | some us =>
        rw [eoLoop_ref hn hk hu, List.append_assoc]
        rw [eoSteps_ref _ _ _ _ _ hk hu, hg, List.append_nil] at hrest hend
        exact ih l' ps' (g ++ us) base (f1 + 1) s' c h2 h3 h4 h5 (by omega) h7 hc hacc hrest hend
      | none =>
        rw [eoLoop_badref hn hk hu]
        rw [eoSteps_badref _ _ _ _ hk hu] at hrest hend
        simp [Cursor.next, hc, hrest, hend]

include hsv hq in
theorem RelEP.step (total : List Req) (r : StartOut) (m : M) (c : Cursor) (k : Call) (hk : k ≠ .finish)
    (h : RelEP size sv cs total m c) :
    (step m k).2 = (c.step r k).2 ∧
      ((step m k).2.stuck = false → RelEP size sv cs total (step m k).1 (c.step r k).1) := by
  obtain ⟨ch, s⟩ := m
  have hch : ch = [.entriesOnly c.acc, .paged size (some sv)] := h.chain
  subst hch
  have hst : s.state = c.state := h.state
  cases k with
  | finish => exact absurd rfl hk
  | start q =>
    simp only [Ldap3V.Stream.step, Cursor.step, Cursor.start]
    rw [start_notfresh _ _ _ (by rw [hst]; exact h.notFresh)]
    simp [h.notFresh, h]
  | state =>
    simp only [Ldap3V.Stream.step, Cursor.step]
    exact ⟨by rw [hst], fun _ => h⟩
  | next =>
    simp only [Ldap3V.Stream.step, Cursor.step, fuelOf_succ]
    by_cases hc : c.state = .active
    · have hs : s.state = .active := by rw [hst]; exact hc
      obtain ⟨l, hrx, hsteps, hend, hreq⟩ := h.live hc
      have hrx' : s.rx = some l := hrx
      rw [next_eo _ _ _ _ _ hs]
      have hf : remaining s + 6 ≤ 2 * remaining s + 2 * [Adapter.entriesOnly c.acc, Adapter.paged size (some sv)].length + 3 := by
        simp; omega
      have key := ep_loop_sim size sv cs hsv hq total _ l s.pages [] c.acc _ s c hs hrx' rfl rfl hf hreq hc rfl
        hsteps.symm hend.symm
      rw [List.append_nil] at key
      refine ⟨key.1, fun hstuck => key.2 ?_ ?_⟩
      · intro hp; rw [hp] at hstuck; simp [Output.stuck] at hstuck
      · intro hp; rw [hp] at hstuck; simp [Output.stuck] at hstuck
    · have hs : s.state ≠ .active := by rw [hst]; exact hc
      rw [next_inactive _ _ _ _ hs]
      simp only [Cursor.next, hc, ne_eq, not_false_eq_true, if_true]
      exact ⟨trivial, fun _ => h⟩
end

theorem view_eo_paged (pages : List Page) :
    view [.entriesOnly, .paged] pages = eoSteps [] (pagedView rawView pages).steps (pagedView rawView pages).ending := rfl

theorem ep_start (size : Int) (h : Handle) (pages : List Page) (q : Query)
    (hh : (h.ctrls.getD []).any RCtl.isPaged = false) (hq : q.filterOk = true) :
    (step (init [eo, pr size] h pages) (.start q)).2 =
        ((Cursor.ofView (view [.entriesOnly, .paged] pages)).step (startOutcome [.entriesOnly, .paged] h q pages) (.start q)).2 ∧
      RelEP size (savedOf h q) (othersOf h) (pagedRequests (mkReq size (savedOf h q) (othersOf h)) [] pages)
        (step (init [eo, pr size] h pages) (.start q)).1
        ((Cursor.ofView (view [.entriesOnly, .paged] pages)).step (startOutcome [.entriesOnly, .paged] h q pages) (.start q)).1 := by
  cases pages with
  | nil =>
    simp [Ldap3V.Stream.step, init, pr, eo, start, startInner, hq, hh, errState, Cursor.step, Cursor.start, Cursor.ofView,
      startOutcome, view_eo_paged, pagedView]
    refine ⟨rfl, rfl, by simp, by simp, fun _ => ⟨[], rfl, rfl, rfl, ?_⟩, by simp⟩
    simp [futureReqs, nextCookie, rawView, pagedRequests, mkReq, savedOf, othersOf]
  | cons p ps =>
    cases p with
    | script l =>
      simp [Ldap3V.Stream.step, init, pr, eo, start, startInner, hq, hh, errState, Cursor.step, Cursor.start, Cursor.ofView,
        startOutcome, view_eo_paged]
      refine ⟨rfl, rfl, by simp, by simp, fun _ => ⟨l, rfl, rfl, rfl, ?_⟩, by simp⟩
      simp [pagedRequests_script, mkReq, savedOf, othersOf]
    | fail e =>
      simp [Ldap3V.Stream.step, init, pr, eo, start, startInner, hq, hh, errState, Cursor.step, Cursor.start, Cursor.ofView,
        startOutcome, view_eo_paged]
      exact ⟨rfl, rfl, by simp, by simp, by simp, by simp⟩

/-- C16 behind EntriesOnly (`[EntriesOnly, PagedResults]`): every call sequence without `finish()` -/
theorem refines_eo_paged (size : Int) (h : Handle) (pages : List Page) (q : Query) (calls : List Call)
    (hh : (h.ctrls.getD []).any RCtl.isPaged = false) (hq : q.filterOk = true)
    (hnf : ∀ k ∈ calls, k ≠ .finish) :
    run (init [eo, pr size] h pages) (.start q :: calls) =
      Cursor.run (startOutcome [.entriesOnly, .paged] h q pages) (Cursor.ofView (view [.entriesOnly, .paged] pages))
        (.start q :: calls) ∧
    ((∀ o ∈ run (init [eo, pr size] h pages) (.start q :: calls), o.stuck = false) →
      RelEP size (savedOf h q) (othersOf h) (pagedRequests (mkReq size (savedOf h q) (othersOf h)) [] pages)
        (exec (init [eo, pr size] h pages) (.start q :: calls))
        (Cursor.exec (startOutcome [.entriesOnly, .paged] h q pages) (Cursor.ofView (view [.entriesOnly, .paged] pages))
          (.start q :: calls))) := by
  obtain ⟨ho, hR⟩ := ep_start size h pages q hh hq
  have hsim := run_eq_of_sim_on (fun k => k ≠ .finish) (startOutcome [.entriesOnly, .paged] h q pages)
    (RelEP size (savedOf h q) (othersOf h) (pagedRequests (mkReq size (savedOf h q) (othersOf h)) [] pages))
    (fun m c k hk hR => RelEP.step size (savedOf h q) (othersOf h) rfl hq _ _ m c k hk hR) calls _ _ hnf hR
  have hns := Cursor.start_not_stuck (startOutcome [.entriesOnly, .paged] h q pages)
    (Cursor.ofView (view [.entriesOnly, .paged] pages)) q
  have hns' : (step (init [eo, pr size] h pages) (.start q)).2.stuck = false := by rw [ho]; exact hns
  refine ⟨?_, fun hall => ?_⟩
  · rw [run_cons, hns']
    simp only [Cursor.run, hns, Bool.false_eq_true, if_false]
    rw [ho, hsim.1]
  · rw [exec_cons, hns']
    simp only [Cursor.exec, hns, Bool.false_eq_true, if_false]
    exact hsim.2 (fun o ho' => hall o (by rw [run_cons, hns']; exact List.mem_cons_of_mem _ ho'))

end Ldap3V.Stream

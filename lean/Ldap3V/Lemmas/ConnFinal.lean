/- A result once returned to its caller is final: no later event changes it (C12: a late reply never
replaces a time-out; C04: delivered results survive). -/
import Ldap3V.Lemmas.ConnPend
namespace Ldap3V.Conn

/-- existing operations stay where they are and a result once set is kept -/
def ResKeep (ops ops' : List Op) : Prop :=
  ∀ (j : Nat) (o : Op), ops[j]? = some o → ∃ o' : Op, ops'[j]? = some o' ∧ (o.res.isSome = true → o'.res = o.res)

theorem ResKeep.refl (ops : List Op) : ResKeep ops ops := fun _ o h => ⟨o, h, fun _ => rfl⟩

theorem ResKeep.trans {a b c : List Op} (h1 : ResKeep a b) (h2 : ResKeep b c) : ResKeep a c := by
  intro j o ho
  obtain ⟨o', ho', e1⟩ := h1 j o ho
  obtain ⟨o'', ho'', e2⟩ := h2 j o' ho'
  refine ⟨o'', ho'', fun hs => ?_⟩
  have := e1 hs
  rw [e2 (by rw [this]; exact hs), this]

theorem resKeep_modify (ops : List Op) (i : Nat) (g : Op → Op) (hg : ∀ o, (g o).res = o.res) :
    ResKeep ops (modifyOp ops i g) := by
  intro j o ho
  rw [modifyOp_get]
  split
  · next hj => subst hj; rw [ho]; exact ⟨g o, rfl, fun _ => hg o⟩
  · exact ⟨o, ho, fun _ => rfl⟩

theorem resKeep_set (ops : List Op) (i : Nat) (o o' : Op) (ho : ops[i]? = some o)
    (h : o.res.isSome = true → o'.res = o.res) : ResKeep ops (ops.set i o') := by
  intro j x hx
  rw [get_set _ j ho]
  split
  · next hj => subst hj; rw [ho] at hx; cases hx; exact ⟨o', rfl, h⟩
  · exact ⟨x, hx, fun _ => rfl⟩

theorem resKeep_dropSender (ops : List Op) (i : Nat) : ResKeep ops (dropSender ops i) := by
  apply resKeep_modify
  intro o; split <;> rfl

theorem resKeep_dropSenderOpt (ops : List Op) (x : Option Nat) : ResKeep ops (dropSenderOpt ops x) := by
  cases x with
  | none => exact ResKeep.refl _
  | some i => exact resKeep_dropSender ops i

theorem resKeep_endDriver (s : St) (how : Drv) : ResKeep s.ops (endDriver s how).ops := by
  intro j o ho
  rw [endDriver_get, ho]
  simp only [Option.map_some]
  refine ⟨_, rfl, fun _ => ?_⟩
  split
  · rfl
  · split <;> rfl

theorem resKeep_append (ops : List Op) (o : Op) : ResKeep ops (ops ++ [o]) := by
  intro j x hx
  have hlt : j < ops.length := (List.getElem?_eq_some_iff.mp hx).1
  exact ⟨x, by rw [List.getElem?_append_left hlt]; exact hx, fun _ => rfl⟩

theorem resKeep_routeSearch (s : St) (c : Nat) (f : Frame) : ResKeep s.ops (routeSearch s c f).ops := by
  have key : ∀ (b : Bool) (chans' : List Chan),
      ResKeep s.ops (if b = true then ({ s with chans := chans', searchmap := erase s.searchmap f.id, inUse := eraseId s.inUse f.id } : St)
        else { s with chans := chans' }).ops := by
    intro b chans'
    cases b <;> exact ResKeep.refl _
  unfold routeSearch
  by_cases h1 : f.op = 4 ∨ f.op = 25 ∨ f.op = 19
  · simp only [h1, if_true]; exact key _ _
  · simp only [h1, if_false]
    by_cases h2 : f.op = 5
    · simp only [h2, if_true]
      by_cases h3 : f.good = true
      · simp only [h3, if_true]; exact key _ _
      · simp only [h3]; exact resKeep_endDriver _ _
    · simp only [h2, if_false]; exact resKeep_endDriver _ _

theorem resKeep_take (ops : List Op) (i : Nat) (o : Op) (ho : ops[i]? = some o) :
    ResKeep ops (ops.set i { o with phase := .taken }) := resKeep_set _ _ _ _ ho (fun _ => rfl)

theorem resKeep_ack (ops : List Op) (i : Nat) : ResKeep ops (modifyOp ops i fun o => { o with mail := .ack }) :=
  resKeep_modify _ _ _ (fun _ => rfl)

macro "rk_tac" : tactic => `(tactic| first
  | exact ResKeep.refl _
  | exact resKeep_endDriver _ _
  | exact resKeep_routeSearch _ _ _
  | exact resKeep_append _ _
  | exact resKeep_dropSenderOpt _ _
  | exact resKeep_set _ _ _ _ (by assumption) (by intro h; first | rfl | (simp_all; done)))

/-- **a result, once returned to its caller, is final**: no event changes `res` of an operation
once it is set -/
theorem step_resKeep {s s' : St} {ob : Obs} (ha : Acct s) (e : Ev) (hs : Conn.step s e = some (s', ob)) : ResKeep s.ops s'.ops := by
  cases e with
  | enqueue i t =>
    simp only [Conn.step] at hs
    split at hs
    · cases hs
    · next o ho =>
      split at hs
      · cases hs
      · next hph =>
        have hph : o.phase = .allocated := by simpa using hph
        have hnone : o.res = none := by
          rcases (ha.fresh i o ho (by rw [hph]; simp)).2 with r | ⟨_, r⟩
          · exact r
          · rw [hph] at r; cases r
        split at hs
        all_goals
          simp only [Option.some.injEq, Prod.mk.injEq] at hs
          obtain ⟨rfl, _⟩ := hs
          exact resKeep_set _ _ _ _ ho (fun h => by simp [hnone] at h)
  | drvOp ok =>
    simp only [Conn.step] at hs
    repeat' (split at hs)
    all_goals first
      | (cases hs; done)
      | (simp only [Option.some.injEq, Prod.mk.injEq] at hs
         obtain ⟨rfl, _⟩ := hs
         first
          | exact (resKeep_take _ _ _ (by assumption)).trans (resKeep_dropSender _ _)
          | (refine ResKeep.trans ?_ (resKeep_endDriver _ _); exact (resKeep_take _ _ _ (by assumption)).trans (resKeep_dropSender _ _))
          | exact (resKeep_take _ _ _ (by assumption)).trans (resKeep_dropSenderOpt _ _)
          | exact (resKeep_take _ _ _ (by assumption)).trans (resKeep_ack _ _)
          | exact ((resKeep_take _ _ _ (by assumption)).trans (resKeep_dropSenderOpt _ _)).trans (resKeep_ack _ _))
  | drvResp =>
    simp only [Conn.step] at hs
    repeat' (split at hs)
    all_goals first
      | (cases hs; done)
      | (simp only [Option.some.injEq, Prod.mk.injEq] at hs
         obtain ⟨rfl, _⟩ := hs
         first
          | rk_tac
          | exact resKeep_routeSearch ({ s with pos := s.pos + 1 } : St) _ _
          | exact resKeep_modify _ _ _ (fun o => by split <;> rfl))
  | _ =>
    simp only [Conn.step] at hs
    repeat' (split at hs)
    all_goals first
      | (cases hs; done)
      | (simp only [Option.some.injEq, Prod.mk.injEq] at hs
         obtain ⟨rfl, _⟩ := hs
         rk_tac)

theorem freshRun2_append : ∀ (a b : List Ev) (s : St), FreshRun2 s (a ++ b) → FreshRun2 s a ∧ FreshRun2 (Conn.run s a) b
  | [], _, _, h => ⟨trivial, h⟩
  | e :: es, b, s, h => by
    have h' : FreshAt2 s e ∧ FreshRun2 (next s e) (es ++ b) := h
    obtain ⟨h1, h2⟩ := freshRun2_append es b (next s e) h'.2
    rw [run_cons]
    exact ⟨⟨h'.1, h1⟩, h2⟩

theorem run_append (a b : List Ev) (s : St) : Conn.run s (a ++ b) = Conn.run (Conn.run s a) b := by
  simp only [Conn.run, List.foldl_append]

theorem resKeep_run (evs : List Ev) : ∀ s, Pend s → Uniq s → Acct s → RouteInv s → FreshRun2 s evs →
    ResKeep s.ops (Conn.run s evs).ops := by
  induction evs with
  | nil => intro s _ _ _ _ _; exact ResKeep.refl _
  | cons e es ih =>
    intro s hp hu ha hr hf
    have hf : FreshAt2 s e ∧ FreshRun2 (next s e) es := hf
    rw [run_cons]
    cases hst : Conn.step s e with
    | none =>
      have : next s e = s := by simp only [next, hst]
      rw [this] at hf ⊢
      exact ih s hp hu ha hr hf.2
    | some p =>
      obtain ⟨s', ob⟩ := p
      have : next s e = s' := by simp only [next, hst]
      rw [this] at hf ⊢
      exact (step_resKeep ha e hst).trans
        (ih s' (hp.step hu ha e hst) (hu.step hr ha e hf.1 hst) (ha.step hr e hf.1.weaken hst) (hr.step e hst) hf.2)

end Ldap3V.Conn

/-
The view of `[PagedResults, EntriesOnly]` seen from inside a page, with the referral URIs carried
across page boundaries.
-/
import Ldap3V.Lemmas.StreamEoPaged
namespace Ldap3V.Stream
open Spec

/-- how `pagedView` continues after the view `v` of one page; `nx` = the view of the pages behind it -/
def pagedCont (v : View) (nx : View) : View :=
  match v.ending with
  | .done g r =>
    match pagingCookie r.ctrls with
    | none => v
    | some none => ⟨v.steps, .panic⟩
    | some (some ck) =>
      if ck.isEmpty then ⟨v.steps, .done g { r with ctrls := dropPaging r.ctrls }⟩
      else View.after v.steps g nx
  | _ => v

theorem pagedView_script (inner : List Recv → View) (l : List Recv) (ps : List Page) :
    pagedView inner (.script l :: ps) = pagedCont (inner l) (pagedView inner ps) := rfl

theorem pagedCont_cons (a : Step) (vs : List Step) (e : End) (nx : View) :
    pagedCont ⟨a :: vs, e⟩ nx = ⟨a :: (pagedCont ⟨vs, e⟩ nx).steps, (pagedCont ⟨vs, e⟩ nx).ending⟩ := by
  simp only [pagedCont]
  cases e with
  | done g r =>
    simp only
    cases pagingCookie r.ctrls with
    | none => rfl
    | some o =>
      cases o with
      | none => rfl
      | some ck =>
        simp only
        split
        · rfl
        · rw [after_cons]
  | fail g e => rfl
  | pending => rfl
  | panic => rfl

theorem addGain_addGain (g g0 : List Bytes) (e : End) : (e.addGain g0).addGain g = e.addGain (g ++ g0) := by
  cases e <;> simp [End.addGain]

theorem after_nil_eq (g : List Bytes) (w : View) :
    View.after [] g w = match w.steps with
      | [] => ⟨[], w.ending.addGain g⟩
      | st :: tl => ⟨⟨g ++ st.gain, st.item⟩ :: tl, w.ending⟩ := by
  unfold View.after
  split <;> simp_all

theorem after_after (g g0 : List Bytes) (w : View) :
    View.after [] g (View.after [] g0 w) = View.after [] (g ++ g0) w := by
  obtain ⟨ws, we⟩ := w
  cases ws with
  | nil => simp [after_nil_eq, addGain_addGain]
  | cons st tl => simp [after_nil_eq]

theorem pagedCont_after (g : List Bytes) (v nx : View) :
    pagedCont (View.after [] g v) nx = View.after [] g (pagedCont v nx) := by
  obtain ⟨vs, ve⟩ := v
  cases vs with
  | cons st tl =>
    rw [after_nil_eq]
    simp only
    rw [pagedCont_cons, pagedCont_cons, after_nil_eq]
  | nil =>
    rw [after_nil_eq]
    simp only
    cases ve with
    | done g0 r =>
      simp only [End.addGain, pagedCont]
      cases pagingCookie r.ctrls with
      | none => simp [after_nil_eq, End.addGain]
      | some o =>
        cases o with
        | none => simp [after_nil_eq, End.addGain]
        | some ck =>
          simp only
          split
          · simp [after_nil_eq, End.addGain]
          · rw [after_after]
    | fail g0 e => simp [End.addGain, pagedCont, after_nil_eq]
    | pending => simp [End.addGain, pagedCont, after_nil_eq]
    | panic => simp [End.addGain, pagedCont, after_nil_eq]

/-- prepending URIs to the entries-only view of a script = starting it with these URIs in hand -/
theorem eoRaw_carry : ∀ (l : List Recv) (g g0 : List Bytes), View.after [] g (eoRaw g0 l) = eoRaw (g ++ g0) l := by
  intro l
  induction l with
  | nil => intro g g0; simp [eoRaw_nil, after_nil_eq, End.addGain]
  | cons x l ih =>
    intro g g0
    cases x with
    | item i =>
      rcases kind_cases i.kind with hk | hk | hk
      · rw [eoRaw_entry _ _ _ hk, eoRaw_entry _ _ _ hk, after_nil_eq]
      · rw [eoRaw_inter _ _ _ hk, eoRaw_inter _ _ _ hk]; exact ih g g0
      · cases hu : i.uris with
        | none => rw [eoRaw_badref _ _ _ hk hu, eoRaw_badref _ _ _ hk hu]; simp [after_nil_eq, End.addGain]
        | some us =>
          rw [eoRaw_ref _ _ _ _ hk hu, eoRaw_ref _ _ _ _ hk hu, List.append_assoc]; exact ih g (g0 ++ us)
    | done r => rw [eoRaw_done, eoRaw_done]; simp [after_nil_eq, End.addGain]
    | closed => rw [eoRaw_closed, eoRaw_closed]; simp [after_nil_eq, End.addGain]
    | timeout => rw [eoRaw_timeout, eoRaw_timeout]; simp [after_nil_eq, End.addGain]

/-- the view of `[PagedResults, EntriesOnly]` from inside a page: rest `l` of the script with the URIs
`g` in hand, then the pending pages -/
def pePaged (g : List Bytes) (l : List Recv) (ps : List Page) : View :=
  pagedCont (eoRaw g l) (pagedView (eoRaw []) ps)

theorem view_paged_eo (pages : List Page) : view [.paged, .entriesOnly] pages = pagedView (eoRaw []) pages := rfl

theorem pagedView_eo_script (l : List Recv) (ps : List Page) :
    pagedView (eoRaw []) (.script l :: ps) = pePaged [] l ps := rfl

theorem pePaged_carry (g g0 : List Bytes) (l : List Recv) (ps : List Page) :
    View.after [] g (pePaged g0 l ps) = pePaged (g ++ g0) l ps := by
  simp only [pePaged]
  rw [← pagedCont_after, eoRaw_carry]

/-- the paging cookie a result announces: `none` = this was the last page -/
def resCookie (r : Res) : Option Bytes :=
  match pagingCookie r.ctrls with
  | some (some ck) => if ck.isEmpty then none else some ck
  | _ => none

theorem nextCookie_done (r : Res) (l : List Recv) : nextCookie (.done r :: l) = resCookie r := by
  simp only [nextCookie, rawView, resCookie]
  cases pagingCookie r.ctrls with
  | none => rfl
  | some o => cases o <;> rfl

end Ldap3V.Stream

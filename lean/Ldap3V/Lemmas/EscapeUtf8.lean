/- UTF-8 structure lemmas for Model.Utf8 and: escaping keeps a string valid UTF-8 (the `expect`s are dead). -/
import Ldap3V.Lemmas.Escape
namespace Ldap3V

/-- well-formed 2-, 3-, 4-byte characters, as `utf8Valid` checks them -/
def isMb2 (b0 b1 : UInt8) : Bool := inRange b0 0xC2 0xDF && isCont b1
def isMb3 (b0 b1 b2 : UInt8) : Bool :=
  inRange b0 0xE0 0xEF &&
  ((if b0.toNat = 0xE0 then inRange b1 0xA0 0xBF else if b0.toNat = 0xED then inRange b1 0x80 0x9F else isCont b1) && isCont b2)
def isMb4 (b0 b1 b2 b3 : UInt8) : Bool :=
  inRange b0 0xF0 0xF4 &&
  ((if b0.toNat = 0xF0 then inRange b1 0x90 0xBF else if b0.toNat = 0xF4 then inRange b1 0x80 0x8F else isCont b1) &&
    isCont b2 && isCont b3)

theorem utf8_cons_ascii (b0 : UInt8) (r : Bytes) (h : b0.toNat < 0x80) : utf8Valid (b0 :: r) = utf8Valid r := by
  rw [utf8Valid.eq_def]; simp [h]

theorem utf8_append_ascii (a X : Bytes) (h : ∀ b ∈ a, b.toNat < 0x80) : utf8Valid (a ++ X) = utf8Valid X := by
  induction a with
  | nil => rfl
  | cons c a ih =>
    rw [List.cons_append, utf8_cons_ascii _ _ (h c (by simp))]
    exact ih (fun b hb => h b (by simp [hb]))

theorem isMb2_ge (b0 b1 : UInt8) (h : isMb2 b0 b1 = true) : 0x80 ≤ b0.toNat ∧ 0x80 ≤ b1.toNat := by
  simp [isMb2, inRange, isCont] at h; omega

theorem isMb3_ge (b0 b1 b2 : UInt8) (h : isMb3 b0 b1 b2 = true) : 0x80 ≤ b0.toNat ∧ 0x80 ≤ b1.toNat ∧ 0x80 ≤ b2.toNat := by
  simp only [isMb3, inRange, isCont, Bool.and_eq_true, decide_eq_true_eq] at h
  obtain ⟨h0, h1, h2⟩ := h
  refine ⟨by omega, ?_, by omega⟩
  split at h1
  · simp at h1; omega
  · split at h1 <;> simp at h1 <;> omega

theorem isMb4_ge (b0 b1 b2 b3 : UInt8) (h : isMb4 b0 b1 b2 b3 = true) :
    0x80 ≤ b0.toNat ∧ 0x80 ≤ b1.toNat ∧ 0x80 ≤ b2.toNat ∧ 0x80 ≤ b3.toNat := by
  simp only [isMb4, inRange, isCont, Bool.and_eq_true, decide_eq_true_eq] at h
  obtain ⟨h0, ⟨h1, h2⟩, h3⟩ := h
  refine ⟨by omega, ?_, by omega, by omega⟩
  split at h1
  · simp at h1; omega
  · split at h1 <;> simp at h1 <;> omega

theorem utf8_mb2 (b0 b1 : UInt8) (X : Bytes) (h : isMb2 b0 b1 = true) : utf8Valid (b0 :: b1 :: X) = utf8Valid X := by
  have hg := isMb2_ge b0 b1 h
  simp only [isMb2, Bool.and_eq_true] at h
  rw [utf8Valid.eq_def]
  simp [show ¬ b0.toNat < 0x80 by omega, h.1, h.2]

theorem utf8_mb3 (b0 b1 b2 : UInt8) (X : Bytes) (h : isMb3 b0 b1 b2 = true) :
    utf8Valid (b0 :: b1 :: b2 :: X) = utf8Valid X := by
  have hg := isMb3_ge b0 b1 b2 h
  simp only [isMb3, Bool.and_eq_true] at h
  have hn : inRange b0 0xC2 0xDF = false := by
    have := h.1; simp [inRange] at this ⊢; omega
  rw [utf8Valid.eq_def]
  simp [show ¬ b0.toNat < 0x80 by omega, hn, h.1, h.2.1, h.2.2]

theorem utf8_mb4 (b0 b1 b2 b3 : UInt8) (X : Bytes) (h : isMb4 b0 b1 b2 b3 = true) :
    utf8Valid (b0 :: b1 :: b2 :: b3 :: X) = utf8Valid X := by
  have hg := isMb4_ge b0 b1 b2 b3 h
  simp only [isMb4, Bool.and_eq_true] at h
  have hn : inRange b0 0xC2 0xDF = false := by
    have := h.1; simp [inRange] at this ⊢; omega
  have hn3 : inRange b0 0xE0 0xEF = false := by
    have := h.1; simp [inRange] at this ⊢; omega
  rw [utf8Valid.eq_def]
  simp [show ¬ b0.toNat < 0x80 by omega, hn, hn3, h.1, h.2.1.1, h.2.1.2, h.2.2]

/-- a valid string starts with an ASCII byte or a well-formed multi-byte character, and the rest is valid -/
theorem utf8_cases (b0 : UInt8) (r : Bytes) (h : utf8Valid (b0 :: r) = true) :
    (b0.toNat < 0x80 ∧ utf8Valid r = true) ∨
    (∃ b1 r1, r = b1 :: r1 ∧ isMb2 b0 b1 = true ∧ utf8Valid r1 = true) ∨
    (∃ b1 b2 r2, r = b1 :: b2 :: r2 ∧ isMb3 b0 b1 b2 = true ∧ utf8Valid r2 = true) ∨
    (∃ b1 b2 b3 r3, r = b1 :: b2 :: b3 :: r3 ∧ isMb4 b0 b1 b2 b3 = true ∧ utf8Valid r3 = true) := by
  rw [utf8Valid.eq_def] at h
  simp only at h
  split at h
  · next h0 => exact .inl ⟨h0, h⟩
  · split at h
    · next h2 =>
      refine .inr (.inl ?_)
      cases r with
      | nil => simp at h
      | cons b1 r1 =>
        simp only [Bool.and_eq_true] at h
        exact ⟨b1, r1, rfl, by simp [isMb2, h2, h.1], h.2⟩
    · split at h
      · next h3 =>
        refine .inr (.inr (.inl ?_))
        match r, h with
        | b1 :: b2 :: r2, h =>
          simp only [Bool.and_eq_true] at h
          exact ⟨b1, b2, r2, rfl, by simp only [isMb3, h3, h.1.1, h.1.2, Bool.and_self], h.2⟩
      · split at h
        · next h4 =>
          refine .inr (.inr (.inr ?_))
          match r, h with
          | b1 :: b2 :: b3 :: r3, h =>
            simp only [Bool.and_eq_true] at h
            exact ⟨b1, b2, b3, r3, rfl, by simp only [isMb4, h4, h.1.1.1, h.1.1.2, h.1.2, Bool.and_self], h.2⟩
        · simp at h

/-! ### escaping only touches ASCII bytes -/

theorem escMap_cons_high (need : Nat → UInt8 → Bool) (hA : ∀ i c, need i c = true → c.toNat < 0x80)
    (i : Nat) (c : UInt8) (r : Bytes) (hc : 0x80 ≤ c.toNat) : escMap need i (c :: r) = c :: escMap need (i + 1) r := by
  have : need i c = false := by
    cases hn : need i c with
    | false => rfl
    | true => have := hA i c hn; omega
  simp [escMap, this]

theorem escTriple_ascii (c : UInt8) : ∀ b ∈ escTriple c, b.toNat < 0x80 := by
  intro b hb
  simp only [escTriple, List.mem_cons, List.not_mem_nil, or_false] at hb
  rcases hb with rfl | rfl | rfl
  · decide
  · exact xdigit_hi_ascii c
  · exact xdigit_lo_ascii c

theorem utf8_escMap (need : Nat → UInt8 → Bool) (hA : ∀ i c, need i c = true → c.toNat < 0x80)
    (n : Nat) (v : Bytes) (i : Nat) (hn : v.length ≤ n) (hv : utf8Valid v = true) :
    utf8Valid (escMap need i v) = true := by
  induction n generalizing v i with
  | zero =>
    have : v = [] := List.eq_nil_of_length_eq_zero (by omega)
    subst this; rfl
  | succ n ih =>
    cases v with
    | nil => rfl
    | cons b0 r =>
      simp only [List.length_cons] at hn
      rcases utf8_cases b0 r hv with ⟨h0, hr⟩ | ⟨b1, r1, rfl, hm, hr⟩ | ⟨b1, b2, r2, rfl, hm, hr⟩ | ⟨b1, b2, b3, r3, rfl, hm, hr⟩
      · simp only [escMap]
        rw [utf8_append_ascii]
        · exact ih r _ (by omega) hr
        · intro b hb
          split at hb
          · exact escTriple_ascii b0 b hb
          · simp at hb; subst hb; exact h0
      · have hg := isMb2_ge _ _ hm
        simp only [List.length_cons] at hn
        rw [escMap_cons_high need hA _ _ _ hg.1, escMap_cons_high need hA _ _ _ hg.2, utf8_mb2 _ _ _ hm]
        exact ih r1 _ (by omega) hr
      · have hg := isMb3_ge _ _ _ hm
        simp only [List.length_cons] at hn
        rw [escMap_cons_high need hA _ _ _ hg.1, escMap_cons_high need hA _ _ _ hg.2.1,
          escMap_cons_high need hA _ _ _ hg.2.2, utf8_mb3 _ _ _ _ hm]
        exact ih r2 _ (by omega) hr
      · have hg := isMb4_ge _ _ _ _ hm
        simp only [List.length_cons] at hn
        rw [escMap_cons_high need hA _ _ _ hg.1, escMap_cons_high need hA _ _ _ hg.2.1,
          escMap_cons_high need hA _ _ _ hg.2.2.1, escMap_cons_high need hA _ _ _ hg.2.2.2, utf8_mb4 _ _ _ _ _ hm]
        exact ih r3 _ (by omega) hr

theorem ldapNeed_ascii (i : Nat) (c : UInt8) (h : ldapNeed i c = true) : c.toNat < 0x80 := needsEscape_ascii c h

theorem escFinish_ok (lit : Bytes) (o : Option Bytes) (h : utf8Valid (o.getD lit) = true) :
    escFinish lit o = .ok (o.getD lit) := by
  cases o with
  | none => rfl
  | some o => simp only [Option.getD_some] at h; simp [escFinish, h]

end Ldap3V

/- The routing invariant of Model.Conn and its preservation by every step. -/
import Ldap3V.Lemmas.ConnBasic
namespace Ldap3V.Conn

def itemFrame : Item → Frame
  | .entry f => f
  | .done f => f

/-- what the two routing maps, the mailboxes and the channels may contain -/
structure RouteInv (s : St) : Prop where
  rm : ∀ p ∈ s.resultmap, ∃ o : Op, s.ops[p.2]? = some o ∧ o.id = p.1
  sm : ∀ p ∈ s.searchmap, ∃ (ch : Chan) (o : Op), s.chans[p.2]? = some ch ∧ s.ops[ch.opIdx]? = some o ∧ o.id = p.1
  mail : ∀ (i : Nat) (o : Op) (f : Frame), s.ops[i]? = some o → o.mail = Mail.frame f → f.id = (o.id : Int)
  items : ∀ (c : Nat) (ch : Chan) (it : Item), s.chans[c]? = some ch → it ∈ ch.items →
      ∃ o : Op, s.ops[ch.opIdx]? = some o ∧ (itemFrame it).id = (o.id : Int)
  chanOf : ∀ (i : Nat) (o : Op) (c : Nat), s.ops[i]? = some o → o.chan = some c →
      ∃ ch : Chan, s.chans[c]? = some ch ∧ ch.opIdx = i
  /-- the driver has consumed a prefix of what the server sent -/
  posLe : s.pos ≤ s.srvLog.length
  /-- provenance: a routed response is one of the frames the server sent and the driver consumed -/
  mailLog : ∀ (i : Nat) (o : Op) (f : Frame), s.ops[i]? = some o → o.mail = Mail.frame f → f ∈ s.srvLog.take s.pos
  /-- order: the items of a channel appear in the order in which the server sent them -/
  itemsLog : ∀ (c : Nat) (ch : Chan), s.chans[c]? = some ch → (ch.items.map itemFrame).Sublist (s.srvLog.take s.pos)

/-- existing operations keep their identity; the list does not shrink -/
def SameSig (ops ops' : List Op) : Prop :=
  ∀ (j : Nat) (o : Op), ops[j]? = some o → ∃ o' : Op, ops'[j]? = some o' ∧ o'.sig = o.sig

theorem Tame.sameSig {ops ops' : List Op} (h : Tame ops ops') : SameSig ops ops' := by
  intro j o ho
  have hj : j < ops.length := (List.getElem?_eq_some_iff.mp ho).1
  have hj' : j < ops'.length := by rw [h.1]; exact hj
  obtain ⟨o2, ho2, hs, _⟩ := h.2 j ops'[j] (List.getElem?_eq_getElem hj')
  rw [ho] at ho2
  cases ho2
  exact ⟨ops'[j], List.getElem?_eq_getElem hj', hs⟩

theorem sig_id {o o' : Op} (h : o'.sig = o.sig) : o'.id = o.id ∧ o'.kind = o.kind ∧ o'.chan = o.chan := by
  simp only [Op.sig, Prod.mk.injEq] at h
  exact h

/-- the generic preservation argument -/
theorem RouteInv.transfer {s s' : St} (h : RouteInv s)
    (hops : SameSig s.ops s'.ops)
    (hback : ∀ (j : Nat) (o' : Op), s'.ops[j]? = some o' →
      (∃ o : Op, s.ops[j]? = some o ∧ o'.sig = o.sig) ∨
      (s.ops[j]? = none ∧ (∀ f, o'.mail ≠ Mail.frame f) ∧ ∀ c, o'.chan = some c → ∃ ch : Chan, s'.chans[c]? = some ch ∧ ch.opIdx = j))
    (hmail : ∀ (j : Nat) (o' : Op) (f : Frame), s'.ops[j]? = some o' → o'.mail = Mail.frame f →
      (∃ o : Op, s.ops[j]? = some o ∧ o.mail = Mail.frame f) ∨ (f.id = (o'.id : Int) ∧ f ∈ s'.srvLog.take s'.pos))
    (hch : ∀ (c : Nat) (ch : Chan), s.chans[c]? = some ch → ∃ ch' : Chan, s'.chans[c]? = some ch' ∧ ch'.opIdx = ch.opIdx)
    (hchb : ∀ (c : Nat) (ch' : Chan), s'.chans[c]? = some ch' →
      (∃ ch : Chan, s.chans[c]? = some ch ∧ ch'.opIdx = ch.opIdx ∧
        (ch'.items = ch.items ∨ ∃ it : Item, ch'.items = ch.items ++ [it] ∧
          (∃ o : Op, s.ops[ch.opIdx]? = some o ∧ (itemFrame it).id = (o.id : Int)) ∧
          s'.srvLog.take s'.pos = s.srvLog.take s.pos ++ [itemFrame it])) ∨
      (s.chans[c]? = none ∧ ch'.items = []))
    (hrm : ∀ p ∈ s'.resultmap, p ∈ s.resultmap ∨ ∃ o : Op, s.ops[p.2]? = some o ∧ o.id = p.1)
    (hsm : ∀ p ∈ s'.searchmap, p ∈ s.searchmap ∨
      ∃ (ch : Chan) (o : Op), s.chans[p.2]? = some ch ∧ s.ops[ch.opIdx]? = some o ∧ o.id = p.1)
    (hlog : (s.srvLog.take s.pos) <+: (s'.srvLog.take s'.pos)) (hpos : s'.pos ≤ s'.srvLog.length) :
    RouteInv s' := by
  have fwd : ∀ (j : Nat) (o : Op), s.ops[j]? = some o → ∃ o' : Op, s'.ops[j]? = some o' ∧ o'.id = o.id ∧ o'.chan = o.chan := by
    intro j o ho
    obtain ⟨o', ho', hs⟩ := hops j o ho
    exact ⟨o', ho', (sig_id hs).1, (sig_id hs).2.2⟩
  refine ⟨?_, ?_, ?_, ?_, ?_, hpos, ?_, ?_⟩
  · intro p hp
    rcases hrm p hp with hin | ⟨o, ho, hid⟩
    · obtain ⟨o, ho, hid⟩ := h.rm p hin
      obtain ⟨o', ho', hid', _⟩ := fwd _ o ho
      exact ⟨o', ho', hid'.trans hid⟩
    · obtain ⟨o', ho', hid', _⟩ := fwd _ o ho
      exact ⟨o', ho', hid'.trans hid⟩
  · intro p hp
    have key : ∀ (ch : Chan) (o : Op), s.chans[p.2]? = some ch → s.ops[ch.opIdx]? = some o → o.id = p.1 →
        ∃ (ch' : Chan) (o' : Op), s'.chans[p.2]? = some ch' ∧ s'.ops[ch'.opIdx]? = some o' ∧ o'.id = p.1 := by
      intro ch o hc ho hid
      obtain ⟨ch', hc', hidx⟩ := hch _ ch hc
      obtain ⟨o', ho', hid', _⟩ := fwd _ o ho
      exact ⟨ch', o', hc', by rw [hidx]; exact ho', hid'.trans hid⟩
    rcases hsm p hp with hin | ⟨ch, o, hc, ho, hid⟩
    · obtain ⟨ch, o, hc, ho, hid⟩ := h.sm p hin
      exact key ch o hc ho hid
    · exact key ch o hc ho hid
  · intro i o' f ho' hm
    rcases hmail i o' f ho' hm with ⟨o, ho, hmo⟩ | hid
    · have := h.mail i o f ho hmo
      obtain ⟨o2, ho2, hid2, _⟩ := fwd i o ho
      rw [ho'] at ho2
      cases ho2
      rw [hid2]; exact this
    · exact hid.1
  · intro c ch' it hc' hit
    rcases hchb c ch' hc' with ⟨ch, hc, hidx, hitems⟩ | ⟨_, hempty⟩
    · have old : ∀ it ∈ ch.items, ∃ o : Op, s'.ops[ch'.opIdx]? = some o ∧ (itemFrame it).id = (o.id : Int) := by
        intro it hold
        obtain ⟨o, ho, hid⟩ := h.items c ch it hc hold
        obtain ⟨o', ho', hid', _⟩ := fwd _ o ho
        exact ⟨o', by rw [hidx]; exact ho', by rw [hid']; exact hid⟩
      rcases hitems with heq | ⟨nw, heq, ⟨o, ho, hid⟩, _⟩
      · rw [heq] at hit; exact old it hit
      · rw [heq] at hit
        simp only [List.mem_append, List.mem_singleton] at hit
        rcases hit with hit | rfl
        · exact old it hit
        · obtain ⟨o', ho', hid', _⟩ := fwd _ o ho
          exact ⟨o', by rw [hidx]; exact ho', by rw [hid']; exact hid⟩
    · rw [hempty] at hit; cases hit
  · intro i o' c ho' hcn
    rcases hback i o' ho' with ⟨o, ho, hs⟩ | ⟨_, _, hnew⟩
    · have hc : o.chan = some c := by rw [← (sig_id hs).2.2]; exact hcn
      obtain ⟨ch, hch1, hidx⟩ := h.chanOf i o c ho hc
      obtain ⟨ch', hc', hidx'⟩ := hch c ch hch1
      exact ⟨ch', hc', hidx'.trans hidx⟩
    · exact hnew c hcn
  · intro i o' f ho' hm
    rcases hmail i o' f ho' hm with ⟨o, ho, hmo⟩ | hid
    · exact hlog.subset (h.mailLog i o f ho hmo)
    · exact hid.2
  · intro c ch' hc'
    rcases hchb c ch' hc' with ⟨ch, hc, _, hitems⟩ | ⟨_, hempty⟩
    · rcases hitems with heq | ⟨nw, heq, _, hl⟩
      · rw [heq]; exact (h.itemsLog c ch hc).trans hlog.sublist
      · rw [heq, hl, List.map_append]
        exact List.Sublist.append (h.itemsLog c ch hc) (List.Sublist.refl _)
    · rw [hempty]; simp

/-- a step that changes only mailboxes/results/phases (tamely), shrinks the maps, and may consume
more of the server's log -/
theorem RouteInv.of_tameP {s s' : St} (h : RouteInv s) (hops : Tame s.ops s'.ops) (hc : s'.chans = s.chans)
    (hrm : ∀ p ∈ s'.resultmap, p ∈ s.resultmap) (hsm : ∀ p ∈ s'.searchmap, p ∈ s.searchmap)
    (hlog : (s.srvLog.take s.pos) <+: (s'.srvLog.take s'.pos)) (hpos : s'.pos ≤ s'.srvLog.length) : RouteInv s' := by
  apply h.transfer hops.sameSig
  · intro j o' ho'
    obtain ⟨o, ho, hs, _⟩ := hops.2 j o' ho'
    exact Or.inl ⟨o, ho, hs⟩
  · intro j o' f ho' hm
    obtain ⟨o, ho, _, hmm⟩ := hops.2 j o' ho'
    exact Or.inl ⟨o, ho, hmm f hm⟩
  · intro c ch hch; rw [hc]; exact ⟨ch, hch, rfl⟩
  · intro c ch' hch'
    rw [hc] at hch'
    exact Or.inl ⟨ch', hch', rfl, Or.inl rfl⟩
  · intro p hp; exact Or.inl (hrm p hp)
  · intro p hp; exact Or.inl (hsm p hp)
  · exact hlog
  · exact hpos

theorem RouteInv.of_tame {s s' : St} (h : RouteInv s) (hops : Tame s.ops s'.ops) (hc : s'.chans = s.chans)
    (hrm : ∀ p ∈ s'.resultmap, p ∈ s.resultmap) (hsm : ∀ p ∈ s'.searchmap, p ∈ s.searchmap)
    (hl : s'.srvLog = s.srvLog) (hp : s'.pos = s.pos) : RouteInv s' :=
  h.of_tameP hops hc hrm hsm (by rw [hl, hp]; exact List.prefix_refl _) (by rw [hl, hp]; exact h.posLe)

theorem RouteInv.init (N : Nat) : RouteInv (Conn.init N) := by
  refine ⟨?_, ?_, ?_, ?_, ?_, ?_, ?_, ?_⟩ <;> simp [Conn.init]

end Ldap3V.Conn

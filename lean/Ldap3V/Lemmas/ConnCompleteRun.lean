/- Completeness of search delivery over whole histories. -/
import Ldap3V.Lemmas.ConnCompleteEv
import Ldap3V.Lemmas.ConnUnbind
namespace Ldap3V.Conn

/-- everything the completeness argument carries along a run -/
structure Good (s : St) : Prop where
  route : RouteInv s
  keyU : KeyU s.searchmap
  qInv : QInv s
  p : ∀ c, P c s

theorem Good.init (N : Nat) : Good (Conn.init N) := by
  refine ⟨RouteInv.init N, keyU_nil, ⟨?_, ?_⟩, ?_⟩
  · intro i hi; simp [Conn.init] at hi
  · simp [Conn.init]
  · intro c ch hc; simp [Conn.init] at hc

theorem Good.step {s s' : St} {ob : Obs} (h : Good s) (e : Ev) (hs : Conn.step s e = some (s', ob)) : Good s' :=
  have sum := StepSum.step h.route h.keyU h.qInv e hs
  ⟨h.route.step e hs, sum.keyU, sum.qInv, fun c => (h.p c).step h.route (sum.cls c)⟩

theorem Good.run' (evs : List Ev) : ∀ s, Good s → Good (Conn.run s evs) := by
  induction evs with
  | nil => intro s hs; exact hs
  | cons e es ih =>
    intro s hs
    simp only [Conn.run, List.foldl_cons]
    cases hstep : Conn.step s e with
    | none => exact ih s hs
    | some r => obtain ⟨s', ob⟩ := r; exact ih s' (hs.step e hstep)

theorem Good.run (N : Nat) (evs : List Ev) : Good (Conn.run (Conn.init N) evs) := Good.run' evs _ (Good.init N)

/-- from a FIXED read position on, along any continuation -/
theorem CAt.run {c p0 i k : Nat} (evs : List Ev) : ∀ s, Good s → CAt c p0 s → TakenC c i k s →
    CAt c p0 (Conn.run s evs) ∧ TakenC c i k (Conn.run s evs) := by
  induction evs with
  | nil => intro s _ h ht; exact ⟨h, ht⟩
  | cons e es ih =>
    intro s hg h ht
    simp only [Conn.run, List.foldl_cons]
    cases hstep : Conn.step s e with
    | none => exact ih s hg h ht
    | some r =>
      obtain ⟨s', ob⟩ := r
      have sum := StepSum.step hg.route hg.keyU hg.qInv e hstep
      obtain ⟨h', ht'⟩ := h.step ht hg.route (sum.cls c)
      exact ih s' (hg.step e hstep) h' ht'

/-- what the driver's "take a request off the queue" step does to the request it takes -/
theorem drvOp_taken {s s' : St} {ob : Obs} {b : Bool} (hs : step s (.drvOp b) = some (s', ob)) {i : Nat} {rest : List Nat}
    {o : Op} (hqe : s.opQ = i :: rest) (ho : s.ops[i]? = some o) :
    s'.chans = s.chans ∧ s'.srvLog = s.srvLog ∧ s'.pos = s.pos ∧ ∃ o', s'.ops[i]? = some o' ∧ o'.phase = .taken := by
  have fin : ∀ (o1 : Op) (ops' : List Op), o1.phase = .taken → Fwd (s.ops.set i o1) ops' →
      ∃ o', ops'[i]? = some o' ∧ o'.phase = .taken := by
    intro o1 ops' h1 hf
    have hmid : (s.ops.set i o1)[i]? = some o1 := by rw [get_set _ i ho, if_pos rfl]
    obtain ⟨o', h2, _, h3⟩ := hf i o1 hmid
    exact ⟨o', h2, h3 h1⟩
  simp only [step] at hs
  split at hs
  · cases hs
  · rw [hqe] at hs
    simp only [ho] at hs
    split at hs
    · simp only [Option.some.injEq, Prod.mk.injEq] at hs
      rw [← hs.1]
      exact ⟨rfl, rfl, rfl, fin _ _ (by rfl) (fwdX_dropSender (fun _ => True) _ _).fwd⟩
    · split at hs
      · simp only [Option.some.injEq, Prod.mk.injEq] at hs
        rw [← hs.1]
        refine ⟨rfl, rfl, rfl, fin { o with phase := .taken } _ rfl ?_⟩
        refine Fwd.trans (b := dropSender (s.ops.set i { o with phase := .taken }) i)
          (fwdX_dropSender (fun _ => True) _ _).fwd ?_
        refine FwdX.fwd (X := fun _ => True) ?_
        exact fwdX_endDriver' _ _ _ _ rfl (fun _ _ => trivial)
      · split at hs
        · cases hs
        · split at hs
          · simp only [Option.some.injEq, Prod.mk.injEq] at hs
            rw [← hs.1]
            exact ⟨rfl, rfl, rfl, fin _ _ (by rfl) (fwdX_dropSenderOpt (fun _ => True) _ _).fwd⟩
          · simp only [Option.some.injEq, Prod.mk.injEq] at hs
            rw [← hs.1]
            exact ⟨rfl, rfl, rfl, fin _ _ (by rfl) (fwdX_ack (fun _ => True) _ _).fwd⟩
          · simp only [Option.some.injEq, Prod.mk.injEq] at hs
            rw [← hs.1]
            exact ⟨rfl, rfl, rfl, fin _ _ (by rfl)
              ((fwdX_dropSenderOpt (fun _ => True) _ _).trans (fwdX_ack (fun _ => True) _ _)).fwd⟩
          · simp only [Option.some.injEq, Prod.mk.injEq] at hs
            rw [← hs.1]
            exact ⟨rfl, rfl, rfl, fin _ _ (by rfl) (fwdX_ack (fun _ => True) _ _).fwd⟩

/-- a write that succeeds (`b = true`) needs an open sink: after Unbind `drvOp true` is not enabled -/
theorem drvOp_enabled {s : St} (b : Bool) {i : Nat} {rest : List Nat} {o : Op} (hd : s.drv = .running)
    (hqe : s.opQ = i :: rest) (ho : s.ops[i]? = some o) (hsk : b = true → s.sinkClosed = false) :
    ∃ s' ob, step s (.drvOp b) = some (s', ob) := by
  simp only [step, hd, hqe, ho]
  simp only [ne_eq, not_true_eq_false, if_false]
  split
  · exact ⟨_, _, rfl⟩
  · split
    · exact ⟨_, _, rfl⟩
    · next hb =>
      have hb' : b = true := by simpa using hb
      rw [hsk hb']
      simp only [Bool.false_eq_true, if_false]
      split <;> exact ⟨_, _, rfl⟩

theorem run_app (s : St) (a b : List Ev) : Conn.run s (a ++ b) = Conn.run (Conn.run s a) b := by
  simp [Conn.run, List.foldl_append]

/-- The driver takes the request of search `o` (operation number `i`, channel `c`) off the queue when
its read position is `p0`: from then on, whatever happens, channel `c` is complete from `p0`.
(`hsk`: a successful write needs an open sink; the case of a closed sink is `shut_from`.) -/
theorem complete_from (N : Nat) (pre post : List Ev) (b : Bool) {i c : Nat} {o : Op}
    (hd : (Conn.run (Conn.init N) pre).drv = .running) (hq : (Conn.run (Conn.init N) pre).opQ.head? = some i)
    (ho : (Conn.run (Conn.init N) pre).ops[i]? = some o) (hc : o.chan = some c)
    (hsk : b = true → (Conn.run (Conn.init N) pre).sinkClosed = false) :
    CAt c (Conn.run (Conn.init N) pre).pos (Conn.run (Conn.init N) (pre ++ Ev.drvOp b :: post)) ∧
    TakenC c i o.id (Conn.run (Conn.init N) (pre ++ Ev.drvOp b :: post)) := by
  have hg0 := Good.run N pre
  rw [run_app]
  generalize Conn.run (Conn.init N) pre = s0 at hd hq ho hg0 hsk ⊢
  obtain ⟨rest, hqe⟩ : ∃ rest, s0.opQ = i :: rest := by
    cases hl : s0.opQ with
    | nil => rw [hl] at hq; cases hq
    | cons a rest => rw [hl] at hq; simp only [List.head?_cons, Option.some.injEq] at hq; exact ⟨rest, by rw [hq]⟩
  obtain ⟨s1, ob, hs1⟩ := drvOp_enabled b hd hqe ho hsk
  obtain ⟨hch, hlog, hpos, o', ho', hph'⟩ := drvOp_taken hs1 hqe ho
  obtain ⟨ch, hchan, hidx⟩ := hg0.route.chanOf i o c ho hc
  have hiq : o.phase = .queued := by
    obtain ⟨o2, h1, h2⟩ := hg0.qInv.qPhase i (by rw [hqe]; simp)
    rw [ho] at h1; cases h1; exact h2
  have hemp : ch.items = [] := by
    obtain ⟨o3, ho3, hcase⟩ := hg0.p c ch hchan
    rw [hidx, ho] at ho3; cases ho3
    rcases hcase with ⟨ht, _⟩ | ⟨_, he, _⟩
    · rw [hiq] at ht; cases ht
    · exact he
  have hfresh : CAt c (consumed s1).length s1 := CAt.fresh (fun ch2 h2 => by rw [hch, hchan] at h2; cases h2; exact hemp)
  have hlen : (consumed s1).length = s0.pos := by
    have := hg0.route.posLe
    simp only [consumed, hlog, hpos, List.length_take]; omega
  rw [hlen] at hfresh
  have hid' : o'.id = o.id := by
    have sum := StepSum.step hg0.route hg0.keyU hg0.qInv _ hs1
    have hf : Fwd s0.ops s1.ops := by
      rcases sum.cls 0 with q | r | a
      · exact q.ops
      · exact r.ops
      · obtain ⟨_, _, _, _, _, _, _, _, _, _, _, _, e, _⟩ := a
        rw [e]; exact Fwd.refl _
    obtain ⟨o2, h1, h2, _⟩ := hf i o ho
    rw [ho'] at h1; cases h1; exact h2
  have ht : TakenC c i o.id s1 := ⟨ch, o', by rw [hch]; exact hchan, hidx, ho', hid', hph'⟩
  have hrun : Conn.run s0 (Ev.drvOp b :: post) = Conn.run s1 post := by
    simp only [Conn.run, List.foldl_cons, hs1]
  rw [hrun]
  exact CAt.run post s1 (hg0.step _ hs1) hfresh ht

/-- The other case: the sink is already closed (an Unbind has been written) when the request of search `o` waits
at the head of the queue.  `drvOp true` is not enabled then; whatever happens afterwards (the request is skipped, or
its write fails and the driver ends) channel `c` is never registered and never receives anything. -/
theorem shut_from (N : Nat) (pre evs : List Ev) {i c : Nat} {o : Op}
    (hq : (Conn.run (Conn.init N) pre).opQ.head? = some i)
    (ho : (Conn.run (Conn.init N) pre).ops[i]? = some o) (hc : o.chan = some c)
    (hsk : (Conn.run (Conn.init N) pre).sinkClosed = true) :
    Shut c (Conn.run (Conn.init N) (pre ++ evs)) := by
  have hg0 := Good.run N pre
  rw [run_app]
  generalize Conn.run (Conn.init N) pre = s0 at hq ho hg0 hsk ⊢
  apply Shut.run
  obtain ⟨ch, hchan, hidx⟩ := hg0.route.chanOf i o c ho hc
  have hiq : o.phase = .queued := by
    have hmem : i ∈ s0.opQ := by
      cases hl : s0.opQ with
      | nil => rw [hl] at hq; cases hq
      | cons a rest =>
        rw [hl] at hq; simp only [List.head?_cons, Option.some.injEq] at hq
        rw [hq]; exact List.mem_cons_self
    obtain ⟨o2, h1, h2⟩ := hg0.qInv.qPhase i hmem
    rw [ho] at h1; cases h1; exact h2
  obtain ⟨o3, ho3, hcase⟩ := hg0.p c ch hchan
  rw [hidx, ho] at ho3; cases ho3
  rcases hcase with ⟨ht, _⟩ | ⟨_, he, hno⟩
  · rw [hiq] at ht; cases ht
  · refine ⟨hsk, hno, fun ch2 h2 => ?_⟩
    rw [hchan] at h2; cases h2; exact he

/-! ### the statements spelled out over `srvLog` and `pos` -/

theorem entry_of {it : Item} (h1 : isEntry it = true) (h2 : classOk it) :
    ∃ f, it = .entry f ∧ (f.op = 4 ∨ f.op = 25 ∨ f.op = 19) := by
  cases it with
  | entry f => exact ⟨f, rfl, h2⟩
  | done f => cases h1

theorem CAt.explicit_open {c p0 : Nat} {s : St} (h : CAt c p0 s) {ch : Chan} {k : Nat}
    (hc : s.chans[c]? = some ch) (hreg : (k, c) ∈ s.searchmap) :
    (∀ it ∈ ch.items, ∃ f, it = .entry f ∧ (f.op = 4 ∨ f.op = 25 ∨ f.op = 19)) ∧
    (ch.rxAlive = true →
      ch.items.map itemFrame = ((s.srvLog.take s.pos).drop p0).filter (fun f => f.id == (k : Int))) := by
  obtain ⟨h1, h2⟩ := h.open_ ch k hc hreg
  refine ⟨fun it hit => entry_of (h1 it hit) (h.cls ch it hc hit), fun hal => ?_⟩
  have := h2 hal
  unfold seg at this
  rw [List.take_length] at this
  exact this

theorem CAt.explicit_closed {c p0 : Nat} {s : St} (h : CAt c p0 s) (hr : RouteInv s) {ch : Chan} {o : Op} {f : Frame}
    (hc : s.chans[c]? = some ch) (ho : s.ops[ch.opIdx]? = some o) (hf : Item.done f ∈ ch.items) :
    ∃ (p1 : Nat) (es : List Item), p0 < p1 ∧ p1 ≤ s.pos ∧ s.srvLog[p1 - 1]? = some f ∧ f.op = 5 ∧ f.good = true ∧
      ch.items = es ++ [Item.done f] ∧ (∀ it ∈ es, ∃ g, it = .entry g ∧ (g.op = 4 ∨ g.op = 25 ∨ g.op = 19)) ∧
      ch.items.map itemFrame = ((s.srvLog.take p1).drop p0).filter (fun g => g.id == (o.id : Int)) := by
  obtain ⟨o2, p1, es, ho2, hp0, hp1, hget, hes, hent, hseg⟩ := h.closed ch f hc hf
  rw [ho] at ho2; cases ho2
  have hlen := consumed_length hr.posLe
  rw [hlen] at hp1
  have hcl : classOk (Item.done f) := h.cls ch _ hc hf
  refine ⟨p1, es, hp0, hp1, ?_, hcl.1, hcl.2, hes, ?_, ?_⟩
  · have : p1 - 1 < s.pos := by omega
    simpa [consumed, List.getElem?_take, this] using hget
  · intro it hit
    exact entry_of (hent it hit) (h.cls ch it hc (by rw [hes]; simp [hit]))
  · rw [hseg]
    simp only [seg, consumed, List.take_take]
    rw [Nat.min_eq_left hp1]

/-- what `routeSearch` hands on to a search: entries, intermediate responses, references, and a
well-formed SearchResultDone -/
def deliverable (f : Frame) : Bool := f.op == 4 || f.op == 25 || f.op == 19 || (f.op == 5 && f.good)

theorem classOk_deliverable {it : Item} (h : classOk it) : deliverable (itemFrame it) = true := by
  cases it with
  | entry f =>
    simp only [classOk] at h
    simp only [deliverable, itemFrame, Bool.or_eq_true, beq_iff_eq, Bool.and_eq_true]
    rcases h with h | h | h
    · exact Or.inl (Or.inl (Or.inl h))
    · exact Or.inl (Or.inl (Or.inr h))
    · exact Or.inl (Or.inr h)
  | done f =>
    simp only [classOk] at h
    simp only [deliverable, itemFrame, Bool.or_eq_true, beq_iff_eq, Bool.and_eq_true]
    exact Or.inr h

/-- restating an "all frames with the ID" equation as "all deliverable frames with the ID" -/
theorem filter_deliverable {items : List Item} {L : List Frame} {k : Int} (hcls : ∀ it ∈ items, classOk it)
    (h : items.map itemFrame = L.filter (fun f => f.id == k)) :
    items.map itemFrame = L.filter (fun f => f.id == k && deliverable f) := by
  have e : L.filter (fun f => f.id == k && deliverable f) = (L.filter (fun f => f.id == k)).filter deliverable := by
    rw [List.filter_filter]
    congr 1
    funext f
    exact Bool.and_comm _ _
  rw [e, ← h, List.filter_eq_self.mpr]
  intro f hf
  obtain ⟨it, hit, rfl⟩ := List.mem_map.mp hf
  exact classOk_deliverable (hcls it hit)

end Ldap3V.Conn

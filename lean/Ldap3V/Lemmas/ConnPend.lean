/- No caller is left waiting for a reply nobody will give: a taken operation with an empty reply slot
is registered in the result map, in every reachable state.  Used for C04. -/
import Ldap3V.Lemmas.ConnUniq
namespace Ldap3V.Conn

/-- an operation the driver has taken and whose reply slot is still empty is registered in the
result map: somebody will fill the slot or drop its sender -/
def Pend (s : St) : Prop :=
  ∀ (i : Nat) (o : Op), s.ops[i]? = some o → o.phase = .taken → o.mail = .empty → (o.id, i) ∈ s.resultmap

theorem Pend.init (N : Nat) : Pend (Conn.init N) := by
  intro i o ho; simp [Conn.init] at ho

theorem rm_key_unique {s : St} (h : Uniq s) (ha : Acct s) :
    ∀ p ∈ s.resultmap, ∀ q ∈ s.resultmap, p.1 = q.1 → p.2 = q.2 := by
  intro p hp q hq e
  obtain ⟨o1, ho1, hid1, _⟩ := ha.rmOk p hp
  obtain ⟨o2, ho2, hid2, _⟩ := ha.rmOk q hq
  exact h.uniq p.2 q.2 o1 o2 ho1 ho2 (Or.inr (Or.inr (Or.inl (by rw [hid1]; exact hp))))
    (Or.inr (Or.inr (Or.inl (by rw [hid2]; exact hq)))) (by rw [hid1, hid2, e])

theorem lookup_is {s : St} (h : Uniq s) (ha : Acct s) {k : Int} {j n i : Nat} (hl : lookup s.resultmap k = some j)
    (hmem : (n, i) ∈ s.resultmap) (hn : (n : Int) = k) : j = i := by
  obtain ⟨n', hmem', hn'⟩ := lookup_some hl
  have : n' = n := by rw [← hn] at hn'; exact_mod_cast hn'
  exact rm_key_unique h ha _ hmem' _ hmem this

/-- existing operations keep ID, phase and mailbox -/
def Same3 (ops ops' : List Op) : Prop :=
  ∀ (j : Nat) (o' : Op), ops'[j]? = some o' → ∃ o : Op, ops[j]? = some o ∧ o'.id = o.id ∧ o'.phase = o.phase ∧ o'.mail = o.mail

theorem Same3.refl (ops : List Op) : Same3 ops ops := fun _ o' h => ⟨o', h, rfl, rfl, rfl⟩

theorem same3_set (ops : List Op) (i : Nat) (o o' : Op) (ho : ops[i]? = some o)
    (h1 : o'.id = o.id) (h2 : o'.phase = o.phase) (h3 : o'.mail = o.mail) : Same3 ops (ops.set i o') := by
  intro j x h
  rw [get_set _ j ho] at h
  split at h
  · next hj => subst hj; cases h; exact ⟨o, ho, h1, h2, h3⟩
  · exact ⟨x, h, rfl, rfl, rfl⟩

theorem Pend.of_same {s s' : St} (h : Pend s) (hm : Same3 s.ops s'.ops) (hrm : s'.resultmap = s.resultmap) : Pend s' := by
  intro i o' ho' hp hmail
  obtain ⟨o, ho, e1, e2, e3⟩ := hm i o' ho'
  rw [hrm, e1]
  exact h i o ho (by rw [← e2]; exact hp) (by rw [← e3]; exact hmail)

macro "same3_tac" : tactic => `(tactic| first
  | exact Same3.refl _
  | exact same3_set _ _ _ _ (by assumption) (by rfl) (by rfl) (by rfl))

theorem Pend.endDriver {s : St} (h : Pend s) (how : Drv) : Pend (Conn.endDriver s how) := by
  intro j o' ho' hp hmail
  exfalso
  rw [endDriver_get] at ho'
  cases ho : s.ops[j]? with
  | none => rw [ho] at ho'; cases ho'
  | some o =>
    rw [ho] at ho'
    simp only [Option.map_some, Option.some.injEq] at ho'
    have hd : ∀ m : Mail, dropIf m ≠ .empty := by
      intro m; unfold dropIf; split
      · simp
      · assumption
    split at ho'
    · rw [← ho'] at hmail; exact hd _ hmail
    · split at ho'
      · rw [← ho'] at hmail; exact hd _ hmail
      · next hany =>
        rw [← ho'] at hp hmail
        have := h j o ho hp hmail
        apply hany
        simp only [List.any_eq_true, beq_iff_eq]
        exact ⟨_, this, rfl⟩

theorem Pend.simple {s s' : St} {ob : Obs} (h : Pend s) (e : Ev)
    (he : (∃ i, e = .poll i) ∨ (∃ c d, e = .recv c d) ∨ (∃ c b, e = .finish c b) ∨ e = .dropHandles ∨ (∃ f, e = .srvSend f) ∨
      e = .srvClose ∨ e = .srvGarbage ∨ (∃ d, e = .tick d) ∨ e = .drvOpClosed ∨ e = .drvMiscClosed)
    (hs : Conn.step s e = some (s', ob)) : Pend s' := by
  rcases he with ⟨i, rfl⟩ | ⟨c, d, rfl⟩ | ⟨c, b, rfl⟩ | rfl | ⟨f, rfl⟩ | rfl | rfl | ⟨d, rfl⟩ | rfl | rfl
  all_goals
    simp only [Conn.step] at hs
    repeat' (split at hs)
    all_goals first
      | (cases hs; done)
      | (simp only [Option.some.injEq, Prod.mk.injEq] at hs
         obtain ⟨rfl, _⟩ := hs
         first
          | exact h
          | exact h.endDriver _
          | exact h.of_same (by same3_tac) rfl)

theorem Pend.alloc {s s' : St} {ob : Obs} (h : Pend s) (kind : Kind)
    (hs : Conn.step s (.alloc kind) = some (s', ob)) : Pend s' := by
  simp only [Conn.step] at hs
  cases hn : nextId s.N s.last s.inUse with
  | diverge => rw [hn] at hs; cases hs
  | panic =>
    rw [hn] at hs
    simp only [Option.some.injEq, Prod.mk.injEq] at hs
    rw [← hs.1]; exact h
  | ok k =>
    rw [hn] at hs
    simp only [Option.some.injEq, Prod.mk.injEq] at hs
    obtain ⟨rfl, _⟩ := hs
    have key : ∀ (nw : Op), nw.phase = .allocated → ∀ (j : Nat) (oj : Op), (s.ops ++ [nw])[j]? = some oj →
        oj.phase = .taken → oj.mail = .empty → (oj.id, j) ∈ s.resultmap := by
      intro nw hnw j oj hj' hp hm
      by_cases hlt : j < s.ops.length
      · rw [List.getElem?_append_left hlt] at hj'
        exact h j oj hj' hp hm
      · rw [List.getElem?_append_right (by omega)] at hj'
        by_cases he : j - s.ops.length = 0
        · rw [he] at hj'
          simp only [List.getElem?_cons_zero, Option.some.injEq] at hj'
          rw [← hj', hnw] at hp; cases hp
        · have : (j - s.ops.length) = (j - s.ops.length - 1) + 1 := by omega
          rw [this] at hj'; simp at hj'
    exact key _ rfl

theorem Pend.enqueue {s s' : St} {ob : Obs} (h : Pend s) (i : Nat) (tmo : Option Nat)
    (hs : Conn.step s (.enqueue i tmo) = some (s', ob)) : Pend s' := by
  simp only [Conn.step] at hs
  split at hs
  · cases hs
  · next o ho =>
    split at hs
    · cases hs
    · split at hs
      all_goals
        simp only [Option.some.injEq, Prod.mk.injEq] at hs
        obtain ⟨rfl, _⟩ := hs
        intro j oj hj hp hm
        have hj' := hj
        simp only at hj'
        rw [get_set _ j ho] at hj'
        split at hj'
        · cases hj'
          first
          | (cases hm; done)
          | (cases hp; done)
        · exact h j oj hj' hp hm

/-- dropping the sender registered under `k` and erasing `k` from the result map -/
theorem Pend.dropErase {s : St} (h : Pend s) (hu : Uniq s) (ha : Acct s) (k : Int) :
    ∀ (j : Nat) (oj' : Op), (dropSenderOpt s.ops (lookup s.resultmap k))[j]? = some oj' → oj'.phase = .taken →
      oj'.mail = .empty → (oj'.id, j) ∈ erase s.resultmap k := by
  intro j oj' hj hp hm
  obtain ⟨oj, hoj, e1, _, _, _, e5, _, e7, e8⟩ := dropSenderOpt_get _ _ j oj' hj
  have hm0 : oj.mail = .empty := by
    rcases e8 with e | ⟨_, e⟩
    · rw [← e]; exact hm
    · rw [e] at hm; cases hm
  have hreg := h j oj hoj (by rw [← e5]; exact hp) hm0
  rw [e1]
  apply mem_erase_of hreg
  intro hk
  -- then `j` is the operation whose sender was dropped
  cases hl : lookup s.resultmap k with
  | none => exact lookup_none hl _ hreg hk
  | some j' =>
    have : j' = j := lookup_is hu ha hl hreg hk
    subst this
    rw [hl] at hj
    simp only [dropSenderOpt, dropSender_get, if_pos, hoj, Option.map_some, hm0, Option.some.injEq] at hj
    rw [← hj] at hm; cases hm

theorem Pend.drvScrub {s s' : St} {ob : Obs} (h : Pend s) (hu : Uniq s) (ha : Acct s)
    (hs : Conn.step s .drvScrub = some (s', ob)) : Pend s' := by
  simp only [Conn.step] at hs
  split at hs
  · cases hs
  · split at hs
    · cases hs
    · next k rest hq =>
      simp only [Option.some.injEq, Prod.mk.injEq] at hs
      obtain ⟨rfl, _⟩ := hs
      exact h.dropErase hu ha k

theorem Pend.drvOp {s s' : St} {ob : Obs} {sendOk : Bool} (h : Pend s) (hu : Uniq s) (ha : Acct s)
    (hs : Conn.step s (.drvOp sendOk) = some (s', ob)) : Pend s' := by
  simp only [Conn.step] at hs
  split at hs
  · cases hs
  · split at hs
    · cases hs
    · next i rest hq =>
      split at hs
      · cases hs
      · next o ho =>
        obtain ⟨hoq, hom, hni, _, _⟩ := ha.head hq ho
        obtain ⟨hnr, _⟩ := hu.head_not_in_maps ha hq ho
        -- the state in which the request has been taken but nothing else has happened yet
        have hset_i : ∀ o' : Op, (s.ops.set i o')[i]? = some o' := fun o' => by rw [get_set _ _ ho, if_pos rfl]
        have hset_j : ∀ (o' : Op) (j : Nat), j ≠ i → (s.ops.set i o')[j]? = s.ops[j]? :=
          fun o' j hji => by rw [get_set _ _ ho, if_neg hji]
        -- generic: the taken request `i` ends with a non-empty mailbox or registered; everybody else as before
        have others : ∀ (o' : Op) (j : Nat) (oj : Op), j ≠ i → (s.ops.set i o')[j]? = some oj → oj.phase = .taken →
            oj.mail = .empty → (oj.id, j) ∈ s.resultmap :=
          fun o' j oj hji hj hp hm => h j oj (by rw [← hset_j o' j hji]; exact hj) hp hm
        split at hs
        · -- skipped
          simp only [Option.some.injEq, Prod.mk.injEq] at hs
          obtain ⟨rfl, _⟩ := hs
          intro j oj hj hp hm
          have hj' : (dropSender (s.ops.set i _) i)[j]? = some oj := hj
          rw [dropSender_get] at hj'
          by_cases hji : j = i
          · subst hji
            rw [if_pos rfl, hset_i] at hj'
            simp only [Option.map_some, hom, if_true, Option.some.injEq] at hj'
            rw [← hj'] at hm; cases hm
          · rw [if_neg hji] at hj'
            exact others _ j oj hji hj' hp hm
        · split at hs
          · -- send failure
            simp only [Option.some.injEq, Prod.mk.injEq] at hs
            obtain ⟨rfl, _⟩ := hs
            apply Pend.endDriver
            intro j oj hj hp hm
            have hj' : (dropSender (s.ops.set i _) i)[j]? = some oj := hj
            rw [dropSender_get] at hj'
            by_cases hji : j = i
            · subst hji
              rw [if_pos rfl, hset_i] at hj'
              simp only [Option.map_some, hom, if_true, Option.some.injEq] at hj'
              rw [← hj'] at hm; cases hm
            · rw [if_neg hji] at hj'
              exact others _ j oj hji hj' hp hm
          · split at hs
            · cases hs
            · split at hs
              · -- single
                simp only [Option.some.injEq, Prod.mk.injEq] at hs
                obtain ⟨rfl, _⟩ := hs
                intro j oj hj hp hm
                have hj' : (dropSenderOpt (s.ops.set i _) (lookup s.resultmap o.id))[j]? = some oj := hj
                have hnone : lookup s.resultmap (o.id : Int) = none := by
                  cases hl : lookup s.resultmap (o.id : Int) with
                  | none => rfl
                  | some j' =>
                    obtain ⟨n, hmem, hn⟩ := lookup_some hl
                    exact absurd (by exact_mod_cast hn) (hnr _ hmem)
                rw [hnone] at hj'
                show (oj.id, j) ∈ insert s.resultmap o.id i
                by_cases hji : j = i
                · subst hji
                  have : (s.ops.set j _)[j]? = some oj := hj'
                  rw [hset_i] at this; cases this
                  exact mem_insert_iff.mpr (Or.inl rfl)
                · have := others _ j oj hji hj' hp hm
                  exact mem_insert_iff.mpr (Or.inr ⟨this, hnr _ this⟩)
              · -- search
                simp only [Option.some.injEq, Prod.mk.injEq] at hs
                obtain ⟨rfl, _⟩ := hs
                intro j oj hj hp hm
                have hj' : (modifyOp (s.ops.set i _) i _)[j]? = some oj := hj
                rw [modifyOp_get] at hj'
                by_cases hji : j = i
                · subst hji
                  rw [if_pos rfl, hset_i] at hj'
                  simp only [Option.map_some, Option.some.injEq] at hj'
                  rw [← hj'] at hm; cases hm
                · rw [if_neg hji] at hj'
                  exact others _ j oj hji hj' hp hm
              · next t hkind =>
                -- abandon
                simp only [Option.some.injEq, Prod.mk.injEq] at hs
                obtain ⟨rfl, _⟩ := hs
                intro j oj hj hp hm
                have hj' : (modifyOp (dropSenderOpt (s.ops.set i _) (lookup s.resultmap t)) i _)[j]? = some oj := hj
                rw [modifyOp_get] at hj'
                show (oj.id, j) ∈ erase s.resultmap t
                by_cases hji : j = i
                · subst hji
                  rw [if_pos rfl] at hj'
                  cases hd : (dropSenderOpt (s.ops.set j _) (lookup s.resultmap t))[j]? with
                  | none => rw [hd] at hj'; cases hj'
                  | some x =>
                    rw [hd] at hj'
                    simp only [Option.map_some, Option.some.injEq] at hj'
                    rw [← hj'] at hm; cases hm
                · rw [if_neg hji] at hj'
                  -- same as a scrub of `t`, on the state in which `i` has been taken
                  obtain ⟨oj0, hoj0, e1, _, _, _, e5, _, e7, e8⟩ := dropSenderOpt_get _ _ j oj hj'
                  rw [hset_j _ j hji] at hoj0
                  have hm0 : oj0.mail = .empty := by
                    rcases e8 with e | ⟨_, e⟩
                    · rw [← e]; exact hm
                    · rw [e] at hm; cases hm
                  have hreg := h j oj0 hoj0 (by rw [← e5]; exact hp) hm0
                  rw [e1]
                  apply mem_erase_of hreg
                  intro hk
                  cases hl : lookup s.resultmap t with
                  | none => exact lookup_none hl _ hreg hk
                  | some j' =>
                    have : j' = j := lookup_is hu ha hl hreg hk
                    subst this
                    rw [hl] at hj'
                    simp only [dropSenderOpt, dropSender_get, if_pos, hset_j _ j' hji, hoj0, Option.map_some, hm0,
                      Option.some.injEq] at hj'
                    rw [← hj'] at hm; cases hm
              · -- unbind
                simp only [Option.some.injEq, Prod.mk.injEq] at hs
                obtain ⟨rfl, _⟩ := hs
                intro j oj hj hp hm
                have hj' : (modifyOp (s.ops.set i _) i _)[j]? = some oj := hj
                rw [modifyOp_get] at hj'
                by_cases hji : j = i
                · subst hji
                  rw [if_pos rfl, hset_i] at hj'
                  simp only [Option.map_some, Option.some.injEq] at hj'
                  rw [← hj'] at hm; cases hm
                · rw [if_neg hji] at hj'
                  exact others _ j oj hji hj' hp hm

theorem Pend.route {s : St} (h : Pend s) (c : Nat) (f : Frame) : Pend (routeSearch s c f) := by
  have key : ∀ (b : Bool) (chans' : List Chan),
      Pend (if b = true then ({ s with chans := chans', searchmap := erase s.searchmap f.id, inUse := eraseId s.inUse f.id } : St)
        else { s with chans := chans' }) := by
    intro b chans'
    cases b with
    | true => rw [if_pos rfl]; exact fun j oj hj hp hm => h j oj hj hp hm
    | false => rw [if_neg (by simp)]; exact fun j oj hj hp hm => h j oj hj hp hm
  unfold routeSearch
  by_cases h1 : f.op = 4 ∨ f.op = 25 ∨ f.op = 19
  · simp only [h1, if_true]
    exact key _ _
  · simp only [h1, if_false]
    by_cases h2 : f.op = 5
    · simp only [h2, if_true]
      by_cases h3 : f.good = true
      · simp only [h3, if_true]
        exact key _ _
      · simp only [h3]
        exact h.endDriver _
    · simp only [h2, if_false]
      exact h.endDriver _

theorem Pend.drvResp {s s' : St} {ob : Obs} (h : Pend s) (hu : Uniq s) (ha : Acct s)
    (hs : Conn.step s .drvResp = some (s', ob)) : Pend s' := by
  simp only [Conn.step] at hs
  split at hs
  · cases hs
  · split at hs
    · next f hf =>
      have h1 : Pend ({ s with pos := s.pos + 1 } : St) := fun j oj hj hp hm => h j oj hj hp hm
      split at hs
      · next c hl =>
        simp only [Option.some.injEq, Prod.mk.injEq] at hs
        rw [← hs.1]
        exact h1.route c f
      · next hl =>
        split at hs
        · next i hl2 =>
          simp only [Option.some.injEq, Prod.mk.injEq] at hs
          obtain ⟨rfl, _⟩ := hs
          obtain ⟨n, hmem, hn⟩ := lookup_some hl2
          obtain ⟨oi, hoi, _, _, hmi, _⟩ := ha.rmOk _ hmem
          intro j oj hj hp hm
          have hj' : (modifyOp s.ops i _)[j]? = some oj := hj
          rw [modifyOp_get] at hj'
          show (oj.id, j) ∈ erase s.resultmap f.id
          by_cases hji : j = i
          · subst hji
            simp only at hoi
            rw [if_pos rfl, hoi] at hj'
            simp only [Option.map_some, hmi, if_true, Option.some.injEq] at hj'
            rw [← hj'] at hm; cases hm
          · rw [if_neg hji] at hj'
            have hreg := h j oj hj' hp hm
            apply mem_erase_of hreg
            intro hk
            exact hji (lookup_is hu ha hl2 hreg hk).symm
        · simp only [Option.some.injEq, Prod.mk.injEq] at hs
          rw [← hs.1]; exact h1
    · split at hs
      · cases hs
      · simp only [Option.some.injEq, Prod.mk.injEq] at hs
        rw [← hs.1]; exact h.endDriver _
      · simp only [Option.some.injEq, Prod.mk.injEq] at hs
        rw [← hs.1]; exact h.endDriver _

theorem Pend.step {s s' : St} {ob : Obs} (h : Pend s) (hu : Uniq s) (ha : Acct s) (e : Ev)
    (hs : Conn.step s e = some (s', ob)) : Pend s' := by
  cases e with
  | alloc k => exact h.alloc k hs
  | enqueue i t => exact h.enqueue i t hs
  | poll i => exact h.simple _ (Or.inl ⟨i, rfl⟩) hs
  | recv c d => exact h.simple _ (Or.inr (Or.inl ⟨c, d, rfl⟩)) hs
  | finish c b => exact h.simple _ (Or.inr (Or.inr (Or.inl ⟨c, b, rfl⟩))) hs
  | dropHandles => exact h.simple _ (Or.inr (Or.inr (Or.inr (Or.inl rfl)))) hs
  | srvSend f => exact h.simple _ (Or.inr (Or.inr (Or.inr (Or.inr (Or.inl ⟨f, rfl⟩))))) hs
  | srvClose => exact h.simple _ (Or.inr (Or.inr (Or.inr (Or.inr (Or.inr (Or.inl rfl)))))) hs
  | srvGarbage => exact h.simple _ (Or.inr (Or.inr (Or.inr (Or.inr (Or.inr (Or.inr (Or.inl rfl))))))) hs
  | tick d => exact h.simple _ (Or.inr (Or.inr (Or.inr (Or.inr (Or.inr (Or.inr (Or.inr (Or.inl ⟨d, rfl⟩)))))))) hs
  | drvOpClosed => exact h.simple _ (Or.inr (Or.inr (Or.inr (Or.inr (Or.inr (Or.inr (Or.inr (Or.inr (Or.inl rfl))))))))) hs
  | drvMiscClosed => exact h.simple _ (Or.inr (Or.inr (Or.inr (Or.inr (Or.inr (Or.inr (Or.inr (Or.inr (Or.inr rfl))))))))) hs
  | drvScrub => exact h.drvScrub hu ha hs
  | drvOp ok => exact h.drvOp hu ha hs
  | drvResp => exact h.drvResp hu ha hs

/-- all four invariants along any run -/
theorem Pend.run' (evs : List Ev) : ∀ s, Pend s → Uniq s → Acct s → RouteInv s → FreshRun2 s evs →
    Pend (Conn.run s evs) ∧ Uniq (Conn.run s evs) ∧ Acct (Conn.run s evs) ∧ RouteInv (Conn.run s evs) := by
  induction evs with
  | nil => intro s h hu ha hr _; exact ⟨h, hu, ha, hr⟩
  | cons e es ih =>
    intro s h hu ha hr hf
    have hf : FreshAt2 s e ∧ FreshRun2 (next s e) es := hf
    rw [run_cons]
    cases hst : Conn.step s e with
    | none =>
      have : next s e = s := by simp only [next, hst]
      rw [this] at hf ⊢
      exact ih s h hu ha hr hf.2
    | some p =>
      obtain ⟨s', ob⟩ := p
      have : next s e = s' := by simp only [next, hst]
      rw [this] at hf ⊢
      exact ih s' (h.step hu ha e hst) (hu.step hr ha e hf.1 hst) (ha.step hr e hf.1.weaken hst) (hr.step e hst) hf.2

theorem reach (N : Nat) (evs : List Ev) (hf : FreshRun2 (Conn.init N) evs) :
    Pend (Conn.run (Conn.init N) evs) ∧ Uniq (Conn.run (Conn.init N) evs) ∧ Acct (Conn.run (Conn.init N) evs) ∧
    RouteInv (Conn.run (Conn.init N) evs) :=
  Pend.run' evs _ (Pend.init N) (Uniq.init N) (Acct.init N) (RouteInv.init N) hf

end Ldap3V.Conn

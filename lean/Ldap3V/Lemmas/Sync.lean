/-
C14 — lemmas: a faithful table makes one sync call equal to the corresponding async call.
-/
import Ldap3V.Spec.Sync
namespace Ldap3V.Sync

theorem passThrough_eval (args : List Val) : (passThrough args.length).map (·.eval args) = args := by
  apply List.ext_getElem
  · simp [passThrough]
  · intro i h1 h2
    simp [passThrough, Expr.eval, List.getD_eq_getElem?_getD, h2]

theorem lookup_some {t : List SyncEntry} {o n : String} {r : SyncEntry} (h : lookup t o n = some r) :
    r ∈ t ∧ r.owner = o ∧ r.name = n := by
  unfold lookup at h
  have h1 := List.mem_of_find?_eq_some h
  have h2 := List.find?_some h
  simp at h2
  exact ⟨h1, h2.1, h2.2⟩

theorem rowOk_of_mem {a : AsyncInfo} {t : List SyncEntry} (h : TableFaithful a t = true) {r : SyncEntry} (hr : r ∈ t) :
    rowOk a t r = true := by
  unfold TableFaithful at h
  exact List.all_eq_true.mp h r hr

variable {σ ρ : Type}

/-- a method that is neither a modifier nor a getter is opaque -/
theorem asyncMethod_opaque (a : AsyncInfo) (b : AsyncBehaviour σ ρ) (s : σ) (recv : Recv) (m : String) (args : List Val)
    (h1 : a.setter m = none) (h2 : a.getter m = none) : asyncMethod a b s recv m args = b.call s recv m args := by
  unfold asyncMethod
  split <;> simp [h1, h2]

/-- the arguments the table must pass reach the async method as the arguments the caller supplied -/
theorem asyncMethod_expectedArgs (a : AsyncInfo) (b : AsyncBehaviour σ ρ) (s : σ) (owner name : String) (args : List Val)
    (h1 : a.setter (expectedCallee owner name) = none) (h2 : a.getter (expectedCallee owner name) = none) :
    asyncMethod a b s (expectedRecv owner name) (expectedCallee owner name)
        ((expectedArgs owner name args.length).map (·.eval args)) =
      asyncMethod a b s (expectedRecv owner name) (expectedCallee owner name) args := by
  rw [asyncMethod_opaque _ _ _ _ _ _ h1 h2, asyncMethod_opaque _ _ _ _ _ _ h1 h2]
  unfold expectedArgs
  split
  · rename_i h
    obtain ⟨ho, hn⟩ := h
    subst ho hn
    have hr : expectedRecv "LdapConn" "streaming_search_with" = .ldap := by decide
    have hc : expectedCallee "LdapConn" "streaming_search_with" = "streaming_search_with" := by decide
    rw [hr, hc]
    cases args with
    | nil => rfl
    | cons v rest =>
      have hp := passThrough_eval (v :: rest)
      generalize hq : passThrough (v :: rest).length = p at hp
      cases p with
      | nil => simp at hp
      | cons e es =>
        simp only [List.map_cons] at hp ⊢
        have he : e.eval (v :: rest) = v := (List.cons.inj hp).1
        have hes : es.map (·.eval (v :: rest)) = rest := (List.cons.inj hp).2
        simp only [Expr.eval, he, hes]
        exact b.into_absorbed s v rest
  · rw [passThrough_eval]

/-- constructor delegations of a faithful table resolve as those of the async API -/
theorem resolveCtor_eq {a : AsyncInfo} {t : List SyncEntry} (h : TableFaithful a t = true) :
    ∀ (fuel : Nat) (name : String) (args : List Val) (r : SyncEntry),
      lookup t "LdapConn" name = some r → isCtorBody r.body = true →
      resolveCtor (fun n => (lookup t "LdapConn" n).map (·.body)) fuel name args =
        resolveCtor (fun n => (a.ctor n).map (·.body)) fuel name args := by
  intro fuel
  induction fuel with
  | zero => intros; rfl
  | succ f ih =>
    intro name args r hl hc
    obtain ⟨hm, _, hn⟩ := lookup_some hl
    have hrow := rowOk_of_mem h hm
    unfold resolveCtor
    simp only [hl, Option.map_some]
    cases hb : r.body with
    | delegate callee es =>
      simp only [rowOk, hb, decide_eq_true_eq] at hrow
      obtain ⟨_, h2, h3⟩ := hrow
      rw [hn] at h2
      simp only [h2, Option.map_some]
      cases hl' : lookup t "LdapConn" callee with
      | none => simp [hl'] at h3
      | some r' =>
        simp only [hl', Option.map_some, Option.some.injEq] at h3
        exact ih callee _ r' hl' h3
    | connect fl callee es dr =>
      simp only [rowOk, hb, decide_eq_true_eq] at hrow
      obtain ⟨_, h2, _⟩ := hrow
      rw [hn] at h2
      simp only [h2, Option.map_some, ctorCore]
    | blockOn _ _ _ _ _ => simp [hb, isCtorBody] at hc
    | direct _ _ _ => simp [hb, isCtorBody] at hc
    | inline _ _ => simp [hb, isCtorBody] at hc
    | assign _ _ => simp [hb, isCtorBody] at hc
    | unclassified _ => simp [hb, isCtorBody] at hc

/-- THE STEP: one call through a faithful table is the corresponding call on the async API -/
theorem stepSync_eq_stepAsync {a : AsyncInfo} {t : List SyncEntry} (h : TableFaithful a t = true)
    (b : AsyncBehaviour σ ρ) (s : σ) (c : ApiCall) (r : SyncEntry)
    (hl : lookup t c.owner c.name = some r) (har : r.params.length = c.args.length) :
    stepSync t a b s c = stepAsync a b s c := by
  obtain ⟨hm, ho, hn⟩ := lookup_some hl
  have hrow := rowOk_of_mem h hm
  unfold stepSync stepAsync
  simp only [hl]
  cases hb : r.body with
  | blockOn rt recv callee es ret =>
    simp only [rowOk, hb, decide_eq_true_eq, ho, hn, har] at hrow
    obtain ⟨h0, _, h2, h3, h4, h5, _, h7, h8⟩ := hrow
    subst h2 h3 h4 h5
    simp only [h0, Bool.false_eq_true, if_false]
    rw [asyncMethod_expectedArgs a b s c.owner c.name c.args h7 h8]
  | direct recv callee es =>
    simp only [rowOk, hb, decide_eq_true_eq, ho, hn, har] at hrow
    obtain ⟨h0, h1, h2, h3, h4, _⟩ := hrow
    subst h2 h3 h4
    simp only [h0, Bool.false_eq_true, if_false, h1, applyRet, passThrough_eval]
  | inline recv e =>
    simp only [rowOk, hb, decide_eq_true_eq, ho, hn] at hrow
    obtain ⟨h0, h1, _, h3, h4, h5, _, h7, h8⟩ := hrow
    subst h3
    simp only [h0, Bool.false_eq_true, if_false, h1, applyRet]
    unfold asyncMethod
    have hr : expectedRecv c.owner c.name = .ldap ∨ expectedRecv c.owner c.name = .streamLdap := by
      cases hx : expectedRecv c.owner c.name <;> simp_all
    simp only [hr, if_true, h7, h8]
  | assign f v =>
    simp only [rowOk, hb, decide_eq_true_eq, ho, hn] at hrow
    obtain ⟨h0, h1, h2, _, _, _, h6, _⟩ := hrow
    simp only [h0, Bool.false_eq_true, if_false, h1, applyRet]
    have hr : expectedRecv c.owner c.name = .ldap := by simp [expectedRecv, h2]
    have hc : expectedCallee c.owner c.name = c.name := by simp [expectedCallee, h2]
    unfold asyncMethod
    simp only [hr, hc, true_or, if_true, h6]
  | delegate callee es =>
    have hrow' := hrow
    simp only [rowOk, hb, decide_eq_true_eq, ho, hn] at hrow'
    obtain ⟨h1, h2, _⟩ := hrow'
    have hc : a.isCtor c.owner c.name = true := by simp [AsyncInfo.isCtor, h1, h2]
    simp only [hc, if_true]
    rw [h1] at hl
    rw [resolveCtor_eq h ctorFuel c.name c.args r hl (by simp [hb, isCtorBody])]
  | connect fl callee es dr =>
    have hrow' := hrow
    simp only [rowOk, hb, decide_eq_true_eq, ho, hn] at hrow'
    obtain ⟨h1, h2, _⟩ := hrow'
    have hc : a.isCtor c.owner c.name = true := by simp [AsyncInfo.isCtor, h1, h2]
    simp only [hc, if_true]
    rw [h1] at hl
    rw [resolveCtor_eq h ctorFuel c.name c.args r hl (by simp [hb, isCtorBody])]
  | unclassified w => simp [rowOk, hb] at hrow

theorem runSync_eq_runAsync {a : AsyncInfo} {t : List SyncEntry} (h : TableFaithful a t = true)
    (b : AsyncBehaviour σ ρ) (script : List ApiCall) (hcov : Covered t script = true) :
    ∀ s : σ, runSync t a b s script = runAsync a b s script := by
  induction script with
  | nil => intro s; rfl
  | cons c cs ih =>
    intro s
    simp only [Covered, List.all_cons, Bool.and_eq_true] at hcov
    obtain ⟨hc, hcs⟩ := hcov
    cases hl : lookup t c.owner c.name with
    | none => simp [hl] at hc
    | some r =>
      simp only [hl, Option.map_some, Option.some.injEq, decide_eq_true_eq] at hc
      simp only [runSync, runAsync, stepSync_eq_stepAsync h b s c r hl hc]
      rw [ih (by simpa [Covered] using hcs)]

end Ldap3V.Sync

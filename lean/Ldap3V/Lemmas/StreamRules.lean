/-
Unfolding rules of Model.Stream: one lemma per branch of the shims and of the adapter loops, so
that the chain-specific lemmas never unfold the mutual definition themselves.
-/
import Ldap3V.Spec.Stream
namespace Ldap3V.Stream

/-! ### `next` shim -/

theorem next_zero (top : Bool) (chain : List Adapter) (s : Stream) :
    next 0 top chain s = (chain, s, .outOfFuel) := by
  simp [next]

theorem next_inactive (f : Nat) (top : Bool) (chain : List Adapter) (s : Stream) (h : s.state ≠ .active) :
    next (f + 1) top chain s = (chain, s, .ok none) := by
  simp [next, h]

theorem next_nil (f : Nat) (top : Bool) (s : Stream) (h : s.state = .active) :
    next (f + 1) top [] s = ([], post top (nextInner s).2 (nextInner s).1, (nextInner s).2) := by
  simp [next, h]

theorem next_eo (f : Nat) (top : Bool) (refs : List Bytes) (rest : List Adapter) (s : Stream) (h : s.state = .active) :
    next (f + 1) top (.entriesOnly refs :: rest) s =
      (.entriesOnly (eoLoop f refs rest s).1 :: (eoLoop f refs rest s).2.1,
        post top (eoLoop f refs rest s).2.2.2 (eoLoop f refs rest s).2.2.1, (eoLoop f refs rest s).2.2.2) := by
  simp [next, h]

theorem next_pr (f : Nat) (top : Bool) (size : Int) (saved : Option Saved) (rest : List Adapter) (s : Stream)
    (h : s.state = .active) :
    next (f + 1) top (.paged size saved :: rest) s =
      (.paged size saved :: (prLoop f size saved rest s).1,
        post top (prLoop f size saved rest s).2.2 (prLoop f size saved rest s).2.1, (prLoop f size saved rest s).2.2) := by
  simp [next, h]

/-! ### `next_inner` -/

theorem nextInner_none (s : Stream) (h : s.rx = none) : nextInner s = (s, .panic) := by
  simp [nextInner, h]

theorem nextInner_nil (s : Stream) (h : s.rx = some []) : nextInner s = (s, .pending) := by
  simp [nextInner, h]

theorem nextInner_item (s : Stream) (i : Item) (l : List Recv) (h : s.rx = some (.item i :: l)) :
    nextInner s = ({ s with rx := some l }, .ok (some i)) := by
  simp [nextInner, h]

theorem nextInner_done (s : Stream) (r : Res) (l : List Recv) (h : s.rx = some (.done r :: l)) :
    nextInner s = ({ s with res := some r, rx := none }, .ok none) := by
  simp [nextInner, h]

theorem nextInner_closed (s : Stream) (l : List Recv) (h : s.rx = some (.closed :: l)) :
    nextInner s = ({ s with rx := none }, .err .endOfStream) := by
  simp [nextInner, h]

theorem nextInner_timeout (s : Stream) (l : List Recv) (h : s.rx = some (.timeout :: l)) :
    nextInner s = ({ s with rx := some l, scrubs := s.scrubs ++ [s.reqs.length] }, .err .timeout) := by
  simp [nextInner, h]

/-! ### `EntriesOnly::next` -/

theorem eoLoop_zero (refs : List Bytes) (rest : List Adapter) (s : Stream) :
    eoLoop 0 refs rest s = (refs, rest, s, .outOfFuel) := by
  simp [eoLoop]

theorem eoLoop_inter {f : Nat} {refs : List Bytes} {rest rest' : List Adapter} {s s' : Stream} {it : Item}
    (h : next f false rest s = (rest', s', .ok (some it))) (hk : it.kind = .inter) :
    eoLoop (f + 1) refs rest s = eoLoop f refs rest' s' := by
  simp [eoLoop, h, hk]

theorem eoLoop_ref {f : Nat} {refs : List Bytes} {rest rest' : List Adapter} {s s' : Stream} {it : Item}
    {us : List Bytes} (h : next f false rest s = (rest', s', .ok (some it))) (hk : it.kind = .ref)
    (hu : it.uris = some us) :
    eoLoop (f + 1) refs rest s = eoLoop f (refs ++ us) rest' s' := by
  simp [eoLoop, h, hk, hu]

theorem eoLoop_badref {f : Nat} {refs : List Bytes} {rest rest' : List Adapter} {s s' : Stream} {it : Item}
    (h : next f false rest s = (rest', s', .ok (some it))) (hk : it.kind = .ref) (hu : it.uris = none) :
    eoLoop (f + 1) refs rest s = (refs, rest', s', .panic) := by
  simp [eoLoop, h, hk, hu]

theorem eoLoop_entry {f : Nat} {refs : List Bytes} {rest rest' : List Adapter} {s s' : Stream} {it : Item}
    (h : next f false rest s = (rest', s', .ok (some it))) (hk : it.kind = .entry) :
    eoLoop (f + 1) refs rest s = (refs, rest', s', .ok (some it)) := by
  simp [eoLoop, h, hk]

theorem eoLoop_other {f : Nat} {refs : List Bytes} {rest rest' : List Adapter} {s s' : Stream} {r : NextOut}
    (h : next f false rest s = (rest', s', r)) (hr : ∀ it, r ≠ .ok (some it)) :
    eoLoop (f + 1) refs rest s = (refs, rest', s', r) := by
  simp only [eoLoop, h]

/-! ### `PagedResults::next` -/

theorem prLoop_zero (size : Int) (saved : Option Saved) (rest : List Adapter) (s : Stream) :
    prLoop 0 size saved rest s = (rest, s, .outOfFuel) := by
  simp [prLoop]

theorem prLoop_pass {f : Nat} {size : Int} {saved : Option Saved} {rest rest' : List Adapter} {s s' : Stream}
    {r : NextOut} (h : next f false rest s = (rest', s', r)) (hr : r ≠ .ok none) :
    prLoop (f + 1) size saved rest s = (rest', s', r) := by
  simp only [prLoop, h]

theorem prLoop_nores {f : Nat} {size : Int} {saved : Option Saved} {rest rest' : List Adapter} {s s' : Stream}
    (h : next f false rest s = (rest', s', .ok none)) (hres : s'.res = none) :
    prLoop (f + 1) size saved rest s = (rest', s', .ok none) := by
  simp [prLoop, h, hres]

theorem prLoop_nocontrol {f : Nat} {size : Int} {saved : Option Saved} {rest rest' : List Adapter} {s s' : Stream}
    {res : Res} (h : next f false rest s = (rest', s', .ok none)) (hres : s'.res = some res)
    (hc : firstPaged res.ctrls = none) :
    prLoop (f + 1) size saved rest s = (rest', s', .ok none) := by
  simp [prLoop, h, hres, hc]

theorem prLoop_novalue {f : Nat} {size : Int} {saved : Option Saved} {rest rest' : List Adapter} {s s' : Stream}
    {res : Res} {idx : Nat} {c : Ctl} (h : next f false rest s = (rest', s', .ok none)) (hres : s'.res = some res)
    (hc : firstPaged res.ctrls = some (idx, c)) (hv : c.cookie = none) :
    prLoop (f + 1) size saved rest s = (rest', s', .panic) := by
  simp [prLoop, h, hres, hc, hv]

theorem prLoop_last {f : Nat} {size : Int} {saved : Option Saved} {rest rest' : List Adapter} {s s' : Stream}
    {res : Res} {idx : Nat} {c : Ctl} (h : next f false rest s = (rest', s', .ok none)) (hres : s'.res = some res)
    (hc : firstPaged res.ctrls = some (idx, c)) (hv : c.cookie = some []) :
    prLoop (f + 1) size saved rest s =
      (rest', { s' with res := some { res with ctrls := res.ctrls.eraseIdx idx } }, .ok none) := by
  simp [prLoop, h, hres, hc, hv]

theorem prLoop_nosaved {f : Nat} {size : Int} {rest rest' : List Adapter} {s s' : Stream}
    {res : Res} {idx : Nat} {c : Ctl} {ck : Bytes} (h : next f false rest s = (rest', s', .ok none))
    (hres : s'.res = some res) (hc : firstPaged res.ctrls = some (idx, c)) (hv : c.cookie = some ck)
    (hck : ck ≠ []) :
    prLoop (f + 1) size none rest s = (rest', s', .panic) := by
  simp [prLoop, h, hres, hc, hv, hck]

theorem prLoop_nosavedctrls {f : Nat} {size : Int} {sv : Saved} {rest rest' : List Adapter} {s s' : Stream}
    {res : Res} {idx : Nat} {c : Ctl} {ck : Bytes} (h : next f false rest s = (rest', s', .ok none))
    (hres : s'.res = some res) (hc : firstPaged res.ctrls = some (idx, c)) (hv : c.cookie = some ck)
    (hck : ck ≠ []) (hs : sv.h.ctrls = none) :
    prLoop (f + 1) size (some sv) rest s = (rest', s', .panic) := by
  simp [prLoop, h, hres, hc, hv, hck, hs]

theorem prLoop_starterr {f : Nat} {size : Int} {sv : Saved} {rest rest' : List Adapter} {s s' s'' : Stream}
    {res : Res} {idx : Nat} {c : Ctl} {ck : Bytes} {cs : List RCtl} {e : Err}
    (h : next f false rest s = (rest', s', .ok none))
    (hres : s'.res = some res) (hc : firstPaged res.ctrls = some (idx, c)) (hv : c.cookie = some ck)
    (hck : ck ≠ []) (hs : sv.h.ctrls = some cs) (hp : pageStart sv (cs ++ [.paged size ck]) s' = (s'', .err e)) :
    prLoop (f + 1) size (some sv) rest s = (rest', s'', .err e) := by
  simp [prLoop, h, hres, hc, hv, hck, hs, hp]

theorem prLoop_more {f : Nat} {size : Int} {sv : Saved} {rest rest' : List Adapter} {s s' s'' : Stream}
    {res : Res} {idx : Nat} {c : Ctl} {ck : Bytes} {cs : List RCtl}
    (h : next f false rest s = (rest', s', .ok none))
    (hres : s'.res = some res) (hc : firstPaged res.ctrls = some (idx, c)) (hv : c.cookie = some ck)
    (hck : ck ≠ []) (hs : sv.h.ctrls = some cs) (hp : pageStart sv (cs ++ [.paged size ck]) s' = (s'', .ok)) :
    prLoop (f + 1) size (some sv) rest s = prLoop f size (some sv) rest' s'' := by
  simp [prLoop, h, hres, hc, hv, hck, hs, hp]

/-! ### `finish`, `start` -/

theorem finish_closed (chain : List Adapter) (s : Stream) (h : s.state = .closed) :
    finish chain s = (chain, s, alreadyFinalized) := by
  cases chain with
  | nil => simp [finish, h]
  | cons a rest => cases a <;> simp [finish, h]

theorem start_notfresh (chain : List Adapter) (s : Stream) (q : Query) (h : s.state ≠ .fresh) :
    start chain s q = (chain, s, .ok) := by
  cases chain with
  | nil => simp [start, h]
  | cons a rest => cases a <;> simp [start, h]

end Ldap3V.Stream

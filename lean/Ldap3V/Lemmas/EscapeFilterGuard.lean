/- The lemmas of EscapeFilter speak about the grammar (`Filter.parseCore`); the public entry point
`Filter.parse` (= `ldap3::parse_filter`) first refuses strings nested deeper than 128 levels of
parentheses (F28).  For a string of the language that is a condition on the TREE: `Filter.fdepth f ≤ 128`
(an item has 1).  This file lifts the EscapeFilter lemmas to the entry point. -/
import Ldap3V.Lemmas.EscapeFilter
import Ldap3V.Lemmas.FilterNesting
namespace Ldap3V
open Ldap3V.Spec (Filter)
open Ldap3V.Spec.Filter (G GL GItem IsAttrDesc IsOid Dialect toTlv Ctx Sibs ROpt RAny ValItem isDnKw)

theorem gparse_of_G {f : Filter} {s : Bytes} (h : G .lib f s) (hd : Filter.fdepth f ≤ Filter.maxNesting) :
    (Filter.parse s).map Tag.toTlv = some (toTlv f) := by
  obtain ⟨t, ht, htl⟩ := Filter.parse_complete_guarded (Or.inl h) hd
  rw [ht]; simp [htl]

theorem gparse_of_GLib {f : Filter} {s : Bytes} (h : Spec.Filter.GLib f s)
    (hd : Filter.fdepth f ≤ Filter.maxNesting) :
    (Filter.parse s).map Tag.toTlv = some (toTlv f) := by
  obtain ⟨t, ht, htl⟩ := Filter.parse_complete_guarded h hd
  rw [ht]; simp [htl]

/-- a tag computed for the grammar is the tag the entry point returns, for a string of the language whose
tree is within the limit -/
theorem gparse_exact {f : Filter} {s : Bytes} {t : Tag} (h : G .lib f s)
    (hd : Filter.fdepth f ≤ Filter.maxNesting) (hp : Filter.parseCore s = some t) : Filter.parse s = some t :=
  Filter.parse_of_core hp (by have := Filter.nest_le_of_GLib (Or.inl h); omega)

theorem fdepth_valItem (it : ValItem) (v : Bytes) : Filter.fdepth (it.tree v) = 1 := by
  cases it <;> simp [ValItem.tree, Filter.fdepth]

theorem one_le_maxNesting : 1 ≤ Filter.maxNesting := by decide

/-- depth of a context: the number of boolean operators above the hole is not the whole story (siblings
may be deeper); this is the tree's own depth with an item in the hole -/
theorem fdepth_valItem_le (it : ValItem) (v : Bytes) : Filter.fdepth (it.tree v) ≤ Filter.maxNesting := by
  rw [fdepth_valItem]; decide

/-- the bare item (no outer parentheses: the value runs to the end of the string) in the grammar -/
theorem valItem_GItem {d : Dialect} (it : ValItem) {v s : Bytes} (ha : IsAttrDesc d it.attr)
    (hv : Spec.Filter.RVal v s) : GItem d (it.tree v) (it.attr ++ it.op ++ s) := by
  cases it with
  | eq a => simpa [ValItem.attr, ValItem.op, ValItem.tree] using (GItem.eq ha hv)
  | ge a => simpa [ValItem.attr, ValItem.op, ValItem.tree] using (GItem.ge ha hv)
  | le a => simpa [ValItem.attr, ValItem.op, ValItem.tree] using (GItem.le ha hv)
  | approx a => simpa [ValItem.attr, ValItem.op, ValItem.tree] using (GItem.approx ha hv)
  | ext a =>
    have := GItem.extAttr (d := d) (kw := []) (rule := none) (dn := false) ha
      (fun h => by cases h) (fun r h => by cases h) (fun _ r h => by cases h) hv
    simpa [ValItem.attr, ValItem.op, ValItem.tree, Spec.Filter.optStr] using this

theorem gparse_bare (it : ValItem) {v s : Bytes} (ha : IsAttrDesc .lib it.attr) (hv : Spec.Filter.RVal v s) :
    (Filter.parse (it.attr ++ it.op ++ s)).map Tag.toTlv = some (toTlv (it.tree v)) :=
  gparse_of_GLib (Or.inr (valItem_GItem it ha hv)) (fdepth_valItem_le it v)

end Ldap3V

/- The accounting invariant is preserved by every event (given that an ID handed out is not the ID of
a request still waiting in the queue), hence holds in every reachable state. -/
import Ldap3V.Lemmas.ConnAcct
import Ldap3V.Lemmas.ConnRouteStep
namespace Ldap3V.Conn
theorem Acct.drvOp {s s' : St} {ob : Obs} {sendOk : Bool} (h : Acct s) (hr : RouteInv s)
    (hs : step s (.drvOp sendOk) = some (s', ob)) : Acct s' := by
  simp only [step] at hs
  split at hs
  · cases hs
  · next hrun' =>
    have hrun : s.drv = .running := by simpa using hrun'
    split at hs
    · cases hs
    · next i rest hq =>
      split at hs
      · cases hs
      · next o ho =>
        obtain ⟨hoq, hom, hni, hset_i, hset_j⟩ := h.head hq ho
        have hco := fun c => hr.chanOf i o c ho
        have hlen0 : (s.ops.set i { o with phase := .taken }).length = s.ops.length := List.length_set
        generalize hops0 : s.ops.set i { o with phase := .taken } = ops0 at *
        have hsame : ∀ j, j ≠ i → ∀ oj', ops0[j]? = some oj' → ∃ oj, s.ops[j]? = some oj ∧ oj'.id = oj.id ∧ oj'.kind = oj.kind ∧
            oj'.chan = oj.chan ∧ oj'.res = oj.res ∧ oj'.phase = oj.phase ∧
            (oj' = oj ∨ (oj.phase = .taken ∧ oj.mail = .empty ∧ oj'.mail = .dropped ∧ ∀ p ∈ s.resultmap, p.2 ≠ j)) := by
          intro j hji oj' hoj'
          rw [hset_j j hji] at hoj'
          exact ⟨oj', hoj', rfl, rfl, rfl, rfl, rfl, Or.inl rfl⟩
        split at hs
        · next hskip =>
          have hnot : o.id ∉ s.inUse := by simpa using hskip
          simp only [Option.some.injEq, Prod.mk.injEq] at hs
          rw [← hs.1]
          refine h.take hrun hq ho hco (oi' := { o with phase := .taken, mail := .dropped }) rfl rfl rfl rfl
            (by show (dropSender ops0 i).length = _; rw [dropSender, modifyOp_length, hlen0])
            (fun k hk => hk) ?_ rfl rfl rfl rfl rfl ?_ (fun p hp => Or.inr hp) (fun p hp => Or.inr hp)
            (fun p hp _ _ => hp) (fun p hp _ _ => hp) (fun hh => absurd hh hnot)
          · show (dropSender ops0 i)[i]? = _
            rw [dropSender_get, if_pos rfl, hset_i]; simp [hom]
          · intro j hji oj' hoj'
            have : (dropSender ops0 i)[j]? = some oj' := hoj'
            rw [dropSender_get, if_neg hji] at this
            exact hsame j hji oj' this
        · next hnskip =>
          have hidin : o.id ∈ s.inUse := by simpa using hnskip
          split at hs
          · simp only [Option.some.injEq, Prod.mk.injEq] at hs
            rw [← hs.1]
            have hdm : ∀ m : Mail, dropIf m = .ack → m = .ack := by
              intro m hm; unfold dropIf at hm; split at hm
              · cases hm
              · exact hm
            refine Acct.dead_of (s := s) (s' := Conn.endDriver _ .endedErr) h (by simp [Conn.endDriver]) rfl rfl rfl rfl rfl
              (by simp only [Conn.endDriver, List.length_mapIdx]; show (dropSender ops0 i).length = _
                  rw [dropSender, modifyOp_length, hlen0]) ?_
            intro j o' ho'
            rw [endDriver_get] at ho'
            have hmid : (dropSender ops0 i)[j]? = if j = i then some { o with phase := .taken, mail := .dropped } else s.ops[j]? := by
              rw [dropSender_get]
              split
              · next e => subst e; rw [hset_i]; simp [hom]
              · next e => exact hset_j j e
            simp only [hmid] at ho'
            by_cases hji : j = i
            · subst hji
              rw [if_pos rfl] at ho'
              simp only [Option.map_some, Option.some.injEq] at ho'
              refine ⟨o, ho, ?_⟩
              rw [← ho']
              split
              · exact ⟨rfl, rfl, rfl, by simp, fun hp => absurd rfl hp, (fun hm => by have := hdm .dropped hm; cases this), fun _ => rfl⟩
              · split
                · exact ⟨rfl, rfl, rfl, by simp, fun hp => absurd rfl hp, (fun hm => by have := hdm .dropped hm; cases this), fun _ => rfl⟩
                · exact ⟨rfl, rfl, rfl, by simp, fun hp => absurd rfl hp, (fun hm => by cases hm), fun _ => rfl⟩
            · rw [if_neg hji] at ho'
              cases hoj : s.ops[j]? with
              | none => rw [hoj] at ho'; cases ho'
              | some oj =>
                rw [hoj] at ho'
                simp only [Option.map_some, Option.some.injEq] at ho'
                refine ⟨oj, rfl, ?_⟩
                rw [← ho']
                split
                · exact ⟨rfl, rfl, rfl, by simp, fun hp => absurd rfl hp, hdm _, fun _ => rfl⟩
                · next hnc =>
                  have hnq : oj.phase ≠ .queued := by
                    intro hp
                    have := h.phaseQ j oj hoj hp
                    rw [hq] at this
                    simp only [List.mem_cons] at this
                    rcases this with e | e
                    · exact hji e
                    · exact hnc (by simpa using e)
                  split
                  · next hany =>
                    refine ⟨rfl, rfl, rfl, hnq, fun hp => ?_, hdm _, fun hp => hp⟩
                    exfalso
                    simp only [List.any_eq_true, beq_iff_eq] at hany
                    obtain ⟨p, hp1, hp2⟩ := hany
                    obtain ⟨op, hop, _, hpt, _⟩ := h.rmOk p hp1
                    rw [hp2, hoj] at hop; cases hop
                    exact hp hpt
                  · exact ⟨rfl, rfl, rfl, hnq, fun _ => rfl, fun hm => hm, fun hp => hp⟩
          · split at hs
            · cases hs
            · split at hs
              · next hkind =>
                simp only [Option.some.injEq, Prod.mk.injEq] at hs
                rw [← hs.1]
                simp only [hkind]
                refine h.take hrun hq ho hco (oi' := { o with phase := .taken }) rfl rfl rfl rfl
                  (by show (dropSenderOpt ops0 _).length = _; rw [dropSenderOpt_length, hlen0])
                  (fun k hk => hk) ?_ rfl rfl rfl rfl rfl ?_ ?_ (fun p hp => Or.inr hp)
                  ?_ (fun p hp _ _ => hp) ?_
                · show (dropSenderOpt ops0 _)[i]? = _
                  apply dropSenderOpt_put _ _ _ _ hset_i
                  intro e
                  obtain ⟨n, hmem, _⟩ := lookup_some e
                  exact hni _ hmem rfl
                · intro j hji oj' hoj'
                  obtain ⟨oj, hoj, e1, e2, e3, e4, e5, e6⟩ := h.dropReg (i := i) (o := o) ops0 hset_j (o.id : Int) j hji oj' hoj' hni
                  refine ⟨oj, hoj, e1, e2, e3, e4, e5, ?_⟩
                  rcases e6 with e | ⟨f1, f2, f3, _, f5⟩
                  · exact Or.inl e
                  · refine Or.inr ⟨f1, f2, f3, ?_⟩
                    intro p hp e
                    rcases mem_insert hp with e' | ⟨hp1, hp2⟩
                    · rw [e'] at e; exact hji e.symm
                    · exact hp2 (by exact_mod_cast f5 p hp1 e)
                · intro p hp
                  rcases mem_insert hp with e' | ⟨hp1, _⟩
                  · exact Or.inl ⟨e', hom, hidin⟩
                  · exact Or.inr hp1
                · intro p hp _ hne
                  exact mem_insert_iff.mpr (Or.inr ⟨hp, hne⟩)
                · intro _
                  exact Or.inr (Or.inr (Or.inl (mem_insert_iff.mpr (Or.inl rfl))))
              · next hkind =>
                simp only [Option.some.injEq, Prod.mk.injEq] at hs
                rw [← hs.1]
                obtain ⟨c, hchan⟩ : ∃ c, o.chan = some c := by
                  have := (h.kindChan i o ho).mp hkind
                  cases hc : o.chan with
                  | none => exact absurd hc this
                  | some c => exact ⟨c, rfl⟩
                simp only [hkind, hchan]
                refine h.take hrun hq ho hco (oi' := { o with phase := .taken, mail := .ack }) rfl rfl rfl rfl
                  (by show (modifyOp ops0 i _).length = _; rw [modifyOp_length, hlen0])
                  (fun k hk => hk) ?_ rfl rfl rfl rfl rfl ?_ (fun p hp => Or.inr hp) ?_
                  (fun p hp _ _ => hp) ?_ ?_
                · show (modifyOp ops0 i _)[i]? = _
                  rw [modifyOp_get, if_pos rfl, hset_i]; rfl
                · intro j hji oj' hoj'
                  have : (modifyOp ops0 i _)[j]? = some oj' := hoj'
                  rw [modifyOp_get, if_neg hji] at this
                  exact hsame j hji oj' this
                · intro p hp
                  rcases mem_insert hp with e' | ⟨hp1, _⟩
                  · exact Or.inl ⟨by rw [e'], by rw [e']; exact hchan, rfl, hidin⟩
                  · exact Or.inr hp1
                · intro p hp _ hne
                  exact mem_insert_iff.mpr (Or.inr ⟨hp, hne⟩)
                · intro _
                  exact Or.inr (Or.inr (Or.inr (Or.inl ⟨c, hchan, mem_insert_iff.mpr (Or.inl rfl)⟩)))
              · next t hkind =>
                simp only [Option.some.injEq, Prod.mk.injEq] at hs
                rw [← hs.1]
                simp only [hkind]
                refine h.take hrun hq ho hco (oi' := { o with phase := .taken, mail := .ack }) rfl rfl rfl rfl
                  (by show (modifyOp (dropSenderOpt ops0 _) i _).length = _; rw [modifyOp_length, dropSenderOpt_length, hlen0])
                  ?_ ?_ rfl rfl rfl rfl rfl ?_ (fun p hp => Or.inr (mem_erase hp).1) (fun p hp => Or.inr (mem_erase hp).1)
                  ?_ ?_ ?_
                · intro k hk
                  exact (mem_eraseId.mp (mem_eraseId.mp hk).1).1
                · show (modifyOp (dropSenderOpt ops0 _) i _)[i]? = _
                  rw [modifyOp_get, if_pos rfl]
                  have : (dropSenderOpt ops0 (lookup s.resultmap t))[i]? = some { o with phase := .taken } := by
                    apply dropSenderOpt_put _ _ _ _ hset_i
                    intro e
                    obtain ⟨n, hmem, _⟩ := lookup_some e
                    exact hni _ hmem rfl
                  rw [this]; rfl
                · intro j hji oj' hoj'
                  have hoj2 : (modifyOp (dropSenderOpt ops0 (lookup s.resultmap t)) i _)[j]? = some oj' := hoj'
                  rw [modifyOp_get, if_neg hji] at hoj2
                  obtain ⟨oj, hoj, e1, e2, e3, e4, e5, e6⟩ := h.dropReg (i := i) (o := o) ops0 hset_j t j hji oj' hoj2 hni
                  refine ⟨oj, hoj, e1, e2, e3, e4, e5, ?_⟩
                  rcases e6 with e | ⟨f1, f2, f3, _, f5⟩
                  · exact Or.inl e
                  · refine Or.inr ⟨f1, f2, f3, ?_⟩
                    intro p hp e
                    have := mem_erase hp
                    exact this.2 (f5 p this.1 e)
                · intro p hp hin _
                  exact mem_erase_of hp (mem_eraseId.mp hin).2
                · intro p hp hin _
                  exact mem_erase_of hp (mem_eraseId.mp hin).2
                · intro hh
                  exact absurd rfl (mem_eraseId.mp (mem_eraseId.mp hh).1).2
              · next hkind =>
                simp only [Option.some.injEq, Prod.mk.injEq] at hs
                rw [← hs.1]
                simp only [hkind]
                refine h.take hrun hq ho hco (oi' := { o with phase := .taken, mail := .ack }) rfl rfl rfl rfl
                  (by show (modifyOp ops0 i _).length = _; rw [modifyOp_length, hlen0])
                  (fun k hk => hk) ?_ rfl rfl rfl rfl rfl ?_ (fun p hp => Or.inr hp) (fun p hp => Or.inr hp)
                  (fun p hp _ _ => hp) (fun p hp _ _ => hp) ?_
                · show (modifyOp ops0 i _)[i]? = _
                  rw [modifyOp_get, if_pos rfl, hset_i]; rfl
                · intro j hji oj' hoj'
                  have : (modifyOp ops0 i _)[j]? = some oj' := hoj'
                  rw [modifyOp_get, if_neg hji] at this
                  exact hsame j hji oj' this
                · intro _
                  exact Or.inr (Or.inr (Or.inr (Or.inr ⟨hkind, rfl⟩)))
/-- the one hypothesis of the accounting theorems (finding F13: a request that timed out in the queue
must not meet its own ID again, which takes a full wrap of the ID space while it waits) -/
def FreshAt (s : St) (e : Ev) : Prop :=
  ∀ kind, e = .alloc kind → ∀ k, nextId s.N s.last s.inUse = .ok k → FreshFor s k

theorem Acct.step {s s' : St} {ob : Obs} (h : Acct s) (hr : RouteInv s) (e : Ev) (hf : FreshAt s e)
    (hs : Conn.step s e = some (s', ob)) : Acct s' := by
  cases e with
  | alloc k => exact h.alloc k (hf k rfl) hs
  | enqueue i t => exact h.enqueue i t hs
  | poll i => exact h.poll i hs
  | recv c d => exact h.recv c d hs
  | finish c b => exact h.finish c b hs
  | drvScrub => exact h.drvScrub hs
  | drvOp ok => exact h.drvOp hr hs
  | drvResp => exact h.drvResp hs
  | dropHandles =>
    simp only [Conn.step, Option.some.injEq, Prod.mk.injEq] at hs
    rw [← hs.1]; exact h.congr rfl rfl rfl rfl rfl rfl rfl rfl
  | drvOpClosed =>
    simp only [Conn.step] at hs
    split at hs
    · simp only [Option.some.injEq, Prod.mk.injEq] at hs
      rw [← hs.1]; exact h.endDriver _ (by simp)
    · cases hs
  | drvMiscClosed =>
    simp only [Conn.step] at hs
    split at hs
    · simp only [Option.some.injEq, Prod.mk.injEq] at hs
      rw [← hs.1]; exact h.endDriver _ (by simp)
    · cases hs
  | srvSend f =>
    simp only [Conn.step] at hs
    split at hs
    · simp only [Option.some.injEq, Prod.mk.injEq] at hs
      rw [← hs.1]; exact h.congr rfl rfl rfl rfl rfl rfl rfl rfl
    · cases hs
  | srvClose =>
    simp only [Conn.step] at hs
    split at hs
    · simp only [Option.some.injEq, Prod.mk.injEq] at hs
      rw [← hs.1]; exact h.congr rfl rfl rfl rfl rfl rfl rfl rfl
    · cases hs
  | srvGarbage =>
    simp only [Conn.step] at hs
    split at hs
    · simp only [Option.some.injEq, Prod.mk.injEq] at hs
      rw [← hs.1]; exact h.congr rfl rfl rfl rfl rfl rfl rfl rfl
    · cases hs
  | tick dt =>
    simp only [Conn.step, Option.some.injEq, Prod.mk.injEq] at hs
    rw [← hs.1]; exact h.congr rfl rfl rfl rfl rfl rfl rfl rfl

/-- one event of `run`: the state moves if the event is enabled -/
def next (s : St) (e : Ev) : St :=
  match Conn.step s e with
  | some (s', _) => s'
  | none => s

/-- `FreshAt` holds wherever the run allocates -/
def FreshRun : St → List Ev → Prop
  | _, [] => True
  | s, e :: es => FreshAt s e ∧ FreshRun (next s e) es

theorem run_cons (s : St) (e : Ev) (es : List Ev) : Conn.run s (e :: es) = Conn.run (next s e) es := by
  rfl

theorem Acct.run' (evs : List Ev) : ∀ s, Acct s → RouteInv s → FreshRun s evs → Acct (Conn.run s evs) ∧ RouteInv (Conn.run s evs) := by
  induction evs with
  | nil => intro s h hr _; exact ⟨h, hr⟩
  | cons e es ih =>
    intro s h hr hf
    have hf : FreshAt s e ∧ FreshRun (next s e) es := hf
    rw [run_cons]
    cases hst : Conn.step s e with
    | none =>
      have : next s e = s := by simp only [next, hst]
      rw [this] at hf ⊢
      exact ih s h hr hf.2
    | some p =>
      obtain ⟨s', ob⟩ := p
      have : next s e = s' := by simp only [next, hst]
      rw [this] at hf ⊢
      exact ih s' (h.step hr e hf.1 hst) (hr.step e hst) hf.2

theorem Acct.run (N : Nat) (evs : List Ev) (hf : FreshRun (Conn.init N) evs) : Acct (Conn.run (Conn.init N) evs) :=
  (Acct.run' evs _ (Acct.init N) (RouteInv.init N) hf).1

end Ldap3V.Conn

/-
What the caller of a search has ALREADY received, over whole histories of Model/Conn.lean:
`recvTrace c s evs` collects the items the `.recv c _` events of `evs` observed, in order.  For every
history it is the taken prefix of the channel, hence
  (items received so far) ++ scriptOf (what is still to come) = fullScript (everything).
-/
import Ldap3V.Lemmas.ConnStreamView
namespace Ldap3V.ConnStream
open Ldap3V Ldap3V.Conn

/-- the items of a channel its receiver has consumed -/
def tp (ch : Chan) : List Item := ch.items.take ch.taken

def tk (cs : List Chan) (c : Nat) : List Item :=
  match cs[c]? with
  | none => []
  | some ch => tp ch

/-- the item a step hands to the receiver of channel `c` -/
def emit (c : Nat) : Ev → Obs → List Item
  | .recv c' _, .item (some it) => if c' = c then [it] else []
  | _, _ => []

/-- the items the receiver of channel `c` is handed along a history, in order -/
def recvTrace (c : Nat) : St → List Ev → List Item
  | _, [] => []
  | s, e :: es =>
    match Conn.step s e with
    | none => recvTrace c s es
    | some (s', ob) => emit c e ob ++ recvTrace c s' es

theorem tk_set {cs : List Chan} {c0 : Nat} {ch : Chan} (hc : cs[c0]? = some ch) (ch' : Chan) (c : Nat) :
    tk (cs.set c0 ch') c = if c0 = c then tp ch' else tk cs c := by
  have hlt := (List.getElem?_eq_some_iff.mp hc).1
  by_cases e : c0 = c
  · subst e; simp [tk, hlt]
  · simp [tk, e, List.getElem?_set_ne e]

theorem tk_set_same {cs : List Chan} {c0 : Nat} {ch : Chan} (hc : cs[c0]? = some ch) (ch' : Chan)
    (h : tp ch' = tp ch) (c : Nat) : tk (cs.set c0 ch') c = tk cs c := by
  rw [tk_set hc]
  split
  · next e => subst e; simp [tk, hc, h]
  · rfl

theorem tk_modify {cs : List Chan} (c0 : Nat) (g : Chan → Chan)
    (hg : ∀ ch, cs[c0]? = some ch → tp (g ch) = tp ch) (c : Nat) : tk (modifyChan cs c0 g) c = tk cs c := by
  unfold modifyChan
  cases hc : cs[c0]? with
  | none => rfl
  | some ch => exact tk_set_same hc _ (hg ch hc) c

theorem tk_dropRx (cs : List Chan) (oc : Option Nat) (c : Nat) : tk (dropRxOf cs oc) c = tk cs c := by
  cases oc with
  | none => rfl
  | some c0 => exact tk_modify (cs := cs) c0 (fun ch => { ch with rxAlive := false }) (fun _ _ => rfl) c

theorem tk_append_new (cs : List Chan) (n c : Nat) : tk (cs ++ [({ opIdx := n } : Chan)]) c = tk cs c := by
  unfold tk
  by_cases h : c < cs.length
  · rw [List.getElem?_append_left h]
  · rw [List.getElem?_append_right (by omega), List.getElem?_eq_none (by omega : cs.length ≤ c)]
    cases hcc : c - cs.length with
    | zero => simp [tp]
    | succ n => simp

theorem tk_endDriver (s : St) (how : Drv) (c : Nat) : tk (endDriver s how).chans c = tk s.chans c := rfl

theorem tk_ite (b : Bool) (s1 s2 : St) (c : Nat) (x : List Item) (h1 : tk s1.chans c = x) (h2 : tk s2.chans c = x) :
    tk (if b = true then s1 else s2).chans c = x := by
  cases b
  · simpa using h2
  · simpa using h1

theorem tk_routeSearch {s : St} (h : ChanWF s) (c0 : Nat) (f : Frame) (c : Nat) :
    tk (routeSearch s c0 f).chans c = tk s.chans c := by
  unfold routeSearch
  generalize (if f.op = 4 ∨ f.op = 25 ∨ f.op = 19 then some (Item.entry f, false)
      else if f.op = 5 then (if f.good then some (Item.done f, true) else none) else none) = cl
  cases cl with
  | none => rfl
  | some pr =>
    obtain ⟨item, isDone⟩ := pr
    have key : ∀ (alive : Bool),
        tk (if alive = true then modifyChan s.chans c0 fun ch => { ch with items := ch.items ++ [item] } else s.chans) c =
          tk s.chans c := by
      intro alive
      cases alive
      · rfl
      · apply tk_modify
        intro ch hch
        have := (h.get hch).1
        simp only [tp]
        exact List.take_append_of_le_length this
    exact tk_ite _ _ _ c _ (key _) (key _)

theorem step_tk {s s' : St} {ob : Obs} (h : ChanWF s) (e : Ev) (hs : Conn.step s e = some (s', ob)) (c : Nat) :
    tk s'.chans c = tk s.chans c ++ emit c e ob := by
  cases e with
  | alloc kind =>
    simp only [Conn.step] at hs
    cases hn : nextId s.N s.last s.inUse with
    | diverge => rw [hn] at hs; cases hs
    | panic => rw [hn] at hs; simp only [Option.some.injEq, Prod.mk.injEq] at hs; rw [← hs.1]; simp [emit]
    | ok id =>
      rw [hn] at hs
      simp only [Option.some.injEq, Prod.mk.injEq] at hs
      obtain ⟨rfl, _⟩ := hs
      simp only [emit, List.append_nil]
      cases kind <;> first | rfl | exact tk_append_new _ _ _
  | enqueue i tmo =>
    simp only [Conn.step] at hs
    cases ho : s.ops[i]? with
    | none => rw [ho] at hs; cases hs
    | some o =>
      rw [ho] at hs
      simp only at hs
      split at hs
      · cases hs
      · split at hs <;>
          (simp only [Option.some.injEq, Prod.mk.injEq] at hs; obtain ⟨rfl, _⟩ := hs; simp [emit])
  | poll i =>
    have hem : ∀ ob, emit c (Ev.poll i) ob = [] := fun _ => rfl
    rw [hem, List.append_nil]
    simp only [Conn.step] at hs
    cases ho : s.ops[i]? with
    | none => rw [ho] at hs; cases hs
    | some o =>
      rw [ho] at hs
      simp only at hs
      split at hs
      · cases hs
      · split at hs
        all_goals try (
          simp only [Option.some.injEq, Prod.mk.injEq] at hs
          rw [← hs.1]
          try exact tk_dropRx _ _ _)
        split at hs
        · split at hs
          · split at hs <;> (
              simp only [Option.some.injEq, Prod.mk.injEq] at hs
              rw [← hs.1]
              exact tk_dropRx _ _ _)
          · simp only [Option.some.injEq, Prod.mk.injEq] at hs; rw [← hs.1]
        · simp only [Option.some.injEq, Prod.mk.injEq] at hs; rw [← hs.1]
  | recv c0 dl =>
    simp only [Conn.step] at hs
    cases hc : s.chans[c0]? with
    | none => rw [hc] at hs; cases hs
    | some ch =>
      rw [hc] at hs
      simp only at hs
      split at hs
      · cases hs
      · split at hs
        · cases hs
        · split at hs
          · next it hit =>
            simp only [Option.some.injEq, Prod.mk.injEq] at hs
            obtain ⟨rfl, rfl⟩ := hs
            simp only [emit]
            rw [tk_set hc]
            split
            · next e =>
              subst e
              simp only [tk, hc, tp]
              rw [List.take_add_one, hit]
              rfl
            · simp
          · split at hs
            · simp only [Option.some.injEq, Prod.mk.injEq] at hs; obtain ⟨rfl, rfl⟩ := hs; simp [emit]
            · split at hs
              · split at hs
                · split at hs
                  · split at hs
                    · simp only [Option.some.injEq, Prod.mk.injEq] at hs; obtain ⟨rfl, rfl⟩ := hs
                      simp only [emit, List.append_nil]
                      exact tk_set_same hc { ch with timedOut := true } rfl c
                    · simp only [Option.some.injEq, Prod.mk.injEq] at hs; obtain ⟨rfl, rfl⟩ := hs; simp [emit]
                  · cases hs
                · simp only [Option.some.injEq, Prod.mk.injEq] at hs; obtain ⟨rfl, rfl⟩ := hs; simp [emit]
              · simp only [Option.some.injEq, Prod.mk.injEq] at hs; obtain ⟨rfl, rfl⟩ := hs; simp [emit]
  | finish c0 b =>
    simp only [Conn.step] at hs
    cases hc : s.chans[c0]? with
    | none => rw [hc] at hs; cases hs
    | some ch =>
      rw [hc] at hs
      simp only at hs
      split at hs
      · cases hs
      · split at hs
        · cases hs
        · split at hs
          · cases hs
          · simp only [Option.some.injEq, Prod.mk.injEq] at hs
            rw [← hs.1]
            simp only [emit, List.append_nil]
            exact tk_set_same hc { ch with rxAlive := false, finScrub := b } rfl c
  | dropHandles =>
    simp only [Conn.step, Option.some.injEq, Prod.mk.injEq] at hs; rw [← hs.1]; simp [emit]
  | drvScrub =>
    simp only [Conn.step] at hs
    split at hs
    · cases hs
    · split at hs
      · cases hs
      · simp only [Option.some.injEq, Prod.mk.injEq] at hs
        rw [← hs.1]
        simp [emit]
  | drvOp sendOk =>
    simp only [Conn.step] at hs
    split at hs
    · cases hs
    · split at hs
      · cases hs
      · next i rest hq =>
        cases ho : s.ops[i]? with
        | none => rw [ho] at hs; cases hs
        | some o =>
          rw [ho] at hs
          simp only at hs
          split at hs
          · simp only [Option.some.injEq, Prod.mk.injEq] at hs
            rw [← hs.1]
            simp [emit]
          · split at hs
            · simp only [Option.some.injEq, Prod.mk.injEq] at hs
              rw [← hs.1]
              simp only [emit, List.append_nil]
              rfl
            · split at hs
              · cases hs
              · cases hk : o.kind <;> (
                  simp only [hk, Option.some.injEq, Prod.mk.injEq] at hs
                  rw [← hs.1]
                  simp [emit])
  | drvOpClosed =>
    simp only [Conn.step] at hs
    split at hs
    · simp only [Option.some.injEq, Prod.mk.injEq] at hs; rw [← hs.1]; simp only [emit, List.append_nil]; rfl
    · cases hs
  | drvMiscClosed =>
    simp only [Conn.step] at hs
    split at hs
    · simp only [Option.some.injEq, Prod.mk.injEq] at hs; rw [← hs.1]; simp only [emit, List.append_nil]; rfl
    · cases hs
  | drvResp =>
    simp only [Conn.step] at hs
    split at hs
    · cases hs
    · cases hf : s.srvLog[s.pos]? with
      | none =>
        rw [hf] at hs
        simp only at hs
        split at hs
        · cases hs
        · simp only [Option.some.injEq, Prod.mk.injEq] at hs; rw [← hs.1]; simp only [emit, List.append_nil]; rfl
        · simp only [Option.some.injEq, Prod.mk.injEq] at hs; rw [← hs.1]; simp only [emit, List.append_nil]; rfl
      | some f =>
        rw [hf] at hs
        simp only at hs
        cases hl : lookup s.searchmap f.id with
        | some c0 =>
          rw [hl] at hs
          simp only [Option.some.injEq, Prod.mk.injEq] at hs
          rw [← hs.1]
          simp only [emit, List.append_nil]
          exact tk_routeSearch (s := { s with pos := s.pos + 1 }) ⟨h.ok, h.dead⟩ c0 f c
        | none =>
          rw [hl] at hs
          simp only at hs
          cases hr : lookup s.resultmap f.id with
          | none =>
            rw [hr] at hs
            simp only [Option.some.injEq, Prod.mk.injEq] at hs
            rw [← hs.1]
            simp [emit]
          | some i =>
            rw [hr] at hs
            simp only [Option.some.injEq, Prod.mk.injEq] at hs
            rw [← hs.1]
            simp [emit]
  | srvSend f =>
    simp only [Conn.step] at hs
    split at hs
    · simp only [Option.some.injEq, Prod.mk.injEq] at hs; rw [← hs.1]; simp [emit]
    · cases hs
  | srvClose =>
    simp only [Conn.step] at hs
    split at hs
    · simp only [Option.some.injEq, Prod.mk.injEq] at hs; rw [← hs.1]; simp [emit]
    · cases hs
  | srvGarbage =>
    simp only [Conn.step] at hs
    split at hs
    · simp only [Option.some.injEq, Prod.mk.injEq] at hs; rw [← hs.1]; simp [emit]
    · cases hs
  | tick dt =>
    simp only [Conn.step, Option.some.injEq, Prod.mk.injEq] at hs; rw [← hs.1]; simp [emit]

theorem recvTrace_run (c : Nat) : ∀ (evs : List Ev) (s : St), ChanWF s →
    tk (Conn.run s evs).chans c = tk s.chans c ++ recvTrace c s evs := by
  intro evs
  induction evs with
  | nil => intro s _; simp [Conn.run, recvTrace]
  | cons e es ih =>
    intro s hs
    simp only [Conn.run, List.foldl_cons, recvTrace]
    cases hstep : Conn.step s e with
    | none => exact ih s hs
    | some r =>
      obtain ⟨s', ob⟩ := r
      have := ih s' (hs.step e hstep)
      simp only [Conn.run] at this
      rw [this, step_tk hs e hstep c, List.append_assoc]

/-- over any history from the initial state: what the receiver of channel `c` has been handed is the
taken prefix of the channel's queue -/
theorem recvTrace_init (N : Nat) (evs : List Ev) (c : Nat) :
    recvTrace c (Conn.init N) evs = tk (Conn.run (Conn.init N) evs).chans c := by
  rw [recvTrace_run c evs _ (ChanWF.init N)]
  simp [tk, Conn.init]

/-- received so far ++ still to come = everything -/
theorem trace_script (D : Content) (N : Nat) (evs : List Ev) (c : Nat) :
    (recvTrace c (Conn.init N) evs).map (recvOf D) ++ scriptOf D (Conn.run (Conn.init N) evs) c =
      fullScript D (Conn.run (Conn.init N) evs) c := by
  rw [recvTrace_init]
  cases hc : (Conn.run (Conn.init N) evs).chans[c]? with
  | none => simp [tk, hc, scriptOf, fullScript, scriptFrom]
  | some ch =>
    rw [scriptOf_eq hc, fullScript_eq hc]
    simp only [tk, hc, tp]
    rw [← List.append_assoc, ← List.map_append, List.take_append_drop]

end Ldap3V.ConnStream

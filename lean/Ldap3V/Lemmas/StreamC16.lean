/-
Supporting lemmas of Props/C16.lean: the paged view and the request sequence of a well-formed
page list in closed form, reading a cursor to its end, the final result.
-/
import Ldap3V.Lemmas.StreamPagedSim
namespace Ldap3V.Stream
open Spec

/-- one page as a server sends it: the items, the SearchResultDone, whatever follows on the channel -/
structure PageD where
  items : List Item
  res : Res
  junk : List Recv := []
  deriving Repr

def PageD.page (p : PageD) : Page := .script (p.items.map .item ++ .done p.res :: p.junk)

/-- the cookie of the page's paging control (`[]` if there is none) -/
def PageD.cookie (p : PageD) : Bytes :=
  match pagingCookie p.res.ctrls with
  | some (some ck) => ck
  | _ => []

/-- the page announces a successor: its first paging control carries a non-empty cookie -/
def PageD.more (p : PageD) : Prop := ∃ ck, pagingCookie p.res.ctrls = some (some ck) ∧ ck ≠ []

/-- the page ends the paged search: empty cookie, or no paging control at all -/
def PageD.last (p : PageD) : Prop := pagingCookie p.res.ctrls = none ∨ pagingCookie p.res.ctrls = some (some [])

theorem pagedRaw_items (items : List Item) (tl : List Recv) (ps : List Page) :
    pagedRaw (items.map .item ++ tl) ps =
      ⟨items.map (fun i => ⟨[], i⟩) ++ (pagedRaw tl ps).steps, (pagedRaw tl ps).ending⟩ := by
  induction items with
  | nil => simp
  | cons i is ih => simp [pagedRaw_item, ih]

theorem dropPaging_none (cs : List Ctl) (h : pagingCookie cs = none) : dropPaging cs = cs := by
  induction cs with
  | nil => rfl
  | cons c cs ih =>
    by_cases hp : c.paged = true
    · simp [pagingCookie, List.find?, hp] at h
    · simp only [pagingCookie, Option.map_eq_none_iff] at h ih
      simp only [List.find?, hp] at h
      simp [dropPaging, hp, ih h]

/-- the paged view of `pre` (pages with a non-empty cookie), `last` (empty cookie or no control), then
pages that must never be asked for: all items of `pre ++ [last]` in order; the final result is
`last`'s without its first paging control -/
theorem view_paged_concat (pre : List PageD) (last : PageD) (rest : List Page)
    (hpre : ∀ p ∈ pre, p.more) (hlast : last.last) :
    view [.paged] (pre.map PageD.page ++ last.page :: rest) =
      ⟨((pre ++ [last]).flatMap (·.items)).map (fun i => ⟨[], i⟩),
        .done [] { last.res with ctrls := dropPaging last.res.ctrls }⟩ := by
  rw [view_paged]
  induction pre with
  | nil =>
    simp only [List.map_nil, List.nil_append, PageD.page, List.flatMap_cons, List.flatMap_nil, List.append_nil]
    show pagedRaw _ _ = _
    rw [pagedRaw_items]
    rcases hlast with h | h
    · rw [pagedRaw_done_nocontrol _ _ _ h, dropPaging_none _ h]; simp
    · rw [pagedRaw_done_last _ _ _ h]; simp
  | cons p pre ih =>
    obtain ⟨ck, hck, hne⟩ := hpre p (List.mem_cons_self ..)
    have ih' := ih (fun p' hp' => hpre p' (List.mem_cons_of_mem _ hp'))
    simp only [List.map_cons, List.cons_append, PageD.page]
    show pagedRaw _ _ = _
    rw [pagedRaw_items, pagedRaw_done_more _ _ _ ck hck hne]
    simp only [PageD.page] at ih'
    rw [ih']
    simp

theorem nextCookie_items (items : List Item) (tl : List Recv) : nextCookie (items.map .item ++ tl) = nextCookie tl := by
  induction items with
  | nil => rfl
  | cons i is ih => simp [nextCookie_item, ih]

theorem nextCookie_more (p : PageD) (ck : Bytes) (h : pagingCookie p.res.ctrls = some (some ck)) (hne : ck ≠ []) :
    nextCookie (p.items.map .item ++ .done p.res :: p.junk) = some ck := by
  rw [nextCookie_items]; simp [nextCookie, rawView, h, hne]

theorem nextCookie_last (p : PageD) (h : p.last) :
    nextCookie (p.items.map .item ++ .done p.res :: p.junk) = none := by
  rw [nextCookie_items]
  rcases h with h | h <;> simp [nextCookie, rawView, h]

/-- the request sequence for such a page list: cookie `""` first, then the cookie of each page of `pre` -/
theorem pagedRequests_concat (mk : Bytes → Bool → Req) (pre : List PageD) (last : PageD) (rest : List Page)
    (hpre : ∀ p ∈ pre, p.more) (hlast : last.last) (ck0 : Bytes) :
    pagedRequests mk ck0 (pre.map PageD.page ++ last.page :: rest) =
      mk ck0 true :: pre.map (fun p => mk p.cookie true) := by
  induction pre generalizing ck0 with
  | nil =>
    simp only [List.map_nil, List.nil_append, PageD.page, pagedRequests, nextCookie_last last hlast]
  | cons p pre ih =>
    obtain ⟨ck, hck, hne⟩ := hpre p (List.mem_cons_self ..)
    have ih' := ih (fun p' hp' => hpre p' (List.mem_cons_of_mem _ hp')) ck
    simp only [List.map_cons, List.cons_append, PageD.page, pagedRequests, nextCookie_more p ck hck hne]
    simp only [PageD.page] at ih'
    rw [ih']
    simp [PageD.cookie, hck]

/-- `n` calls of `next()` on an active cursor whose view ends in the server's result -/
theorem Cursor.run_nexts_done (r : StartOut) : ∀ (rest : List Step) (c : Cursor) (g : List Bytes) (r0 : Res) (k : Nat),
    c.state = .active → c.rest = rest → c.ending = .done g r0 →
    Cursor.run r c (List.replicate (rest.length + 1 + k) .next) =
      rest.map (fun st => .item (.ok (some st.item))) ++ List.replicate (k + 1) (.item (.ok none)) := by
  intro rest
  induction rest with
  | nil =>
    intro c g r0 k hs hr he
    have h1 : c.step r .next = ({ c with state := .done, acc := c.acc ++ g, final := some r0 }, .item (.ok none)) := by
      simp [Cursor.step, Cursor.next, hs, hr, he]
    simp only [List.length_nil, Nat.zero_add, List.map_nil, List.nil_append]
    rw [show 1 + k = k + 1 by omega, List.replicate_succ, Cursor.run, h1]
    simp only [Output.stuck, Bool.false_eq_true, if_false, List.replicate_succ, List.cons.injEq, true_and]
    generalize hc' : ({ c with state := SState.done, acc := c.acc ++ g, final := some r0 } : Cursor) = c'
    have hs' : c'.state = .done := by rw [← hc']
    clear hc' h1
    induction k with
    | zero => rfl
    | succ k ih =>
      rw [List.replicate_succ, Cursor.run]
      have h2 : c'.step r .next = (c', .item (.ok none)) := by simp [Cursor.step, Cursor.next, hs']
      rw [h2]
      simp only [Output.stuck, Bool.false_eq_true, if_false, List.replicate_succ, List.cons.injEq, true_and]
      exact ih
  | cons st tl ih =>
    intro c g r0 k hs hr he
    have h1 : c.step r .next = ({ c with rest := tl, pos := c.pos + 1, acc := c.acc ++ st.gain }, .item (.ok (some st.item))) := by
      simp [Cursor.step, Cursor.next, hs, hr]
    rw [show (st :: tl).length + 1 + k = (tl.length + 1 + k) + 1 by simp; omega, List.replicate_succ, Cursor.run, h1]
    simp only [Output.stuck, Bool.false_eq_true, if_false, List.map_cons, List.cons_append, List.cons.injEq, true_and]
    exact ih _ g r0 k hs rfl he

/-- the cursor state after those calls -/
theorem Cursor.exec_nexts_done (r : StartOut) : ∀ (rest : List Step) (c : Cursor) (g : List Bytes) (r0 : Res) (k : Nat),
    c.state = .active → c.rest = rest → c.ending = .done g r0 →
    (Cursor.exec r c (List.replicate (rest.length + 1 + k) .next)).state = .done := by
  intro rest
  induction rest with
  | nil =>
    intro c g r0 k hs hr he
    have h1 : c.step r .next = ({ c with state := .done, acc := c.acc ++ g, final := some r0 }, .item (.ok none)) := by
      simp [Cursor.step, Cursor.next, hs, hr, he]
    simp only [List.length_nil, Nat.zero_add]
    rw [show 1 + k = k + 1 by omega, List.replicate_succ, Cursor.exec, h1]
    simp only [Output.stuck, Bool.false_eq_true, if_false]
    generalize hc' : ({ c with state := SState.done, acc := c.acc ++ g, final := some r0 } : Cursor) = c'
    have hs' : c'.state = .done := by rw [← hc']
    clear hc' h1
    induction k with
    | zero => exact hs'
    | succ k ih =>
      rw [List.replicate_succ, Cursor.exec]
      have h2 : c'.step r .next = (c', .item (.ok none)) := by simp [Cursor.step, Cursor.next, hs']
      rw [h2]
      simp only [Output.stuck, Bool.false_eq_true, if_false]
      exact ih
  | cons st tl ih =>
    intro c g r0 k hs hr he
    have h1 : c.step r .next = ({ c with rest := tl, pos := c.pos + 1, acc := c.acc ++ st.gain }, .item (.ok (some st.item))) := by
      simp [Cursor.step, Cursor.next, hs, hr]
    rw [show (st :: tl).length + 1 + k = (tl.length + 1 + k) + 1 by simp; omega, List.replicate_succ, Cursor.exec, h1]
    simp only [Output.stuck, Bool.false_eq_true, if_false]
    exact ih _ g r0 k hs rfl he

/-- after the first paging control is gone no paging control is left, if there was at most one -/
theorem dropPaging_clean (cs : List Ctl) (h : (cs.filter (·.paged)).length ≤ 1) : ∀ c ∈ dropPaging cs, c.paged = false := by
  induction cs with
  | nil => intro c hc; simp [dropPaging] at hc
  | cons c0 cs ih =>
    intro c hc
    by_cases hp : c0.paged = true
    · simp only [dropPaging, hp, if_true] at hc
      have h0 : (cs.filter (·.paged)).length = 0 := by
        simp only [List.filter, hp, List.length_cons] at h; omega
      have h1 : cs.filter (·.paged) = [] := List.eq_nil_of_length_eq_zero h0
      have : c ∈ cs.filter (·.paged) → False := by rw [h1]; simp
      cases hcp : c.paged with
      | false => rfl
      | true => exact absurd (List.mem_filter.mpr ⟨hc, hcp⟩) this
    · simp only [dropPaging, hp, Bool.false_eq_true, if_false, List.mem_cons] at hc
      have h' : (cs.filter (·.paged)).length ≤ 1 := by simpa [List.filter, hp] using h
      rcases hc with rfl | hc
      · simpa using hp
      · exact ih h' c hc

end Ldap3V.Stream

/-
Completeness of search delivery (C01 / C10): a search channel does not merely receive a
SUBSEQUENCE of the frames the server sent under its ID (`RouteInv.itemsLog`) — it receives ALL of
them, from the moment the driver registered the search until the entry is removed.

This file: the per-channel statement `CAt c p0 s` ("from read position `p0` on, channel `c` got
exactly the frames with its ID"), the description `Quiet c s s'` of a step that does not concern
channel `c`, and the generic preservation arguments.  No schedule hypothesis (`FreshRun`) is used
anywhere: the side invariants needed (`KeyU`, `QInv`) are structural.
-/
import Ldap3V.Lemmas.ConnRouteStep
namespace Ldap3V.Conn

/-- the part of the server's output the driver has read so far -/
def consumed (s : St) : List Frame := s.srvLog.take s.pos

theorem consumed_length {s : St} (h : s.pos ≤ s.srvLog.length) : (consumed s).length = s.pos := by
  simp only [consumed, List.length_take]; omega

def isEntry : Item → Bool
  | .entry _ => true
  | .done _ => false

/-- how `routeSearch` classifies a frame by its protocolOp number -/
def classOk : Item → Prop
  | .entry f => f.op = 4 ∨ f.op = 25 ∨ f.op = 19
  | .done f => f.op = 5 ∧ f.good = true

/-- the frames with ID `k` among `T[a..b)` -/
def seg (T : List Frame) (k : Int) (a b : Nat) : List Frame :=
  ((T.take b).drop a).filter fun f => f.id == k

/-- Channel `c` is complete from read position `p0` on. -/
structure CAt (c p0 : Nat) (s : St) : Prop where
  le : p0 ≤ (consumed s).length
  /-- every item is classified as `routeSearch` does -/
  cls : ∀ ch it, s.chans[c]? = some ch → it ∈ ch.items → classOk it
  /-- while the search is registered: no Done yet, and while the receiver is alive the channel
  holds EVERY frame with that ID read since `p0` -/
  open_ : ∀ ch k, s.chans[c]? = some ch → (k, c) ∈ s.searchmap →
    (∀ it ∈ ch.items, isEntry it = true) ∧
    (ch.rxAlive = true → ch.items.map itemFrame = seg (consumed s) (k : Int) p0 (consumed s).length)
  /-- once a Done has been delivered: the channel holds every frame with the search's ID read from
  `p0` up to and including that Done (at position `p1 - 1`), the Done last -/
  closed : ∀ ch f, s.chans[c]? = some ch → Item.done f ∈ ch.items →
    ∃ (o : Op) (p1 : Nat) (es : List Item), s.ops[ch.opIdx]? = some o ∧ p0 < p1 ∧ p1 ≤ (consumed s).length ∧
      (consumed s)[p1 - 1]? = some f ∧ ch.items = es ++ [Item.done f] ∧ (∀ it ∈ es, isEntry it = true) ∧
      ch.items.map itemFrame = seg (consumed s) (o.id : Int) p0 p1

/-- existing operations keep their ID, and `taken` is final -/
def Fwd (ops ops' : List Op) : Prop :=
  ∀ (j : Nat) (o : Op), ops[j]? = some o → ∃ o' : Op, ops'[j]? = some o' ∧ o'.id = o.id ∧
    (o.phase = .taken → o'.phase = .taken)

theorem Fwd.refl (ops : List Op) : Fwd ops ops := fun _ o h => ⟨o, h, rfl, fun h => h⟩

theorem Fwd.trans {a b c : List Op} (h1 : Fwd a b) (h2 : Fwd b c) : Fwd a c := by
  intro j o ho
  obtain ⟨o1, ho1, e1, p1⟩ := h1 j o ho
  obtain ⟨o2, ho2, e2, p2⟩ := h2 j o1 ho1
  exact ⟨o2, ho2, e2.trans e1, fun h => p2 (p1 h)⟩

/-- a step that does not concern channel `c`: its items, its registration and the frames with its
ID are left alone -/
structure Quiet (c : Nat) (s s' : St) : Prop where
  chans : ∀ ch', s'.chans[c]? = some ch' →
    (∃ ch, s.chans[c]? = some ch ∧ ch'.items = ch.items ∧ ch'.opIdx = ch.opIdx ∧ (ch'.rxAlive = true → ch.rxAlive = true)) ∨
    (s.chans[c]? = none ∧ ch'.items = [] ∧ (∀ k, (k, c) ∉ s'.searchmap) ∧
      ∃ o', s'.ops[ch'.opIdx]? = some o' ∧ o'.phase = .allocated)
  keep : ∀ ch, s.chans[c]? = some ch → ∃ ch', s'.chans[c]? = some ch' ∧ ch'.opIdx = ch.opIdx
  sm : ∀ k, (k, c) ∈ s'.searchmap → (k, c) ∈ s.searchmap
  log : ∃ ex, consumed s' = consumed s ++ ex ∧ ∀ k, (k, c) ∈ s'.searchmap → ∀ f ∈ ex, f.id ≠ (k : Int)
  ops : Fwd s.ops s'.ops

theorem seg_append_left (T ex : List Frame) (k : Int) (a b : Nat) (hb : b ≤ T.length) :
    seg (T ++ ex) k a b = seg T k a b := by
  unfold seg
  rw [List.take_append_of_le_length hb]

theorem seg_full_append (T ex : List Frame) (k : Int) (a : Nat) (ha : a ≤ T.length) :
    seg (T ++ ex) k a (T ++ ex).length = seg T k a T.length ++ ex.filter (fun f => f.id == k) := by
  unfold seg
  rw [List.take_length, List.take_length, List.drop_append_of_le_length ha, List.filter_append]

theorem filter_id_none (ex : List Frame) (k : Int) (h : ∀ f ∈ ex, f.id ≠ k) : ex.filter (fun f => f.id == k) = [] := by
  rw [List.filter_eq_nil_iff]
  intro f hf
  simpa using h f hf

theorem CAt.transfer {c p0 : Nat} {s s' : St} (h : CAt c p0 s) (q : Quiet c s s') : CAt c p0 s' := by
  obtain ⟨ex, hex, hexid⟩ := q.log
  have hlen : (consumed s).length ≤ (consumed s').length := by rw [hex, List.length_append]; omega
  refine ⟨Nat.le_trans h.le hlen, ?_, ?_, ?_⟩
  · intro ch' it hc' hit
    rcases q.chans ch' hc' with ⟨ch, hc, hi, _, _⟩ | ⟨_, hi, _⟩
    · rw [hi] at hit; exact h.cls ch it hc hit
    · rw [hi] at hit; cases hit
  · intro ch' k hc' hk
    rcases q.chans ch' hc' with ⟨ch, hc, hi, _, hal⟩ | ⟨_, _, hno, _⟩
    · obtain ⟨h1, h2⟩ := h.open_ ch k hc (q.sm k hk)
      refine ⟨by rw [hi]; exact h1, fun ha => ?_⟩
      rw [hi, h2 (hal ha), hex, seg_full_append _ _ _ _ h.le, filter_id_none _ _ (hexid k hk), List.append_nil]
    · exact absurd hk (hno k)
  · intro ch' f hc' hf
    rcases q.chans ch' hc' with ⟨ch, hc, hi, hx, _⟩ | ⟨_, hi, _⟩
    · rw [hi] at hf
      obtain ⟨o, p1, es, ho, hp0, hp1, hget, hes, hent, hseg⟩ := h.closed ch f hc hf
      obtain ⟨o', ho', hid, _⟩ := q.ops _ o ho
      refine ⟨o', p1, es, by rw [hx]; exact ho', hp0, Nat.le_trans hp1 hlen, ?_, by rw [hi]; exact hes, hent, ?_⟩
      · rw [hex, List.getElem?_append_left (by omega)]; exact hget
      · rw [hi, hid, hex, seg_append_left _ _ _ _ _ hp1]; exact hseg
    · rw [hi] at hf; cases hf

/-- a channel that has never been given anything is complete from the current position on -/
theorem CAt.fresh {c : Nat} {s : St} (h : ∀ ch, s.chans[c]? = some ch → ch.items = []) :
    CAt c (consumed s).length s := by
  refine ⟨Nat.le_refl _, ?_, ?_, ?_⟩
  · intro ch it hc hit; rw [h ch hc] at hit; cases hit
  · intro ch k hc _
    rw [h ch hc]
    refine ⟨fun it hit => (by cases hit), fun _ => ?_⟩
    simp [seg]
  · intro ch f hc hf; rw [h ch hc] at hf; cases hf

/-- The per-channel invariant: once the driver has taken the request off the queue the channel is
complete from some read position on; before that it is empty and not registered. -/
def P (c : Nat) (s : St) : Prop :=
  ∀ ch, s.chans[c]? = some ch → ∃ o, s.ops[ch.opIdx]? = some o ∧
    ((o.phase = .taken ∧ ∃ p0, CAt c p0 s) ∨ (o.phase ≠ .taken ∧ ch.items = [] ∧ ∀ k, (k, c) ∉ s.searchmap))

theorem P.transfer {c : Nat} {s s' : St} (h : P c s) (q : Quiet c s s') : P c s' := by
  intro ch' hc'
  rcases q.chans ch' hc' with ⟨ch, hc, hi, hx, _⟩ | ⟨_, hi, hno, o', ho', hph⟩
  · obtain ⟨o, ho, hcase⟩ := h ch hc
    obtain ⟨o', ho', _, hph⟩ := q.ops _ o ho
    refine ⟨o', by rw [hx]; exact ho', ?_⟩
    rcases hcase with ⟨ht, p0, hp0⟩ | ⟨hnt, hemp, hno⟩
    · exact Or.inl ⟨hph ht, p0, hp0.transfer q⟩
    · by_cases ht' : o'.phase = .taken
      · refine Or.inl ⟨ht', _, CAt.fresh ?_⟩
        intro ch2 hc2
        rw [hc'] at hc2; cases hc2
        rw [hi]; exact hemp
      · exact Or.inr ⟨ht', by rw [hi]; exact hemp, fun k hk => hno k (q.sm k hk)⟩
  · exact ⟨o', ho', Or.inr ⟨by rw [hph]; simp, hi, hno⟩⟩

/-! ### the side invariants -/

/-- `searchmap` is a map: at most one entry per key (structural: `insert` replaces) -/
def KeyU (m : List (Nat × Nat)) : Prop := m.Pairwise fun p q => p.1 ≠ q.1

theorem keyU_erase {m : List (Nat × Nat)} (h : KeyU m) (k : Int) : KeyU (erase m k) :=
  List.Pairwise.filter _ h

theorem keyU_insert {m : List (Nat × Nat)} (h : KeyU m) (k v : Nat) : KeyU (insert m k v) := by
  unfold Conn.insert KeyU
  rw [List.pairwise_append]
  refine ⟨keyU_erase h k, List.pairwise_singleton _ _, ?_⟩
  intro p hp q hq
  simp only [List.mem_singleton] at hq
  subst hq
  have := (mem_erase hp).2
  intro e
  exact this (by rw [e])

theorem keyU_nil : KeyU [] := List.Pairwise.nil

theorem keyU_lookup {m : List (Nat × Nat)} (h : KeyU m) {k c : Nat} (hm : (k, c) ∈ m) : lookup m (k : Int) = some c := by
  induction m with
  | nil => cases hm
  | cons p rest ih =>
    rw [KeyU, List.pairwise_cons] at h
    unfold Conn.lookup
    simp only [List.find?_cons]
    rcases List.mem_cons.mp hm with e | hin
    · subst e
      simp
    · have hne : p.1 ≠ k := h.1 (k, c) hin
      have : ((p.1 : Int) == (k : Int)) = false := by simp; omega
      rw [this]
      exact ih h.2 hin

/-- the channel looked up for a frame is the only one registered under that ID -/
theorem keyU_only {m : List (Nat × Nat)} (h : KeyU m) {k c c' : Nat} {fid : Int} (hl : lookup m fid = some c')
    (hm : (k, c) ∈ m) (hk : fid = (k : Int)) : c = c' := by
  have := keyU_lookup h hm
  rw [← hk, hl] at this
  exact (Option.some.inj this).symm

/-- what sits in the op queue is `queued`, once -/
structure QInv (s : St) : Prop where
  qPhase : ∀ i ∈ s.opQ, ∃ o : Op, s.ops[i]? = some o ∧ o.phase = .queued
  nodup : s.opQ.Nodup

theorem QInv.not_mem {s : St} (h : QInv s) {i : Nat} {o : Op} (ho : s.ops[i]? = some o) (hph : o.phase ≠ .queued) :
    i ∉ s.opQ := by
  intro hi
  obtain ⟨o2, h1, h2⟩ := h.qPhase i hi
  rw [ho] at h1; cases h1
  exact hph h2

/-! ### the two kinds of step that do concern a channel -/

/-- the driver takes the request of the search that owns channel `c` off the queue -/
structure RegC (c : Nat) (s s' : St) : Prop where
  was : ∃ ch o, s.chans[c]? = some ch ∧ s.ops[ch.opIdx]? = some o ∧ o.phase = .queued
  chans : s'.chans = s.chans
  log : consumed s' = consumed s
  ops : Fwd s.ops s'.ops
  now : ∀ ch o', s'.chans[c]? = some ch → s'.ops[ch.opIdx]? = some o' → o'.phase = .taken

/-- the driver routes the frame just read to channel `c`, whose receiver is alive -/
def AppC (c : Nat) (s s' : St) : Prop :=
  ∃ (ch : Chan) (k : Nat) (f : Frame) (item : Item), s.chans[c]? = some ch ∧ ch.rxAlive = true ∧ (k, c) ∈ s.searchmap ∧
    f.id = (k : Int) ∧ itemFrame item = f ∧ classOk item ∧
    s'.chans = s.chans.set c { ch with items := ch.items ++ [item] } ∧
    consumed s' = consumed s ++ [f] ∧ s'.ops = s.ops ∧
    ((isEntry item = true ∧ s'.searchmap = s.searchmap) ∨ (item = .done f ∧ s'.searchmap = erase s.searchmap f.id))

theorem seg_snoc (T : List Frame) (f : Frame) (k : Int) (a : Nat) (ha : a ≤ T.length) (hf : f.id = k) :
    seg (T ++ [f]) k a (T.length + 1) = seg T k a T.length ++ [f] := by
  have := seg_full_append T [f] k a ha
  rw [List.length_append, List.length_singleton] at this
  rw [this]
  simp [hf]

theorem CAt.app {c p0 : Nat} {s s' : St} (h : CAt c p0 s) (a : AppC c s s') (hr : RouteInv s) : CAt c p0 s' := by
  obtain ⟨ch, k, f, item, hc, hal, hreg, hfid, hif, hcls, hchans, hlog, hops, hsm⟩ := a
  have hclt : c < s.chans.length := (List.getElem?_eq_some_iff.mp hc).1
  have hc' : s'.chans[c]? = some { ch with items := ch.items ++ [item] } := by
    rw [hchans, List.getElem?_set]; simp [hclt]
  obtain ⟨ch2, o, hc2, ho, hid⟩ := hr.sm (k, c) hreg
  simp only at hc2 ho hid
  rw [hc] at hc2; cases hc2
  obtain ⟨hent, hseg⟩ := h.open_ ch k hc hreg
  have hseg := hseg hal
  have hlen : (consumed s').length = (consumed s).length + 1 := by rw [hlog]; simp
  have hsub : ∀ k', (k', c) ∈ s'.searchmap → (k', c) ∈ s.searchmap := by
    intro k' hk'
    rcases hsm with ⟨_, e⟩ | ⟨_, e⟩
    · rw [e] at hk'; exact hk'
    · rw [e] at hk'; exact (mem_erase hk').1
  have hkey : ∀ k', (k', c) ∈ s.searchmap → k' = k := by
    intro k' hk'
    obtain ⟨ch3, o3, hc3, ho3, hid3⟩ := hr.sm (k', c) hk'
    simp only at hc3 ho3 hid3
    rw [hc] at hc3; cases hc3
    rw [ho] at ho3; cases ho3
    rw [← hid3, hid]
  refine ⟨by rw [hlen]; exact Nat.le_succ_of_le h.le, ?_, ?_, ?_⟩
  · intro ch' it hch' hit
    rw [hc'] at hch'; cases hch'
    simp only [List.mem_append, List.mem_singleton] at hit
    rcases hit with hit | rfl
    · exact h.cls ch it hc hit
    · exact hcls
  · intro ch' k' hch' hk'
    rw [hc'] at hch'; cases hch'
    have e := hkey k' (hsub k' hk')
    subst e
    rcases hsm with ⟨hie, _⟩ | ⟨_, e⟩
    · refine ⟨?_, fun _ => ?_⟩
      · intro it hit
        simp only [List.mem_append, List.mem_singleton] at hit
        rcases hit with hit | rfl
        · exact hent it hit
        · exact hie
      · simp only [List.map_append, List.map_cons, List.map_nil]
        rw [hlen, hlog, seg_snoc _ _ _ _ h.le hfid, hseg, hif]
    · rw [e] at hk'
      exact absurd hfid.symm (mem_erase hk').2
  · intro ch' f2 hch' hf2
    rw [hc'] at hch'; cases hch'
    simp only [List.mem_append, List.mem_singleton] at hf2
    rcases hf2 with hf2 | hf2
    · have := hent _ hf2
      simp [isEntry] at this
    · subst hf2
      simp only [itemFrame] at hif
      subst hif
      refine ⟨o, (consumed s).length + 1, ch.items, by rw [hops]; exact ho, by have := h.le; omega, by rw [hlen]; exact Nat.le_refl _,
        ?_, rfl, hent, ?_⟩
      · rw [hlog]; simp
      · simp only [List.map_append, List.map_cons, List.map_nil, itemFrame]
        rw [hlog, hid, seg_snoc _ _ _ _ h.le hfid, hseg]

/-- channel `c` belongs to operation number `i` with ID `k`, which has been taken off the queue (so
`c` will not be registered again) -/
def TakenC (c i k : Nat) (s : St) : Prop :=
  ∃ ch o, s.chans[c]? = some ch ∧ ch.opIdx = i ∧ s.ops[i]? = some o ∧ o.id = k ∧ o.phase = .taken

/-- one step, for a channel whose search has been taken off the queue, at a FIXED start position -/
theorem CAt.step {c p0 i k : Nat} {s s' : St} (h : CAt c p0 s) (ht : TakenC c i k s) (hr : RouteInv s)
    (cls : Quiet c s s' ∨ RegC c s s' ∨ AppC c s s') : CAt c p0 s' ∧ TakenC c i k s' := by
  obtain ⟨ch, o, hc, hx, ho, hk, hph⟩ := ht
  subst hx
  rcases cls with q | r | a
  · refine ⟨h.transfer q, ?_⟩
    obtain ⟨ch', hc', hx⟩ := q.keep ch hc
    obtain ⟨o', ho', hid, hp⟩ := q.ops _ o ho
    exact ⟨ch', o', hc', hx, ho', hid.trans hk, hp hph⟩
  · obtain ⟨ch2, o2, hc2, ho2, hq2⟩ := r.was
    rw [hc] at hc2; cases hc2
    rw [ho] at ho2; cases ho2
    rw [hph] at hq2; cases hq2
  · refine ⟨h.app a hr, ?_⟩
    obtain ⟨ch2, k2, f, item, hc2, _, _, _, _, _, hchans, _, hops, _⟩ := a
    rw [hc] at hc2; cases hc2
    have hclt : c < s.chans.length := (List.getElem?_eq_some_iff.mp hc).1
    refine ⟨{ ch with items := ch.items ++ [item] }, o, ?_, rfl, by rw [hops]; exact ho, hk, hph⟩
    rw [hchans, List.getElem?_set]; simp [hclt]

theorem P.step {c : Nat} {s s' : St} (h : P c s) (hr : RouteInv s)
    (cls : Quiet c s s' ∨ RegC c s s' ∨ AppC c s s') : P c s' := by
  rcases cls with q | r | a
  · exact h.transfer q
  · intro ch' hc'
    obtain ⟨ch, o, hc, ho, hq⟩ := r.was
    have hc2 := hc'
    rw [r.chans, hc] at hc2; cases hc2
    obtain ⟨o2, ho2, hcase⟩ := h ch' hc
    rw [ho] at ho2; cases ho2
    obtain ⟨o', ho', _, _⟩ := r.ops _ o ho
    refine ⟨o', ho', Or.inl ⟨r.now ch' o' hc' ho', _, CAt.fresh ?_⟩⟩
    intro ch2 hch2
    rw [hc'] at hch2; cases hch2
    rcases hcase with ⟨ht, _⟩ | ⟨_, hemp, _⟩
    · rw [hq] at ht; cases ht
    · exact hemp
  · intro ch' hc'
    have a' := a
    obtain ⟨ch, k, f, item, hc, _, hreg, _, _, _, hchans, _, hops, _⟩ := a'
    have hclt : c < s.chans.length := (List.getElem?_eq_some_iff.mp hc).1
    have hc2 : s'.chans[c]? = some { ch with items := ch.items ++ [item] } := by
      rw [hchans, List.getElem?_set]; simp [hclt]
    rw [hc2] at hc'; cases hc'
    obtain ⟨o, ho, hcase⟩ := h ch hc
    refine ⟨o, by rw [hops]; exact ho, ?_⟩
    rcases hcase with ⟨ht, p0, hp0⟩ | ⟨_, _, hno⟩
    · exact Or.inl ⟨ht, p0, hp0.app a hr⟩
    · exact absurd hreg (hno k)

end Ldap3V.Conn

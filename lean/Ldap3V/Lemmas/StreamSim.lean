/-
Simulation principle: if a relation between model states and cursor states is kept by every call
(with equal outputs) then every call sequence produces the same outputs on both sides.
-/
import Ldap3V.Lemmas.StreamRules
namespace Ldap3V.Stream
open Spec

theorem run_eq_of_sim (r : StartOut) (R : M → Cursor → Prop)
    (hstep : ∀ m c k, R m c → (step m k).2 = (c.step r k).2 ∧
      ((step m k).2.stuck = false → R (step m k).1 (c.step r k).1)) :
    ∀ (calls : List Call) (m : M) (c : Cursor), R m c → run m calls = Cursor.run r c calls := by
  intro calls
  induction calls with
  | nil => intro m c _; rfl
  | cons k ks ih =>
    intro m c hR
    obtain ⟨ho, hn⟩ := hstep m c k hR
    simp only [run, Cursor.run]
    rw [ho]
    congr 1
    by_cases hs : (c.step r k).2.stuck = true
    · simp [hs]
    · have hs' : (c.step r k).2.stuck = false := by simpa using hs
      simp only [hs', Bool.false_eq_true, if_false]
      exact ih _ _ (hn (by rw [ho]; exact hs'))

theorem Cursor.start_not_stuck (r : StartOut) (c : Cursor) (q : Query) : (c.step r (.start q)).2.stuck = false := by
  simp only [Cursor.step, Cursor.start]
  split <;> try rfl
  split <;> rfl

/-- the same with the initial `start`, which establishes the relation -/
theorem run_start_of_sim (r : StartOut) (R : M → Cursor → Prop)
    (hstep : ∀ m c k, R m c → (step m k).2 = (c.step r k).2 ∧
      ((step m k).2.stuck = false → R (step m k).1 (c.step r k).1))
    (m0 : M) (c0 : Cursor) (q : Query) (calls : List Call)
    (ho : (step m0 (.start q)).2 = (c0.step r (.start q)).2)
    (hR : R (step m0 (.start q)).1 (c0.step r (.start q)).1) :
    run m0 (.start q :: calls) = Cursor.run r c0 (.start q :: calls) := by
  have hns := Cursor.start_not_stuck r c0 q
  show (step m0 (.start q)).2 :: (if (step m0 (.start q)).2.stuck then [] else run (step m0 (.start q)).1 calls) =
    (c0.step r (.start q)).2 :: (if (c0.step r (.start q)).2.stuck then [] else Cursor.run r (c0.step r (.start q)).1 calls)
  rw [ho, hns]
  simp only [Bool.false_eq_true, if_false]
  congr 1
  exact run_eq_of_sim r R hstep calls _ _ hR

theorem fuelOf_succ (m : M) : fuelOf m = (2 * remaining m.s + 2 * m.chain.length + 3) + 1 := rfl

/-- `exec` and `run` stop at the same place -/
theorem exec_cons (m : M) (k : Call) (ks : List Call) :
    exec m (k :: ks) = if (step m k).2.stuck then (step m k).1 else exec (step m k).1 ks := rfl

theorem run_cons (m : M) (k : Call) (ks : List Call) :
    run m (k :: ks) = (step m k).2 :: (if (step m k).2.stuck then [] else run (step m k).1 ks) := rfl

end Ldap3V.Stream

/-
Simulation principle: if a relation between model states and cursor states is kept by every call
(with equal outputs) then every call sequence produces the same outputs on both sides.
-/
import Ldap3V.Lemmas.StreamRules
namespace Ldap3V.Stream
open Spec

theorem run_eq_of_sim (r : StartOut) (R : M → Cursor → Prop)
    (hstep : ∀ m c k, R m c → (step m k).2 = (c.step r k).2 ∧
      ((step m k).2.stuck = false → R (step m k).1 (c.step r k).1)) :
    ∀ (calls : List Call) (m : M) (c : Cursor), R m c → run m calls = Cursor.run r c calls := by
  intro calls
  induction calls with
  | nil => intro m c _; rfl
  | cons k ks ih =>
    intro m c hR
    obtain ⟨ho, hn⟩ := hstep m c k hR
    simp only [run, Cursor.run]
    rw [ho]
    congr 1
    by_cases hs : (c.step r k).2.stuck = true
    · simp [hs]
    · have hs' : (c.step r k).2.stuck = false := by simpa using hs
      simp only [hs', Bool.false_eq_true, if_false]
      exact ih _ _ (hn (by rw [ho]; exact hs'))

theorem Cursor.start_not_stuck (r : StartOut) (c : Cursor) (q : Query) : (c.step r (.start q)).2.stuck = false := by
  simp only [Cursor.step, Cursor.start]
  split <;> try rfl
  split <;> rfl

/-- the same with the initial `start`, which establishes the relation -/
theorem run_start_of_sim (r : StartOut) (R : M → Cursor → Prop)
    (hstep : ∀ m c k, R m c → (step m k).2 = (c.step r k).2 ∧
      ((step m k).2.stuck = false → R (step m k).1 (c.step r k).1))
    (m0 : M) (c0 : Cursor) (q : Query) (calls : List Call)
    (ho : (step m0 (.start q)).2 = (c0.step r (.start q)).2)
    (hR : R (step m0 (.start q)).1 (c0.step r (.start q)).1) :
    run m0 (.start q :: calls) = Cursor.run r c0 (.start q :: calls) := by
  have hns := Cursor.start_not_stuck r c0 q
  show (step m0 (.start q)).2 :: (if (step m0 (.start q)).2.stuck then [] else run (step m0 (.start q)).1 calls) =
    (c0.step r (.start q)).2 :: (if (c0.step r (.start q)).2.stuck then [] else Cursor.run r (c0.step r (.start q)).1 calls)
  rw [ho, hns]
  simp only [Bool.false_eq_true, if_false]
  congr 1
  exact run_eq_of_sim r R hstep calls _ _ hR

/-- the cursor after the calls (stops where `Cursor.run` stops) -/
def Cursor.exec (r : StartOut) (c : Cursor) : List Call → Cursor
  | [] => c
  | k :: ks => if (c.step r k).2.stuck then (c.step r k).1 else Cursor.exec r (c.step r k).1 ks

/-- the relation also holds between the final states, provided the caller never got stuck -/
theorem exec_sim (r : StartOut) (R : M → Cursor → Prop)
    (hstep : ∀ m c k, R m c → (step m k).2 = (c.step r k).2 ∧
      ((step m k).2.stuck = false → R (step m k).1 (c.step r k).1)) :
    ∀ (calls : List Call) (m : M) (c : Cursor), R m c → (∀ o ∈ run m calls, o.stuck = false) →
      R (exec m calls) (Cursor.exec r c calls) := by
  intro calls
  induction calls with
  | nil => intro m c hR _; exact hR
  | cons k ks ih =>
    intro m c hR hns
    obtain ⟨ho, hn⟩ := hstep m c k hR
    have h1 : (step m k).2.stuck = false := hns _ (by simp [run])
    have h2 : (c.step r k).2.stuck = false := by rw [← ho]; exact h1
    show R (if (step m k).2.stuck then (step m k).1 else exec (step m k).1 ks)
      (if (c.step r k).2.stuck then (c.step r k).1 else Cursor.exec r (c.step r k).1 ks)
    rw [h1, h2]
    simp only [Bool.false_eq_true, if_false]
    refine ih _ _ (hn h1) (fun o ho' => hns o ?_)
    simp only [run, h1, Bool.false_eq_true, if_false, List.mem_cons]
    exact Or.inr ho'

/-- what the cursor knows about its final result -/
structure CInv (c : Cursor) : Prop where
  fin : c.state ≠ .done → c.final = none
  finDone : c.state = .done → ∃ g r, c.ending = .done g r ∧ c.final = some r

theorem Cursor.step_ending (r : StartOut) (c : Cursor) (k : Call) : (c.step r k).1.ending = c.ending := by
  cases k with
  | start q => simp only [Cursor.step, Cursor.start]; split; rfl; split <;> rfl
  | next =>
    simp only [Cursor.step, Cursor.next]
    split; rfl
    split; rfl
    split <;> rfl
  | finish => simp only [Cursor.step, Cursor.finish]; split <;> rfl
  | state => rfl

theorem CInv.step (r : StartOut) {c : Cursor} (k : Call) (h : CInv c) : CInv (c.step r k).1 := by
  cases k with
  | start q =>
    simp only [Cursor.step, Cursor.start]
    split
    · exact h
    · rename_i hf
      have hf' : c.state = .fresh := by simpa using hf
      split
      · exact ⟨fun _ => h.fin (by rw [hf']; simp), fun hd => by simp at hd⟩
      · exact ⟨fun _ => h.fin (by rw [hf']; simp), fun hd => by simp at hd⟩
  | next =>
    simp only [Cursor.step, Cursor.next]
    split
    · exact h
    · rename_i ha
      have ha' : c.state = .active := by simpa using ha
      split
      · exact ⟨fun _ => h.fin (by rw [ha']; simp), fun hd => by simp [ha'] at hd⟩
      · split
        · rename_i g r' he
          exact ⟨fun hd => by simp at hd, fun _ => ⟨g, r', he, rfl⟩⟩
        · exact ⟨fun _ => h.fin (by rw [ha']; simp), fun hd => by simp at hd⟩
        · exact h
        · exact h
  | finish =>
    simp only [Cursor.step, Cursor.finish]
    split
    · exact h
    · exact ⟨fun _ => rfl, fun hd => by simp at hd⟩
  | state => exact h

theorem CInv.ofView (v : View) : CInv (Cursor.ofView v) :=
  ⟨fun _ => rfl, fun hd => by simp [Cursor.ofView] at hd⟩

theorem CInv.exec (r : StartOut) : ∀ (calls : List Call) (c : Cursor), CInv c → CInv (Cursor.exec r c calls) := by
  intro calls
  induction calls with
  | nil => intro c h; exact h
  | cons k ks ih =>
    intro c h
    simp only [Cursor.exec]
    split
    · exact h.step r k
    · exact ih _ (h.step r k)

theorem Cursor.exec_ending (r : StartOut) : ∀ (calls : List Call) (c : Cursor), (Cursor.exec r c calls).ending = c.ending := by
  intro calls
  induction calls with
  | nil => intro c; rfl
  | cons k ks ih =>
    intro c
    simp only [Cursor.exec]
    split
    · exact Cursor.step_ending r c k
    · rw [ih, Cursor.step_ending]

/-- simulation restricted to a class of calls -/
theorem run_eq_of_sim_on (P : Call → Prop) (r : StartOut) (R : M → Cursor → Prop)
    (hstep : ∀ m c k, P k → R m c → (step m k).2 = (c.step r k).2 ∧
      ((step m k).2.stuck = false → R (step m k).1 (c.step r k).1)) :
    ∀ (calls : List Call) (m : M) (c : Cursor), (∀ k ∈ calls, P k) → R m c →
      run m calls = Cursor.run r c calls ∧
      ((∀ o ∈ run m calls, o.stuck = false) → R (exec m calls) (Cursor.exec r c calls)) := by
  intro calls
  induction calls with
  | nil => intro m c _ hR; exact ⟨rfl, fun _ => hR⟩
  | cons k ks ih =>
    intro m c hP hR
    obtain ⟨ho, hn⟩ := hstep m c k (hP k (List.mem_cons_self ..)) hR
    have hP' : ∀ k' ∈ ks, P k' := fun k' hk' => hP k' (List.mem_cons_of_mem _ hk')
    by_cases hs : (step m k).2.stuck = true
    · have hs' : (c.step r k).2.stuck = true := by rw [← ho]; exact hs
      refine ⟨?_, fun hns => ?_⟩
      · simp only [run, Cursor.run, hs, hs', if_true, ho]
      · have := hns (step m k).2 (by simp [run])
        rw [hs] at this; cases this
    · have hs0 : (step m k).2.stuck = false := by simpa using hs
      have hs' : (c.step r k).2.stuck = false := by rw [← ho]; exact hs0
      obtain ⟨ih1, ih2⟩ := ih _ _ hP' (hn hs0)
      refine ⟨?_, fun hns => ?_⟩
      · simp only [run, Cursor.run, hs0, hs', Bool.false_eq_true, if_false, ho, ih1]
      · show R (if (step m k).2.stuck then (step m k).1 else exec (step m k).1 ks)
          (if (c.step r k).2.stuck then (c.step r k).1 else Cursor.exec r (c.step r k).1 ks)
        rw [hs0, hs']
        simp only [Bool.false_eq_true, if_false]
        refine ih2 (fun o ho' => hns o ?_)
        simp only [run, hs0, Bool.false_eq_true, if_false, List.mem_cons]
        exact Or.inr ho'

theorem fuelOf_succ (m : M) : fuelOf m = (2 * remaining m.s + 2 * m.chain.length + 3) + 1 := rfl

/-- `exec` and `run` stop at the same place -/
theorem exec_cons (m : M) (k : Call) (ks : List Call) :
    exec m (k :: ks) = if (step m k).2.stuck then (step m k).1 else exec (step m k).1 ks := rfl

theorem run_cons (m : M) (k : Call) (ks : List Call) :
    run m (k :: ks) = (step m k).2 :: (if (step m k).2.stuck then [] else run (step m k).1 ks) := rfl

end Ldap3V.Stream

/-
C20 helper lemmas, part 4: the `&id[..1]` panic needs a non-ASCII byte in the query, which
`Url::query()` never returns.
-/
import Ldap3V.Lemmas.UrlMain
namespace Ldap3V.Url
open Ldap3V Ldap3V.Url.Spec

theorem breakAt_mem (sep : UInt8) (s a t : Bytes) (h : breakAt sep s = some (a, t)) :
    (∀ b ∈ a, b ∈ s) ∧ (∀ b ∈ t, b ∈ s) := by
  induction s generalizing a with
  | nil => simp [breakAt] at h
  | cons c r ih =>
    by_cases hc : c = sep
    · simp [breakAt, hc] at h
      obtain ⟨rfl, rfl⟩ := h
      exact ⟨by simp, fun b hb => by simp [hb]⟩
    · cases hr : breakAt sep r with
      | none => simp [breakAt, hc, hr] at h
      | some p =>
        obtain ⟨a', t'⟩ := p
        simp [breakAt, hc, hr] at h
        obtain ⟨rfl, rfl⟩ := h
        obtain ⟨i1, i2⟩ := ih a' hr
        refine ⟨fun b hb => ?_, fun b hb => by simp [i2 b hb]⟩
        rcases List.mem_cons.mp hb with hb | hb
        · simp [hb]
        · simp [i1 b hb]

theorem split_mem (sep : UInt8) (s : Bytes) : ∀ p ∈ split sep s, ∀ b ∈ p, b ∈ s := by
  induction s with
  | nil => simp [split]
  | cons c r ih =>
    intro p hp b hb
    by_cases hc : c = sep
    · simp only [split, hc, if_true, List.mem_cons] at hp
      rcases hp with hp | hp
      · subst hp; simp at hb
      · exact List.mem_cons_of_mem _ (ih p hp b hb)
    · simp only [split, hc, if_false] at hp
      cases hr : split sep r with
      | nil => simp only [hr, List.mem_singleton] at hp; subst hp; simp at hb; simp [hb]
      | cons q qs =>
        simp only [hr, List.mem_cons] at hp
        rcases hp with hp | hp
        · subst hp
          rcases List.mem_cons.mp hb with hb | hb
          · simp [hb]
          · exact List.mem_cons_of_mem _ (ih q (by simp [hr]) b hb)
        · exact List.mem_cons_of_mem _ (ih p (by simp [hr, hp]) b hb)

theorem splitN_mem (n : Nat) (sep : UInt8) (s : Bytes) : ∀ p ∈ splitN n sep s, ∀ b ∈ p, b ∈ s := by
  induction n generalizing s with
  | zero => simp [splitN]
  | succ n ih =>
    cases n with
    | zero => simp [splitN]
    | succ n =>
      intro p hp b hb
      cases hr : breakAt sep s with
      | none => simp only [splitN, hr, List.mem_singleton] at hp; subst hp; exact hb
      | some at_ =>
        obtain ⟨a, t⟩ := at_
        obtain ⟨i1, i2⟩ := breakAt_mem sep s a t hr
        simp only [splitN, hr, List.mem_cons] at hp
        rcases hp with hp | hp
        · subst hp; exact i1 b hb
        · exact i2 b (ih t p hp b hb)

theorem extStep_ne_panic (ext : Bytes) (h : ∀ b ∈ ext, b.toNat < 128) : extStep ext ≠ .panic := by
  have hid : ∀ b ∈ (splitIdVal ext).1, b.toNat < 128 := by
    intro b hb
    cases hr : breakAt 0x3D ext with
    | none => simp only [splitIdVal, hr] at hb; exact h b hb
    | some p => obtain ⟨a, t⟩ := p; simp only [splitIdVal, hr] at hb; exact h b ((breakAt_mem _ _ _ _ hr).1 b hb)
  have hcb : charBoundary1 (splitIdVal ext).1 = true := by
    generalize (splitIdVal ext).1 = id0 at hid
    match id0, hid with
    | [], _ => rfl
    | [_], _ => rfl
    | _ :: b :: _, hid =>
      have := hid b (by simp)
      simp only [charBoundary1, isCont, Bool.not_eq_true', Bool.and_eq_false_iff, decide_eq_false_iff_not]
      left; omega
  simp only [extStep, hcb, Bool.not_true, Bool.and_false, Bool.false_eq_true, if_false]
  cases decodeUtf8 ((splitIdVal ext).2.getD []) with
  | none => simp
  | some v =>
    simp only [extOf]
    cases classify (critOf (splitIdVal ext).1).2 with
    | none => cases (critOf (splitIdVal ext).1).1 <;> simp
    | some k => cases k <;> simp

theorem extLoop_ne_panic (l : List Bytes) (acc : List Ext) (h : ∀ e ∈ l, ∀ b ∈ e, b.toNat < 128) :
    extLoop l acc ≠ .panic := by
  induction l generalizing acc with
  | nil => simp [extLoop]
  | cons e es ih =>
    have he := extStep_ne_panic e (h e (by simp))
    have hes : ∀ x ∈ es, ∀ b ∈ x, b.toNat < 128 := fun x hx => h x (by simp [hx])
    simp only [extLoop]
    cases hs : extStep e with
    | panic => exact absurd hs he
    | err x => simp
    | skip => exact ih acc hes
    | insert x => exact ih _ hes

theorem getUrlParams_ne_panic (path : Bytes) (query : Option Bytes)
    (h : ∀ q ∈ query, ∀ b ∈ q, b.toNat < 128) : getUrlParams path query ≠ .panic := by
  have hq : ∀ p ∈ splitN 4 0x3F (query.getD []), ∀ b ∈ p, b.toNat < 128 := by
    intro p hp b hb
    have := splitN_mem 4 0x3F _ p hp b hb
    cases query with
    | none => simp at this
    | some q => exact h q (by simp) b this
  have hx : orDefault (splitN 4 0x3F (query.getD []))[3]? (ExtsResult.ok [])
      (fun exts => extLoop (split 0x2C exts) []) ≠ .panic := by
    rw [orDefault_eq]
    split
    · simp
    · apply extLoop_ne_panic
      intro e he b hb
      have hb' := split_mem 0x2C _ e he b hb
      cases h3 : (splitN 4 0x3F (query.getD []))[3]? with
      | none => simp [h3] at hb'
      | some x =>
        simp only [h3, Option.getD_some] at hb'
        exact hq x (List.mem_of_getElem? h3) b hb'
  simp only [getUrlParams]
  split
  · simp
  · split
    · simp
    · split
      · simp
      · split
        · rename_i heq; exact absurd heq hx
        · simp
        · simp

end Ldap3V.Url

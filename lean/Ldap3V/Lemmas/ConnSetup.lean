/-
Lemmas for C18 (connection set-up): the dispatch of Model/ConnSetup.lean case by case, the
unreachability of the panic arms, agreement with the table of
Spec/ConnSetup.lean, and the run-level facts about the time-out.
-/
import Ldap3V.Spec.ConnSetup
namespace Ldap3V.ConnSetup
open Ldap3V Ldap3V.Url

/-! ## literals -/

theorem lit_ne : litLdap ≠ litLdaps ∧ litLdap ≠ litLdapi ∧ litLdaps ≠ litLdapi ∧
    litLdap ≠ litStarttls ∧ litLdaps ≠ litStarttls := by decide

/-! ## the stages of `new_tcp` -/

theorem streamStep_ne_panic (std : Option StreamKind) : streamStep std ≠ .panic := by
  cases std with
  | none => simp [streamStep]
  | some k => cases k <;> simp [streamStep]

theorem streamStep_eq (std : Option StreamKind) :
    streamStep std = match std with
      | none => .connect
      | some .tcp => .useStream
      | some _ => .mismatched := by
  cases std with
  | none => rfl
  | some k => cases k <;> rfl

/-- the scheme words that `schemeStep` can hand on -/
theorem schemeStep_word (s : Settings) (scheme : Bytes) (w : Bytes) (s' : Settings) (p : Nat)
    (h : schemeStep s scheme = some (w, s', p)) :
    (w = litLdap ∨ w = litLdaps ∨ w = litStarttls) ∧ s'.stdStream = s.stdStream := by
  unfold schemeStep at h
  split at h
  · cases hs : s.starttls <;> simp [hs] at h <;> obtain ⟨rfl, rfl, rfl⟩ := h <;> simp
  · split at h
    · simp at h; obtain ⟨rfl, rfl, rfl⟩ := h; simp
    · simp at h

theorem secureStep_tcp_isSome (w : Bytes) (h : w = litLdap ∨ w = litLdaps ∨ w = litStarttls) :
    (secureStep w .tcp).isSome = true := by
  rcases h with rfl | rfl | rfl <;> decide

theorem newTcp_ne_panic (s : Settings) (u : UrlParts) : newTcp s u ≠ .panic := by
  unfold newTcp
  split
  · simp
  · rename_i w s' p0 hstep
    have hw := (schemeStep_word s u.scheme w s' p0 hstep).1
    have hsec := secureStep_tcp_isSome w hw
    have hstream := streamStep_ne_panic s'.stdStream
    cases hss : streamStep s'.stdStream
    · cases hx : secureStep w .tcp <;> simp_all
    · cases hx : secureStep w .tcp <;> simp_all
    · simp
    · exact absurd hss hstream

theorem plan_ne_panic (s : Settings) (u : UrlParts) : plan s u ≠ .panic := by
  unfold plan
  split
  · unfold newUnix
    cases s.stdStream with
    | none =>
      simp only
      split
      · split
        · simp
        · split <;> simp
      · split
        · simp
        · split <;> simp
    | some k => cases k <;> simp
  · have := newTcp_ne_panic { s with connTimeout := none } u
    cases h : newTcp { s with connTimeout := none } u <;> simp_all

/-! ## `new_tcp` and `plan` in closed form -/

theorem hostName_eq (h : Option Bytes) : hostName h = Spec.targetHost h := by
  cases h with
  | none => rfl
  | some b => cases b <;> rfl

theorem newTcp_ldap (s : Settings) (u : UrlParts) (h : u.scheme = litLdap) :
    newTcp s u = match s.stdStream with
      | none => .connect (Spec.targetHost u.host) (u.port.getD 389) (if s.starttls then .starttls else .none)
      | some .tcp => .useStream (Spec.targetHost u.host) (if s.starttls then .starttls else .none)
      | some _ => .err .mismatchedStreamType := by
  have e1 : secureStep litLdap .tcp = some .none := by decide
  have e2 : secureStep litStarttls .tcp = some .starttls := by decide
  cases hs : s.starttls <;> cases hstd : s.stdStream with
  | none => cases hp : u.port <;> simp [newTcp, schemeStep, h, hs, hstd, streamStep, hostName_eq, e1, e2, hp]
  | some k => cases k <;> simp [newTcp, schemeStep, h, hs, hstd, streamStep, hostName_eq, e1, e2]

theorem newTcp_ldaps (s : Settings) (u : UrlParts) (h : u.scheme = litLdaps) :
    newTcp s u = match s.stdStream with
      | none => .connect (Spec.targetHost u.host) (u.port.getD 636) .tls
      | some .tcp => .useStream (Spec.targetHost u.host) .tls
      | some _ => .err .mismatchedStreamType := by
  have e1 : secureStep litLdaps .tcp = some .tls := by decide
  have e0 : litLdaps ≠ litLdap := by decide
  cases hstd : s.stdStream with
  | none => cases hp : u.port <;> simp [newTcp, schemeStep, h, e0, hstd, streamStep, hostName_eq, e1, hp]
  | some k => cases k <;> simp [newTcp, schemeStep, h, e0, hstd, streamStep, hostName_eq, e1]

theorem newTcp_unknown (s : Settings) (u : UrlParts) (h1 : u.scheme ≠ litLdap) (h2 : u.scheme ≠ litLdaps) :
    newTcp s u = .err (.unknownScheme u.scheme) := by
  simp [newTcp, schemeStep, h1, h2]

theorem plan_ldap (s : Settings) (u : UrlParts) (h : u.scheme = litLdap) :
    plan s u = match s.stdStream with
      | none => .tcpConnect (Spec.targetHost u.host) (u.port.getD 389)
                  (if s.starttls then .starttls else .none) s.connTimeout
      | some .tcp => .useTcpStream (Spec.targetHost u.host) (if s.starttls then .starttls else .none) s.connTimeout
      | some _ => .err .mismatchedStreamType := by
  have e0 : litLdap ≠ litLdapi := by decide
  unfold plan
  rw [if_neg (by rw [h]; exact e0)]
  simp only [newTcp_ldap _ u h]
  cases hstd : s.stdStream with
  | none => simp
  | some k => cases k <;> simp

theorem plan_ldaps (s : Settings) (u : UrlParts) (h : u.scheme = litLdaps) :
    plan s u = match s.stdStream with
      | none => .tcpConnect (Spec.targetHost u.host) (u.port.getD 636) .tls s.connTimeout
      | some .tcp => .useTcpStream (Spec.targetHost u.host) .tls s.connTimeout
      | some _ => .err .mismatchedStreamType := by
  have e0 : litLdaps ≠ litLdapi := by decide
  unfold plan
  rw [if_neg (by rw [h]; exact e0)]
  simp only [newTcp_ldaps _ u h]
  cases hstd : s.stdStream with
  | none => simp
  | some k => cases k <;> simp

theorem plan_unknown (s : Settings) (u : UrlParts) (h1 : u.scheme ≠ litLdap) (h2 : u.scheme ≠ litLdaps)
    (h3 : u.scheme ≠ litLdapi) : plan s u = .err (.unknownScheme u.scheme) := by
  unfold plan
  rw [if_neg h3]
  simp only [newTcp_unknown _ u h1 h2]

theorem plan_ldapi (s : Settings) (u : UrlParts) (h : u.scheme = litLdapi) : plan s u = newUnix s u := by
  unfold plan
  rw [if_pos h]

/-! ## agreement with the table -/

theorem classify_ldap : Spec.classify litLdap = .ldap := by decide
theorem classify_ldaps : Spec.classify litLdaps = .ldaps := by decide
theorem classify_ldapi : Spec.classify litLdapi = .ldapi := by decide
theorem classify_unknown (b : Bytes) (h1 : b ≠ litLdap) (h2 : b ≠ litLdaps) (h3 : b ≠ litLdapi) :
    Spec.classify b = .unknown := by
  unfold Spec.classify
  rw [if_neg (by exact h1), if_neg (by exact h2), if_neg (by exact h3)]

theorem contains_colon (p : Bytes) : p.contains 0x3A = decide ((0x3A : UInt8) ∈ p) := by
  simp

theorem newUnix_eq_codeView (s : Settings) (u : UrlParts) : newUnix s u = Spec.codeView (Spec.planUnix s u) := by
  unfold newUnix Spec.planUnix
  cases hstd : s.stdStream with
  | some k => cases k <;> rfl
  | none =>
    cases hh : u.host with
    | none => simp [Spec.codeView]
    | some p =>
      cases p with
      | nil => simp [Spec.codeView]
      | cons b r =>
        cases hp : u.port with
        | some n => simp [Spec.codeView]
        | none =>
          by_cases hc : (0x3A : UInt8) ∈ b :: r
          · simp [Spec.codeView, hc]
          · simp [Spec.codeView, hc]

theorem newUnix_cases (s : Settings) (u : UrlParts) :
    newUnix s u = .useUnixStream ∨ (∃ k, newUnix s u = .err k) ∨ ∃ path, newUnix s u = .unixConnect path none := by
  rw [newUnix_eq_codeView]
  cases h : Spec.planUnix s u with
  | unixConnect p b => exact .inr (.inr ⟨_, rfl⟩)
  | useUnixStream => exact .inl rfl
  | err k => exact .inr (.inl ⟨k, rfl⟩)
  | panic => unfold Spec.planUnix at h; split at h <;> (try simp at h); (split at h <;> (try simp at h)); split at h <;> simp at h
  | tcpConnect _ _ _ _ => unfold Spec.planUnix at h; split at h <;> (try simp at h); (split at h <;> (try simp at h)); split at h <;> simp at h
  | useTcpStream _ _ _ => unfold Spec.planUnix at h; split at h <;> (try simp at h); (split at h <;> (try simp at h)); split at h <;> simp at h

theorem newUnix_none (s : Settings) (u : UrlParts) (hs : s.stdStream = none) :
    (∃ k, newUnix s u = .err k) ∨ ∃ path, newUnix s u = .unixConnect path none := by
  cases hh : u.host with
  | none => exact .inl ⟨.emptyUnixPath, by simp [newUnix, hs, hh]⟩
  | some path =>
    by_cases h1 : path = []
    · exact .inl ⟨.emptyUnixPath, by simp [newUnix, hs, hh, h1]⟩
    · by_cases h2 : (0x3A ∈ path ∨ u.port.isSome = true)
      · exact .inl ⟨.portInUnixPath, by simp [newUnix, hs, hh, h1, h2]⟩
      · exact .inr ⟨percentDecode path, by simp [newUnix, hs, hh, h1, h2]⟩

theorem spec_planTcp_codeView (sch : Spec.Scheme) (s : Settings) (u : UrlParts) :
    Spec.codeView (Spec.planTcp sch s u) = Spec.planTcp sch s u := by
  unfold Spec.planTcp
  cases s.stdStream with
  | none => rfl
  | some k => cases k <;> rfl

theorem plan_eq_codeView (s : Settings) (u : UrlParts) : plan s u = Spec.codeView (Spec.plan s u) := by
  by_cases h1 : u.scheme = litLdap
  · rw [plan_ldap s u h1, Spec.plan, h1, classify_ldap]
    simp only [Spec.planTcp, Spec.targetPort, Spec.defaultPort, Spec.security]
    cases s.stdStream with
    | none => rfl
    | some k => cases k <;> rfl
  · by_cases h2 : u.scheme = litLdaps
    · rw [plan_ldaps s u h2, Spec.plan, h2, classify_ldaps]
      simp only [Spec.planTcp, Spec.targetPort, Spec.defaultPort, Spec.security]
      cases s.stdStream with
      | none => rfl
      | some k => cases k <;> rfl
    · by_cases h3 : u.scheme = litLdapi
      · rw [plan_ldapi s u h3, Spec.plan, h3, classify_ldapi]
        exact newUnix_eq_codeView s u
      · rw [plan_unknown s u h1 h2 h3, Spec.plan, classify_unknown _ h1 h2 h3]
        rfl

/-! ## running a plan -/

theorem stuck_some (t : Nat) (c : Contact) : stuck (some t) c = .timeout c := rfl
theorem stuck_none (c : Contact) : stuck none c = .hang c := rfl

theorem runHandshake_bounded (p : Peer) (t : Nat) (c : Contact) (c' : Contact) :
    runHandshake p (some t) c ≠ .hang c' := by
  unfold runHandshake
  cases p.handshake <;> simp [stuck]

theorem runSecure_bounded (p : Peer) (sec : Secure) (t : Nat) (c c' : Contact) :
    runSecure p sec (some t) c ≠ .hang c' := by
  unfold runSecure
  cases sec with
  | none => simp
  | tls => exact runHandshake_bounded p t c c'
  | starttls =>
    cases p.startTls with
    | done => exact runHandshake_bounded p t c c'
    | fail => simp
    | never => simp [stuck]

theorem runSecure_ne_panic (p : Peer) (sec : Secure) (b : Option Nat) (c : Contact) :
    runSecure p sec b c ≠ .panic := by
  unfold runSecure runHandshake stuck
  cases sec <;> cases p.startTls <;> cases p.handshake <;> cases b <;> simp

theorem run_ne_panic (env : Env) (pl : Plan) (h : pl ≠ .panic) : run env pl ≠ .panic := by
  cases pl with
  | panic => exact absurd rfl h
  | err k => simp [run]
  | useUnixStream => simp [run]
  | useTcpStream host sec b => exact runSecure_ne_panic _ _ _ _
  | tcpConnect host port sec b =>
    simp only [run]
    split
    · simp
    · cases b <;> simp [stuck]
    · exact runSecure_ne_panic _ _ _ _
  | unixConnect path b =>
    simp only [run]
    split
    · simp
    · cases b <;> simp [stuck]
    · simp

theorem run_tcp_bounded (env : Env) (pl : Plan) (t : Nat)
    (h : (∃ host port sec, pl = .tcpConnect host port sec (some t)) ∨ (∃ host sec, pl = .useTcpStream host sec (some t)))
    (c : Contact) : run env pl ≠ .hang c := by
  rcases h with ⟨host, port, sec, rfl⟩ | ⟨host, sec, rfl⟩
  · simp only [run]
    split
    · simp
    · simp [stuck]
    · exact runSecure_bounded _ _ _ _ _
  · exact runSecure_bounded _ _ _ _ _

end Ldap3V.ConnSetup

/- The accounting invariant of Model.Conn: which message IDs are reserved and which routing
entries exist, in terms of what the callers can see.  Used for C13_quiescent and C05. -/
import Ldap3V.Lemmas.ConnSteps
namespace Ldap3V.Conn

def noDone (ch : Chan) : Prop := ∀ f, Item.done f ∉ ch.items

/-- op `i` is registered with the connection under its ID -/
def Reg (s : St) (i : Nat) (o : Op) : Prop :=
  o.phase = .allocated ∨ i ∈ s.opQ ∨ (o.id, i) ∈ s.resultmap ∨
  (∃ c, o.chan = some c ∧ (o.id, c) ∈ s.searchmap) ∨ (o.kind = .unbind ∧ o.phase = .taken)

structure Acct (s : St) : Prop where
  qPhase : ∀ i ∈ s.opQ, ∃ o : Op, s.ops[i]? = some o ∧ o.phase = .queued
  phaseQ : ∀ (i : Nat) (o : Op), s.ops[i]? = some o → o.phase = .queued → i ∈ s.opQ
  fresh : ∀ (i : Nat) (o : Op), s.ops[i]? = some o → o.phase ≠ .taken →
    o.mail = .empty ∧ (o.res = none ∨ (o.res = some .timeout ∧ o.phase = .queued))
  kindChan : ∀ (i : Nat) (o : Op), s.ops[i]? = some o → (o.kind = .search ↔ o.chan ≠ none)
  rmOk : ∀ p ∈ s.resultmap, ∃ o : Op, s.ops[p.2]? = some o ∧ o.id = p.1 ∧ o.phase = .taken ∧ o.mail = .empty ∧
    (o.res = none ∨ (o.res = some .timeout ∧ p.1 ∈ s.scrubQ))
  smOk : ∀ p ∈ s.searchmap, ∃ (ch : Chan) (o : Op), s.chans[p.2]? = some ch ∧ s.ops[ch.opIdx]? = some o ∧ o.id = p.1 ∧
    o.chan = some p.2 ∧ o.phase = .taken ∧ o.mail = .ack ∧ noDone ch ∧
    ((ch.finScrub = true ∨ ch.timedOut = true ∨ o.res = some .timeout) → p.1 ∈ s.scrubQ) ∧
    (o.res = none ∨ o.res = some .ack ∨ o.res = some .timeout)
  chanFresh : ∀ (c : Nat) (ch : Chan) (o : Op), s.chans[c]? = some ch → s.ops[ch.opIdx]? = some o →
    (o.res ≠ some .ack → ch.finScrub = false ∧ ch.timedOut = false) ∧ (o.phase ≠ .taken → ch.items = [])
  qTimeout : ∀ i ∈ s.opQ, ∀ o : Op, s.ops[i]? = some o → o.res = some .timeout → o.id ∈ s.scrubQ ∨ o.id ∉ s.inUse
  ackTaken : ∀ (i : Nat) (o : Op), s.ops[i]? = some o → (o.res = some .ack ∨ o.mail = .ack) → o.phase = .taken
  acct : ∀ k ∈ s.inUse, ∃ (i : Nat) (o : Op), s.ops[i]? = some o ∧ o.id = k ∧ Reg s i o
  dead : s.drv ≠ .running → s.resultmap = [] ∧ s.searchmap = [] ∧ s.opQ = []
  chanIdx : ∀ (c : Nat) (ch : Chan), s.chans[c]? = some ch → ch.opIdx < s.ops.length
  qNodup : s.opQ.Nodup

theorem Acct.init (N : Nat) : Acct (Conn.init N) := by
  refine ⟨?_, ?_, ?_, ?_, ?_, ?_, ?_, ?_, ?_, ?_, ?_, ?_, ?_⟩ <;> simp [Conn.init]

theorem get_set {ops : List Op} {i : Nat} {o : Op} (o' : Op) (j : Nat) (ho : ops[i]? = some o) :
    (ops.set i o')[j]? = if j = i then some o' else ops[j]? := by
  have hlt : i < ops.length := (List.getElem?_eq_some_iff.mp ho).1
  rw [List.getElem?_set]
  split
  · next h => subst h; simp [hlt]
  · next h => rw [if_neg (fun e => h e.symm)]

/-- the invariant only looks at these components -/
theorem Acct.congr {s s' : St} (h : Acct s) (ho : s'.ops = s.ops) (hc : s'.chans = s.chans) (hq : s'.opQ = s.opQ)
    (hsq : s'.scrubQ = s.scrubQ) (hr : s'.resultmap = s.resultmap) (hsm : s'.searchmap = s.searchmap)
    (hi : s'.inUse = s.inUse) (hd : s'.drv = s.drv) : Acct s' := by
  obtain ⟨a1, a2, a3, a4, a5, a6, a7, a8, a9, a10, a11, a12, a13⟩ := h
  refine ⟨?_, ?_, ?_, ?_, ?_, ?_, ?_, ?_, ?_, ?_, ?_, ?_, by rw [hq]; exact a13⟩
  · rw [hq, ho]; exact a1
  · rw [hq, ho]; exact a2
  · rw [ho]; exact a3
  · rw [ho]; exact a4
  · rw [hr, ho, hsq]; exact a5
  · rw [hsm, ho, hc, hsq]; exact a6
  · rw [ho, hc]; exact a7
  · rw [hq, ho, hsq, hi]; exact a8
  · rw [ho]; exact a9
  · rw [hi, ho]
    intro k hk
    obtain ⟨i, o, h1, h2, h3⟩ := a10 k hk
    refine ⟨i, o, h1, h2, ?_⟩
    unfold Reg at h3 ⊢
    rw [hq, hr, hsm]; exact h3
  · rw [hd, hr, hsm, hq]; exact a11
  · rw [hc, ho]; exact a12

theorem get_append_one {α : Type} (l : List α) (x : α) (j : Nat) :
    (l ++ [x])[j]? = if j < l.length then l[j]? else if j = l.length then some x else none := by
  split
  · next h => exact List.getElem?_append_left h
  · next h =>
    rw [List.getElem?_append_right (by omega)]
    split
    · next e => subst e; simp
    · next e =>
      have : j - l.length ≠ 0 := by omega
      cases hj : j - l.length with
      | zero => exact absurd hj this
      | succ n => simp

/-- the operation record created by `alloc` -/
def newOp (id : Nat) (kind : Kind) (nchans : Nat) : Op :=
  { id := id, kind := kind, chan := (match kind with | .search => some nchans | _ => none) }

/-- NoStale (finding F13) for one allocation: the ID handed out is not the ID of a request still
waiting in the op queue -/
def FreshFor (s : St) (k : Nat) : Prop := ∀ i ∈ s.opQ, ∀ o : Op, s.ops[i]? = some o → o.id ≠ k

theorem Acct.alloc {s s' : St} {ob : Obs} (h : Acct s) (kind : Kind)
    (hfresh : ∀ k, nextId s.N s.last s.inUse = .ok k → FreshFor s k)
    (hs : step s (.alloc kind) = some (s', ob)) : Acct s' := by
  simp only [step] at hs
  cases hn : nextId s.N s.last s.inUse with
  | diverge => rw [hn] at hs; cases hs
  | panic => rw [hn] at hs; simp only [Option.some.injEq, Prod.mk.injEq] at hs; rw [← hs.1]; exact h
  | ok id =>
    rw [hn] at hs
    simp only [Option.some.injEq, Prod.mk.injEq] at hs
    obtain ⟨hs, _⟩ := hs
    subst hs
    have hf := hfresh id hn
    obtain ⟨a1, a2, a3, a4, a5, a6, a7, a8, a9, a10, a11, a12, a13⟩ := h
    show Acct ({ s with
      last := id
      inUse := id :: s.inUse
      chans := (match kind with | .search => s.chans ++ [({ opIdx := s.ops.length } : Chan)] | _ => s.chans)
      ops := s.ops ++ [newOp id kind s.chans.length] } : St)
    have oldop : ∀ (j : Nat) (o : Op), s.ops[j]? = some o →
        (s.ops ++ [newOp id kind s.chans.length])[j]? = some o := by
      intro j o ho
      have : j < s.ops.length := (List.getElem?_eq_some_iff.mp ho).1
      rw [get_append_one, if_pos this]; exact ho
    have hops : ∀ (j : Nat) (o : Op),
        (s.ops ++ [newOp id kind s.chans.length])[j]? = some o →
        (s.ops[j]? = some o) ∨ (j = s.ops.length ∧ o = newOp id kind s.chans.length) := by
      intro j o ho
      rw [get_append_one] at ho
      split at ho
      · exact Or.inl ho
      · split at ho
        · next e => simp only [Option.some.injEq] at ho; exact Or.inr ⟨e, ho.symm⟩
        · cases ho
    have hchans : ∀ (c : Nat) (ch : Chan),
        (match kind with | .search => s.chans ++ [({ opIdx := s.ops.length } : Chan)] | _ => s.chans)[c]? = some ch →
        s.chans[c]? = some ch ∨ (c = s.chans.length ∧ ch = { opIdx := s.ops.length }) := by
      intro c ch hc
      cases kind <;> simp only at hc <;> try exact Or.inl hc
      rw [get_append_one] at hc
      split at hc
      · exact Or.inl hc
      · split at hc
        · next e => simp only [Option.some.injEq] at hc; exact Or.inr ⟨e, hc.symm⟩
        · cases hc
    have oldchan : ∀ (c : Nat) (ch : Chan), s.chans[c]? = some ch →
        (match kind with | .search => s.chans ++ [({ opIdx := s.ops.length } : Chan)] | _ => s.chans)[c]? = some ch := by
      intro c ch hc
      have : c < s.chans.length := (List.getElem?_eq_some_iff.mp hc).1
      cases kind <;> simp only <;> try exact hc
      rw [get_append_one, if_pos this]; exact hc
    refine ⟨?_, ?_, ?_, ?_, ?_, ?_, ?_, ?_, ?_, ?_, ?_, ?_, a13⟩
    · intro i hi
      obtain ⟨o, ho, hp⟩ := a1 i hi
      exact ⟨o, oldop i o ho, hp⟩
    · intro i o ho hp
      rcases hops i o ho with h1 | ⟨_, rfl⟩
      · exact a2 i o h1 hp
      · cases hp
    · intro i o ho hp
      rcases hops i o ho with h1 | ⟨_, rfl⟩
      · exact a3 i o h1 hp
      · exact ⟨rfl, Or.inl rfl⟩
    · intro i o ho
      rcases hops i o ho with h1 | ⟨_, rfl⟩
      · exact a4 i o h1
      · cases kind <;> simp [newOp]
    · intro p hp
      obtain ⟨o, ho, r⟩ := a5 p hp
      exact ⟨o, oldop _ o ho, r⟩
    · intro p hp
      obtain ⟨ch, o, hc, ho, r⟩ := a6 p hp
      exact ⟨ch, o, oldchan _ ch hc, oldop _ o ho, r⟩
    · intro c ch o hc ho
      rcases hchans c ch hc with hc1 | ⟨_, rfl⟩
      · have hlt := a12 c ch hc1
        rcases hops _ o ho with h1 | ⟨e, _⟩
        · exact a7 c ch o hc1 h1
        · omega
      · exact ⟨fun _ => ⟨rfl, rfl⟩, fun _ => rfl⟩
    · intro i hi o ho hto
      rcases hops i o ho with h1 | ⟨e, _⟩
      · rcases a8 i hi o h1 hto with hq | hnot
        · exact Or.inl hq
        · right
          intro hmem
          simp only [List.mem_cons] at hmem
          rcases hmem with e | hm
          · exact hf i hi o h1 e
          · exact hnot hm
      · obtain ⟨o2, ho2, _⟩ := a1 i hi
        have : i < s.ops.length := (List.getElem?_eq_some_iff.mp ho2).1
        omega
    · intro i o ho hr
      rcases hops i o ho with h1 | ⟨_, rfl⟩
      · exact a9 i o h1 hr
      · simp [newOp] at hr
    · intro k hk
      simp only [List.mem_cons] at hk
      rcases hk with rfl | hk
      · refine ⟨s.ops.length, newOp k kind s.chans.length, ?_, rfl, Or.inl rfl⟩
        rw [get_append_one]; simp
      · obtain ⟨i, o, h1, h2, h3⟩ := a10 k hk
        exact ⟨i, o, oldop i o h1, h2, h3⟩
    · exact a11
    · intro c ch hc
      rcases hchans c ch hc with hc1 | ⟨_, rfl⟩
      · have := a12 c ch hc1
        simp only [List.length_append, List.length_singleton]; omega
      · simp

theorem Acct.enqueue {s s' : St} {ob : Obs} (h : Acct s) (i : Nat) (tmo : Option Nat)
    (hs : step s (.enqueue i tmo) = some (s', ob)) : Acct s' := by
  simp only [step] at hs
  cases ho : s.ops[i]? with
  | none => rw [ho] at hs; cases hs
  | some o =>
    rw [ho] at hs
    simp only at hs
    obtain ⟨a1, a2, a3, a4, a5, a6, a7, a8, a9, a10, a11, a12, a13⟩ := h
    split at hs
    · cases hs
    · next hph =>
      have hph : o.phase = .allocated := by simpa using hph
      have hfr := a3 i o ho (by rw [hph]; simp)
      have hmail : o.mail = .empty := hfr.1
      have hres : o.res = none := by
        rcases hfr.2 with h1 | ⟨_, h2⟩
        · exact h1
        · rw [hph] at h2; cases h2
      have hni : i ∉ s.opQ := by
        intro hi
        obtain ⟨o2, ho2, hp2⟩ := a1 i hi
        rw [ho] at ho2; cases ho2
        rw [hph] at hp2; cases hp2
      split at hs
      · -- driver gone
        next hd =>
        simp only [Option.some.injEq, Prod.mk.injEq] at hs
        rw [← hs.1]
        obtain ⟨d1, d2, d3⟩ := a11 hd
        refine ⟨?_, ?_, ?_, ?_, ?_, ?_, ?_, ?_, ?_, ?_, ?_, ?_, a13⟩
        · intro j hj; rw [d3] at hj; cases hj
        · intro j oj hoj hp
          rw [get_set _ j ho] at hoj
          split at hoj
          · simp only [Option.some.injEq] at hoj; subst hoj; cases hp
          · exact a2 j oj hoj hp
        · intro j oj hoj hp
          rw [get_set _ j ho] at hoj
          split at hoj
          · simp only [Option.some.injEq] at hoj; subst hoj; exact absurd rfl hp
          · exact a3 j oj hoj hp
        · intro j oj hoj
          rw [get_set _ j ho] at hoj
          split at hoj
          · simp only [Option.some.injEq] at hoj; subst hoj; exact a4 i o ho
          · exact a4 j oj hoj
        · intro p hp; rw [d1] at hp; cases hp
        · intro p hp; rw [d2] at hp; cases hp
        · intro c ch oj hc hoj
          rw [get_set _ _ ho] at hoj
          split at hoj
          · next e =>
            simp only [Option.some.injEq] at hoj; subst hoj
            have := a7 c ch o hc (by rw [e]; exact ho)
            exact ⟨fun _ => this.1 (by rw [hres]; simp), fun hp => absurd rfl hp⟩
          · exact a7 c ch oj hc hoj
        · intro j hj; rw [d3] at hj; cases hj
        · intro j oj hoj hr
          rw [get_set _ j ho] at hoj
          split at hoj
          · simp only [Option.some.injEq] at hoj; subst hoj; simp at hr
          · exact a9 j oj hoj hr
        · intro k hk
          obtain ⟨hkin, hkne⟩ := mem_eraseId.mp hk
          obtain ⟨j, oj, h1, h2, h3⟩ := a10 k hkin
          have hji : j ≠ i := by
            intro e; rw [e, ho] at h1; cases h1; exact hkne (by rw [h2])
          exact ⟨j, oj, by rw [get_set _ j ho, if_neg hji]; exact h1, h2, h3⟩
        · intro _; exact ⟨d1, d2, d3⟩
        · intro c ch hc; rw [List.length_set]; exact a12 c ch hc
      · -- queued
        next hd =>
        have hrun : s.drv = .running := by simpa using hd
        simp only [Option.some.injEq, Prod.mk.injEq] at hs
        rw [← hs.1]
        refine ⟨?_, ?_, ?_, ?_, ?_, ?_, ?_, ?_, ?_, ?_, ?_, ?_, ?_⟩
        rotate_right
        · exact List.nodup_append.mpr ⟨a13, by simp, by intro a ha b hb; simp at hb; subst hb; intro e; exact hni (e ▸ ha)⟩
        · intro j hj
          simp only [List.mem_append, List.mem_singleton] at hj
          rcases hj with hj | rfl
          · obtain ⟨oj, hoj, hp⟩ := a1 j hj
            have : j ≠ i := fun e => hni (e ▸ hj)
            exact ⟨oj, by rw [get_set _ j ho, if_neg this]; exact hoj, hp⟩
          · exact ⟨_, by rw [get_set _ j ho, if_pos rfl], rfl⟩
        · intro j oj hoj hp
          rw [get_set _ j ho] at hoj
          simp only [List.mem_append, List.mem_singleton]
          split at hoj
          · next e => exact Or.inr e
          · exact Or.inl (a2 j oj hoj hp)
        · intro j oj hoj hp
          rw [get_set _ j ho] at hoj
          split at hoj
          · simp only [Option.some.injEq] at hoj; subst hoj
            exact ⟨hmail, Or.inl hres⟩
          · exact a3 j oj hoj hp
        · intro j oj hoj
          rw [get_set _ j ho] at hoj
          split at hoj
          · simp only [Option.some.injEq] at hoj; subst hoj; exact a4 i o ho
          · exact a4 j oj hoj
        · intro p hp
          obtain ⟨op, hop, r⟩ := a5 p hp
          have : p.2 ≠ i := by
            intro e; rw [e, ho] at hop; cases hop
            rw [hph] at r; exact absurd r.2.1 (by simp)
          exact ⟨op, by rw [get_set _ _ ho, if_neg this]; exact hop, r⟩
        · intro p hp
          obtain ⟨ch, op, hc, hop, r⟩ := a6 p hp
          have : ch.opIdx ≠ i := by
            intro e; rw [e, ho] at hop; cases hop
            rw [hph] at r; exact absurd r.2.2.1 (by simp)
          exact ⟨ch, op, hc, by rw [get_set _ _ ho, if_neg this]; exact hop, r⟩
        · intro c ch oj hc hoj
          rw [get_set _ _ ho] at hoj
          split at hoj
          · next e =>
            simp only [Option.some.injEq] at hoj; subst hoj
            have := a7 c ch o hc (by rw [e]; exact ho)
            exact ⟨fun _ => this.1 (by rw [hres]; simp), fun _ => this.2 (by rw [hph]; simp)⟩
          · exact a7 c ch oj hc hoj
        · intro j hj oj hoj hto
          rw [get_set _ j ho] at hoj
          split at hoj
          · simp only [Option.some.injEq] at hoj; subst hoj
            simp only [hres] at hto; cases hto
          · next hne =>
            simp only [List.mem_append, List.mem_singleton] at hj
            rcases hj with hj | e
            · exact a8 j hj oj hoj hto
            · exact absurd e hne
        · intro j oj hoj hr
          rw [get_set _ j ho] at hoj
          split at hoj
          · simp only [Option.some.injEq] at hoj; subst hoj
            simp only [hres, hmail] at hr
            rcases hr with hr | hr <;> cases hr
          · exact a9 j oj hoj hr
        · intro k hk
          obtain ⟨j, oj, h1, h2, h3⟩ := a10 k hk
          by_cases e : j = i
          · subst e
            rw [ho] at h1; cases h1
            refine ⟨j, { o with phase := .queued, deadline := tmo.map (s.now + ·) },
              by rw [get_set _ j ho, if_pos rfl], h2, Or.inr (Or.inl ?_)⟩
            simp
          · refine ⟨j, oj, by rw [get_set _ j ho, if_neg e]; exact h1, h2, ?_⟩
            rcases h3 with r | r | r | r | r
            · exact Or.inl r
            · exact Or.inr (Or.inl (by simp [r]))
            · exact Or.inr (Or.inr (Or.inl r))
            · exact Or.inr (Or.inr (Or.inr (Or.inl r)))
            · exact Or.inr (Or.inr (Or.inr (Or.inr r)))
        · intro hd2; exact absurd hrun hd2
        · intro c ch hc; rw [List.length_set]; exact a12 c ch hc

theorem dropRx_get (cs : List Chan) (oc : Option Nat) (c : Nat) :
    ∃ g : Chan → Chan, (dropRxOf cs oc)[c]? = (cs[c]?).map g ∧
      ∀ ch, (g ch).opIdx = ch.opIdx ∧ (g ch).items = ch.items ∧ (g ch).finScrub = ch.finScrub ∧
        (g ch).timedOut = ch.timedOut ∧ (g ch).taken = ch.taken := by
  cases oc with
  | none => exact ⟨id, by simp [dropRxOf], fun ch => ⟨rfl, rfl, rfl, rfl, rfl⟩⟩
  | some d =>
    by_cases e : c = d
    · subst e
      refine ⟨fun ch => { ch with rxAlive := false }, ?_, fun ch => ⟨rfl, rfl, rfl, rfl, rfl⟩⟩
      simp [dropRxOf, modifyChan_get]
    · refine ⟨id, ?_, fun ch => ⟨rfl, rfl, rfl, rfl, rfl⟩⟩
      simp [dropRxOf, modifyChan_get, e]

theorem dropRx_length (cs : List Chan) (oc : Option Nat) : (dropRxOf cs oc).length = cs.length := by
  cases oc with
  | none => rfl
  | some d => simp only [dropRxOf, modifyChan]; split <;> simp

/-- the future of op `i` resolves to `r` (a poll): the only things that change are its `res`, possibly
one appended scrub request for its own ID, possibly the receiver flag of its channel -/
theorem Acct.setRes {s : St} (h : Acct s) (i : Nat) (o : Op) (ho : s.ops[i]? = some o) (hres : o.res = none)
    (hph : o.phase ≠ .allocated) (r : Res) (q' : List Nat) (oc : Option Nat)
    (hr : (r = .ack ∧ o.mail = .ack ∧ q' = s.scrubQ) ∨ (∃ f, (r = .frame f ∨ r = .decodeErr) ∧ o.mail = .frame f ∧ q' = s.scrubQ) ∨
      (r = .recvErr ∧ o.mail = .dropped ∧ q' = s.scrubQ) ∨
      (r = .timeout ∧ o.mail = .empty ∧ q' = s.scrubQ ++ [o.id] ∧ s.drv = .running) ∨
      (r = .scrubSendErr ∧ o.mail = .empty ∧ s.drv ≠ .running ∧ q' = s.scrubQ)) :
    Acct { s with ops := s.ops.set i { o with res := some r }, scrubQ := q', chans := dropRxOf s.chans oc } := by
  obtain ⟨a1, a2, a3, a4, a5, a6, a7, a8, a9, a10, a11, a12, a13⟩ := h
  have hsub : ∀ k, k ∈ s.scrubQ → k ∈ q' := by
    intro k hk
    rcases hr with ⟨_, _, e⟩ | ⟨f, _, _, e⟩ | ⟨_, _, e⟩ | ⟨_, _, e, _⟩ | ⟨_, _, _, e⟩ <;> rw [e] <;> simp [hk]
  -- lookups
  have hget : ∀ (j : Nat) (oj : Op), (s.ops.set i { o with res := some r })[j]? = some oj →
      (j = i ∧ oj = { o with res := some r }) ∨ (j ≠ i ∧ s.ops[j]? = some oj) := by
    intro j oj hoj
    rw [get_set _ j ho] at hoj
    split at hoj
    · next e => simp only [Option.some.injEq] at hoj; exact Or.inl ⟨e, hoj.symm⟩
    · next e => exact Or.inr ⟨e, hoj⟩
  have hput : ∀ (j : Nat) (oj : Op), s.ops[j]? = some oj → j ≠ i → (s.ops.set i { o with res := some r })[j]? = some oj := by
    intro j oj hoj hne
    rw [get_set _ j ho, if_neg hne]; exact hoj
  have hputi : (s.ops.set i { o with res := some r })[i]? = some { o with res := some r } := by
    rw [get_set _ i ho, if_pos rfl]
  -- a queued op has an empty mailbox, so it can only have timed out, with the driver running
  have hqueued : o.phase ≠ .taken → r = .timeout ∧ q' = s.scrubQ ++ [o.id] := by
    intro hnt
    have hm := (a3 i o ho hnt).1
    rcases hr with ⟨_, e, _⟩ | ⟨f, _, e, _⟩ | ⟨_, e, _⟩ | ⟨e1, _, e2, _⟩ | ⟨_, _, hd, _⟩
    · rw [hm] at e; cases e
    · rw [hm] at e; cases e
    · rw [hm] at e; cases e
    · exact ⟨e1, e2⟩
    · exfalso
      have hq : o.phase = .queued := by
        cases hp : o.phase with
        | allocated => exact absurd hp hph
        | queued => rfl
        | taken => exact absurd hp hnt
      have := a2 i o ho hq
      rw [(a11 hd).2.2] at this; cases this
  refine ⟨?_, ?_, ?_, ?_, ?_, ?_, ?_, ?_, ?_, ?_, ?_, ?_, a13⟩
  · intro j hj
    obtain ⟨oj, hoj, hp⟩ := a1 j hj
    by_cases e : j = i
    · subst e; rw [ho] at hoj; cases hoj; exact ⟨{ o with res := some r }, hputi, hp⟩
    · exact ⟨oj, hput j oj hoj e, hp⟩
  · intro j oj hoj hp
    rcases hget j oj hoj with ⟨e, rfl⟩ | ⟨_, h1⟩
    · subst e; exact a2 j o ho hp
    · exact a2 j oj h1 hp
  · intro j oj hoj hp
    rcases hget j oj hoj with ⟨e, rfl⟩ | ⟨_, h1⟩
    · subst e
      have hq := hqueued hp
      have := a3 j o ho hp
      refine ⟨this.1, Or.inr ⟨by rw [hq.1], ?_⟩⟩
      cases hpp : o.phase with
      | allocated => exact absurd hpp hph
      | queued => rfl
      | taken => exact absurd hpp hp
    · exact a3 j oj h1 hp
  · intro j oj hoj
    rcases hget j oj hoj with ⟨e, rfl⟩ | ⟨_, h1⟩
    · subst e; exact a4 j o ho
    · exact a4 j oj h1
  · intro p hp
    obtain ⟨op, hop, hid, hpt, hm, hrs⟩ := a5 p hp
    by_cases e : p.2 = i
    · rw [e, ho] at hop; cases hop
      refine ⟨{ o with res := some r }, by rw [e]; exact hputi, hid, hpt, hm, ?_⟩
      rcases hr with ⟨_, e2, _⟩ | ⟨f, _, e2, _⟩ | ⟨_, e2, _⟩ | ⟨e1, _, e2, _⟩ | ⟨_, _, hd, _⟩
      · rw [hm] at e2; cases e2
      · rw [hm] at e2; cases e2
      · rw [hm] at e2; cases e2
      · right; exact ⟨by rw [e1], by rw [e2, ← hid]; simp⟩
      · rw [(a11 hd).1] at hp; cases hp
    · refine ⟨op, hput _ op hop e, hid, hpt, hm, ?_⟩
      rcases hrs with h1 | ⟨h1, h2⟩
      · exact Or.inl h1
      · exact Or.inr ⟨h1, hsub _ h2⟩
  · intro p hp
    obtain ⟨ch, op, hc, hop, hid, hch, hpt, hm, hnd, himp, hrs⟩ := a6 p hp
    obtain ⟨g, hg, hgp⟩ := dropRx_get s.chans oc p.2
    have hc' : (dropRxOf s.chans oc)[p.2]? = some (g ch) := by rw [hg, hc]; rfl
    obtain ⟨g1, g2, g3, g4, _⟩ := hgp ch
    by_cases e : ch.opIdx = i
    · rw [e, ho] at hop; cases hop
      -- the op is processed: its mailbox holds the acknowledgement
      have hrack : r = .ack ∧ q' = s.scrubQ := by
        rcases hr with ⟨e1, _, e2⟩ | ⟨f, _, e2, _⟩ | ⟨_, e2, _⟩ | ⟨_, e2, _⟩ | ⟨_, e2, _⟩
        · exact ⟨e1, e2⟩
        all_goals (rw [hm] at e2; cases e2)
      have hfr := (a7 p.2 ch o hc (by rw [e]; exact ho)).1 (by rw [hres]; simp)
      refine ⟨g ch, { o with res := some r }, hc', by rw [g1, e]; exact hputi, hid, hch, hpt, hm, ?_, ?_, ?_⟩
      · intro f hf; rw [g2] at hf; exact hnd f hf
      · intro hh
        rw [g3, g4, hfr.1, hfr.2, hrack.1] at hh
        simp at hh
      · right; left; rw [hrack.1]
    · refine ⟨g ch, op, hc', by rw [g1]; exact hput _ op hop e, hid, hch, hpt, hm, ?_, ?_, hrs⟩
      · intro f hf; rw [g2] at hf; exact hnd f hf
      · intro hh; rw [g3, g4] at hh; exact hsub _ (himp hh)
  · intro c ch' oj hc' hoj
    obtain ⟨g, hg, hgp⟩ := dropRx_get s.chans oc c
    rw [hg] at hc'
    cases hcc : s.chans[c]? with
    | none => rw [hcc] at hc'; cases hc'
    | some ch =>
      rw [hcc] at hc'
      simp only [Option.map_some, Option.some.injEq] at hc'
      subst hc'
      obtain ⟨g1, g2, g3, g4, _⟩ := hgp ch
      rw [g1] at hoj
      rw [g2, g3, g4]
      rcases hget _ oj hoj with ⟨e, rfl⟩ | ⟨_, h1⟩
      · have := a7 c ch o hcc (by rw [e]; exact ho)
        exact ⟨fun _ => this.1 (by rw [hres]; simp), this.2⟩
      · exact a7 c ch oj hcc h1
  · intro j hj oj hoj hto
    rcases hget j oj hoj with ⟨e, rfl⟩ | ⟨_, h1⟩
    · subst e
      obtain ⟨o2, ho2, hp2⟩ := a1 j hj
      rw [ho] at ho2; cases ho2
      have := hqueued (by rw [hp2]; simp)
      left; rw [this.2]; simp
    · rcases a8 j hj oj h1 hto with h2 | h2
      · exact Or.inl (hsub _ h2)
      · exact Or.inr h2
  · intro j oj hoj hh
    rcases hget j oj hoj with ⟨e, rfl⟩ | ⟨_, h1⟩
    · subst e
      simp only [Option.some.injEq] at hh
      rcases hh with hh | hh
      · rcases hr with ⟨_, e2, _⟩ | ⟨f, e1, _, _⟩ | ⟨e1, _, _⟩ | ⟨e1, _, _⟩ | ⟨e1, _, _⟩
        · exact a9 j o ho (Or.inr e2)
        · rcases e1 with e1 | e1 <;> (rw [e1] at hh; cases hh)
        all_goals (rw [e1] at hh; cases hh)
      · exact a9 j o ho (Or.inr hh)
    · exact a9 j oj h1 hh
  · intro k hk
    obtain ⟨j, oj, h1, h2, h3⟩ := a10 k hk
    by_cases e : j = i
    · subst e; rw [ho] at h1; cases h1
      exact ⟨j, { o with res := some r }, hputi, h2, h3⟩
    · exact ⟨j, oj, hput j oj h1 e, h2, h3⟩
  · exact a11
  · intro c ch' hc'
    obtain ⟨g, hg, hgp⟩ := dropRx_get s.chans oc c
    rw [hg] at hc'
    cases hcc : s.chans[c]? with
    | none => rw [hcc] at hc'; cases hc'
    | some ch =>
      rw [hcc] at hc'
      simp only [Option.map_some, Option.some.injEq] at hc'
      subst hc'
      rw [(hgp ch).1, List.length_set]
      exact a12 c ch hcc

theorem Acct.poll {s s' : St} {ob : Obs} (h : Acct s) (i : Nat)
    (hs : step s (.poll i) = some (s', ob)) : Acct s' := by
  simp only [step] at hs
  cases ho : s.ops[i]? with
  | none => rw [ho] at hs; cases hs
  | some o =>
    rw [ho] at hs
    simp only at hs
    split at hs
    · cases hs
    · next hcond =>
      have hres : o.res = none := by
        cases hr : o.res with
        | none => rfl
        | some x => exfalso; apply hcond; left; simp [hr]
      have hph : o.phase ≠ .allocated := fun e => hcond (Or.inr e)
      cases hm : o.mail with
      | ack =>
        rw [hm] at hs
        simp only [Option.some.injEq, Prod.mk.injEq] at hs
        rw [← hs.1]
        have := h.setRes i o ho hres hph .ack s.scrubQ none (Or.inl ⟨rfl, hm, rfl⟩)
        simpa [dropRxOf, hm] using this
      | frame f =>
        rw [hm] at hs
        simp only [Option.some.injEq, Prod.mk.injEq] at hs
        rw [← hs.1]
        have := h.setRes i o ho hres hph (if f.good then .frame f else .decodeErr) s.scrubQ none
          (Or.inr (Or.inl ⟨f, by split <;> simp, hm, rfl⟩))
        simpa [dropRxOf, hm] using this
      | dropped =>
        rw [hm] at hs
        simp only [Option.some.injEq, Prod.mk.injEq] at hs
        rw [← hs.1]
        have := h.setRes i o ho hres hph .recvErr s.scrubQ o.chan (Or.inr (Or.inr (Or.inl ⟨rfl, hm, rfl⟩)))
        simpa [hm] using this
      | empty =>
        rw [hm] at hs
        simp only at hs
        split at hs
        · split at hs
          · split at hs
            · next hrun =>
              simp only [Option.some.injEq, Prod.mk.injEq] at hs
              rw [← hs.1]
              have := h.setRes i o ho hres hph .timeout (s.scrubQ ++ [o.id]) o.chan
                (Or.inr (Or.inr (Or.inr (Or.inl ⟨rfl, hm, rfl, hrun⟩))))
              simpa [hm] using this
            · next hrun =>
              simp only [Option.some.injEq, Prod.mk.injEq] at hs
              rw [← hs.1]
              have := h.setRes i o ho hres hph .scrubSendErr s.scrubQ o.chan
                (Or.inr (Or.inr (Or.inr (Or.inr ⟨rfl, hm, hrun, rfl⟩))))
              simpa [hm] using this
          · simp only [Option.some.injEq, Prod.mk.injEq] at hs; rw [← hs.1]; exact h
        · simp only [Option.some.injEq, Prod.mk.injEq] at hs; rw [← hs.1]; exact h

/-- a stream-side action on channel `c` (whose search has been acknowledged): cursor / receiver flag /
ghost flags change, possibly with a scrub request for the search's own ID -/
theorem Acct.chanUpd {s : St} (h : Acct s) (c : Nat) (ch : Chan) (o : Op) (hc : s.chans[c]? = some ch)
    (ho : s.ops[ch.opIdx]? = some o) (hack : o.res = some .ack) (ch' : Chan) (hidx : ch'.opIdx = ch.opIdx)
    (hitems : ch'.items = ch.items) (q' : List Nat)
    (hq : q' = s.scrubQ ∨ q' = s.scrubQ ++ [o.id])
    (hfin : ch'.finScrub = true → ch.finScrub = true ∨ q' = s.scrubQ ++ [o.id] ∨ s.drv ≠ .running)
    (hto : ch'.timedOut = true → ch.timedOut = true ∨ q' = s.scrubQ ++ [o.id] ∨ s.drv ≠ .running) :
    Acct { s with chans := s.chans.set c ch', scrubQ := q' } := by
  obtain ⟨a1, a2, a3, a4, a5, a6, a7, a8, a9, a10, a11, a12, a13⟩ := h
  have hclt : c < s.chans.length := (List.getElem?_eq_some_iff.mp hc).1
  have hsub : ∀ k, k ∈ s.scrubQ → k ∈ q' := by
    intro k hk; rcases hq with e | e <;> rw [e] <;> simp [hk]
  have hget : ∀ (d : Nat) (chd : Chan), (s.chans.set c ch')[d]? = some chd →
      (d = c ∧ chd = ch') ∨ (d ≠ c ∧ s.chans[d]? = some chd) := by
    intro d chd hd
    rw [List.getElem?_set] at hd
    split at hd
    · next e => simp only [hclt, if_true, Option.some.injEq] at hd; exact Or.inl ⟨e.symm, hd.symm⟩
    · next e => exact Or.inr ⟨fun x => e x.symm, hd⟩
  refine ⟨a1, a2, a3, a4, ?_, ?_, ?_, ?_, a9, ?_, a11, ?_, a13⟩
  · intro p hp
    obtain ⟨op, hop, hid, hpt, hm, hrs⟩ := a5 p hp
    refine ⟨op, hop, hid, hpt, hm, ?_⟩
    rcases hrs with h1 | ⟨h1, h2⟩
    · exact Or.inl h1
    · exact Or.inr ⟨h1, hsub _ h2⟩
  · intro p hp
    obtain ⟨chp, op, hcp, hop, hid, hch, hpt, hm, hnd, himp, hrs⟩ := a6 p hp
    by_cases e : p.2 = c
    · rw [e, hc] at hcp; cases hcp
      rw [ho] at hop; cases hop
      refine ⟨ch', o, by rw [e]; simp [hclt], by rw [hidx]; exact ho, hid, hch, hpt, hm, ?_, ?_, hrs⟩
      · intro f hf; rw [hitems] at hf; exact hnd f hf
      · have hrun : s.drv = .running := by
          cases hd : s.drv with
          | running => rfl
          | endedOk => have := (a11 (by rw [hd]; simp)).2.1; rw [this] at hp; cases hp
          | endedErr => have := (a11 (by rw [hd]; simp)).2.1; rw [this] at hp; cases hp
        intro hh
        rcases hh with hh | hh | hh
        · rcases hfin hh with h1 | h1 | h1
          · exact hsub _ (himp (Or.inl h1))
          · rw [h1, ← hid]; simp
          · exact absurd hrun h1
        · rcases hto hh with h1 | h1 | h1
          · exact hsub _ (himp (Or.inr (Or.inl h1)))
          · rw [h1, ← hid]; simp
          · exact absurd hrun h1
        · exact hsub _ (himp (Or.inr (Or.inr hh)))
    · refine ⟨chp, op, ?_, hop, hid, hch, hpt, hm, hnd, fun hh => hsub _ (himp hh), hrs⟩
      rw [List.getElem?_set, if_neg (fun x => e x.symm)]; exact hcp
  · intro d chd od hd hod
    rcases hget d chd hd with ⟨e, rfl⟩ | ⟨_, h1⟩
    · rw [hidx, ho] at hod; cases hod
      have := a7 c ch o hc ho
      exact ⟨fun hne => absurd hack hne, fun hp => by rw [hitems]; exact this.2 hp⟩
    · exact a7 d chd od h1 hod
  · intro j hj oj hoj hto2
    rcases a8 j hj oj hoj hto2 with h2 | h2
    · exact Or.inl (hsub _ h2)
    · exact Or.inr h2
  · intro k hk
    exact a10 k hk
  · intro d chd hd
    rcases hget d chd hd with ⟨e, rfl⟩ | ⟨_, h1⟩
    · rw [hidx]; exact a12 c ch hc
    · exact a12 d chd h1

theorem ack_of_guard {s : St} {ch : Chan} (h : ¬ (s.ops[ch.opIdx]?.bind (·.res)) ≠ some Res.ack) :
    ∃ o : Op, s.ops[ch.opIdx]? = some o ∧ o.res = some .ack := by
  have h' : (s.ops[ch.opIdx]?.bind (·.res)) = some Res.ack := by simpa using h
  cases ho : s.ops[ch.opIdx]? with
  | none => rw [ho] at h'; cases h'
  | some o => rw [ho] at h'; exact ⟨o, rfl, h'⟩

theorem Acct.recv {s s' : St} {ob : Obs} (h : Acct s) (c : Nat) (dl : Option Nat)
    (hs : step s (.recv c dl) = some (s', ob)) : Acct s' := by
  simp only [step] at hs
  cases hc : s.chans[c]? with
  | none => rw [hc] at hs; cases hs
  | some ch =>
    rw [hc] at hs
    simp only at hs
    split at hs
    · cases hs
    · next hg =>
      obtain ⟨o, ho, hack⟩ := ack_of_guard hg
      split at hs
      · cases hs
      · split at hs
        · simp only [Option.some.injEq, Prod.mk.injEq] at hs
          rw [← hs.1]
          have := h.chanUpd c ch o hc ho hack { ch with taken := ch.taken + 1 } rfl rfl s.scrubQ (Or.inl rfl)
            (fun x => Or.inl x) (fun x => Or.inl x)
          simpa using this
        · split at hs
          · simp only [Option.some.injEq, Prod.mk.injEq] at hs; rw [← hs.1]; exact h
          · split at hs
            · split at hs
              · rw [ho] at hs
                simp only at hs
                split at hs
                · simp only [Option.some.injEq, Prod.mk.injEq] at hs; rw [← hs.1]
                  exact h.chanUpd c ch o hc ho hack { ch with timedOut := true } rfl rfl (s.scrubQ ++ [o.id]) (Or.inr rfl)
                    (fun x => Or.inl x) (fun _ => Or.inr (Or.inl rfl))
                · simp only [Option.some.injEq, Prod.mk.injEq] at hs; rw [← hs.1]; exact h
              · simp only [Option.some.injEq, Prod.mk.injEq] at hs; rw [← hs.1]; exact h
            · simp only [Option.some.injEq, Prod.mk.injEq] at hs; rw [← hs.1]; exact h

theorem Acct.finish {s s' : St} {ob : Obs} (h : Acct s) (c : Nat) (b : Bool)
    (hs : step s (.finish c b) = some (s', ob)) : Acct s' := by
  simp only [step] at hs
  cases hc : s.chans[c]? with
  | none => rw [hc] at hs; cases hs
  | some ch =>
    rw [hc] at hs
    simp only at hs
    split at hs
    · cases hs
    · next hg =>
      obtain ⟨o, ho, hack⟩ := ack_of_guard hg
      split at hs
      · cases hs
      · rw [ho] at hs
        simp only [Option.some.injEq, Prod.mk.injEq] at hs
        rw [← hs.1]
        by_cases hb : b = true ∧ s.drv = .running
        · rw [if_pos hb]
          exact h.chanUpd c ch o hc ho hack { ch with rxAlive := false, finScrub := b } rfl rfl _ (Or.inr rfl)
            (fun _ => Or.inr (Or.inl rfl)) (fun x => Or.inl x)
        · rw [if_neg hb]
          refine h.chanUpd c ch o hc ho hack { ch with rxAlive := false, finScrub := b } rfl rfl _ (Or.inl rfl)
            (fun x => ?_) (fun x => Or.inl x)
          simp only at x
          right; right
          intro hrun; exact hb ⟨x, hrun⟩

/-- a state in which the driver has ended: queue and maps dropped, operations only "deadened"
(reply senders dropped, queued requests discarded) -/
theorem Acct.dead_of {s s' : St} (h : Acct s) (hd : s'.drv ≠ .running) (hq : s'.opQ = []) (hr : s'.resultmap = [])
    (hsm : s'.searchmap = []) (hin : s'.inUse = []) (hc : s'.chans = s.chans) (hlen : s'.ops.length = s.ops.length)
    (hops : ∀ (j : Nat) (o' : Op), s'.ops[j]? = some o' → ∃ o : Op, s.ops[j]? = some o ∧ o'.kind = o.kind ∧
      o'.chan = o.chan ∧ o'.res = o.res ∧ o'.phase ≠ .queued ∧ (o'.phase ≠ .taken → o' = o) ∧
      (o'.mail = .ack → o.mail = .ack) ∧ (o.phase = .taken → o'.phase = .taken)) : Acct s' := by
  obtain ⟨a1, a2, a3, a4, a5, a6, a7, a8, a9, a10, a11, a12, a13⟩ := h
  refine ⟨?_, ?_, ?_, ?_, ?_, ?_, ?_, ?_, ?_, ?_, ?_, ?_, ?_⟩
  · intro j hj; rw [hq] at hj; cases hj
  · intro j o' ho' hp
    obtain ⟨o, _, _, _, _, hnq, _⟩ := hops j o' ho'
    exact absurd hp hnq
  · intro j o' ho' hp
    obtain ⟨o, ho, _, _, _, _, heq, _⟩ := hops j o' ho'
    have e := heq hp
    subst e
    exact a3 j o' ho hp
  · intro j o' ho'
    obtain ⟨o, ho, hk, hch, _⟩ := hops j o' ho'
    rw [hk, hch]; exact a4 j o ho
  · intro p hp; rw [hr] at hp; cases hp
  · intro p hp; rw [hsm] at hp; cases hp
  · intro c ch o' hcc ho'
    rw [hc] at hcc
    obtain ⟨o, ho, _, _, hres, _, heq, _⟩ := hops _ o' ho'
    have := a7 c ch o hcc ho
    refine ⟨fun hne => this.1 (by rw [← hres]; exact hne), fun hp => ?_⟩
    have e := heq hp
    subst e
    exact this.2 hp
  · intro j hj; rw [hq] at hj; cases hj
  · intro j o' ho' hh
    obtain ⟨o, ho, _, _, hres, _, _, hma, hpt⟩ := hops j o' ho'
    apply hpt
    apply a9 j o ho
    rcases hh with hh | hh
    · exact Or.inl (by rw [← hres]; exact hh)
    · exact Or.inr (hma hh)
  · intro k hk; rw [hin] at hk; cases hk
  · intro _; exact ⟨hr, hsm, hq⟩
  · intro c ch hcc
    rw [hc] at hcc; rw [hlen]; exact a12 c ch hcc
  · rw [hq]; exact List.nodup_nil

theorem Acct.endDriver {s : St} (h : Acct s) (how : Drv) (hhow : how ≠ .running) : Acct (Conn.endDriver s how) := by
  apply h.dead_of (s' := Conn.endDriver s how) hhow rfl rfl rfl rfl rfl (by simp [Conn.endDriver])
  intro j o' ho'
  rw [endDriver_get] at ho'
  cases ho : s.ops[j]? with
  | none => rw [ho] at ho'; cases ho'
  | some o =>
    rw [ho] at ho'
    simp only [Option.map_some, Option.some.injEq] at ho'
    have hdm : ∀ m : Mail, dropIf m = .ack → m = .ack := by
      intro m hm; unfold dropIf at hm; split at hm
      · cases hm
      · exact hm
    refine ⟨o, rfl, ?_⟩
    by_cases hq : s.opQ.contains j = true
    · rw [if_pos hq] at ho'
      rw [← ho']
      exact ⟨rfl, rfl, rfl, by simp, fun hp => absurd rfl hp, hdm _, fun _ => rfl⟩
    · rw [if_neg hq] at ho'
      have hnq : o.phase ≠ .queued := by
        intro hp
        have := h.phaseQ j o ho hp
        exact hq (by simpa using this)
      split at ho'
      · rw [← ho']
        exact ⟨rfl, rfl, rfl, hnq, fun hp => by
          -- an op registered in the result map has been taken
          exfalso
          rename_i hany
          simp only [List.any_eq_true, beq_iff_eq] at hany
          obtain ⟨p, hp1, hp2⟩ := hany
          obtain ⟨op, hop, _, hpt, _⟩ := h.rmOk p hp1
          rw [hp2, ho] at hop; cases hop
          exact hp hpt, hdm _, fun hp => hp⟩
      · rw [← ho']
        exact ⟨rfl, rfl, rfl, hnq, fun _ => rfl, fun hm => hm, fun hp => hp⟩

theorem dropSender_get (ops : List Op) (i j : Nat) :
    (dropSender ops i)[j]? = if j = i then (ops[i]?).map (fun o => if o.mail = .empty then { o with mail := .dropped } else o)
      else ops[j]? := by
  unfold dropSender; exact modifyOp_get ops i j _

theorem dropSenderOpt_get (ops : List Op) (x : Option Nat) (j : Nat) (o' : Op) (h : (dropSenderOpt ops x)[j]? = some o') :
    ∃ o : Op, ops[j]? = some o ∧ o'.id = o.id ∧ o'.kind = o.kind ∧ o'.chan = o.chan ∧ o'.res = o.res ∧
      o'.phase = o.phase ∧ o'.deadline = o.deadline ∧ (x ≠ some j → o' = o) ∧ (o'.mail = o.mail ∨ (o.mail = .empty ∧ o'.mail = .dropped)) := by
  cases x with
  | none => exact ⟨o', h, rfl, rfl, rfl, rfl, rfl, rfl, fun _ => rfl, Or.inl rfl⟩
  | some i =>
    simp only [dropSenderOpt, dropSender_get] at h
    split at h
    · next e =>
      subst e
      cases ho : ops[j]? with
      | none => rw [ho] at h; cases h
      | some o =>
        rw [ho] at h
        simp only [Option.map_some, Option.some.injEq] at h
        refine ⟨o, rfl, ?_⟩
        rw [← h]
        split
        · next hm => exact ⟨rfl, rfl, rfl, rfl, rfl, rfl, fun hne => absurd rfl hne, Or.inr ⟨hm, rfl⟩⟩
        · exact ⟨rfl, rfl, rfl, rfl, rfl, rfl, fun _ => rfl, Or.inl rfl⟩
    · next e =>
      exact ⟨o', h, rfl, rfl, rfl, rfl, rfl, rfl, fun _ => rfl, Or.inl rfl⟩

theorem dropSenderOpt_put (ops : List Op) (x : Option Nat) (j : Nat) (o : Op) (h : ops[j]? = some o) (hne : x ≠ some j) :
    (dropSenderOpt ops x)[j]? = some o := by
  cases x with
  | none => exact h
  | some i =>
    have : j ≠ i := fun e => hne (by rw [e])
    simp only [dropSenderOpt, dropSender_get, if_neg this]; exact h

theorem dropSenderOpt_length (ops : List Op) (x : Option Nat) : (dropSenderOpt ops x).length = ops.length := by
  cases x with
  | none => rfl
  | some i => simp only [dropSenderOpt, dropSender]; exact modifyOp_length _ _ _

theorem Acct.drvScrub {s s' : St} {ob : Obs} (h : Acct s) (hs : step s .drvScrub = some (s', ob)) : Acct s' := by
  simp only [step] at hs
  split at hs
  · cases hs
  · next hrun' =>
    have hrun : s.drv = .running := by simpa using hrun'
    cases hq : s.scrubQ with
    | nil => rw [hq] at hs; cases hs
    | cons k rest =>
      rw [hq] at hs
      simp only [Option.some.injEq, Prod.mk.injEq] at hs
      rw [← hs.1]
      obtain ⟨a1, a2, a3, a4, a5, a6, a7, a8, a9, a10, a11, a12, a13⟩ := h
      -- the op whose sender is dropped, if any, is registered under k
      have htarget : ∀ i, lookup s.resultmap (k : Int) = some i → ∃ o : Op, s.ops[i]? = some o ∧ o.id = k ∧ o.phase = .taken ∧ o.mail = .empty := by
        intro i hi
        obtain ⟨n, hmem, hn⟩ := lookup_some hi
        obtain ⟨o, ho, hid, hpt, hm, _⟩ := a5 (n, i) hmem
        have : n = k := by exact_mod_cast hn
        exact ⟨o, ho, by rw [hid]; exact this, hpt, hm⟩
      have hsame : ∀ (j : Nat) (o : Op), s.ops[j]? = some o → (o.id ≠ k ∨ o.phase ≠ .taken ∨ o.mail ≠ .empty) →
          (dropSenderOpt s.ops (lookup s.resultmap (k : Int)))[j]? = some o := by
        intro j o ho hdiff
        apply dropSenderOpt_put _ _ _ _ ho
        intro e
        obtain ⟨o2, ho2, h1, h2, h3⟩ := htarget j e
        rw [ho] at ho2; cases ho2
        rcases hdiff with d | d | d
        · exact d h1
        · exact d h2
        · exact d h3
      have hrest : ∀ x, x ∈ s.scrubQ → x ≠ k → x ∈ rest := by
        intro x hx hne; rw [hq] at hx; simp only [List.mem_cons] at hx
        rcases hx with e | e
        · exact absurd e hne
        · exact e
      refine ⟨?_, ?_, ?_, ?_, ?_, ?_, ?_, ?_, ?_, ?_, ?_, ?_, a13⟩
      · intro j hj
        obtain ⟨o, ho, hp⟩ := a1 j hj
        exact ⟨o, hsame j o ho (Or.inr (Or.inl (by rw [hp]; simp))), hp⟩
      · intro j o' ho' hp
        obtain ⟨o, ho, _, _, _, _, hph, _⟩ := dropSenderOpt_get _ _ j o' ho'
        exact a2 j o ho (by rw [← hph]; exact hp)
      · intro j o' ho' hp
        obtain ⟨o, ho, _, _, _, hres, hph, _, heq, _⟩ := dropSenderOpt_get _ _ j o' ho'
        have hsm := hsame j o ho (Or.inr (Or.inl (by rw [← hph]; exact hp)))
        rw [ho'] at hsm; cases hsm
        exact a3 j o' ho hp
      · intro j o' ho'
        obtain ⟨o, ho, _, hk, hc, _⟩ := dropSenderOpt_get _ _ j o' ho'
        rw [hk, hc]; exact a4 j o ho
      · intro p hp
        obtain ⟨hin, hne⟩ := mem_erase hp
        obtain ⟨o, ho, hid, hpt, hm, hrs⟩ := a5 p hin
        have hidk : o.id ≠ k := by rw [hid]; intro e; exact hne (by rw [e])
        refine ⟨o, hsame _ o ho (Or.inl hidk), hid, hpt, hm, ?_⟩
        rcases hrs with r | ⟨r1, r2⟩
        · exact Or.inl r
        · exact Or.inr ⟨r1, hrest _ r2 (by rw [← hid]; exact hidk)⟩
      · intro p hp
        obtain ⟨hin, hne⟩ := mem_erase hp
        obtain ⟨ch, o, hc, ho, hid, hch, hpt, hm, hnd, himp, hrs⟩ := a6 p hin
        have hidk : o.id ≠ k := by rw [hid]; intro e; exact hne (by rw [e])
        exact ⟨ch, o, hc, hsame _ o ho (Or.inl hidk), hid, hch, hpt, hm, hnd,
          fun hh => hrest _ (himp hh) (by rw [← hid]; exact hidk), hrs⟩
      · intro c ch o' hc ho'
        obtain ⟨o, ho, _, _, _, hres, hph, _⟩ := dropSenderOpt_get _ _ _ o' ho'
        have := a7 c ch o hc ho
        exact ⟨fun hne => this.1 (by rw [← hres]; exact hne), fun hp => this.2 (by rw [← hph]; exact hp)⟩
      · intro j hj o' ho' hto
        obtain ⟨o, ho, hid, _, _, hres, _⟩ := dropSenderOpt_get _ _ j o' ho'
        rw [hid]
        rcases a8 j hj o ho (by rw [← hres]; exact hto) with r | r
        · by_cases e : o.id = k
          · right; rw [e]; exact not_mem_eraseId _ _
          · left; exact hrest _ r e
        · right; intro hmem; exact r (mem_eraseId.mp hmem).1
      · intro j o' ho' hh
        obtain ⟨o, ho, _, _, _, hres, hph, _, _, hmail⟩ := dropSenderOpt_get _ _ j o' ho'
        rw [hph]
        apply a9 j o ho
        rcases hh with hh | hh
        · exact Or.inl (by rw [← hres]; exact hh)
        · rcases hmail with e | ⟨_, e⟩
          · exact Or.inr (by rw [← e]; exact hh)
          · rw [e] at hh; cases hh
      · intro x hx
        obtain ⟨hxin, hxne⟩ := mem_eraseId.mp hx
        have hxk : x ≠ k := fun e => hxne (by rw [e])
        obtain ⟨j, o, ho, hid, hreg⟩ := a10 x hxin
        refine ⟨j, o, hsame j o ho (Or.inl (by rw [hid]; exact hxk)), hid, ?_⟩
        rcases hreg with r | r | r | ⟨c, r1, r2⟩ | r
        · exact Or.inl r
        · exact Or.inr (Or.inl r)
        · refine Or.inr (Or.inr (Or.inl ?_))
          unfold erase; simp only [List.mem_filter]
          refine ⟨r, ?_⟩
          simp only [Bool.not_eq_eq_eq_not, Bool.not_true, beq_eq_false_iff_ne, ne_eq]
          rw [hid]; exact_mod_cast hxk
        · refine Or.inr (Or.inr (Or.inr (Or.inl ⟨c, r1, ?_⟩)))
          unfold erase; simp only [List.mem_filter]
          refine ⟨r2, ?_⟩
          simp only [Bool.not_eq_eq_eq_not, Bool.not_true, beq_eq_false_iff_ne, ne_eq]
          rw [hid]; exact_mod_cast hxk
        · exact Or.inr (Or.inr (Or.inr (Or.inr r)))
      · intro hd; exact absurd hrun hd
      · intro c ch hc; rw [dropSenderOpt_length]; exact a12 c ch hc

theorem mem_erase_of {m : List (Nat × Nat)} {k : Int} {p : Nat × Nat} (h : p ∈ m) (hne : (p.1 : Int) ≠ k) : p ∈ erase m k := by
  unfold erase; simp only [List.mem_filter]
  exact ⟨h, by simpa using hne⟩

/-- releasing the ID `n` together with every routing entry under it, `ops` and `chans` being changed
only in ways the caller accounts for -/
theorem Acct.release {s s' : St} (h : Acct s) (n : Nat) (rem : Prop) (hrun : s.drv = .running) (hd : s'.drv = s.drv)
    (hq : s'.opQ = s.opQ) (hsq : s'.scrubQ = s.scrubQ)
    (hrm : ∀ p, p ∈ s'.resultmap → p ∈ s.resultmap) (hrm2 : ∀ p, p ∈ s.resultmap → (rem → p.1 ≠ n) → p ∈ s'.resultmap)
    (hsm : ∀ p, p ∈ s'.searchmap → p ∈ s.searchmap) (hsm2 : ∀ p, p ∈ s.searchmap → (rem → p.1 ≠ n) → p ∈ s'.searchmap)
    (hin : ∀ k, k ∈ s'.inUse → (k ∈ s.inUse ∧ (rem → k ≠ n)))
    (hlen : s'.ops.length = s.ops.length)
    -- operations: only the mailbox of operations registered under `n` may change (to a frame)
    (hops : ∀ (j : Nat) (o : Op), s.ops[j]? = some o → ∃ o' : Op, s'.ops[j]? = some o' ∧ o'.id = o.id ∧ o'.kind = o.kind ∧
      o'.chan = o.chan ∧ o'.res = o.res ∧ o'.phase = o.phase ∧ (o' = o ∨ (o.id = n ∧ o.phase = .taken ∧ o'.mail ≠ .ack ∧ (∀ p ∈ s'.resultmap, p.1 ≠ n) ∧ (∀ p ∈ s'.searchmap, p.1 ≠ n))))
    -- channels: only a channel whose search is registered under `n` may get items appended
    (hch : ∀ (c : Nat) (ch : Chan), s.chans[c]? = some ch → ∃ ch' : Chan, s'.chans[c]? = some ch' ∧ ch'.opIdx = ch.opIdx ∧
      ch'.finScrub = ch.finScrub ∧ ch'.timedOut = ch.timedOut ∧
      (ch'.items = ch.items ∨ (∃ o : Op, s.ops[ch.opIdx]? = some o ∧ o.id = n ∧ o.phase = .taken ∧
        ((n, c) ∈ s'.searchmap → noDone ch'))))
    (hchlen : s'.chans.length = s.chans.length) : Acct s' := by
  obtain ⟨a1, a2, a3, a4, a5, a6, a7, a8, a9, a10, a11, a12, a13⟩ := h
  have hops_back : ∀ (j : Nat) (o' : Op), s'.ops[j]? = some o' → ∃ o : Op, s.ops[j]? = some o ∧ o'.id = o.id ∧ o'.kind = o.kind ∧
      o'.chan = o.chan ∧ o'.res = o.res ∧ o'.phase = o.phase ∧ (o' = o ∨ (o.id = n ∧ o.phase = .taken ∧ o'.mail ≠ .ack ∧ (∀ p ∈ s'.resultmap, p.1 ≠ n) ∧ (∀ p ∈ s'.searchmap, p.1 ≠ n))) := by
    intro j o' ho'
    have hj : j < s.ops.length := by rw [← hlen]; exact (List.getElem?_eq_some_iff.mp ho').1
    obtain ⟨o2, ho2, r⟩ := hops j s.ops[j] (List.getElem?_eq_getElem hj)
    rw [ho'] at ho2; cases ho2
    exact ⟨s.ops[j], List.getElem?_eq_getElem hj, r⟩
  have hch_back : ∀ (c : Nat) (ch' : Chan), s'.chans[c]? = some ch' → ∃ ch : Chan, s.chans[c]? = some ch ∧ ch'.opIdx = ch.opIdx ∧
      ch'.finScrub = ch.finScrub ∧ ch'.timedOut = ch.timedOut ∧
      (ch'.items = ch.items ∨ (∃ o : Op, s.ops[ch.opIdx]? = some o ∧ o.id = n ∧ o.phase = .taken ∧
        ((n, c) ∈ s'.searchmap → noDone ch'))) := by
    intro c ch' hc'
    have hc : c < s.chans.length := by rw [← hchlen]; exact (List.getElem?_eq_some_iff.mp hc').1
    obtain ⟨ch2, hc2, r⟩ := hch c s.chans[c] (List.getElem?_eq_getElem hc)
    rw [hc'] at hc2; cases hc2
    exact ⟨s.chans[c], List.getElem?_eq_getElem hc, r⟩
  refine ⟨?_, ?_, ?_, ?_, ?_, ?_, ?_, ?_, ?_, ?_, ?_, ?_, by rw [hq]; exact a13⟩
  · intro j hj; rw [hq] at hj
    obtain ⟨o, ho, hp⟩ := a1 j hj
    obtain ⟨o', ho', _, _, _, _, hph, _⟩ := hops j o ho
    exact ⟨o', ho', by rw [hph]; exact hp⟩
  · intro j o' ho' hp
    obtain ⟨o, ho, _, _, _, _, hph, _⟩ := hops_back j o' ho'
    rw [hq]; exact a2 j o ho (by rw [← hph]; exact hp)
  · intro j o' ho' hp
    obtain ⟨o, ho, _, _, _, _, hph, heq⟩ := hops_back j o' ho'
    rcases heq with e | ⟨_, ht, _⟩
    · subst e; exact a3 j o' ho hp
    · exact absurd (by rw [hph]; exact ht) hp
  · intro j o' ho'
    obtain ⟨o, ho, _, hk, hc, _⟩ := hops_back j o' ho'
    rw [hk, hc]; exact a4 j o ho
  · intro p hp
    have hin0 := hrm p hp
    obtain ⟨o, ho, hid, hpt, hm, hrs⟩ := a5 p hin0
    obtain ⟨o', ho', hid', _, _, hres, hph, heq⟩ := hops _ o ho
    rcases heq with e | ⟨e, _, _, hn1, _⟩
    · subst e
      exact ⟨o', ho', hid, hpt, hm, by rw [hsq]; exact hrs⟩
    · exact absurd (by rw [← hid]; exact e) (hn1 p hp)
  · intro p hp
    have hin0 := hsm p hp
    obtain ⟨ch, o, hc, ho, hid, hch0, hpt, hm, hnd, himp, hrs⟩ := a6 p hin0
    obtain ⟨o', ho', hid', _, _, hres, hph, heq⟩ := hops _ o ho
    obtain ⟨ch', hc', hidx, hf1, hf2, hitems⟩ := hch p.2 ch hc
    have hoeq : o' = o := by
      rcases heq with e | ⟨e, _, _, _, hn2⟩
      · exact e
      · exact absurd (by rw [← hid]; exact e) (hn2 p hp)
    subst hoeq
    refine ⟨ch', o', hc', by rw [hidx]; exact ho', hid, hch0, hpt, hm, ?_, ?_, hrs⟩
    · rcases hitems with e | ⟨o2, ho2, hid2, _, hnd2⟩
      · intro f hf; rw [e] at hf; exact hnd f hf
      · rw [ho] at ho2; cases ho2
        have : p = (n, p.2) := by rw [← hid2, hid]
        exact hnd2 (by rw [← this]; exact hp)
    · intro hh; rw [hf1, hf2, hsq] at *; exact himp hh
  · intro c ch' o' hc' ho'
    obtain ⟨ch, hc, hidx, hf1, hf2, hitems⟩ := hch_back c ch' hc'
    rw [hidx] at ho'
    obtain ⟨o, ho, _, _, _, hres, hph, _⟩ := hops_back _ o' ho'
    have := a7 c ch o hc ho
    refine ⟨fun hne => by rw [hf1, hf2]; exact this.1 (by rw [← hres]; exact hne), fun hp => ?_⟩
    rcases hitems with e | ⟨o2, ho2, _, ht, _⟩
    · rw [e]; exact this.2 (by rw [← hph]; exact hp)
    · rw [ho] at ho2; cases ho2
      exact absurd (by rw [hph]; exact ht) hp
  · intro j hj o' ho' hto
    rw [hq] at hj
    obtain ⟨o, ho, hid, _, _, hres, _⟩ := hops_back j o' ho'
    rw [hid, hsq]
    rcases a8 j hj o ho (by rw [← hres]; exact hto) with r | r
    · exact Or.inl r
    · exact Or.inr (fun hmem => r (hin _ hmem).1)
  · intro j o' ho' hh
    obtain ⟨o, ho, _, _, _, hres, hph, heq⟩ := hops_back j o' ho'
    rw [hph]
    rcases heq with e | ⟨_, ht, hna⟩
    · subst e; exact a9 j o' ho hh
    · exact ht
  · intro k hk
    obtain ⟨hkin, hkne⟩ := hin k hk
    obtain ⟨j, o, ho, hid, hreg⟩ := a10 k hkin
    obtain ⟨o', ho', hid', hkind, hchn, _, hph, _⟩ := hops j o ho
    refine ⟨j, o', ho', by rw [hid']; exact hid, ?_⟩
    unfold Reg at hreg ⊢
    rw [hph, hq, hid', hchn, hkind]
    rcases hreg with r | r | r | ⟨c, r1, r2⟩ | r
    · exact Or.inl r
    · exact Or.inr (Or.inl r)
    · exact Or.inr (Or.inr (Or.inl (hrm2 _ r (by rw [hid]; exact hkne))))
    · exact Or.inr (Or.inr (Or.inr (Or.inl ⟨c, r1, hsm2 _ r2 (by rw [hid]; exact hkne)⟩)))
    · exact Or.inr (Or.inr (Or.inr (Or.inr r)))
  · intro hd2; rw [hd] at hd2; exact absurd hrun hd2
  · intro c ch' hc'
    obtain ⟨ch, hc, hidx, _⟩ := hch_back c ch' hc'
    rw [hidx, hlen]; exact a12 c ch hc

theorem mem_erase_iff {m : List (Nat × Nat)} {n : Nat} {p : Nat × Nat} :
    p ∈ erase m (n : Int) ↔ (p ∈ m ∧ p.1 ≠ n) := by
  unfold erase; simp only [List.mem_filter]
  constructor
  · rintro ⟨h1, h2⟩; exact ⟨h1, fun e => by simp [e] at h2⟩
  · rintro ⟨h1, h2⟩; exact ⟨h1, by simpa using fun e => h2 (by exact_mod_cast e)⟩

theorem mem_eraseId_iff {m : List Nat} {n k : Nat} :
    k ∈ eraseId m (n : Int) ↔ (k ∈ m ∧ k ≠ n) := by
  rw [mem_eraseId]
  constructor
  · rintro ⟨h1, h2⟩; exact ⟨h1, fun e => h2 (by exact_mod_cast e)⟩
  · rintro ⟨h1, h2⟩; exact ⟨h1, fun e => h2 (by exact_mod_cast e)⟩

/-- a response is delivered to the single operation registered under its ID -/
theorem Acct.deliver {s : St} (h : Acct s) (hrun : s.drv = .running) (n i : Nat) (f : Frame)
    (hmem : (n, i) ∈ s.resultmap) (hns : ∀ p ∈ s.searchmap, p.1 ≠ n) :
    Acct ({ s with resultmap := erase s.resultmap (n : Int)
                   ops := modifyOp s.ops i fun o => if o.mail = .empty then { o with mail := .frame f } else o
                   inUse := eraseId s.inUse (n : Int) } : St) := by
  obtain ⟨o, ho, hid, hpt, hm, _⟩ := h.rmOk _ hmem
  refine h.release n True hrun rfl rfl rfl (fun p hp => (mem_erase_iff.mp hp).1)
    (fun p hp hne => mem_erase_iff.mpr ⟨hp, hne trivial⟩) (fun p hp => hp) (fun p hp _ => hp)
    (fun k hk => ⟨(mem_eraseId_iff.mp hk).1, fun _ => (mem_eraseId_iff.mp hk).2⟩)
    (modifyOp_length _ _ _) ?_ (fun c ch hc => ⟨ch, hc, rfl, rfl, rfl, Or.inl rfl⟩) rfl
  intro j oj hj
  show ∃ o', (modifyOp s.ops i _)[j]? = some o' ∧ _
  rw [modifyOp_get]
  by_cases hji : j = i
  · subst hji
    rw [if_pos rfl, hj]
    simp only at ho
    rw [hj] at ho; cases ho
    refine ⟨{ o with mail := .frame f }, by simp [hm], rfl, rfl, rfl, rfl, rfl, Or.inr ⟨hid, hpt, by simp, ?_, hns⟩⟩
    intro p hp; exact (mem_erase_iff.mp hp).2
  · rw [if_neg hji]
    exact ⟨oj, hj, rfl, rfl, rfl, rfl, rfl, Or.inl rfl⟩

/-- appending one item to the channel of the search registered under `n`, releasing `n` when `rem` -/
theorem Acct.routeItem {s : St} (h : Acct s) (hrun : s.drv = .running) (n c : Nat) (item : Item)
    (hmem : (n, c) ∈ s.searchmap) (app : Bool) (rem : Prop) [Decidable rem]
    (hitem : ¬ rem → ∀ f, item ≠ .done f) :
    Acct ({ s with chans := if app then modifyChan s.chans c fun ch => { ch with items := ch.items ++ [item] } else s.chans
                   searchmap := if rem then erase s.searchmap (n : Int) else s.searchmap
                   inUse := if rem then eraseId s.inUse (n : Int) else s.inUse } : St) := by
  obtain ⟨ch, o, hc, ho, hid, hoc, hpt, hm, hnd, _⟩ := h.smOk _ hmem
  refine h.release n rem hrun rfl rfl rfl (fun p hp => hp) (fun p hp _ => hp) ?_ ?_ ?_ rfl
    (fun j oj hj => ⟨oj, hj, rfl, rfl, rfl, rfl, rfl, Or.inl rfl⟩) ?_ ?_
  · intro p hp
    by_cases hr : rem
    · simp only [hr, if_true] at hp; exact (mem_erase_iff.mp hp).1
    · simpa only [hr, if_false] using hp
  · intro p hp hne
    by_cases hr : rem
    · simp only [hr, if_true]; exact mem_erase_iff.mpr ⟨hp, hne hr⟩
    · simpa only [hr, if_false] using hp
  · intro k hk
    by_cases hr : rem
    · simp only [hr, if_true] at hk; exact ⟨(mem_eraseId_iff.mp hk).1, fun _ => (mem_eraseId_iff.mp hk).2⟩
    · simp only [hr, if_false] at hk; exact ⟨hk, fun r => absurd r hr⟩
  · intro c' ch' hc'
    cases app with
    | false => exact ⟨ch', hc', rfl, rfl, rfl, Or.inl rfl⟩
    | true =>
      show ∃ ch'', (modifyChan s.chans c _)[c']? = some ch'' ∧ _
      rw [modifyChan_get]
      by_cases hcc : c' = c
      · subst hcc
        rw [if_pos rfl, hc']
        simp only at hc
        rw [hc'] at hc; cases hc
        refine ⟨{ ch with items := ch.items ++ [item] }, rfl, rfl, rfl, rfl, Or.inr ⟨o, ho, hid, hpt, ?_⟩⟩
        intro hin
        by_cases hr : rem
        · simp only [hr, if_true] at hin; exact absurd rfl (mem_erase_iff.mp hin).2
        · intro f hf
          simp only [List.mem_append, List.mem_singleton] at hf
          rcases hf with hf | hf
          · exact hnd f hf
          · exact hitem hr f hf.symm
      · rw [if_neg hcc]
        exact ⟨ch', hc', rfl, rfl, rfl, Or.inl rfl⟩
  · cases app with
    | false => rfl
    | true =>
      show (modifyChan s.chans c _).length = _
      unfold modifyChan; split <;> simp

theorem Acct.route {s : St} (h : Acct s) (hrun : s.drv = .running) (n c : Nat) (f : Frame)
    (hmem : (n, c) ∈ s.searchmap) (hn : (n : Int) = f.id) : Acct (routeSearch s c f) := by
  obtain ⟨ch, o, hc, _⟩ := h.smOk _ hmem
  simp only at hc
  have key : ∀ (item : Item) (isDone : Bool), (isDone = false → ∀ g, item ≠ .done g) →
      Acct (if (isDone || !ch.rxAlive) = true then
        ({ s with chans := if ch.rxAlive = true then modifyChan s.chans c fun ch => { ch with items := ch.items ++ [item] } else s.chans
                  searchmap := erase s.searchmap f.id, inUse := eraseId s.inUse f.id } : St)
        else { s with chans := if ch.rxAlive = true then modifyChan s.chans c fun ch => { ch with items := ch.items ++ [item] } else s.chans }) := by
    intro item isDone hitem
    have := h.routeItem hrun n c item hmem ch.rxAlive ((isDone || !ch.rxAlive) = true)
      (fun hr g => hitem (by cases isDone <;> simp_all) g)
    rw [← hn]
    split
    · next hr => simpa only [hr, if_true] using this
    · next hr => simpa [hr] using this
  unfold routeSearch
  simp only [hc]
  by_cases h1 : f.op = 4 ∨ f.op = 25 ∨ f.op = 19
  · simp only [h1, if_true]
    exact key _ _ (fun _ g => by simp)
  · simp only [h1, if_false]
    by_cases h2 : f.op = 5
    · simp only [h2, if_true]
      by_cases h3 : f.good = true
      · simp only [h3, if_true]
        exact key _ _ (fun hh => by simp at hh)
      · simp only [h3]
        exact h.endDriver _ (by simp)
    · simp only [h2, if_false]
      exact h.endDriver _ (by simp)

theorem Acct.drvResp {s s' : St} {obs : Obs} (h : Acct s) (hs : step s .drvResp = some (s', obs)) : Acct s' := by
  simp only [step] at hs
  split at hs
  · cases hs
  · next hrun =>
    have hrun : s.drv = .running := by simpa using hrun
    split at hs
    · next f hf =>
      have h1 : Acct ({ s with pos := s.pos + 1 } : St) := h.congr rfl rfl rfl rfl rfl rfl rfl rfl
      split at hs
      · next c hl =>
        simp only [Option.some.injEq, Prod.mk.injEq] at hs
        obtain ⟨n, hmem, hn⟩ := lookup_some hl
        rw [← hs.1]
        exact h1.route hrun n c f hmem hn
      · next hl =>
        split at hs
        · next i hl2 =>
          simp only [Option.some.injEq, Prod.mk.injEq] at hs
          obtain ⟨n, hmem, hn⟩ := lookup_some hl2
          rw [← hs.1, ← hn]
          refine h1.deliver hrun n i f hmem ?_
          intro p hp e
          exact lookup_none hl p hp (by rw [← hn, e])
        · simp only [Option.some.injEq, Prod.mk.injEq] at hs
          rw [← hs.1]; exact h1
    · split at hs
      · cases hs
      · simp only [Option.some.injEq, Prod.mk.injEq] at hs
        rw [← hs.1]; exact h.endDriver _ (by simp)
      · simp only [Option.some.injEq, Prod.mk.injEq] at hs
        rw [← hs.1]; exact h.endDriver _ (by simp)

/-- the driver takes request `i` off the queue; what it registers and what else it drops is the caller's -/
theorem Acct.take {s s' : St} (h : Acct s) (hrun : s.drv = .running) {i : Nat} {rest : List Nat} {o oi' : Op}
    (hq : s.opQ = i :: rest) (ho : s.ops[i]? = some o)
    (hco : ∀ c, o.chan = some c → ∃ ch, s.chans[c]? = some ch ∧ ch.opIdx = i)
    (hq' : s'.opQ = rest) (hd : s'.drv = s.drv) (hsq : s'.scrubQ = s.scrubQ) (hc : s'.chans = s.chans)
    (hlen : s'.ops.length = s.ops.length)
    (hin : ∀ k ∈ s'.inUse, k ∈ s.inUse)
    (hoi : s'.ops[i]? = some oi') (hoi1 : oi'.id = o.id) (hoi2 : oi'.kind = o.kind) (hoi3 : oi'.chan = o.chan)
    (hoi4 : oi'.res = o.res) (hoi5 : oi'.phase = .taken)
    (hops : ∀ j, j ≠ i → ∀ oj', s'.ops[j]? = some oj' → ∃ oj, s.ops[j]? = some oj ∧ oj'.id = oj.id ∧ oj'.kind = oj.kind ∧
      oj'.chan = oj.chan ∧ oj'.res = oj.res ∧ oj'.phase = oj.phase ∧
      (oj' = oj ∨ (oj.phase = .taken ∧ oj.mail = .empty ∧ oj'.mail = .dropped ∧ ∀ p ∈ s'.resultmap, p.2 ≠ j)))
    (hrm : ∀ p ∈ s'.resultmap, (p = (o.id, i) ∧ oi'.mail = .empty ∧ o.id ∈ s.inUse) ∨ p ∈ s.resultmap)
    (hsm : ∀ p ∈ s'.searchmap, (p.1 = o.id ∧ o.chan = some p.2 ∧ oi'.mail = .ack ∧ o.id ∈ s.inUse) ∨ p ∈ s.searchmap)
    (hreg1 : ∀ p ∈ s.resultmap, p.1 ∈ s'.inUse → p.1 ≠ o.id → p ∈ s'.resultmap)
    (hreg2 : ∀ p ∈ s.searchmap, p.1 ∈ s'.inUse → p.1 ≠ o.id → p ∈ s'.searchmap)
    (hregi : o.id ∈ s'.inUse → Reg s' i oi') : Acct s' := by
  obtain ⟨a1, a2, a3, a4, a5, a6, a7, a8, a9, a10, a11, a12, a13⟩ := h
  have hnd : i ∉ rest ∧ rest.Nodup := by rw [hq] at a13; exact List.nodup_cons.mp a13
  have hoq : o.phase = .queued := by
    obtain ⟨o2, ho2, hp⟩ := a1 i (by rw [hq]; simp)
    rw [ho] at ho2; cases ho2; exact hp
  obtain ⟨hom, hor⟩ := a3 i o ho (by rw [hoq]; simp)
  have hor' : o.res = none ∨ o.res = some .timeout := by
    rcases hor with r | r
    · exact Or.inl r
    · exact Or.inr r.1
  have hfwd : ∀ j, j ≠ i → ∀ oj, s.ops[j]? = some oj → ∃ oj', s'.ops[j]? = some oj' ∧ oj'.id = oj.id ∧ oj'.kind = oj.kind ∧
      oj'.chan = oj.chan ∧ oj'.res = oj.res ∧ oj'.phase = oj.phase ∧
      (oj' = oj ∨ (oj.phase = .taken ∧ oj.mail = .empty ∧ oj'.mail = .dropped ∧ ∀ p ∈ s'.resultmap, p.2 ≠ j)) := by
    intro j hji oj hoj
    have hj : j < s'.ops.length := by rw [hlen]; exact (List.getElem?_eq_some_iff.mp hoj).1
    obtain ⟨o2, ho2, r⟩ := hops j hji s'.ops[j] (List.getElem?_eq_getElem hj)
    rw [hoj] at ho2; cases ho2
    exact ⟨s'.ops[j], List.getElem?_eq_getElem hj, r⟩
  have htimeout : o.id ∈ s.inUse → o.res = some .timeout → o.id ∈ s.scrubQ := by
    intro hidin hto
    rcases a8 i (by rw [hq]; simp) o ho hto with r | r
    · exact r
    · exact absurd hidin r
  refine ⟨?_, ?_, ?_, ?_, ?_, ?_, ?_, ?_, ?_, ?_, ?_, ?_, by rw [hq']; exact hnd.2⟩
  · intro j hj; rw [hq'] at hj
    have hji : j ≠ i := fun e => hnd.1 (e ▸ hj)
    obtain ⟨oj, hoj, hp⟩ := a1 j (by rw [hq]; exact List.mem_cons_of_mem _ hj)
    obtain ⟨oj', hoj', _, _, _, _, hph, _⟩ := hfwd j hji oj hoj
    exact ⟨oj', hoj', by rw [hph]; exact hp⟩
  · intro j oj' hoj' hp
    by_cases hji : j = i
    · subst hji; rw [hoi] at hoj'; cases hoj'; rw [hoi5] at hp; cases hp
    · obtain ⟨oj, hoj, _, _, _, _, hph, _⟩ := hops j hji oj' hoj'
      have := a2 j oj hoj (by rw [← hph]; exact hp)
      rw [hq] at this; rw [hq']
      simp only [List.mem_cons] at this
      rcases this with e | e
      · exact absurd e hji
      · exact e
  · intro j oj' hoj' hp
    by_cases hji : j = i
    · subst hji; rw [hoi] at hoj'; cases hoj'; exact absurd hoi5 hp
    · obtain ⟨oj, hoj, _, _, _, _, hph, heq⟩ := hops j hji oj' hoj'
      rcases heq with e | ⟨ht, _⟩
      · subst e; exact a3 j oj' hoj hp
      · exact absurd (by rw [hph]; exact ht) hp
  · intro j oj' hoj'
    by_cases hji : j = i
    · subst hji; rw [hoi] at hoj'; cases hoj'; rw [hoi2, hoi3]; exact a4 j o ho
    · obtain ⟨oj, hoj, _, hk, hch, _⟩ := hops j hji oj' hoj'
      rw [hk, hch]; exact a4 j oj hoj
  · intro p hp
    rcases hrm p hp with ⟨e, hm, hidin⟩ | hold
    · subst e
      refine ⟨oi', hoi, hoi1, hoi5, hm, ?_⟩
      rw [hoi4, hsq]
      rcases hor' with r | r
      · exact Or.inl r
      · exact Or.inr ⟨r, htimeout hidin r⟩
    · obtain ⟨oj, hoj, hid, hpt, hm, hrs⟩ := a5 p hold
      have hji : p.2 ≠ i := by
        intro e; rw [e, ho] at hoj; cases hoj; rw [hoq] at hpt; cases hpt
      obtain ⟨oj', hoj', _, _, _, _, _, heq⟩ := hfwd p.2 hji oj hoj
      rcases heq with e | ⟨_, _, _, hno⟩
      · subst e; exact ⟨oj', hoj', hid, hpt, hm, by rw [hsq]; exact hrs⟩
      · exact absurd rfl (hno p hp)
  · intro p hp
    rcases hsm p hp with ⟨e, hch, hm, hidin⟩ | hold
    · obtain ⟨ch, hcc, hidx⟩ := hco p.2 hch
      have hcf := a7 p.2 ch o hcc (by rw [hidx]; exact ho)
      have hne : o.res ≠ some .ack := by rcases hor' with r | r <;> rw [r] <;> simp
      refine ⟨ch, oi', by rw [hc]; exact hcc, by rw [hidx]; exact hoi, by rw [hoi1, e], by rw [hoi3]; exact hch, hoi5, hm, ?_, ?_, ?_⟩
      · intro f hf; rw [hcf.2 (by rw [hoq]; simp)] at hf; cases hf
      · rw [(hcf.1 hne).1, (hcf.1 hne).2, hoi4, hsq, e]
        intro hh
        rcases hh with hh | hh | hh
        · cases hh
        · cases hh
        · exact htimeout hidin hh
      · rw [hoi4]
        rcases hor' with r | r
        · exact Or.inl r
        · exact Or.inr (Or.inr r)
    · obtain ⟨ch, oj, hcc, hoj, hid, hch, hpt, hm, hnd', himp, hrs⟩ := a6 p hold
      have hji : ch.opIdx ≠ i := by
        intro e; rw [e, ho] at hoj; cases hoj; rw [hoq] at hpt; cases hpt
      obtain ⟨oj', hoj', _, _, _, _, _, heq⟩ := hfwd _ hji oj hoj
      rcases heq with e | ⟨_, hme, _, _⟩
      · subst e
        exact ⟨ch, oj', by rw [hc]; exact hcc, hoj', hid, hch, hpt, hm, hnd', by rw [hsq]; exact himp, hrs⟩
      · rw [hm] at hme; cases hme
  · intro c ch oj' hcc hoj'
    rw [hc] at hcc
    by_cases hji : ch.opIdx = i
    · rw [hji, hoi] at hoj'; cases hoj'
      have := a7 c ch o hcc (by rw [hji]; exact ho)
      exact ⟨fun hne => this.1 (by rw [← hoi4]; exact hne), fun hp => absurd hoi5 hp⟩
    · obtain ⟨oj, hoj, _, _, _, hres, hph, _⟩ := hops _ hji oj' hoj'
      have := a7 c ch oj hcc hoj
      exact ⟨fun hne => this.1 (by rw [← hres]; exact hne), fun hp => this.2 (by rw [← hph]; exact hp)⟩
  · intro j hj oj' hoj' hto
    rw [hq'] at hj
    have hji : j ≠ i := fun e => hnd.1 (e ▸ hj)
    obtain ⟨oj, hoj, hid, _, _, hres, _⟩ := hops j hji oj' hoj'
    rw [hid, hsq]
    rcases a8 j (by rw [hq]; exact List.mem_cons_of_mem _ hj) oj hoj (by rw [← hres]; exact hto) with r | r
    · exact Or.inl r
    · exact Or.inr (fun hmem => r (hin _ hmem))
  · intro j oj' hoj' hh
    by_cases hji : j = i
    · subst hji; rw [hoi] at hoj'; cases hoj'; exact hoi5
    · obtain ⟨oj, hoj, _, _, _, hres, hph, heq⟩ := hops j hji oj' hoj'
      rcases heq with e | ⟨ht, _⟩
      · subst e; exact a9 j oj' hoj hh
      · rw [hph]; exact ht
  · intro k hk
    by_cases hko : k = o.id
    · exact ⟨i, oi', hoi, by rw [hoi1, hko], hregi (hko ▸ hk)⟩
    · obtain ⟨j, oj, hoj, hid, hreg⟩ := a10 k (hin k hk)
      have hji : j ≠ i := by
        intro e; rw [e, ho] at hoj; cases hoj; exact hko hid.symm
      obtain ⟨oj', hoj', hid', hkind, hchn, _, hph, _⟩ := hfwd j hji oj hoj
      refine ⟨j, oj', hoj', by rw [hid']; exact hid, ?_⟩
      unfold Reg at hreg ⊢
      rw [hph, hq', hid', hchn, hkind]
      rcases hreg with r | r | r | ⟨c, r1, r2⟩ | r
      · exact Or.inl r
      · refine Or.inr (Or.inl ?_)
        rw [hq] at r; simp only [List.mem_cons] at r
        rcases r with e | e
        · exact absurd e hji
        · exact e
      · exact Or.inr (Or.inr (Or.inl (hreg1 _ r (by rw [hid]; exact hk) (by rw [hid]; exact hko))))
      · exact Or.inr (Or.inr (Or.inr (Or.inl ⟨c, r1, hreg2 _ r2 (by rw [hid]; exact hk) (by rw [hid]; exact hko)⟩)))
      · exact Or.inr (Or.inr (Or.inr (Or.inr r)))
  · intro hd2; rw [hd] at hd2; exact absurd hrun hd2
  · intro c ch hcc
    rw [hc] at hcc; rw [hlen]; exact a12 c ch hcc

theorem mem_insert_iff {m : List (Nat × Nat)} {k v : Nat} {p : Nat × Nat} :
    p ∈ insert m k v ↔ (p = (k, v) ∨ (p ∈ m ∧ p.1 ≠ k)) := by
  constructor
  · exact mem_insert
  · intro h
    unfold insert
    simp only [List.mem_append, List.mem_singleton]
    rcases h with h | ⟨h1, h2⟩
    · exact Or.inr h
    · exact Or.inl (mem_erase_iff.mpr ⟨h1, h2⟩)

/-- facts about the request at the head of the queue -/
theorem Acct.head {s : St} (h : Acct s) {i : Nat} {rest : List Nat} {o : Op}
    (hq : s.opQ = i :: rest) (ho : s.ops[i]? = some o) :
    o.phase = .queued ∧ o.mail = .empty ∧ (∀ p ∈ s.resultmap, p.2 ≠ i) ∧
    (s.ops.set i { o with phase := .taken })[i]? = some { o with phase := .taken } ∧
    (∀ j, j ≠ i → (s.ops.set i { o with phase := .taken })[j]? = s.ops[j]?) := by
  have hoq : o.phase = .queued := by
    obtain ⟨o2, ho2, hp⟩ := h.qPhase i (by rw [hq]; simp)
    rw [ho] at ho2; cases ho2; exact hp
  refine ⟨hoq, (h.fresh i o ho (by rw [hoq]; simp)).1, ?_, ?_, ?_⟩
  · intro p hp e
    obtain ⟨o2, ho2, _, hpt, _⟩ := h.rmOk p hp
    rw [e, ho] at ho2; cases ho2; rw [hoq] at hpt; cases hpt
  · rw [get_set _ _ ho, if_pos rfl]
  · intro j hji; rw [get_set _ _ ho, if_neg hji]

/-- dropping the reply sender registered under `x` while op `i` is being taken -/
theorem Acct.dropReg {s : St} (h : Acct s) {i : Nat} {o : Op} (ops0 : List Op)
    (h0 : ∀ j, j ≠ i → ops0[j]? = s.ops[j]?) (k : Int) (j : Nat) (hji : j ≠ i) (oj' : Op)
    (hoj' : (dropSenderOpt ops0 (lookup s.resultmap k))[j]? = some oj') (hni : ∀ p ∈ s.resultmap, p.2 ≠ i) :
    ∃ oj, s.ops[j]? = some oj ∧ oj'.id = oj.id ∧ oj'.kind = oj.kind ∧
      oj'.chan = oj.chan ∧ oj'.res = oj.res ∧ oj'.phase = oj.phase ∧
      (oj' = oj ∨ (oj.phase = .taken ∧ oj.mail = .empty ∧ oj'.mail = .dropped ∧
        (∃ n : Nat, (n : Int) = k ∧ oj.id = n) ∧ ∀ p ∈ s.resultmap, p.2 = j → (p.1 : Int) = k)) := by
  by_cases hx : lookup s.resultmap k = some j
  · obtain ⟨n, hmem, hn⟩ := lookup_some hx
    obtain ⟨oj, hoj, hid, hpt, hm, _⟩ := h.rmOk _ hmem
    simp only at hoj hid
    rw [hx] at hoj'
    simp only [dropSenderOpt, dropSender_get, if_pos, h0 j hji, hoj, Option.map_some, hm, Option.some.injEq] at hoj'
    refine ⟨oj, hoj, ?_⟩
    rw [← hoj']
    refine ⟨rfl, rfl, rfl, rfl, rfl, Or.inr ⟨hpt, hm, rfl, ⟨n, hn, hid⟩, ?_⟩⟩
    intro p hp e
    obtain ⟨o2, ho2, hid2, _⟩ := h.rmOk p hp
    rw [e, hoj] at ho2; cases ho2
    rw [← hid2, hid]; exact hn
  · have hj : j < ops0.length := by
      have := (List.getElem?_eq_some_iff.mp hoj').1
      rw [dropSenderOpt_length] at this; exact this
    have e1 : ops0[j]? = some ops0[j] := List.getElem?_eq_getElem hj
    have := dropSenderOpt_put ops0 _ j ops0[j] e1 hx
    rw [hoj'] at this; cases this
    rw [h0 j hji] at e1
    exact ⟨_, e1, rfl, rfl, rfl, rfl, rfl, Or.inl rfl⟩

end Ldap3V.Conn

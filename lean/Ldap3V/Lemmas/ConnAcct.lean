/- The accounting invariant of Model.Conn: which message IDs are reserved and which routing
entries exist, in terms of what the callers can see.  Used for C13_quiescent and C05. -/
import Ldap3V.Lemmas.ConnSteps
namespace Ldap3V.Conn

def noDone (ch : Chan) : Prop := ∀ f, Item.done f ∉ ch.items

/-- op `i` is registered with the connection under its ID -/
def Reg (s : St) (i : Nat) (o : Op) : Prop :=
  o.phase = .allocated ∨ i ∈ s.opQ ∨ (o.id, i) ∈ s.resultmap ∨
  (∃ c, o.chan = some c ∧ (o.id, c) ∈ s.searchmap) ∨ (o.kind = .unbind ∧ o.phase = .taken)

structure Acct (s : St) : Prop where
  qPhase : ∀ i ∈ s.opQ, ∃ o : Op, s.ops[i]? = some o ∧ o.phase = .queued
  phaseQ : ∀ (i : Nat) (o : Op), s.ops[i]? = some o → o.phase = .queued → i ∈ s.opQ
  fresh : ∀ (i : Nat) (o : Op), s.ops[i]? = some o → o.phase ≠ .taken →
    o.mail = .empty ∧ (o.res = none ∨ (o.res = some .timeout ∧ o.phase = .queued))
  kindChan : ∀ (i : Nat) (o : Op), s.ops[i]? = some o → (o.kind = .search ↔ o.chan ≠ none)
  rmOk : ∀ p ∈ s.resultmap, ∃ o : Op, s.ops[p.2]? = some o ∧ o.id = p.1 ∧ o.phase = .taken ∧ o.mail = .empty ∧
    (o.res = none ∨ (o.res = some .timeout ∧ p.1 ∈ s.scrubQ))
  smOk : ∀ p ∈ s.searchmap, ∃ (ch : Chan) (o : Op), s.chans[p.2]? = some ch ∧ s.ops[ch.opIdx]? = some o ∧ o.id = p.1 ∧
    o.chan = some p.2 ∧ o.phase = .taken ∧ noDone ch ∧
    ((ch.finScrub = true ∨ ch.timedOut = true ∨ o.res = some .timeout) → p.1 ∈ s.scrubQ) ∧
    (o.res = none ∨ o.res = some .ack ∨ o.res = some .timeout)
  chanFresh : ∀ (c : Nat) (ch : Chan) (o : Op), s.chans[c]? = some ch → s.ops[ch.opIdx]? = some o →
    (o.res ≠ some .ack → ch.finScrub = false ∧ ch.timedOut = false) ∧ (o.phase ≠ .taken → ch.items = [])
  qTimeout : ∀ i ∈ s.opQ, ∀ o : Op, s.ops[i]? = some o → o.res = some .timeout → o.id ∈ s.scrubQ ∨ o.id ∉ s.inUse
  ackTaken : ∀ (i : Nat) (o : Op), s.ops[i]? = some o → (o.res = some .ack ∨ o.mail = .ack) → o.phase = .taken
  acct : s.drv = .running → ∀ k ∈ s.inUse, ∃ (i : Nat) (o : Op), s.ops[i]? = some o ∧ o.id = k ∧ Reg s i o
  dead : s.drv ≠ .running → s.resultmap = [] ∧ s.searchmap = [] ∧ s.opQ = []
  chanIdx : ∀ (c : Nat) (ch : Chan), s.chans[c]? = some ch → ch.opIdx < s.ops.length

theorem Acct.init (N : Nat) : Acct (Conn.init N) := by
  refine ⟨?_, ?_, ?_, ?_, ?_, ?_, ?_, ?_, ?_, ?_, ?_, ?_⟩ <;> simp [Conn.init]

theorem get_set {ops : List Op} {i : Nat} {o : Op} (o' : Op) (j : Nat) (ho : ops[i]? = some o) :
    (ops.set i o')[j]? = if j = i then some o' else ops[j]? := by
  have hlt : i < ops.length := (List.getElem?_eq_some_iff.mp ho).1
  rw [List.getElem?_set]
  split
  · next h => subst h; simp [hlt]
  · next h => rw [if_neg (fun e => h e.symm)]

/-- the invariant only looks at these components -/
theorem Acct.congr {s s' : St} (h : Acct s) (ho : s'.ops = s.ops) (hc : s'.chans = s.chans) (hq : s'.opQ = s.opQ)
    (hsq : s'.scrubQ = s.scrubQ) (hr : s'.resultmap = s.resultmap) (hsm : s'.searchmap = s.searchmap)
    (hi : s'.inUse = s.inUse) (hd : s'.drv = s.drv) : Acct s' := by
  obtain ⟨a1, a2, a3, a4, a5, a6, a7, a8, a9, a10, a11, a12⟩ := h
  refine ⟨?_, ?_, ?_, ?_, ?_, ?_, ?_, ?_, ?_, ?_, ?_, ?_⟩
  · rw [hq, ho]; exact a1
  · rw [hq, ho]; exact a2
  · rw [ho]; exact a3
  · rw [ho]; exact a4
  · rw [hr, ho, hsq]; exact a5
  · rw [hsm, ho, hc, hsq]; exact a6
  · rw [ho, hc]; exact a7
  · rw [hq, ho, hsq, hi]; exact a8
  · rw [ho]; exact a9
  · rw [hd, hi, ho]
    intro hrun k hk
    obtain ⟨i, o, h1, h2, h3⟩ := a10 hrun k hk
    refine ⟨i, o, h1, h2, ?_⟩
    unfold Reg at h3 ⊢
    rw [hq, hr, hsm]; exact h3
  · rw [hd, hr, hsm, hq]; exact a11
  · rw [hc, ho]; exact a12

theorem get_append_one {α : Type} (l : List α) (x : α) (j : Nat) :
    (l ++ [x])[j]? = if j < l.length then l[j]? else if j = l.length then some x else none := by
  split
  · next h => exact List.getElem?_append_left h
  · next h =>
    rw [List.getElem?_append_right (by omega)]
    split
    · next e => subst e; simp
    · next e =>
      have : j - l.length ≠ 0 := by omega
      cases hj : j - l.length with
      | zero => exact absurd hj this
      | succ n => simp

/-- the operation record created by `alloc` -/
def newOp (id : Nat) (kind : Kind) (nchans : Nat) : Op :=
  { id := id, kind := kind, chan := (match kind with | .search => some nchans | _ => none) }

/-- NoStale (finding F13) for one allocation: the ID handed out is not the ID of a request still
waiting in the op queue -/
def FreshFor (s : St) (k : Nat) : Prop := ∀ i ∈ s.opQ, ∀ o : Op, s.ops[i]? = some o → o.id ≠ k

theorem Acct.alloc {s s' : St} {ob : Obs} (h : Acct s) (kind : Kind)
    (hfresh : ∀ k, nextId s.N s.last s.inUse = .ok k → FreshFor s k)
    (hs : step s (.alloc kind) = some (s', ob)) : Acct s' := by
  simp only [step] at hs
  cases hn : nextId s.N s.last s.inUse with
  | diverge => rw [hn] at hs; cases hs
  | panic => rw [hn] at hs; simp only [Option.some.injEq, Prod.mk.injEq] at hs; rw [← hs.1]; exact h
  | ok id =>
    rw [hn] at hs
    simp only [Option.some.injEq, Prod.mk.injEq] at hs
    obtain ⟨hs, _⟩ := hs
    subst hs
    have hf := hfresh id hn
    obtain ⟨a1, a2, a3, a4, a5, a6, a7, a8, a9, a10, a11, a12⟩ := h
    show Acct ({ s with
      last := id
      inUse := id :: s.inUse
      chans := (match kind with | .search => s.chans ++ [({ opIdx := s.ops.length } : Chan)] | _ => s.chans)
      ops := s.ops ++ [newOp id kind s.chans.length] } : St)
    have oldop : ∀ (j : Nat) (o : Op), s.ops[j]? = some o →
        (s.ops ++ [newOp id kind s.chans.length])[j]? = some o := by
      intro j o ho
      have : j < s.ops.length := (List.getElem?_eq_some_iff.mp ho).1
      rw [get_append_one, if_pos this]; exact ho
    have hops : ∀ (j : Nat) (o : Op),
        (s.ops ++ [newOp id kind s.chans.length])[j]? = some o →
        (s.ops[j]? = some o) ∨ (j = s.ops.length ∧ o = newOp id kind s.chans.length) := by
      intro j o ho
      rw [get_append_one] at ho
      split at ho
      · exact Or.inl ho
      · split at ho
        · next e => simp only [Option.some.injEq] at ho; exact Or.inr ⟨e, ho.symm⟩
        · cases ho
    have hchans : ∀ (c : Nat) (ch : Chan),
        (match kind with | .search => s.chans ++ [({ opIdx := s.ops.length } : Chan)] | _ => s.chans)[c]? = some ch →
        s.chans[c]? = some ch ∨ (c = s.chans.length ∧ ch = { opIdx := s.ops.length }) := by
      intro c ch hc
      cases kind <;> simp only at hc <;> try exact Or.inl hc
      rw [get_append_one] at hc
      split at hc
      · exact Or.inl hc
      · split at hc
        · next e => simp only [Option.some.injEq] at hc; exact Or.inr ⟨e, hc.symm⟩
        · cases hc
    have oldchan : ∀ (c : Nat) (ch : Chan), s.chans[c]? = some ch →
        (match kind with | .search => s.chans ++ [({ opIdx := s.ops.length } : Chan)] | _ => s.chans)[c]? = some ch := by
      intro c ch hc
      have : c < s.chans.length := (List.getElem?_eq_some_iff.mp hc).1
      cases kind <;> simp only <;> try exact hc
      rw [get_append_one, if_pos this]; exact hc
    refine ⟨?_, ?_, ?_, ?_, ?_, ?_, ?_, ?_, ?_, ?_, ?_, ?_⟩
    · intro i hi
      obtain ⟨o, ho, hp⟩ := a1 i hi
      exact ⟨o, oldop i o ho, hp⟩
    · intro i o ho hp
      rcases hops i o ho with h1 | ⟨_, rfl⟩
      · exact a2 i o h1 hp
      · cases hp
    · intro i o ho hp
      rcases hops i o ho with h1 | ⟨_, rfl⟩
      · exact a3 i o h1 hp
      · exact ⟨rfl, Or.inl rfl⟩
    · intro i o ho
      rcases hops i o ho with h1 | ⟨_, rfl⟩
      · exact a4 i o h1
      · cases kind <;> simp [newOp]
    · intro p hp
      obtain ⟨o, ho, r⟩ := a5 p hp
      exact ⟨o, oldop _ o ho, r⟩
    · intro p hp
      obtain ⟨ch, o, hc, ho, r⟩ := a6 p hp
      exact ⟨ch, o, oldchan _ ch hc, oldop _ o ho, r⟩
    · intro c ch o hc ho
      rcases hchans c ch hc with hc1 | ⟨_, rfl⟩
      · have hlt := a12 c ch hc1
        rcases hops _ o ho with h1 | ⟨e, _⟩
        · exact a7 c ch o hc1 h1
        · omega
      · exact ⟨fun _ => ⟨rfl, rfl⟩, fun _ => rfl⟩
    · intro i hi o ho hto
      rcases hops i o ho with h1 | ⟨e, _⟩
      · rcases a8 i hi o h1 hto with hq | hnot
        · exact Or.inl hq
        · right
          intro hmem
          simp only [List.mem_cons] at hmem
          rcases hmem with e | hm
          · exact hf i hi o h1 e
          · exact hnot hm
      · obtain ⟨o2, ho2, _⟩ := a1 i hi
        have : i < s.ops.length := (List.getElem?_eq_some_iff.mp ho2).1
        omega
    · intro i o ho hr
      rcases hops i o ho with h1 | ⟨_, rfl⟩
      · exact a9 i o h1 hr
      · simp [newOp] at hr
    · intro hrun k hk
      simp only [List.mem_cons] at hk
      rcases hk with rfl | hk
      · refine ⟨s.ops.length, newOp k kind s.chans.length, ?_, rfl, Or.inl rfl⟩
        rw [get_append_one]; simp
      · obtain ⟨i, o, h1, h2, h3⟩ := a10 hrun k hk
        exact ⟨i, o, oldop i o h1, h2, h3⟩
    · exact a11
    · intro c ch hc
      rcases hchans c ch hc with hc1 | ⟨_, rfl⟩
      · have := a12 c ch hc1
        simp only [List.length_append, List.length_singleton]; omega
      · simp

theorem Acct.enqueue {s s' : St} {ob : Obs} (h : Acct s) (i : Nat) (tmo : Option Nat)
    (hs : step s (.enqueue i tmo) = some (s', ob)) : Acct s' := by
  simp only [step] at hs
  cases ho : s.ops[i]? with
  | none => rw [ho] at hs; cases hs
  | some o =>
    rw [ho] at hs
    simp only at hs
    obtain ⟨a1, a2, a3, a4, a5, a6, a7, a8, a9, a10, a11, a12⟩ := h
    split at hs
    · cases hs
    · next hph =>
      have hph : o.phase = .allocated := by simpa using hph
      have hfr := a3 i o ho (by rw [hph]; simp)
      have hmail : o.mail = .empty := hfr.1
      have hres : o.res = none := by
        rcases hfr.2 with h1 | ⟨_, h2⟩
        · exact h1
        · rw [hph] at h2; cases h2
      have hni : i ∉ s.opQ := by
        intro hi
        obtain ⟨o2, ho2, hp2⟩ := a1 i hi
        rw [ho] at ho2; cases ho2
        rw [hph] at hp2; cases hp2
      split at hs
      · -- driver gone
        next hd =>
        simp only [Option.some.injEq, Prod.mk.injEq] at hs
        rw [← hs.1]
        obtain ⟨d1, d2, d3⟩ := a11 hd
        refine ⟨?_, ?_, ?_, ?_, ?_, ?_, ?_, ?_, ?_, ?_, ?_, ?_⟩
        · intro j hj; rw [d3] at hj; cases hj
        · intro j oj hoj hp
          rw [get_set _ j ho] at hoj
          split at hoj
          · simp only [Option.some.injEq] at hoj; subst hoj; cases hp
          · exact a2 j oj hoj hp
        · intro j oj hoj hp
          rw [get_set _ j ho] at hoj
          split at hoj
          · simp only [Option.some.injEq] at hoj; subst hoj; exact absurd rfl hp
          · exact a3 j oj hoj hp
        · intro j oj hoj
          rw [get_set _ j ho] at hoj
          split at hoj
          · simp only [Option.some.injEq] at hoj; subst hoj; exact a4 i o ho
          · exact a4 j oj hoj
        · intro p hp; rw [d1] at hp; cases hp
        · intro p hp; rw [d2] at hp; cases hp
        · intro c ch oj hc hoj
          rw [get_set _ _ ho] at hoj
          split at hoj
          · next e =>
            simp only [Option.some.injEq] at hoj; subst hoj
            have := a7 c ch o hc (by rw [e]; exact ho)
            exact ⟨fun _ => this.1 (by rw [hres]; simp), fun hp => absurd rfl hp⟩
          · exact a7 c ch oj hc hoj
        · intro j hj; rw [d3] at hj; cases hj
        · intro j oj hoj hr
          rw [get_set _ j ho] at hoj
          split at hoj
          · simp only [Option.some.injEq] at hoj; subst hoj; simp at hr
          · exact a9 j oj hoj hr
        · intro hrun; exact absurd hrun hd
        · intro _; exact ⟨d1, d2, d3⟩
        · intro c ch hc; rw [List.length_set]; exact a12 c ch hc
      · -- queued
        next hd =>
        have hrun : s.drv = .running := by simpa using hd
        simp only [Option.some.injEq, Prod.mk.injEq] at hs
        rw [← hs.1]
        refine ⟨?_, ?_, ?_, ?_, ?_, ?_, ?_, ?_, ?_, ?_, ?_, ?_⟩
        · intro j hj
          simp only [List.mem_append, List.mem_singleton] at hj
          rcases hj with hj | rfl
          · obtain ⟨oj, hoj, hp⟩ := a1 j hj
            have : j ≠ i := fun e => hni (e ▸ hj)
            exact ⟨oj, by rw [get_set _ j ho, if_neg this]; exact hoj, hp⟩
          · exact ⟨_, by rw [get_set _ j ho, if_pos rfl], rfl⟩
        · intro j oj hoj hp
          rw [get_set _ j ho] at hoj
          simp only [List.mem_append, List.mem_singleton]
          split at hoj
          · next e => exact Or.inr e
          · exact Or.inl (a2 j oj hoj hp)
        · intro j oj hoj hp
          rw [get_set _ j ho] at hoj
          split at hoj
          · simp only [Option.some.injEq] at hoj; subst hoj
            exact ⟨hmail, Or.inl hres⟩
          · exact a3 j oj hoj hp
        · intro j oj hoj
          rw [get_set _ j ho] at hoj
          split at hoj
          · simp only [Option.some.injEq] at hoj; subst hoj; exact a4 i o ho
          · exact a4 j oj hoj
        · intro p hp
          obtain ⟨op, hop, r⟩ := a5 p hp
          have : p.2 ≠ i := by
            intro e; rw [e, ho] at hop; cases hop
            rw [hph] at r; exact absurd r.2.1 (by simp)
          exact ⟨op, by rw [get_set _ _ ho, if_neg this]; exact hop, r⟩
        · intro p hp
          obtain ⟨ch, op, hc, hop, r⟩ := a6 p hp
          have : ch.opIdx ≠ i := by
            intro e; rw [e, ho] at hop; cases hop
            rw [hph] at r; exact absurd r.2.2.1 (by simp)
          exact ⟨ch, op, hc, by rw [get_set _ _ ho, if_neg this]; exact hop, r⟩
        · intro c ch oj hc hoj
          rw [get_set _ _ ho] at hoj
          split at hoj
          · next e =>
            simp only [Option.some.injEq] at hoj; subst hoj
            have := a7 c ch o hc (by rw [e]; exact ho)
            exact ⟨fun _ => this.1 (by rw [hres]; simp), fun _ => this.2 (by rw [hph]; simp)⟩
          · exact a7 c ch oj hc hoj
        · intro j hj oj hoj hto
          rw [get_set _ j ho] at hoj
          split at hoj
          · simp only [Option.some.injEq] at hoj; subst hoj
            simp only [hres] at hto; cases hto
          · next hne =>
            simp only [List.mem_append, List.mem_singleton] at hj
            rcases hj with hj | e
            · exact a8 j hj oj hoj hto
            · exact absurd e hne
        · intro j oj hoj hr
          rw [get_set _ j ho] at hoj
          split at hoj
          · simp only [Option.some.injEq] at hoj; subst hoj
            simp only [hres, hmail] at hr
            rcases hr with hr | hr <;> cases hr
          · exact a9 j oj hoj hr
        · intro _ k hk
          obtain ⟨j, oj, h1, h2, h3⟩ := a10 hrun k hk
          by_cases e : j = i
          · subst e
            rw [ho] at h1; cases h1
            refine ⟨j, _, by rw [get_set _ j ho, if_pos rfl], h2, Or.inr (Or.inl ?_)⟩
            simp
          · refine ⟨j, oj, by rw [get_set _ j ho, if_neg e]; exact h1, h2, ?_⟩
            rcases h3 with r | r | r | r | r
            · exact Or.inl r
            · exact Or.inr (Or.inl (by simp [r]))
            · exact Or.inr (Or.inr (Or.inl r))
            · exact Or.inr (Or.inr (Or.inr (Or.inl r)))
            · exact Or.inr (Or.inr (Or.inr (Or.inr r)))
        · intro hd2; exact absurd hrun hd2
        · intro c ch hc; rw [List.length_set]; exact a12 c ch hc

end Ldap3V.Conn

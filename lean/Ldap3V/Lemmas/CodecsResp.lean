/- Response side of C19: every definite-length encoding of every RFC-well-formed response value is
parsed to the value that was encoded; and what the parsers do outside that domain. -/
import Ldap3V.Lemmas.Codecs
namespace Ldap3V.Codecs
open Ldap3V Ldap3V.Spec

theorem parseSeq_enc (c i : Nat) (ks : List Tlv) (bs : Bytes) (h : Enc (.cons c i ks) bs)
    (hd : (Tlv.cons c i ks).depth ≤ maxDepth) (hl : bs.length < 18446744073709551616) :
    parseSeq bs = .ok ks := by
  simp [parseSeq, parseTag_enc _ bs h hd hl, Tlv.expectCons]

theorem depth_optOctets (o : Option Bytes) : Tlv.depthList (Spec.optOctets o) = 0 := by
  cases o <;> simp [Spec.optOctets, Tlv.depthList, Tlv.depth]

theorem depth_boolOpt (d b : Bool) (l : List Tlv) (h : Spec.BoolOpt d b l) : Tlv.depthList l = 0 := by
  rcases h with ⟨_, rfl⟩ | ⟨bs, _, rfl⟩ <;> simp [Tlv.depthList, Tlv.depth]

theorem depthList_append (a b : List Tlv) :
    Tlv.depthList (a ++ b) = max (Tlv.depthList a) (Tlv.depthList b) := by
  induction a with
  | nil => simp [Tlv.depthList]
  | cons x xs ih => simp [Tlv.depthList, ih, Nat.max_assoc]

/-! ### PagedResults -/

theorem paged_resp (v : PagedResults) (t : Tlv) (bs : Bytes) (ht : Spec.PagedTlv v t)
    (he : Enc t bs) (hl : bs.length < 18446744073709551616)
    (h0 : 0 ≤ v.size) (h1 : v.size ≤ 2147483647) : parsePagedResults bs = .ok v := by
  obtain ⟨sz, hi, rfl⟩ := ht
  have hp := parseSeq_enc 0 16 _ bs he (by simp [Tlv.depth, Tlv.depthList, maxDepth]) hl
  have hs := intEnc_parse v.size sz hi h0 (by omega)
  simp [parsePagedResults, hp, matchPrim, Tlv.cls, Tlv.id, Tlv.expectPrim, hs]

/-! ### SyncState -/

theorem syncState_resp (v : SyncState) (t : Tlv) (bs : Bytes) (ht : Spec.SyncStateTlv v t)
    (he : Enc t bs) (hl : bs.length < 18446744073709551616) : parseSyncState bs = .ok v := by
  obtain ⟨st, hi, rfl⟩ := ht
  have hp := parseSeq_enc 0 16 _ bs he (by
    cases v with
    | mk s u c => cases c <;> simp [Spec.optOctets, Tlv.depth, Tlv.depthList, maxDepth]) hl
  cases v with
  | mk s u c =>
    have hu := intEnc_parseUint (Spec.stateNum s) st hi (by cases s <;> simp [Spec.stateNum])
      (by cases s <;> simp [Spec.stateNum])
    have hn : parseUint st = (Spec.stateNum s).toNat := by omega
    cases s <;> cases c <;>
      simp [parseSyncState, hp, matchPrim, Tlv.cls, Tlv.id, Tlv.expectPrim, hn, Spec.stateNum,
        Spec.optOctets]

/-! ### SyncDone -/

theorem syncDone_resp (v : SyncDone) (t : Tlv) (bs : Bytes) (ht : Spec.SyncDoneTlv v t)
    (he : Enc t bs) (hl : bs.length < 18446744073709551616) : parseSyncDone bs = .ok v := by
  obtain ⟨bl, hb, rfl⟩ := ht
  have hp := parseSeq_enc 0 16 _ bs he (by
    simp [Tlv.depth, depthList_append, depth_optOctets, depth_boolOpt _ _ _ hb, maxDepth]) hl
  cases v with
  | mk ck rd =>
    rcases hb with ⟨h1, rfl⟩ | ⟨b, ⟨x, rfl, hx⟩, rfl⟩
    · simp only at h1; subst h1
      cases ck <;> simp [parseSyncDone, hp, Spec.optOctets, syncDoneLoop, Tlv.id]
    · simp only at hx; subst hx
      cases ck <;> simp [parseSyncDone, hp, Spec.optOctets, syncDoneLoop, Tlv.id]

/-! ### SyncInfo -/

theorem allPrims_prims (us : List Bytes) (c i : Nat) :
    allPrims (us.map fun u => Tlv.prim c i u) = some us := by
  induction us with
  | nil => simp [allPrims]
  | cons x xs ih => simp [allPrims, Tlv.expectPrim, ih]

theorem syncInfoValue_tlv (v : SyncInfo) (t : Tlv) (h : Spec.SyncInfoTlv v t) :
    syncInfoValue t = .ok v := by
  cases v with
  | newCookie c =>
    simp only [Spec.SyncInfoTlv] at h; subst h
    simp [syncInfoValue, Tlv.cls, Tlv.id]
  | refreshDelete ck d =>
    obtain ⟨bl, hb, rfl⟩ := h
    rcases hb with ⟨h1, rfl⟩ | ⟨b, ⟨x, rfl, hx⟩, rfl⟩
    · subst h1
      cases ck <;> simp [syncInfoValue, syncInfoInner, Spec.optOctets, Tlv.cls, Tlv.id, Tlv.expectPrim]
    · subst hx
      cases ck <;> simp [syncInfoValue, syncInfoInner, Spec.optOctets, Tlv.cls, Tlv.id, Tlv.expectPrim]
  | refreshPresent ck d =>
    obtain ⟨bl, hb, rfl⟩ := h
    rcases hb with ⟨h1, rfl⟩ | ⟨b, ⟨x, rfl, hx⟩, rfl⟩
    · subst h1
      cases ck <;> simp [syncInfoValue, syncInfoInner, Spec.optOctets, Tlv.cls, Tlv.id, Tlv.expectPrim]
    · subst hx
      cases ck <;> simp [syncInfoValue, syncInfoInner, Spec.optOctets, Tlv.cls, Tlv.id, Tlv.expectPrim]
  | syncIdSet ck d us =>
    obtain ⟨bl, hb, rfl⟩ := h
    rcases hb with ⟨h1, rfl⟩ | ⟨b, ⟨x, rfl, hx⟩, rfl⟩
    · subst h1
      cases ck <;> simp [syncInfoValue, syncInfoInner, Spec.optOctets, Tlv.cls, Tlv.id, Tlv.expectPrim,
        Tlv.expectCons, allPrims_prims]
    · subst hx
      cases ck <;> simp [syncInfoValue, syncInfoInner, Spec.optOctets, Tlv.cls, Tlv.id, Tlv.expectPrim,
        Tlv.expectCons, allPrims_prims]

theorem syncInfoTlv_depth (v : SyncInfo) (t : Tlv) (h : Spec.SyncInfoTlv v t) : t.depth ≤ 2 := by
  cases v with
  | newCookie c => simp only [Spec.SyncInfoTlv] at h; subst h; simp [Tlv.depth]
  | refreshDelete ck d =>
    obtain ⟨bl, hb, rfl⟩ := h
    simp [Tlv.depth, depthList_append, depth_optOctets, depth_boolOpt _ _ _ hb]
  | refreshPresent ck d =>
    obtain ⟨bl, hb, rfl⟩ := h
    simp [Tlv.depth, depthList_append, depth_optOctets, depth_boolOpt _ _ _ hb]
  | syncIdSet ck d us =>
    obtain ⟨bl, hb, rfl⟩ := h
    simp [Tlv.depth, Tlv.depthList, depthList_append, depth_optOctets, depth_boolOpt _ _ _ hb,
      depthList_prims]

theorem syncInfo_resp (v : SyncInfo) (t : Tlv) (bs : Bytes) (ht : Spec.SyncInfoTlv v t)
    (he : Enc t bs) (hl : bs.length < 18446744073709551616) :
    parseSyncInfo (Spec.syncInfoMsg bs) = .ok v ∧
    parseSyncInfo (.cons 1 25 [.prim 2 1 bs]) = .ok v := by
  have hp := parseTag_enc t bs he (by have := syncInfoTlv_depth v t ht; simp [maxDepth]; omega) hl
  have hv := syncInfoValue_tlv v t ht
  have hu : utf8Valid Spec.rfcSyncInfo = true := by decide
  have ho : (Spec.rfcSyncInfo != oidSyncInfo) = false := by decide
  constructor
  · simp [parseSyncInfo, Spec.syncInfoMsg, syncInfoLoop, Tlv.id, Tlv.expectCons, Tlv.expectPrim, hu, ho,
      hp, hv]
  · simp [parseSyncInfo, syncInfoLoop, Tlv.id, Tlv.expectCons, Tlv.expectPrim, hp, hv]

/-! ### Pre/PostRead response (outer step only) -/

theorem readEntry_resp (t : Tlv) (bs : Bytes) (he : Enc t bs) (hd : t.depth ≤ maxDepth)
    (hl : bs.length < 18446744073709551616) : parseReadEntryOuter bs = .ok t := by
  simp [parseReadEntryOuter, parseTag_enc t bs he hd hl]

/-! ### extended responses -/

theorem passModResp_resp (gp : Bytes) (bs : Bytes) (he : Enc (Spec.passModRespTlv gp) bs)
    (hl : bs.length < 18446744073709551616) (hu : utf8Valid gp = true) :
    parsePasswordModifyResp bs = .ok gp := by
  have hp := parseSeq_enc 0 16 _ bs he (by simp [Tlv.depth, Tlv.depthList, maxDepth]) hl
  simp [parsePasswordModifyResp, hp, matchPrim, Tlv.cls, Tlv.id, Tlv.expectPrim, hu]

theorem passModResp_nonUtf8 (gp : Bytes) (bs : Bytes) (he : Enc (Spec.passModRespTlv gp) bs)
    (hl : bs.length < 18446744073709551616) (hu : utf8Valid gp = false) :
    parsePasswordModifyResp bs = .panic := by
  have hp := parseSeq_enc 0 16 _ bs he (by simp [Tlv.depth, Tlv.depthList, maxDepth]) hl
  simp [parsePasswordModifyResp, hp, matchPrim, Tlv.cls, Tlv.id, Tlv.expectPrim, hu]

theorem passModResp_absent (bs : Bytes) (he : Enc (.cons 0 16 []) bs)
    (hl : bs.length < 18446744073709551616) : parsePasswordModifyResp bs = .panic := by
  have hp := parseSeq_enc 0 16 _ bs he (by simp [Tlv.depth, Tlv.depthList, maxDepth]) hl
  simp [parsePasswordModifyResp, hp]

/-! ### EndTxn response (outside the property's list): what is and what is not read -/

theorem endTxnResp_simple (mid : Option Int) (t : Tlv) (bs : Bytes)
    (ht : Spec.EndTxnRespSimpleTlv mid t) (he : Enc t bs) (hl : bs.length < 18446744073709551616)
    (hr : ∀ n, mid = some n → 0 ≤ n ∧ n ≤ 2147483647) : parseEndTxnResp bs = .ok ⟨mid, none⟩ := by
  cases mid with
  | none =>
    simp only [Spec.EndTxnRespSimpleTlv] at ht; subst ht
    have hp := parseSeq_enc 0 16 _ bs he (by simp [Tlv.depth, Tlv.depthList, maxDepth]) hl
    simp [parseEndTxnResp, hp, endTxnLoop]
  | some n =>
    obtain ⟨sz, hi, rfl⟩ := ht
    have hp := parseSeq_enc 0 16 _ bs he (by simp [Tlv.depth, Tlv.depthList, maxDepth]) hl
    obtain ⟨h0, h1⟩ := hr n rfl
    have hs := intEnc_parse n sz hi h0 (by omega)
    simp [parseEndTxnResp, hp, endTxnLoop, hs]

theorem endTxnPairs_rfc_last (rest : List Tlv) (sz : Bytes) (ctrls : List Tlv) :
    endTxnPairs (.cons 0 16 [.prim 0 2 sz, .cons 0 16 ctrls] :: rest) = .panic := by
  cases rest with
  | nil => simp [endTxnPairs]
  | cons m r =>
    simp [endTxnPairs, parseControls, parseControlList, parseControl, Tlv.expectCons]

/-- the RFC 5805 layout of a non-empty `updatesControls` is not read: the parser takes the children
of the outer SEQUENCE as a flat `messageID, controls, messageID, controls …` list -/
theorem endTxnResp_rfc_layout (pre : List Tlv) (sz : Bytes) (ctrls : List Tlv) (bs : Bytes)
    (he : Enc (Spec.endTxnRespRfcTlv [] pre sz ctrls) bs)
    (hd : (Spec.endTxnRespRfcTlv [] pre sz ctrls).depth ≤ maxDepth)
    (hl : bs.length < 18446744073709551616) : parseEndTxnResp bs = .panic := by
  have hp := parseSeq_enc 0 16 _ bs he hd hl
  simp [parseEndTxnResp, hp, endTxnLoop, endTxnPairs_rfc_last]

end Ldap3V.Codecs

/-
Facts about the specification cursor alone (Spec/Stream.lean): what a run of `next()` calls yields,
when `panic` can appear, what the views of well-formed scripts look like.
-/
import Ldap3V.Lemmas.StreamEo
namespace Ldap3V.Stream
open Spec

/-- the cursor never reports `outOfFuel`, and `panic` only if its view ends in `panic` -/
theorem Cursor.run_no_panic (r : StartOut) : ∀ (calls : List Call) (c : Cursor), c.ending ≠ .panic →
    ∀ o ∈ Cursor.run r c calls, o ≠ .item .panic ∧ o ≠ .item .outOfFuel := by
  intro calls
  induction calls with
  | nil => intro c _ o ho; simp [Cursor.run] at ho
  | cons k ks ih =>
    intro c hc o ho
    simp only [Cursor.run, List.mem_cons] at ho
    rcases ho with rfl | ho
    · cases k with
      | start q => simp only [Cursor.step, Cursor.start]; split; simp; split <;> simp
      | next =>
        simp only [Cursor.step, Cursor.next]
        split; simp
        split; simp
        split
        · simp
        · simp
        · simp
        · rename_i he; exact absurd he hc
      | finish => simp only [Cursor.step, Cursor.finish]; split <;> simp
      | state => simp [Cursor.step]
    · split at ho
      · simp at ho
      · exact ih _ (by rw [Cursor.step_ending]; exact hc) o ho

theorem rawView_no_panic (l : List Recv) : (rawView l).ending ≠ .panic := by
  induction l with
  | nil => simp [rawView]
  | cons x l ih => cases x <;> simp [rawView, ih]

/-- every reference item of the script has a well-formed URI list (`parse_refs` does not panic) -/
def wfRefs (l : List Recv) : Prop := ∀ i, Recv.item i ∈ l → i.kind = .ref → i.uris ≠ none

theorem eoRaw_no_panic : ∀ (l : List Recv) (g : List Bytes), wfRefs l → (eoRaw g l).ending ≠ .panic := by
  intro l
  induction l with
  | nil => intro g _; simp [eoRaw_nil]
  | cons x l ih =>
    intro g hwf
    have hwf' : wfRefs l := fun i hi => hwf i (List.mem_cons_of_mem _ hi)
    cases x with
    | item i =>
      rcases kind_cases i.kind with hk | hk | hk
      · rw [eoRaw_entry _ _ _ hk]; exact ih [] hwf'
      · rw [eoRaw_inter _ _ _ hk]; exact ih g hwf'
      · cases hu : i.uris with
        | none => exact absurd hu (hwf i (List.mem_cons_self ..) hk)
        | some us => rw [eoRaw_ref _ _ _ _ hk hu]; exact ih _ hwf'
    | done r => simp [eoRaw_done]
    | closed => simp [eoRaw_closed]
    | timeout => simp [eoRaw_timeout]

/-- `n` calls of `next()` on an active cursor: the remaining items in order, then what the ending says, then `Ok(None)` -/
theorem Cursor.run_nexts_fail (r : StartOut) : ∀ (rest : List Step) (c : Cursor) (g : List Bytes) (e : Err) (k : Nat),
    c.state = .active → c.rest = rest → c.ending = .fail g e →
    Cursor.run r c (List.replicate (rest.length + 1 + k) .next) =
      rest.map (fun st => .item (.ok (some st.item))) ++ [.item (.err e)] ++ List.replicate k (.item (.ok none)) := by
  intro rest
  induction rest with
  | nil =>
    intro c g e k hs hr he
    have h1 : c.step r .next = ({ c with state := .error, acc := c.acc ++ g }, .item (.err e)) := by
      simp [Cursor.step, Cursor.next, hs, hr, he]
    simp only [List.length_nil, Nat.zero_add, List.map_nil, List.nil_append]
    rw [show 1 + k = k + 1 by omega, List.replicate_succ, Cursor.run, h1]
    simp only [Output.stuck, Bool.false_eq_true, if_false, List.singleton_append, List.cons.injEq, true_and]
    generalize hc' : ({ c with state := SState.error, acc := c.acc ++ g } : Cursor) = c'
    have hs' : c'.state = .error := by rw [← hc']
    clear hc' h1
    induction k with
    | zero => rfl
    | succ k ih =>
      rw [List.replicate_succ, Cursor.run]
      have h2 : c'.step r .next = (c', .item (.ok none)) := by simp [Cursor.step, Cursor.next, hs']
      rw [h2]
      simp only [Output.stuck, Bool.false_eq_true, if_false, List.replicate_succ, List.cons.injEq, true_and]
      exact ih
  | cons st tl ih =>
    intro c g e k hs hr he
    have h1 : c.step r .next = ({ c with rest := tl, pos := c.pos + 1, acc := c.acc ++ st.gain }, .item (.ok (some st.item))) := by
      simp [Cursor.step, Cursor.next, hs, hr]
    rw [show (st :: tl).length + 1 + k = (tl.length + 1 + k) + 1 by simp; omega, List.replicate_succ, Cursor.run, h1]
    simp only [Output.stuck, Bool.false_eq_true, if_false, List.map_cons, List.cons_append, List.cons.injEq, true_and]
    exact ih _ g e k hs rfl he

theorem rawView_items (items : List Item) (tl : List Recv) :
    (rawView (items.map .item ++ tl)).steps = items.map (fun i => ⟨[], i⟩) ++ (rawView tl).steps ∧
    (rawView (items.map .item ++ tl)).ending = (rawView tl).ending := by
  induction items with
  | nil => simp
  | cons i is ih => simp [rawView_item, ih.1, ih.2]

end Ldap3V.Stream

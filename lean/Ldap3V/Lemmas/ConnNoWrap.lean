/- Histories with fewer allocations than there are IDs never wrap the ID counter: every ID handed out
is larger than every ID handed out before, so `FreshRun` holds. -/
import Ldap3V.Lemmas.ConnAcctStep
import Ldap3V.Lemmas.IdAlloc
namespace Ldap3V.Conn

def ids (ops : List Op) : List Nat := ops.map (·.id)

theorem ids_set {ops : List Op} {i : Nat} {o o' : Op} (h : ops[i]? = some o) (e : o'.id = o.id) :
    ids (ops.set i o') = ids ops := by
  unfold ids
  apply List.ext_getElem?
  intro j
  simp only [List.getElem?_map, List.getElem?_set]
  split
  · next hj =>
    subst hj
    have hlt : i < ops.length := (List.getElem?_eq_some_iff.mp h).1
    have hg : ops[i] = o := (List.getElem?_eq_some_iff.mp h).2
    simp [hlt, e, hg]
  · rfl

theorem ids_modifyOp {ops : List Op} {i : Nat} {f : Op → Op} (hf : ∀ o, (f o).id = o.id) :
    ids (modifyOp ops i f) = ids ops := by
  unfold modifyOp
  split
  · next o ho => exact ids_set ho (hf o)
  · rfl

theorem ids_dropSender (ops : List Op) (i : Nat) : ids (dropSender ops i) = ids ops := by
  unfold dropSender
  apply ids_modifyOp
  intro o; split <;> rfl

theorem ids_dropSenderOpt (ops : List Op) (x : Option Nat) : ids (dropSenderOpt ops x) = ids ops := by
  cases x with
  | none => rfl
  | some i => exact ids_dropSender ops i

theorem ids_endDriver (s : St) (how : Drv) : ids (endDriver s how).ops = ids s.ops := by
  unfold ids
  apply List.ext_getElem?
  intro j
  simp only [List.getElem?_map, endDriver_get]
  cases s.ops[j]? with
  | none => rfl
  | some o =>
    simp only [Option.map_some]
    split
    · rfl
    · split <;> rfl

theorem ids_deliver (ops : List Op) (i : Nat) (f : Frame) :
    ids (modifyOp ops i fun o => if o.mail = .empty then { o with mail := .frame f } else o) = ids ops :=
  ids_modifyOp (by intro o; split <;> rfl)

theorem endDriver_last (s : St) (how : Drv) : (endDriver s how).last = s.last := rfl
theorem endDriver_N (s : St) (how : Drv) : (endDriver s how).N = s.N := rfl
theorem endDriver_inUse (s : St) (how : Drv) : (endDriver s how).inUse = [] := rfl

theorem routeSearch_frame (s : St) (c : Nat) (f : Frame) :
    ids (routeSearch s c f).ops = ids s.ops ∧ (routeSearch s c f).last = s.last ∧ (routeSearch s c f).N = s.N ∧
    (∀ k ∈ (routeSearch s c f).inUse, k ∈ s.inUse) := by
  have key : ∀ (b : Bool) (chans' : List Chan),
      let r : St := if b = true then { s with chans := chans', searchmap := erase s.searchmap f.id, inUse := eraseId s.inUse f.id }
        else { s with chans := chans' }
      ids r.ops = ids s.ops ∧ r.last = s.last ∧ r.N = s.N ∧ (∀ k ∈ r.inUse, k ∈ s.inUse) := by
    intro b chans'
    cases b with
    | true => exact ⟨rfl, rfl, rfl, fun k hk => (mem_eraseId.mp hk).1⟩
    | false => exact ⟨rfl, rfl, rfl, fun k hk => hk⟩
  have kend : ids (endDriver s .endedErr).ops = ids s.ops ∧ (endDriver s .endedErr).last = s.last ∧
      (endDriver s .endedErr).N = s.N ∧ (∀ k ∈ (endDriver s .endedErr).inUse, k ∈ s.inUse) :=
    ⟨ids_endDriver _ _, rfl, rfl, fun k hk => by cases hk⟩
  unfold routeSearch
  by_cases h1 : f.op = 4 ∨ f.op = 25 ∨ f.op = 19
  · simp only [h1, if_true]
    exact key _ _
  · simp only [h1, if_false]
    by_cases h2 : f.op = 5
    · simp only [h2, if_true]
      by_cases h3 : f.good = true
      · simp only [h3, if_true]
        exact key _ _
      · simp only [h3]
        exact kend
    · simp only [h2, if_false]
      exact kend

theorem step_frame {s s' : St} {ob : Obs} (e : Ev) (hs : Conn.step s e = some (s', ob)) (hna : ∀ kind, e ≠ .alloc kind) :
    ids s'.ops = ids s.ops ∧ s'.last = s.last ∧ s'.N = s.N ∧ (∀ k ∈ s'.inUse, k ∈ s.inUse) := by
  cases e with
  | alloc k => exact absurd rfl (hna k)
  | _ =>
    simp only [Conn.step] at hs
    repeat' (split at hs)
    all_goals first
      | (cases hs; done)
      | (simp only [Option.some.injEq, Prod.mk.injEq] at hs
         obtain ⟨rfl, _⟩ := hs
         exact routeSearch_frame _ _ _)
      | (simp only [Option.some.injEq, Prod.mk.injEq] at hs
         obtain ⟨rfl, _⟩ := hs
         simp_all [ids_set, ids_modifyOp, ids_deliver, ids_dropSender, ids_dropSenderOpt, ids_endDriver, endDriver_last, endDriver_N, endDriver_inUse, mem_eraseId])
theorem nextId_nowrap (N last : Nat) (inUse : List Nat) (hin : ∀ k ∈ inUse, k ≤ last) (hl : last < N) :
    nextId N last inUse = .ok (last + 1) := by
  unfold nextId
  simp only [nextIdAux]
  have h1 : ¬ last = N := by omega
  simp only [h1, if_false]
  have h2 : last + 1 ∉ inUse := fun h => by have := hin _ h; omega
  simp [h2]

theorem alloc_frame {s s' : St} {ob : Obs} {kind : Kind} {k : Nat} (hn : nextId s.N s.last s.inUse = .ok k)
    (hs : Conn.step s (.alloc kind) = some (s', ob)) :
    s'.last = k ∧ s'.N = s.N ∧ s'.inUse = k :: s.inUse ∧ ids s'.ops = ids s.ops ++ [k] := by
  simp only [Conn.step, hn, Option.some.injEq, Prod.mk.injEq] at hs
  obtain ⟨rfl, _⟩ := hs
  exact ⟨rfl, rfl, rfl, by simp [ids]⟩

/-- all IDs seen so far are at most `last` -/
def Below (s : St) : Prop := (∀ x ∈ ids s.ops, x ≤ s.last) ∧ (∀ k ∈ s.inUse, k ≤ s.last)

def isAlloc : Ev → Bool
  | .alloc _ => true
  | _ => false

def allocCount (evs : List Ev) : Nat := evs.countP isAlloc

/-- the stronger freshness hypothesis used for uniqueness (C05): an ID handed out is not the ID of a
call that is between allocating its ID and having its request taken off the queue by the driver.
Like `FreshAt` it can only fail after a full wrap of the ID space (finding F13). -/
def FreshAt2 (s : St) (e : Ev) : Prop :=
  ∀ kind, e = .alloc kind → ∀ k, nextId s.N s.last s.inUse = .ok k →
    ∀ (i : Nat) (o : Op), s.ops[i]? = some o → (o.phase = .allocated ∨ i ∈ s.opQ) → o.id ≠ k

def FreshRun2 : St → List Ev → Prop
  | _, [] => True
  | s, e :: es => FreshAt2 s e ∧ FreshRun2 (next s e) es

theorem FreshAt2.weaken {s : St} {e : Ev} (h : FreshAt2 s e) : FreshAt s e :=
  fun kind he k hk i hi o ho => h kind he k hk i o ho (Or.inr hi)

theorem FreshRun2.weaken : ∀ (evs : List Ev) (s : St), FreshRun2 s evs → FreshRun s evs
  | [], _, _ => trivial
  | _ :: es, s, h => ⟨h.1.weaken, FreshRun2.weaken es _ h.2⟩

theorem freshRun2_of_nowrap (evs : List Ev) : ∀ s, Below s → s.last + allocCount evs ≤ s.N → FreshRun2 s evs := by
  induction evs with
  | nil => intro s _ _; trivial
  | cons e es ih =>
    intro s hb hn
    show FreshAt2 s e ∧ FreshRun2 (next s e) es
    by_cases ha : ∃ kind, e = .alloc kind
    · obtain ⟨kind, rfl⟩ := ha
      have hc : allocCount (Ev.alloc kind :: es) = allocCount es + 1 := by
        simp [allocCount, isAlloc, List.countP_cons]
      have hlt : s.last < s.N := by omega
      have hnext := nextId_nowrap s.N s.last s.inUse hb.2 hlt
      refine ⟨?_, ?_⟩
      · intro kind' _ k hk i o ho _
        rw [hnext] at hk
        simp only [AllocOut.ok.injEq] at hk
        subst hk
        have : o.id ∈ ids s.ops := by
          unfold ids; exact List.mem_map.mpr ⟨o, List.mem_of_getElem? ho, rfl⟩
        have := hb.1 _ this
        omega
      · cases hst : Conn.step s (.alloc kind) with
        | none => simp [Conn.step, hnext] at hst
        | some p =>
          obtain ⟨s', ob⟩ := p
          have : next s (.alloc kind) = s' := by simp only [next, hst]
          rw [this]
          obtain ⟨f1, f2, f3, f4⟩ := alloc_frame hnext hst
          apply ih
          · refine ⟨?_, ?_⟩
            · intro x hx
              rw [f4] at hx
              simp only [List.mem_append, List.mem_singleton] at hx
              rcases hx with hx | hx
              · have := hb.1 x hx; omega
              · omega
            · intro k hk
              rw [f3] at hk
              simp only [List.mem_cons] at hk
              rcases hk with hk | hk
              · omega
              · have := hb.2 k hk; omega
          · omega
    · have hna : ∀ kind, e ≠ .alloc kind := fun kind he => ha ⟨kind, he⟩
      have hc : allocCount (e :: es) = allocCount es := by
        cases e <;> simp_all [allocCount, isAlloc]
      refine ⟨fun kind he => absurd he (hna kind), ?_⟩
      cases hst : Conn.step s e with
      | none =>
        have : next s e = s := by simp only [next, hst]
        rw [this]; exact ih s hb (by omega)
      | some p =>
        obtain ⟨s', ob⟩ := p
        have : next s e = s' := by simp only [next, hst]
        rw [this]
        obtain ⟨f1, f2, f3, f4⟩ := step_frame e hst hna
        apply ih
        · exact ⟨by rw [f1, f2]; exact hb.1, fun k hk => by rw [f2]; exact hb.2 k (f4 k hk)⟩
        · rw [f2, f3]; omega

theorem freshRun_of_nowrap (evs : List Ev) (s : St) (hb : Below s) (hn : s.last + allocCount evs ≤ s.N) : FreshRun s evs :=
  FreshRun2.weaken evs s (freshRun2_of_nowrap evs s hb hn)

/-- every history with at most `N` allocations satisfies both freshness hypotheses -/
theorem freshRun2_init (N : Nat) (evs : List Ev) (h : allocCount evs ≤ N) : FreshRun2 (Conn.init N) evs := by
  apply freshRun2_of_nowrap
  · exact ⟨fun x hx => by simp [Conn.init, ids] at hx, fun k hk => by simp [Conn.init] at hk⟩
  · simp only [Conn.init]; omega

theorem freshRun_init (N : Nat) (evs : List Ev) (h : allocCount evs ≤ N) : FreshRun (Conn.init N) evs :=
  FreshRun2.weaken evs _ (freshRun2_init N evs h)

/-- every ID ever handed out is within `1..N` -/
def InRange (s : St) : Prop :=
  s.last ≤ s.N ∧ (s.last = 0 → s.inUse = []) ∧ ∀ x ∈ ids s.ops, 1 ≤ x ∧ x ≤ s.N

theorem inRange_run (evs : List Ev) : ∀ s, 1 ≤ s.N → InRange s → InRange (Conn.run s evs) ∧ (Conn.run s evs).N = s.N := by
  induction evs with
  | nil => intro s _ h; exact ⟨h, rfl⟩
  | cons e es ih =>
    intro s hN h
    rw [run_cons]
    cases hst : Conn.step s e with
    | none =>
      have : next s e = s := by simp only [next, hst]
      rw [this]; exact ih s hN h
    | some p =>
      obtain ⟨s', ob⟩ := p
      have : next s e = s' := by simp only [next, hst]
      rw [this]
      suffices hs' : InRange s' ∧ s'.N = s.N by
        obtain ⟨r1, r2⟩ := ih s' (by rw [hs'.2]; exact hN) hs'.1
        exact ⟨r1, r2.trans hs'.2⟩
      by_cases ha : ∃ kind, e = .alloc kind
      · obtain ⟨kind, rfl⟩ := ha
        cases hn : nextId s.N s.last s.inUse with
        | diverge => simp [Conn.step, hn] at hst
        | panic =>
          simp only [Conn.step, hn, Option.some.injEq, Prod.mk.injEq] at hst
          rw [← hst.1]; exact ⟨h, rfl⟩
        | ok k =>
          obtain ⟨f1, f2, f3, f4⟩ := alloc_frame hn hst
          have hk : 1 ≤ k ∧ k ≤ s.N := by
            by_cases h0 : s.last = 0
            · rw [h0, h.2.1 h0, nextId_fresh s.N hN] at hn
              simp only [AllocOut.ok.injEq] at hn
              omega
            · have hl : 1 ≤ s.last := by omega
              rw [nextId_eq s.N s.last s.inUse hl h.1] at hn
              cases hf : firstFree s.inUse (candidates s.N s.last) with
              | none => rw [hf] at hn; simp [outOf] at hn
              | some a =>
                rw [hf] at hn
                simp only [outOf, AllocOut.ok.injEq] at hn
                subst hn
                have hmem : a ∈ candidates s.N s.last := List.mem_of_find?_eq_some hf
                exact (mem_candidates s.N s.last a h.1).mp hmem
          refine ⟨⟨by rw [f1, f2]; exact hk.2, fun h0 => by rw [f1] at h0; omega, ?_⟩, f2⟩
          intro x hx
          rw [f4, f2] at *
          simp only [List.mem_append, List.mem_singleton] at hx
          rcases hx with hx | hx
          · exact h.2.2 x hx
          · rw [hx]; exact hk
      · have hna : ∀ kind, e ≠ .alloc kind := fun kind he => ha ⟨kind, he⟩
        obtain ⟨f1, f2, f3, f4⟩ := step_frame e hst hna
        refine ⟨⟨by rw [f2, f3]; exact h.1, fun h0 => ?_, by rw [f1, f3]; exact h.2.2⟩, f3⟩
        rw [f2] at h0
        have := h.2.1 h0
        cases hi : s'.inUse with
        | nil => rfl
        | cons a l => have := f4 a (by rw [hi]; simp); rw [h.2.1 h0] at this; cases this

end Ldap3V.Conn

/- Completeness of search delivery: what each kind of step does to a channel, its registration and
the op queue (`Calm`, `RegC`, `AppC`), and preservation of the side invariants `KeyU`, `QInv`. -/
import Ldap3V.Lemmas.ConnComplete
import Ldap3V.Lemmas.ConnAcct
namespace Ldap3V.Conn

/-! ### how the op list moves -/

/-- existing operations keep their ID, `taken` is final, and outside `X` the phase is unchanged -/
def FwdX (X : Nat → Prop) (ops ops' : List Op) : Prop :=
  ∀ (j : Nat) (o : Op), ops[j]? = some o → ∃ o' : Op, ops'[j]? = some o' ∧ o'.id = o.id ∧
    (o.phase = .taken → o'.phase = .taken) ∧ (¬ X j → o'.phase = o.phase)

theorem FwdX.fwd {X : Nat → Prop} {a b : List Op} (h : FwdX X a b) : Fwd a b := by
  intro j o ho
  obtain ⟨o', ho', e, p, _⟩ := h j o ho
  exact ⟨o', ho', e, p⟩

theorem FwdX.refl (X : Nat → Prop) (ops : List Op) : FwdX X ops ops := fun _ o h => ⟨o, h, rfl, fun h => h, fun _ => rfl⟩

theorem FwdX.trans {X : Nat → Prop} {a b c : List Op} (h1 : FwdX X a b) (h2 : FwdX X b c) : FwdX X a c := by
  intro j o ho
  obtain ⟨o1, ho1, e1, p1, q1⟩ := h1 j o ho
  obtain ⟨o2, ho2, e2, p2, q2⟩ := h2 j o1 ho1
  exact ⟨o2, ho2, e2.trans e1, fun h => p2 (p1 h), fun h => (q2 h).trans (q1 h)⟩

theorem FwdX.weaken {X Y : Nat → Prop} {a b : List Op} (h : FwdX X a b) (hxy : ∀ j, X j → Y j) : FwdX Y a b := by
  intro j o ho
  obtain ⟨o', ho', e, p, q⟩ := h j o ho
  exact ⟨o', ho', e, p, fun hn => q (fun hx => hn (hxy j hx))⟩

/-- a field update that keeps ID and phase -/
theorem fwdX_modify (X : Nat → Prop) (ops : List Op) (i : Nat) (g : Op → Op)
    (hg : ∀ o, (g o).id = o.id ∧ (g o).phase = o.phase) : FwdX X ops (modifyOp ops i g) := by
  intro j o ho
  rw [modifyOp_get]
  split
  · next hj => subst hj; rw [ho]; exact ⟨g o, rfl, (hg o).1, fun h => by rw [(hg o).2]; exact h, fun _ => (hg o).2⟩
  · exact ⟨o, ho, rfl, fun h => h, fun _ => rfl⟩

theorem fwdX_set (X : Nat → Prop) (ops : List Op) (i : Nat) (o o' : Op) (ho : ops[i]? = some o)
    (hid : o'.id = o.id) (hph : o'.phase = o.phase ∨ (X i ∧ (o.phase = .taken → o'.phase = .taken))) :
    FwdX X ops (ops.set i o') := by
  intro j x hx
  rw [get_set o' j ho]
  split
  · next hj =>
    subst hj
    rw [ho] at hx; cases hx
    refine ⟨o', rfl, hid, ?_, ?_⟩
    · rcases hph with h | ⟨_, h⟩
      · intro ht; rw [h]; exact ht
      · exact h
    · rcases hph with h | ⟨hx, _⟩
      · exact fun _ => h
      · exact fun hn => absurd hx hn
  · exact ⟨x, hx, rfl, fun h => h, fun _ => rfl⟩

theorem fwdX_dropSender (X : Nat → Prop) (ops : List Op) (i : Nat) : FwdX X ops (dropSender ops i) := by
  apply fwdX_modify
  intro o; split <;> exact ⟨rfl, rfl⟩

theorem fwdX_dropSenderOpt (X : Nat → Prop) (ops : List Op) (x : Option Nat) : FwdX X ops (dropSenderOpt ops x) := by
  cases x with
  | none => exact FwdX.refl _ _
  | some i => exact fwdX_dropSender X ops i

theorem fwdX_ack (X : Nat → Prop) (ops : List Op) (i : Nat) :
    FwdX X ops (modifyOp ops i fun o => { o with mail := .ack }) :=
  fwdX_modify X ops i _ (fun _ => ⟨rfl, rfl⟩)

theorem fwdX_endDriver (s : St) (how : Drv) : FwdX (fun j => j ∈ s.opQ) s.ops (endDriver s how).ops := by
  intro j o ho
  rw [endDriver_get, ho]
  refine ⟨_, rfl, ?_, ?_, ?_⟩
  · simp only; split
    · rfl
    · split <;> rfl
  · intro ht; simp only; split
    · rfl
    · split <;> exact ht
  · intro hn
    have : s.opQ.contains j = false := by simpa using hn
    simp only [this, Bool.false_eq_true, if_false]
    split <;> rfl

theorem fwdX_endDriver' (s : St) (how : Drv) (Y : Nat → Prop) (ops0 : List Op) (h0 : s.ops = ops0)
    (hY : ∀ j, j ∈ s.opQ → Y j) : FwdX Y ops0 (endDriver s how).ops := by
  subst h0; exact (fwdX_endDriver s how).weaken hY

/-! ### how the channel list moves -/

/-- no channel is created, no items are added, no receiver comes back to life -/
def ChLe (cs cs' : List Chan) : Prop :=
  cs'.length = cs.length ∧
  ∀ (c : Nat) (ch' : Chan), cs'[c]? = some ch' → ∃ ch, cs[c]? = some ch ∧ ch'.items = ch.items ∧ ch'.opIdx = ch.opIdx ∧
    (ch'.rxAlive = true → ch.rxAlive = true)

theorem ChLe.refl (cs : List Chan) : ChLe cs cs := ⟨rfl, fun _ ch h => ⟨ch, h, rfl, rfl, fun h => h⟩⟩

theorem ChLe.keep {cs cs' : List Chan} (h : ChLe cs cs') {c : Nat} {ch : Chan} (hc : cs[c]? = some ch) :
    ∃ ch', cs'[c]? = some ch' ∧ ch'.opIdx = ch.opIdx := by
  have hlt : c < cs'.length := by rw [h.1]; exact (List.getElem?_eq_some_iff.mp hc).1
  obtain ⟨ch2, hc2, _, hx, _⟩ := h.2 c cs'[c] (List.getElem?_eq_getElem hlt)
  rw [hc] at hc2; cases hc2
  exact ⟨cs'[c], List.getElem?_eq_getElem hlt, hx⟩

theorem chLe_set (cs : List Chan) (c : Nat) (ch ch' : Chan) (hc : cs[c]? = some ch) (hi : ch'.items = ch.items)
    (hx : ch'.opIdx = ch.opIdx) (ha : ch'.rxAlive = true → ch.rxAlive = true) : ChLe cs (cs.set c ch') := by
  have hlt : c < cs.length := (List.getElem?_eq_some_iff.mp hc).1
  refine ⟨List.length_set, ?_⟩
  intro d chd hd
  rw [List.getElem?_set] at hd
  split at hd
  · next hcd =>
    subst hcd
    simp only [Option.some.injEq] at hd
    subst hd
    exact ⟨ch, hc, hi, hx, ha⟩
  · exact ⟨chd, hd, rfl, rfl, fun h => h⟩

theorem chLe_dropRx (cs : List Chan) (oc : Option Nat) : ChLe cs (dropRxOf cs oc) := by
  refine ⟨dropRx_length cs oc, ?_⟩
  intro d chd hd
  cases oc with
  | none => exact ⟨chd, hd, rfl, rfl, fun h => h⟩
  | some c =>
    simp only [dropRxOf, modifyChan_get] at hd
    split at hd
    · next hdc =>
      subst hdc
      cases hcd : cs[d]? with
      | none => rw [hcd] at hd; cases hd
      | some ch =>
        rw [hcd] at hd
        simp only [Option.map_some, Option.some.injEq] at hd
        subst hd
        exact ⟨ch, rfl, rfl, rfl, fun h => by cases h⟩
    · exact ⟨chd, hd, rfl, rfl, fun h => h⟩

/-! ### calm steps -/

/-- a step that concerns no channel at all -/
structure Calm (X : Nat → Prop) (s s' : St) : Prop where
  chans : ChLe s.chans s'.chans
  sm : s'.searchmap.Sublist s.searchmap
  log : ∃ ex, consumed s' = consumed s ++ ex ∧ ∀ p ∈ s'.searchmap, ∀ f ∈ ex, f.id ≠ (p.1 : Int)
  ops : FwdX X s.ops s'.ops

theorem Calm.quiet {X : Nat → Prop} {s s' : St} (h : Calm X s s') (c : Nat) : Quiet c s s' := by
  refine ⟨fun ch' hc' => Or.inl (h.chans.2 c ch' hc'), fun ch hc => h.chans.keep hc, fun k hk => h.sm.subset hk, ?_, h.ops.fwd⟩
  obtain ⟨ex, e1, e2⟩ := h.log
  exact ⟨ex, e1, fun k hk => e2 (k, c) hk⟩

theorem Calm.keyU {X : Nat → Prop} {s s' : St} (h : Calm X s s') (hk : KeyU s.searchmap) : KeyU s'.searchmap :=
  List.Pairwise.sublist h.sm hk

theorem QInv.of_fwdX {X : Nat → Prop} {s s' : St} (hq : QInv s) (hops : FwdX X s.ops s'.ops)
    (hsub : s'.opQ.Sublist s.opQ) (hX : ∀ j ∈ s'.opQ, ¬ X j) : QInv s' := by
  refine ⟨fun j hj => ?_, hq.nodup.sublist hsub⟩
  obtain ⟨o, ho, hph⟩ := hq.qPhase j (hsub.subset hj)
  obtain ⟨o', ho', _, _, hsame⟩ := hops j o ho
  exact ⟨o', ho', by rw [hsame (hX j hj)]; exact hph⟩

/-- what one step does, as far as completeness is concerned -/
structure StepSum (s s' : St) : Prop where
  keyU : KeyU s'.searchmap
  qInv : QInv s'
  cls : ∀ c, Quiet c s s' ∨ RegC c s s' ∨ AppC c s s'

theorem StepSum.of_calm {X : Nat → Prop} {s s' : St} (h : Calm X s s') (hk : KeyU s.searchmap) (hq : QInv s)
    (hsub : s'.opQ.Sublist s.opQ) (hX : ∀ j ∈ s'.opQ, ¬ X j) : StepSum s s' :=
  ⟨h.keyU hk, hq.of_fwdX h.ops hsub hX, fun c => Or.inl (h.quiet c)⟩

/-- the usual shape: nothing read from the server -/
theorem Calm.simple {X : Nat → Prop} {s s' : St} (hc : ChLe s.chans s'.chans) (hsm : s'.searchmap.Sublist s.searchmap)
    (hl : consumed s' = consumed s) (hops : FwdX X s.ops s'.ops) : Calm X s s' :=
  ⟨hc, hsm, ⟨[], by rw [hl, List.append_nil], fun _ _ _ hf => by cases hf⟩, hops⟩

theorem erase_sublist (m : List (Nat × Nat)) (k : Int) : (erase m k).Sublist m := List.filter_sublist

theorem Calm.endDriver (s : St) (how : Drv) : Calm (fun j => j ∈ s.opQ) s (Conn.endDriver s how) :=
  Calm.simple (ChLe.refl _) (List.nil_sublist _) rfl (fwdX_endDriver s how)

theorem StepSum.endDriver {s : St} (hk : KeyU s.searchmap) (hq : QInv s) (how : Drv) : StepSum s (Conn.endDriver s how) :=
  StepSum.of_calm (Calm.endDriver s how) hk hq (List.nil_sublist _) (fun _ hj => by cases hj)

/-- a step that touches neither `ops`, `chans`, `searchmap`, `opQ` nor what has been read -/
theorem StepSum.same {s s' : St} (hk : KeyU s.searchmap) (hq : QInv s) (ho : s'.ops = s.ops) (hc : s'.chans = s.chans)
    (hsm : s'.searchmap = s.searchmap) (hl : consumed s' = consumed s) (hopq : s'.opQ = s.opQ) : StepSum s s' :=
  StepSum.of_calm (X := fun _ => False)
    (Calm.simple (by rw [hc]; exact ChLe.refl _) (by rw [hsm]; exact List.Sublist.refl _) hl (by rw [ho]; exact FwdX.refl _ _))
    hk hq (by rw [hopq]; exact List.Sublist.refl _) (fun _ _ h => h)

end Ldap3V.Conn

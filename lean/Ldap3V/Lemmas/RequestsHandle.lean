/- The handle model against the one-shot law. -/
import Ldap3V.Spec.Requests
namespace Ldap3V
open Spec

/-! ### the model's local refusals are the documented ones -/

theorem rejected_eq (r : Request) : rejected r = mustReject r := by
  cases r with
  | add dn attrs =>
    by_cases h : (attrs.any fun a => a.2.isEmpty) = true <;> simp [rejected, issue, anyEmpty, mustReject, h]
  | modify dn mods =>
    by_cases h : (mods.any fun m => m.1 == .add && m.2.2.isEmpty) = true <;>
      simp [rejected, issue, anyAddEmpty, mustReject, h]
  | extended name val => cases name <;> simp [rejected, issue, mustReject]
  | _ => simp [rejected, issue, mustReject]

theorem search_not_refused (r : Request) (h : r.isSearch = true) : mustReject r = false := by
  cases r <;> simp [Request.isSearch] at h <;> simp [mustReject]

theorem withOpts_not_search (r : Request) (o : SearchOpts) (h : r.isSearch = false) : r.withOpts o = r := by
  cases r <;> simp [Request.isSearch] at h <;> simp [Request.withOpts]

/-- what one accepted operation call does, in one formula -/
def issued (s : HState) (h : Nat) (r : Request) : HState :=
  { handles := setHandle s.handles h {},
    lastId := s.lastId + 1,
    wire := s.wire ++ [⟨s.lastId + 1,
      r.withOpts (match (s.handles h).searchOpts with | some o => o | none => SearchOpts.default),
      (s.handles h).controls, (s.handles h).timeout⟩] }

theorem panics_mustReject (r : Request) (h : panics r = true) : mustReject r = true := by
  cases r with
  | extended name val => cases name <;> simp [panics] at h <;> simp [mustReject]
  | _ => simp [panics] at h

theorem step_op (s : HState) (h : Nat) (r : Request) :
    step s (.op h r) =
      if mustReject r then (if panics r then s else { s with handles := setHandle s.handles h {} })
      else issued s h r := by
  by_cases hs : r.isSearch = true
  · simp [step, hs, search_not_refused r hs, searchCall, opCall, issued]
    cases (s.handles h).searchOpts <;> rfl
  · have hs' : r.isSearch = false := by simpa using hs
    have hw := withOpts_not_search r (match (s.handles h).searchOpts with | some o => o | none => SearchOpts.default) hs'
    cases r with
    | add dn attrs =>
      by_cases e : (attrs.any fun a => a.2.isEmpty) = true <;>
        simp [step, Request.isSearch, issue, anyEmpty, mustReject, panics, e, opCall, issued, Request.withOpts]
    | modify dn mods =>
      by_cases e : (mods.any fun m => m.1 == .add && m.2.2.isEmpty) = true <;>
        simp [step, Request.isSearch, issue, anyAddEmpty, mustReject, panics, e, opCall, issued, Request.withOpts]
    | extended name val =>
      cases name <;> simp [step, Request.isSearch, issue, mustReject, panics, opCall, issued, Request.withOpts]
    | search => simp [Request.isSearch] at hs'
    | _ => simp [step, Request.isSearch, issue, mustReject, panics, opCall, issued, Request.withOpts]

/-! ### invariant: the handles hold exactly what is pending -/

abbrev asBuilt := consumesUnlessPanic

def Inv (pre : List HandleCall) (s : HState) : Prop := ∀ h, s.handles h = pendingHandle asBuilt h pre

theorem step_inv (pre : List HandleCall) (s : HState) (c : HandleCall) (hI : Inv pre s) :
    Inv (c :: pre) (step s c) := by
  intro h
  have hh := hI h
  cases c with
  | withControls h' cs =>
    by_cases e : h = h'
    · subst e; simp [step, setHandle, pendingHandle, pending, setsControls, setsTimeout, setsSearchOpts, resets, hh]
    · have e' : ¬ h' = h := fun x => e x.symm
      simp [step, setHandle, pendingHandle, pending, setsControls, setsTimeout, setsSearchOpts, resets, hh, e, e']
  | withTimeout h' t =>
    by_cases e : h = h'
    · subst e; simp [step, setHandle, pendingHandle, pending, setsControls, setsTimeout, setsSearchOpts, resets, hh]
    · have e' : ¬ h' = h := fun x => e x.symm
      simp [step, setHandle, pendingHandle, pending, setsControls, setsTimeout, setsSearchOpts, resets, hh, e, e']
  | withSearchOptions h' o =>
    by_cases e : h = h'
    · subst e; simp [step, setHandle, pendingHandle, pending, setsControls, setsTimeout, setsSearchOpts, resets, hh]
    · have e' : ¬ h' = h := fun x => e x.symm
      simp [step, setHandle, pendingHandle, pending, setsControls, setsTimeout, setsSearchOpts, resets, hh, e, e']
  | clone src dst =>
    by_cases e : h = dst
    · subst e; simp [step, setHandle, pendingHandle, pending, setsControls, setsTimeout, setsSearchOpts, resets]
    · have e' : ¬ dst = h := fun x => e x.symm
      simp [step, setHandle, pendingHandle, pending, setsControls, setsTimeout, setsSearchOpts, resets, hh, e, e']
  | searchBadFilter h' =>
    by_cases e : h = h'
    · subst e; simp [step, setHandle, pendingHandle, pending, setsControls, setsTimeout, setsSearchOpts, resets]
    · have e' : ¬ h' = h := fun x => e x.symm
      simp [step, setHandle, pendingHandle, pending, setsControls, setsTimeout, setsSearchOpts, resets, hh, e, e']
  | op h' r =>
    rw [step_op]
    by_cases hp : panics r = true
    · simp [panics_mustReject r hp, hp, pendingHandle, pending, setsControls, setsTimeout, setsSearchOpts, resets,
        consumesUnlessPanic, hh]
    · have hp' : panics r = false := by simpa using hp
      by_cases e : h = h'
      · subst e
        by_cases hr : mustReject r = true <;>
          simp [hr, hp', issued, setHandle, pendingHandle, pending, setsControls, setsTimeout, setsSearchOpts, resets,
            consumesUnlessPanic]
      · have e' : ¬ h' = h := fun x => e x.symm
        by_cases hr : mustReject r = true <;>
          simp [hr, hp', issued, setHandle, pendingHandle, pending, setsControls, setsTimeout, setsSearchOpts, resets,
            consumesUnlessPanic, hh, e, e']

theorem step_wire (pre : List HandleCall) (s : HState) (c : HandleCall) (rest : List HandleCall) (hI : Inv pre s) :
    (step s c).wire ++ expectedFrom asBuilt (c :: pre) (step s c).lastId rest =
      s.wire ++ expectedFrom asBuilt pre s.lastId (c :: rest) := by
  cases c with
  | op h r =>
    rw [step_op]
    have hh := hI h
    by_cases hr : mustReject r = true
    · by_cases hp : panics r = true <;> simp [hr, hp, expectedFrom]
    · have hr' : mustReject r = false := by simpa using hr
      simp [hr', issued, expectedFrom, hh, pendingHandle]
      cases pending asBuilt setsSearchOpts h pre <;> rfl
  | _ => simp [step, expectedFrom]

theorem run_gen (rest : List HandleCall) : ∀ (pre : List HandleCall) (s : HState), Inv pre s →
    (rest.foldl step s).wire = s.wire ++ expectedFrom asBuilt pre s.lastId rest ∧
    Inv (rest.reverse ++ pre) (rest.foldl step s) := by
  induction rest with
  | nil => intro pre s hI; simp [expectedFrom, hI]
  | cons c rest ih =>
    intro pre s hI
    have h1 := step_inv pre s c hI
    obtain ⟨ihw, ihi⟩ := ih (c :: pre) (step s c) h1
    refine ⟨?_, ?_⟩
    · simp only [List.foldl_cons]; rw [ihw, step_wire pre s c rest hI]
    · simpa using ihi

theorem init_inv : Inv [] HState.init := by
  intro h; simp [HState.init, pendingHandle, pending]

/-- on every script, panicking calls included -/
theorem run_asBuilt (calls : List HandleCall) :
    (runHandle calls).wire = expectedFrom asBuilt [] 0 calls ∧
    ∀ h, (runHandle calls).handles h = pendingHandle asBuilt h calls.reverse := by
  have := run_gen calls [] HState.init init_inv
  simpa [runHandle, HState.init, Inv] using this

/-! ### without panicking calls this is the law itself -/

theorem resets_agree (h : Nat) (c : HandleCall) (hc : namedExop c = true) :
    resets (fun _ => true) h c = resets asBuilt h c := by
  cases c with
  | op h' r =>
    have : panics r = false := by simpa [namedExop] using hc
    simp [resets, consumesUnlessPanic, this]
  | _ => simp [resets]

theorem pending_agree {α : Type} (set : HandleCall → Option (Nat × α)) (h : Nat) (pre : List HandleCall)
    (hc : ∀ c ∈ pre, namedExop c = true) :
    pending (fun _ => true) set h pre = pending asBuilt set h pre := by
  induction pre with
  | nil => simp [pending]
  | cons c older ih =>
    have ih' := ih (fun x hx => hc x (by simp [hx]))
    simp only [pending, ih', resets_agree h c (hc c (by simp))]

theorem pendingHandle_agree (h : Nat) (pre : List HandleCall) (hc : ∀ c ∈ pre, namedExop c = true) :
    pendingHandle (fun _ => true) h pre = pendingHandle asBuilt h pre := by
  simp [pendingHandle, pending_agree _ h pre hc]

theorem expectedFrom_agree (rest : List HandleCall) : ∀ (pre : List HandleCall) (n : Nat),
    (∀ c ∈ pre, namedExop c = true) → (∀ c ∈ rest, namedExop c = true) →
    expectedFrom (fun _ => true) pre n rest = expectedFrom asBuilt pre n rest := by
  induction rest with
  | nil => intro pre n _ _; simp [expectedFrom]
  | cons c rest ih =>
    intro pre n hp hr
    have hp' : ∀ x ∈ c :: pre, namedExop x = true := by
      intro x hx
      rcases List.mem_cons.mp hx with rfl | hx
      · exact hr _ (by simp)
      · exact hp x hx
    have hr' : ∀ x ∈ rest, namedExop x = true := fun x hx => hr x (by simp [hx])
    cases c with
    | op h r =>
      simp only [expectedFrom, pending_agree _ h pre hp, ih _ _ hp' hr']
    | _ => simp only [expectedFrom, ih _ _ hp' hr']

/-! ### every expected message is an accepted request with a positive ID -/

theorem mustReject_withOpts (r : Request) (o : SearchOpts) : mustReject (r.withOpts o) = mustReject r := by
  cases r <;> simp [Request.withOpts, mustReject]

theorem expectedFrom_sound (consumes : Request → Bool) (rest : List HandleCall) : ∀ (pre : List HandleCall) (n : Nat)
    (m : Sent), m ∈ expectedFrom consumes pre n rest → mustReject m.req = false ∧ 1 ≤ m.id := by
  induction rest with
  | nil => intro pre n m hm; simp [expectedFrom] at hm
  | cons c rest ih =>
    intro pre n m hm
    cases c with
    | op h r =>
      simp only [expectedFrom] at hm
      by_cases hr : mustReject r = true
      · simp only [hr, if_true] at hm; exact ih _ _ m hm
      · have hr' : mustReject r = false := by simpa using hr
        simp only [hr', Bool.false_eq_true, if_false, List.mem_cons] at hm
        rcases hm with rfl | hm
        · exact ⟨by simp [mustReject_withOpts, hr'], by simp⟩
        · exact ih _ _ m hm
    | _ => simp only [expectedFrom] at hm; exact ih _ _ m hm

end Ldap3V

/- The handle model against the one-shot law. -/
import Ldap3V.Spec.Requests
namespace Ldap3V
open Spec

/-! ### the model's local refusals are the documented ones -/

theorem rejected_eq (r : Request) : rejected r = mustReject r := by
  cases r with
  | add dn attrs =>
    by_cases h : (attrs.any fun a => a.2.isEmpty) = true <;> simp [rejected, issue, anyEmpty, mustReject, h]
  | modify dn mods =>
    by_cases h : (mods.any fun m => m.1 == .add && m.2.2.isEmpty) = true <;>
      simp [rejected, issue, anyAddEmpty, mustReject, h]
  | extended name val => cases name <;> simp [rejected, issue, mustReject]
  | _ => simp [rejected, issue, mustReject]

theorem search_not_refused (r : Request) (h : r.isSearch = true) : mustReject r = false := by
  cases r <;> simp [Request.isSearch] at h <;> simp [mustReject]

theorem withOpts_not_search (r : Request) (o : SearchOpts) (h : r.isSearch = false) : r.withOpts o = r := by
  cases r <;> simp [Request.isSearch] at h <;> simp [Request.withOpts]

/-- what one operation call does, in one formula -/
def issued (s : HState) (h : Nat) (r : Request) : HState :=
  { handles := setHandle s.handles h {},
    lastId := s.lastId + 1,
    wire := s.wire ++ [⟨s.lastId + 1,
      r.withOpts (match (s.handles h).searchOpts with | some o => o | none => SearchOpts.default),
      (s.handles h).controls, (s.handles h).timeout⟩] }

theorem step_op (s : HState) (h : Nat) (r : Request) :
    step s (.op h r) = if mustReject r then s else issued s h r := by
  by_cases hs : r.isSearch = true
  · simp [step, hs, search_not_refused r hs, searchCall, opCall, issued]
    cases (s.handles h).searchOpts <;> rfl
  · have hs' : r.isSearch = false := by simpa using hs
    have hw := withOpts_not_search r (match (s.handles h).searchOpts with | some o => o | none => SearchOpts.default) hs'
    have hr := rejected_eq r
    simp only [step, hs', issued, hw]
    unfold rejected at hr
    cases hi : issue r with
    | send t => rw [hi] at hr; simp [← hr, opCall]
    | errAddNoValues => rw [hi] at hr; simp [← hr]
    | panic => rw [hi] at hr; simp [← hr]

/-! ### invariant: the handles hold exactly what is pending (as-built reading) -/

abbrev asBuilt := consumesUnlessRefused

def Inv (pre : List HandleCall) (s : HState) : Prop := ∀ h, s.handles h = pendingHandle asBuilt h pre

theorem step_inv (pre : List HandleCall) (s : HState) (c : HandleCall) (hI : Inv pre s) :
    Inv (c :: pre) (step s c) := by
  intro h
  have hh := hI h
  cases c with
  | withControls h' cs =>
    have hh' := hI h'
    by_cases e : h = h'
    · subst e; simp [step, setHandle, pendingHandle, pending, setsControls, setsTimeout, setsSearchOpts, resets, hh]
    · have e' : ¬ h' = h := fun x => e x.symm
      simp [step, setHandle, pendingHandle, pending, setsControls, setsTimeout, setsSearchOpts, resets, hh, e, e']
  | withTimeout h' t =>
    by_cases e : h = h'
    · subst e; simp [step, setHandle, pendingHandle, pending, setsControls, setsTimeout, setsSearchOpts, resets, hh]
    · have e' : ¬ h' = h := fun x => e x.symm
      simp [step, setHandle, pendingHandle, pending, setsControls, setsTimeout, setsSearchOpts, resets, hh, e, e']
  | withSearchOptions h' o =>
    by_cases e : h = h'
    · subst e; simp [step, setHandle, pendingHandle, pending, setsControls, setsTimeout, setsSearchOpts, resets, hh]
    · have e' : ¬ h' = h := fun x => e x.symm
      simp [step, setHandle, pendingHandle, pending, setsControls, setsTimeout, setsSearchOpts, resets, hh, e, e']
  | clone src dst =>
    by_cases e : h = dst
    · subst e; simp [step, setHandle, pendingHandle, pending, setsControls, setsTimeout, setsSearchOpts, resets]
    · have e' : ¬ dst = h := fun x => e x.symm
      simp [step, setHandle, pendingHandle, pending, setsControls, setsTimeout, setsSearchOpts, resets, hh, e, e']
  | searchBadFilter h' =>
    by_cases e : h = h'
    · subst e; simp [step, setHandle, pendingHandle, pending, setsControls, setsTimeout, setsSearchOpts, resets]
    · have e' : ¬ h' = h := fun x => e x.symm
      simp [step, setHandle, pendingHandle, pending, setsControls, setsTimeout, setsSearchOpts, resets, hh, e, e']
  | op h' r =>
    rw [step_op]
    by_cases hr : mustReject r = true
    · simp [hr, pendingHandle, pending, setsControls, setsTimeout, setsSearchOpts, resets, consumesUnlessRefused, hh]
    · have hr' : mustReject r = false := by simpa using hr
      by_cases e : h = h'
      · subst e
        simp [hr', issued, setHandle, pendingHandle, pending, setsControls, setsTimeout, setsSearchOpts, resets,
          consumesUnlessRefused]
      · have e' : ¬ h' = h := fun x => e x.symm
        simp [hr', issued, setHandle, pendingHandle, pending, setsControls, setsTimeout, setsSearchOpts, resets,
          consumesUnlessRefused, hh, e, e']

theorem step_wire (pre : List HandleCall) (s : HState) (c : HandleCall) (rest : List HandleCall) (hI : Inv pre s) :
    (step s c).wire ++ expectedFrom asBuilt (c :: pre) (step s c).lastId rest =
      s.wire ++ expectedFrom asBuilt pre s.lastId (c :: rest) := by
  cases c with
  | op h r =>
    rw [step_op]
    have hh := hI h
    by_cases hr : mustReject r = true
    · simp [hr, expectedFrom]
    · have hr' : mustReject r = false := by simpa using hr
      simp [hr', issued, expectedFrom, hh, pendingHandle]
      cases pending asBuilt setsSearchOpts h pre <;> rfl
  | _ => simp [step, expectedFrom]

theorem run_gen (rest : List HandleCall) : ∀ (pre : List HandleCall) (s : HState), Inv pre s →
    (rest.foldl step s).wire = s.wire ++ expectedFrom asBuilt pre s.lastId rest ∧
    Inv (rest.reverse ++ pre) (rest.foldl step s) := by
  induction rest with
  | nil => intro pre s hI; simp [expectedFrom, hI]
  | cons c rest ih =>
    intro pre s hI
    have h1 := step_inv pre s c hI
    obtain ⟨ihw, ihi⟩ := ih (c :: pre) (step s c) h1
    refine ⟨?_, ?_⟩
    · simp only [List.foldl_cons]; rw [ihw, step_wire pre s c rest hI]
    · simpa using ihi

theorem init_inv : Inv [] HState.init := by
  intro h; simp [HState.init, pendingHandle, pending]

/-- the model does exactly what the weaker law says, on every script -/
theorem run_asBuilt (calls : List HandleCall) :
    (runHandle calls).wire = expectedFrom asBuilt [] 0 calls ∧
    ∀ h, (runHandle calls).handles h = pendingHandle asBuilt h calls.reverse := by
  have := run_gen calls [] HState.init init_inv
  simpa [runHandle, HState.init, Inv] using this

/-! ### where the two readings coincide -/

theorem clean_suffix (a b : List HandleCall) (h : NoModifierAtRefusal (a ++ b)) : NoModifierAtRefusal b := by
  induction a with
  | nil => simpa using h
  | cons c a ih => exact ih h.1

theorem pending_agree {α : Type} (set : HandleCall → Option (Nat × α))
    (hset : ∀ h older, pendingHandle (fun _ => true) h older = {} → pending (fun _ => true) set h older = none)
    (h : Nat) (pre : List HandleCall) (hc : NoModifierAtRefusal pre) :
    pending (fun _ => true) set h pre = pending asBuilt set h pre := by
  induction pre with
  | nil => simp [pending]
  | cons c older ih =>
    have ih' := ih hc.1
    simp only [pending]
    cases hs : set c with
    | some p => simp [ih']
    | none =>
      simp only []
      cases c with
      | op h' r =>
        by_cases e : h' = h
        · by_cases hr : mustReject r = true
          · have hz := hset h older (by have := hc.2; simp only [] at this; exact e ▸ this hr)
            simp [resets, e, consumesUnlessRefused, hr, ← ih', hz]
          · have hr' : mustReject r = false := by simpa using hr
            simp [resets, e, consumesUnlessRefused, hr']
        · simp [resets, e, ih']
      | _ => simp [resets, ih']

theorem pendingHandle_agree (h : Nat) (pre : List HandleCall) (hc : NoModifierAtRefusal pre) :
    pendingHandle (fun _ => true) h pre = pendingHandle asBuilt h pre := by
  have a := pending_agree setsControls (fun h older e => by
    have := congrArg Handle.controls e; simpa [pendingHandle] using this) h pre hc
  have b := pending_agree setsTimeout (fun h older e => by
    have := congrArg Handle.timeout e; simpa [pendingHandle] using this) h pre hc
  have c := pending_agree setsSearchOpts (fun h older e => by
    have := congrArg Handle.searchOpts e; simpa [pendingHandle] using this) h pre hc
  simp [pendingHandle, a, b, c]

theorem expectedFrom_agree (rest : List HandleCall) : ∀ (pre : List HandleCall) (n : Nat),
    NoModifierAtRefusal (rest.reverse ++ pre) →
    expectedFrom (fun _ => true) pre n rest = expectedFrom asBuilt pre n rest := by
  induction rest with
  | nil => intro pre n _; simp [expectedFrom]
  | cons c rest ih =>
    intro pre n hc
    have hc' : NoModifierAtRefusal (rest.reverse ++ (c :: pre)) := by simpa using hc
    have hpre : NoModifierAtRefusal pre := (clean_suffix _ _ hc').1
    cases c with
    | op h r =>
      have e := pendingHandle_agree h pre hpre
      have e1 := congrArg Handle.controls e
      have e2 := congrArg Handle.timeout e
      have e3 := congrArg Handle.searchOpts e
      simp only [pendingHandle] at e1 e2 e3
      simp only [expectedFrom, e1, e2, e3, ih _ _ hc']
    | _ => simp only [expectedFrom, ih _ _ hc']

/-! ### every expected message is an accepted request with a positive ID -/

theorem mustReject_withOpts (r : Request) (o : SearchOpts) : mustReject (r.withOpts o) = mustReject r := by
  cases r <;> simp [Request.withOpts, mustReject]

theorem expectedFrom_sound (consumes : Request → Bool) (rest : List HandleCall) : ∀ (pre : List HandleCall) (n : Nat)
    (m : Sent), m ∈ expectedFrom consumes pre n rest → mustReject m.req = false ∧ 1 ≤ m.id := by
  induction rest with
  | nil => intro pre n m hm; simp [expectedFrom] at hm
  | cons c rest ih =>
    intro pre n m hm
    cases c with
    | op h r =>
      simp only [expectedFrom] at hm
      by_cases hr : mustReject r = true
      · simp only [hr, if_true] at hm; exact ih _ _ m hm
      · have hr' : mustReject r = false := by simpa using hr
        simp only [hr', Bool.false_eq_true, if_false, List.mem_cons] at hm
        rcases hm with rfl | hm
        · exact ⟨by simp [mustReject_withOpts, hr'], by simp⟩
        · exact ih _ _ m hm
    | _ => simp only [expectedFrom] at hm; exact ih _ _ m hm

/-! ### witnesses against the law as stated -/

/-- the witness on which the law fails: controls set before an `add` that is refused with `AddNoValues`
are still on the handle and go out with the next operation -/
def oneShotWitness : List HandleCall :=
  [.withControls 0 [⟨[0x31, 0x2e, 0x32], true, none⟩],
   .op 0 (.add [0x6f, 0x3d, 0x78] [([0x63, 0x6e], [])]),
   .op 0 (.delete [0x6f, 0x3d, 0x78])]

/-- the same leak for the timeout and the search options (a refused `modify` this time) -/
def oneShotWitness2 : List HandleCall :=
  [.withTimeout 0 500, .withSearchOptions 0 ⟨.always, true, 7, 9⟩,
   .op 0 (.modify [0x6f, 0x3d, 0x78] [(.add, [0x63, 0x6e], [])]),
   .op 0 (.search [] .subtree .never 0 0 false (.prim 2 7 [0x63, 0x6e]) [])]

end Ldap3V

import Ldap3V.Lemmas.Framing
import Ldap3V.Lemmas.Envelope
import Ldap3V.Lemmas.BerPrefix
namespace Ldap3V
open Spec

theorem decodeInner_msg (m : WireMsg) (e y : Bytes) (hwf : m.WF) (he : Enc m.tlv e)
    (hsz : (e ++ y).length < 18446744073709551616) :
    decodeInner (e ++ y) = .frame m.frame.1 m.frame.2.1 m.frame.2.2 e.length := by
  obtain ⟨h1, h2, h3, h4, h5⟩ := hwf
  have hp : parseTag (e ++ y) = .ok m.tlv y :=
    pTag_enc m.tlv e _ 0 y he (by simp at hsz; omega) (by simp; omega) (by omega)
  have henv := envelopeOf_msg m.idc m.id m.op m.ctrls h1 h2 h3 h4
  unfold decodeInner parseTop
  rw [hp]
  simp only [WireMsg.tlv] at henv ⊢
  rw [henv]
  simp [WireMsg.frame]

theorem decodeInner_msg_prefix (m : WireMsg) (e p q : Bytes) (he : Enc m.tlv e)
    (hsz : e.length < 18446744073709551616) (hpq : p ++ q = e) (hq : q ≠ []) :
    decodeInner p = .needMore := by
  unfold decodeInner parseTop parseTag
  rw [pTag_prefix_incomplete m.tlv e p q _ 0 he hsz hpq hq (by omega)]

theorem drain_wf_stream : ∀ (ms : List (WireMsg × Bytes)) (k : Nat) (acc : List (Int × Tlv × List Control)) (F : Nat),
    (∀ p ∈ ms, p.1.WF ∧ Enc p.1.tlv p.2) → k ≤ (ms.map (·.2)).flatten.length →
    (ms.map (·.2)).flatten.length < 18446744073709551616 →
    ((ms.map (·.2)).flatten.take k).length < F →
    Framing.drain F { buf := (ms.map (·.2)).flatten.take k, frames := acc, errored := false } =
      { buf := (arrived ms k).2, frames := acc ++ (arrived ms k).1, errored := false }
  | [], k, acc, F, _, _, _, hF => by
    obtain ⟨G, rfl⟩ : ∃ G, F = G + 1 := ⟨F - 1, by omega⟩
    simp [arrived, drain_succ, decodeInner, parseTop, parseTag, pTag]
  | (m, e) :: rest, k, acc, F, hwf, hk, hsz, hF => by
    obtain ⟨G, rfl⟩ : ∃ G, F = G + 1 := ⟨F - 1, by omega⟩
    have hme := hwf (m, e) (by simp)
    simp only [List.map_cons, List.flatten_cons] at hk hsz hF ⊢
    rw [drain_succ]
    simp only [Bool.false_eq_true, if_false]
    by_cases hle : e.length ≤ k
    · -- the whole of `e` has arrived
      have htake : (e ++ (rest.map (·.2)).flatten).take k = e ++ (rest.map (·.2)).flatten.take (k - e.length) := by
        rw [List.take_append, List.take_of_length_le hle]
      rw [htake]
      rw [decodeInner_msg m e _ hme.1 hme.2 (by
        simp only [List.length_append, List.length_take] at hsz ⊢; omega)]
      simp only [List.drop_left']
      have ih := drain_wf_stream rest (k - e.length) (acc ++ [m.frame]) G
        (fun p hp => hwf p (by simp [hp])) (by simp only [List.length_append] at hk; omega)
        (by simp only [List.length_append] at hsz; omega)
        (by
          have h2 := enc_length_ge m.tlv e hme.2
          rw [htake] at hF
          simp only [List.length_append, List.length_take] at hF ⊢
          omega)
      rw [ih]
      simp [arrived, hle]
    · -- only a proper prefix of `e` is there
      have hlt : k < e.length := by omega
      have htake : (e ++ (rest.map (·.2)).flatten).take k = e.take k := by
        rw [List.take_append_of_le_length (by omega)]
      rw [htake]
      have hq : e.drop k ≠ [] := by
        intro h0
        have := congrArg List.length h0
        simp at this; omega
      rw [decodeInner_msg_prefix m e (e.take k) (e.drop k) hme.2 (by simp only [List.length_append] at hsz; omega)
        (List.take_append_drop k e) hq]
      simp [arrived, hle]

end Ldap3V

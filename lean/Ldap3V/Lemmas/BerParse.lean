/- parse ∘ (any definite-length encoding) = id, for the model parser. -/
import Ldap3V.Lemmas.Ber
namespace Ldap3V
open Spec

theorem hdr_prim (c i : Nat) (hc : c < 4) (hi : i ≤ 30) :
    (c * 64 + i).toUInt8.toNat / 64 = c ∧ ((c * 64 + i).toUInt8.toNat / 32 % 2 == 1) = false ∧
    (c * 64 + i).toUInt8.toNat % 32 = i := by
  rw [toUInt8_toNat _ (by omega)]
  refine ⟨by omega, ?_, by omega⟩
  have : (c * 64 + i) / 32 % 2 = 0 := by omega
  simp [this]

theorem hdr_cons (c i : Nat) (hc : c < 4) (hi : i ≤ 30) :
    (c * 64 + 32 + i).toUInt8.toNat / 64 = c ∧ ((c * 64 + 32 + i).toUInt8.toNat / 32 % 2 == 1) = true ∧
    (c * 64 + 32 + i).toUInt8.toNat % 32 = i := by
  rw [toUInt8_toNat _ (by omega)]
  refine ⟨by omega, ?_, by omega⟩
  have : (c * 64 + 32 + i) / 32 % 2 = 1 := by omega
  simp [this]

theorem lenEnc_length_pos (n : Nat) (l : Bytes) (h : LenEnc n l) : 1 ≤ l.length := by
  rcases h with ⟨_, rfl⟩ | ⟨ds, _, _, _, rfl⟩ <;> simp

theorem enc_length_ge (t : Tlv) (bs : Bytes) (h : Enc t bs) : 2 ≤ bs.length := by
  cases t with
  | prim c i v =>
    obtain ⟨_, _, l, hl, rfl⟩ := h
    have := lenEnc_length_pos _ _ hl
    simp; omega
  | cons c i ks =>
    obtain ⟨_, _, l, body, _, hl, rfl⟩ := h
    have := lenEnc_length_pos _ _ hl
    simp; omega

mutual
theorem pTag_enc : (t : Tlv) → ∀ (bs : Bytes) (fuel depth : Nat) (rest : Bytes),
    Enc t bs → bs.length < 18446744073709551616 → bs.length ≤ fuel → depth + t.depth ≤ maxDepth →
    pTag fuel depth (bs ++ rest) = .ok t rest
  | .prim c i v, bs, fuel, depth, rest, h, hsz, hf, _ => by
    obtain ⟨hc, hi, l, hl, rfl⟩ := h
    obtain ⟨f, rfl⟩ : ∃ f, fuel = f + 1 := ⟨fuel - 1, by simp at hf; omega⟩
    obtain ⟨h1, h2, h3⟩ := hdr_prim c i hc hi
    have hlen : parseLen (l ++ (v ++ rest)) = .ok v.length (v ++ rest) :=
      parseLen_lenEnc _ _ _ hl (by simp at hsz; omega)
    simp only [List.cons_append, List.append_assoc, pTag, hlen, h1, h2, h3]
    simp
  | .cons c i ks, bs, fuel, depth, rest, h, hsz, hf, hd => by
    obtain ⟨hc, hi, l, body, hb, hl, rfl⟩ := h
    obtain ⟨f, rfl⟩ : ∃ f, fuel = f + 1 := ⟨fuel - 1, by simp at hf; omega⟩
    obtain ⟨h1, h2, h3⟩ := hdr_cons c i hc hi
    have hlp := lenEnc_length_pos _ _ hl
    have hlen : parseLen (l ++ (body ++ rest)) = .ok body.length (body ++ rest) :=
      parseLen_lenEnc _ _ _ hl (by simp at hsz; omega)
    have hdep : ¬ depth ≥ maxDepth := by simp [Tlv.depth] at hd; omega
    have hk : pKids f (depth + 1) body = .ok ks [] :=
      pKids_enc ks body f (depth + 1) hb (by simp at hsz; omega) (by simp at hf; omega)
        (by simp [Tlv.depth] at hd; omega)
    simp only [List.cons_append, List.append_assoc, pTag, hlen, h1, h2, h3]
    simp [hdep, hk]
theorem pKids_enc : (ks : List Tlv) → ∀ (body : Bytes) (fuel depth : Nat),
    EncList ks body → body.length < 18446744073709551616 → body.length < fuel →
    depth + Tlv.depthList ks ≤ maxDepth → pKids fuel depth body = .ok ks []
  | [], body, fuel, depth, h, _, hf, _ => by
    obtain ⟨f, rfl⟩ : ∃ f, fuel = f + 1 := ⟨fuel - 1, by omega⟩
    simp only [EncList] at h
    subst h
    simp [pKids]
  | t :: ts, body, fuel, depth, h, hsz, hf, hd => by
    obtain ⟨a, b, ha, hb, rfl⟩ := h
    obtain ⟨f, rfl⟩ : ∃ f, fuel = f + 1 := ⟨fuel - 1, by omega⟩
    have hge := enc_length_ge t a ha
    obtain ⟨x, a', rfl⟩ : ∃ x a', a = x :: a' := by
      cases a with
      | nil => simp at hge
      | cons x a' => exact ⟨x, a', rfl⟩
    have ht : pTag f depth (x :: a' ++ b) = .ok t b :=
      pTag_enc t (x :: a') f depth b ha (by simp at hsz ⊢; omega) (by simp at hf ⊢; omega)
        (by simp [Tlv.depthList] at hd; omega)
    have hts : pKids f depth b = .ok ts [] :=
      pKids_enc ts b f depth hb (by simp at hsz; omega) (by simp at hf hge; omega)
        (by simp [Tlv.depthList] at hd; omega)
    simp only [List.cons_append] at ht ⊢
    simp [pKids, ht, hts]
end

theorem encType_low (c : Nat) (b : Bool) (i : Nat) (hi : i ≤ 30) :
    encType c b i = [(c * 64 + (if b then 32 else 0) + i).toUInt8] := by
  unfold encType
  simp [show ¬ i > 30 by omega]

mutual
theorem enc_encode : (t : Tlv) → WF t → Enc t (encode t)
  | .prim c i v, h => by
    obtain ⟨hc, hi, hv⟩ := h
    refine ⟨hc, hi, encLen v.length, lenEnc_encLen _ hv, ?_⟩
    simp [encode, encType_low c false i hi]
  | .cons c i ks, h => by
    obtain ⟨hc, hi, hv, hk⟩ := h
    refine ⟨hc, hi, encLen (encodeList ks).length, encodeList ks, encList_encode ks hk, lenEnc_encLen _ hv, ?_⟩
    simp [encode, encType_low c true i hi]
theorem encList_encode : (ks : List Tlv) → WFList ks → EncList ks (encodeList ks)
  | [], _ => by simp [EncList, encodeList]
  | t :: ts, h => ⟨encode t, encodeList ts, enc_encode t h.1, encList_encode ts h.2, by simp [encodeList]⟩
end

theorem beVal_lt (ds : Bytes) : beVal ds < 256 ^ ds.length := by
  induction ds with
  | nil => simp [beVal]
  | cons x xs ih =>
    have e : beVal (x :: xs) = x.toNat * 256 ^ xs.length + beVal xs := by
      have := beVal_foldl (0 * 256 + x.toNat) xs
      simpa [beVal] using this
    rw [e, List.length_cons, Nat.pow_succ]
    have hx : x.toNat < 256 := x.toNat_lt
    generalize 256 ^ xs.length = P at *
    have : x.toNat * P ≤ 255 * P := Nat.mul_le_mul_right P (by omega)
    omega

theorem encLen_minimal (n : Nat) (bs : Bytes) (h : LenEnc n bs) : (encLen n).length ≤ bs.length := by
  unfold encLen
  split
  · have := lenEnc_length_pos n bs h
    simpa using this
  · next hn =>
    rcases h with ⟨hs, _⟩ | ⟨ds, h1, _, hv, rfl⟩
    · omega
    · obtain ⟨k, hk⟩ : ∃ k, ds.length = k + 1 := ⟨ds.length - 1, by omega⟩
      have hlt := beVal_lt ds
      rw [hv, hk] at hlt
      have := be256_length_le k n hlt
      simp; omega

end Ldap3V

/-
The paged view of Spec/Stream.lean unfolded along a script, and the bridge between the model's
`firstPaged` / `eraseIdx` and the specification's `pagingCookie` / `dropPaging`.
-/
import Ldap3V.Lemmas.StreamC10
namespace Ldap3V.Stream
open Spec

/-- the raw paged view seen from inside a page: the rest `l` of the current script, then the pending pages -/
def pagedRaw (l : List Recv) (ps : List Page) : View := pagedView rawView (.script l :: ps)

theorem addGain_nil (e : End) : e.addGain [] = e := by cases e <;> simp [End.addGain]

theorem after_nil_nil (w : View) : View.after [] [] w = w := by
  unfold View.after
  split
  · rename_i h; cases w; simp at h; simp [h, addGain_nil]
  · rename_i st tl h; cases w; simp at h; simp [h]

theorem after_cons (a : Step) (steps : List Step) (g : List Bytes) (w : View) :
    View.after (a :: steps) g w = ⟨a :: (View.after steps g w).steps, (View.after steps g w).ending⟩ := by
  unfold View.after
  split <;> simp

theorem pagedView_cons_inner (inner : List Recv → View) (l : List Recv) (ps : List Page) (a : Step)
    (v : View) (hv : inner l = ⟨a :: v.steps, v.ending⟩) (inner' : List Recv → View) (l' : List Recv)
    (hv' : inner' l' = v) (hps : pagedView inner ps = pagedView inner' ps) :
    pagedView inner (.script l :: ps) =
      ⟨a :: (pagedView inner' (.script l' :: ps)).steps, (pagedView inner' (.script l' :: ps)).ending⟩ := by
  obtain ⟨vs, ve⟩ := v
  simp only [pagedView, hv, hv']
  cases ve with
  | done g r =>
    simp only
    cases pagingCookie r.ctrls with
    | none => rfl
    | some o =>
      cases o with
      | none => rfl
      | some ck =>
        simp only
        split
        · rfl
        · rw [after_cons, hps]
  | fail g e => rfl
  | pending => rfl
  | panic => rfl

theorem pagedRaw_item (i : Item) (l : List Recv) (ps : List Page) :
    pagedRaw (.item i :: l) ps = ⟨⟨[], i⟩ :: (pagedRaw l ps).steps, (pagedRaw l ps).ending⟩ :=
  pagedView_cons_inner rawView _ ps ⟨[], i⟩ (rawView l) (rawView_item i l) rawView l rfl rfl

theorem pagedRaw_nil (ps : List Page) : pagedRaw [] ps = ⟨[], .pending⟩ := rfl
theorem pagedRaw_closed (l : List Recv) (ps : List Page) : pagedRaw (.closed :: l) ps = ⟨[], .fail [] .endOfStream⟩ := rfl
theorem pagedRaw_timeout (l : List Recv) (ps : List Page) : pagedRaw (.timeout :: l) ps = ⟨[], .fail [] .timeout⟩ := rfl

theorem pagedRaw_done_nocontrol (r : Res) (l : List Recv) (ps : List Page) (h : pagingCookie r.ctrls = none) :
    pagedRaw (.done r :: l) ps = ⟨[], .done [] r⟩ := by
  simp [pagedRaw, pagedView, rawView, h]

theorem pagedRaw_done_novalue (r : Res) (l : List Recv) (ps : List Page) (h : pagingCookie r.ctrls = some none) :
    pagedRaw (.done r :: l) ps = ⟨[], .panic⟩ := by
  simp [pagedRaw, pagedView, rawView, h]

theorem pagedRaw_done_last (r : Res) (l : List Recv) (ps : List Page) (h : pagingCookie r.ctrls = some (some [])) :
    pagedRaw (.done r :: l) ps = ⟨[], .done [] { r with ctrls := dropPaging r.ctrls }⟩ := by
  simp [pagedRaw, pagedView, rawView, h]

theorem pagedRaw_done_more (r : Res) (l : List Recv) (ps : List Page) (ck : Bytes)
    (h : pagingCookie r.ctrls = some (some ck)) (hck : ck ≠ []) :
    pagedRaw (.done r :: l) ps = pagedView rawView ps := by
  simp [pagedRaw, pagedView, rawView, h, hck, after_nil_nil]

theorem pagedRest_nil : pagedView rawView [] = ⟨[], .pending⟩ := rfl
theorem pagedRest_fail (e : Err) (ps : List Page) : pagedView rawView (.fail e :: ps) = ⟨[], .fail [] e⟩ := rfl
theorem pagedRest_script (l : List Recv) (ps : List Page) : pagedView rawView (.script l :: ps) = pagedRaw l ps := rfl

/-! ### controls: model vs specification -/

theorem firstPaged_none (cs : List Ctl) (h : firstPaged cs = none) : pagingCookie cs = none := by
  induction cs with
  | nil => rfl
  | cons c cs ih =>
    unfold firstPaged at h
    by_cases hp : c.paged = true
    · simp [hp] at h
    · simp only [hp, Bool.false_eq_true, if_false, Option.map_eq_none_iff] at h
      have := ih h
      simp only [pagingCookie, Option.map_eq_none_iff] at this ⊢
      simp [List.find?, hp, this]

theorem firstPaged_some (cs : List Ctl) (i : Nat) (c : Ctl) (h : firstPaged cs = some (i, c)) :
    pagingCookie cs = some c.cookie ∧ cs.eraseIdx i = dropPaging cs := by
  induction cs generalizing i with
  | nil => simp [firstPaged] at h
  | cons c0 cs ih =>
    unfold firstPaged at h
    by_cases hp : c0.paged = true
    · simp only [hp, if_true, Option.some.injEq, Prod.mk.injEq] at h
      obtain ⟨rfl, rfl⟩ := h
      simp [pagingCookie, List.find?, hp, dropPaging]
    · simp only [hp, Bool.false_eq_true, if_false, Option.map_eq_some_iff] at h
      obtain ⟨⟨j, c'⟩, hj, heq⟩ := h
      simp only [Prod.mk.injEq] at heq
      obtain ⟨rfl, rfl⟩ := heq
      obtain ⟨h1, h2⟩ := ih j hj
      simp only [pagingCookie, Option.map_eq_some_iff] at h1 ⊢
      refine ⟨?_, by simp [dropPaging, hp, h2]⟩
      simpa [List.find?, hp] using h1

/-! ### requests still to come -/

theorem nextCookie_item (i : Item) (l : List Recv) : nextCookie (.item i :: l) = nextCookie l := by
  simp [nextCookie, rawView_item]

/-- requests a read-to-the-end run will still issue, seen from inside a page -/
def futureReqs (mk : Bytes → Bool → Req) (l : List Recv) (ps : List Page) : List Req :=
  match nextCookie l with
  | some ck => pagedRequests mk ck ps
  | none => []

theorem futureReqs_item (mk : Bytes → Bool → Req) (i : Item) (l : List Recv) (ps : List Page) :
    futureReqs mk (.item i :: l) ps = futureReqs mk l ps := by
  simp [futureReqs, nextCookie_item]

theorem pagedRequests_script (mk : Bytes → Bool → Req) (ck : Bytes) (l : List Recv) (ps : List Page) :
    pagedRequests mk ck (.script l :: ps) = mk ck true :: futureReqs mk l ps := by
  simp only [pagedRequests, futureReqs]
  cases nextCookie l <;> rfl

theorem futureReqs_more (mk : Bytes → Bool → Req) (r : Res) (l : List Recv) (ps : List Page) (ck : Bytes)
    (h : pagingCookie r.ctrls = some (some ck)) (hck : ck ≠ []) :
    futureReqs mk (.done r :: l) ps = pagedRequests mk ck ps := by
  simp [futureReqs, nextCookie, rawView, h, hck]

theorem futureReqs_stop (mk : Bytes → Bool → Req) (l : List Recv) (ps : List Page) (h : nextCookie l = none) :
    futureReqs mk l ps = [] := by
  simp [futureReqs, h]

end Ldap3V.Stream

/- The frame decoder and the FramedRead loop: a decided outcome is stable under appended bytes,
and feeding chunks one after the other equals feeding their concatenation. -/
import Ldap3V.Model.Envelope
import Ldap3V.Lemmas.BerMono
namespace Ldap3V

theorem decodeInner_frame_append (x y : Bytes) (id : Int) (op : Tlv) (cs : List Control) (n : Nat)
    (h : decodeInner x = .frame id op cs n) :
    2 ≤ n ∧ n ≤ x.length ∧ decodeInner (x ++ y) = .frame id op cs n := by
  unfold decodeInner parseTop parseTag at h ⊢
  cases hp : pTag (x.length + 1) 0 x with
  | incomplete => rw [hp] at h; cases h
  | error => rw [hp] at h; cases h
  | ok tag rest =>
    rw [hp] at h
    have hr := pTag_rest_le _ _ _ _ _ hp
    have hp' := pTag_append_ok (x.length + 1) ((x ++ y).length + 1) 0 x y tag rest hp (by omega) (by omega)
    rw [hp']
    simp only at h ⊢
    cases he : envelopeOf tag with
    | none => rw [he] at h; cases h
    | some m =>
      obtain ⟨i, o, c⟩ := m
      rw [he] at h
      simp only [DecOut.frame.injEq] at h ⊢
      obtain ⟨h1, h2, h3, h4⟩ := h
      refine ⟨by omega, by omega, h1, h2, h3, ?_⟩
      simp only [List.length_append]; omega

theorem decodeInner_error_append (x y : Bytes) (h : decodeInner x = .decodeError) :
    decodeInner (x ++ y) = .decodeError := by
  unfold decodeInner parseTop parseTag at h ⊢
  cases hp : pTag (x.length + 1) 0 x with
  | incomplete => rw [hp] at h; cases h
  | error =>
    rw [pTag_append_error (x.length + 1) ((x ++ y).length + 1) 0 x y hp (by omega) (by omega) (by omega) (by omega)]
  | ok tag rest =>
    rw [hp] at h
    rw [pTag_append_ok (x.length + 1) ((x ++ y).length + 1) 0 x y tag rest hp (by omega) (by omega)]
    simp only at h ⊢
    cases he : envelopeOf tag with
    | none => rfl
    | some m => obtain ⟨i, o, c⟩ := m; rw [he] at h; cases h

/-- fuel independence of the drain loop: any fuel above the buffer length gives the same result -/
theorem drain_fuel : ∀ (f f' : Nat) (s : Framing), s.buf.length < f → s.buf.length < f' →
    Framing.drain f s = Framing.drain f' s
  | 0, _, _, h, _ => by omega
  | _, 0, _, _, h => by omega
  | f + 1, f' + 1, s, hf, hf' => by
    simp only [Framing.drain]
    split
    · rfl
    · cases hd : decodeInner s.buf with
      | needMore => rfl
      | decodeError => rfl
      | frame id op cs n =>
        obtain ⟨h2, hn, _⟩ := decodeInner_frame_append s.buf [] id op cs n hd
        simp only
        exact drain_fuel f f' _ (by simp; omega) (by simp; omega)

/-- the loop invariant of FramedRead between reads: nothing more can be taken from the buffer -/
def Drained (s : Framing) : Prop := s.errored = true ∨ decodeInner s.buf = .needMore

theorem drain_drained : ∀ (f : Nat) (s : Framing), s.buf.length < f → Drained (Framing.drain f s)
  | 0, _, h => by omega
  | f + 1, s, hf => by
    simp only [Framing.drain]
    split
    · next he => exact Or.inl he
    · cases hd : decodeInner s.buf with
      | needMore => exact Or.inr hd
      | decodeError => exact Or.inl rfl
      | frame id op cs n =>
        obtain ⟨h2, hn, _⟩ := decodeInner_frame_append s.buf [] id op cs n hd
        exact drain_drained f _ (by simp; omega)

theorem drain_succ (f : Nat) (s : Framing) :
    Framing.drain (f + 1) s =
      if s.errored then s else
      match decodeInner s.buf with
      | .needMore => s
      | .decodeError => { s with errored := true, buf := [] }
      | .frame id op cs n => Framing.drain f { s with buf := s.buf.drop n, frames := s.frames ++ [(id, op, cs)] } := by
  rfl

/-- what a further read of `b` does to a state -/
def after (s1 : Framing) (b : Bytes) : Framing :=
  if s1.errored then s1 else Framing.drain ((s1.buf ++ b).length + 1) { s1 with buf := s1.buf ++ b }

/-- draining, then appending `b` and draining again = appending `b` first and draining once -/
theorem drain_append : ∀ (f : Nat) (s : Framing) (b : Bytes), s.errored = false → s.buf.length < f →
    after (Framing.drain f s) b = after s b
  | 0, _, _, _, h => by omega
  | f + 1, s, b, he, hf => by
    rw [drain_succ f s, he]
    simp only [Bool.false_eq_true, if_false]
    cases hd : decodeInner s.buf with
    | needMore => rfl
    | decodeError =>
      simp only
      unfold after
      simp only [he, Bool.false_eq_true, if_false, if_true]
      rw [drain_succ]
      simp only [Bool.false_eq_true, if_false, decodeInner_error_append s.buf b hd]
    | frame id op cs n =>
      obtain ⟨h2, hn, hap⟩ := decodeInner_frame_append s.buf b id op cs n hd
      simp only
      rw [drain_append f { buf := s.buf.drop n, frames := s.frames ++ [(id, op, cs)], errored := false } b rfl
        (by simp; omega)]
      unfold after
      simp only [he, Bool.false_eq_true, if_false]
      rw [drain_succ (s.buf ++ b).length]
      simp only [he, Bool.false_eq_true, if_false, hap]
      rw [List.drop_append_of_le_length hn]
      exact drain_fuel _ _ _ (by simp) (by simp; omega)

theorem feed_drained (s : Framing) (c : Bytes) (h : Drained s) : Drained (s.feed c) := by
  unfold Framing.feed
  split
  · next he => exact Or.inl he
  · exact drain_drained _ _ (by simp)

theorem drain_of_drained (f : Nat) (s : Framing) (h : Drained s) : Framing.drain f s = s := by
  cases f with
  | zero => rfl
  | succ f =>
    simp only [Framing.drain]
    rcases h with he | hn
    · simp [he]
    · split
      · rfl
      · simp [hn]

/-- feeding `a` then `b` is feeding `a ++ b` -/
theorem feed_feed (s : Framing) (a b : Bytes) (_h : Drained s) : (s.feed a).feed b = s.feed (a ++ b) := by
  by_cases he : s.errored = true
  · simp [Framing.feed, he]
  · have he' : s.errored = false := by cases hs : s.errored <;> simp_all
    have key := drain_append ((s.buf ++ a).length + 1) { s with buf := s.buf ++ a } b he' (by simp)
    unfold after at key
    unfold Framing.feed
    simp only [he', Bool.false_eq_true, if_false, List.append_assoc] at key ⊢
    exact key

theorem feedAll_flatten (s : Framing) (cs : List Bytes) (h : Drained s) :
    s.feedAll cs = s.feed cs.flatten := by
  induction cs generalizing s with
  | nil =>
    simp only [Framing.feedAll, List.foldl_nil, List.flatten_nil]
    unfold Framing.feed
    split
    · rfl
    · simp only [List.append_nil]
      exact (drain_of_drained _ s h).symm
  | cons c cs ih =>
    have : Framing.feedAll s (c :: cs) = Framing.feedAll (s.feed c) cs := rfl
    rw [this, ih (s.feed c) (feed_drained s c h), feed_feed s c cs.flatten h]
    rfl

theorem init_drained : Drained ({} : Framing) := by
  right
  simp [decodeInner, parseTop, parseTag, pTag]

end Ldap3V

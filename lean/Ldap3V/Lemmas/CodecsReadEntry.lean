/- Response side of C19, Pre-Read / Post-Read (RFC 4527): `ReadEntryResp::parse` is
`SearchEntry::construct` (C15's, Model/Entry.lean) after `parse_tag`, on every definite-length
encoding of every tree, whatever follows it. -/
import Ldap3V.Lemmas.CodecsResp
import Ldap3V.Lemmas.EntryProps
namespace Ldap3V.Codecs
open Ldap3V Ldap3V.Spec

/-- the model parser on `bs ++ rest`, `bs` any definite-length encoding of `t` -/
theorem parseTag_enc_rest (t : Tlv) (bs rest : Bytes) (h : Enc t bs) (hd : t.depth ≤ maxDepth)
    (hl : (bs ++ rest).length < 18446744073709551616) : parseTag (bs ++ rest) = .ok t rest :=
  pTag_enc t bs _ 0 rest h (by simp at hl; omega) (by simp; omega) (by omega)

/-- the struct `ReadEntryResp::parse` builds from what `construct` returned -/
def respOfConstruct : Ldap3V.Outcome SearchEntry → Outcome ReadEntryResp
  | .panic => .panic
  | .ok se => .ok { text := se.text, bin := se.bin }

theorem readEntryResp_enc (t : Tlv) (bs rest : Bytes) (he : Enc t bs) (hd : t.depth ≤ maxDepth)
    (hl : (bs ++ rest).length < 18446744073709551616) :
    parseReadEntryResp (bs ++ rest) = respOfConstruct (construct t) := by
  simp only [parseReadEntryResp, parseReadEntryOuter, parseTag_enc_rest t bs rest he hd hl]
  cases construct t <;> rfl

theorem readEntryResp_entry (e : Entry) (bs rest : Bytes) (he : Enc (entryTlv e) bs)
    (hl : (bs ++ rest).length < 18446744073709551616) :
    parseReadEntryResp (bs ++ rest) = respOfConstruct (construct (entryTlv e)) :=
  readEntryResp_enc _ bs rest he (Nat.le_trans (depth_entryTlv e) (by decide)) hl

/-- no tree at all: the value does not begin with a BER element the parser accepts -/
theorem readEntryResp_unparsable (bs : Bytes) (h : ∀ t r, parseTag bs ≠ .ok t r) :
    parseReadEntryResp bs = .panic := by
  simp only [parseReadEntryResp, parseReadEntryOuter]

end Ldap3V.Codecs

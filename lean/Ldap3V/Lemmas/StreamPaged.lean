/-
`PagedResults::next` over a direct stream: one call against the paged view (pages concatenated up
to the first empty cookie), with the ghost request list.
-/
import Ldap3V.Lemmas.StreamPagedView
namespace Ldap3V.Stream
open Spec

theorem pageStart_script (sv : Saved) (cs : List RCtl) (s : Stream) (l : List Recv) (ps : List Page)
    (hq : sv.q.filterOk = true) (hp : s.pages = .script l :: ps) :
    ∃ s2, pageStart sv cs s = (s2, .ok) ∧ s2.state = s.state ∧ s2.rx = some l ∧ s2.pages = ps ∧
      s2.reqs = s.reqs ++ [⟨some cs, sv.h.opts, sv.h.tmo, sv.q, true⟩] ∧ s2.res = none ∧ s2.scrubs = s.scrubs := by
  refine ⟨{ s with h := {}, rx := some l, res := none, pages := ps, reqs := s.reqs ++ [⟨some cs, sv.h.opts, sv.h.tmo, sv.q, true⟩] }, ?_, rfl, rfl, rfl, rfl, rfl, rfl⟩
  simp [pageStart, start, startInner, hq, hp, errState]

theorem pageStart_nil (sv : Saved) (cs : List RCtl) (s : Stream)
    (hq : sv.q.filterOk = true) (hp : s.pages = []) :
    ∃ s2, pageStart sv cs s = (s2, .ok) ∧ s2.state = s.state ∧ s2.rx = some [] ∧ s2.pages = [] ∧
      s2.reqs = s.reqs ++ [⟨some cs, sv.h.opts, sv.h.tmo, sv.q, true⟩] ∧ s2.res = none ∧ s2.scrubs = s.scrubs := by
  refine ⟨{ s with h := {}, rx := some [], res := none, pages := [], reqs := s.reqs ++ [⟨some cs, sv.h.opts, sv.h.tmo, sv.q, true⟩] }, ?_, rfl, rfl, rfl, rfl, rfl, rfl⟩
  simp [pageStart, start, startInner, hq, hp, errState]

theorem pageStart_fail (sv : Saved) (cs : List RCtl) (s : Stream) (e : Err) (ps : List Page)
    (hq : sv.q.filterOk = true) (hp : s.pages = .fail e :: ps) :
    ∃ s2, pageStart sv cs s = (s2, .err e) ∧ s2.state = s.state ∧ s2.rx = s.rx ∧ s2.pages = ps ∧
      s2.reqs = s.reqs ++ [⟨some cs, sv.h.opts, sv.h.tmo, sv.q, false⟩] ∧ s2.res = none ∧ s2.scrubs = s.scrubs := by
  refine ⟨{ s with res := none, pages := ps, reqs := s.reqs ++ [⟨some cs, sv.h.opts, sv.h.tmo, sv.q, false⟩] }, ?_, rfl, rfl, rfl, rfl, rfl, rfl⟩
  simp [pageStart, start, startInner, hq, hp, errState]

/-- what one `PagedResults::next` must deliver, given the paged view from inside page `l` with `ps` pending -/
structure PrOut (mk : Bytes → Bool → Req) (total : List Req) (s : Stream) (l : List Recv) (ps : List Page)
    (doneState : SState) (errKnown : Bool) (s' : Stream) (r : NextOut) : Prop where
  item : ∀ st tl, (pagedRaw l ps).steps = st :: tl → r = .ok (some st.item) ∧ st.gain = [] ∧ s'.state = .active ∧
    ∃ l' ps', s'.rx = some l' ∧ s'.pages = ps' ∧ (pagedRaw l' ps').steps = tl ∧
      (pagedRaw l' ps').ending = (pagedRaw l ps).ending ∧ s'.reqs ++ futureReqs mk l' ps' = total ∧
      remaining s' + 1 ≤ remaining s
  done : (pagedRaw l ps).steps = [] → ∀ g r0, (pagedRaw l ps).ending = .done g r0 →
    r = .ok none ∧ g = [] ∧ s'.res = some r0 ∧ s'.reqs = total ∧ s'.state = doneState
  fail : (pagedRaw l ps).steps = [] → ∀ g e, (pagedRaw l ps).ending = .fail g e →
    r = .err e ∧ g = [] ∧ s'.reqs = total ∧ (errKnown = true → s'.state = .error)
  pending : (pagedRaw l ps).steps = [] → (pagedRaw l ps).ending = .pending → r = .pending
  panic : (pagedRaw l ps).steps = [] → (pagedRaw l ps).ending = .panic → r = .panic

theorem PrOut.of_item {mk total s l ps ds ek s' r} (st : Step) (tl : List Step) (e : End)
    (hv : pagedRaw l ps = ⟨st :: tl, e⟩) (hr : r = .ok (some st.item)) (hg : st.gain = []) (hs : s'.state = .active)
    (h : ∃ l' ps', s'.rx = some l' ∧ s'.pages = ps' ∧ (pagedRaw l' ps').steps = tl ∧
      (pagedRaw l' ps').ending = e ∧ s'.reqs ++ futureReqs mk l' ps' = total ∧ remaining s' + 1 ≤ remaining s) :
    PrOut mk total s l ps ds ek s' r := by
  refine ⟨fun st' tl' h' => ?_, fun h' => ?_, fun h' => ?_, fun h' => ?_, fun h' => ?_⟩
  · rw [hv] at h' ⊢; simp only [List.cons.injEq] at h'; obtain ⟨rfl, rfl⟩ := h'; exact ⟨hr, hg, hs, h⟩
  all_goals (rw [hv] at h'; simp at h')

theorem PrOut.of_done {mk total s l ps ds ek s' r} (r0 : Res)
    (hv : pagedRaw l ps = ⟨[], .done [] r0⟩) (hr : r = .ok none) (hres : s'.res = some r0) (hq : s'.reqs = total)
    (hs : s'.state = ds) : PrOut mk total s l ps ds ek s' r := by
  refine ⟨fun st' tl' h' => ?_, fun _ g' r' h' => ?_, fun _ g' e' h' => ?_, fun _ h' => ?_, fun _ h' => ?_⟩
  · rw [hv] at h'; simp at h'
  · rw [hv] at h'; simp only [End.done.injEq] at h'; obtain ⟨rfl, rfl⟩ := h'; exact ⟨hr, rfl, hres, hq, hs⟩
  all_goals (rw [hv] at h'; simp at h')

theorem PrOut.of_fail {mk total s l ps ds ek s' r} (e : Err)
    (hv : pagedRaw l ps = ⟨[], .fail [] e⟩) (hr : r = .err e) (hq : s'.reqs = total)
    (hs : ek = true → s'.state = .error) : PrOut mk total s l ps ds ek s' r := by
  refine ⟨fun st' tl' h' => ?_, fun _ g' r' h' => ?_, fun _ g' e' h' => ?_, fun _ h' => ?_, fun _ h' => ?_⟩
  · rw [hv] at h'; simp at h'
  · rw [hv] at h'; simp at h'
  · rw [hv] at h'; simp only [End.fail.injEq] at h'; obtain ⟨rfl, rfl⟩ := h'; exact ⟨hr, rfl, hq, hs⟩
  all_goals (rw [hv] at h'; simp at h')

theorem PrOut.of_pending {mk total s l ps ds ek s' r}
    (hv : pagedRaw l ps = ⟨[], .pending⟩) (hr : r = .pending) : PrOut mk total s l ps ds ek s' r := by
  refine ⟨fun st' tl' h' => ?_, fun _ g' r' h' => ?_, fun _ g' e' h' => ?_, fun _ _ => hr, fun _ h' => ?_⟩
  all_goals (rw [hv] at h'; simp at h')

theorem PrOut.of_panic {mk total s l ps ds ek s' r}
    (hv : pagedRaw l ps = ⟨[], .panic⟩) (hr : r = .panic) : PrOut mk total s l ps ds ek s' r := by
  refine ⟨fun st' tl' h' => ?_, fun _ g' r' h' => ?_, fun _ g' e' h' => ?_, fun _ h' => ?_, fun _ _ => hr⟩
  all_goals (rw [hv] at h'; simp at h')

/-- the same outcome seen from a state with the same view -/
theorem PrOut.of_view {mk total s s0 l l0 ps ps0 ds ek s' r} (h : PrOut mk total s l ps ds ek s' r)
    (hv : pagedRaw l0 ps0 = pagedRaw l ps) (hrem : remaining s ≤ remaining s0) :
    PrOut mk total s0 l0 ps0 ds ek s' r := by
  refine ⟨fun st tl h' => ?_, fun h' => ?_, fun h' => ?_, fun h' => ?_, fun h' => ?_⟩
  · rw [hv] at h' ⊢
    obtain ⟨h1, hg, h2, l', ps', h3, h4, h5, h6, h7, h8⟩ := h.item st tl h'
    exact ⟨h1, hg, h2, l', ps', h3, h4, h5, h6, h7, by omega⟩
  · rw [hv] at h' ⊢; exact h.done h'
  · rw [hv] at h' ⊢; exact h.fail h'
  · rw [hv] at h' ⊢; exact h.pending h'
  · rw [hv] at h' ⊢; exact h.panic h'

section
variable (size : Int) (sv : Saved) (cs : List RCtl) (hsv : sv.h.ctrls = some cs) (hq : sv.q.filterOk = true)

/-- request `k` of the paged search, as the saved handle makes it -/
def mkReq (size : Int) (sv : Saved) (cs : List RCtl) (ck : Bytes) (acked : Bool) : Req :=
  ⟨some (cs ++ [.paged size ck]), sv.h.opts, sv.h.tmo, sv.q, acked⟩

theorem remaining_rx (s : Stream) (l : List Recv) (h : s.rx = some l) :
    remaining s = l.length + (s.pages.map fun p => scriptLen p + 1).sum := by
  simp [remaining, h]

include hsv hq in
/-- `PagedResults::next` over a direct stream -/
theorem pr_loop (total : List Req) : ∀ (ps : List Page) (l : List Recv) (s : Stream) (f : Nat),
    s.state = .active → s.rx = some l → s.pages = ps → ps.length + 3 ≤ f →
    s.reqs ++ futureReqs (mkReq size sv cs) l ps = total →
    (prLoop f size (some sv) [] s).1 = [] ∧
    PrOut (mkReq size sv cs) total s l ps .active false (prLoop f size (some sv) [] s).2.1
      (prLoop f size (some sv) [] s).2.2 := by
  intro ps
  induction ps with
  | nil =>
    intro l s f hs hrx hps hf hreq
    obtain ⟨f1, rfl⟩ : ∃ f1, f = f1 + 1 + 1 + 1 := ⟨f - 3, by simp at hf; omega⟩
    cases l with
    | nil =>
      have hn : next (f1 + 1 + 1) false [] s = ([], s, .pending) := by
        rw [next_nil _ _ _ hs, nextInner_nil _ hrx]; rfl
      rw [prLoop_pass hn (by simp)]
      exact ⟨rfl, .of_pending (pagedRaw_nil _) rfl⟩
    | cons x l' =>
      cases x with
      | item i =>
        have hn : next (f1 + 1 + 1) false [] s = ([], { s with rx := some l' }, .ok (some i)) := by
          rw [next_nil _ _ _ hs, nextInner_item _ _ _ hrx]; rfl
        rw [prLoop_pass hn (by simp)]
        refine ⟨rfl, .of_item ⟨[], i⟩ _ _ (pagedRaw_item i l' []) rfl rfl hs ⟨l', [], rfl, hps, rfl, rfl, ?_, ?_⟩⟩
        · rw [futureReqs_item] at hreq; exact hreq
        · rw [remaining_rx s _ hrx, remaining_rx _ l' rfl]; simp; omega
      | closed =>
        have hn : next (f1 + 1 + 1) false [] s = ([], { s with rx := none, state := .error }, .err .endOfStream) := by
          rw [next_nil _ _ _ hs, nextInner_closed _ _ hrx]; rfl
        rw [prLoop_pass hn (by simp)]
        refine ⟨rfl, .of_fail _ (pagedRaw_closed _ _) rfl ?_ (by simp)⟩
        rw [futureReqs_stop _ _ _ (by simp [nextCookie, rawView])] at hreq; simpa using hreq
      | timeout =>
        have hn : next (f1 + 1 + 1) false [] s =
            ([], { s with rx := some l', scrubs := s.scrubs ++ [s.reqs.length], state := .error }, .err .timeout) := by
          rw [next_nil _ _ _ hs, nextInner_timeout _ _ hrx]; rfl
        rw [prLoop_pass hn (by simp)]
        refine ⟨rfl, .of_fail _ (pagedRaw_timeout _ _) rfl ?_ (by simp)⟩
        rw [futureReqs_stop _ _ _ (by simp [nextCookie, rawView])] at hreq; simpa using hreq
      | done r =>
        have hn : next (f1 + 1 + 1) false [] s = ([], { s with res := some r, rx := none }, .ok none) := by
          rw [next_nil _ _ _ hs, nextInner_done _ _ _ hrx]; rfl
        cases hc : firstPaged r.ctrls with
        | none =>
          rw [prLoop_nocontrol hn rfl hc]
          have hpc := firstPaged_none _ hc
          refine ⟨rfl, .of_done r (pagedRaw_done_nocontrol r l' _ hpc) rfl rfl ?_ hs⟩
          rw [futureReqs_stop _ _ _ (by simp [nextCookie, rawView, hpc])] at hreq; simpa using hreq
        | some p =>
          obtain ⟨idx, c⟩ := p
          obtain ⟨hpc, hdrop⟩ := firstPaged_some _ _ _ hc
          cases hv : c.cookie with
          | none =>
            rw [prLoop_novalue hn rfl hc hv]
            rw [hv] at hpc
            exact ⟨rfl, .of_panic (pagedRaw_done_novalue r l' _ hpc) rfl⟩
          | some ck =>
            rw [hv] at hpc
            by_cases hck : ck = []
            · subst hck
              rw [prLoop_last hn rfl hc hv]
              refine ⟨rfl, .of_done _ (pagedRaw_done_last r l' _ hpc) rfl (by simp [hdrop]) ?_ hs⟩
              rw [futureReqs_stop _ _ _ (by simp [nextCookie, rawView, hpc])] at hreq; simpa using hreq
            · -- another page is asked for and never comes
              obtain ⟨s2, hp, h1, h2, _, _, _, _⟩ :=
                pageStart_nil sv (cs ++ [.paged size ck]) { s with res := some r, rx := none } hq hps
              rw [prLoop_more hn rfl hc hv hck hsv hp]
              have hn2 : next (f1 + 1) false [] s2 = ([], s2, .pending) := by
                rw [next_nil _ _ _ (h1.trans hs), nextInner_nil _ h2]; rfl
              rw [prLoop_pass hn2 (by simp)]
              refine ⟨rfl, .of_pending ?_ rfl⟩
              rw [pagedRaw_done_more r l' _ ck hpc hck]; rfl
  | cons p ps' ih =>
    intro l s f hs hrx hps hf hreq
    obtain ⟨f1, rfl⟩ : ∃ f1, f = f1 + 1 + 1 + 1 := ⟨f - 3, by simp at hf; omega⟩
    cases l with
    | nil =>
      have hn : next (f1 + 1 + 1) false [] s = ([], s, .pending) := by
        rw [next_nil _ _ _ hs, nextInner_nil _ hrx]; rfl
      rw [prLoop_pass hn (by simp)]
      exact ⟨rfl, .of_pending (pagedRaw_nil _) rfl⟩
    | cons x l' =>
      cases x with
      | item i =>
        have hn : next (f1 + 1 + 1) false [] s = ([], { s with rx := some l' }, .ok (some i)) := by
          rw [next_nil _ _ _ hs, nextInner_item _ _ _ hrx]; rfl
        rw [prLoop_pass hn (by simp)]
        refine ⟨rfl, .of_item ⟨[], i⟩ _ _ (pagedRaw_item i l' _) rfl rfl hs ⟨l', _, rfl, hps, rfl, rfl, ?_, ?_⟩⟩
        · rw [futureReqs_item] at hreq; exact hreq
        · rw [remaining_rx s _ hrx, remaining_rx _ l' rfl]; simp; omega
      | closed =>
        have hn : next (f1 + 1 + 1) false [] s = ([], { s with rx := none, state := .error }, .err .endOfStream) := by
          rw [next_nil _ _ _ hs, nextInner_closed _ _ hrx]; rfl
        rw [prLoop_pass hn (by simp)]
        refine ⟨rfl, .of_fail _ (pagedRaw_closed _ _) rfl ?_ (by simp)⟩
        rw [futureReqs_stop _ _ _ (by simp [nextCookie, rawView])] at hreq; simpa using hreq
      | timeout =>
        have hn : next (f1 + 1 + 1) false [] s =
            ([], { s with rx := some l', scrubs := s.scrubs ++ [s.reqs.length], state := .error }, .err .timeout) := by
          rw [next_nil _ _ _ hs, nextInner_timeout _ _ hrx]; rfl
        rw [prLoop_pass hn (by simp)]
        refine ⟨rfl, .of_fail _ (pagedRaw_timeout _ _) rfl ?_ (by simp)⟩
        rw [futureReqs_stop _ _ _ (by simp [nextCookie, rawView])] at hreq; simpa using hreq
      | done r =>
        have hn : next (f1 + 1 + 1) false [] s = ([], { s with res := some r, rx := none }, .ok none) := by
          rw [next_nil _ _ _ hs, nextInner_done _ _ _ hrx]; rfl
        cases hc : firstPaged r.ctrls with
        | none =>
          rw [prLoop_nocontrol hn rfl hc]
          have hpc := firstPaged_none _ hc
          refine ⟨rfl, .of_done r (pagedRaw_done_nocontrol r l' _ hpc) rfl rfl ?_ hs⟩
          rw [futureReqs_stop _ _ _ (by simp [nextCookie, rawView, hpc])] at hreq; simpa using hreq
        | some p0 =>
          obtain ⟨idx, c⟩ := p0
          obtain ⟨hpc, hdrop⟩ := firstPaged_some _ _ _ hc
          cases hv : c.cookie with
          | none =>
            rw [prLoop_novalue hn rfl hc hv]
            rw [hv] at hpc
            exact ⟨rfl, .of_panic (pagedRaw_done_novalue r l' _ hpc) rfl⟩
          | some ck =>
            rw [hv] at hpc
            by_cases hck : ck = []
            · subst hck
              rw [prLoop_last hn rfl hc hv]
              refine ⟨rfl, .of_done _ (pagedRaw_done_last r l' _ hpc) rfl (by simp [hdrop]) ?_ hs⟩
              rw [futureReqs_stop _ _ _ (by simp [nextCookie, rawView, hpc])] at hreq; simpa using hreq
            · rw [futureReqs_more _ r l' _ ck hpc hck] at hreq
              cases p with
              | script l2 =>
                obtain ⟨s2, hp, h1, h2, h3, h4, _, _⟩ :=
                  pageStart_script sv (cs ++ [.paged size ck]) { s with res := some r, rx := none } l2 ps' hq hps
                rw [prLoop_more hn rfl hc hv hck hsv hp]
                rw [pagedRequests_script] at hreq
                obtain ⟨k1, k2⟩ := ih l2 s2 (f1 + 1 + 1) (h1.trans hs) h2 h3 (by simp at hf ⊢; omega)
                  (by rw [h4]; simpa [mkReq, List.append_assoc] using hreq)
                refine ⟨k1, k2.of_view ?_ ?_⟩
                · rw [pagedRaw_done_more r l' _ ck hpc hck]; rfl
                · rw [remaining_rx s _ hrx, hps, remaining_rx s2 l2 h2, h3]; simp [scriptLen]; omega
              | fail e =>
                obtain ⟨s2, hp, _, _, _, h4, _, _⟩ :=
                  pageStart_fail sv (cs ++ [.paged size ck]) { s with res := some r, rx := none } e ps' hq hps
                rw [prLoop_starterr hn rfl hc hv hck hsv hp]
                refine ⟨rfl, .of_fail e ?_ rfl ?_ (by simp)⟩
                · rw [pagedRaw_done_more r l' _ ck hpc hck]; rfl
                · simp only [pagedRequests] at hreq; rw [h4]; simpa [mkReq] using hreq
end

end Ldap3V.Stream

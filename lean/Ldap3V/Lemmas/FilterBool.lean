/- The boolean structure (`filter`, `filtercomp`, `filterlist`) and the entry point `parse`
against the grammar `G .lib` / `GLib`: soundness, completeness, totality. -/
import Ldap3V.Lemmas.FilterItem
namespace Ldap3V.Filter
open Ldap3V.Spec.Filter
open Ldap3V.Spec (Filter)

/-! ## grammar: items inside parentheses -/

theorem G_of_item {d : Dialect} {f : Filter} {b : Bytes} (h : GItem d f b) : G d f (0x28 :: (b ++ [0x29])) := by
  cases h with
  | eq ha hv => simp only [G]; exact ⟨_, .eq ha hv, rfl⟩
  | ge ha hv => simp only [G]; exact ⟨_, .ge ha hv, rfl⟩
  | le ha hv => simp only [G]; exact ⟨_, .le ha hv, rfl⟩
  | approx ha hv => simp only [G]; exact ⟨_, .approx ha hv, rfl⟩
  | present ha => simp only [G]; exact ⟨_, .present ha, rfl⟩
  | substr ha hi hy hf hne => simp only [G]; exact ⟨_, .substr ha hi hy hf hne, rfl⟩
  | extAttr ha hk ho hn hv => simp only [G]; exact ⟨_, .extAttr ha hk ho hn hv, rfl⟩
  | extRule hm hk hv => simp only [G]; exact ⟨_, .extRule hm hk hv, rfl⟩

/-- every parenthesised filter starts with `(` -/
theorem G_head {d : Dialect} {f : Filter} {s : Bytes} (h : G d f s) : ∃ t, s = 0x28 :: t := by
  cases f <;> simp only [G] at h <;> obtain ⟨b, _, rfl⟩ := h <;> exact ⟨_, rfl⟩

/-! ## failing fast -/

theorem filter_err_of_head (n : Nat) {c : UInt8} {x : Bytes} (h : c ≠ 0x28) : filter n (c :: x) = .err := by
  cases n with
  | zero => rfl
  | succ n =>
    unfold filter delimited
    exact andThen_err (tag_err_of_head rfl (Ne.symm h))

theorem filter_nil (n : Nat) : filter n [] = .err := by
  cases n with
  | zero => rfl
  | succ n =>
    unfold filter delimited
    exact andThen_err (tag1_nil _)

theorem filter_err_of_stop (n : Nat) {r : Bytes} (h : ItemStop r) : filter n r = .err := by
  cases r with
  | nil => exact filter_nil n
  | cons c x => simp only [ItemStop] at h; subst h; exact filter_err_of_head n (by decide)

theorem andF_err_of_head (flt : P Tag) {c : UInt8} {x : Bytes} (h : c ≠ 0x26) : andF flt (c :: x) = .err := by
  unfold andF mapP preceded
  exact andThen_err (andThen_err (tag_err_of_head rfl (Ne.symm h)))

theorem orF_err_of_head (flt : P Tag) {c : UInt8} {x : Bytes} (h : c ≠ 0x7C) : orF flt (c :: x) = .err := by
  unfold orF mapP preceded
  exact andThen_err (andThen_err (tag_err_of_head rfl (Ne.symm h)))

theorem notF_err_of_head (flt : P Tag) {c : UInt8} {x : Bytes} (h : c ≠ 0x21) : notF flt (c :: x) = .err := by
  unfold notF mapP preceded
  exact andThen_err (andThen_err (tag_err_of_head rfl (Ne.symm h)))

/-! ## no panic -/

theorem np_filtercomp {flt : P Tag} (h : NP flt) : NP (filtercomp flt) :=
  np_alt (np_mapP _ (np_preceded (np_tag _) (np_many0 h)))
    (np_alt (np_mapP _ (np_preceded (np_tag _) (np_many0 h)))
      (np_alt (np_mapP _ (np_preceded (np_tag _) h)) np_item))

theorem np_filter : ∀ n, NP (filter n)
  | 0 => by intro i; simp [filter]
  | n + 1 => np_delimited (np_tag _) (np_filtercomp (np_filter n)) (np_tag _)

theorem np_filtexpr : NP filtexpr := fun i => np_alt (np_filter _) np_item i

theorem np_mvFiltexpr : NP mvFiltexpr :=
  np_delimited (np_tag _) (np_mapP _ (np_many1 (np_delimited (np_tag _) np_item (np_tag _)))) (np_tag _)

/-! ## soundness -/

/-- element relation of `many0(filter)` -/
def FiltR (t : Tag) (s : Bytes) : Prop := ∃ f, G .lib f s ∧ t.toTlv = toTlv f

theorem many_to_GL {ts : List Tag} {b : Bytes} (h : Many FiltR ts b) :
    ∃ fs, GL .lib fs b ∧ Tag.toTlvList ts = toTlvList fs := by
  induction h with
  | nil => exact ⟨[], by simp [GL], by simp [Tag.toTlvList, toTlvList]⟩
  | @cons t s ts b hr _ ih =>
    obtain ⟨f, hg, ht⟩ := hr
    obtain ⟨fs, hgl, hts⟩ := ih
    exact ⟨f :: fs, by simp only [GL]; exact ⟨s, b, hg, hgl, rfl⟩, by simp [Tag.toTlvList, toTlvList, ht, hts]⟩

theorem delimited_ok {α β γ : Type} {p : P α} {q : P β} {c : P γ} {i : Bytes} {b : β} {r : Bytes}
    (h : delimited p q c i = .ok b r) :
    ∃ a i1 i2 x, p i = .ok a i1 ∧ q i1 = .ok b i2 ∧ c i2 = .ok x r := by
  obtain ⟨a, i1, h1, h⟩ := andThen_ok h
  obtain ⟨b', i2, h2, h⟩ := andThen_ok h
  obtain ⟨x, i3, h3, h⟩ := andThen_ok h
  obtain ⟨rfl, rfl⟩ := ret_ok h
  exact ⟨a, i1, i2, x, h1, h2, h3⟩

theorem delimited_eq {α β γ : Type} {p : P α} {q : P β} {c : P γ} {i i1 i2 r : Bytes} {a : α} {b : β} {x : γ}
    (h1 : p i = .ok a i1) (h2 : q i1 = .ok b i2) (h3 : c i2 = .ok x r) : delimited p q c i = .ok b r := by
  unfold delimited
  rw [andThen_eq h1, andThen_eq h2, andThen_eq h3]; rfl

theorem preceded_ok {α β : Type} {p : P α} {q : P β} {i : Bytes} {b : β} {r : Bytes}
    (h : preceded p q i = .ok b r) : ∃ a i1, p i = .ok a i1 ∧ q i1 = .ok b r := andThen_ok h

theorem filter_sound : ∀ (n : Nat) (i : Bytes) (t : Tag) (r : Bytes), filter n i = .ok t r →
    ∃ f s, i = s ++ r ∧ G .lib f s ∧ t.toTlv = toTlv f := by
  intro n
  induction n with
  | zero => intro i t r h; simp [filter] at h
  | succ n ih =>
    intro i t r h
    unfold filter at h
    obtain ⟨_, i1, i2, _, h1, h2, h3⟩ := delimited_ok h
    obtain ⟨_, e1⟩ := tag_ok h1
    obtain ⟨_, e3⟩ := tag_ok h3
    have ihR : ∀ i o r, filter n i = .ok o r → ∃ s, i = s ++ r ∧ FiltR o s := by
      intro i o r h
      obtain ⟨f, s, e, hg, ht⟩ := ih i o r h
      exact ⟨s, e, f, hg, ht⟩
    unfold filtercomp at h2
    rcases alt_ok h2 with h2 | ⟨_, h2⟩
    · -- and
      obtain ⟨ts, hp, rfl⟩ := mapP_ok h2
      obtain ⟨_, i1', h4, h5⟩ := preceded_ok hp
      obtain ⟨_, e4⟩ := tag_ok h4
      obtain ⟨b, e5, hm, _⟩ := many0Go_sound ihR _ _ _ _ h5
      obtain ⟨fs, hgl, hts⟩ := many_to_GL hm
      refine ⟨.and fs, 0x28 :: 0x26 :: (b ++ [0x29]), ?_, ?_, ?_⟩
      · rw [e1, e4, e5, e3]; simp
      · simp only [G]; exact ⟨b, hgl, rfl⟩
      · simp [Tag.toTlv, toTlv, hts]
    · rcases alt_ok h2 with h2 | ⟨_, h2⟩
      · -- or
        obtain ⟨ts, hp, rfl⟩ := mapP_ok h2
        obtain ⟨_, i1', h4, h5⟩ := preceded_ok hp
        obtain ⟨_, e4⟩ := tag_ok h4
        obtain ⟨b, e5, hm, _⟩ := many0Go_sound ihR _ _ _ _ h5
        obtain ⟨fs, hgl, hts⟩ := many_to_GL hm
        refine ⟨.or fs, 0x28 :: 0x7C :: (b ++ [0x29]), ?_, ?_, ?_⟩
        · rw [e1, e4, e5, e3]; simp
        · simp only [G]; exact ⟨b, hgl, rfl⟩
        · simp [Tag.toTlv, toTlv, hts]
      · rcases alt_ok h2 with h2 | ⟨_, h2⟩
        · -- not
          obtain ⟨t', hp, rfl⟩ := mapP_ok h2
          obtain ⟨_, i1', h4, h5⟩ := preceded_ok hp
          obtain ⟨_, e4⟩ := tag_ok h4
          obtain ⟨f, s, e5, hg, ht⟩ := ih _ _ _ h5
          refine ⟨.not f, 0x28 :: 0x21 :: (s ++ [0x29]), ?_, ?_, ?_⟩
          · rw [e1, e4, e5, e3]; simp
          · simp only [G]; exact ⟨s, hg, rfl⟩
          · simp [Tag.toTlv, toTlv, ht]
        · -- item
          obtain ⟨f, s, e5, hg, ht⟩ := item_sound h2
          exact ⟨f, 0x28 :: (s ++ [0x29]), by rw [e1, e5, e3]; simp, G_of_item hg, ht⟩

/-! ## completeness -/

theorem tag_cons (c : UInt8) (x : Bytes) : tag [c] (c :: x) = .ok [c] x := tag_append [c] x

theorem filter_item_complete {f : Filter} {b : Bytes} (h : GItem .lib f b) (m : Nat) (rest : Bytes) :
    ∃ t, filter (m + 1) (0x28 :: (b ++ [0x29]) ++ rest) = .ok t rest ∧ t.toTlv = toTlv f := by
  obtain ⟨t, ht, htl⟩ := item_complete (r := 0x29 :: rest) h rfl
  refine ⟨t, ?_, htl⟩
  obtain ⟨c, x, eb, hc⟩ := item_head h
  have e : 0x28 :: (b ++ [0x29]) ++ rest = 0x28 :: (b ++ 0x29 :: rest) := by simp
  have hcomp : filtercomp (filter m) (b ++ 0x29 :: rest) = .ok t (0x29 :: rest) := by
    have hne : c ≠ 0x26 ∧ c ≠ 0x7C ∧ c ≠ 0x21 := by
      refine ⟨?_, ?_, ?_⟩ <;> (intro e0; subst e0; revert hc; decide)
    unfold filtercomp
    have eb' : b ++ 0x29 :: rest = c :: (x ++ 0x29 :: rest) := by rw [eb]; simp
    rw [eb', alt_right (andF_err_of_head _ hne.1), alt_right (orF_err_of_head _ hne.2.1),
      alt_right (notF_err_of_head _ hne.2.2), ← eb']
    exact ht
  rw [e]
  unfold filter
  exact delimited_eq (tag_cons _ _) hcomp (tag_cons _ _)

mutual
theorem filter_complete : (f : Filter) → ∀ (s : Bytes), G .lib f s → ∀ (n : Nat) (rest : Bytes),
    (s ++ rest).length < n → ∃ t, filter n (s ++ rest) = .ok t rest ∧ t.toTlv = toTlv f
  | .and fs, s, h, n, rest, hn => by
    simp only [G] at h
    obtain ⟨b, hgl, rfl⟩ := h
    obtain ⟨m, rfl⟩ : ∃ m, n = m + 1 := ⟨n - 1, by omega⟩
    obtain ⟨ts, hts, htl⟩ := filterlist_complete fs b hgl m ((b ++ 0x29 :: rest).length + 1) (0x29 :: rest)
      (by simp at hn ⊢; omega) (by omega) rfl
    refine ⟨.sequence 2 0 ts, ?_, by simp [Tag.toTlv, toTlv, htl]⟩
    have e : 0x28 :: 0x26 :: (b ++ [0x29]) ++ rest = 0x28 :: 0x26 :: (b ++ 0x29 :: rest) := by simp
    have hcomp : filtercomp (filter m) (0x26 :: (b ++ 0x29 :: rest)) = .ok (.sequence 2 0 ts) (0x29 :: rest) := by
      unfold filtercomp
      apply alt_left
      unfold andF preceded
      exact mapP_eq (andThen_eq (tag_cons _ _) ▸ hts)
    rw [e]
    unfold filter
    exact delimited_eq (tag_cons _ _) hcomp (tag_cons _ _)
  | .or fs, s, h, n, rest, hn => by
    simp only [G] at h
    obtain ⟨b, hgl, rfl⟩ := h
    obtain ⟨m, rfl⟩ : ∃ m, n = m + 1 := ⟨n - 1, by omega⟩
    obtain ⟨ts, hts, htl⟩ := filterlist_complete fs b hgl m ((b ++ 0x29 :: rest).length + 1) (0x29 :: rest)
      (by simp at hn ⊢; omega) (by omega) rfl
    refine ⟨.sequence 2 1 ts, ?_, by simp [Tag.toTlv, toTlv, htl]⟩
    have e : 0x28 :: 0x7C :: (b ++ [0x29]) ++ rest = 0x28 :: 0x7C :: (b ++ 0x29 :: rest) := by simp
    have hcomp : filtercomp (filter m) (0x7C :: (b ++ 0x29 :: rest)) = .ok (.sequence 2 1 ts) (0x29 :: rest) := by
      unfold filtercomp
      rw [alt_right (andF_err_of_head _ (by decide))]
      apply alt_left
      unfold orF preceded
      exact mapP_eq (andThen_eq (tag_cons _ _) ▸ hts)
    rw [e]
    unfold filter
    exact delimited_eq (tag_cons _ _) hcomp (tag_cons _ _)
  | .not f, s, h, n, rest, hn => by
    simp only [G] at h
    obtain ⟨b, hg, rfl⟩ := h
    obtain ⟨m, rfl⟩ : ∃ m, n = m + 1 := ⟨n - 1, by omega⟩
    obtain ⟨t, ht, htl⟩ := filter_complete f b hg m (0x29 :: rest) (by simp at hn ⊢; omega)
    refine ⟨.explicit 2 2 t, ?_, by simp [Tag.toTlv, toTlv, htl]⟩
    have e : 0x28 :: 0x21 :: (b ++ [0x29]) ++ rest = 0x28 :: 0x21 :: (b ++ 0x29 :: rest) := by simp
    have hcomp : filtercomp (filter m) (0x21 :: (b ++ 0x29 :: rest)) = .ok (.explicit 2 2 t) (0x29 :: rest) := by
      unfold filtercomp
      rw [alt_right (andF_err_of_head _ (by decide)), alt_right (orF_err_of_head _ (by decide))]
      apply alt_left
      unfold notF preceded
      exact mapP_eq (andThen_eq (tag_cons _ _) ▸ ht)
    rw [e]
    unfold filter
    exact delimited_eq (tag_cons _ _) hcomp (tag_cons _ _)
  | .eq a v, s, h, n, rest, hn => by
    simp only [G] at h
    obtain ⟨b, hb, rfl⟩ := h
    obtain ⟨m, rfl⟩ : ∃ m, n = m + 1 := ⟨n - 1, by omega⟩
    exact filter_item_complete hb m rest
  | .ge a v, s, h, n, rest, hn => by
    simp only [G] at h
    obtain ⟨b, hb, rfl⟩ := h
    obtain ⟨m, rfl⟩ : ∃ m, n = m + 1 := ⟨n - 1, by omega⟩
    exact filter_item_complete hb m rest
  | .le a v, s, h, n, rest, hn => by
    simp only [G] at h
    obtain ⟨b, hb, rfl⟩ := h
    obtain ⟨m, rfl⟩ : ∃ m, n = m + 1 := ⟨n - 1, by omega⟩
    exact filter_item_complete hb m rest
  | .approx a v, s, h, n, rest, hn => by
    simp only [G] at h
    obtain ⟨b, hb, rfl⟩ := h
    obtain ⟨m, rfl⟩ : ∃ m, n = m + 1 := ⟨n - 1, by omega⟩
    exact filter_item_complete hb m rest
  | .present a, s, h, n, rest, hn => by
    simp only [G] at h
    obtain ⟨b, hb, rfl⟩ := h
    obtain ⟨m, rfl⟩ : ∃ m, n = m + 1 := ⟨n - 1, by omega⟩
    exact filter_item_complete hb m rest
  | .substr a i y z, s, h, n, rest, hn => by
    simp only [G] at h
    obtain ⟨b, hb, rfl⟩ := h
    obtain ⟨m, rfl⟩ : ∃ m, n = m + 1 := ⟨n - 1, by omega⟩
    exact filter_item_complete hb m rest
  | .ext r a v d, s, h, n, rest, hn => by
    simp only [G] at h
    obtain ⟨b, hb, rfl⟩ := h
    obtain ⟨m, rfl⟩ : ∃ m, n = m + 1 := ⟨n - 1, by omega⟩
    exact filter_item_complete hb m rest
theorem filterlist_complete : (fs : List Filter) → ∀ (b : Bytes), GL .lib fs b → ∀ (m k : Nat) (r : Bytes),
    (b ++ r).length < m → (b ++ r).length < k → ItemStop r →
    ∃ ts, many0Go (filter m) k (b ++ r) = .ok ts r ∧ Tag.toTlvList ts = toTlvList fs
  | [], b, h, m, k, r, _, hk, hr => by
    simp only [GL] at h
    subst h
    obtain ⟨k', rfl⟩ : ∃ k', k = k' + 1 := ⟨k - 1, by omega⟩
    refine ⟨[], ?_, by simp [Tag.toTlvList, toTlvList]⟩
    simp [many0Go, filter_err_of_stop m hr]
  | f :: fs, b, h, m, k, r, hm, hk, hr => by
    simp only [GL] at h
    obtain ⟨a, b', hg, hgl, rfl⟩ := h
    obtain ⟨k', rfl⟩ : ∃ k', k = k' + 1 := ⟨k - 1, by omega⟩
    obtain ⟨x, rfl⟩ := G_head hg
    obtain ⟨t, ht, htl⟩ := filter_complete f _ hg m (b' ++ r) (by simp at hm ⊢; omega)
    obtain ⟨ts, hts, htsl⟩ := filterlist_complete fs b' hgl m k' r (by simp at hm ⊢; omega)
      (by simp at hk ⊢; omega) hr
    refine ⟨t :: ts, ?_, by simp [Tag.toTlvList, toTlvList, htl, htsl]⟩
    unfold many0Go
    rw [List.append_assoc, ht]
    have : (b' ++ r).length < (0x28 :: x ++ (b' ++ r)).length := by simp; omega
    simp only [this, if_true, hts]
end

/-! ## the entry point -/

theorem parseO_ok {i : Bytes} {t : Tag} (h : parseCoreO i = .ok t) : filtexpr i = .ok t [] := by
  unfold parseCoreO finish at h
  cases hf : filtexpr i with
  | ok t' rest =>
    rw [hf] at h
    cases rest with
    | nil => simp at h; rw [h]
    | cons c x => simp at h
  | err => rw [hf] at h; cases h
  | panic => rw [hf] at h; cases h

theorem parse_sound {s : Bytes} {t : Tag} (h : parseCoreO s = .ok t) : ∃ f, GLib f s ∧ t.toTlv = toTlv f := by
  have h := parseO_ok h
  unfold filtexpr at h
  rcases alt_ok h with h | ⟨_, h⟩
  · obtain ⟨f, s', e, hg, ht⟩ := filter_sound _ _ _ _ h
    simp at e; subst e
    exact ⟨f, Or.inl hg, ht⟩
  · obtain ⟨f, s', e, hg, ht⟩ := item_sound h
    simp at e; subst e
    exact ⟨f, Or.inr hg, ht⟩

theorem parse_complete {f : Filter} {s : Bytes} (h : GLib f s) : ∃ t, parseCoreO s = .ok t ∧ t.toTlv = toTlv f := by
  rcases h with h | h
  · obtain ⟨t, ht, htl⟩ := filter_complete f s h (s.length + 1) [] (by simp)
    refine ⟨t, ?_, htl⟩
    simp only [List.append_nil] at ht
    unfold parseCoreO filtexpr
    rw [alt_left ht]; rfl
  · obtain ⟨t, ht, htl⟩ := item_complete (r := []) h trivial
    refine ⟨t, ?_, htl⟩
    simp only [List.append_nil] at ht
    obtain ⟨c, x, rfl, hc⟩ := item_head h
    have hne : c ≠ 0x28 := by intro e0; subst e0; revert hc; decide
    unfold parseCoreO filtexpr
    rw [alt_right (filter_err_of_head _ hne), ht]; rfl

theorem parse_some_iff (s : Bytes) (t : Tag) : parseCore s = some t ↔ parseCoreO s = .ok t := by
  unfold parseCore
  cases h : parseCoreO s <;> simp [Outcome.toOption]

/-- a string-level invariant of the language is a reason for rejection -/
theorem reject_of_inv {inv : Bytes → Bool} (hinv : ∀ f s, GLib f s → inv s = true) (s : Bytes)
    (h : inv s = false) : parseCore s = none := by
  cases hp : parseCore s with
  | none => rfl
  | some t =>
    obtain ⟨f, hg, _⟩ := parse_sound ((parse_some_iff s t).mp hp)
    rw [hinv f s hg] at h; cases h

theorem parseCoreO_total (s : Bytes) : parseCoreO s ≠ .panic := by
  unfold parseCoreO finish
  have := np_filtexpr s
  cases h : filtexpr s with
  | ok t rest => simp only []; split <;> simp
  | err => simp
  | panic => exact absurd h this

theorem parseMvO_total (s : Bytes) : parseMvO s ≠ .panic := by
  unfold parseMvO finish
  have := np_mvFiltexpr s
  cases h : mvFiltexpr s with
  | ok t rest => simp only []; split <;> simp
  | err => simp
  | panic => exact absurd h this

end Ldap3V.Filter

/- Helper lemmas about Model.Escape (`ldap_escape`, `dn_escape`, `ldap_unescape`); no property statements here. -/
import Ldap3V.Model.Escape
import Ldap3V.Spec.FilterValue
namespace Ldap3V
open Spec

/-- a statement about all bytes is decided by checking the 256 of them -/
theorem forall_u8 (P : UInt8 → Prop) (h : ∀ n : Fin 256, P (UInt8.ofNat n.val)) (c : UInt8) : P c := by
  have := h ⟨c.toNat, c.toNat_lt⟩
  simpa using this

/-! ### byte facts (each checked on all 256 bytes) -/

set_option maxRecDepth 100000 in
theorem hex_roundtrip : ∀ c : UInt8, (hexNibble (xdigit (c >>> 4)) <<< 4) + hexNibble (xdigit (c &&& 0xF)) = c := by
  apply forall_u8; decide

set_option maxRecDepth 100000 in
theorem xdigit_hi_hex : ∀ c : UInt8, isHexDigit (xdigit (c >>> 4)) = true := by
  apply forall_u8; decide

set_option maxRecDepth 100000 in
theorem xdigit_lo_hex : ∀ c : UInt8, isHexDigit (xdigit (c &&& 0xF)) = true := by
  apply forall_u8; decide

set_option maxRecDepth 100000 in
/-- the `u8` additions inside `xdigit` do not overflow: its argument is `< 16`, its result `≤ 'f'` -/
theorem xdigit_lt : ∀ c : UInt8, (c >>> 4).toNat < 16 ∧ (c &&& 0xF).toNat < 16 ∧
    (c >>> 4).toNat + (if (c >>> 4) < 10 then 0x30 else 0x61 - 10) = (xdigit (c >>> 4)).toNat ∧
    (c &&& 0xF).toNat + (if (c &&& 0xF) < 10 then 0x30 else 0x61 - 10) = (xdigit (c &&& 0xF)).toNat := by
  apply forall_u8; decide

set_option maxRecDepth 100000 in
theorem xdigit_hi_ascii : ∀ c : UInt8, (xdigit (c >>> 4)).toNat < 0x80 := by
  apply forall_u8; decide

set_option maxRecDepth 100000 in
theorem xdigit_lo_ascii : ∀ c : UInt8, (xdigit (c &&& 0xF)).toNat < 0x80 := by
  apply forall_u8; decide

set_option maxRecDepth 100000 in
theorem needsEscape_ascii : ∀ c : UInt8, needsEscape c = true → c.toNat < 0x80 := by
  apply forall_u8; decide

set_option maxRecDepth 100000 in
theorem alwaysEscape_ascii : ∀ c : UInt8, alwaysEscape c = true → c.toNat < 0x80 := by
  apply forall_u8; decide

set_option maxRecDepth 100000 in
theorem escapeLeading_ascii : ∀ c : UInt8, escapeLeading c = true → c.toNat < 0x80 := by
  apply forall_u8; decide

set_option maxRecDepth 100000 in
theorem escapeTrailing_ascii : ∀ c : UInt8, escapeTrailing c = true → c.toNat < 0x80 := by
  apply forall_u8; decide

theorem dnNeed_ascii (len i : Nat) (c : UInt8) (h : dnNeed len i c = true) : c.toNat < 0x80 := by
  simp only [dnNeed, Bool.or_eq_true, Bool.and_eq_true] at h
  rcases h with (h | h) | h
  · exact alwaysEscape_ascii c h
  · exact escapeLeading_ascii c h.2
  · exact escapeTrailing_ascii c h.2

set_option maxRecDepth 100000 in
theorem needsEscape_bs : needsEscape 0x5C = true := by decide
theorem alwaysEscape_bs : alwaysEscape 0x5C = true := by decide

set_option maxRecDepth 100000 in
theorem fvSpecial_of_not_needs : ∀ c : UInt8, needsEscape c = false → fvSpecial c = false := by
  apply forall_u8; decide

set_option maxRecDepth 100000 in
theorem hexVal_xdigit_hi : ∀ c : UInt8, hexVal (xdigit (c >>> 4)) = some (c.toNat / 16) := by
  apply forall_u8; decide

set_option maxRecDepth 100000 in
theorem hexVal_xdigit_lo : ∀ c : UInt8, hexVal (xdigit (c &&& 0xF)) = some (c.toNat % 16) := by
  apply forall_u8; decide

/-- NUL ( ) * -/
def isStructural (b : UInt8) : Bool := b == 0 || b == 0x28 || b == 0x29 || b == 0x2A

set_option maxRecDepth 100000 in
theorem xdigit_hi_not_structural : ∀ c : UInt8, isStructural (xdigit (c >>> 4)) = false := by
  apply forall_u8; decide
set_option maxRecDepth 100000 in
theorem xdigit_lo_not_structural : ∀ c : UInt8, isStructural (xdigit (c &&& 0xF)) = false := by
  apply forall_u8; decide
set_option maxRecDepth 100000 in
theorem not_structural_of_not_needs : ∀ c : UInt8, needsEscape c = false → isStructural c = false := by
  apply forall_u8; decide

/-! ### the escape loop computes a byte-wise map -/

/-- reference form: byte `c` at index `i` becomes `\hh` if `need i c`, else itself -/
def escMap (need : Nat → UInt8 → Bool) : Nat → Bytes → Bytes
  | _, [] => []
  | i, c :: r => (if need i c then escTriple c else [c]) ++ escMap need (i + 1) r

theorem escMap_append (need : Nat → UInt8 → Bool) (i : Nat) (a b : Bytes) :
    escMap need i (a ++ b) = escMap need i a ++ escMap need (i + a.length) b := by
  induction a generalizing i with
  | nil => simp [escMap]
  | cons c a ih =>
    simp only [List.cons_append, escMap, ih, List.length_cons, List.append_assoc]
    rw [show i + 1 + a.length = i + (a.length + 1) by omega]

theorem escapeLoop_spec (need : Nat → UInt8 → Bool) (rest pre : Bytes) (out : Option Bytes)
    (h : out.getD pre = escMap need 0 pre) :
    (escapeLoop need (pre ++ rest) rest pre.length out).getD (pre ++ rest) = escMap need 0 (pre ++ rest) := by
  induction rest generalizing pre out with
  | nil => simpa [escapeLoop] using h
  | cons c r ih =>
    have e1 : pre ++ c :: r = (pre ++ [c]) ++ r := by simp
    have e2 : pre.length + 1 = (pre ++ [c]).length := by simp
    have e3 : escMap need 0 (pre ++ [c]) = escMap need 0 pre ++ (if need pre.length c then escTriple c else [c]) := by
      rw [escMap_append]; simp [escMap]
    unfold escapeLoop
    by_cases hn : need pre.length c = true
    · simp only [hn, if_true]
      have ht : (pre ++ c :: r).take pre.length = pre := by simp
      rw [ht, e1, e2]
      apply ih
      rw [e3]; simp only [hn, if_true, Option.getD_some]
      cases out with
      | none => simp only [Option.getD_none] at h; simp only; rw [← h]
      | some o => simp only [Option.getD_some] at h; simp only; rw [h]
    · simp only [hn, Bool.false_eq_true, if_false]
      cases out with
      | none =>
        simp only
        rw [e1, e2]; apply ih
        rw [e3]; simp only [hn, Bool.false_eq_true, if_false, Option.getD_none]
        simp at h; rw [← h]
      | some o =>
        simp only
        rw [e1, e2]; apply ih
        rw [e3]; simp only [hn, Bool.false_eq_true, if_false, Option.getD_some]
        simp at h; rw [h]

theorem ldapEscape_eq (v : Bytes) : ldapEscape v = escMap ldapNeed 0 v := by
  have := escapeLoop_spec ldapNeed v [] none (by simp [escMap])
  simpa [ldapEscape] using this

theorem dnEscape_eq (v : Bytes) : dnEscape v = escMap (dnNeed v.length) 0 v := by
  have := escapeLoop_spec (dnNeed v.length) v [] none (by simp [escMap])
  simpa [dnEscape] using this

/-! ### nothing to escape: the input is returned, and no `Vec` is allocated (`Cow::Borrowed`) -/

/-- no byte of `w` (standing at index `i`…) satisfies the `if` condition -/
def noNeedFrom (need : Nat → UInt8 → Bool) : Nat → Bytes → Bool
  | _, [] => true
  | i, c :: r => !need i c && noNeedFrom need (i + 1) r

theorem escMap_noNeed (need : Nat → UInt8 → Bool) (i : Nat) (w : Bytes) (h : noNeedFrom need i w = true) :
    escMap need i w = w := by
  induction w generalizing i with
  | nil => rfl
  | cons c r ih =>
    simp only [noNeedFrom, Bool.and_eq_true, Bool.not_eq_true'] at h
    simp [escMap, h.1, ih _ h.2]

theorem escapeLoop_noNeed (need : Nat → UInt8 → Bool) (lit : Bytes) (i : Nat) (w : Bytes)
    (h : noNeedFrom need i w = true) : escapeLoop need lit w i none = none := by
  induction w generalizing i with
  | nil => rfl
  | cons c r ih =>
    simp only [noNeedFrom, Bool.and_eq_true, Bool.not_eq_true'] at h
    simp [escapeLoop, h.1, ih _ h.2]

theorem noNeed_ldap (i : Nat) (w : Bytes) (h : ∀ b ∈ w, needsEscape b = false) : noNeedFrom ldapNeed i w = true := by
  induction w generalizing i with
  | nil => rfl
  | cons c r ih =>
    simp only [noNeedFrom, ldapNeed, Bool.and_eq_true, Bool.not_eq_true']
    exact ⟨h c (by simp), ih _ (fun b hb => h b (by simp [hb]))⟩

theorem noNeed_dn (i : Nat) (w : Bytes) (ha : ∀ b ∈ w, alwaysEscape b = false)
    (hl : i = 0 → ∀ c, w.head? = some c → escapeLeading c = false)
    (ht : ∀ c, w.getLast? = some c → escapeTrailing c = false) :
    noNeedFrom (dnNeed (i + w.length)) i w = true := by
  induction w generalizing i with
  | nil => rfl
  | cons c r ih =>
    simp only [noNeedFrom, Bool.and_eq_true, Bool.not_eq_true']
    refine ⟨?_, ?_⟩
    · simp only [dnNeed, Bool.or_eq_false_iff, Bool.and_eq_false_imp, beq_iff_eq]
      refine ⟨⟨ha c (by simp), fun h0 => hl h0 c rfl⟩, fun h1 => ?_⟩
      have : r = [] := by
        cases r with
        | nil => rfl
        | cons _ _ => simp at h1
      subst this
      exact ht c rfl
    · have e : i + (c :: r).length = (i + 1) + r.length := by simp only [List.length_cons]; omega
      rw [e]
      apply ih
      · exact fun b hb => ha b (by simp [hb])
      · intro h0; omega
      · intro d hd
        apply ht d
        cases r with
        | nil => simp at hd
        | cons x xs => simpa [List.getLast?_cons_cons] using hd

/-! ### `ldap_unescape` -/

/-- reference form of the unescape loop: final state, and the bytes pushed once `output` is `Some` -/
def unescRef : Unescaper → Bytes → Unescaper × Bytes
  | esc, [] => (esc, [])
  | esc, c :: r =>
    ((unescRef (esc.feed c) r).1,
     (match esc.feed c with
      | .value d => [d]
      | _ => []) ++ (unescRef (esc.feed c) r).2)

theorem unescLoop_spec (rest pre : Bytes) (esc : Unescaper) (out : Option Bytes)
    (h : out = none → ∃ x, esc = .value x) :
    (unescLoop (pre ++ rest) rest pre.length esc out).1 = (unescRef esc rest).1 ∧
    (unescLoop (pre ++ rest) rest pre.length esc out).2.getD (pre ++ rest) = out.getD pre ++ (unescRef esc rest).2 := by
  induction rest generalizing pre esc out with
  | nil => cases out <;> simp [unescLoop, unescRef]
  | cons c r ih =>
    have e1 : pre ++ c :: r = (pre ++ [c]) ++ r := by simp
    have e2 : pre.length + 1 = (pre ++ [c]).length := by simp
    have ht : (pre ++ c :: r).take pre.length = pre := by simp
    unfold unescLoop unescRef
    cases out with
    | none =>
      obtain ⟨x, rfl⟩ := h rfl
      by_cases hc : c = 0x5C
      · subst hc
        have hf : (Unescaper.value x).feed 0x5C = .wantFirst := by simp [Unescaper.feed]
        simp only [hf, ht]
        rw [e1, e2]
        have := ih (pre ++ [0x5C]) .wantFirst (some pre) (by simp)
        simpa using this
      · have hf : (Unescaper.value x).feed c = .value c := by simp [Unescaper.feed, hc]
        simp only [hf]
        rw [e1, e2]
        have := ih (pre ++ [c]) (.value c) none (by simp)
        simpa using this
    | some o =>
      generalize esc.feed c = e'
      rw [e1, e2]
      cases e' with
      | wantFirst => simpa using ih (pre ++ [c]) .wantFirst (some o) (by simp)
      | wantSecond p => simpa using ih (pre ++ [c]) (.wantSecond p) (some o) (by simp)
      | value d => simpa using ih (pre ++ [c]) (.value d) (some (o ++ [d])) (by simp)
      | error => simpa using ih (pre ++ [c]) .error (some o) (by simp)

/-- no backslash: `output` stays `None` (the input is returned as is, `Cow::Borrowed`) -/
theorem unescLoop_no_bs (val w : Bytes) (i : Nat) (x : UInt8) (h : ∀ b ∈ w, b ≠ 0x5C) :
    (unescLoop val w i (.value x) none).2 = none := by
  induction w generalizing i x with
  | nil => rfl
  | cons c r ih =>
    have hc : c ≠ 0x5C := h c (by simp)
    have hf : (Unescaper.value x).feed c = .value c := by simp [Unescaper.feed, hc]
    unfold unescLoop
    simp only [hf]
    exact ih _ _ (fun b hb => h b (by simp [hb]))

theorem unescRef_triple (x c : UInt8) (r : Bytes) :
    unescRef (.value x) (escTriple c ++ r) = ((unescRef (.value c) r).1, c :: (unescRef (.value c) r).2) := by
  have h1 := xdigit_hi_hex c
  have h2 := xdigit_lo_hex c
  have h3 := hex_roundtrip c
  simp [escTriple, unescRef, Unescaper.feed, h1, h2, h3]

/-- unescaping an escaped string: ends in state `Value`, and pushes the original bytes -/
theorem unescRef_escMap (need : Nat → UInt8 → Bool) (hbs : ∀ i, need i 0x5C = true) (v : Bytes) (i : Nat) (x : UInt8) :
    ∃ y, unescRef (.value x) (escMap need i v) = (.value y, v) := by
  induction v generalizing i x with
  | nil => exact ⟨x, rfl⟩
  | cons c r ih =>
    obtain ⟨y, hy⟩ := ih (i + 1) c
    refine ⟨y, ?_⟩
    by_cases hn : need i c = true
    · simp only [escMap, hn, if_true]
      rw [unescRef_triple, hy]
    · have hc : c ≠ 0x5C := fun e => hn (e ▸ hbs i)
      simp only [escMap, hn, Bool.false_eq_true, if_false, List.cons_append, List.nil_append]
      simp [unescRef, Unescaper.feed, hc, hy]

theorem ldapUnescape_escMap (need : Nat → UInt8 → Bool) (hbs : ∀ i, need i 0x5C = true) (v : Bytes)
    (hv : utf8Valid v = true) : ldapUnescape (escMap need 0 v) = .ok v := by
  obtain ⟨y, hy⟩ := unescRef_escMap need hbs v 0 0
  have hs := unescLoop_spec (escMap need 0 v) [] (.value 0) none (fun _ => ⟨0, rfl⟩)
  simp only [List.nil_append, List.length_nil, hy, Option.getD_none] at hs
  unfold ldapUnescape
  generalize unescLoop (escMap need 0 v) (escMap need 0 v) 0 (.value 0) none = res at hs
  obtain ⟨e, o⟩ := res
  obtain ⟨h1, h2⟩ := hs
  simp only at h1 h2
  subst h1
  cases o with
  | none => simp only [Option.getD_none] at h2; simp only [h2]
  | some o => simp only [Option.getD_some] at h2; subst h2; simp only [hv, if_true]

/-! ### RFC 4515 rendering -/

theorem rval_escMap (v : Bytes) (i : Nat) : RVal v (escMap ldapNeed i v) := by
  induction v generalizing i with
  | nil => exact .nil
  | cons c r ih =>
    by_cases hn : needsEscape c = true
    · simp only [escMap, ldapNeed, hn, if_true, escTriple, List.cons_append, List.nil_append]
      exact .esc c _ _ r _ (hexVal_xdigit_hi c) (hexVal_xdigit_lo c) (ih _)
    · simp only [escMap, ldapNeed, hn, Bool.false_eq_true, if_false, List.cons_append, List.nil_append]
      exact .lit c r _ (fvSpecial_of_not_needs c (by simpa using hn)) (ih _)

/-- the independent reader undoes every rendering (both hex cases, any byte escaped) -/
theorem readFilterValue_of_rval (v r : Bytes) (h : RVal v r) : readFilterValue r = some v := by
  induction h with
  | nil => rfl
  | lit b v r hb _ ih =>
    have h5 : ¬ b.toNat = 0x5C := by
      intro e; simp [fvSpecial, e] at hb
    rw [readFilterValue.eq_def]; simp [h5, hb, ih]
  | esc b h l v r hh hl _ ih =>
    have e : (b.toNat / 16 * 16 + b.toNat % 16).toUInt8 = b := by
      rw [Nat.div_add_mod']; simp
    rw [readFilterValue.eq_def]; simp [hh, hl, ih, e]

theorem escMap_ldap_no_structural (v : Bytes) (i : Nat) : ∀ b ∈ escMap ldapNeed i v, isStructural b = false := by
  induction v generalizing i with
  | nil => simp [escMap]
  | cons c r ih =>
    intro b hb
    simp only [escMap, List.mem_append] at hb
    rcases hb with hb | hb
    · by_cases hn : needsEscape c = true
      · simp only [ldapNeed, hn, if_true, escTriple, List.mem_cons, List.not_mem_nil, or_false] at hb
        rcases hb with rfl | rfl | rfl
        · decide
        · exact xdigit_hi_not_structural c
        · exact xdigit_lo_not_structural c
      · simp only [ldapNeed, hn, Bool.false_eq_true, if_false, List.mem_cons, List.not_mem_nil, or_false] at hb
        subst hb
        exact not_structural_of_not_needs b (by simpa using hn)
    · exact ih _ b hb

end Ldap3V

/- The message tree of every request is well-formed for the writer and shallow enough for the parser. -/
import Ldap3V.Lemmas.Requests
import Ldap3V.Lemmas.BerParse
namespace Ldap3V
open Spec

/-! ### `WF` from low tags and a total length bound -/

theorem encodeList_le_encode (c i : Nat) (ks : List Tlv) :
    (encodeList ks).length ≤ (encode (.cons c i ks)).length := by
  simp [encode]; omega

mutual
theorem wf_of_low : (t : Tlv) → lowTags t = true → (encode t).length < 18446744073709551616 → WF t
  | .prim c i v, h, hl => by
    simp [lowTags] at h
    simp [encode] at hl
    exact ⟨h.1, h.2, by omega⟩
  | .cons c i ks, h, hl => by
    simp [lowTags] at h
    have := encodeList_le_encode c i ks
    exact ⟨h.1.1, h.1.2, by omega, wfList_of_low ks h.2 (by omega)⟩
theorem wfList_of_low : (ks : List Tlv) → lowTagsList ks = true →
    (encodeList ks).length < 18446744073709551616 → WFList ks
  | [], _, _ => trivial
  | t :: ts, h, hl => by
    simp [lowTagsList] at h
    simp [encodeList] at hl
    exact ⟨wf_of_low t h.1 (by omega), wfList_of_low ts h.2 (by omega)⟩
end

/-! ### lists of generated elements -/

theorem lowTagsList_map {α : Type} (g : α → Tlv) (l : List α) (h : ∀ x, lowTags (g x) = true) :
    lowTagsList (l.map g) = true := by
  induction l with
  | nil => simp [lowTagsList]
  | cons a l ih => simp [lowTagsList, h a, ih]

theorem depthList_map_le {α : Type} (g : α → Tlv) (l : List α) (d : Nat) (h : ∀ x, (g x).depth ≤ d) :
    Tlv.depthList (l.map g) ≤ d := by
  induction l with
  | nil => simp [Tlv.depthList]
  | cons a l ih => simp only [List.map_cons, Tlv.depthList]; have := h a; omega

theorem depthList_prims (l : List Bytes) : Tlv.depthList (l.map fun v => Tlv.prim 0 4 v) = 0 := by
  have := depthList_map_le (fun v => Tlv.prim 0 4 v) l 0 (by intro x; simp [Tlv.depth])
  omega

theorem low_partialAttr (a : Bytes) (vs : List Bytes) : lowTags (partialAttr a vs).toTlv = true := by
  simp [partialAttr, toTlvList_map, lowTags, lowTagsList, lowTagsList_map (fun v => Tlv.prim 0 4 v) vs (fun x => by simp [lowTags])]

theorem depth_partialAttr (a : Bytes) (vs : List Bytes) : (partialAttr a vs).toTlv.depth ≤ 2 := by
  simp [partialAttr, toTlvList_map, Tlv.depth, Tlv.depthList, depthList_prims]

theorem low_modItem (m : ModKind × Bytes × List Bytes) : lowTags (modItem m).toTlv = true := by
  simp [modItem, lowTags, lowTagsList, low_partialAttr]

theorem depth_modItem (m : ModKind × Bytes × List Bytes) : (modItem m).toTlv.depth ≤ 3 := by
  have := depth_partialAttr m.2.1 m.2.2
  simp only [modItem, toTlv_seq, toTlvList_cons, toTlvList_nil, toTlv_enum, Tlv.depth, Tlv.depthList]
  omega

theorem low_buildControl (c : RawControl) : lowTags (buildControl c) = true := by
  obtain ⟨o, crit, val⟩ := c
  cases crit <;> cases val <;> simp [buildControl, lowTags, lowTagsList]

theorem depth_buildControl (c : RawControl) : (buildControl c).depth ≤ 1 := by
  obtain ⟨o, crit, val⟩ := c
  cases crit <;> cases val <;> simp [buildControl, Tlv.depth, Tlv.depthList]

/-! ### the protocolOp -/

theorem low_build (r : Request) (hrej : mustReject r = false) (hf : FilterOk r) : lowTags (build r).toTlv = true := by
  cases r with
  | simpleBind dn pw => simp [build, lowTags, lowTagsList]
  | saslExternal => simp [build, saslBindReq, lowTags, lowTagsList]
  | search base scope deref sl tl to f attrs =>
    simp [build, lowTags, lowTagsList, toTlvList_map, hf.1, lowTagsList_map (fun v => Tlv.prim 0 4 v) attrs (fun x => by simp [lowTags])]
  | add dn attrs =>
    simp [build, lowTags, lowTagsList, toTlvList_map,
      lowTagsList_map (fun a : Bytes × List Bytes => (partialAttr a.1 a.2).toTlv) attrs (fun x => low_partialAttr _ _)]
  | compare dn attr val => simp [build, lowTags, lowTagsList]
  | delete dn => simp [build, lowTags]
  | modify dn mods =>
    simp [build, lowTags, lowTagsList, toTlvList_map, lowTagsList_map (fun m => (modItem m).toTlv) mods low_modItem]
  | modifyDn dn rdn d sup => cases sup <;> simp [build, lowTags, lowTagsList]
  | extended name val =>
    cases name with
    | none => simp [mustReject] at hrej
    | some n => cases val <;> simp [build, exopItems, lowTags, lowTagsList]
  | unbind => simp [build, lowTags]
  | abandon id => simp [build, lowTags]

theorem depth_build (r : Request) (hrej : mustReject r = false) (hf : FilterOk r) : (build r).toTlv.depth ≤ 63 := by
  cases r with
  | simpleBind dn pw => simp [build, Tlv.depth, Tlv.depthList]
  | saslExternal => simp [build, saslBindReq, Tlv.depth, Tlv.depthList]
  | search base scope deref sl tl to f attrs =>
    have h1 := hf.2
    have h2 := depthList_prims attrs
    simp only [build, toTlv_sequence, toTlvList_cons, toTlvList_nil, toTlv_octets, toTlv_enum, toTlv_int, toTlv_bool,
      toTlv_structure, toTlv_seq, toTlvList_map, Tlv.depth, Tlv.depthList, h2]
    omega
  | add dn attrs =>
    have := depthList_map_le (fun a : Bytes × List Bytes => (partialAttr a.1 a.2).toTlv) attrs 2
      (fun x => depth_partialAttr _ _)
    simp only [build, toTlv_sequence, toTlvList_cons, toTlvList_nil, toTlv_octets, toTlv_seq, toTlvList_map,
      Tlv.depth, Tlv.depthList]
    omega
  | compare dn attr val => simp [build, Tlv.depth, Tlv.depthList]
  | delete dn => simp [build, Tlv.depth]
  | modify dn mods =>
    have := depthList_map_le (fun m => (modItem m).toTlv) mods 3 depth_modItem
    simp only [build, toTlv_sequence, toTlvList_cons, toTlvList_nil, toTlv_octets, toTlv_seq, toTlvList_map,
      Tlv.depth, Tlv.depthList]
    omega
  | modifyDn dn rdn d sup => cases sup <;> simp [build, Tlv.depth, Tlv.depthList]
  | extended name val =>
    cases name with
    | none => simp [mustReject] at hrej
    | some n => cases val <;> simp [build, exopItems, Tlv.depth, Tlv.depthList]
  | unbind => simp [build, Tlv.depth]
  | abandon id => simp [build, Tlv.depth]

/-! ### the message -/

theorem low_msgTree (id : Nat) (r : Request) (cs : Option (List RawControl)) (hrej : mustReject r = false)
    (hf : FilterOk r) : lowTags (msgTree id r cs) = true := by
  have h := low_build r hrej hf
  cases cs with
  | none => simp [msgTree, lowTags, lowTagsList, h]
  | some cs => simp [msgTree, lowTags, lowTagsList, h, lowTagsList_map buildControl cs low_buildControl]

theorem depth_msgTree (id : Nat) (r : Request) (cs : Option (List RawControl)) (hrej : mustReject r = false)
    (hf : FilterOk r) : (msgTree id r cs).depth ≤ maxDepth := by
  have h := depth_build r hrej hf
  cases cs with
  | none =>
    simp only [msgTree, List.append_nil, toTlv_seq, toTlvList_cons, toTlvList_nil, toTlv_int, Tlv.depth, Tlv.depthList,
      maxDepth]
    omega
  | some cs =>
    have := depthList_map_le buildControl cs 1 depth_buildControl
    simp only [msgTree, List.cons_append, List.nil_append, toTlv_seq, toTlvList_cons, toTlvList_nil, toTlv_int,
      toTlv_structure, Tlv.depth, Tlv.depthList, maxDepth]
    omega

/-- the parser reads the written message back as the tree the encoder built, leaving nothing -/
theorem parse_encodeMsg (id : Nat) (r : Request) (cs : Option (List RawControl)) (hrej : mustReject r = false)
    (hf : FilterOk r) (hl : (encodeMsg (id : Int) (build r) cs).length < 18446744073709551616) :
    parseTag (encodeMsg (id : Int) (build r) cs) = .ok (msgTree id r cs) [] := by
  rw [encodeMsg_eq] at hl ⊢
  have hwf := wf_of_low _ (low_msgTree id r cs hrej hf) hl
  have hd := depth_msgTree id r cs hrej hf
  have h : parseTag (encode (msgTree id r cs) ++ []) = .ok (msgTree id r cs) [] :=
    pTag_enc (msgTree id r cs) (encode (msgTree id r cs)) _ 0 [] (enc_encode _ hwf) hl (by simp) (by omega)
  simpa using h

end Ldap3V

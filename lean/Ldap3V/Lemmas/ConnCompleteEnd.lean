/-
Completeness of search delivery, the end of the driver.  `CAt` (Lemmas/ConnComplete.lean) describes a
channel while its search is registered and after its Done.  Here: what the step that ENDS the driver
does (it clears the routing maps, so `CAt.open_` says nothing afterwards), and that nothing is read
or delivered after it.
-/
import Ldap3V.Lemmas.ConnCompleteRun
namespace Ldap3V.Conn

/-- `routeSearch` either hands the frame on (the driver goes on) or ends the driver; by the frame alone -/
theorem routeSearch_cases (s : St) (c : Nat) (f : Frame) :
    (deliverable f = true ∧ (routeSearch s c f).drv = s.drv) ∨
    (deliverable f = false ∧ routeSearch s c f = endDriver s .endedErr) := by
  by_cases h4 : f.op = 4 ∨ f.op = 25 ∨ f.op = 19
  · left
    refine ⟨?_, ?_⟩
    · rcases h4 with h | h | h <;> simp [deliverable, h]
    · simp only [routeSearch, if_pos h4]
      repeat' split
      all_goals rfl
  · by_cases h5 : f.op = 5
    · cases hg : f.good with
      | true =>
        left
        refine ⟨by simp [deliverable, h5, hg], ?_⟩
        simp only [routeSearch, if_neg h4, if_pos h5, hg, if_true]
        repeat' split
        all_goals rfl
      | false =>
        right
        refine ⟨?_, by simp [routeSearch, h5, hg]⟩
        have : ¬ (f.op = 4) ∧ ¬ (f.op = 25) ∧ ¬ (f.op = 19) := by omega
        simp [deliverable, this, hg]
    · right
      refine ⟨?_, by simp [routeSearch, if_neg h4, h5]⟩
      have : ¬ (f.op = 4) ∧ ¬ (f.op = 25) ∧ ¬ (f.op = 19) := by omega
      simp [deliverable, this, h5]

/-- What a step does to the driver's life.  Either the driver's status is unchanged (and a driver that
has ended reads nothing more), or this is the step that ends a running driver: no channel is
touched, and at most one more frame is read — one that `routeSearch` does not hand on (neither an
entry / reference / intermediate message nor a well-formed SearchResultDone; fix F4). -/
theorem step_ends {s s' : St} {ob : Obs} (e : Ev) (hs : step s e = some (s', ob)) :
    (s'.drv = s.drv ∧ (s.drv ≠ .running → s'.pos = s.pos)) ∨
    (s.drv = .running ∧ s'.drv ≠ .running ∧ s'.chans = s.chans ∧ s'.srvLog = s.srvLog ∧ (∀ b, e = .drvOp b → b = false) ∧
      (s'.pos = s.pos ∨ ∃ f, s.srvLog[s.pos]? = some f ∧ s'.pos = s.pos + 1 ∧ deliverable f = false)) := by
  cases e
  case drvResp =>
    simp only [step] at hs
    split at hs
    · cases hs
    · next hrun =>
      have hrun : s.drv = .running := Decidable.not_not.mp hrun
      cases hf : s.srvLog[s.pos]? with
      | none =>
        rw [hf] at hs
        simp only at hs
        split at hs
        · cases hs
        · simp only [Option.some.injEq, Prod.mk.injEq] at hs
          obtain ⟨rfl, _⟩ := hs
          exact Or.inr ⟨hrun, by simp [endDriver], rfl, rfl, (fun _ h => by cases h), Or.inl rfl⟩
        · simp only [Option.some.injEq, Prod.mk.injEq] at hs
          obtain ⟨rfl, _⟩ := hs
          exact Or.inr ⟨hrun, by simp [endDriver], rfl, rfl, (fun _ h => by cases h), Or.inl rfl⟩
      | some f =>
        rw [hf] at hs
        simp only at hs
        split at hs
        · next c0 _ =>
          simp only [Option.some.injEq, Prod.mk.injEq] at hs
          obtain ⟨rfl, _⟩ := hs
          rcases routeSearch_cases ({ s with pos := s.pos + 1 } : St) c0 f with ⟨_, h2⟩ | ⟨h1, h2⟩
          · exact Or.inl ⟨h2, fun h => absurd hrun h⟩
          · rw [h2]
            exact Or.inr ⟨hrun, by simp [endDriver], rfl, rfl, (fun _ h => by cases h), Or.inr ⟨f, rfl, rfl, h1⟩⟩
        · split at hs
          · simp only [Option.some.injEq, Prod.mk.injEq] at hs
            obtain ⟨rfl, _⟩ := hs
            exact Or.inl ⟨rfl, fun h => absurd hrun h⟩
          · simp only [Option.some.injEq, Prod.mk.injEq] at hs
            obtain ⟨rfl, _⟩ := hs
            exact Or.inl ⟨rfl, fun h => absurd hrun h⟩
  case drvOp b =>
    simp only [step] at hs
    split at hs
    · cases hs
    · next hrun =>
      have hrun : s.drv = .running := Decidable.not_not.mp hrun
      split at hs
      · cases hs
      · split at hs
        · cases hs
        · next o ho =>
          split at hs
          · simp only [Option.some.injEq, Prod.mk.injEq] at hs
            obtain ⟨rfl, _⟩ := hs
            exact Or.inl ⟨rfl, fun h => absurd hrun h⟩
          · split at hs
            · next hb =>
              simp only [Option.some.injEq, Prod.mk.injEq] at hs
              obtain ⟨rfl, _⟩ := hs
              refine Or.inr ⟨hrun, by simp [endDriver], rfl, rfl, fun b' h => ?_, Or.inl rfl⟩
              cases h
              simpa using hb
            · split at hs
              · cases hs
              · cases hk : o.kind <;>
                  (simp only [hk, Option.some.injEq, Prod.mk.injEq] at hs
                   obtain ⟨rfl, _⟩ := hs
                   exact Or.inl ⟨rfl, fun h => absurd hrun h⟩)
  case drvOpClosed =>
    simp only [step] at hs
    split at hs
    · next h =>
      simp only [Option.some.injEq, Prod.mk.injEq] at hs
      obtain ⟨rfl, _⟩ := hs
      exact Or.inr ⟨h.1, by simp [endDriver], rfl, rfl, (fun _ h => by cases h), Or.inl rfl⟩
    · cases hs
  case drvMiscClosed =>
    simp only [step] at hs
    split at hs
    · next h =>
      simp only [Option.some.injEq, Prod.mk.injEq] at hs
      obtain ⟨rfl, _⟩ := hs
      exact Or.inr ⟨h.1, by simp [endDriver], rfl, rfl, (fun _ h => by cases h), Or.inl rfl⟩
    · cases hs
  all_goals simp only [step] at hs
  all_goals repeat' split at hs
  all_goals first | cases hs; done | skip
  all_goals simp only [Option.some.injEq, Prod.mk.injEq] at hs
  all_goals obtain ⟨rfl, _⟩ := hs
  all_goals exact Or.inl ⟨rfl, fun _ => rfl⟩

end Ldap3V.Conn

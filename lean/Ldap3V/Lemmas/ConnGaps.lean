/- Lemmas for the gap-analysis theorems of Props/C11.lean (a malformed frame under a search's ID),
Props/C13.lean (Abandon of a search, collection of a dropped stream) and Props/C12.lean (run-level
"a time-out leaves the other operations alone"). -/
import Ldap3V.Lemmas.ConnFinal
namespace Ldap3V.Conn

/-! ### histories extended by events that allocate nothing -/

theorem freshAt2_nonalloc (s : St) (e : Ev) (h : isAlloc e = false) : FreshAt2 s e := by
  intro kind he
  subst he
  cases h

theorem freshRun2_nonalloc : ∀ (b : List Ev) (s : St), (∀ e ∈ b, isAlloc e = false) → FreshRun2 s b
  | [], _, _ => trivial
  | e :: es, s, h =>
    ⟨freshAt2_nonalloc s e (h e (by simp)), freshRun2_nonalloc es _ (fun x hx => h x (by simp [hx]))⟩

theorem freshRun2_append_of : ∀ (a b : List Ev) (s : St), FreshRun2 s a → FreshRun2 (Conn.run s a) b → FreshRun2 s (a ++ b)
  | [], _, _, _, h => h
  | e :: es, b, s, h1, h2 => by
    have h1' : FreshAt2 s e ∧ FreshRun2 (next s e) es := h1
    rw [run_cons] at h2
    exact ⟨h1'.1, freshRun2_append_of es b (next s e) h1'.2 h2⟩

/-- a history stays fresh when events that allocate nothing are appended -/
theorem freshRun2_append_nonalloc (a b : List Ev) (s : St) (h : FreshRun2 s a) (hb : ∀ e ∈ b, isAlloc e = false) :
    FreshRun2 s (a ++ b) :=
  freshRun2_append_of a b s h (freshRun2_nonalloc b _ hb)

theorem allocCount_append_nonalloc (a b : List Ev) (hb : ∀ e ∈ b, isAlloc e = false) :
    allocCount (a ++ b) = allocCount a := by
  unfold allocCount
  rw [List.countP_append]
  have : List.countP isAlloc b = 0 := by
    rw [List.countP_eq_zero]
    intro e he
    simp [hb e he]
  omega

theorem run_snoc (s : St) (evs : List Ev) (e : Ev) : Conn.run s (evs ++ [e]) = next (Conn.run s evs) e := by
  rw [run_append]; rfl

/-! ### item 1: a frame under a search's ID that is neither an item nor a well-formed done -/

theorem drvResp_bad_search (s : St) (f : Frame) (c : Nat) (hr : s.drv = .running)
    (hf : s.srvLog[s.pos]? = some f) (hl : lookup s.searchmap f.id = some c)
    (hitem : ¬ (f.op = 4 ∨ f.op = 25 ∨ f.op = 19)) (hdone : ¬ (f.op = 5 ∧ f.good = true)) :
    Conn.step s .drvResp = some (endDriver { s with pos := s.pos + 1 } .endedErr, .none) := by
  have hne : (s.drv ≠ .running) = False := by simp [hr]
  simp only [Conn.step, hne, if_false, hf, hl, routeSearch, if_neg hitem]
  by_cases h5 : f.op = 5
  · have hg : f.good = false := by
      cases hgg : f.good with
      | true => exact absurd ⟨h5, hgg⟩ hdone
      | false => rfl
    simp [h5, hg]
  · simp [h5]

end Ldap3V.Conn

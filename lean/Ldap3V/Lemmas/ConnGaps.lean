/- Lemmas for the gap-analysis theorems of Props/C11.lean (a malformed frame under a search's ID),
Props/C13.lean (Abandon of a search, collection of a dropped stream) and Props/C12.lean (run-level
"a time-out leaves the other operations alone"). -/
import Ldap3V.Lemmas.ConnFinal
namespace Ldap3V.Conn

/-! ### histories extended by events that allocate nothing -/

theorem freshAt2_nonalloc (s : St) (e : Ev) (h : isAlloc e = false) : FreshAt2 s e := by
  intro kind he
  subst he
  cases h

theorem freshRun2_nonalloc : ∀ (b : List Ev) (s : St), (∀ e ∈ b, isAlloc e = false) → FreshRun2 s b
  | [], _, _ => trivial
  | e :: es, s, h =>
    ⟨freshAt2_nonalloc s e (h e (by simp)), freshRun2_nonalloc es _ (fun x hx => h x (by simp [hx]))⟩

theorem freshRun2_append_of : ∀ (a b : List Ev) (s : St), FreshRun2 s a → FreshRun2 (Conn.run s a) b → FreshRun2 s (a ++ b)
  | [], _, _, _, h => h
  | e :: es, b, s, h1, h2 => by
    have h1' : FreshAt2 s e ∧ FreshRun2 (next s e) es := h1
    rw [run_cons] at h2
    exact ⟨h1'.1, freshRun2_append_of es b (next s e) h1'.2 h2⟩

/-- a history stays fresh when events that allocate nothing are appended -/
theorem freshRun2_append_nonalloc (a b : List Ev) (s : St) (h : FreshRun2 s a) (hb : ∀ e ∈ b, isAlloc e = false) :
    FreshRun2 s (a ++ b) :=
  freshRun2_append_of a b s h (freshRun2_nonalloc b _ hb)

theorem allocCount_append_nonalloc (a b : List Ev) (hb : ∀ e ∈ b, isAlloc e = false) :
    allocCount (a ++ b) = allocCount a := by
  unfold allocCount
  rw [List.countP_append]
  have : List.countP isAlloc b = 0 := by
    rw [List.countP_eq_zero]
    intro e he
    simp [hb e he]
  omega

theorem run_snoc (s : St) (evs : List Ev) (e : Ev) : Conn.run s (evs ++ [e]) = next (Conn.run s evs) e := by
  rw [run_append]; rfl

/-! ### item 1: a frame under a search's ID that is neither an item nor a well-formed done -/

theorem drvResp_bad_search (s : St) (f : Frame) (c : Nat) (hr : s.drv = .running)
    (hf : s.srvLog[s.pos]? = some f) (hl : lookup s.searchmap f.id = some c)
    (hitem : ¬ (f.op = 4 ∨ f.op = 25 ∨ f.op = 19)) (hdone : ¬ (f.op = 5 ∧ f.good = true)) :
    Conn.step s .drvResp = some (endDriver { s with pos := s.pos + 1 } .endedErr, .none) := by
  have hne : (s.drv ≠ .running) = False := by simp [hr]
  simp only [Conn.step, hne, if_false, hf, hl, routeSearch, if_neg hitem]
  by_cases h5 : f.op = 5
  · have hg : f.good = false := by
      cases hgg : f.good with
      | true => exact absurd ⟨h5, hgg⟩ hdone
      | false => rfl
    simp [h5, hg]
  · simp [h5]

/-! ### item 2: Abandon of a search closes the stream's channel -/

/-- a result that is there is still there after any step (`ResKeep`, as a statement about `bind`) -/
theorem resKeep_bind {ops ops' : List Op} (h : ResKeep ops ops') (j : Nat) (r : Res)
    (hj : (ops[j]?.bind (·.res)) = some r) : (ops'[j]?.bind (·.res)) = some r := by
  cases ho : ops[j]? with
  | none => rw [ho] at hj; cases hj
  | some o =>
    rw [ho] at hj
    simp only [Option.bind_some] at hj
    obtain ⟨o', ho', hk⟩ := h j o ho
    rw [ho']
    simp only [Option.bind_some]
    rw [hk (by rw [hj]; rfl), hj]

/-- all entries of the search map that point at one channel carry the same key -/
theorem sm_chan_key {s : St} (ha : Acct s) {p q : Nat × Nat} (hp : p ∈ s.searchmap) (hq : q ∈ s.searchmap)
    (e : p.2 = q.2) : p.1 = q.1 := by
  obtain ⟨ch1, o1, hc1, ho1, hid1, _⟩ := ha.smOk p hp
  obtain ⟨ch2, o2, hc2, ho2, hid2, _⟩ := ha.smOk q hq
  rw [e, hc2] at hc1; cases hc1
  rw [ho2] at ho1; cases ho1
  rw [← hid1, ← hid2]

/-- the owner of a channel that is registered in the search map is not waiting in the op queue -/
theorem sm_chan_not_queued {s : St} (ha : Acct s) (hri : RouteInv s) {t c : Nat} (hmem : (t, c) ∈ s.searchmap)
    (j : Nat) (hj : j ∈ s.opQ) (o : Op) (ho : s.ops[j]? = some o) : o.chan ≠ some c := by
  intro hch
  obtain ⟨ch, o1, hc, ho1, _, _, hph, _⟩ := ha.smOk (t, c) hmem
  obtain ⟨ch', hc', hidx⟩ := hri.chanOf j o c ho hch
  simp only at hc
  rw [hc] at hc'; cases hc'
  rw [hidx, ho] at ho1; cases ho1
  obtain ⟨o2, ho2, hq⟩ := ha.qPhase j hj
  rw [ho] at ho2; cases ho2
  rw [hph] at hq; cases hq

/-- no sender is left for channel `c` once the entries under key `t` are erased and the queue is
not longer, whatever tame change the operations undergo -/
theorem chanOpen_erase_false {s s' : St} (ha : Acct s) (hri : RouteInv s) {t c : Nat} (hmem : (t, c) ∈ s.searchmap)
    (hsm : s'.searchmap = erase s.searchmap (t : Int)) (hq : ∀ j ∈ s'.opQ, j ∈ s.opQ) (hops : Tame s.ops s'.ops) :
    chanOpen s' c = false := by
  unfold chanOpen
  rw [Bool.or_eq_false_iff]
  constructor
  · rw [List.any_eq_false]
    intro p hp
    rw [hsm] at hp
    obtain ⟨hp1, hp2⟩ := mem_erase hp
    intro e
    simp only [beq_iff_eq] at e
    have := sm_chan_key ha hp1 hmem e
    exact hp2 (by rw [this])
  · rw [List.any_eq_false]
    intro j hj
    cases ho' : s'.ops[j]? with
    | none => simp
    | some o' =>
      obtain ⟨o, ho, hsig, _⟩ := hops.2 j o' ho'
      have hne := sm_chan_not_queued ha hri hmem j (hq j hj) o ho
      have : o'.chan = o.chan := (sig_id hsig).2.2
      simp only [beq_iff_eq]
      rw [this]; exact hne

theorem drvOp_abandon_closes (s : St) (ha : Acct s) (hri : RouteInv s) (i : Nat) (rest : List Nat) (o : Op) (t c : Nat)
    (hr : s.drv = .running) (hq : s.opQ = i :: rest) (ho : s.ops[i]? = some o) (hk : o.kind = .abandon (t : Int))
    (hin : s.inUse.contains o.id = true) (hmem : (t, c) ∈ s.searchmap) (hsk : s.sinkClosed = false) :
    ∃ s', Conn.step s (.drvOp true) = some (s', .none) ∧ chanOpen s' c = false ∧ s'.chans = s.chans ∧
      ResKeep s.ops s'.ops ∧ s'.drv = .running := by
  have hst : ∃ s', Conn.step s (.drvOp true) = some (s', .none) ∧ s'.chans = s.chans ∧ s'.drv = .running ∧
      s'.searchmap = erase s.searchmap (t : Int) ∧ s'.opQ = rest ∧
      s'.ops = modifyOp (dropSenderOpt (s.ops.set i { o with phase := .taken }) (lookup s.resultmap (t : Int))) i
        (fun o => { o with mail := .ack }) := by
    have hne : (s.drv ≠ .running) = False := by simp [hr]
    simp only [Conn.step, hne, if_false, hq, ho, hk, hin, hsk, Bool.not_true, Bool.false_eq_true]
    exact ⟨_, rfl, rfl, hr, rfl, rfl, rfl⟩
  obtain ⟨s', hs, hc, hd, hsm, hq', hops⟩ := hst
  have htame : Tame s.ops s'.ops := by
    rw [hops]
    refine (tame_set s.ops i o { o with phase := .taken } ho rfl (fun f hf => hf)).trans ((tame_dropSenderOpt _ _).trans (tame_modify _ _ _ ?_))
    intro x
    exact ⟨rfl, fun f hf => by cases hf⟩
  refine ⟨s', hs, ?_, hc, step_resKeep ha _ hs, hd⟩
  exact chanOpen_erase_false ha hri hmem hsm (fun j hj => by rw [hq'] at hj; rw [hq]; simp [hj]) htame

/-! ### item 3: a frame routed to a search whose receiver is gone -/

theorem routeSearch_dead_rx (s : St) (c : Nat) (ch : Chan) (f : Frame) (hc : s.chans[c]? = some ch)
    (hdead : ch.rxAlive = false) (hop : f.op = 4 ∨ f.op = 25 ∨ f.op = 19 ∨ (f.op = 5 ∧ f.good = true)) :
    routeSearch s c f = { s with searchmap := erase s.searchmap f.id, inUse := eraseId s.inUse f.id } := by
  by_cases h1 : f.op = 4 ∨ f.op = 25 ∨ f.op = 19
  · simp only [routeSearch, if_pos h1, hc, hdead]
    simp
  · have h5 : f.op = 5 ∧ f.good = true := by
      rcases hop with h | h | h | h
      · exact absurd (Or.inl h) h1
      · exact absurd (Or.inr (Or.inl h)) h1
      · exact absurd (Or.inr (Or.inr h)) h1
      · exact h
    simp only [routeSearch, if_neg h1, if_pos h5.1, h5.2, hc, hdead]
    simp

theorem drvResp_dead_rx (s : St) (f : Frame) (c : Nat) (ch : Chan) (hr : s.drv = .running)
    (hf : s.srvLog[s.pos]? = some f) (hl : lookup s.searchmap f.id = some c) (hc : s.chans[c]? = some ch)
    (hdead : ch.rxAlive = false) (hop : f.op = 4 ∨ f.op = 25 ∨ f.op = 19 ∨ (f.op = 5 ∧ f.good = true)) :
    Conn.step s .drvResp =
      some ({ s with pos := s.pos + 1, searchmap := erase s.searchmap f.id, inUse := eraseId s.inUse f.id }, .none) := by
  have hne : (s.drv ≠ .running) = False := by simp [hr]
  simp only [Conn.step, hne, if_false, hf, hl]
  rw [routeSearch_dead_rx ({ s with pos := s.pos + 1 } : St) c ch f hc hdead hop]

/-! ### item 5: a time-out and the scrubs that follow leave another registered operation alone -/

theorem drvScrub_eq (s : St) (x : Nat) (rest : List Nat) (hr : s.drv = .running) (hq : s.scrubQ = x :: rest) :
    Conn.step s .drvScrub = some (({ s with
      scrubQ := rest
      ops := dropSenderOpt s.ops (lookup s.resultmap x)
      resultmap := erase s.resultmap x
      searchmap := erase s.searchmap x
      inUse := eraseId s.inUse x } : St), .none) := by
  simp [Conn.step, hr, hq]

/-- `n` scrub steps of a running driver: an operation registered in the result map under an ID that is
not being scrubbed keeps its entry and is not touched; the scrubbed IDs are released; results stay -/
theorem scrubs_keep (k j : Nat) (oj : Op) : ∀ (n : Nat) (s : St), RouteInv s → s.drv = .running →
    (k, j) ∈ s.resultmap → s.ops[j]? = some oj → k ∉ s.scrubQ → n ≤ s.scrubQ.length →
    RouteInv (Conn.run s (List.replicate n .drvScrub)) ∧ (Conn.run s (List.replicate n .drvScrub)).drv = .running ∧
    (k, j) ∈ (Conn.run s (List.replicate n .drvScrub)).resultmap ∧
    (Conn.run s (List.replicate n .drvScrub)).ops[j]? = some oj ∧
    (Conn.run s (List.replicate n .drvScrub)).scrubQ = s.scrubQ.drop n ∧
    (∀ x ∈ s.scrubQ.take n, x ∉ (Conn.run s (List.replicate n .drvScrub)).inUse) ∧
    (∀ x ∈ (Conn.run s (List.replicate n .drvScrub)).inUse, x ∈ s.inUse) ∧
    ResKeep s.ops (Conn.run s (List.replicate n .drvScrub)).ops
  | 0, s, hri, hr, hmem, hoj, _, _ => by
    exact ⟨hri, hr, hmem, hoj, rfl, fun x hx => by simp at hx, fun x hx => hx, ResKeep.refl _⟩
  | n + 1, s, hri, hr, hmem, hoj, hk, hn => by
    cases hq : s.scrubQ with
    | nil => rw [hq] at hn; simp at hn
    | cons x rest =>
      have hstep := drvScrub_eq s x rest hr hq
      have hnext : next s .drvScrub = ({ s with
          scrubQ := rest
          ops := dropSenderOpt s.ops (lookup s.resultmap x)
          resultmap := erase s.resultmap x
          searchmap := erase s.searchmap x
          inUse := eraseId s.inUse x } : St) := by
        simp only [next, hstep]
      have hkx : k ≠ x := by
        intro e; apply hk; rw [hq, e]; simp
      have hri1 := hri.step .drvScrub hstep
      have hlook : lookup s.resultmap (x : Int) ≠ some j := by
        intro hl
        obtain ⟨n', hm', hn'⟩ := lookup_some hl
        obtain ⟨o1, ho1, hid1⟩ := hri.rm _ hm'
        obtain ⟨o2, ho2, hid2⟩ := hri.rm _ hmem
        simp only at ho1 ho2 hid1 hid2
        rw [ho2] at ho1; cases ho1
        have : n' = x := by exact_mod_cast hn'
        exact hkx (by rw [← hid2, hid1, this])
      have ih := scrubs_keep k j oj n _ hri1 hr
        (mem_erase_of hmem (by simp only; exact_mod_cast hkx))
        (dropSenderOpt_put s.ops _ j oj hoj hlook)
        (by intro h; apply hk; rw [hq]; simp [h])
        (by rw [hq] at hn; simp at hn; exact hn)
      rw [List.replicate_succ, run_cons, hnext]
      obtain ⟨i1, i2, i3, i4, i5, i6, i7, i8⟩ := ih
      refine ⟨i1, i2, i3, i4, ?_, ?_, ?_, ?_⟩
      · rw [i5]; simp
      · intro y hy
        simp only [List.take_succ_cons, List.mem_cons] at hy
        rcases hy with e | hy
        · intro hin
          have := i7 y hin
          simp only at this
          rw [e] at this
          exact not_mem_eraseId _ _ this
        · exact i6 y hy
      · intro y hy
        exact (mem_eraseId.mp (i7 y hy)).1
      · exact (resKeep_dropSenderOpt s.ops _).trans i8

/-- in a reachable state a key of the result map is looked up as its entry -/
theorem lookup_of_mem {s : St} (hu : Uniq s) (ha : Acct s) {k j : Nat} (hmem : (k, j) ∈ s.resultmap) :
    lookup s.resultmap (k : Int) = some j := by
  cases hl : lookup s.resultmap (k : Int) with
  | none => exact absurd rfl (lookup_none hl _ hmem)
  | some j' => rw [lookup_is hu ha hl hmem rfl]

/-- an operation that is past allocation, has not returned and whose reply slot is empty is outstanding -/
theorem live_of_waiting {s : St} (hp : Pend s) (ha : Acct s) {i : Nat} {o : Op} (ho : s.ops[i]? = some o)
    (hph : o.phase ≠ .allocated) (hm : o.mail = .empty) : Live s i o := by
  cases hq : o.phase with
  | allocated => exact absurd hq hph
  | queued => exact Or.inr (Or.inl (ha.phaseQ i o ho hq))
  | taken => exact Or.inr (Or.inr (Or.inl (hp i o ho hq hm)))

/-- Operation `i` times out at a poll and the driver then works off its scrub queue (the scrubs queued
before, then `i`'s): another operation `j` that is waiting for its reply, and whose ID nobody asked to
scrub, is still registered under its ID, untouched, afterwards; `i` has returned the time-out and
its ID is released. -/
theorem timeout_then_scrubs (s : St) (hp : Pend s) (hu : Uniq s) (ha : Acct s) (hri : RouteInv s)
    (i j : Nat) (oi oj : Op) (d : Nat) (hij : i ≠ j)
    (hoj : s.ops[j]? = some oj) (hjp : oj.phase = .taken) (hjm : oj.mail = .empty)
    (hoi : s.ops[i]? = some oi) (hres : oi.res = none) (hph : oi.phase ≠ .allocated) (him : oi.mail = .empty)
    (hd : oi.deadline = some d) (hle : d ≤ s.now) (hr : s.drv = .running) (hnq : oj.id ∉ s.scrubQ) :
    (Conn.run s (.poll i :: List.replicate (s.scrubQ.length + 1) .drvScrub)).drv = .running ∧
    (Conn.run s (.poll i :: List.replicate (s.scrubQ.length + 1) .drvScrub)).scrubQ = [] ∧
    (∃ oi' : Op, (Conn.run s (.poll i :: List.replicate (s.scrubQ.length + 1) .drvScrub)).ops[i]? = some oi' ∧
      oi'.res = some .timeout) ∧
    oi.id ∉ (Conn.run s (.poll i :: List.replicate (s.scrubQ.length + 1) .drvScrub)).inUse ∧
    (Conn.run s (.poll i :: List.replicate (s.scrubQ.length + 1) .drvScrub)).ops[j]? = some oj ∧
    (oj.id, j) ∈ (Conn.run s (.poll i :: List.replicate (s.scrubQ.length + 1) .drvScrub)).resultmap := by
  have hstep : Conn.step s (.poll i) = some (({ s with
      ops := s.ops.set i { oi with res := some .timeout }
      scrubQ := s.scrubQ ++ [oi.id]
      chans := dropRxOf s.chans oi.chan } : St), .res (some .timeout)) := by
    simp [Conn.step, hoi, hres, hph, him, hd, hle, hr]
  have hnext : next s (.poll i) = ({ s with
      ops := s.ops.set i { oi with res := some .timeout }
      scrubQ := s.scrubQ ++ [oi.id]
      chans := dropRxOf s.chans oi.chan } : St) := by
    simp only [next, hstep]
  have hmem : (oj.id, j) ∈ s.resultmap := hp j oj hoj hjp hjm
  have hne : oi.id ≠ oj.id := by
    intro e
    exact hij (hu.uniq i j oi oj hoi hoj (live_of_waiting hp ha hoi hph him) (Or.inr (Or.inr (Or.inl hmem))) e)
  have hri1 := hri.step (.poll i) hstep
  have hoj1 : (s.ops.set i { oi with res := some .timeout })[j]? = some oj := by
    rw [get_set _ j hoi, if_neg (fun e => hij e.symm)]; exact hoj
  have hoi1 : (s.ops.set i { oi with res := some .timeout })[i]? = some { oi with res := some .timeout } := by
    rw [get_set _ i hoi, if_pos rfl]
  obtain ⟨_, k2, k3, k4, k5, k6, _, k8⟩ := scrubs_keep oj.id j oj (s.scrubQ.length + 1) _ hri1 hr hmem hoj1
    (by simp only [List.mem_append, List.mem_singleton]; rintro (h | h); exact hnq h; exact hne h.symm)
    (by simp)
  rw [run_cons, hnext]
  refine ⟨k2, ?_, ?_, ?_, k4, k3⟩
  · rw [k5]; simp
  · obtain ⟨o', ho', hk⟩ := k8 i _ hoi1
    exact ⟨o', ho', hk rfl⟩
  · apply k6
    rw [List.take_of_length_le (by simp)]
    simp

/-! ### reading a channel that has no sender left, to the end -/

theorem recv_item_eq (s : St) (c : Nat) (ch : Chan) (dl : Option Nat) (it : Item) (hc : s.chans[c]? = some ch)
    (hack : (s.ops[ch.opIdx]?.bind (·.res)) = some .ack) (hrx : ch.rxAlive = true) (hit : ch.items[ch.taken]? = some it) :
    Conn.step s (.recv c dl) = some ({ s with chans := s.chans.set c { ch with taken := ch.taken + 1 } }, .item (some it)) := by
  simp [Conn.step, hc, hrx, hit, hack]

/-- `k` receives on a channel that holds at least `k` unread items: they are consumed, nothing else changes -/
theorem recvs_closed (c : Nat) (dl : Option Nat) : ∀ (k : Nat) (s : St) (ch : Chan), s.chans[c]? = some ch →
    (s.ops[ch.opIdx]?.bind (·.res)) = some .ack → ch.rxAlive = true → ch.taken + k ≤ ch.items.length →
    (Conn.run s (List.replicate k (.recv c dl))).chans[c]? = some { ch with taken := ch.taken + k } ∧
    (Conn.run s (List.replicate k (.recv c dl))).ops = s.ops ∧
    chanOpen (Conn.run s (List.replicate k (.recv c dl))) c = chanOpen s c
  | 0, s, ch, hc, _, _, _ => ⟨hc, rfl, rfl⟩
  | k + 1, s, ch, hc, hack, hrx, hle => by
    have hlt : ch.taken < ch.items.length := by omega
    have hit : ch.items[ch.taken]? = some ch.items[ch.taken] := List.getElem?_eq_getElem hlt
    have hstep := recv_item_eq s c ch dl _ hc hack hrx hit
    have hnext : next s (.recv c dl) = ({ s with chans := s.chans.set c { ch with taken := ch.taken + 1 } } : St) := by
      simp only [next, hstep]
    have hclt : c < s.chans.length := (List.getElem?_eq_some_iff.mp hc).1
    have hc1 : (s.chans.set c { ch with taken := ch.taken + 1 })[c]? = some { ch with taken := ch.taken + 1 } := by
      simp [hclt]
    obtain ⟨i1, i2, i3⟩ := recvs_closed c dl k ({ s with chans := s.chans.set c { ch with taken := ch.taken + 1 } } : St)
      { ch with taken := ch.taken + 1 } hc1 hack hrx (by simp only; omega)
    rw [List.replicate_succ, run_cons, hnext]
    refine ⟨?_, i2, i3⟩
    rw [i1]
    simp only [Option.some.injEq]
    have : ch.taken + 1 + k = ch.taken + (k + 1) := by omega
    rw [this]

/-- a stream whose channel has no sender left reads every queued item, in order, and then `closed` -/
theorem closed_channel_drains (s : St) (c : Nat) (ch : Chan) (dl : Option Nat) (hc : s.chans[c]? = some ch)
    (hack : (s.ops[ch.opIdx]?.bind (·.res)) = some .ack) (hrx : ch.rxAlive = true) (hclosed : chanOpen s c = false) :
    (∀ (k : Nat) (it : Item), ch.items[ch.taken + k]? = some it →
      ∃ s'', Conn.step (Conn.run s (List.replicate k (.recv c dl))) (.recv c dl) = some (s'', .item (some it))) ∧
    Conn.step (Conn.run s (List.replicate (ch.items.length - ch.taken) (.recv c dl))) (.recv c dl) =
      some (Conn.run s (List.replicate (ch.items.length - ch.taken) (.recv c dl)), .closed) := by
  constructor
  · intro k it hit
    have hlt : ch.taken + k < ch.items.length := (List.getElem?_eq_some_iff.mp hit).1
    obtain ⟨h1, h2, _⟩ := recvs_closed c dl k s ch hc hack hrx (by omega)
    exact ⟨_, recv_item_eq _ c _ dl it h1 (by rw [h2]; exact hack) hrx hit⟩
  · by_cases hle : ch.taken ≤ ch.items.length
    · obtain ⟨h1, h2, h3⟩ := recvs_closed c dl (ch.items.length - ch.taken) s ch hc hack hrx (by omega)
      have hn : ch.items[ch.taken + (ch.items.length - ch.taken)]? = none := by
        rw [List.getElem?_eq_none_iff]; omega
      simp [Conn.step, h1, h2, hack, hrx, hn, h3, hclosed]
    · have h0 : ch.items.length - ch.taken = 0 := by omega
      have hn : ch.items[ch.taken]? = none := by
        rw [List.getElem?_eq_none_iff]; omega
      rw [h0]
      simp [Conn.run, Conn.step, hc, hack, hrx, hn, hclosed]

end Ldap3V.Conn
